// Package vc01ref is the reference side of check C01 ("every accepted query
// gets exactly one matching answer on every transport").  It is shared by the
// in-package unit (package dnsserver) and the socket unit (package
// dnsserver_test) and therefore depends only on miekg/dns and rapid.
//
// It contains
//   - the deterministic reference handler Ref (the resolver pipeline "H"): a
//     pure function of the lower-cased name, qtype and qclass of the question;
//   - the reference accept-classifier Classify, derived from the property
//     statement (response bit -> ignored, opcode -> NOTIMP, section counts ->
//     FORMERR, undecodable -> dropped);
//   - per-transport expectations (what the documented treatment of a
//     non-answer is on each transport);
//   - the comparison of a received message with the expected one, modulo what
//     the statement allows to differ (truncation on datagram transports,
//     padding, keep-alive);
//   - generators of queries, structured unacceptable messages and byte-level
//     mutations.
package vc01ref

import (
	"encoding/binary"
	"encoding/hex"
	"encoding/json"
	"fmt"
	"hash/fnv"
	"net"
	"net/url"
	"sort"
	"strconv"
	"strings"

	"github.com/miekg/dns"
	"pgregory.net/rapid"
)

// ---------------------------------------------------------------------------
// reference handler

// Kind is the class of answer the reference handler gives.
type Kind int

// Answer kinds.  A first label k<n> or k<n>-... selects kind n, so every kind
// is reachable by construction; any other name gets a hash-derived kind.
const (
	KOne Kind = iota
	KMulti
	KCNAME
	KNodata
	KNX
	KLarge
	KErr
	KSilent
	KRefused
	KOwnOPT
	// KUnencodable: the handler writes an answer that cannot be packed (a TXT
	// string over 255 octets, or a name with a label over 63 octets).
	KUnencodable
	// KHuge: an answer whose packed size with an empty OPT record is 65500 to
	// 65535 octets, so that padding or keep-alive pushes it over 64 KiB.
	KHuge
	NKinds
)

// KindNames are printable names of the kinds.
var KindNames = [...]string{"one", "multi", "cname", "nodata", "nxdomain", "large", "handler-error", "silent", "refused", "own-opt", "unencodable", "huge"}

// Mode tells what the reference handler does with a query.
type Mode int

// Modes.
const (
	// ModeAnswer: the handler writes exactly one response.
	ModeAnswer Mode = iota
	// ModeError: the handler writes nothing and returns an error.
	ModeError
	// ModeSilent: the handler writes nothing and returns nil.
	ModeSilent
	// ModeUnencodable: the handler writes one response that cannot be packed
	// and returns the writer's error, if any.
	ModeUnencodable
)

// Hash is FNV-1a 32.
func Hash(s string) uint32 {
	h := fnv.New32a()
	_, _ = h.Write([]byte(s))

	return h.Sum32()
}

// KindOf returns the answer kind for a question.
func KindOf(q dns.Question) Kind {
	n := strings.ToLower(q.Name)
	if len(n) >= 2 && n[0] == 'k' {
		i, v := 1, 0
		for i < len(n) && i < 4 && n[i] >= '0' && n[i] <= '9' {
			v = v*10 + int(n[i]-'0')
			i++
		}

		if i > 1 && i < len(n) && (n[i] == '-' || n[i] == '.') {
			return Kind(v % int(NKinds))
		}
	}

	return Kind(Hash(n) % uint32(NKinds))
}

// answerType is the RR type the handler answers a qtype with.
func answerType(qt uint16) uint16 {
	switch qt {
	case dns.TypeA, dns.TypeAAAA, dns.TypeTXT, dns.TypeCNAME, dns.TypeMX, dns.TypeSRV, dns.TypePTR, dns.TypeNS,
		dns.TypeSOA, dns.TypeHTTPS:
		return qt
	default:
		return dns.TypeTXT
	}
}

func refRR(owner string, rrtype, class uint16, h uint32, i int, pad bool) dns.RR {
	hdr := dns.RR_Header{Name: owner, Rrtype: rrtype, Class: class, Ttl: 1 + (h>>3+uint32(i)*7)%86400}
	tag := fmt.Sprintf("h%08x", h)
	switch rrtype {
	case dns.TypeA:
		return &dns.A{Hdr: hdr, A: net.IP{10, byte(h >> 8), byte(h), byte(i)}}
	case dns.TypeAAAA:
		return &dns.AAAA{Hdr: hdr, AAAA: net.IP{0x20, 1, 0xd, 0xb8, byte(h >> 24), byte(h >> 16), byte(h >> 8), byte(h), 0, 0, 0, 0, 0, 0, 0, byte(i)}}
	case dns.TypeCNAME:
		return &dns.CNAME{Hdr: hdr, Target: fmt.Sprintf("c%d.%s.target.test.", i, tag)}
	case dns.TypeMX:
		return &dns.MX{Hdr: hdr, Preference: uint16(10 + i), Mx: fmt.Sprintf("mx%d.%s.test.", i, tag)}
	case dns.TypeSRV:
		return &dns.SRV{Hdr: hdr, Priority: uint16(i), Weight: uint16(h), Port: 443, Target: fmt.Sprintf("srv%d.%s.test.", i, tag)}
	case dns.TypePTR:
		return &dns.PTR{Hdr: hdr, Ptr: fmt.Sprintf("ptr%d.%s.test.", i, tag)}
	case dns.TypeNS:
		return &dns.NS{Hdr: hdr, Ns: fmt.Sprintf("ns%d.%s.test.", i, tag)}
	case dns.TypeSOA:
		return &dns.SOA{Hdr: hdr, Ns: "ns.test.", Mbox: "hostmaster.test.", Serial: h, Refresh: 7200, Retry: 3600, Expire: 1209600, Minttl: 60 + uint32(i)}
	case dns.TypeHTTPS:
		return &dns.HTTPS{SVCB: dns.SVCB{Hdr: hdr, Priority: uint16(1 + i), Target: ".", Value: []dns.SVCBKeyValue{
			&dns.SVCBAlpn{Alpn: []string{"h2", "h3"}},
			&dns.SVCBIPv4Hint{Hint: []net.IP{net.IP{10, byte(h >> 8), byte(h), byte(i)}.To4()}},
		}}}
	default:
		txt := []string{tag, fmt.Sprintf("i%d", i)}
		if pad {
			txt = append(txt, strings.Repeat("p", 48))
		}

		hdr.Rrtype = dns.TypeTXT

		return &dns.TXT{Hdr: hdr, Txt: txt}
	}
}

// Ref is the reference handler H.  req must have at least one question.  The
// result is a fresh message on every call.
func Ref(req *dns.Msg) (resp *dns.Msg, mode Mode) {
	q := req.Question[0]
	kind := KindOf(q)
	switch kind {
	case KErr:
		return nil, ModeError
	case KSilent:
		return nil, ModeSilent
	}

	h := Hash(fmt.Sprintf("%s|%d|%d", strings.ToLower(q.Name), q.Qtype, q.Qclass))
	resp = (&dns.Msg{}).SetReply(req)
	resp.RecursionAvailable = true
	resp.AuthenticatedData = h&1 == 1
	resp.Authoritative = h&2 == 2
	at := answerType(q.Qtype)
	soa := func() dns.RR {
		return refRR("test.", dns.TypeSOA, dns.ClassINET, h, 0, false)
	}

	switch kind {
	case KOne:
		resp.Answer = []dns.RR{refRR(q.Name, at, q.Qclass, h, 1, false)}
	case KMulti:
		for i := 0; i < 2+int(h>>4)%3; i++ {
			resp.Answer = append(resp.Answer, refRR(q.Name, at, q.Qclass, h, i, false))
		}

		resp.Ns = []dns.RR{refRR("test.", dns.TypeNS, dns.ClassINET, h, 0, false)}
		resp.Extra = []dns.RR{refRR(fmt.Sprintf("ns0.h%08x.test.", h), dns.TypeA, dns.ClassINET, h, 9, false)}
	case KCNAME:
		c := refRR(q.Name, dns.TypeCNAME, q.Qclass, h, 0, false).(*dns.CNAME)
		resp.Answer = []dns.RR{c}
		if at != dns.TypeCNAME {
			resp.Answer = append(resp.Answer, refRR(c.Target, at, q.Qclass, h, 1, false))
		}
	case KNodata:
		resp.Ns = []dns.RR{soa()}
	case KNX:
		resp.Rcode = dns.RcodeNameError
		resp.Ns = []dns.RR{soa()}
	case KLarge:
		// Sizes are deliberately unaligned and spread around the 512, 1232
		// and 4096 octet limits (one record is 70-110 octets).
		n := []int{4, 5, 6, 7, 8, 10, 13, 16, 24, 48, 80}[int(h>>4)%11]
		for i := 0; i < n; i++ {
			rr := refRR(q.Name, dns.TypeTXT, q.Qclass, h, i, true).(*dns.TXT)
			rr.Txt[len(rr.Txt)-1] = strings.Repeat("p", 20+int(h>>9+uint32(i)*5)%41)
			resp.Answer = append(resp.Answer, rr)
		}
	case KRefused:
		resp.Rcode = dns.RcodeRefused
	case KUnencodable:
		if h&4 == 0 {
			resp.Answer = []dns.RR{&dns.TXT{Hdr: dns.RR_Header{Name: q.Name, Rrtype: dns.TypeTXT, Class: q.Qclass, Ttl: 60}, Txt: []string{strings.Repeat("u", 256+int(h>>5)%40)}}}
		} else {
			resp.Answer = []dns.RR{&dns.CNAME{Hdr: dns.RR_Header{Name: q.Name, Rrtype: dns.TypeCNAME, Class: q.Qclass, Ttl: 60}, Target: strings.Repeat("l", 64+int(h>>5)%8) + ".test."}}
		}

		return resp, ModeUnencodable
	case KHuge:
		hugeAnswer(resp, q, 65500-11+int(h>>4)%36)

		return resp, ModeAnswer
	case KOwnOPT:
		resp.Answer = []dns.RR{refRR(q.Name, at, q.Qclass, h, 1, false)}
		resp.SetEdns0(1232, false)
		opt := resp.Extra[len(resp.Extra)-1].(*dns.OPT)
		opt.Option = append(opt.Option, &dns.EDNS0_EDE{InfoCode: dns.ExtendedErrorCodeOther, ExtraText: "ref"})
	}

	// Like a validating resolver, the answer depends on the DO bit of the query
	// the handler was given: signatures are added iff DO is set.
	if opt := req.IsEdns0(); opt != nil && opt.Do() {
		sig := func(rr dns.RR) dns.RR {
			hd := rr.Header()

			return &dns.RRSIG{
				Hdr:         dns.RR_Header{Name: hd.Name, Rrtype: dns.TypeRRSIG, Class: hd.Class, Ttl: hd.Ttl},
				TypeCovered: hd.Rrtype, Algorithm: 13, Labels: uint8(dns.CountLabel(hd.Name)), OrigTtl: hd.Ttl,
				Expiration: 2000000000, Inception: 1000000000, KeyTag: uint16(h), SignerName: "test.", Signature: "c2lnbmF0dXJl",
			}
		}

		if n := len(resp.Answer); n > 0 {
			resp.Answer = append(resp.Answer, sig(resp.Answer[n-1]))
		}

		if n := len(resp.Ns); n > 0 {
			resp.Ns = append(resp.Ns, sig(resp.Ns[n-1]))
		}
	}

	return resp, ModeAnswer
}

// hugeAnswer fills resp with TXT records so that its compressed packed size is
// exactly target octets.
func hugeAnswer(resp *dns.Msg, q dns.Question, target int) {
	rr := func(n int) *dns.TXT {
		t := &dns.TXT{Hdr: dns.RR_Header{Name: q.Name, Rrtype: dns.TypeTXT, Class: q.Qclass, Ttl: 300}}
		for n > 0 {
			l := min(255, n-1)
			t.Txt = append(t.Txt, strings.Repeat("h", l))
			n -= l + 1
		}

		return t
	}

	size := func() int {
		c := *resp
		c.Compress = true
		b, err := c.Pack()
		if err != nil {
			panic(fmt.Errorf("vc01ref: huge answer does not pack: %w", err))
		}

		return len(b)
	}

	resp.Answer = []dns.RR{rr(200)}
	per := size()
	resp.Answer = nil
	per -= size()
	for n := (target - size() - 600) / per; n > 0; n-- {
		resp.Answer = append(resp.Answer, rr(200))
	}

	// The last record takes what is left; its header size depends on the name.
	last := rr(300)
	resp.Answer = append(resp.Answer, last)
	for i := 0; i < 4; i++ {
		d := target - size()
		if d == 0 {
			return
		}

		n := 0
		for _, s := range last.Txt {
			n += 1 + len(s)
		}

		*last = *rr(n + d)
	}

	panic(fmt.Errorf("vc01ref: cannot size the huge answer to %d (have %d)", target, size()))
}

// ErrReply is the documented shape of an error reply to req: same ID, the
// first question if there is one, no records.
func ErrReply(req *dns.Msg, rcode int) *dns.Msg {
	m := &dns.Msg{}
	m.Id = req.Id
	m.Response = true
	m.Opcode = req.Opcode
	m.Rcode = rcode
	if len(req.Question) > 0 {
		m.Question = []dns.Question{req.Question[0]}
	}

	return m
}

// ---------------------------------------------------------------------------
// classifier

// Verdict is the documented treatment of an input.
type Verdict int

// Verdicts.
const (
	VUndecodable Verdict = iota
	VResponse
	VNotImp
	VFormErr
	VAccept
)

// VerdictNames are printable names.
var VerdictNames = [...]string{"undecodable", "response-bit", "notimp", "formerr", "accept"}

// Case is a classified input.
type Case struct {
	Wire    []byte
	Req     *dns.Msg // nil if undecodable
	Verdict Verdict
	Mode    Mode     // meaningful for VAccept
	Kind    Kind     // meaningful for VAccept
	Want    *dns.Msg // what the pipeline produces (nil: nothing)
	// Loose is true if Want is an error reply generated by the server, of
	// which only ID, QR, opcode, rcode, question and emptiness are fixed.
	Loose bool

	ReqOPT       *dns.OPT
	ReqPadding   bool
	ReqKeepalive bool
}

func hasOption(opt *dns.OPT, code uint16) bool {
	if opt == nil {
		return false
	}

	for _, o := range opt.Option {
		if o.Option() == code {
			return true
		}
	}

	return false
}

// Classify is the reference accept-classifier.
func Classify(wire []byte) *Case {
	c := &Case{Wire: wire}
	m := &dns.Msg{}
	if err := m.Unpack(append([]byte(nil), wire...)); err != nil {
		c.Verdict = VUndecodable

		return c
	}

	c.Req = m
	c.ReqOPT = m.IsEdns0()
	c.ReqPadding = hasOption(c.ReqOPT, dns.EDNS0PADDING)
	c.ReqKeepalive = hasOption(c.ReqOPT, dns.EDNS0TCPKEEPALIVE)
	switch {
	case m.Response:
		c.Verdict = VResponse
	case m.Opcode != dns.OpcodeQuery && m.Opcode != dns.OpcodeNotify:
		c.Verdict = VNotImp
		c.Want = ErrReply(m, dns.RcodeNotImplemented)
		c.Loose = true
	case len(m.Question) != 1 || len(m.Answer) > 1 || len(m.Ns) > 1:
		c.Verdict = VFormErr
		c.Want = ErrReply(m, dns.RcodeFormatError)
		c.Loose = true
	default:
		c.Verdict = VAccept
		c.Kind = KindOf(m.Question[0])
		c.Want, c.Mode = Ref(m)
		if c.Mode == ModeError {
			c.Want = ErrReply(m, dns.RcodeServerFailure)
			c.Loose = true
		}
	}

	return c
}

// NonTrivial implements the stated rule: accepted queries whose reference
// answer has at least one record or a non-zero rcode, and unacceptable or
// undecodable inputs that get past the 12-byte header check.
func (c *Case) NonTrivial() bool {
	if c.Verdict != VAccept {
		return len(c.Wire) >= 12
	}

	if c.Want == nil {
		return true
	}

	return c.Want.Rcode != 0 || len(c.Want.Answer)+len(c.Want.Ns) > 0
}

// Classes returns histogram labels.
func (c *Case) Classes() []string {
	cl := []string{"verdict-" + VerdictNames[c.Verdict]}
	if c.Verdict == VAccept {
		cl = append(cl, "kind-"+KindNames[c.Kind])
		if c.Req.Opcode == dns.OpcodeNotify {
			cl = append(cl, "opcode-notify")
		}

		if n := c.Req.Question[0].Name; n != strings.ToLower(n) {
			cl = append(cl, "mixed-case-name")
		}

		if len(c.Req.Question[0].Name) >= 250 {
			cl = append(cl, "max-length-name")
		}

		if c.Mode == ModeUnencodable {
			cl = append(cl, "first-write-fails-unencodable")
		}
	}

	if c.Verdict == VUndecodable && len(c.Wire) >= 12 {
		cl = append(cl, "undecodable-past-header")
	}

	if c.Verdict == VFormErr && len(c.Req.Question) == 0 {
		cl = append(cl, "formerr-no-question")
	}

	if c.ReqOPT != nil {
		cl = append(cl, "req-edns")
	}

	if c.ReqPadding && c.ReqKeepalive {
		cl = append(cl, "req-padding+keepalive")
	}

	if c.Req != nil && len(c.Req.Question) == 1 {
		switch n := c.Req.Question[0].Name; {
		case n == ".":
			cl = append(cl, "root-name")
		case dns.CountLabel(n) == 1:
			cl = append(cl, "one-label-name")
		}
	}

	switch len(c.Wire) {
	case 511, 512, 513, 1023, 1024, 1025:
		cl = append(cl, fmt.Sprintf("query-size-%d", len(c.Wire)))
	}

	if c.ReqPadding {
		cl = append(cl, "req-padding")
	}

	if c.ReqKeepalive {
		cl = append(cl, "req-keepalive")
	}

	return cl
}

// ---------------------------------------------------------------------------
// transports

// Transport describes what a transport may do to a response and how it treats
// non-answers.
type Transport struct {
	Name string
	// Datagram transports may truncate (TC=1, empty answer section).
	Datagram bool
	// Padding transports may add a padding option if the request had one.
	Padding bool
	// KeepAlive transports may add a tcp-keepalive option if the request had one.
	KeepAlive bool
	DoQ       bool
	DNSCrypt  bool
	// Stream transports (TCP, DoT) close the connection when nothing is written.
	Stream bool
	// HTTP transports report a non-answer as an HTTP error status.
	HTTP bool
}

// The transports.
var (
	UDP         = Transport{Name: "udp", Datagram: true}
	TCP         = Transport{Name: "tcp", KeepAlive: true, Stream: true}
	DoT         = Transport{Name: "dot", Padding: true, KeepAlive: true, Stream: true}
	DoH         = Transport{Name: "doh", Padding: true, HTTP: true}
	DoQ         = Transport{Name: "doq", Padding: true, DoQ: true}
	DNSCryptUDP = Transport{Name: "dnscrypt-udp", Datagram: true, DNSCrypt: true}
	DNSCryptTCP = Transport{Name: "dnscrypt-tcp", DNSCrypt: true}
)

// Named returns a copy of tr under another name (e.g. "doh-h2-get").
func (tr Transport) Named(n string) Transport {
	tr.Name = n

	return tr
}

// DNSCryptMinQuery is the smallest query the DNSCrypt layer hands over
// (dnscrypt's minDNSPacketSize: header plus a root-name question).
const DNSCryptMinQuery = 12 + 5

// ExpectKind is what must come back.
type ExpectKind int

// Expectations.
const (
	// MustReply: exactly one DNS message matching Want.
	MustReply ExpectKind = iota
	// NoMessage: no DNS message at all (UDP: silence; TCP/DoT: connection
	// closed; DoH: an HTTP error status; DoQ: protocol error).
	NoMessage
	// ReplyOrNone: either no DNS message, or one SERVFAIL for the same ID and
	// question (the DoQ / DNSCrypt fallback when nothing was written).
	ReplyOrNone
)

// ExpectNames are printable names.
var ExpectNames = [...]string{"must-reply", "no-message", "servfail-or-none"}

// Expect returns the documented treatment of c on tr.
func (c *Case) Expect(tr Transport) (k ExpectKind, want *dns.Msg, loose bool) {
	if c.Verdict == VUndecodable {
		return NoMessage, nil, false
	}

	if tr.DoQ && c.ReqKeepalive {
		// RFC 9250, 4.3 (5): fatal protocol error.
		return NoMessage, nil, false
	}

	if tr.DNSCrypt && (c.Req.Response || len(c.Req.Question) != 1 || len(c.Wire) < DNSCryptMinQuery) {
		// The DNSCrypt layer drops these before the handler.
		return NoMessage, nil, false
	}

	switch c.Verdict {
	case VResponse:
		if tr.DoQ {
			return ReplyOrNone, ErrReply(c.Req, dns.RcodeServerFailure), true
		}

		return NoMessage, nil, false
	case VNotImp, VFormErr:
		return MustReply, c.Want, true
	}

	if c.Mode == ModeUnencodable {
		// The first write fails.  Where the handler writes to the socket itself
		// (UDP, TCP, DoT) it gets the error, returns it, and the server answers
		// SERVFAIL (serveDNSMsgInternal); where the response is recorded and
		// written after the handler has returned, the transport gives up: DoH with
		// an HTTP error, DoQ with a protocol error, DNSCrypt with its library's
		// SERVFAIL or nothing.
		switch {
		case tr.DNSCrypt:
			return ReplyOrNone, ErrReply(c.Req, dns.RcodeServerFailure), true
		case tr.HTTP, tr.DoQ:
			return NoMessage, nil, false
		default:
			return MustReply, ErrReply(c.Req, dns.RcodeServerFailure), true
		}
	}

	if c.Mode == ModeSilent {
		if tr.DoQ || tr.DNSCrypt {
			// Pinned by the doc comments in serveQUICStream ("Make sure that at
			// least some response has been written") and dnsCryptHandler.ServeDNS
			// ("If there was no response from the handler, return SERVFAIL").
			return MustReply, ErrReply(c.Req, dns.RcodeServerFailure), true
		}

		return NoMessage, nil, false
	}

	return MustReply, c.Want, c.Loose
}

// ---------------------------------------------------------------------------
// comparison

func roundTrip(m *dns.Msg) (*dns.Msg, error) {
	c := m.Copy()
	c.Compress = true
	b, err := c.Pack()
	if err != nil {
		return nil, err
	}

	r := &dns.Msg{}
	if err = r.Unpack(b); err != nil {
		return nil, err
	}

	return r, nil
}

func rrStrings(rrs []dns.RR) (out []string) {
	for _, rr := range rrs {
		if rr.Header().Rrtype == dns.TypeOPT {
			continue
		}

		out = append(out, strings.ToLower(rr.String()))
	}

	return out
}

func optString(opt *dns.OPT) string {
	if opt == nil {
		return "none"
	}

	var os []string
	for _, o := range opt.Option {
		switch o.Option() {
		case dns.EDNS0PADDING, dns.EDNS0TCPKEEPALIVE:
			continue
		}

		os = append(os, fmt.Sprintf("%d:%s", o.Option(), o.String()))
	}

	sort.Strings(os)

	return fmt.Sprintf("opt{do=%t ver=%d udp=%d name=%q %q}", opt.Do(), opt.Version(), opt.UDPSize(), opt.Hdr.Name, os)
}

func flagString(m *dns.Msg) string {
	return fmt.Sprintf("qr=%t op=%d aa=%t rd=%t ra=%t z=%t ad=%t cd=%t rcode=%d", m.Response, m.Opcode, m.Authoritative,
		m.RecursionDesired, m.RecursionAvailable, m.Zero, m.AuthenticatedData, m.CheckingDisabled, m.Rcode)
}

// Canon renders a received message for the cross-transport comparison: all of
// it except the ID, padding and keep-alive options.
func Canon(m *dns.Msg) string {
	return fmt.Sprintf("%s tc=%t q=%q an=%q ns=%q ex=%q %s", flagString(m), m.Truncated, fmt.Sprint(m.Question), rrStrings(m.Answer),
		rrStrings(m.Ns), rrStrings(m.Extra), optString(m.IsEdns0()))
}

func subset(got, want []string) bool {
	have := map[string]int{}
	for _, w := range want {
		have[w]++
	}

	for _, g := range got {
		if have[g] == 0 {
			return false
		}

		have[g]--
	}

	return true
}

func equalStrings(a, b []string) bool {
	if len(a) != len(b) {
		return false
	}

	for i := range a {
		if a[i] != b[i] {
			return false
		}
	}

	return true
}

// CheckOpts tunes CheckReply.
type CheckOpts struct {
	// NoID: the transport does not carry the client's ID (JSON API with
	// ct=application/dns-message).
	NoID bool
	// Raw: got is the message as written by the pipeline, before any
	// transport normalisation: no truncation, OPT, padding or keep-alive
	// allowances apply and the OPT record must equal the handler's.
	Raw bool
}

// CheckReply compares a received message with the expected one for c on tr.
func CheckReply(tr Transport, c *Case, want, got *dns.Msg, loose bool, o CheckOpts) error {
	req := c.Req
	if !o.NoID && got.Id != req.Id {
		return fmt.Errorf("response ID %d differs from the request's %d", got.Id, req.Id)
	}

	if !got.Response {
		return fmt.Errorf("QR bit not set in the response")
	}

	if got.Opcode != want.Opcode {
		return fmt.Errorf("opcode %d, want %d", got.Opcode, want.Opcode)
	}

	if len(got.Question) != len(want.Question) {
		return fmt.Errorf("response has %d questions %v, want %v", len(got.Question), got.Question, want.Question)
	}

	for i := range got.Question {
		if got.Question[i] != want.Question[i] {
			return fmt.Errorf("response question %+v differs from the request's %+v", got.Question[i], want.Question[i])
		}
	}

	if got.Rcode != want.Rcode {
		return fmt.Errorf("rcode %d, want %d", got.Rcode, want.Rcode)
	}

	gotOPT := got.IsEdns0()
	if !o.Raw {
		if gotOPT != nil && hasOption(gotOPT, dns.EDNS0PADDING) && !(tr.Padding && c.ReqPadding) {
			return fmt.Errorf("padding option in a response on %s (request padding: %t)", tr.Name, c.ReqPadding)
		}

		if gotOPT != nil && hasOption(gotOPT, dns.EDNS0TCPKEEPALIVE) && !(tr.KeepAlive && c.ReqKeepalive) {
			return fmt.Errorf("keep-alive option in a response on %s (request keep-alive: %t)", tr.Name, c.ReqKeepalive)
		}
	}

	if loose {
		if n := len(rrStrings(got.Answer)) + len(rrStrings(got.Ns)) + len(rrStrings(got.Extra)); n != 0 {
			return fmt.Errorf("error reply carries %d records: %v", n, got)
		}

		return nil
	}

	wrt, err := roundTrip(want)
	if err != nil {
		return fmt.Errorf("harness: reference answer does not pack: %w", err)
	}

	if got.Truncated && !o.Raw {
		if !tr.Datagram {
			return fmt.Errorf("TC bit set on stream transport %s", tr.Name)
		}

		budget := want.Len() + 32
		if c.ReqOPT != nil {
			budget += dns.Len(c.ReqOPT)
		}

		if budget <= dns.MinMsgSize {
			return fmt.Errorf("TC bit set although the full answer (%d octets uncompressed) fits the minimum size", want.Len())
		}

		if len(got.Answer) != 0 {
			return fmt.Errorf("truncated response carries %d answer records", len(got.Answer))
		}

		g, w := *got, *wrt
		g.Truncated, w.Truncated = false, false
		if flagString(&g) != flagString(&w) {
			return fmt.Errorf("truncated response header %s, want %s", flagString(&g), flagString(&w))
		}

		if !subset(rrStrings(got.Ns), rrStrings(wrt.Ns)) || !subset(rrStrings(got.Extra), rrStrings(wrt.Extra)) {
			return fmt.Errorf("truncated response carries records the pipeline did not produce: ns=%q extra=%q", rrStrings(got.Ns), rrStrings(got.Extra))
		}

		return nil
	}

	if got.Truncated != wrt.Truncated {
		return fmt.Errorf("TC bit %t, want %t", got.Truncated, wrt.Truncated)
	}

	if flagString(got) != flagString(wrt) {
		return fmt.Errorf("header %s, want %s", flagString(got), flagString(wrt))
	}

	for _, s := range []struct {
		name      string
		got, want []dns.RR
	}{{"answer", got.Answer, wrt.Answer}, {"authority", got.Ns, wrt.Ns}, {"additional", got.Extra, wrt.Extra}} {
		if g, w := rrStrings(s.got), rrStrings(s.want); !equalStrings(g, w) {
			return fmt.Errorf("%s section differs from what the pipeline produced:\n got  %q\n want %q", s.name, g, w)
		}
	}

	wantOPT := wrt.IsEdns0()
	if o.Raw {
		if g, w := optString(gotOPT), optString(wantOPT); g != w {
			return fmt.Errorf("OPT written by the pipeline %s, handler produced %s", g, w)
		}

		return nil
	}

	if (gotOPT != nil) != (c.ReqOPT != nil || wantOPT != nil) {
		return fmt.Errorf("OPT present in response: %t; in request: %t; produced by the pipeline: %t", gotOPT != nil, c.ReqOPT != nil, wantOPT != nil)
	}

	return nil
}

// CheckServfailOrForeign checks a message received where "SERVFAIL for the
// same ID and question, or nothing" is the documented treatment.
func CheckServfailOrForeign(tr Transport, c *Case, want, got *dns.Msg) error {
	return CheckReply(tr, c, want, got, true, CheckOpts{})
}

// CheckForeign is the weakest, always applicable check: a DNS message received
// in reaction to wire must carry wire's ID and (first) question, if wire
// decodes at all; if it does not decode, no message may come back.
func CheckForeign(c *Case, got *dns.Msg) error {
	if c.Req == nil {
		return fmt.Errorf("a DNS message (id %d, %s, %v) came back for undecodable bytes", got.Id, flagString(got), got.Question)
	}

	if got.Id != c.Req.Id {
		return fmt.Errorf("response ID %d differs from the request's %d", got.Id, c.Req.Id)
	}

	if len(got.Question) > 1 || (len(got.Question) == 1 && (len(c.Req.Question) == 0 || got.Question[0] != c.Req.Question[0])) {
		return fmt.Errorf("response question %v is not the request's %v", got.Question, c.Req.Question)
	}

	return nil
}

// ---------------------------------------------------------------------------
// judging what came back on one transport

// Result is what came back on one transport for one input.
type Result struct {
	// Msgs are the DNS messages received (wire).
	Msgs [][]byte
	// Treatment is the non-DNS part of the outcome: "closed" (stream
	// transports: connection closed by the server), "http-<code>",
	// "doq-close-<code>", "".
	Treatment string
}

// DoQProtocolError is the treatment string of a DoQ connection closed with
// DOQ_PROTOCOL_ERROR (RFC 9250, 8.4: 0x2).
const DoQProtocolError = "doq-close-2"

// Frames splits a stream of 2-octet-length-prefixed messages.
func Frames(b []byte) (msgs [][]byte, err error) {
	for len(b) > 0 {
		if len(b) < 2 {
			return msgs, fmt.Errorf("dangling octet after %d frames", len(msgs))
		}

		l := int(binary.BigEndian.Uint16(b))
		if len(b) < 2+l {
			return msgs, fmt.Errorf("frame declares %d octets, %d follow", l, len(b)-2)
		}

		msgs = append(msgs, b[2:2+l])
		b = b[2+l:]
	}

	return msgs, nil
}

// Judge compares what came back on tr with the documented treatment of c.
// full is the canonical form of a complete (non-truncated) answer, "" if none.
func Judge(tr Transport, c *Case, r Result, o CheckOpts) (full string, classes []string, err error) {
	kind, want, loose := c.Expect(tr)
	classes = []string{tr.Name + ":" + ExpectNames[kind]}
	if c.Verdict == VAccept && c.Kind == KHuge && c.Mode == ModeAnswer && kind == MustReply && !o.Raw {
		return judgeHuge(tr, c, r, o, classes)
	}

	if len(r.Msgs) > 1 {
		return "", classes, fmt.Errorf("%d DNS messages came back for one input", len(r.Msgs))
	}

	var got *dns.Msg
	if len(r.Msgs) == 1 {
		got = &dns.Msg{}
		if uerr := got.Unpack(r.Msgs[0]); uerr != nil {
			return "", classes, fmt.Errorf("the response does not decode: %w: %x", uerr, r.Msgs[0])
		}
	}

	if got != nil && c.Verdict == VAccept && c.Mode == ModeUnencodable && tr.Datagram && got.Truncated && len(got.Answer) == 0 && got.Rcode == dns.RcodeSuccess {
		// Over the size limit the record that cannot be encoded is dropped by
		// the truncation before anything is packed: a truncated NOERROR is the
		// right answer then.
		if ferr := CheckForeign(c, got); ferr != nil {
			return "", classes, ferr
		}

		return "", append(classes, "truncated-on-"+tr.Name), nil
	}

	switch kind {
	case NoMessage:
		if got != nil {
			return "", classes, fmt.Errorf("a DNS message came back (%s) where none is documented: %v", r.Treatment, got)
		}

		switch {
		case tr.DoQ:
			if r.Treatment != DoQProtocolError {
				return "", classes, fmt.Errorf("DoQ: want the connection closed with DOQ_PROTOCOL_ERROR, got %q", r.Treatment)
			}
		case tr.Stream:
			if r.Treatment != "closed" {
				return "", classes, fmt.Errorf("%s: nothing written and the connection left open (%q)", tr.Name, r.Treatment)
			}
		case tr.HTTP:
			if !strings.HasPrefix(r.Treatment, "http-4") && !strings.HasPrefix(r.Treatment, "http-5") {
				return "", classes, fmt.Errorf("DoH: want an HTTP error status, got %q", r.Treatment)
			}
		}

		return "", classes, nil
	case ReplyOrNone:
		if got == nil {
			classes = append(classes, tr.Name+":fallback-none")

			return "", classes, nil
		}

		classes = append(classes, tr.Name+":fallback-servfail")

		return "", classes, CheckServfailOrForeign(tr, c, want, got)
	}

	if got == nil {
		return "", classes, fmt.Errorf("no DNS message came back (%s); the pipeline produced %v", r.Treatment, want)
	}

	if err = CheckReply(tr, c, want, got, loose, o); err != nil {
		return "", classes, err
	}

	if got.Truncated {
		classes = append(classes, "truncated-on-"+tr.Name)

		return "", classes, nil
	}

	if loose && !c.Loose {
		// A transport-specific fallback (the pipeline produced nothing): not
		// part of the cross-transport comparison.
		classes = append(classes, tr.Name+":fallback-servfail")

		return "", classes, nil
	}

	return Canon(got), classes, nil
}

// judgeHuge judges the answer to a query whose reference answer is within a
// few dozen octets of 64 KiB.  What the transport's additions (OPT, echoed
// options, padding, keep-alive) do to it is a matter of sizes (C08); here the
// outcome must be exactly one of: the complete answer; a truncated one (TC,
// empty answer section); or, where the padded / extended message no longer
// fits a 2-octet length prefix, the server's SERVFAIL for the failed write
// (DoQ: protocol error).  It is never "nothing" on UDP, TCP and DoT.
func judgeHuge(tr Transport, c *Case, r Result, o CheckOpts, classes []string) (full string, cl []string, err error) {
	if len(r.Msgs) > 1 {
		return "", classes, fmt.Errorf("%d DNS messages came back for one input", len(r.Msgs))
	}

	if len(r.Msgs) == 0 {
		if tr.DoQ && r.Treatment == DoQProtocolError {
			return "", append(classes, tr.Name+":huge-protocol-error"), nil
		}

		if tr.DNSCrypt || (tr.HTTP && strings.HasPrefix(r.Treatment, "http-5")) {
			return "", append(classes, tr.Name+":huge-none"), nil
		}

		return "", classes, fmt.Errorf("no DNS message came back (%s) for a query whose answer is %d octets", r.Treatment, c.Want.Len())
	}

	got := &dns.Msg{}
	if uerr := got.Unpack(r.Msgs[0]); uerr != nil {
		return "", classes, fmt.Errorf("the response does not decode: %w", uerr)
	}

	switch {
	case got.Rcode == dns.RcodeServerFailure:
		if err = CheckReply(tr, c, ErrReply(c.Req, dns.RcodeServerFailure), got, true, o); err != nil {
			return "", classes, err
		}

		classes = append(classes, tr.Name+":huge-servfail")
		if c.ReqPadding && tr.Padding {
			classes = append(classes, "first-write-fails-too-large-after-padding")
		}

		return "", classes, nil
	case got.Truncated:
		if ferr := CheckForeign(c, got); ferr != nil {
			return "", classes, ferr
		}

		if tr.DNSCrypt && !tr.Datagram {
			// The DNSCrypt library truncates its TCP answers to 64 KiB minus its
			// own overhead and keeps the records that fit.
			wrt, rerr := roundTrip(c.Want)
			if rerr != nil {
				return "", classes, fmt.Errorf("harness: %w", rerr)
			}

			if !subset(rrStrings(got.Answer), rrStrings(wrt.Answer)) {
				return "", classes, fmt.Errorf("truncated response carries records the pipeline did not produce")
			}
		} else if len(got.Answer) != 0 {
			return "", classes, fmt.Errorf("truncated response carries %d answers, rcode %d", len(got.Answer), got.Rcode)
		}

		if got.Rcode != c.Want.Rcode {
			return "", classes, fmt.Errorf("truncated response has rcode %d", got.Rcode)
		}

		return "", append(classes, "truncated-on-"+tr.Name), nil
	}

	if c.ReqOPT == nil && tr.Stream {
		classes = append(classes, tr.Name+":huge-complete-without-edns")
	}

	if err = CheckReply(tr, c, c.Want, got, false, o); err != nil {
		return "", classes, err
	}

	return "", append(classes, tr.Name+":huge-complete"), nil
}

// ---------------------------------------------------------------------------
// JSON API

// JSONRR is a record in the JSON API's answer format.
type JSONRR struct {
	Name  *string `json:"name"`
	Type  *uint16 `json:"type"`
	TTL   *uint32 `json:"TTL"`
	Class *uint16 `json:"class"`
	Data  *string `json:"data"`
}

// JSONReply is the documented JSON API response.
type JSONReply struct {
	Status   *int  `json:"Status"`
	TC       *bool `json:"TC"`
	RD       *bool `json:"RD"`
	RA       *bool `json:"RA"`
	AD       *bool `json:"AD"`
	CD       *bool `json:"CD"`
	Question []struct {
		Name *string `json:"name"`
		Type *uint16 `json:"type"`
	} `json:"Question"`
	Answer []JSONRR `json:"Answer"`
	Extra  []JSONRR `json:"Extra"`
}

// JSONRequest is the DNS query equivalent to a JSON API request, as documented
// at serverhttpsjson.go: RD set, CD from cd, an OPT record iff do or sde, with
// the DO bit iff do and an (empty) EDE option as the structured-errors opt-in
// iff sde.
func JSONRequest(name string, qt, qc uint16, cd, do, sde bool) *dns.Msg {
	m := &dns.Msg{}
	m.RecursionDesired = true
	m.CheckingDisabled = cd
	m.Question = []dns.Question{{Name: dns.Fqdn(name), Qtype: qt, Qclass: qc}}
	if do || sde {
		m.SetEdns0(dns.MaxMsgSize, do)
	}

	if sde {
		opt := m.IsEdns0()
		opt.Option = append(opt.Option, &dns.EDNS0_EDE{})
	}

	return m
}

// DrawDoHPath draws a spelling of a DoH path (base is "/dns-query" or
// "/resolve"): the canonical one, with a trailing slash, with a client-ID
// segment, or one that path.Clean maps to the canonical path (the server
// documents that it cleans the path before looking at its first segment).
func DrawDoHPath(pick Chooser, label, base string) (p, class string) {
	seg := strings.TrimPrefix(base, "/")
	switch pick(label, 10) {
	case 0, 1, 2:
		return base, "doh-path-canonical"
	case 3:
		return base + "/", "doh-path-trailing-slash"
	case 4:
		return base + "/client1", "doh-path-client-id"
	case 5:
		return "//" + seg, "doh-path-noncanonical"
	case 6:
		return "/./" + seg, "doh-path-noncanonical"
	case 7:
		return "/x/../" + seg, "doh-path-noncanonical"
	case 8:
		return "//" + seg + "/client1", "doh-path-noncanonical"
	default:
		return "/./x/.././" + seg + "/", "doh-path-noncanonical"
	}
}

// JSONQuery is one drawn JSON API request.
type JSONQuery struct {
	// Values are the URL parameters (without ct and without decoys).
	Values url.Values
	// Invalid is true if a parameter has a value outside the documented ones;
	// the API then answers with an HTTP error.
	Invalid     bool
	Qtype, QC   uint16
	CD, DO, SDE bool
	// Req is the equivalent DNS query (nil if Invalid).
	Req     *dns.Msg
	Classes []string
}

// Chooser picks one of n alternatives (a rapid draw, or a hash in the fuzz
// target).
type Chooser func(label string, n int) int

// RapidChooser draws through t.
func RapidChooser(t *rapid.T) Chooser {
	return func(label string, n int) int { return rapid.IntRange(0, n-1).Draw(t, label) }
}

// HashChooser derives the choices from seed.
func HashChooser(seed string) Chooser {
	return func(label string, n int) int { return int(Hash(seed+"|"+label) % uint32(n)) }
}

// jsonBool draws one boolean parameter in every spelling the API documents:
// absent, empty, 0/false/False, 1/true/True.
func jsonBool(pick Chooser, v url.Values, name string) (val bool) {
	spell := []struct {
		s       string
		present bool
		val     bool
	}{{"", false, false}, {"", false, false}, {"", true, false}, {"0", true, false}, {"false", true, false}, {"False", true, false},
		{"1", true, true}, {"true", true, true}, {"True", true, true}}[pick("json-"+name, 9)]
	if spell.present {
		v.Set(name, spell.s)
	}

	return spell.val
}

// DrawJSONQuery draws a JSON API request for the question q (whose name must
// be a plain host name): every documented parameter (name, type, qc, cd, do,
// sde) independently, in all accepted spellings, and sometimes one invalid
// value.
func DrawJSONQuery(pick Chooser, q dns.Question) (j JSONQuery) {
	v := url.Values{}
	name := q.Name
	if name != "." && pick("json-name-dot", 2) == 0 {
		name = strings.TrimSuffix(name, ".")
	}

	v.Set("name", name)

	// type: absent or empty (default A), number, mnemonic in any letter case.
	j.Qtype = q.Qtype
	mn, hasMn := dns.TypeToString[q.Qtype]
	hasMn = hasMn && mn == strings.ToUpper(mn)
	switch m := pick("json-type", 6); {
	case m == 0:
		j.Qtype = dns.TypeA
		j.Classes = append(j.Classes, "json-type-default")
	case m == 1:
		j.Qtype = dns.TypeA
		v.Set("type", "")
		j.Classes = append(j.Classes, "json-type-default")
	case m >= 4 && hasMn:
		if m == 4 {
			mn = strings.ToLower(mn)
		}

		v.Set("type", mn)
		j.Classes = append(j.Classes, "json-type-mnemonic")
	default:
		v.Set("type", strconv.Itoa(int(q.Qtype)))
	}

	j.QC = q.Qclass
	cmn, hasCmn := dns.ClassToString[q.Qclass]
	switch m := pick("json-qc", 5); {
	case m == 0:
		j.QC = dns.ClassINET
	case m == 1 && hasCmn:
		v.Set("qc", strings.ToLower(cmn))
		j.Classes = append(j.Classes, "json-qc-mnemonic")
	case m == 2 && hasCmn:
		v.Set("qc", cmn)
		j.Classes = append(j.Classes, "json-qc-mnemonic")
	default:
		v.Set("qc", strconv.Itoa(int(q.Qclass)))
	}

	j.CD = jsonBool(pick, v, "cd")
	j.DO = jsonBool(pick, v, "do")
	j.SDE = jsonBool(pick, v, "sde")
	switch {
	case j.DO && !j.SDE:
		j.Classes = append(j.Classes, "json-do-only")
	case j.SDE && !j.DO:
		j.Classes = append(j.Classes, "json-sde-only")
	case j.DO && j.SDE:
		j.Classes = append(j.Classes, "json-do+sde")
	}

	if j.CD && !j.DO && !j.SDE {
		j.Classes = append(j.Classes, "json-cd-only")
	}

	if pick("json-invalid", 8) == 0 {
		j.Invalid = true
		j.Classes = append(j.Classes, "json-invalid-param")
		switch pick("json-invalid-which", 6) {
		case 0:
			v.Set("cd", "TRUE")
		case 1:
			v.Set("do", "yes")
		case 2:
			v.Set("sde", "2")
		case 3:
			v.Set("type", "BOGUSTYPE")
		case 4:
			v.Set("qc", "65536")
		case 5:
			v.Set("name", "")
		}
	}

	j.Values = v
	if !j.Invalid {
		j.Req = JSONRequest(name, j.Qtype, j.QC, j.CD, j.DO, j.SDE)
	}

	return j
}

// CheckJSONReceived compares the query the handler was given for a JSON API
// request with what the client expressed.
func CheckJSONReceived(j JSONQuery, got *dns.Msg) error {
	if got == nil {
		return fmt.Errorf("the handler was not given any query")
	}

	if len(got.Question) != 1 || got.Question[0] != j.Req.Question[0] {
		return fmt.Errorf("the handler was given question %v, the client asked %v", got.Question, j.Req.Question)
	}

	if got.Response || got.Opcode != dns.OpcodeQuery || !got.RecursionDesired {
		return fmt.Errorf("the handler was given qr=%t opcode=%d rd=%t", got.Response, got.Opcode, got.RecursionDesired)
	}

	if got.CheckingDisabled != j.CD {
		return fmt.Errorf("the handler was given CD=%t, the client sent cd=%t", got.CheckingDisabled, j.CD)
	}

	opt := got.IsEdns0()
	if (opt != nil) != (j.DO || j.SDE) {
		return fmt.Errorf("the handler was given an OPT record: %t; the client sent do=%t sde=%t", opt != nil, j.DO, j.SDE)
	}

	if opt != nil && opt.Do() != j.DO {
		return fmt.Errorf("the handler was given DO=%t, the client sent do=%t (sde=%t)", opt.Do(), j.DO, j.SDE)
	}

	if hasOption(opt, dns.EDNS0EDE) != j.SDE {
		return fmt.Errorf("the handler was given the structured-errors opt-in: %t; the client sent sde=%t (do=%t)", hasOption(opt, dns.EDNS0EDE), j.SDE, j.DO)
	}

	return nil
}

func jsonRRs(rrs []dns.RR) (out []string) {
	for _, rr := range rrs {
		h := rr.Header()
		if h.Rrtype == dns.TypeOPT {
			continue
		}

		parts := strings.SplitN(rr.String(), "\t", 5)
		data := ""
		if len(parts) == 5 {
			data = parts[4]
		}

		out = append(out, fmt.Sprintf("%s|%d|%d|%d|%s", h.Name, h.Rrtype, h.Ttl, h.Class, data))
	}

	return out
}

func jsonGot(rrs []JSONRR) (out []string, err error) {
	for _, r := range rrs {
		if r.Name == nil || r.Type == nil || r.TTL == nil || r.Class == nil || r.Data == nil {
			return nil, fmt.Errorf("JSON record lacks a field: %+v", r)
		}

		if *r.Type == dns.TypeOPT {
			continue
		}

		out = append(out, fmt.Sprintf("%s|%d|%d|%d|%s", *r.Name, *r.Type, *r.TTL, *r.Class, *r.Data))
	}

	return out, nil
}

// CheckJSON compares a JSON API body with the reference answer want to the
// equivalent request req.  authorityDropped reports that the reference answer
// has authority records, which the JSON format has no field for.
func CheckJSON(body []byte, req, want *dns.Msg, loose bool) (authorityDropped bool, err error) {
	var r JSONReply
	if err = json.Unmarshal(body, &r); err != nil {
		return false, fmt.Errorf("JSON API body does not decode: %w: %q", err, body)
	}

	if r.Status == nil || r.TC == nil || r.RD == nil || r.RA == nil || r.AD == nil || r.CD == nil {
		return false, fmt.Errorf("JSON API body lacks a header field: %s", body)
	}

	if *r.Status != want.Rcode {
		return false, fmt.Errorf("JSON Status %d, want %d", *r.Status, want.Rcode)
	}

	if *r.TC {
		return false, fmt.Errorf("JSON TC set")
	}

	q := req.Question[0]
	if len(r.Question) != 1 || r.Question[0].Name == nil || r.Question[0].Type == nil || *r.Question[0].Name != q.Name || *r.Question[0].Type != q.Qtype {
		return false, fmt.Errorf("JSON Question %s is not the request's %+v", body, q)
	}

	if loose {
		// A server-generated error reply: only status, question and emptiness
		// are fixed.
		if len(r.Answer) != 0 {
			return false, fmt.Errorf("JSON error reply carries answers: %s", body)
		}

		return false, nil
	}

	g := fmt.Sprintf("rd=%t ra=%t ad=%t cd=%t", *r.RD, *r.RA, *r.AD, *r.CD)
	w := fmt.Sprintf("rd=%t ra=%t ad=%t cd=%t", want.RecursionDesired, want.RecursionAvailable, want.AuthenticatedData, want.CheckingDisabled)
	if g != w {
		return false, fmt.Errorf("JSON flags %s, want %s", g, w)
	}

	ga, err := jsonGot(r.Answer)
	if err != nil {
		return false, err
	}

	if wa := jsonRRs(want.Answer); !equalStrings(ga, wa) {
		return false, fmt.Errorf("JSON Answer differs from what the pipeline produced:\n got  %q\n want %q", ga, wa)
	}

	ge, err := jsonGot(r.Extra)
	if err != nil {
		return false, err
	}

	if we := jsonRRs(want.Extra); !equalStrings(ge, we) {
		return false, fmt.Errorf("JSON Extra differs from what the pipeline produced:\n got  %q\n want %q", ge, we)
	}

	return len(want.Ns) > 0, nil
}

// ---------------------------------------------------------------------------
// generators

var labelAlphabet = []string{"a", "b", "ab", "x1", "www", "_srv", "xn--p1ai", "a-b", "mail", "z"}

// QTypes is the qtype alphabet.
var QTypes = []uint16{dns.TypeA, dns.TypeA, dns.TypeAAAA, dns.TypeHTTPS, dns.TypeTXT, dns.TypeCNAME, dns.TypeMX, dns.TypeSRV,
	dns.TypePTR, dns.TypeANY, dns.TypeSOA, dns.TypeNS, dns.TypeDS, 0, 65535}

// QClasses is the qclass alphabet.
var QClasses = []uint16{dns.ClassINET, dns.ClassINET, dns.ClassINET, dns.ClassCHAOS, dns.ClassANY, 0}

func mixCase(t *rapid.T, s string) string {
	if !rapid.Bool().Draw(t, "mixcase") {
		return s
	}

	b := []byte(s)
	for i := range b {
		if b[i] >= 'a' && b[i] <= 'z' && rapid.Bool().Draw(t, "up") {
			b[i] -= 32
		}
	}

	return string(b)
}

// DrawName draws a fully qualified name.  kind < 0 leaves the kind to the
// hash.
func DrawName(t *rapid.T, kind int) string {
	shape := rapid.SampledFrom([]string{"short", "short", "short", "short", "deep", "deep", "maxlabel", "maxname", "minimal"}).Draw(t, "nameShape")
	if shape == "minimal" {
		// The root, a one-letter TLD, a TLD: the smallest legal questions.
		return mixCase(t, rapid.SampledFrom([]string{".", ".", "a.", "k.", "test.", "k7.", "k5."}).Draw(t, "minimalName"))
	}

	first := rapid.SampledFrom(labelAlphabet).Draw(t, "label0")
	if kind >= 0 {
		first = fmt.Sprintf("k%d", kind)
		if rapid.Bool().Draw(t, "kindSuffix") {
			first += "-" + rapid.SampledFrom(labelAlphabet).Draw(t, "label0s")
		}
	}

	var labels []string
	switch shape {
	case "short":
		labels = []string{first}
		if rapid.Bool().Draw(t, "second") {
			labels = append(labels, rapid.SampledFrom(labelAlphabet).Draw(t, "label1"))
		}

		labels = append(labels, "test")
	case "deep":
		labels = []string{first}
		for i, n := 0, rapid.IntRange(2, 5).Draw(t, "depth"); i < n; i++ {
			labels = append(labels, rapid.SampledFrom(labelAlphabet).Draw(t, "labelN"))
		}

		labels = append(labels, "test")
	case "maxlabel":
		if kind >= 0 {
			first += "-"
		}

		labels = []string{first + strings.Repeat("m", 63-len(first)), "test"}
	case "maxname":
		if kind >= 0 {
			first += "-"
		}

		// 1+63 + 1+63 + 1+63 + 1+61 + 1 = 255 octets on the wire.
		labels = []string{first + strings.Repeat("n", 63-len(first)), strings.Repeat("o", 63), strings.Repeat("p", 63), strings.Repeat("q", 61)}
	}

	return mixCase(t, strings.Join(labels, ".")+".")
}

// DrawKind draws an answer kind, -1 meaning "left to the hash".
func DrawKind(t *rapid.T) int {
	return rapid.IntRange(-1, int(NKinds)-1).Draw(t, "kind")
}

func drawOptions(t *rapid.T) (opts []dns.EDNS0) {
	n := rapid.SampledFrom([]int{0, 0, 1, 1, 2, 3, -1}).Draw(t, "nOpts")
	if n < 0 {
		// keep-alive and padding together, in either order, plus an echoed one.
		opts = []dns.EDNS0{
			&dns.EDNS0_TCP_KEEPALIVE{Code: dns.EDNS0TCPKEEPALIVE},
			&dns.EDNS0_PADDING{Padding: make([]byte, rapid.SampledFrom([]int{0, 3, 33}).Draw(t, "padLen2"))},
			&dns.EDNS0_NSID{Code: dns.EDNS0NSID},
		}
		if rapid.Bool().Draw(t, "optOrder") {
			opts[0], opts[1] = opts[1], opts[0]
		}

		return opts
	}

	for i := 0; i < n; i++ {
		switch rapid.SampledFrom([]string{"padding", "padding", "keepalive", "nsid", "cookie", "ecs", "ede", "local", "expire"}).Draw(t, "opt") {
		case "padding":
			opts = append(opts, &dns.EDNS0_PADDING{Padding: make([]byte, rapid.SampledFrom([]int{0, 1, 17, 100}).Draw(t, "padLen"))})
		case "keepalive":
			opts = append(opts, &dns.EDNS0_TCP_KEEPALIVE{Code: dns.EDNS0TCPKEEPALIVE, Timeout: uint16(rapid.SampledFrom([]int{0, 0, 100}).Draw(t, "kaTimeout"))})
		case "nsid":
			opts = append(opts, &dns.EDNS0_NSID{Code: dns.EDNS0NSID, Nsid: rapid.SampledFrom([]string{"", "6e73"}).Draw(t, "nsid")})
		case "cookie":
			opts = append(opts, &dns.EDNS0_COOKIE{Code: dns.EDNS0COOKIE, Cookie: "0123456789abcdef"})
		case "ecs":
			opts = append(opts, &dns.EDNS0_SUBNET{Code: dns.EDNS0SUBNET, Family: 1, SourceNetmask: 24, Address: net.IP{192, 0, 2, 0}})
		case "ede":
			opts = append(opts, &dns.EDNS0_EDE{InfoCode: 0})
		case "local":
			opts = append(opts, &dns.EDNS0_LOCAL{Code: 65001, Data: []byte{1, 2}})
		case "expire":
			opts = append(opts, &dns.EDNS0_EXPIRE{Code: dns.EDNS0EXPIRE, Empty: true})
		}
	}

	return opts
}

// DrawQuery draws a well-formed, acceptable single-question query.
func DrawQuery(t *rapid.T) *dns.Msg {
	m := &dns.Msg{}
	m.Id = uint16(rapid.OneOf(rapid.SampledFrom([]int{0, 0, 1, 65535}), rapid.IntRange(0, 65535), rapid.IntRange(0, 65535)).Draw(t, "id"))
	m.RecursionDesired = rapid.IntRange(0, 3).Draw(t, "rd") != 0
	m.AuthenticatedData = rapid.IntRange(0, 3).Draw(t, "ad") == 0
	m.CheckingDisabled = rapid.IntRange(0, 3).Draw(t, "cd") == 0
	if rapid.IntRange(0, 7).Draw(t, "oddFlags") == 0 {
		m.Zero = rapid.Bool().Draw(t, "z")
		m.Truncated = rapid.Bool().Draw(t, "tc")
		m.Authoritative = rapid.Bool().Draw(t, "aa")
		m.RecursionAvailable = rapid.Bool().Draw(t, "ra")
		m.Rcode = rapid.IntRange(0, 15).Draw(t, "reqRcode")
	}

	if rapid.IntRange(0, 9).Draw(t, "notify") == 0 {
		m.Opcode = dns.OpcodeNotify
	}

	kind := DrawKind(t)
	name := DrawName(t, kind)
	m.Question = []dns.Question{{
		Name:   name,
		Qtype:  rapid.OneOf(rapid.SampledFrom(QTypes), rapid.Uint16()).Draw(t, "qtype"),
		Qclass: rapid.OneOf(rapid.SampledFrom(QClasses), rapid.SampledFrom(QClasses), rapid.Uint16()).Draw(t, "qclass"),
	}}

	// One record in the answer or authority section is still acceptable
	// (NOTIFY carries a SOA, IXFR carries one in the authority section).
	if rapid.IntRange(0, 9).Draw(t, "oneAnswer") == 0 {
		m.Answer = []dns.RR{refRR(name, dns.TypeSOA, dns.ClassINET, 7, 0, false)}
	}

	if rapid.IntRange(0, 9).Draw(t, "oneNs") == 0 {
		m.Ns = []dns.RR{refRR(name, dns.TypeSOA, dns.ClassINET, 8, 0, false)}
	}

	if rapid.IntRange(0, 9).Draw(t, "extraRR") == 0 {
		m.Extra = append(m.Extra, refRR("extra.test.", dns.TypeA, dns.ClassINET, 9, 1, false))
	}

	if rapid.IntRange(0, 2).Draw(t, "edns") != 0 {
		opt := &dns.OPT{Hdr: dns.RR_Header{Name: ".", Rrtype: dns.TypeOPT}}
		opt.SetUDPSize(uint16(rapid.OneOf(rapid.SampledFrom([]int{0, 1, 511, 512, 513, 1232, 4096, 65535}), rapid.IntRange(0, 65535)).Draw(t, "udpSize")))
		if rapid.IntRange(0, 2).Draw(t, "do") == 0 {
			opt.SetDo()
		}

		if rapid.IntRange(0, 9).Draw(t, "ednsVersion") == 0 {
			opt.SetVersion(1)
		}

		opt.Option = drawOptions(t)
		if kind == int(KHuge) && rapid.Bool().Draw(t, "hugePadding") {
			opt.Option = []dns.EDNS0{&dns.EDNS0_PADDING{Padding: make([]byte, 3)}}
			if rapid.Bool().Draw(t, "hugeKeepalive") {
				opt.Option = append(opt.Option, &dns.EDNS0_TCP_KEEPALIVE{Code: dns.EDNS0TCPKEEPALIVE})
			}
		}

		m.Extra = append(m.Extra, opt)

		// Queries of exactly limit-1, limit, limit+1 octets for the 512-octet
		// UDP / TCP receive buffers (and 1024 for the DNSCrypt domain bound).
		if target := rapid.SampledFrom([]int{0, 0, 0, 0, 0, 511, 512, 513, 1023, 1024, 1025}).Draw(t, "sizeTarget"); target > 0 {
			if need := target - m.Len() - 4; need >= 0 {
				opt.Option = append(opt.Option, &dns.EDNS0_PADDING{Padding: make([]byte, need)})
			}
		}
	}

	return m
}

// DrawNearMiss derives from base a query that differs in exactly one component
// the server must distinguish (or in nothing but the ID).
func DrawNearMiss(t *rapid.T, base *dns.Msg) (m *dns.Msg, what string) {
	m = base.Copy()
	what = rapid.SampledFrom([]string{"case", "case", "qtype", "qclass", "label", "kind", "id-only", "same-id-qtype", "rd", "cd", "edns", "do", "verbatim", "grow", "grow"}).Draw(t, "nearMiss")
	q := &m.Question[0]
	if what != "same-id-qtype" && what != "verbatim" {
		m.Id = base.Id + uint16(rapid.SampledFrom([]int{1, 256, 65535}).Draw(t, "idDelta"))
	}

	switch what {
	case "case":
		b := []byte(q.Name)
		var letters []int
		for i, c := range b {
			if c >= 'a' && c <= 'z' || c >= 'A' && c <= 'Z' {
				letters = append(letters, i)
			}
		}

		if len(letters) > 0 {
			b[letters[rapid.IntRange(0, len(letters)-1).Draw(t, "caseAt")]] ^= 0x20
			q.Name = string(b)
		}
	case "qtype", "same-id-qtype":
		if q.Qtype == dns.TypeA {
			q.Qtype = dns.TypeAAAA
		} else {
			q.Qtype = dns.TypeA
		}
	case "qclass":
		if q.Qclass == dns.ClassINET {
			q.Qclass = dns.ClassCHAOS
		} else {
			q.Qclass = dns.ClassINET
		}
	case "label":
		// One more / one different label sharing the prefix; never longer than
		// the original so that maximal names stay legal.
		if len(q.Name) > 3 && len(q.Name) < 250 && strings.IndexByte(q.Name, '.') < 63 {
			q.Name = "x" + q.Name
		} else if len(q.Name) > 1 {
			b := []byte(q.Name)
			if b[len(b)-2] == 'y' {
				b[len(b)-2] = 'z'
			} else {
				b[len(b)-2] = 'y'
			}

			q.Name = string(b)
		} else {
			q.Name = "x."
		}
	case "kind":
		// Same shape, another answer kind (big after small, error after
		// answer, ...).
		k := rapid.IntRange(0, int(NKinds)-1).Draw(t, "otherKind")
		q.Name = fmt.Sprintf("k%d.near.test.", k)
	case "grow":
		// The same question in a query beyond the initial capacity (512) of the
		// pooled TCP buffers, after / before shorter ones.
		opt := m.IsEdns0()
		if opt == nil {
			m.SetEdns0(4096, false)
			opt = m.IsEdns0()
		}

		opt.Option = append(opt.Option, &dns.EDNS0_LOCAL{Code: 65002, Data: make([]byte, rapid.SampledFrom([]int{513, 600, 1500}).Draw(t, "growBy"))})
	case "rd":
		m.RecursionDesired = !m.RecursionDesired
	case "cd":
		m.CheckingDisabled = !m.CheckingDisabled
	case "edns":
		if opt := m.IsEdns0(); opt != nil {
			m.Extra = m.Extra[:len(m.Extra)-1]
		} else {
			m.SetEdns0(1232, false)
		}
	case "do":
		if opt := m.IsEdns0(); opt != nil {
			opt.Hdr.Ttl ^= 1 << 15
		} else {
			m.SetEdns0(4096, true)
		}
	}

	return m, what
}

// DrawBurst draws k near misses of base with pairwise distinct IDs (except the
// kinds whose point is the shared ID).
func DrawBurst(t *rapid.T, base *dns.Msg, k int) (ms []*dns.Msg, whats []string) {
	for i := 0; i < k; i++ {
		m, what := DrawNearMiss(t, base)
		if m.Id != base.Id {
			m.Id = base.Id + uint16(1+i)
		}

		ms = append(ms, m)
		whats = append(whats, what)
	}

	return ms, whats
}

// MatchReplies pairs the messages received for several pipelined inputs with
// the inputs: every reply must be judged acceptable (by judge) for a distinct
// input, and every input that must be answered must have got one.  judge
// returns nil if msg is the documented answer to case i.
func MatchReplies(n int, replies [][]byte, mustReply func(i int) bool, judge func(i int, msg []byte) error) error {
	used := make([]bool, n)
	for ri, msg := range replies {
		var errs []string
		found := false
		for i := 0; i < n && !found; i++ {
			if used[i] || !mustReply(i) {
				continue
			}

			if err := judge(i, msg); err != nil {
				if !strings.Contains(err.Error(), "response ID") {
					errs = append(errs, fmt.Sprintf("input %d: %v", i+1, err))
				}

				continue
			}

			used[i], found = true, true
		}

		if !found {
			return fmt.Errorf("reply %d of %d (%x) answers none of the still unanswered inputs (mismatches other than the ID: %q)", ri+1, len(replies), msg, errs)
		}
	}

	for i := 0; i < n; i++ {
		if mustReply(i) && !used[i] {
			return fmt.Errorf("input %d of %d got no reply (%d replies in all)", i+1, n, len(replies))
		}
	}

	return nil
}

// DrawStructuredBad turns base into a message that is well-formed on the wire
// but not an acceptable query.
func DrawStructuredBad(t *rapid.T, base *dns.Msg) (m *dns.Msg, what string) {
	m = base.Copy()
	what = rapid.SampledFrom([]string{"qr", "qr", "opcode", "opcode", "no-question", "two-questions", "two-answers", "two-ns", "qr+two-questions", "opcode+no-question"}).Draw(t, "bad")
	q2 := dns.Question{Name: DrawName(t, DrawKind(t)), Qtype: dns.TypeAAAA, Qclass: dns.ClassINET}
	name := m.Question[0].Name
	if strings.Contains(what, "qr") {
		m.Response = true
	}

	if strings.Contains(what, "opcode") {
		m.Opcode = rapid.SampledFrom([]int{1, 2, 3, 5, 6, 7, 8, 9, 10, 11, 12, 13, 14, 15}).Draw(t, "opcode")
	}

	if strings.Contains(what, "no-question") {
		m.Question = nil
	}

	if strings.Contains(what, "two-questions") {
		m.Question = append(m.Question, q2)
		if rapid.IntRange(0, 3).Draw(t, "threeQuestions") == 0 {
			m.Question = append(m.Question, q2)
		}
	}

	if strings.Contains(what, "two-answers") {
		m.Answer = []dns.RR{refRR(name, dns.TypeA, dns.ClassINET, 1, 1, false), refRR(name, dns.TypeA, dns.ClassINET, 1, 2, false)}
	}

	if strings.Contains(what, "two-ns") {
		m.Ns = []dns.RR{refRR(name, dns.TypeNS, dns.ClassINET, 1, 1, false), refRR(name, dns.TypeNS, dns.ClassINET, 1, 2, false)}
	}

	return m, what
}

// DrawMutation applies one byte-level corruption to wire.
func DrawMutation(t *rapid.T, wire []byte) (out []byte, what string) {
	what = rapid.SampledFrom([]string{"truncate", "truncate", "bitflip", "bitflip", "flip-header", "counts", "pointer", "pointer",
		"garbage-tail", "header-only", "random", "label-len", "short"}).Draw(t, "mutation")
	w := append([]byte(nil), wire...)
	switch what {
	case "truncate":
		if len(w) > 12 {
			w = w[:rapid.IntRange(12, len(w)-1).Draw(t, "cut")]
		}
	case "short":
		w = w[:rapid.IntRange(0, 11).Draw(t, "cutShort")]
	case "bitflip":
		for i, n := 0, rapid.IntRange(1, 3).Draw(t, "flips"); i < n; i++ {
			w[rapid.IntRange(0, len(w)-1).Draw(t, "flipAt")] ^= 1 << rapid.IntRange(0, 7).Draw(t, "flipBit")
		}
	case "flip-header":
		w[rapid.IntRange(2, 11).Draw(t, "flipAtH")] ^= 1 << rapid.IntRange(0, 7).Draw(t, "flipBitH")
	case "counts":
		off := 4 + 2*rapid.IntRange(0, 3).Draw(t, "section")
		binary.BigEndian.PutUint16(w[off:], uint16(rapid.SampledFrom([]int{0, 1, 2, 3, 50, 65535}).Draw(t, "count")))
	case "pointer":
		// Replace the question name by a compression pointer: to itself, forward,
		// at or beyond the end.
		tail := append([]byte(nil), w[12+qnameLen(w):]...)
		target := rapid.SampledFrom([]int{12, 13, 14, 16, 30, len(w), len(w) + 7, 0x3fff}).Draw(t, "ptrTarget")
		w = append(w[:12:12], 0xc0|byte(target>>8), byte(target))
		w = append(w, tail...)
	case "garbage-tail":
		for i, n := 0, rapid.IntRange(1, 20).Draw(t, "tail"); i < n; i++ {
			w = append(w, byte(rapid.IntRange(0, 255).Draw(t, "tailByte")))
		}
	case "header-only":
		w = w[:12]
	case "random":
		w = rapid.SliceOfN(rapid.Byte(), 0, 64).Draw(t, "randomBytes")
	case "label-len":
		if len(w) > 12 {
			w[12] = byte(rapid.SampledFrom([]int{0, 64, 65, 128, 191, 255, int(w[12]) + 1}).Draw(t, "labelLen"))
		}
	}

	return w, what
}

// qnameLen is the length of the (uncompressed) name at offset 12 of w, or 0.
func qnameLen(w []byte) int {
	i := 12
	for i < len(w) {
		l := int(w[i])
		if l == 0 {
			return i + 1 - 12
		}

		if l >= 0xc0 {
			return i + 2 - 12
		}

		i += 1 + l
	}

	return 0
}

// Input is one generated input.
type Input struct {
	Wire []byte
	// Gen tells how it was generated: "valid", "bad:<what>", "mut:<what>".
	Gen string
	// Msg is the structured message the wire image was derived from (before
	// any byte-level mutation).
	Msg *dns.Msg
}

// DrawInput draws a valid query, a structured unacceptable message or a
// byte-level mutation of either.
func DrawInput(t *rapid.T) Input {
	base := DrawQuery(t)
	class := rapid.SampledFrom([]string{"valid", "valid", "valid", "valid", "bad", "bad", "mut", "mut", "mut"}).Draw(t, "inputClass")
	m, gen := base, "valid"
	if class == "bad" || (class == "mut" && rapid.IntRange(0, 3).Draw(t, "mutOfBad") == 0) {
		var what string
		m, what = DrawStructuredBad(t, base)
		gen = "bad:" + what
	}

	wire, err := m.Pack()
	if err != nil {
		panic(fmt.Errorf("vc01ref: generated message does not pack: %w\n%v", err, m))
	}

	if class == "mut" {
		var what string
		wire, what = DrawMutation(t, wire)
		gen = "mut:" + what
	}

	return Input{Wire: wire, Gen: gen, Msg: m}
}

// Hex renders wire.
func Hex(wire []byte) string { return hex.EncodeToString(wire) }
