//go:build verif

package backendpb

// C14 (e): the conversion of the backend's protobuf messages into profiles and
// devices.  This file holds the generator: a profile with its devices is drawn
// as a plain-data "spec" (what the backend means to say); the wire message is
// built from the spec field by field, the expectations are derived from the
// spec by c14bp_oracle.go without asking package backendpb.
//
// Strings and addresses come from small hand-classified pools (valid / invalid
// by the documented limits of agd.NewDeviceID, agd.NewDeviceName,
// agd.NewHumanIDLower, agd.NewProfileID, filter.NewID,
// filter.NewBlockedServiceID, filter.NewRuleText), so that validity is a table
// look-up and not a re-implementation of the validators.

import (
	"encoding/json"
	"fmt"
	"net/netip"
	"slices"
	"strings"
	"sync"
	"testing"
	"time"

	"github.com/AdguardTeam/AdGuardDNS/internal/agdtime"
	"github.com/AdguardTeam/golibs/netutil"
	"github.com/c2h5oh/datasize"
	"golang.org/x/crypto/bcrypt"
	"google.golang.org/protobuf/types/known/durationpb"
	"pgregory.net/rapid"
)

// vc14bpFindingNoWeek is the id of the (repaired) finding "a schedule message
// without a weekly range makes the conversion panic".
const vc14bpFindingNoWeek = "backendpb-schedule-without-weekly-range-panics"

func vc14bpAddr(s string) netip.Addr     { return netip.MustParseAddr(s) }
func vc14bpPrefix(s string) netip.Prefix { return netip.MustParsePrefix(s) }

// Pools.  Small on purpose: collisions, near misses and hits must be frequent.
var (
	// "p1"/"P1" differ in letter case only; "a~b#c$d%" has the maximum length.
	vc14bpProfIDs    = []string{"p1", "P1", "p2!x", "a~b#c$d%", "zz", "0"}
	vc14bpProfIDsBad = []string{"toolong-9", "p 1", "p\n1", "пр", "p\x7f"}

	// "d1"/"D1"/"d11" are near misses; "abcdefgh" has the maximum length.
	vc14bpDevIDs    = []string{"d1", "D1", "d11", "dev-2", "abcdefgh", "x", "d6", "0", "a--b"}
	vc14bpDevIDsBad = []string{"", "abcdefghi", "-d1", "d1-", "d_1", "д1", "d 1"}

	vc14bpNames = []string{"", "dev1", "Dev1", "My Phone", "Телефон Ивана", "客厅电视 📺", "a\"b\\c\nd", "x",
		strings.Repeat("я", 128)}
	vc14bpNamesBad = []string{strings.Repeat("я", 129), strings.Repeat("a", 129)}

	vc14bpHumans = []string{"tv", "tv-2", "phone", "my-device-x--10", "0",
		strings.Repeat("h", 63)}
	vc14bpHumansBad = []string{"TV", "a---b", "-tv", "tv-", strings.Repeat("h", 64), "t v", "t_v"}

	// Linked addresses.  The IPv4-mapped form of the first entry is a different
	// key; 0.0.0.0 and :: are valid addresses (the zero netip.Addr means
	// "none").
	vc14bpLinked = []netip.Addr{
		vc14bpAddr("192.0.2.1"),
		vc14bpAddr("::ffff:192.0.2.1"),
		vc14bpAddr("192.0.2.2"),
		vc14bpAddr("2001:db8::1"),
		vc14bpAddr("::ffff:192.0.2.77"),
		vc14bpAddr("0.0.0.0"),
		vc14bpAddr("::"),
		vc14bpAddr("2001:db8::2"),
		vc14bpAddr("192.0.2.77"),
	}
	vc14bpBadIPLens = []int{1, 3, 5, 15}

	// The bind set of the storage: unaligned on purpose.
	vc14bpBind = netutil.SliceSubnetSet{
		vc14bpPrefix("198.51.100.0/25"),
		vc14bpPrefix("2001:db8:d::/64"),
		vc14bpPrefix("203.0.113.7/32"),
		vc14bpPrefix("::ffff:203.0.113.0/124"),
	}
	vc14bpDedPool = []netip.Addr{
		vc14bpAddr("198.51.100.1"),
		vc14bpAddr("198.51.100.2"),
		vc14bpAddr("198.51.100.127"),
		vc14bpAddr("198.51.100.0"),
		vc14bpAddr("2001:db8:d::1"),
		vc14bpAddr("2001:db8:d::2"),
		vc14bpAddr("2001:db8:d:0:ffff:ffff:ffff:ffff"),
		vc14bpAddr("203.0.113.7"),
		// An IPv4-mapped address is an IPv6 address of its own.
		vc14bpAddr("::ffff:203.0.113.9"),
	}
	// Just outside the bind set.
	vc14bpDedOutside = []netip.Addr{
		vc14bpAddr("198.51.100.128"),
		vc14bpAddr("198.51.99.255"),
		vc14bpAddr("2001:db8:d:1::1"),
		vc14bpAddr("203.0.113.6"),
		vc14bpAddr("203.0.113.8"),
		vc14bpAddr("::ffff:203.0.113.16"),
	}

	vc14bpNets = []netip.Prefix{
		vc14bpPrefix("192.0.2.0/24"),
		vc14bpPrefix("192.0.2.128/25"),
		vc14bpPrefix("198.51.100.0/24"),
		vc14bpPrefix("203.0.113.7/32"),
		vc14bpPrefix("2001:db8::/32"),
		vc14bpPrefix("2001:db8:1::/48"),
		vc14bpPrefix("10.1.2.3/8"), // not masked on purpose
		vc14bpPrefix("198.51.100.64/26"),
		vc14bpPrefix("203.0.113.8/31"),
		vc14bpPrefix("2001:db8:8000::/33"),
		vc14bpPrefix("2001:db8:1::5/128"),
		vc14bpPrefix("0.0.0.0/0"),
		vc14bpPrefix("::/0"),
		vc14bpPrefix("128.0.0.0/1"),
		vc14bpPrefix("192.0.2.200/29"),
	}
	vc14bpProbeIPs = []netip.Addr{
		vc14bpAddr("192.0.2.1"),
		vc14bpAddr("192.0.2.200"),
		vc14bpAddr("192.0.2.207"),
		vc14bpAddr("192.0.2.208"),
		vc14bpAddr("198.51.100.9"),
		vc14bpAddr("203.0.113.7"),
		vc14bpAddr("203.0.113.8"),
		vc14bpAddr("2001:db8::1"),
		vc14bpAddr("2001:db8:1::5"),
		vc14bpAddr("2001:db9::1"),
		vc14bpAddr("10.9.9.9"),
		vc14bpAddr("8.8.8.8"),
		vc14bpAddr("198.51.100.63"),
		vc14bpAddr("198.51.100.64"),
		vc14bpAddr("203.0.113.9"),
		vc14bpAddr("203.0.113.10"),
		vc14bpAddr("2001:db8:8000::1"),
		vc14bpAddr("2001:db8:7fff::1"),
		vc14bpAddr("0.0.0.0"),
		vc14bpAddr("127.255.255.255"),
	}
	vc14bpASNs = []uint32{0, 1, 2, 64500, 4294967295}
	// -1 stands for "no location".
	vc14bpProbeASNs = []int64{-1, 0, 1, 2, 7, 64500, 4294967295}

	vc14bpDomainRules = []string{
		"block.test",
		"||ads.example^",
		"|exact.example|",
		"*.wild.example",
		"@@||ok.ads.example^",
		"||typed.example^$dnstype=AAAA",
		"BLOCK-UPPER.test",
		"/regex[0-9]+\\.test/",
		"||пример.рф^",
	}
	vc14bpProbeNames = []string{
		"block.test.", "sub.ads.example.", "ok.ads.example.", "exact.example.", "a.wild.example.",
		"typed.example.", "block-upper.test.", "regex12.test.", "free.example.",
	}

	vc14bpRules = []string{
		"|blocked-by-custom.example", "||x.test^$dnsrewrite=1.2.3.4", "@@||allow.test^", "# comment", "",
		"||юникод.test^", "a b\tc",
		// Exactly the maximum rule length (1024 runes).
		"||" + strings.Repeat("a", 1024-3) + "^",
		strings.Repeat("ю", 1024),
	}
	vc14bpRulesBad = []string{strings.Repeat("a", 1025), strings.Repeat("ю", 1025)}

	vc14bpServices    = []string{"youtube", "9gag", "a.b-c_d", "X!", strings.Repeat("s", 64)}
	vc14bpServicesBad = []string{"", strings.Repeat("s", 65), "a/b", "a b", "сервис"}

	vc14bpListIDs    = []string{"adguard_dns_filter", "1", "list-2", "z~z", strings.Repeat("l", 128)}
	vc14bpListIDsBad = []string{"", strings.Repeat("l", 129), "a/b", "a b", "ид"}

	// "" means UTC (time.LoadLocation).
	vc14bpZones    = []string{"UTC", "", "Europe/Brussels", "America/New_York", "Asia/Kolkata", "Australia/Lord_Howe", "Pacific/Chatham", "GMT"}
	vc14bpZonesBad = []string{"invalid", "Europe/Nowhere", "utc "}

	vc14bpDurs = []vc14bpDur{{0, 0}, {1, 0}, {10, 0}, {3600, 0}, {0, 1}, {1, 500_000_000}, {-1, 0}, {0, -1}, {-2, -500_000_000},
		{86400 * 365, 999_999_999}, {60, 0}, {0, 60}}
	vc14bpRPS     = []uint32{1, 2, 3, 5, 4, 100, 20000, 0}
	vc14bpEsts    = []datasize.ByteSize{256 * datasize.B, 1 * datasize.KB}
	vc14bpPasswds = []string{"correct horse", "pässwörd", ""}

	vc14bpModeV4 = []netip.Addr{vc14bpAddr("192.0.2.53"), vc14bpAddr("0.0.0.0"), vc14bpAddr("203.0.113.200"), vc14bpAddr("192.0.2.54")}
	vc14bpModeV6 = []netip.Addr{vc14bpAddr("2001:db8::53"), vc14bpAddr("::"), vc14bpAddr("::ffff:1.2.3.4"), vc14bpAddr("2001:db8::54")}

	vc14bpProbeTS = []int64{
		1711846740, // 2024-03-31 00:59 UTC, just before the EU DST switch
		1711850400, // 2024-03-31 02:00 UTC
		1730595600, // 2024-11-03, US DST switch day
		1735689599, // 2024-12-31 23:59:59 UTC
		1719792000, // 2024-07-01 00:00 UTC
	}
)

var (
	vc14bpHashOnce sync.Once
	vc14bpHashes   [][]byte
)

// vc14bpHash returns a real bcrypt hash (minimum cost) of password i.
func vc14bpHash(i int) (h []byte) {
	vc14bpHashOnce.Do(func() {
		for _, p := range vc14bpPasswds {
			b, err := bcrypt.GenerateFromPassword([]byte(p), bcrypt.MinCost)
			if err != nil {
				panic(err)
			}

			vc14bpHashes = append(vc14bpHashes, b)
		}
	})

	return slices.Clone(vc14bpHashes[i])
}

// Specs.

// vc14bpDur is a protobuf duration: seconds and nanoseconds of the same sign.
type vc14bpDur struct {
	Sec   int64
	Nanos int32
}

func (d *vc14bpDur) msg() *durationpb.Duration {
	if d == nil {
		return nil
	}

	return &durationpb.Duration{Seconds: d.Sec, Nanos: d.Nanos}
}

// vc14bpCIDR is one CidrRange.  BadLen > 0: the address is sent as BadLen
// octets of garbage (must be skipped and reported).
type vc14bpCIDR struct {
	IP     netip.Addr
	Bits   int
	BadLen int `json:",omitempty"`
}

func (c vc14bpCIDR) msg() *CidrRange {
	if c.BadLen > 0 {
		return &CidrRange{Address: slices.Repeat([]byte{7}, c.BadLen), Prefix: uint32(c.Bits)}
	}

	return &CidrRange{Address: c.IP.AsSlice(), Prefix: uint32(c.Bits)}
}

type vc14bpAccess struct {
	Enabled     bool
	AllowedNets []vc14bpCIDR
	BlockedNets []vc14bpCIDR
	AllowedASN  []uint32
	BlockedASN  []uint32
	Rules       []string
}

type vc14bpRL struct {
	Enabled bool
	RPS     uint32
	Subnets []vc14bpCIDR
}

type vc14bpSB struct {
	Enabled, Dangerous, Newly bool
}

type vc14bpLists struct {
	Enabled bool
	IDs     []string
}

// vc14bpDay is one DayRange: first and last minute of the day, both included
// (backendpb's own test data: 0..59 min is the interval [0, 60)).  A zero
// value may be sent as an absent duration.
type vc14bpDay struct {
	Start, End       int
	StartNil, EndNil bool `json:",omitempty"`
}

type vc14bpSched struct {
	TZ string
	// NoWeek: the weeklyRange sub-message is not set at all (same meaning as
	// an empty one).
	NoWeek bool `json:",omitempty"`
	// Days is indexed by time.Weekday; nil = no interval.
	Days [7]*vc14bpDay
}

type vc14bpPar struct {
	Enabled, Adult, General, YouTube bool
	Services                         []string
	Sched                            *vc14bpSched
}

type vc14bpDed struct {
	IP netip.Addr
	// BadLen > 0: sent as that many octets; -1: sent as an empty byte string.
	BadLen int `json:",omitempty"`
}

type vc14bpDev struct {
	ID        string
	Name      string
	Human     string
	Filtering bool

	// Linked is the zero Addr for "none"; LinkedEmpty then sends an empty
	// non-nil byte string instead of nothing.  LinkedBadLen > 0 sends garbage
	// of that length.
	Linked       netip.Addr
	LinkedEmpty  bool `json:",omitempty"`
	LinkedBadLen int  `json:",omitempty"`

	Ded []vc14bpDed

	Auth    string // absent | nohash | bcrypt | badhash | emptyhash
	DoHOnly bool
	Passwd  int

	// Bad names the single defect that makes the device invalid ("" = valid).
	Bad string `json:",omitempty"`
}

type vc14bpProf struct {
	ID string

	Filtering, QueryLog, Deleted, Relay, Firefox, IPLog, Auto, Chrome bool

	TTL *vc14bpDur // nil: absent

	Mode   string // absent | null | nxdomain | refused | custom
	ModeV4 []byte
	ModeV6 []byte

	SB     *vc14bpSB
	Par    *vc14bpPar
	Lists  *vc14bpLists
	Access *vc14bpAccess
	RL     *vc14bpRL
	Rules  []string
	Devs   []*vc14bpDev

	// Bad names the single defect that makes the whole profile invalid.
	Bad string `json:",omitempty"`
}

type vc14bpWorld struct {
	Profs []*vc14bpProf
}

func (w *vc14bpWorld) prof(id string) *vc14bpProf {
	for _, p := range w.Profs {
		if p.ID == id {
			return p
		}
	}

	return nil
}

func vc14bpDescribe(v any) string {
	b, err := json.Marshal(v)
	if err != nil {
		return fmt.Sprintf("%+v", v)
	}

	return string(b)
}

func vc14bpClone[T any](v *T) (c *T) {
	b, err := json.Marshal(v)
	if err != nil {
		panic(fmt.Errorf("harness: cloning: %w", err))
	}

	c = new(T)
	if err = json.Unmarshal(b, c); err != nil {
		panic(fmt.Errorf("harness: cloning: %w", err))
	}

	return c
}

// validDevs lists the devices that must survive the conversion, in order.
func (p *vc14bpProf) validDevs() (ds []*vc14bpDev) {
	for _, d := range p.Devs {
		if d.Bad == "" {
			ds = append(ds, d)
		}
	}

	return ds
}

// Hand tables of validity.

func vc14bpIn(pool []string, s string) bool { return slices.Contains(pool, s) }

func vc14bpValidRules(l []string) (out []string) {
	for _, r := range l {
		if !vc14bpIn(vc14bpRulesBad, r) {
			out = append(out, r)
		}
	}

	return out
}

func vc14bpValidOf(l, bad []string) (out []string) {
	for _, s := range l {
		if !vc14bpIn(bad, s) {
			out = append(out, s)
		}
	}

	return out
}

func vc14bpBadCIDRs(l []vc14bpCIDR) (n int) {
	for _, c := range l {
		if c.BadLen > 0 {
			n++
		}
	}

	return n
}

// reports returns how many error reports the conversion of a valid profile
// must at least make: one per invalid item that it has to skip.
func (p *vc14bpProf) reports() (n int) {
	n = len(p.Devs) - len(p.validDevs())
	n += len(p.Rules) - len(vc14bpValidRules(p.Rules))
	if p.Par != nil {
		n += len(p.Par.Services) - len(vc14bpValidOf(p.Par.Services, vc14bpServicesBad))
	}

	if p.Lists != nil {
		n += len(p.Lists.IDs) - len(vc14bpValidOf(p.Lists.IDs, vc14bpListIDsBad))
	}

	if p.Access != nil && p.Access.Enabled {
		n += vc14bpBadCIDRs(p.Access.AllowedNets) + vc14bpBadCIDRs(p.Access.BlockedNets)
	}

	if p.RL != nil && p.RL.Enabled {
		n += vc14bpBadCIDRs(p.RL.Subnets)
	}

	return n
}

// Generators (constructive, no rejection).

func vc14bpSubset[T any](t *rapid.T, label string, pool []T, maxN int) (out []T) {
	n := rapid.IntRange(0, min(maxN, len(pool))).Draw(t, label+"N")
	if n == 0 {
		return nil
	}

	perm := rapid.Permutation(pool).Draw(t, label)

	return slices.Clone(perm[:n])
}

// vc14bpMixed draws up to maxN strings, mostly valid ones, in a drawn order.
func vc14bpMixed(t *rapid.T, label string, good, bad []string, maxN int) (out []string) {
	out = vc14bpSubset(t, label, good, maxN)
	if rapid.IntRange(0, 3).Draw(t, label+"HasBad") == 0 {
		b := rapid.SampledFrom(bad).Draw(t, label+"Bad")
		i := rapid.IntRange(0, len(out)).Draw(t, label+"BadAt")
		out = slices.Insert(out, i, b)
	}

	return out
}

func vc14bpDrawCIDRs(t *rapid.T, label string, pool []netip.Prefix, maxN int) (out []vc14bpCIDR) {
	for _, n := range vc14bpSubset(t, label, pool, maxN) {
		out = append(out, vc14bpCIDR{IP: n.Addr(), Bits: n.Bits()})
	}

	if rapid.IntRange(0, 5).Draw(t, label+"HasBad") == 0 {
		bad := vc14bpCIDR{BadLen: rapid.SampledFrom([]int{1, 3, 5, 15, 17}).Draw(t, label+"BadLen"), Bits: 8}
		i := rapid.IntRange(0, len(out)).Draw(t, label+"BadAt")
		out = slices.Insert(out, i, bad)
	}

	return out
}

func vc14bpDrawSched(t *rapid.T, allowNoWeek bool) (s *vc14bpSched) {
	s = &vc14bpSched{TZ: rapid.SampledFrom(vc14bpZones).Draw(t, "tz")}
	if allowNoWeek && rapid.IntRange(0, 7).Draw(t, "noWeek") == 0 {
		s.NoWeek = true

		return s
	}

	for i := range s.Days {
		switch rapid.IntRange(0, 6).Draw(t, fmt.Sprintf("day%dKind", i)) {
		case 0:
			// no interval
		case 1:
			s.Days[i] = &vc14bpDay{Start: 0, End: 0, StartNil: rapid.Bool().Draw(t, "startNil"), EndNil: rapid.Bool().Draw(t, "endNil")}
		case 2:
			s.Days[i] = &vc14bpDay{Start: 0, End: 1439, StartNil: rapid.Bool().Draw(t, "startNil")}
		case 3:
			s.Days[i] = &vc14bpDay{Start: 1439, End: 1439}
		case 4:
			a := rapid.IntRange(0, 1439).Draw(t, fmt.Sprintf("day%dAt", i))
			s.Days[i] = &vc14bpDay{Start: a, End: a}
		default:
			a := rapid.IntRange(0, 1439).Draw(t, fmt.Sprintf("day%dStart", i))
			b := rapid.IntRange(a, 1439).Draw(t, fmt.Sprintf("day%dEnd", i))
			s.Days[i] = &vc14bpDay{Start: a, End: b}
		}
	}

	return s
}

type vc14bpFree struct {
	devIDs, devIDsBad []string
	linked, ded       []netip.Addr
}

func vc14bpNewFree() *vc14bpFree {
	return &vc14bpFree{
		devIDs:    slices.Clone(vc14bpDevIDs),
		devIDsBad: slices.Clone(vc14bpDevIDsBad),
		linked:    slices.Clone(vc14bpLinked),
		ded:       slices.Clone(vc14bpDedPool),
	}
}

func vc14bpTake[T any](t *rapid.T, label string, pool *[]T) (v T) {
	i := rapid.IntRange(0, len(*pool)-1).Draw(t, label)
	v = (*pool)[i]
	*pool = slices.Delete(*pool, i, i+1)

	return v
}

// vc14bpDrawDev draws a device; nil if the pools are exhausted.  usedHumans are
// the human ids taken within the profile.
func vc14bpDrawDev(t *rapid.T, f *vc14bpFree, usedHumans *[]string, allowBad bool) (d *vc14bpDev) {
	if len(f.devIDs) == 0 {
		return nil
	}

	d = &vc14bpDev{
		ID:        vc14bpTake(t, "devID", &f.devIDs),
		Name:      rapid.SampledFrom(vc14bpNames).Draw(t, "devName"),
		Filtering: rapid.Bool().Draw(t, "devFiltering"),
		Auth:      rapid.SampledFrom([]string{"absent", "absent", "nohash", "bcrypt", "bcrypt", "badhash", "emptyhash"}).Draw(t, "auth"),
	}

	if d.Auth != "absent" {
		d.DoHOnly = rapid.Bool().Draw(t, "dohOnly")
	}

	if d.Auth == "bcrypt" {
		d.Passwd = rapid.IntRange(0, len(vc14bpPasswds)-1).Draw(t, "passwd")
	}

	if len(f.linked) > 0 && rapid.IntRange(0, 2).Draw(t, "hasLinked") > 0 {
		d.Linked = vc14bpTake(t, "linked", &f.linked)
	} else {
		d.LinkedEmpty = rapid.Bool().Draw(t, "linkedEmpty")
	}

	nDed := rapid.IntRange(0, min(2, len(f.ded))).Draw(t, "nDed")
	for j := 0; j < nDed; j++ {
		d.Ded = append(d.Ded, vc14bpDed{IP: vc14bpTake(t, "ded", &f.ded)})
	}

	if rapid.IntRange(0, 2).Draw(t, "hasHuman") == 0 {
		h := rapid.SampledFrom(vc14bpHumans).Draw(t, "human")
		if !slices.Contains(*usedHumans, h) {
			d.Human = h
			*usedHumans = append(*usedHumans, h)
		}
	}

	if !allowBad || rapid.IntRange(0, 3).Draw(t, "devBad") > 0 {
		return d
	}

	// Exactly one defect; everything else stays as drawn, so the device is a
	// near miss of a valid one.
	switch k := rapid.SampledFrom([]string{"id", "name", "human", "linked-len", "ded-len", "ded-empty", "ded-outside"}).Draw(t, "devDefect"); k {
	case "id":
		if len(f.devIDsBad) > 0 {
			f.devIDs = append(f.devIDs, d.ID)
			d.ID = vc14bpTake(t, "devIDBad", &f.devIDsBad)
			d.Bad = k
		}
	case "name":
		d.Name = rapid.SampledFrom(vc14bpNamesBad).Draw(t, "devNameBad")
		d.Bad = k
	case "human":
		if d.Human != "" {
			*usedHumans = slices.DeleteFunc(*usedHumans, func(h string) bool { return h == d.Human })
		}

		d.Human = rapid.SampledFrom(vc14bpHumansBad).Draw(t, "humanBad")
		d.Bad = k
	case "linked-len":
		if d.Linked.IsValid() {
			f.linked = append(f.linked, d.Linked)
		}

		d.Linked, d.LinkedEmpty = netip.Addr{}, false
		d.LinkedBadLen = rapid.SampledFrom(vc14bpBadIPLens).Draw(t, "linkedBadLen")
		d.Bad = k
	case "ded-len":
		i := rapid.IntRange(0, len(d.Ded)).Draw(t, "dedBadAt")
		d.Ded = slices.Insert(d.Ded, i, vc14bpDed{BadLen: rapid.SampledFrom(vc14bpBadIPLens).Draw(t, "dedBadLen")})
		d.Bad = k
	case "ded-empty":
		i := rapid.IntRange(0, len(d.Ded)).Draw(t, "dedBadAt")
		d.Ded = slices.Insert(d.Ded, i, vc14bpDed{BadLen: -1})
		d.Bad = k
	case "ded-outside":
		i := rapid.IntRange(0, len(d.Ded)).Draw(t, "dedBadAt")
		d.Ded = slices.Insert(d.Ded, i, vc14bpDed{IP: rapid.SampledFrom(vc14bpDedOutside).Draw(t, "dedOutside")})
		d.Bad = k
	}

	return d
}

type vc14bpOpts struct {
	// BadProfiles allows profiles that the conversion must reject.
	BadProfiles bool
	// BadDevices allows devices that the conversion must skip.
	BadDevices bool
	// NoWeek allows schedules without a weekly range.
	NoWeek bool
	// Deleted allows deleted profiles.
	Deleted bool
	MaxProf int
	MaxDevs int
}

func vc14bpDrawProf(t *rapid.T, id string, f *vc14bpFree, o vc14bpOpts) (p *vc14bpProf) {
	b := func(l string) bool { return rapid.Bool().Draw(t, l) }
	p = &vc14bpProf{
		ID:        id,
		Filtering: b("filtering"),
		QueryLog:  b("querylog"),
		Deleted:   o.Deleted && rapid.IntRange(0, 3).Draw(t, "deleted") == 0,
		Relay:     b("relay"),
		Firefox:   b("firefox"),
		IPLog:     b("iplog"),
		Auto:      b("auto"),
		Chrome:    b("chrome"),
	}

	switch rapid.IntRange(0, 9).Draw(t, "ttlKind") {
	case 0:
		// absent
	case 1:
		sec := rapid.Int64Range(0, 1<<33).Draw(t, "ttlSec")
		p.TTL = &vc14bpDur{Sec: sec, Nanos: rapid.Int32Range(0, 999_999_999).Draw(t, "ttlNanos")}
	default:
		d := rapid.SampledFrom(vc14bpDurs).Draw(t, "ttl")
		p.TTL = &d
	}

	p.Mode = rapid.SampledFrom([]string{"absent", "null", "nxdomain", "refused", "custom", "custom", "custom"}).Draw(t, "mode")
	if p.Mode == "custom" {
		v4 := rapid.SampledFrom(vc14bpModeV4).Draw(t, "mode4").AsSlice()
		v6 := rapid.SampledFrom(vc14bpModeV6).Draw(t, "mode6").AsSlice()
		switch rapid.SampledFrom([]string{"v4", "v4-empty6", "v6", "v6-empty4", "both"}).Draw(t, "customKind") {
		case "v4":
			p.ModeV4 = v4
		case "v4-empty6":
			p.ModeV4, p.ModeV6 = v4, []byte{}
		case "v6":
			p.ModeV6 = v6
		case "v6-empty4":
			p.ModeV4, p.ModeV6 = []byte{}, v6
		default:
			p.ModeV4, p.ModeV6 = v4, v6
		}
	}

	if rapid.IntRange(0, 4).Draw(t, "sbKind") > 0 {
		p.SB = &vc14bpSB{Enabled: b("sbEnabled"), Dangerous: b("sbDangerous"), Newly: b("sbNewly")}
	}

	if rapid.IntRange(0, 4).Draw(t, "parKind") > 0 {
		p.Par = &vc14bpPar{Enabled: b("parEnabled"), Adult: b("adult"), General: b("ssGeneral"), YouTube: b("ssYouTube")}
		p.Par.Services = vc14bpMixed(t, "services", vc14bpServices, vc14bpServicesBad, 3)
		if rapid.IntRange(0, 3).Draw(t, "hasSched") > 0 {
			p.Par.Sched = vc14bpDrawSched(t, o.NoWeek)
		}
	}

	if rapid.IntRange(0, 4).Draw(t, "listsKind") > 0 {
		p.Lists = &vc14bpLists{Enabled: b("listEnabled"), IDs: vc14bpMixed(t, "listIDs", vc14bpListIDs, vc14bpListIDsBad, 3)}
	}

	if rapid.IntRange(0, 4).Draw(t, "accessKind") > 0 {
		p.Access = &vc14bpAccess{
			// An access section that is switched off but filled is a near miss
			// of a working one.
			Enabled:     rapid.IntRange(0, 3).Draw(t, "accessEnabled") > 0,
			AllowedNets: vc14bpDrawCIDRs(t, "allowedNets", vc14bpNets, 3),
			BlockedNets: vc14bpDrawCIDRs(t, "blockedNets", vc14bpNets, 3),
			AllowedASN:  vc14bpSubset(t, "allowedASN", vc14bpASNs, 2),
			BlockedASN:  vc14bpSubset(t, "blockedASN", vc14bpASNs, 2),
			Rules:       vc14bpSubset(t, "domainRules", vc14bpDomainRules, 4),
		}
	}

	if rapid.IntRange(0, 3).Draw(t, "rlKind") > 0 {
		p.RL = &vc14bpRL{
			Enabled: rapid.IntRange(0, 3).Draw(t, "rlEnabled") > 0,
			RPS:     rapid.SampledFrom(vc14bpRPS).Draw(t, "rps"),
			Subnets: vc14bpDrawCIDRs(t, "rlSubnets", vc14bpNets[:8], 2),
		}
	}

	p.Rules = vc14bpMixed(t, "customRules", vc14bpRules, vc14bpRulesBad, 3)

	var humans []string
	nDev := rapid.IntRange(0, o.MaxDevs).Draw(t, "nDev")
	for i := 0; i < nDev; i++ {
		if d := vc14bpDrawDev(t, f, &humans, o.BadDevices); d != nil {
			p.Devs = append(p.Devs, d)
		}
	}

	if o.BadProfiles && rapid.IntRange(0, 5).Draw(t, "profBad") == 0 {
		vc14bpBreakProf(t, p, "")
	}

	return p
}

// vc14bpBreakProf gives p exactly one defect for which the conversion must
// reject the whole profile; everything else stays as drawn.  The profile id
// is only replaced if kind asks for it.
func vc14bpBreakProf(t *rapid.T, p *vc14bpProf, kind string) {
	if kind == "" {
		kind = rapid.SampledFrom([]string{"id", "tz", "day-inverted", "day-start-1440", "day-end-1440", "mode-v4-len", "mode-v6-len",
			"mode-no-ips"}).Draw(t, "profDefect")
	}

	needSched := func() *vc14bpSched {
		if p.Par == nil {
			p.Par = &vc14bpPar{}
		}

		if p.Par.Sched == nil || p.Par.Sched.NoWeek {
			p.Par.Sched = &vc14bpSched{TZ: "UTC"}
		}

		return p.Par.Sched
	}
	day := func() int { return rapid.IntRange(0, 6).Draw(t, "badDay") }

	switch kind {
	case "id":
		p.ID = rapid.SampledFrom(vc14bpProfIDsBad).Draw(t, "profIDBad")
	case "tz":
		needSched().TZ = rapid.SampledFrom(vc14bpZonesBad).Draw(t, "tzBad")
	case "day-inverted":
		// The last minute lies at least two minutes before the first one (an
		// end just one minute before the start is an empty interval, which
		// the statement does not decide).
		a := rapid.IntRange(2, 1439).Draw(t, "invStart")
		needSched().Days[day()] = &vc14bpDay{Start: a, End: rapid.IntRange(0, a-2).Draw(t, "invEnd")}
	case "day-start-1440":
		needSched().Days[day()] = &vc14bpDay{Start: 1440, End: 1440}
	case "day-end-1440":
		needSched().Days[day()] = &vc14bpDay{Start: rapid.IntRange(0, 1439).Draw(t, "s"), End: 1440}
	case "mode-v4-len":
		p.Mode = "custom"
		p.ModeV4 = slices.Repeat([]byte{1}, rapid.SampledFrom([]int{1, 3, 5}).Draw(t, "v4len"))
	case "mode-v6-len":
		p.Mode = "custom"
		p.ModeV6 = slices.Repeat([]byte{1}, rapid.SampledFrom([]int{1, 3, 15}).Draw(t, "v6len"))
	case "mode-no-ips":
		p.Mode = "custom"
		p.ModeV4, p.ModeV6 = nil, nil
		if rapid.Bool().Draw(t, "emptyNotNil") {
			p.ModeV4, p.ModeV6 = []byte{}, []byte{}
		}
	default:
		panic("harness: bad defect " + kind)
	}

	p.Bad = kind
}

// vc14bpDrawWorld draws a consistent snapshot: device ids, linked and dedicated
// addresses are unique among all devices, human ids are unique within a
// profile.
func vc14bpDrawWorld(t *rapid.T, o vc14bpOpts) (w *vc14bpWorld, f *vc14bpFree) {
	w = &vc14bpWorld{}
	f = vc14bpNewFree()
	nProf := rapid.IntRange(1, min(o.MaxProf, len(vc14bpProfIDs))).Draw(t, "nProf")
	ids := rapid.Permutation(vc14bpProfIDs).Draw(t, "profIDs")[:nProf]
	for _, id := range ids {
		w.Profs = append(w.Profs, vc14bpDrawProf(t, id, f, o))
	}

	return w, f
}

// vc14bpMutateProf changes exactly one setting of a valid profile p and names
// it (a near miss of the previous delivery).
func vc14bpMutateProf(t *rapid.T, p *vc14bpProf) (what string) {
	flags := []*bool{&p.Filtering, &p.QueryLog, &p.Relay, &p.Firefox, &p.IPLog, &p.Auto, &p.Chrome}
	names := []string{"filtering", "querylog", "relay", "firefox", "iplog", "auto", "chrome"}
	if p.SB != nil {
		flags = append(flags, &p.SB.Enabled, &p.SB.Dangerous, &p.SB.Newly)
		names = append(names, "sb.enabled", "sb.dangerous", "sb.newly")
	}

	if p.Par != nil {
		flags = append(flags, &p.Par.Enabled, &p.Par.Adult, &p.Par.General, &p.Par.YouTube)
		names = append(names, "par.enabled", "par.adult", "par.general", "par.youtube")
	}

	if p.Lists != nil {
		flags = append(flags, &p.Lists.Enabled)
		names = append(names, "lists.enabled")
	}

	if p.Access != nil {
		flags = append(flags, &p.Access.Enabled)
		names = append(names, "access.enabled")
	}

	if p.RL != nil {
		flags = append(flags, &p.RL.Enabled)
		names = append(names, "rl.enabled")
	}

	switch k := rapid.IntRange(0, 9).Draw(t, "mutation"); k {
	case 0:
		if p.TTL == nil {
			p.TTL = &vc14bpDur{}
		}

		if p.TTL.Sec >= 0 && p.TTL.Nanos >= 0 && p.TTL.Nanos < 999_999_999 {
			p.TTL.Nanos++

			return "ttl+1ns"
		}

		p.TTL = &vc14bpDur{Sec: 7}

		return "ttl=7s"
	case 1:
		p.Mode, p.ModeV4, p.ModeV6 = map[string]string{"absent": "nxdomain", "null": "nxdomain", "nxdomain": "refused", "refused": "null",
			"custom": "null"}[p.Mode], nil, nil

		return "blocking mode"
	case 2:
		if p.Mode == "custom" && len(p.ModeV4) == 4 {
			p.ModeV4 = slices.Clone(p.ModeV4)
			p.ModeV4[3] ^= 1

			return "custom ipv4 last bit"
		}
	case 3:
		if a := p.Access; a != nil && len(a.BlockedNets) > 0 {
			a.AllowedNets, a.BlockedNets = append(a.AllowedNets, a.BlockedNets[0]), a.BlockedNets[1:]

			return "access: one net moved from blocked to allowed"
		} else if a != nil && len(a.BlockedASN) > 0 {
			a.AllowedASN, a.BlockedASN = append(a.AllowedASN, a.BlockedASN[0]), a.BlockedASN[1:]

			return "access: one asn moved from blocked to allowed"
		}
	case 4:
		if p.RL != nil && p.RL.RPS < 1000 {
			p.RL.RPS++

			return "rate limit +1"
		}
	case 5:
		if p.Par != nil && p.Par.Sched != nil && !p.Par.Sched.NoWeek {
			for i, d := range p.Par.Sched.Days {
				if d != nil && d.End > d.Start {
					p.Par.Sched.Days[i] = &vc14bpDay{Start: d.Start, End: d.End - 1}

					return "schedule: one end -1"
				}
			}

			p.Par.Sched.Days[6] = &vc14bpDay{Start: 0, End: 1}

			return "schedule: saturday 0-1"
		}
	case 6:
		if p.Par != nil && p.Par.Sched != nil {
			p.Par.Sched.TZ = map[bool]string{true: "America/New_York", false: "Europe/Brussels"}[p.Par.Sched.TZ == "Europe/Brussels"]

			return "schedule: time zone"
		}
	case 7:
		p.Rules = append(slices.Clone(p.Rules), "||one-more.test^")

		return "one more custom rule"
	case 8:
		if p.Lists != nil && len(p.Lists.IDs) >= 2 && p.Lists.IDs[0] != p.Lists.IDs[len(p.Lists.IDs)-1] {
			p.Lists.IDs = slices.Clone(p.Lists.IDs)
			slices.Reverse(p.Lists.IDs)

			return "rule-list order"
		}
	}

	i := rapid.IntRange(0, len(flags)-1).Draw(t, "flag")
	*flags[i] = !*flags[i]

	return "flag " + names[i]
}

// vc14bpMutateDev changes exactly one non-key setting of a valid device d.
func vc14bpMutateDev(t *rapid.T, d *vc14bpDev) (what string) {
	switch rapid.IntRange(0, 3).Draw(t, "devMutation") {
	case 0:
		if d.Auth != "absent" {
			d.DoHOnly = !d.DoHOnly

			return "doh-only"
		}
	case 1:
		d.Auth = map[string]string{"absent": "nohash", "nohash": "bcrypt", "bcrypt": "badhash", "badhash": "emptyhash", "emptyhash": "absent"}[d.Auth]
		d.Passwd = 0
		if d.Auth == "absent" {
			d.DoHOnly = false
		}

		return "auth kind"
	case 2:
		if len(d.Name) < 100 {
			d.Name += "1"

			return "name +1 character"
		}
	}

	d.Filtering = !d.Filtering

	return "device filtering flag"
}

// Message builders: the spec written out in the backend's protocol, field by
// field (see dns.proto).

func vc14bpCIDRMsgs(l []vc14bpCIDR) (out []*CidrRange) {
	for _, c := range l {
		out = append(out, c.msg())
	}

	return out
}

func (d *vc14bpDay) msg() *DayRange {
	if d == nil {
		return nil
	}

	r := &DayRange{}
	if !(d.StartNil && d.Start == 0) {
		r.Start = durationpb.New(time.Duration(d.Start) * time.Minute)
	}

	if !(d.EndNil && d.End == 0) {
		r.End = durationpb.New(time.Duration(d.End) * time.Minute)
	}

	return r
}

func (s *vc14bpSched) msg() *ScheduleSettings {
	if s == nil {
		return nil
	}

	m := &ScheduleSettings{Tmz: s.TZ}
	if s.NoWeek {
		return m
	}

	m.WeeklyRange = &WeeklyRange{
		Sun: s.Days[time.Sunday].msg(),
		Mon: s.Days[time.Monday].msg(),
		Tue: s.Days[time.Tuesday].msg(),
		Wed: s.Days[time.Wednesday].msg(),
		Thu: s.Days[time.Thursday].msg(),
		Fri: s.Days[time.Friday].msg(),
		Sat: s.Days[time.Saturday].msg(),
	}

	return m
}

func (d *vc14bpDev) msg() *DeviceSettings {
	m := &DeviceSettings{
		Id:               d.ID,
		Name:             d.Name,
		FilteringEnabled: d.Filtering,
		HumanIdLower:     d.Human,
	}

	switch {
	case d.LinkedBadLen > 0:
		m.LinkedIp = slices.Repeat([]byte{9}, d.LinkedBadLen)
	case d.Linked.IsValid():
		// 4 octets for an IPv4 address, 16 for an IPv6 one (an IPv4-mapped
		// address is an IPv6 one).
		m.LinkedIp = d.Linked.AsSlice()
	case d.LinkedEmpty:
		m.LinkedIp = []byte{}
	}

	for _, x := range d.Ded {
		switch {
		case x.BadLen > 0:
			m.DedicatedIps = append(m.DedicatedIps, slices.Repeat([]byte{9}, x.BadLen))
		case x.BadLen < 0:
			m.DedicatedIps = append(m.DedicatedIps, []byte{})
		default:
			m.DedicatedIps = append(m.DedicatedIps, x.IP.AsSlice())
		}
	}

	switch d.Auth {
	case "absent":
	case "nohash":
		m.Authentication = &AuthenticationSettings{DohAuthOnly: d.DoHOnly}
	case "bcrypt":
		m.Authentication = &AuthenticationSettings{DohAuthOnly: d.DoHOnly,
			DohPasswordHash: &AuthenticationSettings_PasswordHashBcrypt{PasswordHashBcrypt: vc14bpHash(d.Passwd)}}
	case "badhash":
		m.Authentication = &AuthenticationSettings{DohAuthOnly: d.DoHOnly,
			DohPasswordHash: &AuthenticationSettings_PasswordHashBcrypt{PasswordHashBcrypt: []byte("test")}}
	case "emptyhash":
		m.Authentication = &AuthenticationSettings{DohAuthOnly: d.DoHOnly,
			DohPasswordHash: &AuthenticationSettings_PasswordHashBcrypt{PasswordHashBcrypt: []byte{}}}
	default:
		panic("harness: bad auth " + d.Auth)
	}

	return m
}

func (p *vc14bpProf) msg() *DNSProfile {
	m := &DNSProfile{
		DnsId:               p.ID,
		FilteringEnabled:    p.Filtering,
		QueryLogEnabled:     p.QueryLog,
		Deleted:             p.Deleted,
		CustomRules:         slices.Clone(p.Rules),
		FilteredResponseTtl: p.TTL.msg(),
		BlockPrivateRelay:   p.Relay,
		BlockFirefoxCanary:  p.Firefox,
		IpLogEnabled:        p.IPLog,
		AutoDevicesEnabled:  p.Auto,
		BlockChromePrefetch: p.Chrome,
	}

	if p.SB != nil {
		m.SafeBrowsing = &SafeBrowsingSettings{Enabled: p.SB.Enabled, BlockDangerousDomains: p.SB.Dangerous, BlockNrd: p.SB.Newly}
	}

	if p.Par != nil {
		m.Parental = &ParentalSettings{
			Enabled:           p.Par.Enabled,
			BlockAdult:        p.Par.Adult,
			GeneralSafeSearch: p.Par.General,
			YoutubeSafeSearch: p.Par.YouTube,
			BlockedServices:   slices.Clone(p.Par.Services),
			Schedule:          p.Par.Sched.msg(),
		}
	}

	if p.Lists != nil {
		m.RuleLists = &RuleListsSettings{Enabled: p.Lists.Enabled, Ids: slices.Clone(p.Lists.IDs)}
	}

	for _, d := range p.Devs {
		m.Devices = append(m.Devices, d.msg())
	}

	switch p.Mode {
	case "absent":
	case "null":
		m.BlockingMode = &DNSProfile_BlockingModeNullIp{BlockingModeNullIp: &BlockingModeNullIP{}}
	case "nxdomain":
		m.BlockingMode = &DNSProfile_BlockingModeNxdomain{BlockingModeNxdomain: &BlockingModeNXDOMAIN{}}
	case "refused":
		m.BlockingMode = &DNSProfile_BlockingModeRefused{BlockingModeRefused: &BlockingModeREFUSED{}}
	case "custom":
		m.BlockingMode = &DNSProfile_BlockingModeCustomIp{BlockingModeCustomIp: &BlockingModeCustomIP{Ipv4: p.ModeV4, Ipv6: p.ModeV6}}
	default:
		panic("harness: bad mode " + p.Mode)
	}

	if a := p.Access; a != nil {
		m.Access = &AccessSettings{
			AllowlistCidr:        vc14bpCIDRMsgs(a.AllowedNets),
			BlocklistCidr:        vc14bpCIDRMsgs(a.BlockedNets),
			AllowlistAsn:         slices.Clone(a.AllowedASN),
			BlocklistAsn:         slices.Clone(a.BlockedASN),
			BlocklistDomainRules: slices.Clone(a.Rules),
			Enabled:              a.Enabled,
		}
	}

	if r := p.RL; r != nil {
		m.RateLimit = &RateLimitSettings{Enabled: r.Enabled, Rps: r.RPS, ClientCidr: vc14bpCIDRMsgs(r.Subnets)}
	}

	return m
}

// classes lists the coverage classes of one profile spec.
func (p *vc14bpProf) classes() (cs []string) {
	add := func(c string, cond bool) {
		if cond {
			cs = append(cs, c)
		}
	}

	add("profile-valid", p.Bad == "")
	add("profile-invalid:"+p.Bad, p.Bad != "")
	add("profile-invalid", p.Bad != "")
	add("deleted", p.Deleted)
	add("ttl-absent", p.TTL == nil)
	add("ttl-sub-second", p.TTL != nil && p.TTL.Nanos != 0)
	add("mode-"+p.Mode, p.Bad == "")
	add("mode-custom-v4-only", p.Bad == "" && p.Mode == "custom" && len(p.ModeV4) == 4 && len(p.ModeV6) == 0)
	add("mode-custom-v6-only", p.Bad == "" && p.Mode == "custom" && len(p.ModeV4) == 0 && len(p.ModeV6) == 16)
	add("safebrowsing-absent", p.SB == nil)
	add("parental-absent", p.Par == nil)
	add("lists-absent", p.Lists == nil)
	add("access-absent", p.Access == nil)
	add("ratelimit-absent", p.RL == nil)
	add("no-devices", len(p.Devs) == 0)
	if a := p.Access; a != nil {
		add("access-enabled", a.Enabled)
		add("access-disabled-but-filled", !a.Enabled && len(a.AllowedNets)+len(a.BlockedNets)+len(a.BlockedASN)+len(a.Rules) > 0)
		add("cidr-invalid-skipped", a.Enabled && vc14bpBadCIDRs(a.AllowedNets)+vc14bpBadCIDRs(a.BlockedNets) > 0)
		for _, c := range slices.Concat(a.AllowedNets, a.BlockedNets) {
			add("access-unaligned-prefix", a.Enabled && c.BadLen == 0 && c.Bits%8 != 0)
		}
	}

	if r := p.RL; r != nil {
		add("ratelimit-enabled", r.Enabled)
		add("ratelimit-disabled-but-filled", !r.Enabled && r.RPS > 0)
		add("ratelimit-rps-0", r.Enabled && r.RPS == 0)
	}

	if p.Par != nil {
		add("schedule-absent", p.Par.Sched == nil)
		add("service-invalid-skipped", len(vc14bpValidOf(p.Par.Services, vc14bpServicesBad)) != len(p.Par.Services))
		if s := p.Par.Sched; s != nil {
			add("schedule-no-weekly-range", s.NoWeek)
			add("schedule-zone-dst", s.TZ != "UTC" && s.TZ != "" && s.TZ != "GMT" && s.TZ != "Asia/Kolkata")
			for _, d := range s.Days {
				add("schedule-day-until-midnight", d != nil && d.End == 1439)
				add("schedule-day-one-minute", d != nil && d.End == d.Start)
				add("schedule-day-absent-durations", d != nil && d.Start == 0 && d.End == 0 && (d.StartNil || d.EndNil))
			}
		}
	}

	add("list-id-invalid-skipped", p.Lists != nil && len(vc14bpValidOf(p.Lists.IDs, vc14bpListIDsBad)) != len(p.Lists.IDs))
	add("rule-invalid-skipped", len(vc14bpValidRules(p.Rules)) != len(p.Rules))
	add("custom-rules-none", len(vc14bpValidRules(p.Rules)) == 0)

	for _, d := range p.Devs {
		add("device-valid", d.Bad == "")
		add("device-invalid-skipped", d.Bad != "" && p.Bad == "")
		add("device-invalid:"+d.Bad, d.Bad != "")
		add("linked-none", d.Bad == "" && !d.Linked.IsValid())
		add("linked-4-octets", d.Bad == "" && d.Linked.Is4())
		add("linked-16-octets", d.Bad == "" && d.Linked.Is6() && !d.Linked.Is4In6())
		add("linked-ipv4-mapped", d.Bad == "" && d.Linked.Is4In6())
		add("linked-zero-address", d.Bad == "" && d.Linked.IsValid() && d.Linked.IsUnspecified())
		add("dedicated", d.Bad == "" && len(d.Ded) > 0)
		for _, x := range d.Ded {
			add("dedicated-ipv4-mapped", d.Bad == "" && x.IP.Is4In6())
		}

		add("human-id", d.Bad == "" && d.Human != "")
		add("auth-"+d.Auth, d.Bad == "")
	}

	add("valid-device-after-invalid", func() bool {
		seenBad := false
		for _, d := range p.Devs {
			if d.Bad != "" {
				seenBad = true
			} else if seenBad {
				return p.Bad == ""
			}
		}

		return false
	}())

	return cs
}

// vc14bpNeedZones makes the run inconclusive (not a violation) if the time-zone
// database is not available on this machine.
func vc14bpNeedZones(t *testing.T) {
	for _, z := range vc14bpZones {
		if _, err := agdtime.LoadLocation(z); err != nil {
			t.Logf("VERIF-INCONCLUSIVE: time zone %q cannot be loaded: %v", z, err)
			t.FailNow()
		}
	}
}
