//go:build verif

package backendpb

// C14 (e), part 1: generated DNSProfile messages through the real conversion
// (DNSProfile.toInternal, the function ProfileStorage.Profiles applies to every
// streamed message), compared setting by setting with what the message says.

import (
	"context"
	"fmt"
	"strings"
	"testing"
	"time"

	"github.com/AdguardTeam/AdGuardDNS/internal/agd"
	"github.com/AdguardTeam/golibs/logutil/slogutil"
	"github.com/c2h5oh/datasize"
	"google.golang.org/protobuf/proto"
	"pgregory.net/rapid"
	"verif.local/harness/vstat"
)

// vc14bpWire sends m through the protocol's encoding, as a message received
// from the backend would have been.
func vc14bpWire(m *DNSProfile) (out *DNSProfile, err error) {
	b, err := proto.MarshalOptions{Deterministic: true}.Marshal(m)
	if err != nil {
		return nil, err
	}

	out = &DNSProfile{}
	err = proto.Unmarshal(b, out)

	return out, err
}

// vc14bpConvert runs the conversion under test; panicked carries a recovered
// panic.
func vc14bpConvert(
	m *DNSProfile,
	upd time.Time,
	coll *vc14bpColl,
	mtrc *vc14bpDBMetrics,
	est datasize.ByteSize,
) (p *agd.Profile, ds []*agd.Device, err error, panicked any) {
	defer func() { panicked = recover() }()

	p, ds, err = m.toInternal(context.Background(), upd, vc14bpBind, coll, slogutil.NewDiscardLogger(), mtrc, est)

	return p, ds, err, nil
}

func TestVerifC14bpConversion(t *testing.T) {
	st := vstat.New("C14", "backendpb.conversion",
		"rapid-generated DNSProfile messages (every flag, duration, blocking mode, schedule, list, access / rate-limit section and device field drawn independently; sub-messages absent, empty or filled; invalid items mixed in as near misses of valid ones), optionally re-encoded through the wire format, through DNSProfile.toInternal; compared with a hand-written reading of the message via accessors and behaviour probes; every case is non-trivial, distinct by the encoded message",
		"profile-valid", "profile-invalid", "deleted", "ttl-absent", "ttl-sub-second",
		"mode-absent", "mode-null", "mode-nxdomain", "mode-refused", "mode-custom-v4-only", "mode-custom-v6-only",
		"safebrowsing-absent", "parental-absent", "lists-absent", "access-absent", "ratelimit-absent",
		"access-enabled", "access-disabled-but-filled", "access-unaligned-prefix", "cidr-invalid-skipped",
		"ratelimit-enabled", "ratelimit-disabled-but-filled",
		"schedule-absent", "schedule-no-weekly-range", "schedule-zone-dst", "schedule-day-until-midnight", "schedule-day-one-minute",
		"schedule-day-absent-durations",
		"service-invalid-skipped", "list-id-invalid-skipped", "rule-invalid-skipped", "custom-rules-none",
		"device-valid", "device-invalid-skipped", "valid-device-after-invalid",
		"device-invalid:id", "device-invalid:name", "device-invalid:human", "device-invalid:linked-len", "device-invalid:ded-len",
		"device-invalid:ded-empty", "device-invalid:ded-outside",
		"profile-invalid:id", "profile-invalid:tz", "profile-invalid:day-inverted", "profile-invalid:day-start-1440",
		"profile-invalid:day-end-1440", "profile-invalid:mode-v4-len", "profile-invalid:mode-v6-len", "profile-invalid:mode-no-ips",
		"linked-none", "linked-4-octets", "linked-16-octets", "linked-ipv4-mapped", "linked-zero-address", "dedicated", "dedicated-ipv4-mapped", "human-id",
		"auth-absent", "auth-nohash", "auth-bcrypt", "auth-badhash", "auth-emptyhash",
		"through-wire-encoding", "rate-limit-counted")
	st.Finish(t)

	vc14bpNeedZones(t)

	rapid.Check(t, func(t *rapid.T) {
		w, _ := vc14bpDrawWorld(t, vc14bpOpts{BadProfiles: true, BadDevices: true, NoWeek: true, Deleted: true, MaxProf: 2, MaxDevs: 4})
		est := rapid.SampledFrom(vc14bpEsts).Draw(t, "estimate")
		pr := vc14bpDrawProbe(t, est)
		wire := rapid.Bool().Draw(t, "wire")

		// Zero, with and without a monotonic reading, local and UTC: the
		// stamp is the caller's.
		var upd time.Time
		switch rapid.IntRange(0, 2).Draw(t, "updKind") {
		case 0:
		case 1:
			upd = time.Unix(rapid.Int64Range(0, 4_000_000_000).Draw(t, "updSec"), rapid.Int64Range(0, 999_999_999).Draw(t, "updNsec")).UTC()
		default:
			upd = time.Now()
		}

		for _, spec := range w.Profs {
			m := spec.msg()
			enc, err := proto.MarshalOptions{Deterministic: true}.Marshal(m)
			if err != nil {
				t.Fatalf("harness: the generated message does not encode: %v\n%s", err, vc14bpDescribe(spec))
			}

			if wire {
				if m, err = vc14bpWire(m); err != nil {
					t.Fatalf("harness: wire round trip: %v", err)
				}
			}

			coll, mtrc := &vc14bpColl{}, &vc14bpDBMetrics{}
			got, devs, cerr, panicked := vc14bpConvert(m, upd, coll, mtrc, est)
			reports, invalid := coll.take(), mtrc.take()

			fail := func(f string, a ...any) {
				t.Fatalf("%s\nspec: %s\nwire-encoded first: %t; reported errors: %q", fmt.Sprintf(f, a...), vc14bpDescribe(spec), wire, reports)
			}

			cls := spec.classes()
			if wire {
				cls = append(cls, "through-wire-encoding")
			}

			if panicked != nil {
				if noWeek := spec.Par != nil && spec.Par.Sched != nil && spec.Par.Sched.NoWeek; noWeek && st.Known(vc14bpFindingNoWeek) {
					st.Case(string(enc), cls...)

					continue
				}

				fail("the conversion panicked: %v", panicked)
			}

			if spec.Bad != "" {
				// "invalid profiles are skipped and reported": the conversion
				// refuses, ProfileStorage.Profiles reports and goes on.
				if cerr == nil || got != nil {
					fail("an invalid profile (%s) was converted: err=%v profile=%v", spec.Bad, cerr, got != nil)
				}

				st.Case(string(enc), cls...)

				continue
			}

			if cerr != nil {
				fail("a valid profile was rejected: %v", cerr)
			}

			diffs := vc14bpDiffProfile(spec, got, pr, func(u time.Time) string {
				if !u.Equal(upd) || u.IsZero() != upd.IsZero() {
					return fmt.Sprintf("want the caller's stamp %v", upd)
				}

				return ""
			})
			diffs = append(diffs, vc14bpDiffDevices(spec, devs, pr)...)

			// Skipped items are reported, and invalid devices are counted.
			if want := spec.reports(); len(reports) < want {
				diffs = append(diffs, fmt.Sprintf("%d errors reported to the collector, want at least %d (one per skipped item)", len(reports), want))
			}

			if want := len(spec.Devs) - len(spec.validDevs()); invalid != want {
				diffs = append(diffs, fmt.Sprintf("invalid-devices metric incremented %d times, want %d", invalid, want))
			}

			if len(diffs) > 0 {
				fail("the converted profile differs from the message:\n  %s", strings.Join(diffs, "\n  "))
			}

			if spec.RL != nil && spec.RL.Enabled && spec.RL.RPS <= 5 && pr.Slow == 0 {
				cls = append(cls, "rate-limit-counted")
			}

			st.Case(string(enc), cls...)
			if st.WantSample() {
				st.Sample(map[string]any{"spec": spec, "wire": wire})
			}
		}
	})
}

// TestVerifC14bpPools pins the hand classification of the string pools against
// the documented limits, so that a wrong table shows up as such and not as a
// confusing conversion failure.
func TestVerifC14bpPools(t *testing.T) {
	st := vstat.New("C14", "backendpb.pools", "finite table: every pooled string against the validator named in its doc comment", "pool-entry")
	st.Finish(t)
	st.SetExhaustive()

	check := func(kind string, good, bad []string, valid func(string) error) {
		for _, s := range good {
			if err := valid(s); err != nil {
				t.Errorf("harness table: %s %.40q is listed as valid: %v", kind, s, err)
			}

			st.Case(kind+"\x00"+s, "pool-entry")
		}

		for _, s := range bad {
			if err := valid(s); err == nil {
				t.Errorf("harness table: %s %.40q is listed as invalid but accepted", kind, s)
			}

			st.Case(kind+"\x00bad\x00"+s, "pool-entry")
		}
	}

	check("profile id", vc14bpProfIDs, vc14bpProfIDsBad, func(s string) error { _, err := agd.NewProfileID(s); return err })
	check("device id", vc14bpDevIDs, vc14bpDevIDsBad, func(s string) error { _, err := agd.NewDeviceID(s); return err })
	check("device name", vc14bpNames, vc14bpNamesBad, func(s string) error { _, err := agd.NewDeviceName(s); return err })
	check("human id", vc14bpHumans, vc14bpHumansBad, func(s string) error { _, err := agd.NewHumanIDLower(s); return err })
}
