//go:build verif

package backendpb

// C14 (e), part 2: ProfileStorage.Profiles (and CreateAutoDevice) against an
// in-process gRPC backend that serves generated streams.  Sequences of full and
// incremental requests, failures of every documented kind, and the update
// stamps of the custom filters across deliveries.

import (
	"context"
	"errors"
	"fmt"
	"net"
	"net/url"
	"strconv"
	"strings"
	"sync"
	"testing"
	"time"

	"github.com/AdguardTeam/AdGuardDNS/internal/agd"
	"github.com/AdguardTeam/AdGuardDNS/internal/profiledb"
	"github.com/AdguardTeam/golibs/logutil/slogutil"
	"github.com/c2h5oh/datasize"
	"google.golang.org/grpc"
	"google.golang.org/grpc/codes"
	"google.golang.org/grpc/credentials/insecure"
	"google.golang.org/grpc/metadata"
	"google.golang.org/grpc/status"
	"google.golang.org/protobuf/proto"
	"google.golang.org/protobuf/types/known/durationpb"
	"pgregory.net/rapid"
	"verif.local/harness/vstat"
)

// vc14bpCallTimeout bounds every call that is expected to finish by itself; a
// call that runs into it makes the run inconclusive, never a violation.
const vc14bpCallTimeout = 20 * time.Second

// vc14bpBackend is the scripted business-logic backend.
type vc14bpBackend struct {
	UnimplementedDNSServiceServer

	mu         sync.Mutex
	onProfiles func(req *DNSProfilesRequest, md metadata.MD, srv grpc.ServerStreamingServer[DNSProfile]) (err error)
	onCreate   func(md metadata.MD, req *CreateDeviceRequest) (resp *CreateDeviceResponse, err error)
}

func (b *vc14bpBackend) GetDNSProfiles(req *DNSProfilesRequest, srv grpc.ServerStreamingServer[DNSProfile]) (err error) {
	b.mu.Lock()
	h := b.onProfiles
	b.mu.Unlock()

	if h == nil {
		return status.Error(codes.Unimplemented, "harness: unexpected getDNSProfiles")
	}

	md, _ := metadata.FromIncomingContext(srv.Context())

	return h(req, md, srv)
}

func (b *vc14bpBackend) CreateDeviceByHumanId(ctx context.Context, req *CreateDeviceRequest) (resp *CreateDeviceResponse, err error) {
	b.mu.Lock()
	h := b.onCreate
	b.mu.Unlock()

	if h == nil {
		return nil, status.Error(codes.Unimplemented, "harness: unexpected createDeviceByHumanId")
	}

	md, _ := metadata.FromIncomingContext(ctx)

	return h(md, req)
}

func (b *vc14bpBackend) setProfiles(h func(req *DNSProfilesRequest, md metadata.MD, srv grpc.ServerStreamingServer[DNSProfile]) (err error)) {
	b.mu.Lock()
	defer b.mu.Unlock()

	b.onProfiles = h
}

func (b *vc14bpBackend) setCreate(h func(md metadata.MD, req *CreateDeviceRequest) (resp *CreateDeviceResponse, err error)) {
	b.mu.Lock()
	defer b.mu.Unlock()

	b.onCreate = h
}

// vc14bpClient is one real ProfileStorage with its recording collaborators.
type vc14bpClient struct {
	s      *ProfileStorage
	coll   *vc14bpColl
	mtrc   *vc14bpDBMetrics
	grpc   *vc14bpGRPCMetrics
	est    datasize.ByteSize
	apiKey string
}

// vc14bpStart starts the backend on the loopback interface and connects one
// real storage per response-size estimate to it (one with an API key, one
// without).
func vc14bpStart(t *testing.T) (b *vc14bpBackend, clients []*vc14bpClient) {
	l, err := net.Listen("tcp", "127.0.0.1:0")
	if err != nil {
		t.Logf("VERIF-INCONCLUSIVE: cannot listen on the loopback interface: %v", err)
		t.FailNow()
	}

	b = &vc14bpBackend{}
	g := grpc.NewServer(grpc.Creds(insecure.NewCredentials()), grpc.MaxRecvMsgSize(1<<20))
	RegisterDNSServiceServer(g, b)

	done := make(chan struct{})
	go func() {
		defer close(done)

		_ = g.Serve(l)
	}()
	t.Cleanup(func() {
		g.Stop()
		<-done
	})

	for i, est := range vc14bpEsts {
		c := &vc14bpClient{coll: &vc14bpColl{}, mtrc: &vc14bpDBMetrics{}, grpc: &vc14bpGRPCMetrics{}, est: est}
		if i == 0 {
			c.apiKey = "k3y.with-68_chars~+/="
		}

		c.s, err = NewProfileStorage(&ProfileStorageConfig{
			BindSet:              vc14bpBind,
			ErrColl:              c.coll,
			Logger:               slogutil.NewDiscardLogger(),
			GRPCMetrics:          c.grpc,
			Metrics:              c.mtrc,
			Endpoint:             &url.URL{Scheme: "grpc", Host: l.Addr().String()},
			APIKey:               c.apiKey,
			ResponseSizeEstimate: est,
			MaxProfilesSize:      8 * datasize.MB,
		})
		if err != nil {
			t.Fatalf("NewProfileStorage: %v", err)
		}

		clients = append(clients, c)
	}

	return b, clients
}

// checkAuth tells what is wrong with the request metadata given the client's
// API key (RFC 6750 bearer token; none if the key is empty).
func (c *vc14bpClient) checkAuth(md metadata.MD) string {
	got := md.Get("authorization")
	if c.apiKey == "" {
		if len(got) != 0 {
			return fmt.Sprintf("authorization %q sent without an API key", got)
		}

		return ""
	}

	if len(got) != 1 || got[0] != "Bearer "+c.apiKey {
		return fmt.Sprintf("authorization %q, want [\"Bearer %s\"]", got, c.apiKey)
	}

	return ""
}

// vc14bpFault describes how a scripted call fails.
type vc14bpFault struct {
	Kind string
	// After is the number of profiles streamed before the failure.
	After int
	Msg   string
	Delay vc14bpDur
}

var vc14bpFaultKinds = []string{"rate-limited", "auth-failed", "bad-request", "status-deadline", "ctx-deadline", "ctx-cancel", "internal",
	"unavailable", "no-trailer", "bad-trailer", "empty-trailer"}

func vc14bpDrawFault(t *rapid.T, streamLen int) *vc14bpFault {
	return &vc14bpFault{
		Kind:  rapid.SampledFrom(vc14bpFaultKinds).Draw(t, "faultKind"),
		After: rapid.IntRange(0, streamLen).Draw(t, "faultAfter"),
		Msg:   rapid.SampledFrom([]string{"", "too many full syncs", "bad key", "ошибка"}).Draw(t, "faultMsg"),
		Delay: rapid.SampledFrom([]vc14bpDur{{0, 0}, {1, 0}, {90, 0}, {0, 500_000_000}, {3600, 1}}).Draw(t, "retryDelay"),
	}
}

// err returns the gRPC error of a fault that the backend states itself.
func (f *vc14bpFault) err() error {
	detail := func(c codes.Code, d proto.Message) error {
		st, err := status.New(c, "scripted: "+f.Kind).WithDetails(protoV1(d))
		if err != nil {
			panic(fmt.Errorf("harness: status details: %w", err))
		}

		return st.Err()
	}

	switch f.Kind {
	case "rate-limited":
		return detail(codes.ResourceExhausted, &RateLimitedError{Message: f.Msg, RetryDelay: f.Delay.msg()})
	case "auth-failed":
		return detail(codes.Unauthenticated, &AuthenticationFailedError{Message: f.Msg})
	case "bad-request":
		return detail(codes.InvalidArgument, &BadRequestError{Message: f.Msg})
	case "quota":
		return detail(codes.ResourceExhausted, &DeviceQuotaExceededError{Message: f.Msg})
	case "status-deadline":
		return status.Error(codes.DeadlineExceeded, "scripted: backend deadline")
	case "internal":
		return status.Error(codes.Internal, "scripted: internal")
	case "unavailable":
		return status.Error(codes.Unavailable, "scripted: unavailable")
	default:
		return nil
	}
}

// judge tells what is wrong with the error of a call that failed by f.  types
// are the error kinds counted by the gRPC metrics during the call.
func (f *vc14bpFault) judge(err error, types []string) (diffs []string) {
	add := func(s string, a ...any) { diffs = append(diffs, fmt.Sprintf(s, a...)) }
	if err == nil {
		return []string{"no error returned"}
	}

	var rl *profiledb.RateLimitedError
	var au *profiledb.AuthenticationFailedError
	var br *profiledb.BadRequestError
	var dq *profiledb.DeviceQuotaExceededError
	isRL, isAU, isBR, isDQ := errors.As(err, &rl), errors.As(err, &au), errors.As(err, &br), errors.As(err, &dq)
	isDL := errors.Is(err, context.DeadlineExceeded)

	wantType := ""
	switch f.Kind {
	case "rate-limited":
		wantType = GRPCErrRateLimit
		if !isRL {
			add("not a *profiledb.RateLimitedError")
		} else if rl.Message != f.Msg || rl.RetryDelay != f.Delay.want() {
			add("RateLimitedError{Message:%q RetryDelay:%v}, want {%q %v}", rl.Message, rl.RetryDelay, f.Msg, f.Delay.want())
		}
	case "auth-failed":
		wantType = GRPCErrAuthentication
		if !isAU {
			add("not a *profiledb.AuthenticationFailedError")
		} else if au.Message != f.Msg {
			add("AuthenticationFailedError message %q, want %q", au.Message, f.Msg)
		}
	case "bad-request":
		wantType = GRPCErrBadRequest
		if !isBR {
			add("not a *profiledb.BadRequestError")
		} else if br.Message != f.Msg {
			add("BadRequestError message %q, want %q", br.Message, f.Msg)
		}
	case "quota":
		wantType = GRPCErrDeviceQuota
		if !isDQ {
			add("not a *profiledb.DeviceQuotaExceededError")
		} else if dq.Message != f.Msg {
			add("DeviceQuotaExceededError message %q, want %q", dq.Message, f.Msg)
		}
	case "status-deadline", "ctx-deadline":
		wantType = GRPCErrTimeout
		if !isDL {
			add("does not match context.DeadlineExceeded")
		}
	case "internal", "unavailable":
		wantType = GRPCErrOther
		if isRL || isAU || isBR || isDQ || isDL {
			add("a plain backend failure is reported as a rate limit / authentication / request / quota / deadline error")
		}
	case "ctx-cancel":
		if isDL {
			add("a cancelled call is reported as a deadline")
		}
	}

	if (f.Kind != "rate-limited" && isRL) || (f.Kind != "auth-failed" && isAU) || (f.Kind != "bad-request" && isBR) || (f.Kind != "quota" && isDQ) {
		add("error of the wrong documented kind")
	}

	if wantType != "" && !vc14bpIn(types, wantType) {
		add("gRPC error metrics counted %q, want %q", types, wantType)
	}

	return diffs
}

// vc14bpScript is what the backend does on the next getDNSProfiles call.
type vc14bpScript struct {
	Stream   []*vc14bpProf
	SyncMS   int64
	Fault    *vc14bpFault
	arrived  chan struct{}
	gotReq   *DNSProfilesRequest
	gotMD    metadata.MD
	sendErrs []string
}

// serve plays the script.
func (sc *vc14bpScript) serve(req *DNSProfilesRequest, md metadata.MD, srv grpc.ServerStreamingServer[DNSProfile]) (err error) {
	sc.gotReq, sc.gotMD = proto.Clone(req).(*DNSProfilesRequest), md.Copy()
	if sc.arrived != nil {
		close(sc.arrived)
	}

	n := len(sc.Stream)
	if sc.Fault != nil {
		n = min(n, sc.Fault.After)
	}

	for _, p := range sc.Stream[:n] {
		if err = srv.Send(p.msg()); err != nil {
			sc.sendErrs = append(sc.sendErrs, err.Error())

			return err
		}
	}

	trailer := metadata.MD{"sync_time": []string{strconv.FormatInt(sc.SyncMS, 10)}}
	if f := sc.Fault; f != nil {
		switch f.Kind {
		case "ctx-deadline", "ctx-cancel":
			<-srv.Context().Done()

			return status.FromContextError(srv.Context().Err()).Err()
		case "no-trailer":
			return nil
		case "bad-trailer":
			srv.SetTrailer(metadata.MD{"sync_time": []string{"12x"}})

			return nil
		case "empty-trailer":
			srv.SetTrailer(metadata.MD{"sync_time": []string{""}})

			return nil
		default:
			srv.SetTrailer(trailer)

			return f.err()
		}
	}

	srv.SetTrailer(trailer)

	return nil
}

// vc14bpProfilesCall runs one Profiles call against the script; panicked
// carries a recovered panic of the code under test.
func vc14bpProfilesCall(
	t *rapid.T,
	b *vc14bpBackend,
	c *vc14bpClient,
	sc *vc14bpScript,
	reqTime time.Time,
) (resp *profiledb.StorageProfilesResponse, err error, panicked any) {
	ctx, cancel := context.WithTimeout(context.Background(), vc14bpCallTimeout)
	defer cancel()

	var wg sync.WaitGroup
	defer wg.Wait()

	if f := sc.Fault; f != nil && f.Kind == "ctx-deadline" {
		var cancelShort context.CancelFunc
		ctx, cancelShort = context.WithTimeout(ctx, 30*time.Millisecond)
		defer cancelShort()
	} else if f != nil && f.Kind == "ctx-cancel" {
		sc.arrived = make(chan struct{})
		wg.Add(1)
		go func() {
			defer wg.Done()

			select {
			case <-sc.arrived:
			case <-ctx.Done():
			}

			cancel()
		}()
	}

	b.setProfiles(sc.serve)
	defer b.setProfiles(nil)
	defer func() { panicked = recover() }()

	resp, err = c.s.Profiles(ctx, &profiledb.StorageProfilesRequest{SyncTime: reqTime})
	if (sc.Fault == nil || (sc.Fault.Kind != "ctx-deadline" && sc.Fault.Kind != "status-deadline")) && errors.Is(err, context.DeadlineExceeded) {
		t.Logf("VERIF-INCONCLUSIVE: a scripted call did not finish within %v: %v", vc14bpCallTimeout, err)
		t.FailNow()
	}

	return resp, err, nil
}

// vc14bpStamps remembers the custom-filter update stamp of the latest delivery
// of every profile.  filterstorage's custom-filter cache keeps the compiled
// rules of a profile while "item.updTime.Before(c.UpdateTime)" is false, so a
// profile that is delivered again must carry a stamp strictly after the one of
// every earlier delivery, or its new rules never take effect.
type vc14bpStamps map[string]time.Time

func (s vc14bpStamps) check(id string) func(time.Time) string {
	return func(u time.Time) string {
		if prev, ok := s[id]; ok && !prev.Before(u) {
			return fmt.Sprintf("not after the stamp %v of the previous delivery of this profile: the custom-filter cache would keep the old rules", prev)
		}

		return ""
	}
}

func TestVerifC14bpStorage(t *testing.T) {
	st := vstat.New("C14", "backendpb.storage",
		"rapid-generated sequences of ProfileStorage.Profiles calls (full / incremental, chosen like profiledb does: zero or the previous response's sync time) against an in-process gRPC backend streaming generated profiles (re-deliveries are near misses: one setting changed), with scripted failures (rate limit, authentication, bad request, backend deadline, caller's deadline, caller's cancel, plain errors before or in the middle of the stream, missing / malformed sync_time trailer) and CreateAutoDevice calls; non-trivial = a sequence with a re-delivery or a failure; distinct by the sequence",
		"full-sync", "incremental-sync", "full-after-incremental", "full-after-full", "redelivered-profile", "redelivered-same-sync-time",
		"empty-stream", "invalid-profile-skipped", "valid-profile-after-invalid", "device-invalid-skipped", "deleted",
		"fault:rate-limited", "fault:auth-failed", "fault:bad-request", "fault:status-deadline", "fault:ctx-deadline", "fault:ctx-cancel",
		"fault:internal", "fault:unavailable", "fault:no-trailer", "fault:bad-trailer", "fault:empty-trailer", "fault-mid-stream",
		"sync-after-fault", "api-key", "no-api-key", "create-device-valid", "create-device-invalid", "create-device-fault",
		"sync-time-zero-ms", "schedule-no-weekly-range")
	st.Finish(t)

	vc14bpNeedZones(t)
	b, clients := vc14bpStart(t)

	rapid.Check(t, func(t *rapid.T) {
		c := clients[rapid.IntRange(0, len(clients)-1).Draw(t, "client")]
		c.coll.take()
		c.mtrc.take()
		c.grpc.take()

		w, free := vc14bpDrawWorld(t, vc14bpOpts{BadProfiles: true, BadDevices: true, NoWeek: true, Deleted: true, MaxProf: 3, MaxDevs: 3})
		pr := vc14bpDrawProbe(t, c.est)

		classes := map[string]bool{}
		if c.apiKey != "" {
			classes["api-key"] = true
		} else {
			classes["no-api-key"] = true
		}

		var hist []string
		note := func(f string, a ...any) { hist = append(hist, fmt.Sprintf(f, a...)) }
		fail := func(f string, a ...any) {
			t.Fatalf("%s\nhistory:\n  %s", fmt.Sprintf(f, a...), strings.Join(hist, "\n  "))
		}

		stamps := vc14bpStamps{}
		delivered := map[string]bool{}
		var prevSync time.Time
		var lastMS int64 = 1_700_000_000_000
		prevKind, afterFault, nonTrivial := "", false, false

		nSteps := rapid.IntRange(2, 5).Draw(t, "nSteps")
		for step := 0; step < nSteps; step++ {
			kind := "full"
			if step > 0 {
				kind = rapid.SampledFrom([]string{"full", "incremental", "incremental", "create-device"}).Draw(t, "stepKind")
			}

			if kind == "create-device" {
				vc14bpCreateStep(t, st, b, c, free, pr, classes, note, fail)

				continue
			}

			// The backend's data moves on: re-deliveries differ from the
			// previous delivery in exactly one setting.
			if step > 0 {
				for _, p := range w.Profs {
					if p.Bad == "" && rapid.IntRange(0, 2).Draw(t, "mutate") == 0 {
						note("backend: profile %q: %s", p.ID, vc14bpMutateProf(t, p))
					} else if vd := p.validDevs(); p.Bad == "" && len(vd) > 0 && rapid.IntRange(0, 3).Draw(t, "mutateDev") == 0 {
						d := vd[rapid.IntRange(0, len(vd)-1).Draw(t, "mutatedDev")]
						note("backend: device %q: %s", d.ID, vc14bpMutateDev(t, d))
					}
				}
			}

			sc := &vc14bpScript{}
			if kind == "full" {
				sc.Stream = append(sc.Stream, w.Profs...)
			} else {
				sc.Stream = vc14bpSubset(t, "changed", w.Profs, len(w.Profs))
			}

			sc.Stream = vc14bpClone(&vc14bpWorld{Profs: sc.Stream}).Profs

			// The backend's clock: usually ahead, sometimes standing still
			// (nothing changed since) or starting from zero.
			switch rapid.IntRange(0, 5).Draw(t, "clock") {
			case 0:
				// unchanged
			case 1:
				lastMS = rapid.SampledFrom([]int64{0, 1, 999}).Draw(t, "earlyMS")
			default:
				lastMS += rapid.Int64Range(1, 100_000).Draw(t, "advanceMS")
			}

			sc.SyncMS = lastMS
			if step > 0 && rapid.IntRange(0, 2).Draw(t, "faulty") == 0 {
				sc.Fault = vc14bpDrawFault(t, len(sc.Stream))
			}

			reqTime := time.Time{}
			if kind == "incremental" {
				reqTime = prevSync
			}

			var ids []string
			for _, p := range sc.Stream {
				ids = append(ids, fmt.Sprintf("%q(bad=%q,deleted=%t)", p.ID, p.Bad, p.Deleted))
			}

			note("step %d: %s sync with sync time %v; backend streams %v, sync_time %d ms, fault %+v", step, kind, reqTime, ids, sc.SyncMS, sc.Fault)

			resp, err, panicked := vc14bpProfilesCall(t, b, c, sc, reqTime)
			reports, invalid, types := c.coll.take(), c.mtrc.take(), c.grpc.take()
			_ = invalid

			noWeek := false
			for _, p := range sc.Stream {
				if p.Par != nil && p.Par.Sched != nil && p.Par.Sched.NoWeek {
					noWeek = true
					classes["schedule-no-weekly-range"] = true
				}
			}

			if panicked != nil {
				if noWeek && st.Known(vc14bpFindingNoWeek) {
					return
				}

				fail("Profiles panicked: %v", panicked)
			}

			if len(sc.sendErrs) > 0 && sc.Fault == nil {
				fail("harness: the backend could not send: %q", sc.sendErrs)
			}

			// What the backend saw.
			if sc.gotReq == nil {
				if sc.Fault == nil {
					fail("the backend was not called; err=%v", err)
				}
			} else {
				if d := c.checkAuth(sc.gotMD); d != "" {
					fail("request metadata: %s", d)
				}

				got := sc.gotReq.GetSyncTime().AsTime()
				if !got.Equal(reqTime) || (kind == "full" && !got.IsZero()) {
					fail("the backend received sync_time %v, want the caller's %v (zero on a full synchronisation)", got, reqTime)
				}
			}

			classes[kind+"-sync"] = true
			if sc.Fault != nil {
				classes["fault:"+sc.Fault.Kind] = true
				if sc.Fault.After > 0 {
					classes["fault-mid-stream"] = true
				}

				if diffs := sc.Fault.judge(err, types); len(diffs) > 0 {
					fail("failed call (%+v) returned %v:\n  %s", *sc.Fault, err, strings.Join(diffs, "\n  "))
				}

				afterFault, nonTrivial = true, true

				continue
			}

			if err != nil || resp == nil {
				fail("Profiles failed: %v (reports %q)", err, reports)
			}

			if afterFault {
				classes["sync-after-fault"] = true
			}

			if kind == "full" && prevKind == "incremental" {
				classes["full-after-incremental"] = true
			} else if kind == "full" && prevKind == "full" {
				classes["full-after-full"] = true
			}

			// "The trailers headers will include a sync_time, given in
			// milliseconds, that should be used for subsequent incremental
			// requests."
			if want := time.UnixMilli(sc.SyncMS); !resp.SyncTime.Equal(want) {
				fail("response SyncTime %v, want %v (sync_time %d ms)", resp.SyncTime, want, sc.SyncMS)
			}

			if sc.SyncMS == 0 {
				classes["sync-time-zero-ms"] = true
			}

			if len(sc.Stream) == 0 {
				classes["empty-stream"] = true
			}

			// The valid profiles in the order sent, with their valid devices.
			var wantProfs []*vc14bpProf
			wantReports := 0
			seenBad := false
			for _, p := range sc.Stream {
				if p.Bad != "" {
					wantReports++
					seenBad = true
					classes["invalid-profile-skipped"] = true

					continue
				}

				if seenBad {
					classes["valid-profile-after-invalid"] = true
				}

				wantProfs = append(wantProfs, p)
				wantReports += p.reports()
				if len(p.validDevs()) != len(p.Devs) {
					classes["device-invalid-skipped"] = true
				}

				if p.Deleted {
					classes["deleted"] = true
				}
			}

			if len(resp.Profiles) != len(wantProfs) {
				var got []agd.ProfileID
				for _, p := range resp.Profiles {
					got = append(got, p.ID)
				}

				fail("response has %d profiles %q, want the %d valid ones (reports %q)", len(resp.Profiles), got, len(wantProfs), reports)
			}

			var diffs []string
			devAt := 0
			for i, p := range wantProfs {
				diffs = append(diffs, vc14bpDiffProfile(p, resp.Profiles[i], pr, stamps.check(p.ID))...)
				n := len(p.validDevs())
				if devAt+n > len(resp.Devices) {
					diffs = append(diffs, fmt.Sprintf("profile %q: the response has only %d devices in all", p.ID, len(resp.Devices)))

					break
				}

				diffs = append(diffs, vc14bpDiffDevices(p, resp.Devices[devAt:devAt+n], pr)...)
				devAt += n
			}

			if len(diffs) == 0 && devAt != len(resp.Devices) {
				diffs = append(diffs, fmt.Sprintf("the response has %d devices, want %d", len(resp.Devices), devAt))
			}

			if len(reports) < wantReports {
				diffs = append(diffs, fmt.Sprintf("%d errors reported to the collector, want at least %d (one per skipped profile or item): %q", len(reports),
					wantReports, reports))
			}

			if len(diffs) > 0 {
				fail("the response differs from what the backend streamed:\n  %s\nstream: %s", strings.Join(diffs, "\n  "), vc14bpDescribe(sc.Stream))
			}

			for i, p := range wantProfs {
				if delivered[p.ID] {
					classes["redelivered-profile"] = true
					nonTrivial = true
					if resp.SyncTime.Equal(prevSync) {
						classes["redelivered-same-sync-time"] = true
					}
				}

				delivered[p.ID] = true
				stamps[p.ID] = resp.Profiles[i].FilterConfig.Custom.UpdateTime
			}

			prevSync, prevKind = resp.SyncTime, kind
		}

		var cls []string
		for k := range classes {
			cls = append(cls, k)
		}

		key := ""
		if nonTrivial {
			key = strings.Join(hist, "\n")
		}

		st.Case(key, cls...)
		if st.WantSample() && nonTrivial {
			st.Sample(hist)
		}
	})
}

// vc14bpCreateStep runs one CreateAutoDevice call: the second production path
// through the device conversion.
func vc14bpCreateStep(
	t *rapid.T,
	st *vstat.Stats,
	b *vc14bpBackend,
	c *vc14bpClient,
	free *vc14bpFree,
	pr *vc14bpProbe,
	classes map[string]bool,
	note func(string, ...any),
	fail func(string, ...any),
) {
	var humans []string
	d := vc14bpDrawDev(t, free, &humans, true)
	if d == nil {
		return
	}

	// An automatically created device always has a human id.
	if d.Human == "" {
		d.Human = rapid.SampledFrom(vc14bpHumans).Draw(t, "autoHuman")
	}

	var fault *vc14bpFault
	if rapid.IntRange(0, 3).Draw(t, "createFaulty") == 0 {
		fault = &vc14bpFault{
			Kind:  rapid.SampledFrom([]string{"rate-limited", "auth-failed", "bad-request", "quota", "status-deadline", "internal"}).Draw(t, "createFault"),
			Msg:   rapid.SampledFrom([]string{"", "quota exceeded", "нет"}).Draw(t, "createFaultMsg"),
			Delay: rapid.SampledFrom([]vc14bpDur{{0, 0}, {5, 0}, {0, 1}}).Draw(t, "createDelay"),
		}
	}

	profID := rapid.SampledFrom(vc14bpProfIDs).Draw(t, "createProf")
	humanID := rapid.SampledFrom([]string{"TV", "My-Device-X--10", "phone"}).Draw(t, "createHuman")
	devType := rapid.SampledFrom([]agd.DeviceType{agd.DeviceTypeWindows, agd.DeviceTypeAndroid, agd.DeviceTypeOther, agd.DeviceTypeRouter}).Draw(t, "createType")

	note("create auto device %q in %q (type %d); backend answers %s, fault %+v", humanID, profID, devType, vc14bpDescribe(d), fault)

	var gotReq *CreateDeviceRequest
	var gotMD metadata.MD
	b.setCreate(func(md metadata.MD, req *CreateDeviceRequest) (*CreateDeviceResponse, error) {
		gotReq, gotMD = proto.Clone(req).(*CreateDeviceRequest), md.Copy()
		if fault != nil {
			return nil, fault.err()
		}

		return &CreateDeviceResponse{Device: d.msg()}, nil
	})
	defer b.setCreate(nil)

	ctx, cancel := context.WithTimeout(context.Background(), vc14bpCallTimeout)
	defer cancel()

	resp, err := c.s.CreateAutoDevice(ctx, &profiledb.StorageCreateAutoDeviceRequest{
		ProfileID:  agd.ProfileID(profID),
		HumanID:    agd.HumanID(humanID),
		DeviceType: devType,
	})
	types := c.grpc.take()
	c.coll.take()
	c.mtrc.take()

	if gotReq == nil {
		fail("CreateAutoDevice did not reach the backend: %v", err)
	}

	if diff := c.checkAuth(gotMD); diff != "" {
		fail("CreateAutoDevice request metadata: %s", diff)
	}

	// The device-type numbers of the protocol are those of agd.DeviceType
	// (dns.proto enum DeviceType; agd/devicetype.go).
	if gotReq.DnsId != profID || gotReq.HumanId != humanID || int32(gotReq.DeviceType) != int32(devType) {
		fail("CreateAutoDevice request {%q %q %d}, want {%q %q %d}", gotReq.DnsId, gotReq.HumanId, gotReq.DeviceType, profID, humanID, devType)
	}

	switch {
	case fault != nil:
		classes["create-device-fault"] = true
		if fault.Kind != "status-deadline" && errors.Is(err, context.DeadlineExceeded) {
			t.Logf("VERIF-INCONCLUSIVE: CreateAutoDevice did not finish within %v", vc14bpCallTimeout)
			t.FailNow()
		}

		if diffs := fault.judge(err, types); len(diffs) > 0 {
			fail("failed CreateAutoDevice (%+v) returned %v:\n  %s", *fault, err, strings.Join(diffs, "\n  "))
		}
	case d.Bad != "":
		classes["create-device-invalid"] = true
		if err == nil {
			fail("CreateAutoDevice accepted an invalid device (%s): %+v", d.Bad, resp.Device)
		}
	default:
		classes["create-device-valid"] = true
		if err != nil || resp == nil || resp.Device == nil {
			fail("CreateAutoDevice failed for a valid device: %v", err)
		}

		if diffs := vc14bpDiffDevice(d, resp.Device, pr); len(diffs) > 0 {
			fail("the created device differs from the backend's answer:\n  %s", strings.Join(diffs, "\n  "))
		}
	}
}

// protoV1 is the identity: the generated messages implement both API versions.
func protoV1(m proto.Message) interface {
	Reset()
	String() string
	ProtoMessage()
} {
	return m.(interface {
		Reset()
		String() string
		ProtoMessage()
	})
}

// vc14bpBigProfile builds a valid profile whose encoded size is at least n
// octets.
func vc14bpBigProfile(n int) *vc14bpProf {
	p := &vc14bpProf{ID: "big", Mode: "null"}
	rule := "||" + strings.Repeat("b", 1000) + "^"
	for i := 0; i*len(rule) < n; i++ {
		p.Rules = append(p.Rules, rule)
	}

	return p
}

// TestVerifC14bpBigProfile: "MaxProfilesSize is the maximum response size for
// the profiles endpoint": a profile larger than gRPC's default limit of 4 MiB
// but within the configured 8 MB must be synchronised like any other; one
// beyond the configured limit is an error, not a silently shortened result.
func TestVerifC14bpBigProfile(t *testing.T) {
	st := vstat.New("C14", "backendpb.bigprofile", "two fixed sizes around gRPC's default and the configured receive limit", "within-limit", "beyond-limit")
	st.Finish(t)
	st.SetExhaustive()

	b, clients := vc14bpStart(t)
	c := clients[0]
	for _, tc := range []struct {
		class string
		size  int
	}{{"within-limit", 5 << 20}, {"beyond-limit", 9 << 20}} {
		spec := vc14bpBigProfile(tc.size)
		sc := &vc14bpScript{Stream: []*vc14bpProf{{ID: "p1", Mode: "null"}, spec}, SyncMS: 1_700_000_000_000}
		b.setProfiles(sc.serve)

		ctx, cancel := context.WithTimeout(context.Background(), vc14bpCallTimeout)
		resp, err := c.s.Profiles(ctx, &profiledb.StorageProfilesRequest{})
		cancel()
		b.setProfiles(nil)
		c.coll.take()

		if errors.Is(err, context.DeadlineExceeded) {
			t.Logf("VERIF-INCONCLUSIVE: the call did not finish within %v", vc14bpCallTimeout)
			t.FailNow()
		}

		switch tc.class {
		case "within-limit":
			if err != nil || resp == nil || len(resp.Profiles) != 2 {
				t.Fatalf("a profile of %d octets (limit 8 MB): err=%v", proto.Size(spec.msg()), err)
			}

			if got, want := len(resp.Profiles[1].FilterConfig.Custom.Rules), len(spec.Rules); got != want {
				t.Fatalf("a profile of %d octets: %d custom rules, want %d", proto.Size(spec.msg()), got, want)
			}
		default:
			if err == nil {
				t.Fatalf("a profile of %d octets (limit 8 MB) was accepted: %d profiles", proto.Size(spec.msg()), len(resp.Profiles))
			}
		}

		st.Case(tc.class, tc.class)
	}
}

var _ = durationpb.New
