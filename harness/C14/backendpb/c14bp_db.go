//go:build verif

package backendpb

// C14 (e), part 3: the real chain backend message -> ProfileStorage ->
// profiledb.Default.  A simulated backend keeps generated profiles, changes
// them between synchronisations (settings, devices moving, keys changing
// owner, profiles deleted, deliveries that the conversion must reject) and
// serves full and incremental requests by their sync time.  Two real databases
// (one that synchronises fully once and then incrementally, one that always
// synchronises fully) are refreshed through the real storage; all four lookups
// of both are compared with the generated messages as of each database's last
// successful synchronisation.

import (
	"context"
	"errors"
	"fmt"
	"net/netip"
	"slices"
	"strconv"
	"strings"
	"sync"
	"testing"
	"time"

	"github.com/AdguardTeam/AdGuardDNS/internal/agd"
	"github.com/AdguardTeam/AdGuardDNS/internal/profiledb"
	"github.com/AdguardTeam/golibs/logutil/slogutil"
	"google.golang.org/grpc"
	"google.golang.org/grpc/codes"
	"google.golang.org/grpc/metadata"
	"google.golang.org/grpc/status"
	"pgregory.net/rapid"
	"verif.local/harness/vstat"
)

// vc14bpSimProf is a profile as the simulated backend keeps it.
type vc14bpSimProf struct {
	Spec *vc14bpProf
	// Changed is the backend time (ms) of the last change.
	Changed int64
	// Corrupt, if not empty, is the defect with which the backend currently
	// delivers the profile (the conversion must skip it); Spec stays sound.
	Corrupt string
}

// vc14bpSim is the simulated backend.
type vc14bpSim struct {
	Profs []*vc14bpSimProf
	Now   int64
	free  *vc14bpFree
	ids   []string
}

func (s *vc14bpSim) live() (out []*vc14bpSimProf) {
	for _, p := range s.Profs {
		if !p.Spec.Deleted {
			out = append(out, p)
		}
	}

	return out
}

// editable lists the profiles whose data may change: not deleted, currently
// delivered in a sound form.
func (s *vc14bpSim) editable() (out []*vc14bpSimProf) {
	for _, p := range s.live() {
		if p.Corrupt == "" {
			out = append(out, p)
		}
	}

	return out
}

func (s *vc14bpSim) touch(p *vc14bpSimProf) { p.Changed = s.Now }

func (s *vc14bpSim) release(d *vc14bpDev) {
	if d.Bad == "id" {
		s.free.devIDsBad = append(s.free.devIDsBad, d.ID)
	} else {
		s.free.devIDs = append(s.free.devIDs, d.ID)
	}

	if d.Linked.IsValid() {
		s.free.linked = append(s.free.linked, d.Linked)
	}

	for _, x := range d.Ded {
		if x.BadLen == 0 && slices.Contains(vc14bpDedPool, x.IP) {
			s.free.ded = append(s.free.ded, x.IP)
		}
	}
}

// delivery returns the profile as the backend sends it now.
func (p *vc14bpSimProf) delivery(t *rapid.T) (spec *vc14bpProf) {
	spec = vc14bpClone(p.Spec)
	if p.Corrupt != "" {
		vc14bpBreakProf(t, spec, p.Corrupt)
	}

	return spec
}

// stream lists what a request with the given sync time is answered with: all
// live profiles for a full synchronisation, everything changed since for an
// incremental one (deleted profiles included, without devices).
func (s *vc14bpSim) stream(full bool, sinceMS int64, deliveries map[string]*vc14bpProf) (out []*vc14bpProf) {
	for _, p := range s.Profs {
		if full && p.Spec.Deleted {
			continue
		} else if !full && p.Changed <= sinceMS {
			continue
		}

		out = append(out, deliveries[p.Spec.ID])
	}

	return out
}

// vc14bpView is what one database must know after its last successful
// synchronisation.
type vc14bpView struct {
	Profs map[string]*vc14bpProf
	Devs  map[string]*vc14bpDev
	// Gen counts the deliveries of each profile.
	Gen    map[string]int
	SyncMS int64
	Synced bool
}

func vc14bpNewView() *vc14bpView {
	return &vc14bpView{Profs: map[string]*vc14bpProf{}, Devs: map[string]*vc14bpDev{}, Gen: map[string]int{}}
}

func (v *vc14bpView) apply(full bool, stream []*vc14bpProf, syncMS int64) {
	if full {
		clear(v.Profs)
		clear(v.Devs)
	}

	for _, p := range stream {
		if p.Bad != "" {
			continue
		}

		v.Profs[p.ID] = p
		v.Gen[p.ID]++
		for _, d := range p.validDevs() {
			v.Devs[d.ID] = d
		}
	}

	v.SyncMS, v.Synced = syncMS, true
}

// owner returns the profile that the device id is attached to.  ambiguous is
// true if two synchronised profiles claim the device (the model does not say
// which claim wins).
func (v *vc14bpView) owner(id string) (p *vc14bpProf, d *vc14bpDev, ambiguous bool) {
	for _, pid := range vc14bpSortedKeys(v.Profs) {
		for _, vd := range v.Profs[pid].validDevs() {
			if vd.ID == id {
				if p != nil {
					return nil, nil, true
				}

				p, d = v.Profs[pid], v.Devs[id]
			}
		}
	}

	return p, d, false
}

// attached lists all (profile, device) pairs.
func (v *vc14bpView) attached() (ps []*vc14bpProf, ds []*vc14bpDev) {
	for _, pid := range vc14bpSortedKeys(v.Profs) {
		p := v.Profs[pid]
		for _, vd := range p.validDevs() {
			ps = append(ps, p)
			ds = append(ds, v.Devs[vd.ID])
		}
	}

	return ps, ds
}

func vc14bpSortedKeys[V any](m map[string]V) (ks []string) {
	for k := range m {
		ks = append(ks, k)
	}

	slices.Sort(ks)

	return ks
}

// vc14bpDBCall records one getDNSProfiles call served by the simulation.
type vc14bpDBCall struct {
	Full   bool
	ReqMS  int64
	Stream []*vc14bpProf
	SyncMS int64
	Fault  string
}

// vc14bpDBUnderTest is one real database with what it must know.
type vc14bpDBUnderTest struct {
	name string
	db   *profiledb.Default
	view *vc14bpView
	// seen remembers generation and update stamp of the profile versions met
	// in lookups.
	seen map[string]vc14bpSeen
	// judged remembers the objects already compared in full.
	judged map[any]bool
	// answers are the answers of the previous round of lookups.
	answers map[string]string
}

type vc14bpSeen struct {
	gen   int
	stamp time.Time
}

func TestVerifC14bpDB(t *testing.T) {
	st := vstat.New("C14", "backendpb.db",
		"rapid-generated histories of a simulated backend (profile and device settings change one at a time, devices move, are added, removed, made invalid, linked addresses change owner or switch between the IPv4 and the IPv4-mapped form, profiles are deleted, added, temporarily delivered in a form the conversion must reject) served over gRPC by sync time to the real ProfileStorage feeding two real profiledb.Default (full once then incremental; always full), sequentially or concurrently, with failing synchronisations; after every step all four lookups of both databases are compared with the messages of each database's last successful synchronisation; non-trivial = a history in which a looked-up key changed its answer; distinct by the history",
		"full-sync", "incremental-sync", "concurrent-refresh", "failed-sync", "lookup-found", "lookup-not-found", "answer-changed",
		"by-device-id", "by-linked-ip", "by-dedicated-ip", "by-human-id", "linked-ipv4-mapped-found", "linked-zero-address-found",
		"device-moved", "device-removed", "device-added", "device-became-invalid", "key-changed-owner", "profile-deleted", "profile-added",
		"delivery-rejected", "setting-changed-and-seen", "invalid-device-not-found", "sibling-address-not-found")
	st.Finish(t)

	vc14bpNeedZones(t)
	b, clients := vc14bpStart(t)

	rapid.Check(t, func(t *rapid.T) {
		c := clients[rapid.IntRange(0, len(clients)-1).Draw(t, "client")]
		c.coll.take()

		var hist []string
		note := func(f string, a ...any) { hist = append(hist, fmt.Sprintf(f, a...)) }
		fail := func(f string, a ...any) {
			t.Fatalf("%s\nhistory:\n  %s", fmt.Sprintf(f, a...), strings.Join(hist, "\n  "))
		}
		classes := map[string]bool{}

		// The backend's initial data.
		w, free := vc14bpDrawWorld(t, vc14bpOpts{BadDevices: true, MaxProf: 3, MaxDevs: 3})
		sim := &vc14bpSim{Now: 1_700_000_000_000 + rapid.Int64Range(0, 1_000_000).Draw(t, "epoch"), free: free}
		for _, p := range w.Profs {
			sim.Profs = append(sim.Profs, &vc14bpSimProf{Spec: p, Changed: sim.Now})
			sim.ids = append(sim.ids, p.ID)
		}

		newDB := func(name string, fullIvl time.Duration) *vc14bpDBUnderTest {
			db, err := profiledb.New(&profiledb.Config{
				Logger:               slogutil.NewDiscardLogger(),
				Storage:              c.s,
				ErrColl:              c.coll,
				Metrics:              profiledb.EmptyMetrics{},
				CacheFilePath:        "none",
				FullSyncIvl:          fullIvl,
				FullSyncRetryIvl:     0,
				ResponseSizeEstimate: c.est,
			})
			if err != nil {
				t.Fatalf("profiledb.New: %v", err)
			}

			return &vc14bpDBUnderTest{name: name, db: db, view: vc14bpNewView(), seen: map[string]vc14bpSeen{}, judged: map[any]bool{}}
		}
		dbInc, dbFull := newDB("incremental", 1<<62), newDB("always-full", 0)

		// What the backend serves during the current step.
		var (
			mu         sync.Mutex
			deliveries map[string]*vc14bpProf
			calls      []*vc14bpDBCall
			faults     = map[bool]string{}
			authDiff   string
		)
		b.setProfiles(func(req *DNSProfilesRequest, md metadata.MD, srv grpc.ServerStreamingServer[DNSProfile]) error {
			mu.Lock()
			reqTime := req.GetSyncTime().AsTime()
			call := &vc14bpDBCall{Full: reqTime.IsZero(), SyncMS: sim.Now}
			if !call.Full {
				call.ReqMS = reqTime.UnixMilli()
				if !reqTime.Equal(time.UnixMilli(call.ReqMS)) {
					call.ReqMS = -1
				}
			}

			call.Stream = sim.stream(call.Full, call.ReqMS, deliveries)
			call.Fault = faults[call.Full]
			calls = append(calls, call)
			if d := c.checkAuth(md); d != "" {
				authDiff = d
			}
			mu.Unlock()

			n := len(call.Stream)
			if call.Fault == "internal-mid-stream" {
				n /= 2
			}

			for _, p := range call.Stream[:n] {
				if err := srv.Send(p.msg()); err != nil {
					return err
				}
			}

			switch call.Fault {
			case "":
				srv.SetTrailer(metadata.MD{"sync_time": []string{strconv.FormatInt(call.SyncMS, 10)}})

				return nil
			case "no-trailer":
				return nil
			case "rate-limited":
				return (&vc14bpFault{Kind: "rate-limited", Msg: "scripted"}).err()
			default:
				return status.Error(codes.Internal, "scripted: "+call.Fault)
			}
		})
		defer b.setProfiles(nil)

		refresh := func(d *vc14bpDBUnderTest) (err error) {
			ctx, cancel := context.WithTimeout(context.Background(), vc14bpCallTimeout)
			defer cancel()

			return d.db.Refresh(ctx)
		}

		anyChanged := false
		nSteps := rapid.IntRange(2, 5).Draw(t, "nSteps")
		for step := 0; step < nSteps; step++ {
			if step > 0 {
				sim.Now += rapid.Int64Range(1, 5000).Draw(t, "advanceMS")
				nOps := rapid.IntRange(1, 3).Draw(t, "nOps")
				for i := 0; i < nOps; i++ {
					vc14bpSimOp(t, sim, dbInc.view.SyncMS, note, classes)
				}
			}

			deliveries = map[string]*vc14bpProf{}
			for _, p := range sim.Profs {
				deliveries[p.Spec.ID] = p.delivery(t)
				if p.Corrupt != "" {
					classes["delivery-rejected"] = true
				}
			}

			// Who synchronises in this step, how, and whether it fails.
			both := step == 0 || rapid.Bool().Draw(t, "refreshFullDB")
			concurrent := both && dbInc.view.Synced && rapid.IntRange(0, 2).Draw(t, "concurrent") == 0
			faults = map[bool]string{}
			if step > 0 && rapid.IntRange(0, 4).Draw(t, "faulty") == 0 {
				k := rapid.SampledFrom([]string{"rate-limited", "internal-mid-stream", "no-trailer"}).Draw(t, "fault")
				faults[rapid.Bool().Draw(t, "faultOnFull")] = k
			}

			calls, authDiff = nil, ""
			note("step %d: backend time %d; refresh incremental db%s%s; faults %v", step, sim.Now,
				map[bool]string{true: " and always-full db"}[both], map[bool]string{true: " concurrently"}[concurrent], faults)

			errs := map[*vc14bpDBUnderTest]error{}
			switch {
			case concurrent:
				classes["concurrent-refresh"] = true
				var wg sync.WaitGroup
				var errInc, errFull error
				wg.Add(2)
				go func() { defer wg.Done(); errInc = refresh(dbInc) }()
				go func() { defer wg.Done(); errFull = refresh(dbFull) }()
				wg.Wait()
				errs[dbInc], errs[dbFull] = errInc, errFull
			case both:
				errs[dbInc] = refresh(dbInc)
				errs[dbFull] = refresh(dbFull)
			default:
				errs[dbInc] = refresh(dbInc)
			}

			c.coll.take()
			c.mtrc.take()
			c.grpc.take()
			if authDiff != "" {
				fail("request metadata: %s", authDiff)
			}

			// Attribute the served calls: the always-full database asks with a
			// zero sync time, the other one only the first time.
			for d, err := range errs {
				if errors.Is(err, context.DeadlineExceeded) {
					t.Logf("VERIF-INCONCLUSIVE: Refresh did not finish within %v: %v", vc14bpCallTimeout, err)
					t.FailNow()
				}

				wantFull := d == dbFull || !d.view.Synced
				var call *vc14bpDBCall
				for i, cl := range calls {
					if cl != nil && cl.Full == wantFull {
						call, calls[i] = cl, nil

						break
					}
				}

				if call == nil {
					fail("%s db: no %s request reached the backend (full=%t); Refresh returned %v", d.name, map[bool]string{true: "full", false: "incremental"}[wantFull], wantFull, err)
				}

				if !call.Full && call.ReqMS != d.view.SyncMS {
					fail("%s db: the backend received sync time %d ms, want %d ms (the sync_time of the previous successful synchronisation)", d.name,
						call.ReqMS, d.view.SyncMS)
				}

				if call.Fault != "" {
					classes["failed-sync"] = true
					if err == nil {
						fail("%s db: Refresh succeeded although the backend failed with %q", d.name, call.Fault)
					}

					continue
				}

				if err != nil {
					fail("%s db: Refresh failed: %v", d.name, err)
				}

				if call.Full {
					classes["full-sync"] = true
				} else {
					classes["incremental-sync"] = true
				}

				var ids []string
				for _, p := range call.Stream {
					ids = append(ids, fmt.Sprintf("%q(bad=%q,deleted=%t,devices=%d)", p.ID, p.Bad, p.Deleted, len(p.Devs)))
				}

				note("  %s db got (full=%t, since %d): %v", d.name, call.Full, call.ReqMS, ids)
				d.view.apply(call.Full, call.Stream, call.SyncMS)
			}

			for _, cl := range calls {
				if cl != nil {
					fail("an unexpected request reached the backend: %+v", *cl)
				}
			}

			pr := vc14bpDrawProbe(t, c.est)
			pr.NoRLBehaviour = true
			for _, d := range []*vc14bpDBUnderTest{dbInc, dbFull} {
				if vc14bpLookups(t, d, pr, classes, fail) {
					anyChanged = true
				}
			}
		}

		var cls []string
		for k := range classes {
			cls = append(cls, k)
		}

		key := ""
		if anyChanged {
			key = strings.Join(hist, "\n")
			cls = append(cls, "answer-changed")
		}

		st.Case(key, cls...)
		if st.WantSample() && anyChanged {
			st.Sample(hist)
		}
	})
}

// vc14bpSimOp applies one change to the backend's data.
//
// incSynced is the backend time up to which the incrementally synchronised
// database knows the data.  A profile only starts to be delivered in a rejected
// form once that database has its latest sound version: otherwise the database
// legitimately keeps an older version of this profile next to newer versions of
// others, and which of two stale claims on a key wins is not decided by the
// statement.
func vc14bpSimOp(t *rapid.T, s *vc14bpSim, incSynced int64, note func(string, ...any), classes map[string]bool) {
	ed := s.editable()
	pick := func(label string) *vc14bpSimProf { return ed[rapid.IntRange(0, len(ed)-1).Draw(t, label)] }
	pickDev := func(p *vc14bpSimProf, label string) (d *vc14bpDev, i int) {
		i = rapid.IntRange(0, len(p.Spec.Devs)-1).Draw(t, label)

		return p.Spec.Devs[i], i
	}
	humansOf := func(p *vc14bpSimProf) (hs []string) {
		for _, d := range p.Spec.Devs {
			if d.Human != "" && d.Bad != "human" {
				hs = append(hs, d.Human)
			}
		}

		return hs
	}

	op := rapid.SampledFrom([]string{"profSetting", "devSetting", "moveDev", "removeDev", "addDev", "relink", "swapLinked", "breakDev",
		"deleteProf", "addProf", "corrupt", "repair", "human"}).Draw(t, "op")
	if len(ed) == 0 && op != "repair" && op != "addProf" {
		op = "addProf"
	}

	switch op {
	case "profSetting":
		p := pick("prof")
		note("backend: profile %q: %s", p.Spec.ID, vc14bpMutateProf(t, p.Spec))
		s.touch(p)
		classes["setting-changed"] = true
	case "devSetting":
		p := pick("prof")
		if vd := p.Spec.validDevs(); len(vd) > 0 {
			d := vd[rapid.IntRange(0, len(vd)-1).Draw(t, "dev")]
			note("backend: device %q of %q: %s", d.ID, p.Spec.ID, vc14bpMutateDev(t, d))
			s.touch(p)
			classes["setting-changed"] = true
		}
	case "moveDev":
		if len(ed) < 2 {
			return
		}

		from := pick("from")
		if len(from.Spec.Devs) == 0 {
			return
		}

		var others []*vc14bpSimProf
		for _, p := range ed {
			if p != from {
				others = append(others, p)
			}
		}

		to := others[rapid.IntRange(0, len(others)-1).Draw(t, "to")]
		d, i := pickDev(from, "dev")
		if d.Human != "" && d.Bad != "human" && slices.Contains(humansOf(to), d.Human) {
			d.Human = ""
		}

		from.Spec.Devs = slices.Delete(from.Spec.Devs, i, i+1)
		to.Spec.Devs = append(to.Spec.Devs, d)
		s.touch(from)
		s.touch(to)
		note("backend: device %q moves from %q to %q", d.ID, from.Spec.ID, to.Spec.ID)
		classes["device-moved"] = true
	case "removeDev":
		p := pick("prof")
		if len(p.Spec.Devs) == 0 {
			return
		}

		d, i := pickDev(p, "dev")
		p.Spec.Devs = slices.Delete(p.Spec.Devs, i, i+1)
		s.release(d)
		s.touch(p)
		note("backend: device %q of %q is removed", d.ID, p.Spec.ID)
		classes["device-removed"] = true
	case "addDev":
		p := pick("prof")
		hs := humansOf(p)
		if d := vc14bpDrawDev(t, s.free, &hs, true); d != nil {
			p.Spec.Devs = append(p.Spec.Devs, d)
			s.touch(p)
			note("backend: device added to %q: %s", p.Spec.ID, vc14bpDescribe(d))
			classes["device-added"] = true
		}
	case "relink":
		p := pick("prof")
		vd := p.Spec.validDevs()
		if len(vd) == 0 {
			return
		}

		d := vd[rapid.IntRange(0, len(vd)-1).Draw(t, "dev")]
		old := d.Linked
		// Prefer the sibling form (IPv4 <-> IPv4-mapped) of the current
		// address, then an address someone else has given up.
		var cands []netip.Addr
		if old.Is4() {
			cands = append(cands, netip.AddrFrom16(old.As16()))
		} else if old.Is4In6() {
			cands = append(cands, old.Unmap())
		}

		for _, ip := range slices.Concat(cands, s.free.linked) {
			if i := slices.Index(s.free.linked, ip); i >= 0 {
				s.free.linked = slices.Delete(s.free.linked, i, i+1)
				if old.IsValid() {
					s.free.linked = append(s.free.linked, old)
				}

				d.Linked, d.LinkedEmpty = ip, false
				s.touch(p)
				note("backend: device %q of %q: linked ip %v -> %v", d.ID, p.Spec.ID, old, ip)
				classes["key-changed-owner"] = true

				return
			}
		}

		if old.IsValid() {
			s.free.linked = append(s.free.linked, old)
			d.Linked = netip.Addr{}
			s.touch(p)
			note("backend: device %q of %q gives up its linked ip %v", d.ID, p.Spec.ID, old)
		}
	case "swapLinked":
		type ref struct {
			p *vc14bpSimProf
			d *vc14bpDev
		}

		var all []ref
		for _, p := range ed {
			for _, d := range p.Spec.validDevs() {
				all = append(all, ref{p, d})
			}
		}

		if len(all) < 2 {
			return
		}

		x := all[rapid.IntRange(0, len(all)-1).Draw(t, "swapA")]
		y := all[rapid.IntRange(0, len(all)-1).Draw(t, "swapB")]
		if x.d == y.d || x.d.Linked == y.d.Linked {
			return
		}

		x.d.Linked, y.d.Linked = y.d.Linked, x.d.Linked
		x.d.LinkedEmpty, y.d.LinkedEmpty = false, false
		s.touch(x.p)
		s.touch(y.p)
		note("backend: devices %q and %q swap their linked ips (%v, %v)", x.d.ID, y.d.ID, x.d.Linked, y.d.Linked)
		classes["key-changed-owner"] = true
	case "breakDev":
		p := pick("prof")
		if len(p.Spec.Devs) == 0 {
			return
		}

		d, _ := pickDev(p, "dev")
		switch d.Bad {
		case "":
			d.Name = vc14bpNamesBad[0]
			d.Bad = "name"
			note("backend: device %q of %q gets a name that is too long", d.ID, p.Spec.ID)
			classes["device-became-invalid"] = true
		case "name":
			d.Name = "ok again"
			d.Bad = ""
			note("backend: device %q of %q gets a valid name again", d.ID, p.Spec.ID)
		default:
			return
		}

		s.touch(p)
	case "human":
		p := pick("prof")
		vd := p.Spec.validDevs()
		if len(vd) == 0 {
			return
		}

		d := vd[rapid.IntRange(0, len(vd)-1).Draw(t, "dev")]
		old := d.Human
		d.Human = ""
		for _, h := range rapid.Permutation(vc14bpHumans).Draw(t, "humans") {
			if h != old && !slices.Contains(humansOf(p), h) {
				d.Human = h

				break
			}
		}

		s.touch(p)
		note("backend: device %q of %q: human id %q -> %q", d.ID, p.Spec.ID, old, d.Human)
		classes["key-changed-owner"] = true
	case "deleteProf":
		p := pick("prof")
		for _, d := range p.Spec.Devs {
			s.release(d)
		}

		// A deleted profile is announced without devices (backendpb's own test
		// data).
		p.Spec.Devs = nil
		p.Spec.Deleted = true
		s.touch(p)
		note("backend: profile %q is deleted", p.Spec.ID)
		classes["profile-deleted"] = true
	case "addProf":
		for _, id := range vc14bpProfIDs {
			if !slices.Contains(s.ids, id) {
				p := vc14bpDrawProf(t, id, s.free, vc14bpOpts{BadDevices: true, MaxDevs: 2})
				s.Profs = append(s.Profs, &vc14bpSimProf{Spec: p, Changed: s.Now})
				s.ids = append(s.ids, id)
				note("backend: new profile %s", vc14bpDescribe(p))
				classes["profile-added"] = true

				return
			}
		}
	case "corrupt":
		p := pick("prof")
		if p.Changed > incSynced {
			return
		}

		p.Corrupt = rapid.SampledFrom([]string{"tz", "day-inverted", "day-end-1440", "mode-v4-len", "mode-no-ips"}).Draw(t, "corruption")
		s.touch(p)
		note("backend: profile %q is from now on delivered with the defect %q", p.Spec.ID, p.Corrupt)
	case "repair":
		for _, p := range s.live() {
			if p.Corrupt != "" {
				p.Corrupt = ""
				s.touch(p)
				note("backend: profile %q is delivered in a sound form again", p.Spec.ID)

				return
			}
		}
	}
}

// vc14bpLookups compares all four lookups of d with its view.  It reports
// whether some key's answer differs from the one it gave the last time.
func vc14bpLookups(t *rapid.T, d *vc14bpDBUnderTest, pr *vc14bpProbe, classes map[string]bool, fail func(string, ...any)) (changed bool) {
	ctx := context.Background()
	v := d.view

	judge := func(what string, wantP *vc14bpProf, wantD *vc14bpDev, p *agd.Profile, dev *agd.Device, err error) {
		if err != nil {
			if !errors.Is(err, profiledb.ErrDeviceNotFound) && !errors.Is(err, profiledb.ErrProfileNotFound) {
				fail("%s db: %s: unexpected error kind %v", d.name, what, err)
			}

			if wantP != nil {
				fail("%s db: %s: not found (%v), want profile %q device %q", d.name, what, err, wantP.ID, wantD.ID)
			}

			classes["lookup-not-found"] = true

			return
		}

		if p == nil || dev == nil {
			fail("%s db: %s: nil result without error", d.name, what)
		}

		if wantP == nil {
			fail("%s db: %s: found profile %q device %q, want not found", d.name, what, p.ID, dev.ID)
		}

		if string(p.ID) != wantP.ID || string(dev.ID) != wantD.ID {
			fail("%s db: %s: found profile %q device %q, want %q %q", d.name, what, p.ID, dev.ID, wantP.ID, wantD.ID)
		}

		classes["lookup-found"] = true

		// The update stamp of the custom filter: unchanged while the profile
		// has not been delivered again, strictly later once it has.
		var stampDiff string
		stamp := p.FilterConfig.Custom.UpdateTime
		gen := v.Gen[wantP.ID]
		if seen, ok := d.seen[wantP.ID]; ok {
			if seen.gen == gen && !seen.stamp.Equal(stamp) {
				stampDiff = fmt.Sprintf("changed from %v although the profile was not delivered again", seen.stamp)
			} else if seen.gen != gen && !seen.stamp.Before(stamp) {
				stampDiff = fmt.Sprintf("not after the stamp %v of the previously delivered version: the custom-filter cache would keep the old rules", seen.stamp)
			}

			if seen.gen != gen {
				classes["setting-changed-and-seen"] = true
			}
		}

		d.seen[wantP.ID] = vc14bpSeen{gen: gen, stamp: stamp}

		var diffs []string
		if !d.judged[p] {
			d.judged[p] = true
			diffs = append(diffs, vc14bpDiffProfile(wantP, p, pr, func(time.Time) string { return stampDiff })...)
		} else if stampDiff != "" {
			diffs = append(diffs, "Custom.UpdateTime "+stampDiff)
		}

		if !d.judged[dev] {
			d.judged[dev] = true
			diffs = append(diffs, vc14bpDiffDevice(wantD, dev, pr)...)
		}

		if len(diffs) > 0 {
			fail("%s db: %s: the answer differs from the latest synchronised message:\n  %s\nmessage: %s\ndevice: %s", d.name, what,
				strings.Join(diffs, "\n  "), vc14bpDescribe(wantP), vc14bpDescribe(wantD))
		}
	}

	answers := map[string]string{}
	answer := func(key string, p *vc14bpProf, dv *vc14bpDev) {
		a := "-"
		if p != nil {
			a = p.ID + "/" + dv.ID + "/" + strconv.Itoa(v.Gen[p.ID])
		}

		answers[key] = a
	}

	ps, ds := v.attached()

	// one picks the single (profile, device) pair among the attached ones that
	// match; with more than one the model has no answer and the key is not
	// judged (cannot happen while the backend's snapshots are consistent).
	one := func(match func(p *vc14bpProf, dv *vc14bpDev) bool) (wp *vc14bpProf, wd *vc14bpDev, ambiguous bool) {
		for i, cand := range ds {
			if _, _, amb := v.owner(cand.ID); amb {
				return nil, nil, true
			}

			if match(ps[i], cand) {
				if wp != nil {
					return nil, nil, true
				}

				wp, wd = ps[i], cand
			}
		}

		return wp, wd, false
	}

	for _, id := range slices.Concat(vc14bpDevIDs, []string{"abcdefghi", "d_1", "-d1"}) {
		wp, wd, amb := v.owner(id)
		p, dev, err := d.db.ProfileByDeviceID(ctx, agd.DeviceID(id))
		if amb {
			classes["model-ambiguous"] = true

			continue
		}

		judge(fmt.Sprintf("ProfileByDeviceID(%q)", id), wp, wd, p, dev, err)
		answer("dev:"+id, wp, wd)
		classes["by-device-id"] = true
		if wp == nil {
			for _, sp := range v.Profs {
				for _, sd := range sp.Devs {
					if sd.ID == id && sd.Bad != "" {
						classes["invalid-device-not-found"] = true
					}
				}
			}
		}
	}

	for _, ip := range vc14bpLinked {
		wp, wd, amb := one(func(_ *vc14bpProf, dv *vc14bpDev) bool { return dv.Linked == ip })
		p, dev, err := d.db.ProfileByLinkedIP(ctx, ip)
		if amb {
			classes["model-ambiguous"] = true

			continue
		}

		judge(fmt.Sprintf("ProfileByLinkedIP(%v)", ip), wp, wd, p, dev, err)
		answer("linked:"+ip.String(), wp, wd)
		classes["by-linked-ip"] = true
		if wp != nil && ip.Is4In6() {
			classes["linked-ipv4-mapped-found"] = true
		} else if wp != nil && ip.IsUnspecified() {
			classes["linked-zero-address-found"] = true
		}

		if wp == nil && (ip.Is4() || ip.Is4In6()) {
			sib := ip.Unmap()
			if ip.Is4() {
				sib = netip.AddrFrom16(ip.As16())
			}

			for _, cand := range ds {
				if cand.Linked == sib {
					classes["sibling-address-not-found"] = true
				}
			}
		}
	}

	for _, ip := range slices.Concat(vc14bpDedPool, vc14bpDedOutside) {
		wp, wd, amb := one(func(_ *vc14bpProf, dv *vc14bpDev) bool {
			return slices.ContainsFunc(dv.Ded, func(x vc14bpDed) bool { return x.IP == ip })
		})
		p, dev, err := d.db.ProfileByDedicatedIP(ctx, ip)
		if amb {
			classes["model-ambiguous"] = true

			continue
		}

		judge(fmt.Sprintf("ProfileByDedicatedIP(%v)", ip), wp, wd, p, dev, err)
		answer("ded:"+ip.String(), wp, wd)
		classes["by-dedicated-ip"] = true
	}

	for _, pid := range vc14bpProfIDs {
		for _, h := range vc14bpHumans {
			wp, wd, amb := one(func(sp *vc14bpProf, dv *vc14bpDev) bool { return sp.ID == pid && dv.Human == h })
			p, dev, err := d.db.ProfileByHumanID(ctx, agd.ProfileID(pid), agd.HumanIDLower(h))
			if amb {
				classes["model-ambiguous"] = true

				continue
			}

			judge(fmt.Sprintf("ProfileByHumanID(%q, %.12q)", pid, h), wp, wd, p, dev, err)
			answer("human:"+pid+"/"+h, wp, wd)
			classes["by-human-id"] = true
		}
	}

	for k, a := range answers {
		if pa, ok := d.answers[k]; ok && pa != a {
			changed = true
		}
	}

	d.answers = answers

	return changed
}
