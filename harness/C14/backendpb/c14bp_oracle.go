//go:build verif

package backendpb

// C14 (e): the oracle.  What a spec means is read off here through accessors
// and behaviour probes of the converted agd.Profile / agd.Device; nothing in
// this file calls the conversion or builds reference objects with it.

import (
	"context"
	"fmt"
	"net/netip"
	"slices"
	"sync"
	"time"

	"github.com/AdguardTeam/AdGuardDNS/internal/access"
	"github.com/AdguardTeam/AdGuardDNS/internal/agd"
	"github.com/AdguardTeam/AdGuardDNS/internal/agdpasswd"
	"github.com/AdguardTeam/AdGuardDNS/internal/dnsmsg"
	"github.com/AdguardTeam/AdGuardDNS/internal/filter"
	"github.com/AdguardTeam/AdGuardDNS/internal/geoip"
	"github.com/c2h5oh/datasize"
	"github.com/miekg/dns"
	"pgregory.net/rapid"
)

// Recording collaborators.

type vc14bpColl struct {
	mu   sync.Mutex
	errs []string
}

func (c *vc14bpColl) Collect(_ context.Context, err error) {
	c.mu.Lock()
	defer c.mu.Unlock()

	c.errs = append(c.errs, fmt.Sprint(err))
}

func (c *vc14bpColl) take() (errs []string) {
	c.mu.Lock()
	defer c.mu.Unlock()

	errs, c.errs = c.errs, nil

	return errs
}

type vc14bpDBMetrics struct {
	mu      sync.Mutex
	invalid int
}

func (m *vc14bpDBMetrics) IncrementInvalidDevicesCount(context.Context) {
	m.mu.Lock()
	defer m.mu.Unlock()

	m.invalid++
}

func (m *vc14bpDBMetrics) UpdateStats(context.Context, time.Duration, time.Duration) {}

func (m *vc14bpDBMetrics) take() (n int) {
	m.mu.Lock()
	defer m.mu.Unlock()

	n, m.invalid = m.invalid, 0

	return n
}

type vc14bpGRPCMetrics struct {
	mu    sync.Mutex
	types []string
}

func (m *vc14bpGRPCMetrics) IncrementErrorCount(_ context.Context, errType GRPCError) {
	m.mu.Lock()
	defer m.mu.Unlock()

	m.types = append(m.types, errType)
}

func (m *vc14bpGRPCMetrics) take() (types []string) {
	m.mu.Lock()
	defer m.mu.Unlock()

	types, m.types = m.types, nil

	return types
}

// Own reading of the address formats.

// contains tells whether ip lies within the range: same address family and the
// first Bits bits equal.
func (c vc14bpCIDR) contains(ip netip.Addr) bool {
	if c.BadLen > 0 || c.IP.BitLen() != ip.BitLen() {
		return false
	}

	a, b := c.IP.AsSlice(), ip.AsSlice()
	for i := 0; i < c.Bits; i++ {
		if (a[i/8]>>(7-i%8))&1 != (b[i/8]>>(7-i%8))&1 {
			return false
		}
	}

	return true
}

func vc14bpInAny(l []vc14bpCIDR, ip netip.Addr) bool {
	for _, c := range l {
		if c.contains(ip) {
			return true
		}
	}

	return false
}

// vc14bpGoodCIDRs lists the well-formed ranges as prefixes, in order.
func vc14bpGoodCIDRs(l []vc14bpCIDR) (out []netip.Prefix) {
	for _, c := range l {
		if c.BadLen == 0 {
			out = append(out, netip.PrefixFrom(c.IP, c.Bits))
		}
	}

	return out
}

// vc14bpBytesAddr reads the protocol's address octets: 4 octets are an IPv4
// address, 16 an IPv6 one (kept as such, also when IPv4-mapped), nothing means
// "no address".
func vc14bpBytesAddr(b []byte) (a netip.Addr, ok bool) {
	switch len(b) {
	case 0:
		return netip.Addr{}, true
	case 4:
		return netip.AddrFrom4([4]byte(b)), true
	case 16:
		return netip.AddrFrom16([16]byte(b)), true
	default:
		return netip.Addr{}, false
	}
}

func vc14bpSameList[A, B any](a []A, b []B, eq func(A, B) bool) bool {
	if len(a) != len(b) {
		return false
	}

	for i := range a {
		if !eq(a[i], b[i]) {
			return false
		}
	}

	return true
}

func vc14bpQ(name string, qt uint16) *dns.Msg {
	m := &dns.Msg{}
	m.SetQuestion(name, qt)

	return m
}

// vc14bpResp builds a response whose length is at least n octets.
func vc14bpResp(n int) *dns.Msg {
	m := vc14bpQ("big.example.", dns.TypeTXT)
	m.Response = true
	for m.Len() < n {
		m.Answer = append(m.Answer, &dns.TXT{
			Hdr: dns.RR_Header{Name: "big.example.", Rrtype: dns.TypeTXT, Class: dns.ClassINET, Ttl: 1},
			Txt: []string{"0123456789012345678901234567890123456789"},
		})
	}

	return m
}

// vc14bpProbe carries the per-case drawn parts of the behaviour probes.
type vc14bpProbe struct {
	Times []time.Time
	// RespUnits is how many response-size estimates the probed response spans.
	RespUnits int
	Est       datasize.ByteSize
	// Slow counts the rate-limit drop expectations skipped because the probe
	// itself took too long (wall clock is never a verdict).
	Slow int
	// Bcrypt tells whether to run the (slow) bcrypt probes.
	Bcrypt bool
	// NoRLBehaviour skips the counting probes of the rate limiter: they assume
	// a fresh counter.
	NoRLBehaviour bool
	// Light skips the behaviour probes of the access settings (used for the
	// repeated lookups of one object).
	Light bool
}

func vc14bpDrawProbe(t *rapid.T, est datasize.ByteSize) *vc14bpProbe {
	pr := &vc14bpProbe{Est: est, RespUnits: rapid.IntRange(0, 3).Draw(t, "respUnits"), Bcrypt: rapid.IntRange(0, 3).Draw(t, "bcryptProbe") == 0}
	for _, ts := range vc14bpProbeTS {
		pr.Times = append(pr.Times, time.Unix(ts, 0))
	}

	for i := 0; i < 3; i++ {
		pr.Times = append(pr.Times, time.Unix(rapid.Int64Range(1704067200, 1798761600).Draw(t, "probeTime"), 0))
	}

	return pr
}

// want returns FilteredResponseTTL as the message states it.
func (d *vc14bpDur) want() time.Duration {
	if d == nil {
		return 0
	}

	return time.Duration(d.Sec)*time.Second + time.Duration(d.Nanos)*time.Nanosecond
}

// vc14bpDiffProfile lists the differences between what the valid spec means
// and got.  updCheck judges the custom filter's update stamp.
func vc14bpDiffProfile(spec *vc14bpProf, got *agd.Profile, pr *vc14bpProbe, updCheck func(time.Time) string) (diffs []string) {
	add := func(f string, a ...any) {
		diffs = append(diffs, fmt.Sprintf("profile %q: ", spec.ID)+fmt.Sprintf(f, a...))
	}
	if got == nil {
		add("nil profile")

		return diffs
	}

	if string(got.ID) != spec.ID {
		add("ID %q", got.ID)
	}

	var wantIDs []string
	for _, d := range spec.validDevs() {
		wantIDs = append(wantIDs, d.ID)
	}

	if !vc14bpSameList(got.DeviceIDs, wantIDs, func(a agd.DeviceID, b string) bool { return string(a) == b }) {
		add("DeviceIDs %q, want %q (the valid devices in the order sent)", got.DeviceIDs, wantIDs)
	}

	if w := spec.TTL.want(); got.FilteredResponseTTL != w {
		add("FilteredResponseTTL %v, want %v", got.FilteredResponseTTL, w)
	}

	for _, f := range []struct {
		name      string
		got, want bool
	}{
		{"AutoDevicesEnabled", got.AutoDevicesEnabled, spec.Auto},
		{"BlockChromePrefetch", got.BlockChromePrefetch, spec.Chrome},
		{"BlockFirefoxCanary", got.BlockFirefoxCanary, spec.Firefox},
		{"BlockPrivateRelay", got.BlockPrivateRelay, spec.Relay},
		{"Deleted", got.Deleted, spec.Deleted},
		{"FilteringEnabled", got.FilteringEnabled, spec.Filtering},
		{"IPLogEnabled", got.IPLogEnabled, spec.IPLog},
		{"QueryLogEnabled", got.QueryLogEnabled, spec.QueryLog},
	} {
		if f.got != f.want {
			add("%s %t, want %t", f.name, f.got, f.want)
		}
	}

	// Blocking mode.
	gotMode := ""
	var got4, got6 []netip.Addr
	switch m := got.BlockingMode.(type) {
	case *dnsmsg.BlockingModeNullIP:
		gotMode = "null"
	case *dnsmsg.BlockingModeNXDOMAIN:
		gotMode = "nxdomain"
	case *dnsmsg.BlockingModeREFUSED:
		gotMode = "refused"
	case *dnsmsg.BlockingModeCustomIP:
		gotMode = "custom"
		if m != nil {
			got4, got6 = m.IPv4, m.IPv6
		}
	default:
		gotMode = fmt.Sprintf("%T", got.BlockingMode)
	}

	wantMode := spec.Mode
	if wantMode == "absent" {
		// "If pbm is nil, blockingModeToInternal returns a null-IP blocking
		// mode."
		wantMode = "null"
	}

	var want4, want6 []netip.Addr
	if wantMode == "custom" {
		if a, _ := vc14bpBytesAddr(spec.ModeV4); a.IsValid() {
			want4 = []netip.Addr{a}
		}

		if a, _ := vc14bpBytesAddr(spec.ModeV6); a.IsValid() {
			want6 = []netip.Addr{a}
		}
	}

	eqAddr := func(a, b netip.Addr) bool { return a == b }
	if gotMode != wantMode || !vc14bpSameList(got4, want4, eqAddr) || !vc14bpSameList(got6, want6, eqAddr) {
		add("BlockingMode %s v4=%v v6=%v, want %s v4=%v v6=%v", gotMode, got4, got6, wantMode, want4, want6)
	}

	diffs = append(diffs, vc14bpDiffAccess(spec, got.Access, pr)...)
	diffs = append(diffs, vc14bpDiffRL(spec, got.Ratelimiter, pr)...)

	fc := got.FilterConfig
	if fc == nil || fc.Custom == nil || fc.Parental == nil || fc.RuleList == nil || fc.SafeBrowsing == nil {
		add("FilterConfig has nil parts: %+v", fc)

		return diffs
	}

	wantRules := vc14bpValidRules(spec.Rules)
	if fc.Custom.ID != spec.ID || fc.Custom.Enabled != (len(wantRules) > 0) ||
		!vc14bpSameList(fc.Custom.Rules, wantRules, func(a filter.RuleText, b string) bool { return string(a) == b }) {
		add("Custom {ID:%q Enabled:%t %d rules}, want {%q %t %d rules %.60q}", fc.Custom.ID, fc.Custom.Enabled, len(fc.Custom.Rules),
			spec.ID, len(wantRules) > 0, len(wantRules), wantRules)
	}

	if updCheck != nil {
		if d := updCheck(fc.Custom.UpdateTime); d != "" {
			add("Custom.UpdateTime %v: %s", fc.Custom.UpdateTime, d)
		}
	}

	wp := spec.Par
	if wp == nil {
		// "If x is nil, toInternal returns a disabled configuration."
		wp = &vc14bpPar{}
	}

	par := fc.Parental
	wantSvc := vc14bpValidOf(wp.Services, vc14bpServicesBad)
	if par.Enabled != wp.Enabled || par.AdultBlockingEnabled != wp.Adult ||
		par.SafeSearchGeneralEnabled != wp.General || par.SafeSearchYouTubeEnabled != wp.YouTube ||
		!vc14bpSameList(par.BlockedServices, wantSvc, func(a filter.BlockedServiceID, b string) bool { return string(a) == b }) {
		add("Parental {Enabled:%t Adult:%t General:%t YouTube:%t Services:%.80q}, want {%t %t %t %t %.80q}", par.Enabled,
			par.AdultBlockingEnabled, par.SafeSearchGeneralEnabled, par.SafeSearchYouTubeEnabled, par.BlockedServices,
			wp.Enabled, wp.Adult, wp.General, wp.YouTube, wantSvc)
	}

	diffs = append(diffs, vc14bpDiffSched(spec, wp.Sched, par.PauseSchedule, pr)...)

	wl := spec.Lists
	if wl == nil {
		wl = &vc14bpLists{}
	}

	wantIDsL := vc14bpValidOf(wl.IDs, vc14bpListIDsBad)
	if fc.RuleList.Enabled != wl.Enabled ||
		!vc14bpSameList(fc.RuleList.IDs, wantIDsL, func(a filter.ID, b string) bool { return string(a) == b }) {
		add("RuleList {IDs:%.80q Enabled:%t}, want {%.80q %t}", fc.RuleList.IDs, fc.RuleList.Enabled, wantIDsL, wl.Enabled)
	}

	ws := spec.SB
	if ws == nil {
		ws = &vc14bpSB{}
	}

	sb := fc.SafeBrowsing
	if sb.Enabled != ws.Enabled || sb.DangerousDomainsEnabled != ws.Dangerous || sb.NewlyRegisteredDomainsEnabled != ws.Newly {
		add("SafeBrowsing %+v, want {Enabled:%t Dangerous:%t NewlyRegistered:%t}", *sb, ws.Enabled, ws.Dangerous, ws.Newly)
	}

	return diffs
}

// blocked is the harness's own reading of the access settings: allow lists win
// over block lists for the client address and AS number; the probed names are
// matched by the pooled rules as listed.
func (a *vc14bpAccess) blocked(ip netip.Addr, asn int64, name string, qt uint16) bool {
	inASNs := func(l []uint32) bool { return asn >= 0 && slices.Contains(l, uint32(asn)) }
	has := func(r string) bool { return slices.Contains(a.Rules, r) }

	if !(inASNs(a.AllowedASN) || vc14bpInAny(a.AllowedNets, ip)) && (inASNs(a.BlockedASN) || vc14bpInAny(a.BlockedNets, ip)) {
		return true
	}

	switch name {
	case "block.test.":
		return has("block.test")
	case "sub.ads.example.":
		return has("||ads.example^")
	case "ok.ads.example.":
		return has("||ads.example^") && !has("@@||ok.ads.example^")
	case "exact.example.":
		return has("|exact.example|")
	case "a.wild.example.":
		return has("*.wild.example")
	case "typed.example.":
		return qt == dns.TypeAAAA && has("||typed.example^$dnstype=AAAA")
	case "block-upper.test.":
		return has("BLOCK-UPPER.test")
	case "regex12.test.":
		return has("/regex[0-9]+\\.test/")
	default:
		return false
	}
}

func vc14bpDiffAccess(spec *vc14bpProf, got access.Profile, pr *vc14bpProbe) (diffs []string) {
	add := func(f string, a ...any) {
		diffs = append(diffs, fmt.Sprintf("profile %q: access: ", spec.ID)+fmt.Sprintf(f, a...))
	}
	if got == nil {
		add("nil")

		return diffs
	}

	// "If x is nil [or not enabled], toInternal returns access.EmptyProfile":
	// nothing is blocked.
	want := spec.Access
	if want == nil || !want.Enabled {
		want = &vc14bpAccess{}
	}

	conf := got.Config()
	if conf == nil {
		// Only an access manager that blocks nothing may have no
		// configuration.
		conf = &access.ProfileConfig{}
	}

	eqPref := func(a, b netip.Prefix) bool { return a == b }
	eqASN := func(a geoip.ASN, b uint32) bool { return uint32(a) == b }
	if w := vc14bpGoodCIDRs(want.AllowedNets); !vc14bpSameList(conf.AllowedNets, w, eqPref) {
		add("AllowedNets %v, want %v", conf.AllowedNets, w)
	}

	if w := vc14bpGoodCIDRs(want.BlockedNets); !vc14bpSameList(conf.BlockedNets, w, eqPref) {
		add("BlockedNets %v, want %v", conf.BlockedNets, w)
	}

	if !vc14bpSameList(conf.AllowedASN, want.AllowedASN, eqASN) {
		add("AllowedASN %v, want %v", conf.AllowedASN, want.AllowedASN)
	}

	if !vc14bpSameList(conf.BlockedASN, want.BlockedASN, eqASN) {
		add("BlockedASN %v, want %v", conf.BlockedASN, want.BlockedASN)
	}

	if !slices.Equal(conf.BlocklistDomainRules, want.Rules) && !(len(conf.BlocklistDomainRules) == 0 && len(want.Rules) == 0) {
		add("BlocklistDomainRules %q, want %q", conf.BlocklistDomainRules, want.Rules)
	}

	if pr.Light {
		return diffs
	}

	neutral := netip.AddrPortFrom(netip.MustParseAddr("8.8.4.4"), 5353)
	plain := vc14bpQ("free.example.", dns.TypeA)
	for _, ip := range vc14bpProbeIPs {
		for _, asn := range vc14bpProbeASNs {
			var loc *geoip.Location
			if asn >= 0 {
				loc = &geoip.Location{ASN: geoip.ASN(asn)}
			}

			g := got.IsBlocked(plain, netip.AddrPortFrom(ip, 12345), loc)
			if m := want.blocked(ip, asn, "free.example.", dns.TypeA); g != m {
				add("IsBlocked(ip %v, asn %d) = %t, the settings say %t", ip, asn, g, m)
			}
		}
	}

	for _, name := range vc14bpProbeNames {
		for _, qt := range []uint16{dns.TypeA, dns.TypeAAAA} {
			g := got.IsBlocked(vc14bpQ(name, qt), neutral, nil)
			if m := want.blocked(neutral.Addr(), -1, name, qt); g != m {
				add("IsBlocked(%s %s) = %t, the settings say %t", name, dns.TypeToString[qt], g, m)
			}
		}
	}

	return diffs
}

func vc14bpDiffRL(spec *vc14bpProf, got agd.Ratelimiter, pr *vc14bpProbe) (diffs []string) {
	add := func(f string, a ...any) {
		diffs = append(diffs, fmt.Sprintf("profile %q: ratelimiter: ", spec.ID)+fmt.Sprintf(f, a...))
	}
	if got == nil {
		add("nil")

		return diffs
	}

	ctx := context.Background()
	req := vc14bpQ("free.example.", dns.TypeA)
	conf := got.Config()
	if conf == nil {
		add("nil Config()")

		return diffs
	}

	// "If x is nil [or not enabled], toInternal returns agd.GlobalRatelimiter."
	if spec.RL == nil || !spec.RL.Enabled {
		if conf.Enabled || conf.RPS != 0 || len(conf.ClientSubnets) != 0 {
			add("config %+v, want the global (disabled) one", *conf)
		}

		for _, ip := range vc14bpProbeIPs[:3] {
			if res := got.Check(ctx, req, ip); res != agd.RatelimitResultUseGlobal {
				add("Check(%v) = %d, want use-global", ip, res)
			}
		}

		return diffs
	}

	subnets := vc14bpGoodCIDRs(spec.RL.Subnets)
	if !conf.Enabled || conf.RPS != spec.RL.RPS ||
		!vc14bpSameList(conf.ClientSubnets, subnets, func(a, b netip.Prefix) bool { return a == b }) {
		add("config %+v, want enabled rps=%d subnets=%v", *conf, spec.RL.RPS, subnets)
	}

	var inside, outside netip.Addr
	for _, ip := range vc14bpProbeIPs {
		// "If empty, the custom limit is applied to all clients."
		in := len(subnets) == 0 || vc14bpInAny(spec.RL.Subnets, ip)
		if in && !inside.IsValid() {
			inside = ip
		} else if !in && !outside.IsValid() {
			outside = ip
		}
	}

	if outside.IsValid() {
		if res := got.Check(ctx, req, outside); res != agd.RatelimitResultUseGlobal {
			add("Check(%v outside the client subnets) = %d, want use-global", outside, res)
		}
	}

	if !inside.IsValid() || len(diffs) > 0 || pr.NoRLBehaviour {
		return diffs
	}

	if spec.RL.RPS > 5 {
		if res := got.Check(ctx, req, inside); res != agd.RatelimitResultPass {
			add("first Check(%v) = %d, want pass", inside, res)
		}

		return diffs
	}

	// Small limits: the response-size estimate and the limit are observed
	// through behaviour.  A response spanning k estimates counts as k requests;
	// then exactly rps-k further requests pass (that part does not depend on
	// timing: the counter's ring is not full yet) and the next one is dropped
	// if everything happened within the one-second window.
	resp := vc14bpResp(pr.RespUnits * int(pr.Est))
	k := resp.Len() / int(pr.Est)
	start := time.Now()
	startWall := start.UnixNano()
	got.CountResponses(ctx, resp, inside)
	for i := k; i < int(spec.RL.RPS); i++ {
		if res := got.Check(ctx, req, inside); res != agd.RatelimitResultPass {
			add("after a response of %d octets (estimate %d): request %d of rps %d = %d, want pass", resp.Len(), pr.Est, i+1, spec.RL.RPS, res)

			return diffs
		}
	}

	res := got.Check(ctx, req, inside)
	el, wallEl := time.Since(start), time.Duration(time.Now().UnixNano()-startWall)
	if el > 500*time.Millisecond || wallEl > 500*time.Millisecond || wallEl < 0 {
		// The limiter reads the wall clock; no verdict from a slow or
		// clock-stepped probe.
		pr.Slow++
	} else if res != agd.RatelimitResultDrop {
		add("after a response of %d octets (estimate %d) and %d requests at rps %d: next = %d, want drop", resp.Len(), pr.Est,
			max(0, int(spec.RL.RPS)-k), spec.RL.RPS, res)
	}

	return diffs
}

// contains is the harness's own reading of a schedule: the instant, in the
// schedule's time zone, falls on a weekday with a range and its distance from
// that day's midnight lies between the first minute and the end of the last
// minute of the range.
func (s *vc14bpSched) contains(ts time.Time) bool {
	loc, err := time.LoadLocation(s.TZ)
	if err != nil {
		panic(fmt.Errorf("harness: zone %q: %w", s.TZ, err))
	}

	lt := ts.In(loc)
	d := s.Days[lt.Weekday()]
	if d == nil {
		return false
	}

	el := lt.Sub(time.Date(lt.Year(), lt.Month(), lt.Day(), 0, 0, 0, 0, loc))

	return el >= time.Duration(d.Start)*time.Minute && el < time.Duration(d.End+1)*time.Minute
}

func vc14bpDiffSched(spec *vc14bpProf, want *vc14bpSched, got *filter.ConfigSchedule, pr *vc14bpProbe) (diffs []string) {
	add := func(f string, a ...any) {
		diffs = append(diffs, fmt.Sprintf("profile %q: pause schedule: ", spec.ID)+fmt.Sprintf(f, a...))
	}
	if (got == nil) != (want == nil) {
		add("present=%t, want %t", got != nil, want != nil)

		return diffs
	} else if got == nil {
		return nil
	}

	if got.Week == nil || got.TimeZone == nil {
		add("nil week or time zone: %+v", got)

		return diffs
	}

	wantZone := want.TZ
	if wantZone == "" {
		wantZone = "UTC"
	}

	if g := got.TimeZone.String(); g != wantZone {
		add("time zone %q, want %q", g, wantZone)
	}

	for i, d := range want.Days {
		// A nil interval and a zero-length one mean the same.  The protocol's
		// last minute is included, filter.DayInterval's End is not.
		var w, g filter.DayInterval
		if d != nil {
			w = filter.DayInterval{Start: uint16(d.Start), End: uint16(d.End + 1)}
		}

		if got.Week[i] != nil {
			g = *got.Week[i]
		}

		if g != w && !(g.Start == g.End && w.Start == w.End) {
			add("%s %+v, want %+v", time.Weekday(i), g, w)
		}
	}

	times := slices.Clone(pr.Times)
	if loc, err := time.LoadLocation(want.TZ); err == nil {
		// The edges of every range, on a week without clock changes (7 July
		// 2024 is a Sunday).
		for i, d := range want.Days {
			if d == nil {
				continue
			}

			day := time.Date(2024, 7, 7+i, 0, 0, 0, 0, loc)
			times = append(times,
				day.Add(time.Duration(d.Start)*time.Minute),
				day.Add(time.Duration(d.Start)*time.Minute-time.Second),
				day.Add(time.Duration(d.End)*time.Minute+59*time.Second),
				day.Add(time.Duration(d.End+1)*time.Minute),
			)
		}
	}

	for _, ts := range times {
		if g, w := got.Contains(ts), want.contains(ts); g != w {
			add("Contains(%v) = %t, the ranges say %t", ts.In(&got.TimeZone.Location), g, w)
		}
	}

	return diffs
}

// vc14bpDiffDevice lists the differences between what the valid spec means and
// got.
func vc14bpDiffDevice(spec *vc14bpDev, got *agd.Device, pr *vc14bpProbe) (diffs []string) {
	add := func(f string, a ...any) {
		diffs = append(diffs, fmt.Sprintf("device %q: ", spec.ID)+fmt.Sprintf(f, a...))
	}
	if got == nil {
		add("nil device")

		return diffs
	}

	if string(got.ID) != spec.ID {
		add("ID %q", got.ID)
	}

	if got.LinkedIP != spec.Linked {
		add("LinkedIP %v, want %v", got.LinkedIP, spec.Linked)
	}

	if string(got.Name) != spec.Name {
		add("Name %.40q, want %.40q", got.Name, spec.Name)
	}

	if string(got.HumanIDLower) != spec.Human {
		add("HumanIDLower %q, want %q", got.HumanIDLower, spec.Human)
	}

	if !vc14bpSameList(got.DedicatedIPs, spec.Ded, func(a netip.Addr, b vc14bpDed) bool { return a == b.IP }) {
		add("DedicatedIPs %v, want %v", got.DedicatedIPs, spec.Ded)
	}

	if got.FilteringEnabled != spec.Filtering {
		add("FilteringEnabled %t, want %t", got.FilteringEnabled, spec.Filtering)
	}

	a := got.Auth
	if a == nil {
		add("nil Auth (\"It's never nil\")")

		return diffs
	}

	// "If x is nil, toInternal returns non-nil settings with enabled field set
	// to false."
	if a.Enabled != (spec.Auth != "absent") || a.DoHAuthOnly != spec.DoHOnly {
		add("Auth {Enabled:%t DoHAuthOnly:%t}, want {%t %t}", a.Enabled, a.DoHAuthOnly, spec.Auth != "absent", spec.DoHOnly)
	}

	if a.PasswordHash == nil {
		add("nil Auth.PasswordHash (\"It is never nil\"; auth %s)", spec.Auth)

		return diffs
	}

	ctx := context.Background()
	switch spec.Auth {
	case "absent", "nohash":
		for _, pw := range []string{"", "anything"} {
			if !a.PasswordHash.Authenticate(ctx, []byte(pw)) {
				add("auth %s: Authenticate(%q) = false, want true (no password is set)", spec.Auth, pw)
			}
		}
	default:
		var want []byte
		switch spec.Auth {
		case "bcrypt":
			want = vc14bpHash(spec.Passwd)
		case "badhash":
			want = []byte("test")
		}

		h, ok := a.PasswordHash.(*agdpasswd.PasswordHashBcrypt)
		if !ok {
			add("auth %s: PasswordHash is %T, want a bcrypt hash", spec.Auth, a.PasswordHash)
		} else if string(h.PasswordHash()) != string(want) {
			add("auth %s: hash %q, want %q", spec.Auth, h.PasswordHash(), want)
		}

		if !pr.Bcrypt {
			break
		}

		right := spec.Passwd
		wrong := (spec.Passwd + 1) % len(vc14bpPasswds)
		if g, w := a.PasswordHash.Authenticate(ctx, []byte(vc14bpPasswds[right])), spec.Auth == "bcrypt"; g != w {
			add("auth %s: Authenticate(right password) = %t, want %t", spec.Auth, g, w)
		}

		if a.PasswordHash.Authenticate(ctx, []byte(vc14bpPasswds[wrong])) {
			add("auth %s: Authenticate(wrong password) = true", spec.Auth)
		}
	}

	return diffs
}

// vc14bpDiffDevices compares the devices a valid profile must yield (its valid
// ones, in order) with got.
func vc14bpDiffDevices(spec *vc14bpProf, got []*agd.Device, pr *vc14bpProbe) (diffs []string) {
	want := spec.validDevs()
	if len(got) != len(want) {
		var ids []string
		for _, d := range got {
			if d != nil {
				ids = append(ids, string(d.ID))
			}
		}

		var wids []string
		for _, d := range want {
			wids = append(wids, d.ID)
		}

		return []string{fmt.Sprintf("profile %q: %d devices %q, want the %d valid ones %q", spec.ID, len(got), ids, len(want), wids)}
	}

	for i, d := range want {
		diffs = append(diffs, vc14bpDiffDevice(d, got[i], pr)...)
	}

	return diffs
}
