//go:build verif

package cmd

// C14, configuration plumbing: a generated `backend:` section -- five
// different durations -- with ratelimit.response_size_estimate and the profile
// environment (PROFILES_URL, PROFILES_API_KEY, PROFILES_CACHE_PATH,
// PROFILES_MAX_RESP_SIZE, next to a BILLSTAT_URL / BILLSTAT_API_KEY that must
// not be confused with them) is parsed and validated by the package's own code
// (parseConfig, parseEnvironment) and taken through the builder's own steps
// (initGRPCMetrics, initBillStat, initProfileDB) against two loopback gRPC
// stand-ins that record what reaches them.
//
// (a) Fidelity, read back from the built objects and judged by the
// documentation of the keys and variables: full-synchronisation interval and
// retry interval of the database, its cache file and size estimate, the API
// key, size estimate and maximum response size of its backend client, the
// refresh worker's start jitter (a tenth of refresh_interval) and switches.
//
// (b) Behaviour: the initial synchronisation reaches the PROFILES_URL stand-in
// (and nothing else) with the profiles key and a deadline of backend.timeout,
// measured at the stand-in between two clock readings; the cache file appears
// at PROFILES_CACHE_PATH (or nowhere for `none`); the context the refresh
// worker gives every later synchronisation expires backend.timeout after it is
// made.  `timeout: 0s` (documented to disable the timeout) is only exercised in
// a separate probe that judges nothing and records what it sees.

import (
	"context"
	"fmt"
	"net"
	"net/netip"
	"os"
	"path/filepath"
	"reflect"
	"sort"
	"strings"
	"sync"
	"testing"
	"time"
	"unsafe"

	"github.com/AdguardTeam/AdGuardDNS/internal/agdcache"
	"github.com/AdguardTeam/AdGuardDNS/internal/agdtest"
	"github.com/AdguardTeam/AdGuardDNS/internal/backendpb"
	"github.com/AdguardTeam/AdGuardDNS/internal/debugsvc"
	"github.com/AdguardTeam/AdGuardDNS/internal/dnsmsg"
	"github.com/AdguardTeam/AdGuardDNS/internal/metrics"
	"github.com/AdguardTeam/AdGuardDNS/internal/profiledb"
	"github.com/AdguardTeam/golibs/logutil/slogutil"
	"github.com/AdguardTeam/golibs/netutil"
	"github.com/AdguardTeam/golibs/service"
	"github.com/prometheus/client_golang/prometheus"
	"google.golang.org/grpc"
	"google.golang.org/grpc/credentials/insecure"
	"google.golang.org/grpc/metadata"
	"google.golang.org/protobuf/types/known/emptypb"
	"pgregory.net/rapid"
	"verif.local/harness/vpeek"
	"verif.local/harness/vstat"
)

// vc14cmdSettings are the values written into the YAML text and the environment.
type vc14cmdSettings struct {
	Timeout, RefreshIvl, FullIvl, FullRetryIvl, BillStatIvl time.Duration
	SizeEstimate                                            string
	sizeEstimateBytes                                       uint64

	ProfilesURL, BillStatURL string
	ProfilesKey, BillStatKey string
	CachePath                string
	MaxRespSize              string
	maxRespSizeBytes         uint64
	ProfilesEnabled          bool

	// ZeroProbe marks the separate, unjudged probe with backend.timeout 0s.
	ZeroProbe bool
}

func (s *vc14cmdSettings) yaml() string {
	return fmt.Sprintf(`ratelimit:
    refuseany: true
    response_size_estimate: %s
    backoff_period: 10m
    backoff_duration: 30m
    backoff_count: 1000
    ipv4:
        count: 300
        interval: 10s
        subnet_key_len: 24
    ipv6:
        count: 301
        interval: 11s
        subnet_key_len: 48
    allowlist:
        list: []
        refresh_interval: 30s
        type: 'consul'
    connection_limit:
        enabled: false
        stop: 1000
        resume: 800
    quic:
        enabled: true
        max_streams_per_peer: 77
    tcp:
        enabled: true
        max_pipeline_count: 55
backend:
    timeout: %s
    refresh_interval: %s
    full_refresh_interval: %s
    full_refresh_retry_interval: %s
    bill_stat_interval: %s
`, s.SizeEstimate, s.Timeout, s.RefreshIvl, s.FullIvl, s.FullRetryIvl, s.BillStatIvl)
}

// env is the environment as doc/environment.md names it.
func (s *vc14cmdSettings) env() map[string]string {
	return map[string]string{
		"FILTER_INDEX_URL":       "http://127.0.0.1:9/filters.json",
		"PROFILES_URL":           s.ProfilesURL,
		"BILLSTAT_URL":           s.BillStatURL,
		"PROFILES_API_KEY":       s.ProfilesKey,
		"BILLSTAT_API_KEY":       s.BillStatKey,
		"PROFILES_CACHE_PATH":    s.CachePath,
		"PROFILES_MAX_RESP_SIZE": s.MaxRespSize,

		// The filters are not this check's subject.
		"ADULT_BLOCKING_ENABLED":      "0",
		"NEW_REG_DOMAINS_ENABLED":     "0",
		"SAFE_BROWSING_ENABLED":       "0",
		"BLOCKED_SERVICE_ENABLED":     "0",
		"GENERAL_SAFE_SEARCH_ENABLED": "0",
		"YOUTUBE_SAFE_SEARCH_ENABLED": "0",
	}
}

var vc14cmdEnvNames = []string{
	"ADULT_BLOCKING_URL", "BACKEND_RATELIMIT_URL", "BILLSTAT_URL", "BLOCKED_SERVICE_INDEX_URL", "CONSUL_ALLOWLIST_URL", "CONSUL_DNSCHECK_KV_URL",
	"CONSUL_DNSCHECK_SESSION_URL", "DNSCHECK_REMOTEKV_URL", "FILTER_INDEX_URL", "GENERAL_SAFE_SEARCH_URL", "LINKED_IP_TARGET_URL", "NEW_REG_DOMAINS_URL",
	"PROFILES_URL", "RULESTAT_URL", "SAFE_BROWSING_URL", "YOUTUBE_SAFE_SEARCH_URL", "BACKEND_RATELIMIT_API_KEY", "BILLSTAT_API_KEY", "CONFIG_PATH",
	"DNSCHECK_REMOTEKV_API_KEY", "FILTER_CACHE_PATH", "GEOIP_ASN_PATH", "GEOIP_COUNTRY_PATH", "PROFILES_API_KEY", "PROFILES_CACHE_PATH", "REDIS_ADDR",
	"REDIS_KEY_PREFIX", "QUERYLOG_PATH", "SSL_KEY_LOG_FILE", "SENTRY_DSN", "WEB_STATIC_DIR", "LISTEN_ADDR", "PROFILES_MAX_RESP_SIZE", "REDIS_IDLE_TIMEOUT",
	"DNSCHECK_CACHE_KV_SIZE", "REDIS_MAX_ACTIVE", "REDIS_MAX_IDLE", "LISTEN_PORT", "REDIS_PORT", "VERBOSE", "ADULT_BLOCKING_ENABLED", "LOG_TIMESTAMP",
	"NEW_REG_DOMAINS_ENABLED", "SAFE_BROWSING_ENABLED", "BLOCKED_SERVICE_ENABLED", "GENERAL_SAFE_SEARCH_ENABLED", "YOUTUBE_SAFE_SEARCH_ENABLED",
	"WEB_STATIC_DIR_ENABLED",
}

// vc14cmdWithEnv runs f with exactly the variables of set in the process
// environment and restores the environment afterwards.
func vc14cmdWithEnv(set map[string]string, f func()) {
	old := map[string]*string{}
	for _, n := range vc14cmdEnvNames {
		if v, ok := os.LookupEnv(n); ok {
			old[n] = &v
		} else {
			old[n] = nil
		}

		if v, ok := set[n]; ok {
			_ = os.Setenv(n, v)
		} else {
			_ = os.Unsetenv(n)
		}
	}

	defer func() {
		for n, v := range old {
			if v == nil {
				_ = os.Unsetenv(n)
			} else {
				_ = os.Setenv(n, *v)
			}
		}
	}()

	f()
}

// vc14cmdCall is one RPC as a stand-in backend saw it.
type vc14cmdCall struct {
	Auth        []string
	HasDeadline bool
	Remaining   time.Duration
	Devices     []string
}

// vc14cmdBackend is a loopback stand-in for the backend's DNS service.
type vc14cmdBackend struct {
	backendpb.UnimplementedDNSServiceServer

	name string
	url  string

	mu       sync.Mutex
	profiles []vc14cmdCall
	bills    []vc14cmdCall
}

func vc14cmdNewCall(ctx context.Context) (c vc14cmdCall) {
	md, _ := metadata.FromIncomingContext(ctx)
	c.Auth = md.Get("authorization")
	dl, ok := ctx.Deadline()
	c.HasDeadline = ok
	if ok {
		c.Remaining = time.Until(dl)
	}

	return c
}

func (b *vc14cmdBackend) GetDNSProfiles(_ *backendpb.DNSProfilesRequest, srv grpc.ServerStreamingServer[backendpb.DNSProfile]) (err error) {
	c := vc14cmdNewCall(srv.Context())
	b.mu.Lock()
	b.profiles = append(b.profiles, c)
	b.mu.Unlock()
	srv.SetTrailer(metadata.MD{"sync_time": []string{"1700000000000"}})

	return nil
}

func (b *vc14cmdBackend) SaveDevicesBillingStat(srv grpc.ClientStreamingServer[backendpb.DeviceBillingStat, emptypb.Empty]) (err error) {
	c := vc14cmdNewCall(srv.Context())
	for {
		rec, rerr := srv.Recv()
		if rerr != nil {
			break
		}

		c.Devices = append(c.Devices, rec.GetDeviceId())
	}

	sort.Strings(c.Devices)
	b.mu.Lock()
	b.bills = append(b.bills, c)
	b.mu.Unlock()

	return srv.SendAndClose(&emptypb.Empty{})
}

func (b *vc14cmdBackend) take() (profiles, bills []vc14cmdCall) {
	b.mu.Lock()
	defer b.mu.Unlock()

	profiles, bills = b.profiles, b.bills
	b.profiles, b.bills = nil, nil

	return profiles, bills
}

func vc14cmdStartBackend(tb testing.TB, name string) (b *vc14cmdBackend) {
	ln, err := net.Listen("tcp", "127.0.0.1:0")
	if err != nil {
		tb.Fatalf("fixture: listening on loopback: %v", err)
	}

	b = &vc14cmdBackend{name: name, url: "grpc://" + ln.Addr().String()}
	srv := grpc.NewServer(grpc.Creds(insecure.NewCredentials()))
	backendpb.RegisterDNSServiceServer(srv, b)
	go func() { _ = srv.Serve(ln) }()
	tb.Cleanup(srv.Stop)

	return b
}

// vc14cmdNotifier keeps the signal handler of a case away from the process's
// signals.
type vc14cmdNotifier struct{}

func (vc14cmdNotifier) Notify(chan<- os.Signal, ...os.Signal) {}
func (vc14cmdNotifier) Stop(chan<- os.Signal)                 {}

var (
	vc14cmdDurations = []time.Duration{20 * time.Second, 45 * time.Second, 70 * time.Second, 95 * time.Second, 2 * time.Minute, 150 * time.Second, 3 * time.Minute, 10 * time.Minute, time.Hour, 24 * time.Hour}
	vc14cmdSizes     = map[string]uint64{"512B": 512, "1KB": 1 << 10, "777B": 777, "2KB": 2 << 10, "8MB": 8 << 20, "16MB": 16 << 20, "64MB": 64 << 20, "33MB": 33 << 20}
)

// vc14cmdDraw draws the settings of one case.
func vc14cmdDraw(rt *rapid.T, profilesBackend, billStatBackend *vc14cmdBackend, dir string, caseNo int) (s *vc14cmdSettings) {
	d := rapid.Permutation(vc14cmdDurations).Draw(rt, "durations")
	s = &vc14cmdSettings{
		Timeout: d[0], RefreshIvl: d[1], FullIvl: d[2], FullRetryIvl: d[3], BillStatIvl: d[4],
		SizeEstimate:    rapid.SampledFrom([]string{"512B", "1KB", "777B", "2KB"}).Draw(rt, "sizeEstimate"),
		MaxRespSize:     rapid.SampledFrom([]string{"8MB", "16MB", "64MB", "33MB"}).Draw(rt, "maxRespSize"),
		ProfilesURL:     profilesBackend.url,
		BillStatURL:     billStatBackend.url,
		ProfilesEnabled: rapid.IntRange(0, 7).Draw(rt, "profilesEnabled") != 0,
	}
	if s.Timeout > 3*time.Minute {
		// Keep the timeout among the values that a deadline seen by the
		// backend can tell apart.
		s.Timeout = 35 * time.Second
	}

	if rapid.IntRange(0, 9).Draw(rt, "timeoutZeroProbe") == 0 {
		// "Set to `0s` to disable timeouts."  What the code does with it is
		// only recorded (a separate probe in which nothing is judged): it does
		// not bear on the property.
		s.Timeout, s.ZeroProbe, s.ProfilesEnabled = 0, true, true
	}

	s.sizeEstimateBytes, s.maxRespSizeBytes = vc14cmdSizes[s.SizeEstimate], vc14cmdSizes[s.MaxRespSize]
	keys := rapid.Permutation([]string{"key-alpha", "key-bravo", "key-charlie"}).Draw(rt, "apiKeys")
	s.ProfilesKey, s.BillStatKey = keys[0], keys[1]
	s.CachePath = filepath.Join(dir, fmt.Sprintf("profilecache%d.pb", caseNo))
	if rapid.IntRange(0, 3).Draw(rt, "noCacheFile") == 0 {
		// "If set to `none`, the profile caching is disabled."
		s.CachePath = "none"
	}

	return s
}

// vc14cmdWorker is a refresh worker the builder registered with its signal
// handler.
type vc14cmdWorker struct {
	svc            service.Interface
	refr           any
	context        func() (context.Context, context.CancelFunc)
	maxStartSleep  time.Duration
	refrOnShutdown bool
	stopped        bool

	// period is the period of the worker's ticker, if it could be read.
	period   time.Duration
	periodOK bool
}

var (
	vc14cmdTickerOnce sync.Once
	vc14cmdTickerOff  uintptr
	vc14cmdTickerOK   bool
)

// vc14cmdTickerPeriod reads the period of a ticker out of the runtime timer that
// lies behind it.  The offset is found, and the whole approach validated, on
// two tickers of known periods; if that fails, ok is false and nothing is
// judged.
func vc14cmdTickerPeriod(tk *time.Ticker) (d time.Duration, ok bool) {
	vc14cmdTickerOnce.Do(func() {
		const pa, pb = 12345 * time.Second, 777 * time.Hour
		a, b := time.NewTicker(pa), time.NewTicker(pb)
		defer a.Stop()
		defer b.Stop()

		for off := uintptr(16); off <= 88; off += 8 {
			va := *(*int64)(unsafe.Add(unsafe.Pointer(a), off))
			vb := *(*int64)(unsafe.Add(unsafe.Pointer(b), off))
			if va == int64(pa) && vb == int64(pb) {
				vc14cmdTickerOff, vc14cmdTickerOK = off, true

				return
			}
		}
	})

	if !vc14cmdTickerOK || tk == nil {
		return 0, false
	}

	return time.Duration(*(*int64)(unsafe.Add(unsafe.Pointer(tk), vc14cmdTickerOff))), true
}

// stop shuts the worker down once.
func (w *vc14cmdWorker) stop(ctx context.Context) (err error) {
	if w.stopped {
		return nil
	}

	w.stopped = true

	return w.svc.Shutdown(ctx)
}

// vc14cmdBuilt is what the builder's own steps made of one case.
type vc14cmdBuilt struct {
	conf    *configuration
	envs    *environment
	b       *builder
	workers []*vc14cmdWorker
	// t0 and t1 enclose the builder steps.
	t0, t1 time.Time
}

// shutdown stops the workers and closes what the case opened.
func (bt *vc14cmdBuilt) shutdown(ctx context.Context) {
	for _, w := range bt.workers {
		_ = w.stop(ctx)
	}
}

func vc14cmdInconclusive(t *testing.T, format string, args ...any) {
	msg := fmt.Sprintf(format, args...)
	fmt.Printf("VERIF-INCONCLUSIVE: %s\n", msg)
	t.Logf("VERIF-INCONCLUSIVE: %s", msg)
	t.FailNow()
}

// vc14cmdBuild parses the environment and the configuration with the package's own
// code and runs the builder's own backend steps (initGRPCMetrics,
// initBillStat, initProfileDB) against the loopback stand-ins.
func vc14cmdBuild(t *testing.T, rt *rapid.T, s *vc14cmdSettings, path string) (bt *vc14cmdBuilt, text string) {
	text = s.yaml()
	if err := os.WriteFile(path, []byte(text), 0o600); err != nil {
		rt.Fatalf("harness: %v", err)
	}

	conf, err := parseConfig(path)
	if err != nil {
		rt.Fatalf("the generated configuration was not parsed: %v\n%s", err, text)
	}

	for name, v := range map[string]validator{"ratelimit": conf.RateLimit, "backend": conf.Backend} {
		if verr := v.validate(); verr != nil {
			rt.Fatalf("a valid %s section was rejected: %v\n%s", name, verr, text)
		}
	}

	var envs *environment
	vc14cmdWithEnv(s.env(), func() { envs, err = parseEnvironment() })
	if err != nil {
		rt.Fatalf("a valid environment was rejected: %v\n%v", err, s.env())
	}

	if err = envs.validate(); err != nil {
		rt.Fatalf("a valid environment was rejected: %v\n%v", err, s.env())
	}

	if s.ProfilesEnabled {
		// What validateFromValidConfig checks when profiles are enabled.
		if errs := envs.validateProfilesURLs(nil); len(errs) > 0 {
			rt.Fatalf("a valid environment was rejected: %v\n%v", errs, s.env())
		}
	}

	logger := slogutil.NewDiscardLogger()
	errColl := agdtest.NewErrorCollector()
	errColl.OnCollect = func(context.Context, error) {}
	b := &builder{
		baseLogger:     logger,
		cacheManager:   agdcache.NewDefaultManager(),
		cloner:         dnsmsg.NewCloner(metrics.ClonerStat{}),
		conf:           conf,
		env:            envs,
		errColl:        errColl,
		logger:         logger,
		mtrcNamespace:  metrics.Namespace(),
		promRegisterer: prometheus.NewRegistry(),
		debugRefrs:     debugsvc.Refreshers{},
		sigHdlr: service.NewSignalHandler(&service.SignalHandlerConfig{
			SignalNotifier:  vc14cmdNotifier{},
			Logger:          logger,
			ShutdownTimeout: shutdownTimeout,
		}),
		// As builder.setServerGroupProperties leaves them for single-address
		// servers.
		profilesEnabled: s.ProfilesEnabled,
		bindSet:         netutil.SubnetSetFunc(netip.Addr.IsValid),
	}

	bt = &vc14cmdBuilt{conf: conf, envs: envs, b: b}
	ctx := context.Background()
	step := func(name string, f func() error) {
		defer func() {
			if v := recover(); v != nil {
				bt.collect(t)
				bt.shutdown(ctx)
				rt.Fatalf("%s panicked on a valid configuration: %v\n%s%v", name, v, text, s.env())
			}
		}()

		if serr := f(); serr != nil {
			bt.collect(t)
			bt.shutdown(ctx)
			rt.Fatalf("%s failed on a valid configuration: %v\n%s%v", name, serr, text, s.env())
		}
	}

	bt.t0 = time.Now()
	if s.ProfilesEnabled {
		step("builder.initGRPCMetrics", func() error { return b.initGRPCMetrics(ctx) })
	}

	step("builder.initBillStat", func() error { return b.initBillStat(ctx) })
	step("builder.initProfileDB", func() error { return b.initProfileDB(ctx) })
	bt.t1 = time.Now()
	bt.collect(t)

	return bt, text
}

// collect reads the refresh workers out of the builder's signal handler.
func (bt *vc14cmdBuilt) collect(t *testing.T) {
	bt.workers = nil
	svcs, err := vpeek.Get(bt.b.sigHdlr, "services")
	if err != nil {
		vc14cmdInconclusive(t, "the signal handler cannot be read: %v", err)
	}

	for i := range svcs.Len() {
		svc, _ := vpeek.Open(svcs.Index(i)).Interface().(service.Interface)
		w := &vc14cmdWorker{svc: svc}
		refr, e1 := vpeek.Get(svc, "refr")
		cons, e2 := vpeek.Get(svc, "context")
		sleep, e3 := vpeek.Get(svc, "maxStartSleep")
		onShutdown, e4 := vpeek.Get(svc, "refrOnShutdown")
		if e1 != nil || e2 != nil || e3 != nil || e4 != nil {
			vc14cmdInconclusive(t, "a refresh worker cannot be read: %v %v %v %v", e1, e2, e3, e4)
		}

		w.refr = refr.Interface()
		w.context, _ = cons.Interface().(func() (context.Context, context.CancelFunc))
		w.maxStartSleep = time.Duration(sleep.Int())
		w.refrOnShutdown = onShutdown.Bool()
		if tick, terr := vpeek.Get(svc, "tick"); terr == nil {
			tk, _ := tick.Interface().(*time.Ticker)
			w.period, w.periodOK = vc14cmdTickerPeriod(tk)
		}

		bt.workers = append(bt.workers, w)
	}
}

// worker returns the worker that refreshes refr.
func (bt *vc14cmdBuilt) worker(refr any) (w *vc14cmdWorker) {
	for _, c := range bt.workers {
		if c.refr == refr {
			return c
		}
	}

	return nil
}

// vc14cmdObsTimeoutZero: doc/configuration.md says of backend.timeout "Set to `0s`
// to disable timeouts"; the builder passes the zero to context.WithTimeout.
// Recorded by a separate probe, never judged.
const vc14cmdObsTimeoutZero = "observation:backend-timeout-zero-expires-at-once"

func TestVerifC14CmdBackend(t *testing.T) {
	st := vstat.New("C14", "cmd.profiledb-config",
		"rapid: a `backend:` YAML section with five pairwise different durations, ratelimit.response_size_estimate, and the environment PROFILES_URL / BILLSTAT_URL (two loopback gRPC stand-ins), two different API keys, PROFILES_CACHE_PATH (a file or `none`), PROFILES_MAX_RESP_SIZE; profiles enabled or not -> parseConfig, parseEnvironment, validate, builder.initGRPCMetrics / initBillStat / initProfileDB; fidelity of the built profiledb.Default, its file cache, its backendpb.ProfileStorage and its refresh worker against the YAML / environment values; behaviour: which stand-in the initial synchronisation reached, with which key and deadline, the cache file, the deadline of the worker's contexts; non-trivial = profiles enabled (something was built and synchronised), distinct by settings",
		"profiles-enabled", "profiles-disabled", "initial-sync-reached-profiles-backend", "cache-file-written", "cache-file-disabled", "deadline-seen-by-backend-told-timeout-from-intervals")
	st.Finish(t)

	profilesBackend, billStatBackend := vc14cmdStartBackend(t, "profiles"), vc14cmdStartBackend(t, "billstat")
	dir := t.TempDir()
	caseNo := 0
	ctx := context.Background()
	const slack = 100 * time.Millisecond

	rapid.Check(t, func(rt *rapid.T) {
		caseNo++
		s := vc14cmdDraw(rt, profilesBackend, billStatBackend, dir, caseNo)
		path := filepath.Join(dir, fmt.Sprintf("c%d.yaml", caseNo))
		defer func() { _ = os.Remove(path) }()
		profilesBackend.take()
		billStatBackend.take()

		bt, text := vc14cmdBuild(t, rt, s, path)
		defer bt.shutdown(ctx)

		b := bt.b
		pProfiles, pBills := profilesBackend.take()
		bProfiles, bBills := billStatBackend.take()
		classes := map[string]bool{}
		fail := func(format string, args ...any) {
			rt.Fatalf("%s\n%s%v", fmt.Sprintf(format, args...), text, s.env())
		}

		if s.ZeroProbe {
			// Unjudged: what backend.timeout 0s leads to.
			obs := []string{"timeout-zero-probe"}
			expired := false
			if db, isDB := b.profileDB.(*profiledb.Default); isDB {
				if w := bt.worker(db); w != nil {
					wctx, cancel := w.context()
					expired = wctx.Err() != nil
					cancel()
				}
			}

			if len(pProfiles) == 0 || expired {
				obs = append(obs, vc14cmdObsTimeoutZero)
			}

			if s.CachePath != "none" {
				_ = os.Remove(s.CachePath)
			}

			st.Case("", obs...)

			return
		}

		if len(pBills)+len(bProfiles)+len(bBills) != 0 {
			fail("during start-up the PROFILES_URL backend got %d billing uploads, the BILLSTAT_URL backend %d profile requests and %d billing uploads; only profile requests to PROFILES_URL are due", len(pBills), len(bProfiles), len(bBills))
		}

		if !s.ProfilesEnabled {
			classes["profiles-disabled"] = true
			if _, ok := b.profileDB.(*profiledb.Disabled); !ok || len(pProfiles) != 0 || len(bt.workers) != 0 {
				fail("profiles are disabled for all server groups, but the builder made a %T, %d synchronisation requests and %d refresh workers", b.profileDB, len(pProfiles), len(bt.workers))
			}

			st.Case("", "profiles-disabled")

			return
		}

		classes["profiles-enabled"] = true
		db, ok := b.profileDB.(*profiledb.Default)
		if !ok {
			fail("profiles are enabled, but the builder made a %T", b.profileDB)
		}

		synced := false
		switch {
		case len(pProfiles) == 0:
			fail("the initial synchronisation never reached the PROFILES_URL backend")
		default:
			synced = true
			classes["initial-sync-reached-profiles-backend"] = true
			c := pProfiles[0]
			if len(c.Auth) != 1 || c.Auth[0] != "Bearer "+s.ProfilesKey {
				fail("the profile request carried the authorization %q; PROFILES_API_KEY is %q", c.Auth, s.ProfilesKey)
			}

			spent := bt.t1.Sub(bt.t0)
			switch {
			case !c.HasDeadline:
				fail("backend.timeout is %s, but the initial profile request arrived without a deadline", s.Timeout)
			case c.Remaining > s.Timeout+slack || c.Remaining < s.Timeout-spent-slack:
				fail("backend.timeout is %s and start-up took %s, but the initial profile request arrived with a deadline %s away", s.Timeout, spent, c.Remaining)
			default:
				classes["deadline-seen-by-backend-told-timeout-from-intervals"] = true
			}
		}

		// (a) Fidelity.
		var bad []string
		var perr error
		get := func(root any, path ...string) reflect.Value {
			v, err := vpeek.Get(root, path...)
			if err != nil && perr == nil {
				perr = err
			}

			return v
		}
		num := func(v reflect.Value) int64 {
			switch {
			case !v.IsValid():
				return -1
			case v.CanInt():
				return v.Int()
			case v.CanUint():
				return int64(v.Uint())
			}

			return -1
		}
		expect := func(what string, got, want any) {
			if got != want {
				bad = append(bad, fmt.Sprintf("%s: the configuration says %v, built with %v", what, want, got))
			}
		}

		// "How often AdGuard DNS performs a full profile refresh"
		expect("full-synchronisation interval (backend.full_refresh_interval)", time.Duration(num(get(db, "fullSyncIvl"))), s.FullIvl)
		// "How long to wait before attempting a new full profile
		// synchronization after a failure"
		expect("full-synchronisation retry interval (backend.full_refresh_retry_interval)", time.Duration(num(get(db, "fullSyncRetryIvl"))), s.FullRetryIvl)

		cache := get(db, "cache")
		if cache.IsValid() {
			cacheType := fmt.Sprintf("%T", cache.Interface())
			if s.CachePath == "none" {
				classes["cache-file-disabled"] = true
				if !strings.Contains(cacheType, "Empty") {
					bad = append(bad, fmt.Sprintf("file cache: PROFILES_CACHE_PATH is none, built with %s", cacheType))
				}
			} else {
				expect("file cache: path (PROFILES_CACHE_PATH)", get(db, "cache", "path").String(), s.CachePath)
				expect("file cache: response size estimate (ratelimit.response_size_estimate)", uint64(num(get(db, "cache", "respSzEst"))), s.sizeEstimateBytes)
			}
		}

		strg := get(db, "storage")
		if strg.IsValid() {
			if _, isPB := strg.Interface().(*backendpb.ProfileStorage); !isPB {
				bad = append(bad, fmt.Sprintf("storage: built with a %T", strg.Interface()))
			} else {
				expect("backend client: API key (PROFILES_API_KEY)", get(db, "storage", "apiKey").String(), s.ProfilesKey)
				expect("backend client: response size estimate (ratelimit.response_size_estimate)", uint64(num(get(db, "storage", "respSzEst"))), s.sizeEstimateBytes)
				expect("backend client: maximum response size (PROFILES_MAX_RESP_SIZE)", uint64(num(get(db, "storage", "maxProfSize"))), s.maxRespSizeBytes)
			}
		}

		w := bt.worker(db)
		if w == nil {
			fail("no refresh worker was registered for the profile database (%d workers)", len(bt.workers))
		}

		// "The duration of the sleep is a random duration of up to 10 % of
		// Interval"; "How often AdGuard DNS checks the backend for data
		// updates".
		expect("refresh worker: start jitter (a tenth of backend.refresh_interval)", w.maxStartSleep, s.RefreshIvl/10)
		expect("refresh worker: refreshes on shutdown", w.refrOnShutdown, false)
		if w.periodOK {
			classes["worker-period-read"] = true
			expect("refresh worker: period (backend.refresh_interval)", w.period, s.RefreshIvl)
		}

		if perr != nil {
			vc14cmdInconclusive(t, "the built profile database cannot be read: %v", perr)
		}

		if len(bad) > 0 {
			fail("conversion of the backend settings:\n  %s", strings.Join(bad, "\n  "))
		}

		// The context of every later synchronisation.
		t0 := time.Now()
		wctx, cancel := w.context()
		t1 := time.Now()
		dl, hasDL := wctx.Deadline()
		cancel()
		if !hasDL || dl.Before(t0.Add(s.Timeout)) || dl.After(t1.Add(s.Timeout)) {
			fail("backend.timeout is %s, but a context of the profile refresh worker made between %s and %s has the deadline %s (set: %t)", s.Timeout, t0.Format(time.RFC3339Nano), t1.Format(time.RFC3339Nano), dl.Format(time.RFC3339Nano), hasDL)
		}

		// "the profile cache is also saved after a full refresh"
		if synced {
			_, statErr := os.Stat(s.CachePath)
			switch {
			case s.CachePath == "none" && statErr == nil:
				fail("PROFILES_CACHE_PATH is none, but a file of that name was written")
			case s.CachePath == "none":
			case statErr != nil:
				fail("the initial full synchronisation succeeded but no cache file is at PROFILES_CACHE_PATH: %v", statErr)
			default:
				classes["cache-file-written"] = true
				_ = os.Remove(s.CachePath)
			}
		}

		var cl []string
		for c := range classes {
			cl = append(cl, c)
		}

		sort.Strings(cl)
		st.Case(text+fmt.Sprint(s.env()), cl...)
		if st.WantSample() {
			st.Sample(map[string]any{"yaml": strings.Split(text, "\n")[29:], "env": s.env(), "classes": cl})
		}
	})
}
