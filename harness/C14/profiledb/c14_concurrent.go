//go:build verif

package profiledb

// C14 (a'): lookups that run while synchronisations are in progress (sampled
// schedules, also under the race detector).  A lookup that overlaps syncs i..j
// must answer according to the data of one of the states i..j; at quiescence
// the answers are those of the last state.

import (
	"context"
	"fmt"
	"net/netip"
	"runtime"
	"slices"
	"sync"
	"sync/atomic"
	"testing"
	"time"

	"github.com/AdguardTeam/AdGuardDNS/internal/agd"
	"github.com/AdguardTeam/golibs/logutil/slogutil"
	"pgregory.net/rapid"
	"verif.local/harness/vstat"
)

// vc14Matches reports whether an observed lookup result is what state w allows.
func vc14Matches(w vc14Want, p *agd.Profile, d *agd.Device, err error) bool {
	if err != nil {
		return !w.Found || w.MayDeleted
	}

	if p == nil || d == nil || !w.Found {
		return false
	}

	gotPV := int(p.FilteredResponseTTL / time.Second)
	gotDV := 0
	_, _ = fmt.Sscanf(string(d.Name), "v%d", &gotDV)

	return p.ID == w.Prof && d.ID == w.Dev && gotPV == w.ProfVer && gotDV == w.DevVer && p.Deleted == w.MayDeleted
}

func TestVerifC14Concurrent(t *testing.T) {
	st := vstat.New("C14", "profiledb.concurrent",
		"rapid: a pre-drawn chain of backend states applied by one refresher goroutine (full and partial syncs) while 2-6 goroutines look keys up by all four methods; oracle: a lookup bracketed by syncs i..j matches the reference of one of the states i..j, final lookups match the last state; schedules are sampled; non-trivial = a lookup that overlapped at least one sync; distinct by (plan, overlap count)",
		"lookup-overlapped-sync")
	st.Finish(t)

	ctx := context.Background()
	rapid.Check(t, func(t *rapid.T) {
		// Build the chain of states with the same backend moves as the state
		// machine, drawn up front.
		be := vc14NewBackend()
		for i, pid := range vc14ProfIDs[:2] {
			be.Profs[pid].Exists = true
			be.touch(pid)
			d := vc14DevIDs[i]
			be.Devs[d] = &vc14Dev{Linked: vc14Linked[i], Ded: []netip.Addr{vc14Ded[i]}, Human: vc14HumanIDs[1]}
			be.Profs[pid].Devs = []agd.DeviceID{d}
			be.touchDev(d)
		}

		type syncStep struct {
			full  bool
			after *vc14Backend // backend right before this sync (deep copy, with Dirty)
		}

		nSync := rapid.IntRange(2, 8).Draw(t, "syncs")
		steps := []syncStep{{full: true, after: be.clone()}}
		steps[0].after.Dirty = map[agd.ProfileID]bool{}
		for i := 1; i < nSync; i++ {
			for m := rapid.IntRange(1, 4).Draw(t, "moves"); m > 0; m-- {
				ds := be.attachedDevs()
				switch rapid.IntRange(0, 4).Draw(t, "move") {
				case 0:
					d := rapid.SampledFrom(vc14DevIDs).Draw(t, "dev")
					pid := rapid.SampledFrom(vc14ProfIDs).Draw(t, "prof")
					if _, ok := be.ownerOf(d); ok || be.Profs[pid].Deleted {
						continue
					}

					be.Profs[pid].Exists = true
					be.Devs[d] = &vc14Dev{}
					be.Profs[pid].Devs = append(slices.Clone(be.Profs[pid].Devs), d)
					be.touchDev(d)
				case 1:
					if len(ds) == 0 {
						continue
					}

					d := rapid.SampledFrom(ds).Draw(t, "dev")
					be.detach(d)
					delete(be.Devs, d)
				case 2:
					if len(ds) == 0 {
						continue
					}

					d := rapid.SampledFrom(ds).Draw(t, "dev")
					ip := rapid.SampledFrom(append([]netip.Addr{{}}, vc14Linked...)).Draw(t, "ip")
					if ip.IsValid() {
						be.dropLinked(ip)
					}

					be.Devs[d].Linked = ip
					be.touchDev(d)
				case 3:
					if len(ds) == 0 {
						continue
					}

					d := rapid.SampledFrom(ds).Draw(t, "dev")
					ip := rapid.SampledFrom(vc14Ded).Draw(t, "ip")
					be.dropDed(ip)
					be.Devs[d].Ded = append(slices.Clone(be.Devs[d].Ded), ip)
					be.touchDev(d)
				case 4:
					if len(ds) == 0 {
						continue
					}

					d := rapid.SampledFrom(ds).Draw(t, "dev")
					pid := rapid.SampledFrom(vc14ProfIDs).Draw(t, "prof")
					if cur, _ := be.ownerOf(d); cur == pid || be.Profs[pid].Deleted {
						continue
					}

					be.Devs[d].Human = ""
					be.detach(d)
					be.Profs[pid].Exists = true
					be.Profs[pid].Devs = append(slices.Clone(be.Profs[pid].Devs), d)
					be.touchDev(d)
				}
			}

			snap := be.clone()
			snap.Dirty = map[agd.ProfileID]bool{}
			for k, v := range be.Dirty {
				snap.Dirty[k] = v
			}

			steps = append(steps, syncStep{full: rapid.IntRange(0, 3).Draw(t, "full") == 0, after: snap})
			be.Dirty = map[agd.ProfileID]bool{}
		}

		// known[i] = what the database knows after sync i.
		known := make([]*vc14Backend, len(steps))
		for i, s := range steps {
			if s.full || i == 0 {
				k := s.after.clone()
				known[i] = k

				continue
			}

			k := known[i-1].clone()
			for pid := range s.after.Dirty {
				cp := *s.after.Profs[pid]
				cp.Devs = slices.Clone(cp.Devs)
				k.Profs[pid] = &cp
				for _, d := range cp.Devs {
					cd := *s.after.Devs[d]
					cd.Ded = slices.Clone(cd.Ded)
					k.Devs[d] = &cd
				}
			}

			known[i] = k
		}

		stor := &vc14Storage{}
		db, err := New(&Config{
			Logger:           slogutil.NewDiscardLogger(),
			Storage:          stor,
			ErrColl:          vc14ErrColl{},
			Metrics:          EmptyMetrics{},
			CacheFilePath:    "none",
			FullSyncIvl:      time.Hour,
			FullSyncRetryIvl: time.Hour,
		})
		if err != nil {
			t.Fatalf("New: %v", err)
		}

		doSync := func(i int) error {
			s := steps[i]
			if s.full || i == 0 {
				db.lastFullSync = time.Time{}
			} else {
				db.lastFullSync = time.Now()
			}

			db.lastFullSyncError = time.Time{}
			stor.next = func(req *StorageProfilesRequest) (*StorageProfilesResponse, error) {
				resp := &StorageProfilesResponse{SyncTime: time.Unix(int64(1000+i), 0)}
				for _, pid := range vc14ProfIDs {
					bp := s.after.Profs[pid]
					if !bp.Exists {
						continue
					}

					if req.SyncTime.IsZero() {
						if bp.Deleted {
							continue
						}
					} else if !s.after.Dirty[pid] {
						continue
					}

					p, ds := s.after.records(pid)
					resp.Profiles = append(resp.Profiles, p)
					resp.Devices = append(resp.Devices, ds...)
				}

				return resp, nil
			}

			return db.Refresh(ctx)
		}

		if err = doSync(0); err != nil {
			t.Fatalf("first sync: %v", err)
		}

		var started, finished atomic.Int64 // index of the last sync started / finished
		var failMu sync.Mutex
		var failures []string
		overlapped := atomic.Int64{}
		stop := make(chan struct{})
		var wg sync.WaitGroup
		lookers := rapid.IntRange(2, 6).Draw(t, "lookers")
		for g := 0; g < lookers; g++ {
			wg.Add(1)
			go func(g int) {
				defer wg.Done()
				for it := 0; ; it++ {
					select {
					case <-stop:
						return
					default:
					}

					lo := finished.Load()
					var what string
					var p *agd.Profile
					var d *agd.Device
					var lerr error
					var want func(k *vc14Backend) vc14Want
					switch k := (it + g) % 4; k {
					case 0:
						id := vc14DevIDs[(it/4+g)%len(vc14DevIDs)]
						what = "device id " + string(id)
						p, d, lerr = db.ProfileByDeviceID(ctx, id)
						want = func(k *vc14Backend) vc14Want { return k.wantByDev(id) }
					case 1:
						ip := vc14Linked[(it/4+g)%len(vc14Linked)]
						what = "linked ip " + ip.String()
						p, d, lerr = db.ProfileByLinkedIP(ctx, ip)
						want = func(k *vc14Backend) vc14Want { return k.wantByLinked(ip) }
					case 2:
						ip := vc14Ded[(it/4+g)%len(vc14Ded)]
						what = "dedicated ip " + ip.String()
						p, d, lerr = db.ProfileByDedicatedIP(ctx, ip)
						want = func(k *vc14Backend) vc14Want { return k.wantByDed(ip) }
					default:
						pid := vc14ProfIDs[(it/4+g)%len(vc14ProfIDs)]
						what = "human id " + string(pid) + "/tv"
						p, d, lerr = db.ProfileByHumanID(ctx, pid, "tv")
						want = func(k *vc14Backend) vc14Want { return k.wantByHuman(pid, "tv") }
					}

					hi := started.Load()
					if hi > lo {
						overlapped.Add(1)
					}

					ok := false
					for i := lo; i <= hi && !ok; i++ {
						ok = vc14Matches(want(known[i]), p, d, lerr)
					}

					runtime.Gosched()
					if !ok {
						failMu.Lock()
						failures = append(failures, fmt.Sprintf("lookup by %s overlapping syncs %d..%d returned (%v, %v, %v), which matches none of those states", what, lo, hi, p, d, lerr))
						failMu.Unlock()

						return
					}
				}
			}(g)
		}

		for i := 1; i < len(steps); i++ {
			started.Store(int64(i))
			if err = doSync(i); err != nil {
				close(stop)
				wg.Wait()
				t.Fatalf("sync %d: %v", i, err)
			}

			finished.Store(int64(i))
			// let the lookers see this state for a moment
			time.Sleep(300 * time.Microsecond)
		}

		close(stop)
		wg.Wait()

		cls, nt := "", ""
		if n := overlapped.Load(); n > 0 {
			cls, nt = "lookup-overlapped-sync", fmt.Sprintf("%d syncs %d lookers %d overlaps", len(steps), lookers, n)
		}

		st.Case(nt, cls)
		if len(failures) > 0 {
			t.Fatalf("%d syncs, %d lookers: %s", len(steps), lookers, failures[0])
		}

		// Quiescence: clean-ups have had time; final answers are the last state's.
		time.Sleep(2 * time.Millisecond)
		last := known[len(known)-1]
		for _, id := range vc14DevIDs {
			p, d, lerr := db.ProfileByDeviceID(ctx, id)
			if !vc14Matches(last.wantByDev(id), p, d, lerr) {
				t.Fatalf("after quiescence: device id %s -> (%v, %v, %v), want %+v", id, p, d, lerr, last.wantByDev(id))
			}
		}

		for _, ip := range vc14Linked {
			p, d, lerr := db.ProfileByLinkedIP(ctx, ip)
			if !vc14Matches(last.wantByLinked(ip), p, d, lerr) {
				t.Fatalf("after quiescence: linked ip %s -> (%v, %v, %v), want %+v", ip, p, d, lerr, last.wantByLinked(ip))
			}
		}

		for _, ip := range vc14Ded {
			p, d, lerr := db.ProfileByDedicatedIP(ctx, ip)
			if !vc14Matches(last.wantByDed(ip), p, d, lerr) {
				t.Fatalf("after quiescence: dedicated ip %s -> (%v, %v, %v), want %+v", ip, p, d, lerr, last.wantByDed(ip))
			}
		}
	})
}
