//go:build verif

package profiledb

// C14 (a): profile lookups always reflect the latest synchronised data, whatever
// the timing of the background clean-ups.  State machine against a simulated
// backend; the clean-up goroutines are parked (GOMAXPROCS(1), no blocking call
// between steps) until the harness yields, so both orders of every clean-up
// versus the next synchronisation are explored.

import (
	"context"
	"errors"
	"fmt"
	"net/netip"
	"runtime"
	"slices"
	"sort"
	"strings"
	"testing"
	"time"

	"github.com/AdguardTeam/AdGuardDNS/internal/agd"
	"github.com/AdguardTeam/AdGuardDNS/internal/dnsmsg"
	"github.com/AdguardTeam/golibs/logutil/slogutil"
	"pgregory.net/rapid"
	"verif.local/harness/vstat"
)

var (
	vc14ProfIDs  = []agd.ProfileID{"p1", "p2", "p3"}
	vc14DevIDs   = []agd.DeviceID{"d1", "d2", "d3", "d4", "d5"}
	vc14Linked   = []netip.Addr{netip.MustParseAddr("192.0.2.1"), netip.MustParseAddr("192.0.2.2"), netip.MustParseAddr("2001:db8::1")}
	vc14Ded      = []netip.Addr{netip.MustParseAddr("198.51.100.1"), netip.MustParseAddr("198.51.100.2"), netip.MustParseAddr("2001:db8:d::1")}
	vc14HumanIDs = []agd.HumanIDLower{"", "tv", "phone"}
)

// vc14Dev / vc14Prof are the simulated backend's records.
type vc14Dev struct {
	Linked  netip.Addr
	Ded     []netip.Addr
	Human   agd.HumanIDLower
	Version int
}

type vc14Prof struct {
	Exists  bool
	Deleted bool
	Auto    bool
	Devs    []agd.DeviceID
	Version int
}

type vc14Backend struct {
	Profs map[agd.ProfileID]*vc14Prof
	Devs  map[agd.DeviceID]*vc14Dev
	Dirty map[agd.ProfileID]bool
	Ver   int
}

func vc14NewBackend() *vc14Backend {
	b := &vc14Backend{Profs: map[agd.ProfileID]*vc14Prof{}, Devs: map[agd.DeviceID]*vc14Dev{}, Dirty: map[agd.ProfileID]bool{}}
	for _, p := range vc14ProfIDs {
		b.Profs[p] = &vc14Prof{}
	}

	return b
}

func (b *vc14Backend) clone() *vc14Backend {
	c := &vc14Backend{Profs: map[agd.ProfileID]*vc14Prof{}, Devs: map[agd.DeviceID]*vc14Dev{}, Dirty: map[agd.ProfileID]bool{}, Ver: b.Ver}
	for k, p := range b.Profs {
		cp := *p
		cp.Devs = slices.Clone(p.Devs)
		c.Profs[k] = &cp
	}

	for k, d := range b.Devs {
		cd := *d
		cd.Ded = slices.Clone(d.Ded)
		c.Devs[k] = &cd
	}

	return c
}

func (b *vc14Backend) ownerOf(d agd.DeviceID) (agd.ProfileID, bool) {
	for _, pid := range vc14ProfIDs {
		p := b.Profs[pid]
		if p.Exists && slices.Contains(p.Devs, d) {
			return pid, true
		}
	}

	return "", false
}

func (b *vc14Backend) touch(pid agd.ProfileID) {
	b.Ver++
	b.Profs[pid].Version = b.Ver
	b.Dirty[pid] = true
}

func (b *vc14Backend) touchDev(d agd.DeviceID) {
	b.Ver++
	b.Devs[d].Version = b.Ver
	if pid, ok := b.ownerOf(d); ok {
		b.touch(pid)
	}
}

// attachedDevs lists devices attached to an existing, non-deleted profile.
func (b *vc14Backend) attachedDevs() (ds []agd.DeviceID) {
	for _, d := range vc14DevIDs {
		if pid, ok := b.ownerOf(d); ok && !b.Profs[pid].Deleted {
			ds = append(ds, d)
		}
	}

	return ds
}

// dropLinked takes ip away from whoever owns it on the backend.
func (b *vc14Backend) dropLinked(ip netip.Addr) {
	for id, d := range b.Devs {
		if d.Linked == ip {
			d.Linked = netip.Addr{}
			b.touchDev(id)
		}
	}
}

func (b *vc14Backend) dropDed(ip netip.Addr) {
	for id, d := range b.Devs {
		if i := slices.Index(d.Ded, ip); i >= 0 {
			d.Ded = slices.Delete(slices.Clone(d.Ded), i, i+1)
			b.touchDev(id)
		}
	}
}

func (b *vc14Backend) detach(d agd.DeviceID) {
	if pid, ok := b.ownerOf(d); ok {
		p := b.Profs[pid]
		i := slices.Index(p.Devs, d)
		p.Devs = slices.Delete(slices.Clone(p.Devs), i, i+1)
		b.touch(pid)
	}
}

// records renders the backend's profile pid as the storage would send it.
func (b *vc14Backend) records(pid agd.ProfileID) (p *agd.Profile, ds []*agd.Device) {
	bp := b.Profs[pid]
	p = &agd.Profile{
		BlockingMode:        &dnsmsg.BlockingModeNullIP{},
		Ratelimiter:         agd.GlobalRatelimiter{},
		ID:                  pid,
		DeviceIDs:           slices.Clone(bp.Devs),
		FilteredResponseTTL: time.Duration(bp.Version) * time.Second,
		AutoDevicesEnabled:  bp.Auto,
		Deleted:             bp.Deleted,
	}
	for _, id := range bp.Devs {
		bd := b.Devs[id]
		ds = append(ds, &agd.Device{
			Auth:         &agd.AuthSettings{},
			ID:           id,
			LinkedIP:     bd.Linked,
			Name:         agd.DeviceName(fmt.Sprintf("v%d", bd.Version)),
			HumanIDLower: bd.Human,
			DedicatedIPs: slices.Clone(bd.Ded),
		})
	}

	return p, ds
}

type vc14Want struct {
	Found      bool
	Prof       agd.ProfileID
	Dev        agd.DeviceID
	ProfVer    int
	DevVer     int
	MayDeleted bool
}

// wantByDev tells what a lookup of device d must return given the state known
// at the last successful synchronisation.
func (b *vc14Backend) wantByDev(d agd.DeviceID) (w vc14Want) {
	pid, ok := b.ownerOf(d)
	if !ok {
		return vc14Want{}
	}

	p := b.Profs[pid]

	return vc14Want{Found: true, Prof: pid, Dev: d, ProfVer: p.Version, DevVer: b.Devs[d].Version, MayDeleted: p.Deleted}
}

func (b *vc14Backend) wantByLinked(ip netip.Addr) (w vc14Want) {
	for _, d := range vc14DevIDs {
		if bd, ok := b.Devs[d]; ok && bd.Linked == ip {
			if w = b.wantByDev(d); w.Found {
				return w
			}
		}
	}

	return vc14Want{}
}

func (b *vc14Backend) wantByDed(ip netip.Addr) (w vc14Want) {
	for _, d := range vc14DevIDs {
		if bd, ok := b.Devs[d]; ok && slices.Contains(bd.Ded, ip) {
			if w = b.wantByDev(d); w.Found {
				return w
			}
		}
	}

	return vc14Want{}
}

func (b *vc14Backend) wantByHuman(pid agd.ProfileID, h agd.HumanIDLower) (w vc14Want) {
	p := b.Profs[pid]
	if !p.Exists {
		return vc14Want{}
	}

	for _, d := range p.Devs {
		if b.Devs[d].Human == h {
			return b.wantByDev(d)
		}
	}

	return vc14Want{}
}

// vc14ErrColl ignores collected errors (scripted storage failures are
// expected); agdtest cannot be imported in-package (import cycle).
type vc14ErrColl struct{}

func (vc14ErrColl) Collect(context.Context, error) {}

// vc14Storage serves what the harness scripts for the next Profiles call.
type vc14Storage struct {
	next   func(req *StorageProfilesRequest) (*StorageProfilesResponse, error)
	create func(req *StorageCreateAutoDeviceRequest) (*StorageCreateAutoDeviceResponse, error)
}

func (s *vc14Storage) CreateAutoDevice(_ context.Context, req *StorageCreateAutoDeviceRequest) (*StorageCreateAutoDeviceResponse, error) {
	return s.create(req)
}

func (s *vc14Storage) Profiles(_ context.Context, req *StorageProfilesRequest) (*StorageProfilesResponse, error) {
	return s.next(req)
}

func vc14Check(t *rapid.T, hist []string, what string, w vc14Want, p *agd.Profile, d *agd.Device, err error) {
	if err != nil {
		if !errors.Is(err, ErrDeviceNotFound) && !errors.Is(err, ErrProfileNotFound) {
			t.Fatalf("history:\n%s\n%s: unexpected error kind %v", strings.Join(hist, "\n"), what, err)
		}

		if w.Found && !w.MayDeleted {
			t.Fatalf("history:\n%s\n%s: not found (%v), want profile %s device %s", strings.Join(hist, "\n"), what, err, w.Prof, w.Dev)
		}

		return
	}

	if p == nil || d == nil {
		t.Fatalf("history:\n%s\n%s: nil result without error", strings.Join(hist, "\n"), what)
	}

	if !w.Found {
		t.Fatalf("history:\n%s\n%s: found profile %s device %s, want not found", strings.Join(hist, "\n"), what, p.ID, d.ID)
	}

	gotPV := int(p.FilteredResponseTTL / time.Second)
	gotDV := 0
	_, _ = fmt.Sscanf(string(d.Name), "v%d", &gotDV)
	if p.ID != w.Prof || d.ID != w.Dev || gotPV != w.ProfVer || gotDV != w.DevVer {
		t.Fatalf("history:\n%s\n%s: got profile %s (version %d) device %s (version %d), want %s (v%d) %s (v%d)",
			strings.Join(hist, "\n"), what, p.ID, gotPV, d.ID, gotDV, w.Prof, w.ProfVer, w.Dev, w.DevVer)
	}

	if p.Deleted != w.MayDeleted {
		t.Fatalf("history:\n%s\n%s: profile %s deleted=%t, want %t", strings.Join(hist, "\n"), what, p.ID, p.Deleted, w.MayDeleted)
	}
}

func TestVerifC14StateMachine(t *testing.T) {
	st := vstat.New("C14", "profiledb.statemachine",
		"rapid state machine: backend mutations (attach/detach/move device, change or swap linked and dedicated IPs and human IDs, delete profile, toggle auto-devices), automatic device creation with or without a synchronisation landing during the backend call, full / partial / failed syncs, lookups by all four keys, and explicit scheduling points for the parked clean-up goroutines (GOMAXPROCS(1)); non-trivial = a key changed owner (or lost it) between two syncs and was looked up in between; distinct by history hash",
		"stale-lookup-then-sync-then-cleanup", "owner-changed", "partial-sync", "full-sync", "lookup-found", "lookup-stale", "auto-device-created", "sync-during-auto-device-creation")
	st.Finish(t)

	old := runtime.GOMAXPROCS(1)
	defer runtime.GOMAXPROCS(old)

	ctx := context.Background()
	rapid.Check(t, func(t *rapid.T) {
		be := vc14NewBackend()
		known := be.clone()
		stor := &vc14Storage{}
		db, err := New(&Config{
			Logger:           slogutil.NewDiscardLogger(),
			Storage:          stor,
			ErrColl:          vc14ErrColl{},
			Metrics:          EmptyMetrics{},
			CacheFilePath:    "none",
			FullSyncIvl:      time.Hour,
			FullSyncRetryIvl: time.Hour,
		})
		if err != nil {
			t.Fatalf("New: %v", err)
		}

		var hist []string
		autoN := 0
		classes := map[string]bool{}
		pendingStale := false // a lookup since the last yield may have spawned a clean-up
		staleThenSync := false

		sync := func(full, fail bool) {
			if full {
				db.lastFullSync = time.Time{}
				db.lastFullSyncError = time.Time{}
			} else {
				db.lastFullSync = time.Now()
				db.lastFullSyncError = time.Time{}
			}

			stor.next = func(req *StorageProfilesRequest) (*StorageProfilesResponse, error) {
				if full != req.SyncTime.IsZero() && known.Ver > 0 {
					// The very first sync is always full.
				}

				if fail {
					return nil, errors.New("scripted storage failure")
				}

				resp := &StorageProfilesResponse{SyncTime: time.Unix(int64(1000+be.Ver), 0)}
				for _, pid := range vc14ProfIDs {
					bp := be.Profs[pid]
					if !bp.Exists {
						continue
					}

					if req.SyncTime.IsZero() {
						// full: everything that is not deleted
						if bp.Deleted {
							continue
						}
					} else if !be.Dirty[pid] {
						continue
					}

					p, ds := be.records(pid)
					resp.Profiles = append(resp.Profiles, p)
					resp.Devices = append(resp.Devices, ds...)
				}

				return resp, nil
			}

			wasFull := db.syncTime.IsZero() || full
			err := db.Refresh(ctx)
			if fail {
				if err == nil {
					t.Fatalf("history:\n%s\nscripted failure not reported", strings.Join(hist, "\n"))
				}

				return
			}

			if err != nil {
				t.Fatalf("history:\n%s\nRefresh: %v", strings.Join(hist, "\n"), err)
			}

			// What the database now knows: on a full sync exactly the
			// non-deleted profiles, on a partial one the previous knowledge with
			// the dirty profiles replaced.
			if wasFull {
				known = be.clone()
				for _, pid := range vc14ProfIDs {
					if known.Profs[pid].Deleted {
						known.Profs[pid] = &vc14Prof{}
					}
				}
			} else {
				nk := known.clone()
				for pid := range be.Dirty {
					cp := *be.Profs[pid]
					cp.Devs = slices.Clone(cp.Devs)
					nk.Profs[pid] = &cp
					for _, d := range cp.Devs {
						cd := *be.Devs[d]
						cd.Ded = slices.Clone(cd.Ded)
						nk.Devs[d] = &cd
					}
				}

				known = nk
			}

			known.Ver = be.Ver
			be.Dirty = map[agd.ProfileID]bool{}
			if pendingStale {
				staleThenSync = true
			}
		}

		lookups := func() {
			for _, d := range vc14DevIDs {
				p, dev, err := db.ProfileByDeviceID(ctx, d)
				w := known.wantByDev(d)
				vc14Check(t, hist, "by device id "+string(d), w, p, dev, err)
				if err != nil && !w.Found {
					pendingStale = true
				}
			}

			for _, ip := range vc14Linked {
				p, dev, err := db.ProfileByLinkedIP(ctx, ip)
				w := known.wantByLinked(ip)
				vc14Check(t, hist, "by linked ip "+ip.String(), w, p, dev, err)
				if err != nil {
					pendingStale = true
					classes["lookup-stale"] = true
				} else {
					classes["lookup-found"] = true
				}
			}

			for _, ip := range vc14Ded {
				p, dev, err := db.ProfileByDedicatedIP(ctx, ip)
				vc14Check(t, hist, "by dedicated ip "+ip.String(), known.wantByDed(ip), p, dev, err)
				if err != nil {
					pendingStale = true
				}
			}

			for _, pid := range vc14ProfIDs {
				for _, h := range vc14HumanIDs[1:] {
					p, dev, err := db.ProfileByHumanID(ctx, pid, h)
					vc14Check(t, hist, fmt.Sprintf("by human id %s/%s", pid, h), known.wantByHuman(pid, h), p, dev, err)
					if err != nil {
						pendingStale = true
					}
				}
			}
		}

		yield := func() {
			for i := 0; i < 20; i++ {
				runtime.Gosched()
			}

			if staleThenSync {
				classes["stale-lookup-then-sync-then-cleanup"] = true
			}

			pendingStale, staleThenSync = false, false
		}

		// Start from a populated backend and a first full sync.
		for i, pid := range vc14ProfIDs[:2] {
			be.Profs[pid].Exists = true
			be.touch(pid)
			d := vc14DevIDs[i]
			be.Devs[d] = &vc14Dev{Linked: vc14Linked[i], Ded: []netip.Addr{vc14Ded[i]}, Human: vc14HumanIDs[1]}
			be.Profs[pid].Devs = []agd.DeviceID{d}
			be.touchDev(d)
		}

		sync(true, false)
		hist = append(hist, "initial full sync")

		steps := rapid.IntRange(3, 24).Draw(t, "steps")
		for i := 0; i < steps; i++ {
			op := rapid.SampledFrom([]string{"attach", "detach", "move", "linked", "swapLinked", "ded", "human", "delProf", "auto", "auto", "autoCreate", "autoCreate",
				"partial", "partial", "full", "failed", "lookup", "lookup", "lookup", "yield", "yield"}).Draw(t, "op")
			switch op {
			case "attach":
				d := rapid.SampledFrom(vc14DevIDs).Draw(t, "dev")
				pid := rapid.SampledFrom(vc14ProfIDs).Draw(t, "prof")
				if _, ok := be.ownerOf(d); ok || be.Profs[pid].Deleted {
					continue
				}

				be.Profs[pid].Exists = true
				be.Devs[d] = &vc14Dev{}
				be.Profs[pid].Devs = append(slices.Clone(be.Profs[pid].Devs), d)
				be.touchDev(d)
				hist = append(hist, fmt.Sprintf("backend: attach %s to %s", d, pid))
			case "detach":
				ds := be.attachedDevs()
				if len(ds) == 0 {
					continue
				}

				d := rapid.SampledFrom(ds).Draw(t, "dev")
				be.detach(d)
				delete(be.Devs, d)
				hist = append(hist, fmt.Sprintf("backend: delete device %s", d))
				classes["owner-changed"] = true
			case "move":
				ds := be.attachedDevs()
				if len(ds) == 0 {
					continue
				}

				d := rapid.SampledFrom(ds).Draw(t, "dev")
				pid := rapid.SampledFrom(vc14ProfIDs).Draw(t, "prof")
				if cur, _ := be.ownerOf(d); cur == pid || be.Profs[pid].Deleted {
					continue
				}

				// human IDs are unique per profile
				for _, o := range be.Profs[pid].Devs {
					if be.Devs[o].Human != "" && be.Devs[o].Human == be.Devs[d].Human {
						be.Devs[d].Human = ""
					}
				}

				be.detach(d)
				be.Profs[pid].Exists = true
				be.Profs[pid].Devs = append(slices.Clone(be.Profs[pid].Devs), d)
				be.touchDev(d)
				hist = append(hist, fmt.Sprintf("backend: move %s to %s", d, pid))
				classes["owner-changed"] = true
			case "linked":
				ds := be.attachedDevs()
				if len(ds) == 0 {
					continue
				}

				d := rapid.SampledFrom(ds).Draw(t, "dev")
				ip := rapid.SampledFrom(append([]netip.Addr{{}}, vc14Linked...)).Draw(t, "ip")
				if ip.IsValid() {
					be.dropLinked(ip)
				}

				be.Devs[d].Linked = ip
				be.touchDev(d)
				hist = append(hist, fmt.Sprintf("backend: %s linked ip := %v", d, ip))
				classes["owner-changed"] = true
			case "swapLinked":
				ds := be.attachedDevs()
				if len(ds) < 2 {
					continue
				}

				a := rapid.SampledFrom(ds).Draw(t, "devA")
				c := rapid.SampledFrom(ds).Draw(t, "devB")
				if a == c {
					continue
				}

				be.Devs[a].Linked, be.Devs[c].Linked = be.Devs[c].Linked, be.Devs[a].Linked
				be.touchDev(a)
				be.touchDev(c)
				hist = append(hist, fmt.Sprintf("backend: swap linked ips of %s and %s", a, c))
				classes["owner-changed"] = true
			case "ded":
				ds := be.attachedDevs()
				if len(ds) == 0 {
					continue
				}

				d := rapid.SampledFrom(ds).Draw(t, "dev")
				ip := rapid.SampledFrom(vc14Ded).Draw(t, "ip")
				if slices.Contains(be.Devs[d].Ded, ip) {
					be.dropDed(ip)
					hist = append(hist, fmt.Sprintf("backend: %s loses dedicated ip %v", d, ip))
				} else {
					be.dropDed(ip)
					be.Devs[d].Ded = append(slices.Clone(be.Devs[d].Ded), ip)
					be.touchDev(d)
					hist = append(hist, fmt.Sprintf("backend: %s gains dedicated ip %v", d, ip))
				}

				classes["owner-changed"] = true
			case "human":
				ds := be.attachedDevs()
				if len(ds) == 0 {
					continue
				}

				d := rapid.SampledFrom(ds).Draw(t, "dev")
				h := rapid.SampledFrom(vc14HumanIDs).Draw(t, "human")
				pid, _ := be.ownerOf(d)
				if h != "" {
					for _, o := range be.Profs[pid].Devs {
						if o != d && be.Devs[o].Human == h {
							be.Devs[o].Human = ""
							be.touchDev(o)
						}
					}
				}

				be.Devs[d].Human = h
				be.touchDev(d)
				hist = append(hist, fmt.Sprintf("backend: %s human id := %q", d, h))
				classes["owner-changed"] = true
			case "delProf":
				pid := rapid.SampledFrom(vc14ProfIDs).Draw(t, "prof")
				if !be.Profs[pid].Exists || be.Profs[pid].Deleted {
					continue
				}

				// A deleted profile's devices give up their addresses: the
				// backend keeps keys unique among live devices.
				for _, d := range be.Profs[pid].Devs {
					be.Devs[d].Linked = netip.Addr{}
					be.Devs[d].Ded = nil
				}

				be.Profs[pid].Deleted = true
				be.touch(pid)
				hist = append(hist, fmt.Sprintf("backend: delete profile %s", pid))
			case "auto":
				pid := rapid.SampledFrom(vc14ProfIDs).Draw(t, "prof")
				if !be.Profs[pid].Exists || be.Profs[pid].Deleted {
					continue
				}

				be.Profs[pid].Auto = !be.Profs[pid].Auto
				be.touch(pid)
				hist = append(hist, fmt.Sprintf("backend: %s auto-devices := %t", pid, be.Profs[pid].Auto))
			case "autoCreate":
				// A device is created for an extended human ID while, in some
				// cases, a synchronisation lands during the backend call (the
				// database holds no lock then).  The new device is not one of
				// the keys that are looked up; what is judged is that every
				// other key still answers as of the latest synchronisation.
				var cands []agd.ProfileID
				for _, pid := range vc14ProfIDs {
					if kp := known.Profs[pid]; kp.Exists && !kp.Deleted && kp.Auto {
						cands = append(cands, pid)
					}
				}

				if len(cands) == 0 {
					continue
				}

				pid := rapid.SampledFrom(cands).Draw(t, "autoProf")
				during := rapid.SampledFrom([]string{"none", "delete-device", "delete-profile", "change-profile"}).Draw(t, "during")
				fullDuring := rapid.Bool().Draw(t, "fullDuring")
				autoN++
				newID := agd.DeviceID(fmt.Sprintf("auto%04d", autoN))
				stor.create = func(req *StorageCreateAutoDeviceRequest) (*StorageCreateAutoDeviceResponse, error) {
					switch bp := be.Profs[pid]; {
					case during == "delete-device" && len(bp.Devs) > 0 && !bp.Deleted:
						d := bp.Devs[0]
						be.detach(d)
						delete(be.Devs, d)
						hist = append(hist, fmt.Sprintf("  during the backend call: delete device %s, then sync", d))
						sync(fullDuring, false)
						classes["owner-changed"] = true
						classes["sync-during-auto-device-creation"] = true
					case during == "delete-profile" && bp.Exists && !bp.Deleted:
						for _, d := range bp.Devs {
							be.Devs[d].Linked = netip.Addr{}
							be.Devs[d].Ded = nil
						}

						bp.Deleted = true
						be.touch(pid)
						hist = append(hist, fmt.Sprintf("  during the backend call: delete profile %s, then sync", pid))
						sync(fullDuring, false)
						classes["sync-during-auto-device-creation"] = true
					case during == "change-profile" && bp.Exists && !bp.Deleted:
						be.touch(pid)
						hist = append(hist, fmt.Sprintf("  during the backend call: new version of profile %s, then sync", pid))
						sync(fullDuring, false)
						classes["sync-during-auto-device-creation"] = true
					}

					return &StorageCreateAutoDeviceResponse{Device: &agd.Device{
						Auth:         &agd.AuthSettings{},
						ID:           newID,
						HumanIDLower: agd.HumanIDLower(strings.ToLower(string(req.HumanID))),
						Name:         "v0",
					}}, nil
				}

				hist = append(hist, fmt.Sprintf("create auto device %s in %s", newID, pid))
				_, _, cerr := db.CreateAutoDevice(ctx, pid, agd.HumanID(fmt.Sprintf("Auto-%d", autoN)), agd.DeviceTypeOther)
				if cerr != nil && !errors.Is(cerr, ErrProfileNotFound) {
					t.Fatalf("history:\n%s\nCreateAutoDevice: %v", strings.Join(hist, "\n"), cerr)
				}

				classes["auto-device-created"] = true
				lookups()
			case "partial":
				var dirty []string
				for pid := range be.Dirty {
					dirty = append(dirty, string(pid))
				}

				sort.Strings(dirty)
				hist = append(hist, fmt.Sprintf("partial sync of %v", dirty))
				sync(false, false)
				classes["partial-sync"] = true
			case "full":
				hist = append(hist, "full sync")
				sync(true, false)
				classes["full-sync"] = true
			case "failed":
				hist = append(hist, "failed sync")
				sync(rapid.Bool().Draw(t, "fullFail"), true)
			case "lookup":
				hist = append(hist, "lookups by all keys")
				lookups()
			case "yield":
				hist = append(hist, "clean-ups run")
				yield()
			}
		}

		// Quiescence: whatever is pending runs, and the final answers must
		// still be right.
		yield()
		hist = append(hist, "final clean-ups, lookups")
		lookups()
		yield()
		lookups()

		var cl []string
		for c := range classes {
			cl = append(cl, c)
		}

		sort.Strings(cl)
		nt := ""
		if classes["owner-changed"] && (classes["lookup-stale"]) {
			nt = strings.Join(hist, ";")
		}

		st.Case(nt, cl...)
		if st.WantSample() && classes["stale-lookup-then-sync-then-cleanup"] {
			st.Sample(hist)
		}
	})
}
