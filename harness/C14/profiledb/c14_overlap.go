//go:build verif

package profiledb

// C14 (a''): two Refresh calls that overlap (the periodic worker and the
// debug-API refresher can do that).  The first one's storage request is
// answered from the backend's state at that moment and then held back; the
// backend changes; a second Refresh is started.  Once both have returned, the
// lookups must reflect the backend as it was at the latest storage request.

import (
	"context"
	"fmt"
	"net/netip"
	"slices"
	"sync"
	"testing"
	"time"

	"github.com/AdguardTeam/AdGuardDNS/internal/agd"
	"github.com/AdguardTeam/golibs/logutil/slogutil"
	"pgregory.net/rapid"
	"verif.local/harness/vstat"
)

func TestVerifC14OverlappingRefresh(t *testing.T) {
	st := vstat.New("C14", "profiledb.overlapping-refresh",
		"rapid: a backend model that answers every storage request from its state at that moment (everything for a full sync, the profiles changed since the request's sync point otherwise); Refresh A's answer is held back, the backend changes, Refresh B is started, A is released when B has returned or after 30 ms; oracle: after both have returned every lookup matches the backend's state at the latest request; non-trivial = B was started while A waited and a profile changed before both requests; distinct by the moves",
		"second-refresh-started-while-first-waits-for-the-backend", "profile-changed-before-both-requests")
	st.Finish(t)

	ctx := context.Background()
	rapid.Check(t, func(t *rapid.T) {
		be := vc14NewBackend()
		for i, pid := range vc14ProfIDs[:2] {
			be.Profs[pid].Exists = true
			be.touch(pid)
			d := vc14DevIDs[i]
			be.Devs[d] = &vc14Dev{Linked: vc14Linked[i], Ded: []netip.Addr{vc14Ded[i]}}
			be.Profs[pid].Devs = []agd.DeviceID{d}
			be.touchDev(d)
		}

		var mu sync.Mutex
		var hist []string
		move := func(label string) (touched []agd.ProfileID) {
			mu.Lock()
			defer mu.Unlock()

			for m := rapid.IntRange(1, 3).Draw(t, label+"Moves"); m > 0; m-- {
				ds := be.attachedDevs()
				d := rapid.SampledFrom(ds).Draw(t, label+"Dev")
				pid, _ := be.ownerOf(d)
				switch rapid.IntRange(0, 2).Draw(t, label+"Move") {
				case 0:
					be.touchDev(d)
					hist = append(hist, fmt.Sprintf("%s: device %s changed (v%d)", label, d, be.Ver))
				case 1:
					ip := rapid.SampledFrom(append([]netip.Addr{{}}, vc14Linked...)).Draw(t, label+"IP")
					if ip.IsValid() {
						for _, od := range be.attachedDevs() {
							if be.Devs[od].Linked == ip && od != d {
								be.Devs[od].Linked = netip.Addr{}
								be.touchDev(od)
								if op, ok := be.ownerOf(od); ok {
									touched = append(touched, op)
								}
							}
						}
					}

					be.Devs[d].Linked = ip
					be.touchDev(d)
					hist = append(hist, fmt.Sprintf("%s: device %s linked to %v (v%d)", label, d, ip, be.Ver))
				case 2:
					be.touch(pid)
					hist = append(hist, fmt.Sprintf("%s: profile %s changed (v%d)", label, pid, be.Ver))
				}

				touched = append(touched, pid)
			}

			return touched
		}

		var computed chan struct{}
		var park chan struct{}
		stor := &vc14Storage{}
		stor.next = func(req *StorageProfilesRequest) (*StorageProfilesResponse, error) {
			mu.Lock()
			since := -1
			if !req.SyncTime.IsZero() {
				since = int(req.SyncTime.Unix() - 1000)
			}

			resp := &StorageProfilesResponse{SyncTime: time.Unix(int64(1000+be.Ver), 0)}
			for _, pid := range vc14ProfIDs {
				bp := be.Profs[pid]
				if !bp.Exists || (since < 0 && bp.Deleted) || (since >= 0 && bp.Version <= since) {
					continue
				}

				p, ds := be.records(pid)
				resp.Profiles = append(resp.Profiles, p)
				resp.Devices = append(resp.Devices, ds...)
			}

			hist = append(hist, fmt.Sprintf("storage request since %d answered from v%d", since, be.Ver))
			c, p := computed, park
			computed, park = nil, nil
			mu.Unlock()

			if c != nil {
				close(c)
				<-p
			}

			return resp, nil
		}

		fullIvl := rapid.SampledFrom([]time.Duration{time.Hour, time.Hour, time.Nanosecond}).Draw(t, "fullSyncIvl")
		db, err := New(&Config{
			Logger:           slogutil.NewDiscardLogger(),
			Storage:          stor,
			ErrColl:          vc14ErrColl{},
			Metrics:          EmptyMetrics{},
			CacheFilePath:    "none",
			FullSyncIvl:      fullIvl,
			FullSyncRetryIvl: time.Hour,
		})
		if err != nil {
			t.Fatalf("New: %v", err)
		}

		if err = db.Refresh(ctx); err != nil {
			t.Fatalf("first refresh: %v", err)
		}

		first := move("before-A")

		mu.Lock()
		c, p := make(chan struct{}), make(chan struct{})
		computed, park = c, p
		mu.Unlock()

		doneA, doneB := make(chan error, 1), make(chan error, 1)
		go func() { doneA <- db.Refresh(ctx) }()
		select {
		case <-c:
		case <-time.After(20 * time.Second):
			fmt.Println("VERIF-INCONCLUSIVE: Refresh A did not reach the storage in 20 s")
			t.FailNow()
		}

		second := move("while-A-waits")
		go func() { doneB <- db.Refresh(ctx) }()

		var errB error
		bReturned := false
		select {
		case errB = <-doneB:
			bReturned = true
		case <-time.After(30 * time.Millisecond):
		}

		close(p)
		errA := <-doneA
		if !bReturned {
			errB = <-doneB
		}

		mu.Lock()
		hist = append(hist, fmt.Sprintf("Refresh A -> %v, Refresh B -> %v (B returned while A waited: %t)", errA, errB, bReturned))
		last := be.clone()
		mu.Unlock()

		classes := []string{"second-refresh-started-while-first-waits-for-the-backend"}
		nt := ""
		both := false
		for _, pid := range first {
			both = both || slices.Contains(second, pid)
		}

		if both {
			classes = append(classes, "profile-changed-before-both-requests")
			nt = fmt.Sprint(fullIvl, hist)
		}

		st.Case(nt, classes...)

		fail := func(what string, w vc14Want, p *agd.Profile, d *agd.Device, lerr error) {
			t.Fatalf("history:\n  %s\nafter both refreshes returned: %s -> (%v, %v, %v), want %+v (the backend's state at the latest request)",
				joinLines(hist), what, p, d, lerr, w)
		}

		for _, id := range vc14DevIDs {
			p, d, lerr := db.ProfileByDeviceID(ctx, id)
			if w := last.wantByDev(id); !vc14Matches(w, p, d, lerr) {
				fail("device id "+string(id), w, p, d, lerr)
			}
		}

		for _, ip := range vc14Linked {
			p, d, lerr := db.ProfileByLinkedIP(ctx, ip)
			if w := last.wantByLinked(ip); !vc14Matches(w, p, d, lerr) {
				fail("linked ip "+ip.String(), w, p, d, lerr)
			}
		}

		for _, ip := range vc14Ded {
			p, d, lerr := db.ProfileByDedicatedIP(ctx, ip)
			if w := last.wantByDed(ip); !vc14Matches(w, p, d, lerr) {
				fail("dedicated ip "+ip.String(), w, p, d, lerr)
			}
		}
	})
}

func joinLines(ls []string) (s string) {
	for i, l := range ls {
		if i > 0 {
			s += "\n  "
		}

		s += l
	}

	return s
}
