//go:build verif

package profiledb

// C14 (c): every profile and device setting survives store -> file -> load.

import (
	"context"
	"errors"
	"fmt"
	"net/netip"
	"os"
	"path/filepath"
	"slices"
	"sort"
	"strings"
	"testing"
	"time"
	"unicode/utf8"

	"github.com/AdguardTeam/AdGuardDNS/internal/agd"
	"github.com/AdguardTeam/AdGuardDNS/internal/profiledb/internal"
	"github.com/AdguardTeam/AdGuardDNS/internal/profiledb/internal/filecachepb"
	"github.com/AdguardTeam/golibs/logutil/slogutil"
	"pgregory.net/rapid"
	"verif.local/harness/vstat"
)

// vc14rtClasses turns a world into histogram labels.
func vc14rtClasses(w *vc14rtWorld, cl map[string]bool) {
	for _, p := range w.Profs {
		cl["mode-"+p.Mode] = true
		if p.Mode == "custom" {
			switch {
			case len(p.ModeV4) > 0 && len(p.ModeV6) > 0:
				cl["custom-ip-both"] = true
			case len(p.ModeV4) > 0:
				cl["custom-ip-v4-only"] = true
			default:
				cl["custom-ip-v6-only"] = true
			}
		}

		if p.Access == nil {
			cl["access-empty"] = true
		} else {
			cl["access-default"] = true
			if len(p.Access.AllowedNets)+len(p.Access.BlockedNets) > 0 {
				cl["access-nets"] = true
			}

			if len(p.Access.AllowedASN)+len(p.Access.BlockedASN) > 0 {
				cl["access-asns"] = true
			}

			if len(p.Access.Rules) > 0 {
				cl["access-domain-rules"] = true
			}
		}

		if p.RL == nil {
			cl["ratelimit-global"] = true
		} else {
			cl["ratelimit-custom"] = true
			if p.RL.RPS <= 5 {
				cl["ratelimit-behaviour-probe"] = true
			}

			if len(p.RL.Subnets) > 0 {
				cl["ratelimit-subnets"] = true
			}
		}

		if p.Sched != nil {
			cl["schedule"] = true
			if p.Sched.TZ != "UTC" && p.Sched.TZ != "" {
				cl["schedule-non-utc-zone"] = true
			}
		} else {
			cl["schedule-none"] = true
		}

		if len(p.CustomRules) > 0 {
			cl["custom-rules"] = true
		}

		if len(p.Services) > 0 {
			cl["blocked-services"] = true
		}

		if len(p.ListIDs) > 0 {
			cl["rule-lists"] = true
		}

		if p.Deleted {
			cl["deleted-profile"] = true
		}

		if p.TTL < 0 || p.TTL > 24*time.Hour {
			cl["ttl-extreme"] = true
		}

		if len(p.DeviceIDs) == 0 {
			cl["profile-without-devices"] = true
		}
	}

	for _, d := range w.Devs {
		cl["auth-"+d.Auth] = true
		if d.DoHOnly {
			cl["auth-doh-only"] = true
		}

		if d.Linked.IsValid() {
			cl["linked-ip"] = true
			if d.Linked.Is6() {
				cl["linked-ip-v6"] = true
			}
		}

		if len(d.Ded) > 0 {
			cl["dedicated-ips"] = true
		}

		if d.Human != "" {
			cl["human-id"] = true
		}

		zero4, zero6 := netip.IPv4Unspecified(), netip.IPv6Unspecified()
		if d.Linked == zero4 || slices.Contains(d.Ded, zero6) {
			cl["zero-valued-key"] = true
		}

		if d.Linked.Zone() != "" || slices.ContainsFunc(d.Ded, func(ip netip.Addr) bool { return ip.Zone() != "" }) {
			cl["zoned-ipv6-key"] = true
		}

		if utf8.RuneCountInString(d.Name) == agd.MaxDeviceNameRuneLen {
			cl["name-at-limit"] = true
		}

		if !vc14rtIsASCII(d.Name) {
			cl["non-ascii-name"] = true
		}
	}
}

func vc14rtIsASCII(s string) bool {
	for i := 0; i < len(s); i++ {
		if s[i] >= 0x80 {
			return false
		}
	}

	return true
}

func vc14rtSortedKeys(m map[string]bool) (out []string) {
	for k := range m {
		out = append(out, k)
	}

	sort.Strings(out)

	return out
}

// vc14rtCompareLoaded compares what Load returned with the world that was
// stored.  It returns the differences and the number of devices that match the
// recorded nil-hash finding.
func vc14rtCompareLoaded(w *vc14rtWorld, profs []*agd.Profile, devs []*agd.Device, pr *vc14rtProbe) (diffs []string, nilHash int) {
	if len(profs) != len(w.Profs) {
		diffs = append(diffs, fmt.Sprintf("%d profiles loaded, %d stored", len(profs), len(w.Profs)))
	}

	if len(devs) != len(w.Devs) {
		diffs = append(diffs, fmt.Sprintf("%d devices loaded, %d stored", len(devs), len(w.Devs)))
	}

	seenP := map[agd.ProfileID]bool{}
	for _, p := range profs {
		if p == nil {
			diffs = append(diffs, "nil profile loaded")

			continue
		}

		spec := w.prof(p.ID)
		if spec == nil || seenP[p.ID] {
			diffs = append(diffs, fmt.Sprintf("loaded profile %q was not stored (or is duplicated)", p.ID))

			continue
		}

		seenP[p.ID] = true
		diffs = append(diffs, vc14rtDiffProfile(spec, p, pr)...)
	}

	seenD := map[agd.DeviceID]bool{}
	for _, d := range devs {
		if d == nil {
			diffs = append(diffs, "nil device loaded")

			continue
		}

		spec := w.dev(d.ID)
		if spec == nil || seenD[d.ID] {
			diffs = append(diffs, fmt.Sprintf("loaded device %q was not stored (or is duplicated)", d.ID))

			continue
		}

		seenD[d.ID] = true
		dd, nh := vc14rtDiffDevice(spec, d, pr)
		diffs = append(diffs, dd...)
		if nh {
			nilHash++
		}
	}

	return diffs, nilHash
}

func TestVerifC14rtRoundTrip(t *testing.T) {
	st := vstat.New("C14", "profiledb.roundtrip",
		"rapid-drawn sets of profiles and devices with every field varied independently (all blocking modes incl. custom IP v4/v6/both, access nets/ASNs/domain rules, custom rate limit, pause schedules with time zones, custom rules, rule lists, safe browsing, auth variants, all flags, TTLs, names, human ids, linked and dedicated IPs), for a drawn subset used first the way the running service uses them (access verdicts, rate limiter, schedule, authentication), then stored through filecachepb.Storage into a real file and loaded by a second Storage; compared through accessors and behaviour probes; non-trivial = a case with a custom access manager or rate limiter or schedule or enabled authentication; distinct by the stored specification",
		"mode-custom", "custom-ip-v4-only", "custom-ip-v6-only", "custom-ip-both", "mode-nxdomain", "mode-refused", "mode-null",
		"access-nets", "access-asns", "access-domain-rules", "access-empty", "ratelimit-custom", "ratelimit-behaviour-probe", "ratelimit-global",
		"schedule-non-utc-zone", "schedule-none", "auth-bcrypt", "auth-allow", "auth-disabled", "auth-doh-only", "custom-rules",
		"linked-ip-v6", "dedicated-ips", "human-id", "version-mismatch", "deleted-profile",
		"used-before-store", "used-before-store-with-domain-rules", "unused-before-store", "device-used-before-store",
		"near-miss-twin-profile", "near-miss-twin-device", "second-generation-roundtrip", "zero-valued-key", "name-at-limit", "zoned-ipv6-key")
	st.Finish(t)
	vc14rtNeedZones(t)

	dir := vc14rtScratchDir(t)
	ctx := context.Background()
	logger := slogutil.NewDiscardLogger()
	n := 0
	slow := 0

	rapid.Check(t, func(t *rapid.T) {
		n++
		path := filepath.Join(dir, fmt.Sprintf("rt%d.pb", n))
		defer func() { _ = os.Remove(path) }()

		est := rapid.SampledFrom(vc14rtEsts).Draw(t, "respSizeEstimate")
		w := vc14rtDrawWorld(t, 0, true)
		pr := vc14rtDrawProbe(t, est)
		syncTime := time.Unix(rapid.Int64Range(0, 4_000_000_000).Draw(t, "syncSec"), rapid.Int64Range(0, 999_999_999).Draw(t, "syncNsec"))

		version := int32(internal.FileCacheVersion)
		if rapid.IntRange(0, 19).Draw(t, "versionKind") == 0 {
			version = rapid.SampledFrom([]int32{0, internal.FileCacheVersion - 1, internal.FileCacheVersion + 1, -1}).Draw(t, "version")
		}

		cl := map[string]bool{}
		vc14rtClasses(w, cl)

		profs, devs := w.build(est)
		fail := func(f string, a ...any) {
			t.Helper()
			t.Fatalf("stored (estimate %d, version %d, sync time %v): %s\n%s", est, version, syncTime, vc14rtDescribe(w), fmt.Sprintf(f, a...))
		}

		usedP, usedD, useDiffs := vc14rtUse(t, w, profs, devs, pr)
		if len(useDiffs) > 0 {
			fail("freshly built objects, used before the store, do not behave as specified:\n  %s", strings.Join(useDiffs, "\n  "))
		}

		if len(usedP) > 0 {
			cl["used-before-store"] = true
			for i, spec := range w.Profs {
				if usedP[profs[i]] && spec.Access != nil && len(spec.Access.Rules) > 0 {
					cl["used-before-store-with-domain-rules"] = true
				}
			}
		}

		if len(usedD) > 0 {
			cl["device-used-before-store"] = true
		}

		if len(usedP) < len(profs) {
			cl["unused-before-store"] = true
		}

		err := filecachepb.New(logger, path, est).Store(ctx, &internal.FileCache{
			SyncTime: syncTime,
			Profiles: profs,
			Devices:  devs,
			Version:  version,
		})
		if err != nil {
			fail("Store: %v", err)
		}

		got, err := filecachepb.New(logger, path, est).Load(ctx)
		if version != internal.FileCacheVersion {
			// internal.CacheVersionError: "returned from Load if the stored
			// cache version doesn't match".
			if !errors.Is(err, internal.CacheVersionError) || got != nil {
				fail("Load of a version %d file: cache %v, error %v; want the cache-version error", version, got, err)
			}

			st.Case("", "version-mismatch")

			return
		}

		if err != nil || got == nil {
			fail("Load: cache %v, error %v", got, err)
		}

		var diffs []string
		if got.Version != version {
			diffs = append(diffs, fmt.Sprintf("version %d", got.Version))
		}

		if !got.SyncTime.Equal(syncTime) {
			diffs = append(diffs, fmt.Sprintf("sync time %v", got.SyncTime))
		}

		dd, nilHash := vc14rtCompareLoaded(w, got.Profiles, got.Devices, pr)
		diffs = append(diffs, dd...)
		if len(diffs) > 0 {
			fail("loaded data differs:\n  %s", strings.Join(diffs, "\n  "))
		}

		if nilHash > 0 {
			if !st.Known(vc14rtFindingNilHash) {
				fail("%d device(s) with authentication enabled and no password were loaded with a nil Auth.PasswordHash (agd.AuthSettings: \"It is never nil\"; devicefinder calls it unconditionally)", nilHash)
			}

			cl["known-nil-hash"] = true
		}

		// Second generation: what was loaded (and has just been probed, i.e.
		// used) is stored again, as a cache written by a restarted process
		// would be, and must still describe the same settings.
		if nilHash == 0 && rapid.IntRange(0, 2).Draw(t, "secondGeneration") == 0 {
			path2 := path + ".2"
			defer func() { _ = os.Remove(path2) }()

			if err = filecachepb.New(logger, path2, est).Store(ctx, got); err != nil {
				fail("Store of the loaded cache: %v", err)
			}

			got2, lerr := filecachepb.New(logger, path2, est).Load(ctx)
			if lerr != nil || got2 == nil {
				fail("Load of the re-stored cache: cache %v, error %v", got2, lerr)
			}

			// The hash bytes are still compared; the slow bcrypt runs are not
			// repeated.
			pr.Bcrypt = false
			dd, nh := vc14rtCompareLoaded(w, got2.Profiles, got2.Devices, pr)
			if !got2.SyncTime.Equal(syncTime) || got2.Version != version {
				dd = append(dd, fmt.Sprintf("sync time %v version %d", got2.SyncTime, got2.Version))
			}

			if len(dd) > 0 || nh > 0 {
				fail("stored, loaded, stored and loaded again, the data differs (%d nil password hashes):\n  %s", nh, strings.Join(dd, "\n  "))
			}

			cl["second-generation-roundtrip"] = true
		}

		if w.TwinProfile != "" {
			cl["near-miss-twin-profile"] = true
		}

		if w.TwinDevice != "" {
			cl["near-miss-twin-device"] = true
		}

		if pr.Slow > 0 {
			slow += pr.Slow
			cl["ratelimit-drop-probe-skipped-slow"] = true
		}

		nt := ""
		if cl["access-default"] || cl["ratelimit-custom"] || cl["schedule"] || cl["auth-bcrypt"] || cl["auth-allow"] {
			nt = vc14rtDescribe(w)
		}

		st.Case(nt, vc14rtSortedKeys(cl)...)
		if st.WantSample() && nt != "" {
			st.Sample(w)
		}
	})

	st.Extra("ratelimit_drop_probes_skipped_slow", slow)
}
