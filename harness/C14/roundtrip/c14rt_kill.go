//go:build verif

package profiledb

// C14 (d): the cache file is replaced atomically.  A child process (this test
// binary re-executed) stores alternating versions in a loop and is SIGKILLed at
// a rapid-drawn delay; whatever is on disk afterwards must load as one complete
// version that the child had at least started to store.

import (
	"bufio"
	"bytes"
	"context"
	"fmt"
	"net/netip"
	"os"
	"os/exec"
	"path/filepath"
	"strconv"
	"strings"
	"sync"
	"testing"
	"time"

	"github.com/AdguardTeam/AdGuardDNS/internal/access"
	"github.com/AdguardTeam/AdGuardDNS/internal/agd"
	"github.com/AdguardTeam/AdGuardDNS/internal/agdpasswd"
	"github.com/AdguardTeam/AdGuardDNS/internal/dnsmsg"
	"github.com/AdguardTeam/AdGuardDNS/internal/filter"
	"github.com/AdguardTeam/AdGuardDNS/internal/geoip"
	"github.com/AdguardTeam/AdGuardDNS/internal/profiledb/internal"
	"github.com/AdguardTeam/AdGuardDNS/internal/profiledb/internal/filecachepb"
	"github.com/AdguardTeam/golibs/logutil/slogutil"
	"github.com/c2h5oh/datasize"
	"pgregory.net/rapid"
	"verif.local/harness/vstat"
)

const (
	vc14rtKillEnvPath  = "VC14RT_KILL_PATH"
	vc14rtKillEnvShape = "VC14RT_KILL_SHAPE"
	vc14rtKillEst      = 1 * datasize.KB
)

// vc14rtKillData builds the data set with n profiles (two devices each); the
// version tag is set separately.
func vc14rtKillData(n int) (fc *internal.FileCache) {
	fc = &internal.FileCache{Version: internal.FileCacheVersion}
	for i := 0; i < n; i++ {
		d1 := agd.DeviceID(fmt.Sprintf("a%d", i))
		d2 := agd.DeviceID(fmt.Sprintf("b%d", i))
		fc.Profiles = append(fc.Profiles, &agd.Profile{
			FilterConfig: &filter.ConfigClient{
				Custom: &filter.ConfigCustom{
					ID:      fmt.Sprintf("p%d", i),
					Rules:   []filter.RuleText{"||blocked-by-custom.example^", "@@||allowed.example^"},
					Enabled: true,
				},
				Parental:     &filter.ConfigParental{BlockedServices: []filter.BlockedServiceID{"youtube"}, Enabled: true},
				RuleList:     &filter.ConfigRuleList{IDs: []filter.ID{"adguard_dns_filter"}, Enabled: true},
				SafeBrowsing: &filter.ConfigSafeBrowsing{Enabled: true},
			},
			Access: access.NewDefaultProfile(&access.ProfileConfig{
				AllowedNets:          []netip.Prefix{netip.MustParsePrefix("192.0.2.0/24")},
				BlockedNets:          []netip.Prefix{netip.MustParsePrefix("2001:db8::/32")},
				AllowedASN:           []geoip.ASN{1},
				BlockedASN:           []geoip.ASN{2},
				BlocklistDomainRules: []string{"block.test"},
			}),
			BlockingMode:     &dnsmsg.BlockingModeCustomIP{IPv4: []netip.Addr{netip.MustParseAddr("192.0.2.53")}},
			Ratelimiter:      agd.GlobalRatelimiter{},
			ID:               agd.ProfileID(fmt.Sprintf("p%d", i)),
			DeviceIDs:        []agd.DeviceID{d1, d2},
			FilteringEnabled: true,
		})

		for _, id := range []agd.DeviceID{d1, d2} {
			fc.Devices = append(fc.Devices, &agd.Device{
				Auth:             &agd.AuthSettings{PasswordHash: agdpasswd.AllowAuthenticator{}},
				ID:               id,
				FilteringEnabled: true,
			})
		}
	}

	fc.Devices[0].LinkedIP = netip.MustParseAddr("192.0.2.1")

	return fc
}

// vc14rtKillTag stamps version v on every record of fc.
func vc14rtKillTag(fc *internal.FileCache, v int) {
	fc.SyncTime = time.Unix(int64(v), 0)
	for _, p := range fc.Profiles {
		p.FilteredResponseTTL = time.Duration(v) * time.Second
	}

	name := agd.DeviceName("v" + strconv.Itoa(v))
	for _, d := range fc.Devices {
		d.Name = name
	}
}

// vc14rtKillShape returns the number of profiles of version v.
func vc14rtKillShape(v, small, big int) int {
	if v%2 == 1 {
		return big
	}

	return small
}

// vc14rtKillVersion decides which complete version c is, or explains why it
// is not one.
func vc14rtKillVersion(c *internal.FileCache, small, big int) (v int, why string) {
	if c == nil {
		return 0, "no cache"
	}

	v = int(c.SyncTime.Unix())
	if v < 1 {
		return 0, fmt.Sprintf("sync time %v", c.SyncTime)
	}

	n := vc14rtKillShape(v, small, big)
	if len(c.Profiles) != n || len(c.Devices) != 2*n {
		return 0, fmt.Sprintf("version %d has %d profiles and %d devices, want %d and %d", v, len(c.Profiles), len(c.Devices), n, 2*n)
	}

	for i, p := range c.Profiles {
		if p == nil || p.FilterConfig == nil || p.FilterConfig.Custom == nil || p.Access == nil || p.Access.Config() == nil {
			return 0, fmt.Sprintf("version %d: profile %d has nil parts", v, i)
		}

		if p.ID != agd.ProfileID(fmt.Sprintf("p%d", i)) || p.FilteredResponseTTL != time.Duration(v)*time.Second || len(p.DeviceIDs) != 2 ||
			len(p.FilterConfig.Custom.Rules) != 2 || !p.FilteringEnabled || len(p.Access.Config().AllowedNets) != 1 {
			return 0, fmt.Sprintf("version %d: profile %d is %q ttl %v devices %q", v, i, p.ID, p.FilteredResponseTTL, p.DeviceIDs)
		}
	}

	name := agd.DeviceName("v" + strconv.Itoa(v))
	for i, d := range c.Devices {
		want := agd.DeviceID(fmt.Sprintf("%c%d", "ab"[i%2], i/2))
		if d.ID != want || d.Name != name {
			return 0, fmt.Sprintf("version %d: device %d is %q named %q", v, i, d.ID, d.Name)
		}
	}

	return v, ""
}

// vc14rtInconclusive reports an inconclusive case.  rapid re-runs a failed case
// and, if it then passes, drops the case's log ("flaky test"), so the marker
// the driver looks for is also written to the standard output directly.
func vc14rtInconclusive(t *rapid.T, f string, a ...any) {
	msg := fmt.Sprintf(f, a...)
	_, _ = fmt.Fprintln(os.Stdout, msg)
	t.Logf("%s", msg)
}

// TestVerifC14rtKillChild is the body of the child process; it is skipped
// unless the parent's environment is present.
func TestVerifC14rtKillChild(t *testing.T) {
	path := os.Getenv(vc14rtKillEnvPath)
	if path == "" {
		t.Skip("helper process of TestVerifC14rtKill")
	}

	var small, big int
	if _, err := fmt.Sscanf(os.Getenv(vc14rtKillEnvShape), "%d,%d", &small, &big); err != nil {
		t.Fatalf("bad shape: %v", err)
	}

	progress := os.NewFile(3, "progress")
	if progress == nil {
		t.Fatalf("no progress pipe")
	}

	ctx := context.Background()
	s := filecachepb.New(slogutil.NewDiscardLogger(), path, vc14rtKillEst)
	data := [2]*internal.FileCache{vc14rtKillData(small), vc14rtKillData(big)}

	// The deadline only bounds the life of an orphaned child.
	deadline := time.Now().Add(30 * time.Second)
	for v := 1; time.Now().Before(deadline); v++ {
		fc := data[v%2]
		vc14rtKillTag(fc, v)
		_, _ = fmt.Fprintf(progress, "s%d\n", v)
		if err := s.Store(ctx, fc); err != nil {
			_, _ = fmt.Fprintf(progress, "x%d %v\n", v, err)
			os.Exit(3)
		}

		_, _ = fmt.Fprintf(progress, "e%d\n", v)
	}
}

func TestVerifC14rtKill(t *testing.T) {
	st := vstat.New("C14", "profiledb.kill",
		"the test binary is re-executed as a child that stores alternating small/big versions through filecachepb.Storage in a loop; SIGKILL after a rapid-drawn delay (optionally while the parent keeps loading the file); the file must load as one complete version v with last-finished <= v <= last-started; non-trivial = the kill landed while a Store was in progress; distinct by (shape, delay, versions at the kill)",
		"kill-mid-store", "old-version-survives-unfinished-store", "concurrent-load-sees-complete-version")
	st.Finish(t)

	exe, err := os.Executable()
	if err != nil {
		t.Fatalf("harness: %v", err)
	}

	dir := t.TempDir()
	ctx := context.Background()
	logger := slogutil.NewDiscardLogger()
	n := 0

	rapid.Check(t, func(t *rapid.T) {
		n++
		cdir := filepath.Join(dir, fmt.Sprintf("k%d", n))
		if err := os.Mkdir(cdir, 0o700); err != nil {
			t.Fatalf("harness: %v", err)
		}

		defer func() { _ = os.RemoveAll(cdir) }()

		path := filepath.Join(cdir, "cache.pb")
		small := rapid.IntRange(1, 30).Draw(t, "smallProfiles")
		big := rapid.IntRange(200, 3000).Draw(t, "bigProfiles")
		delay := time.Duration(rapid.IntRange(0, 40_000).Draw(t, "delayMicros")) * time.Microsecond
		concurrentLoads := rapid.IntRange(0, 3).Draw(t, "concurrentLoads") == 0

		pr, pw, err := os.Pipe()
		if err != nil {
			t.Fatalf("harness: %v", err)
		}

		var stderr bytes.Buffer
		cmd := exec.Command(exe, "-test.run=^TestVerifC14rtKillChild$", "-test.count=1", "-test.timeout=60s")
		cmd.Env = append(os.Environ(), vc14rtKillEnvPath+"="+path, fmt.Sprintf("%s=%d,%d", vc14rtKillEnvShape, small, big),
			// renameio puts its temporary file into $TMPDIR when that is on
			// the same file system; keep the litter of killed children inside
			// the case directory.
			"TMPDIR="+cdir, "VERIF_STATS_DIR=")
		cmd.ExtraFiles = []*os.File{pw}
		cmd.Stdout, cmd.Stderr = &stderr, &stderr
		if err = cmd.Start(); err != nil {
			_ = pr.Close()
			_ = pw.Close()
			vc14rtInconclusive(t, "VERIF-INCONCLUSIVE: cannot start the child: %v", err)
			t.FailNow()
		}

		_ = pw.Close()

		var mu sync.Mutex
		started, finished := 0, 0
		childErr := ""
		ready := make(chan struct{})
		done := make(chan struct{})
		go func() {
			defer close(done)
			defer func() { _ = pr.Close() }()

			isReady := false
			sc := bufio.NewScanner(pr)
			for sc.Scan() {
				line := sc.Text()
				if len(line) < 2 {
					continue
				}

				mu.Lock()
				switch line[0] {
				case 's':
					started, _ = strconv.Atoi(line[1:])
				case 'e':
					finished, _ = strconv.Atoi(line[1:])
				case 'x':
					childErr = line
				}

				// Both versions have been stored completely at least once.
				r := finished >= 2
				mu.Unlock()

				if r && !isReady {
					isReady = true
					close(ready)
				}
			}
		}()

		kill := func() {
			_ = cmd.Process.Kill()
			_ = cmd.Wait()
			<-done
		}

		select {
		case <-ready:
		case <-done:
			kill()
			if childErr != "" {
				t.Fatalf("child: Store failed: %s", childErr)
			}

			vc14rtInconclusive(t, "VERIF-INCONCLUSIVE: the child exited before it was ready: %s", stderr.String())
			t.FailNow()
		case <-time.After(60 * time.Second):
			kill()
			vc14rtInconclusive(t, "VERIF-INCONCLUSIVE: the child was not ready within 60 s: %s", stderr.String())
			t.FailNow()
		}

		loader := filecachepb.New(logger, path, vc14rtKillEst)
		loadFail := ""
		loads := 0
		if concurrentLoads {
			// A reader racing with the writer must see a complete version too,
			// and never an older one than before.
			last := 0
			for end := time.Now().Add(delay); loadFail == "" && (loads == 0 || time.Now().Before(end)); {
				c, lerr := loader.Load(ctx)
				loads++
				if lerr != nil {
					loadFail = fmt.Sprintf("concurrent load %d: %v", loads, lerr)

					break
				}

				v, why := vc14rtKillVersion(c, small, big)
				switch {
				case why != "":
					loadFail = fmt.Sprintf("concurrent load %d: incomplete: %s", loads, why)
				case v < last:
					loadFail = fmt.Sprintf("concurrent load %d: version %d after version %d", loads, v, last)
				}

				last = v
			}
		} else {
			time.Sleep(delay)
		}

		kill()

		// The reader goroutine is finished: no lock needed any more.
		if childErr != "" {
			t.Fatalf("child: Store failed: %s", childErr)
		}

		desc := fmt.Sprintf("shape %d/%d profiles, kill after %v (concurrent loads: %d), child had started version %d and finished version %d",
			small, big, delay, loads, started, finished)
		if loadFail != "" {
			t.Fatalf("%s: %s", desc, loadFail)
		}

		if started != finished && started != finished+1 {
			t.Fatalf("harness: %s: inconsistent progress", desc)
		}

		c, err := loader.Load(ctx)
		if err != nil {
			t.Fatalf("%s: the file does not load after the kill: %v", desc, err)
		}

		v, why := vc14rtKillVersion(c, small, big)
		if why != "" {
			t.Fatalf("%s: the file is not one complete version: %s", desc, why)
		}

		if v < finished || v > started {
			t.Fatalf("%s: the file holds version %d", desc, v)
		}

		// The same through a restarted database.
		db, err := New(&Config{
			Logger:               logger,
			Storage:              &vc14rtStorage{},
			ErrColl:              vc14rtErrColl{},
			Metrics:              EmptyMetrics{},
			CacheFilePath:        path,
			FullSyncIvl:          time.Hour,
			FullSyncRetryIvl:     time.Hour,
			ResponseSizeEstimate: vc14rtKillEst,
		})
		if err != nil {
			t.Fatalf("%s: New: %v", desc, err)
		}

		lastDev := agd.DeviceID(fmt.Sprintf("b%d", vc14rtKillShape(v, small, big)-1))
		p, d, err := db.ProfileByDeviceID(ctx, lastDev)
		if err != nil || string(d.Name) != "v"+strconv.Itoa(v) || p.FilteredResponseTTL != time.Duration(v)*time.Second {
			t.Fatalf("%s: restarted database: device %q: %v %v %v, want version %d", desc, lastDev, p, d, err, v)
		}

		if _, d, err = db.ProfileByLinkedIP(ctx, netip.MustParseAddr("192.0.2.1")); err != nil || d.ID != "a0" {
			t.Fatalf("%s: restarted database: linked ip: %v %v", desc, d, err)
		}

		var cl []string
		nt := ""
		if started == finished+1 {
			cl = append(cl, "kill-mid-store")
			nt = fmt.Sprintf("%d/%d/%v/%d/%d", small, big, delay, started, v)
			if v == finished {
				cl = append(cl, "old-version-survives-unfinished-store")
			} else {
				cl = append(cl, "new-version-visible-before-store-returned")
			}
		} else {
			cl = append(cl, "kill-between-stores")
		}

		if loads > 0 {
			cl = append(cl, "concurrent-load-sees-complete-version")
		}

		if v%2 == 1 {
			cl = append(cl, "big-version-on-disk")
		} else {
			cl = append(cl, "small-version-on-disk")
		}

		st.Case(nt, cl...)
		if st.WantSample() && nt != "" {
			st.Sample(strings.TrimSpace(desc) + fmt.Sprintf(", file holds version %d", v))
		}
	})
}
