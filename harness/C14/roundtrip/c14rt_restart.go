//go:build verif

package profiledb

// C14 (b): a database restarted from its file cache answers every lookup as the
// running one did when the cache was written.

import (
	"bytes"
	"context"
	"errors"
	"fmt"
	"net/netip"
	"os"
	"path/filepath"
	"slices"
	"strings"
	"testing"
	"time"

	"github.com/AdguardTeam/AdGuardDNS/internal/agd"
	"github.com/AdguardTeam/AdGuardDNS/internal/agdpasswd"
	"github.com/AdguardTeam/AdGuardDNS/internal/profiledb/internal"
	"github.com/AdguardTeam/AdGuardDNS/internal/profiledb/internal/filecachepb"
	"github.com/AdguardTeam/golibs/logutil/slogutil"
	"google.golang.org/protobuf/proto"
	"pgregory.net/rapid"
	"verif.local/harness/vstat"
)

// vc14rtKey is one lookup key.
type vc14rtKey struct {
	Kind  string // dev | linked | ded | human
	Dev   agd.DeviceID
	IP    netip.Addr
	Prof  agd.ProfileID
	Human agd.HumanIDLower
}

func (k vc14rtKey) String() string {
	switch k.Kind {
	case "dev":
		return "device id " + string(k.Dev)
	case "linked":
		return "linked ip " + k.IP.String()
	case "ded":
		return "dedicated ip " + k.IP.String()
	default:
		return fmt.Sprintf("human id %s/%s", k.Prof, k.Human)
	}
}

func vc14rtAllKeys() (keys []vc14rtKey) {
	for _, d := range vc14rtDevIDs {
		keys = append(keys, vc14rtKey{Kind: "dev", Dev: d})
	}

	for _, ip := range vc14rtLinked {
		keys = append(keys, vc14rtKey{Kind: "linked", IP: ip})
	}

	for _, ip := range vc14rtDed {
		keys = append(keys, vc14rtKey{Kind: "ded", IP: ip})
	}

	for _, p := range vc14rtProfIDs {
		for _, h := range vc14rtHumans[1:] {
			keys = append(keys, vc14rtKey{Kind: "human", Prof: p, Human: h})
		}
	}

	return keys
}

func vc14rtLookup(ctx context.Context, db *Default, k vc14rtKey) (p *agd.Profile, d *agd.Device, err error) {
	switch k.Kind {
	case "dev":
		return db.ProfileByDeviceID(ctx, k.Dev)
	case "linked":
		return db.ProfileByLinkedIP(ctx, k.IP)
	case "ded":
		return db.ProfileByDedicatedIP(ctx, k.IP)
	default:
		return db.ProfileByHumanID(ctx, k.Prof, k.Human)
	}
}

// owner tells which device of which profile owns key k in w.
func (w *vc14rtWorld) owner(k vc14rtKey) (p *vc14rtProfSpec, d *vc14rtDevSpec) {
	if w == nil {
		return nil, nil
	}

	for _, dev := range w.Devs {
		own := w.ownerOf(dev.ID)
		if own == nil {
			continue
		}

		switch k.Kind {
		case "dev":
			if dev.ID == k.Dev {
				return own, dev
			}
		case "linked":
			if dev.Linked == k.IP {
				return own, dev
			}
		case "ded":
			if slices.Contains(dev.Ded, k.IP) {
				return own, dev
			}
		default:
			if own.ID == k.Prof && dev.Human == k.Human {
				return own, dev
			}
		}
	}

	return nil, nil
}

// vc14rtFullSyncIvl is longer than the age of any synchronisation point the
// harness uses (they are in 2023) and shorter than what time.Since reports for
// the zero time (it saturates at about 292 years).
const vc14rtFullSyncIvl = 1_000_000 * time.Hour

func TestVerifC14rtRestart(t *testing.T) {
	st := vstat.New("C14", "profiledb.restart",
		"rapid histories of backend snapshots (fresh ones and near misses of the previous one: one device moved, one key changed or swapped, one setting changed), starting from a missing / unreadable / truncated / other-version cache file, with full syncs whose store fails, a drawn subset of the records is used (access verdicts, rate limiter, schedule, authentication) before it is synchronised and stored, partial and full synchronisations of a profiledb.Default with a real *.pb cache file and lookups; the backend may also have profiles but no devices at all, or no profiles; after every full sync a second Default is opened on the file, its own first refresh (against a backend that answers a zero sync time with everything and any other with the changes since then) and CreateAutoDevice are checked too, and all lookups by device id, human id, linked ip and dedicated ip are compared with the running database and with the snapshot (identity and every setting); the restarted database may take over and continue with partial syncs; non-trivial = a restart check where the file was overwritten by a later full sync or partial syncs preceded it; distinct by history",
		"restart-after-partial-syncs", "restart-of-overwritten-file", "restarted-db-continues-with-partial-sync",
		"key-changed-owner-between-full-syncs", "found-by-dev", "found-by-linked", "found-by-ded", "found-by-human", "not-found",
		"used-before-store", "used-before-store-with-domain-rules", "device-used-before-store",
		"restart-after-near-miss-change", "start-from-unreadable-file", "start-from-other-version-file", "store-failed", "zoned-ipv6-key",
		"restart-from-cache-without-devices", "restart-from-cache-without-profiles", "restarted-db-first-refresh-full",
		"restarted-db-first-refresh-incremental", "auto-device-created-after-restart",
		"restart-with-one-unconvertible-profile-among-convertible-ones", "restart-with-all-profiles-unconvertible",
		"unconvertible-by-time-zone", "unconvertible-by-blocking-mode", "unconvertible-by-custom-ip", "restart-with-unconvertible-device")
	st.Finish(t)
	vc14rtNeedZones(t)

	dir := vc14rtScratchDir(t)
	ctx := context.Background()
	logger := slogutil.NewDiscardLogger()
	keys := vc14rtAllKeys()
	n := 0

	rapid.Check(t, func(t *rapid.T) {
		n++
		cdir := filepath.Join(dir, fmt.Sprintf("r%d", n))
		if err := os.Mkdir(cdir, 0o700); err != nil {
			t.Fatalf("harness: %v", err)
		}

		defer func() { _ = os.RemoveAll(cdir) }()

		path := filepath.Join(cdir, "cache.pb")
		est := rapid.SampledFrom(vc14rtEsts).Draw(t, "respSizeEstimate")
		pr := vc14rtDrawProbe(t, est)
		stor := &vc14rtStorage{}

		var hist []string
		fail := func(f string, a ...any) {
			t.Helper()
			t.Fatalf("history:\n  %s\n%s", strings.Join(hist, "\n  "), fmt.Sprintf(f, a...))
		}

		newDB := func() *Default {
			db, err := New(&Config{
				Logger:               logger,
				Storage:              stor,
				ErrColl:              vc14rtErrColl{},
				Metrics:              EmptyMetrics{},
				CacheFilePath:        path,
				// Longer than the age of every synchronisation point used
				// here: a database that adopted the cache's sync point is
				// "within the full-sync interval" and refreshes incrementally
				// (no wall-clock dependence of the inputs).
				FullSyncIvl:          vc14rtFullSyncIvl,
				FullSyncRetryIvl:     time.Hour,
				ResponseSizeEstimate: est,
			})
			if err != nil || db == nil {
				fail("New: %v", err)
			}

			return db
		}

		// Failure at construction time: the file the database starts from may be
		// missing, unreadable, cut short or of another format version.  New must
		// come up empty (profiledb.New: "an empty profiledb is returned"), and
		// the first full sync must replace the file.
		cl := map[string]bool{}
		startKind := rapid.SampledFrom([]string{"missing", "missing", "garbage", "truncated", "other-version", "empty"}).Draw(t, "startFile")
		switch startKind {
		case "garbage":
			// An over-long varint tag first: can never decode.
			b := append(bytes.Repeat([]byte{0xff}, 11), rapid.SliceOfN(rapid.Byte(), 0, 200).Draw(t, "garbage")...)
			if err := os.WriteFile(path, b, 0o600); err != nil {
				t.Fatalf("harness: %v", err)
			}

			cl["start-from-unreadable-file"] = true
		case "empty":
			if err := os.WriteFile(path, nil, 0o600); err != nil {
				t.Fatalf("harness: %v", err)
			}

			cl["start-from-unreadable-file"] = true
		case "truncated", "other-version":
			ow := vc14rtDrawWorld(t, 1, false)
			op, od := ow.build(est)
			ver := int32(internal.FileCacheVersion)
			if startKind == "other-version" {
				ver += int32(rapid.SampledFrom([]int{-1, 1}).Draw(t, "versionDelta"))
			}

			err := filecachepb.New(logger, path, est).Store(ctx, &internal.FileCache{SyncTime: time.Unix(1_600_000_000, 0), Profiles: op, Devices: od, Version: ver})
			if err != nil {
				t.Fatalf("harness: %v", err)
			}

			if startKind == "truncated" {
				// The version is the last field of the file: any proper
				// prefix lacks it or does not decode.
				b, rerr := os.ReadFile(path)
				if rerr != nil || len(b) < 2 {
					t.Fatalf("harness: %v (%d octets)", rerr, len(b))
				}

				if err = os.WriteFile(path, b[:rapid.IntRange(1, len(b)-1).Draw(t, "keepOctets")], 0o600); err != nil {
					t.Fatalf("harness: %v", err)
				}

				cl["start-from-unreadable-file"] = true
			} else {
				cl["start-from-other-version-file"] = true
			}
		}

		hist = append(hist, "start with cache file: "+startKind)
		db := newDB()
		for _, k := range keys {
			if p, d, err := vc14rtLookup(ctx, db, k); err == nil {
				fail("database started from a %s cache file: %s found %v %v", startKind, k, p.ID, d.ID)
			}
		}

		var world, prevFull *vc14rtWorld
		known := map[agd.ProfileID]bool{}
		var lastSync time.Time
		seq := 0
		fulls, partialsSinceFull := 0, 0
		adopted := false
		nontrivial := false
		tweaked := false
		var usedP map[*agd.Profile]bool
		var usedD map[*agd.Device]bool

		sync := func(full bool) (respTime time.Time) {
			if full {
				db.lastFullSync = time.Time{}
			} else {
				db.lastFullSync = time.Now()
			}

			db.lastFullSyncError = time.Time{}

			seq++
			respTime = time.Unix(int64(1_700_000_000+seq), int64(rapid.IntRange(0, 999_999_999).Draw(t, "syncNsec")))
			profs, devs := world.build(est)

			// Refresh publishes the records before it stores them, so in
			// production they serve queries first: use a drawn subset before
			// handing them over.
			up, ud, useDiffs := vc14rtUse(t, world, profs, devs, pr)
			if len(useDiffs) > 0 {
				fail("freshly built objects, used before the sync, do not behave as specified:\n  %s", strings.Join(useDiffs, "\n  "))
			}

			usedP, usedD = up, ud
			if full && len(usedP) > 0 {
				cl["used-before-store"] = true
				for i, spec := range world.Profs {
					if usedP[profs[i]] && spec.Access != nil && len(spec.Access.Rules) > 0 {
						cl["used-before-store-with-domain-rules"] = true
					}
				}
			}

			if full && len(usedD) > 0 {
				cl["device-used-before-store"] = true
			}

			if !full {
				// What vanished on the backend is reported as deleted.
				for _, id := range vc14rtProfIDs {
					if known[id] && world.prof(id) == nil {
						stub := &vc14rtProfSpec{ID: id, Mode: "null", Deleted: true, CustomID: string(id)}
						profs = append(profs, stub.build(est))
					}
				}
			}

			var reqTime time.Time
			calls := 0
			stor.next = func(req *StorageProfilesRequest) (*StorageProfilesResponse, error) {
				calls++
				reqTime = req.SyncTime

				return &StorageProfilesResponse{SyncTime: respTime, Profiles: profs, Devices: devs}, nil
			}

			err := db.Refresh(ctx)
			stor.next = nil
			if err != nil || calls != 1 {
				fail("Refresh: %v (%d storage calls)", err, calls)
			}

			if reqTime.After(lastSync) {
				fail("the request's sync time %v is later than the last synchronisation point %v", reqTime, lastSync)
			}

			// StorageProfilesResponse.SyncTime: "the time that should be saved
			// and used as the next ProfilesRequest.SyncTime" -- also by a
			// database restarted from the file.
			if !full && !reqTime.Equal(lastSync) {
				fail("partial sync (restarted database: %t) asked for changes since %v, the last synchronisation point is %v", adopted, reqTime, lastSync)
			}

			if !full && adopted && reqTime.Equal(lastSync) {
				cl["restarted-db-continues-with-partial-sync"] = true
			}

			lastSync = respTime
			if full {
				clear(known)
			}

			for _, p := range world.Profs {
				known[p.ID] = true
			}

			return respTime
		}

		verify := func(respTime time.Time) {
			db2 := newDB()
			if db2.syncTime.After(respTime) {
				fail("restarted database: synchronisation point %v is later than the stored one %v", db2.syncTime, respTime)
			}

			degenerate := len(world.Profs) == 0 || len(world.Devs) == 0
			seenP := map[*agd.Profile]bool{}
			seenD := map[*agd.Device]bool{}
			nilHash := 0
			check := func(which string, k vc14rtKey, p *agd.Profile, d *agd.Device, err error) {
				wp, wd := world.owner(k)
				if err != nil {
					if !errors.Is(err, ErrDeviceNotFound) && !errors.Is(err, ErrProfileNotFound) {
						fail("%s: %s: unexpected error kind %v", which, k, err)
					}

					if wp != nil {
						fail("%s: %s: not found (%v), want profile %q device %q\nsnapshot: %s", which, k, err, wp.ID, wd.ID, vc14rtDescribe(world))
					}

					return
				}

				if p == nil || d == nil {
					fail("%s: %s: nil result without error", which, k)
				}

				if wp == nil {
					fail("%s: %s: found profile %q device %q, want not found\nsnapshot: %s", which, k, p.ID, d.ID, vc14rtDescribe(world))
				}

				if p.ID != wp.ID || d.ID != wd.ID {
					fail("%s: %s: found profile %q device %q, want %q %q\nsnapshot: %s", which, k, p.ID, d.ID, wp.ID, wd.ID, vc14rtDescribe(world))
				}

				var diffs []string
				if !seenP[p] {
					seenP[p] = true
					// A record that was used before the sync has a running
					// rate-limit counter.
					pr.NoRLBehaviour = usedP[p]
					diffs = append(diffs, vc14rtDiffProfile(wp, p, pr)...)
					pr.NoRLBehaviour = false
				}

				if !seenD[d] {
					seenD[d] = true
					dd, nh := vc14rtDiffDevice(wd, d, pr)
					diffs = append(diffs, dd...)
					if nh {
						nilHash++
					}
				}

				if len(diffs) > 0 {
					fail("%s: %s: settings differ from the synchronised ones:\n  %s\nsnapshot: %s", which, k, strings.Join(diffs, "\n  "), vc14rtDescribe(world))
				}
			}

			for _, k := range keys {
				p1, d1, err1 := vc14rtLookup(ctx, db, k)
				p2, d2, err2 := vc14rtLookup(ctx, db2, k)
				check("running database", k, p1, d1, err1)
				check("restarted database", k, p2, d2, err2)
				// A cache without profiles or without devices is deliberately
				// not loaded (loadFileCache: "cache is empty"): then the
				// restarted database knows no profile until its first refresh,
				// which is checked below.
				if !degenerate && errors.Is(err1, ErrProfileNotFound) != errors.Is(err2, ErrProfileNotFound) {
					fail("%s: running database says %v, restarted one says %v", k, err1, err2)
				}

				if err1 == nil && k.IP.Zone() != "" {
					// Found by the zoned form; the zoneless form of the same
					// address is looked up as a separate key.
					cl["zoned-ipv6-key"] = true
				}

				if err1 == nil {
					cl["found-by-"+k.Kind] = true
				} else {
					cl["not-found"] = true
				}

				if wp, wd := world.owner(k); wp != nil {
					if op, od := prevFull.owner(k); op != nil && (op.ID != wp.ID || od.ID != wd.ID) {
						cl["key-changed-owner-between-full-syncs"] = true
					}
				}
			}

			if nilHash > 0 {
				if !st.Known(vc14rtFindingNilHash) {
					fail("restarted database: %d device(s) with authentication enabled and no password have a nil Auth.PasswordHash (agd.AuthSettings: \"It is never nil\"; devicefinder calls it unconditionally)\nsnapshot: %s", nilHash, vc14rtDescribe(world))
				}

				cl["known-nil-hash"] = true
			}

			if partialsSinceFull > 0 {
				cl["restart-after-partial-syncs"] = true
				nontrivial = true
			}

			if fulls > 1 {
				cl["restart-of-overwritten-file"] = true
				nontrivial = true
			}

			if tweaked && fulls > 1 {
				cl["restart-after-near-miss-change"] = true
			}

			tweaked = false

			// The restarted database's FIRST refresh, decided by the database
			// itself.  The backend is modelled faithfully: everything for a
			// full request (zero sync time), only what changed since the
			// request's sync time otherwise -- nothing changed since the cache
			// was written.  Afterwards the database must answer as the backend
			// state says: a database that loaded nothing from the file must
			// therefore ask for everything.
			sync2 := lastSync
			if degenerate || rapid.Bool().Draw(t, "firstRefresh") {
				loadedNothing := len(db2.profiles) == 0
				seq++
				resp2 := time.Unix(int64(1_700_000_000+seq), 0)
				var reqTime time.Time
				calls := 0
				stor.next = func(req *StorageProfilesRequest) (*StorageProfilesResponse, error) {
					calls++
					reqTime = req.SyncTime
					resp := &StorageProfilesResponse{SyncTime: resp2}
					if req.SyncTime.IsZero() {
						resp.Profiles, resp.Devices = world.build(est)
					}

					return resp, nil
				}
				err := db2.Refresh(ctx)
				stor.next = nil
				hist = append(hist, fmt.Sprintf("restarted database refreshes (asked for changes since %v)", reqTime))
				if err != nil || calls != 1 {
					fail("restarted database: first Refresh: %v (%d storage calls)", err, calls)
				}

				if loadedNothing && !reqTime.IsZero() {
					fail("the restarted database loaded nothing from the cache file (%d profiles, %d devices stored) but its first refresh asked only for the changes since %v: everything unchanged since then stays unknown\nsnapshot: %s",
						len(world.Profs), len(world.Devs), reqTime, vc14rtDescribe(world))
				}

				if !reqTime.IsZero() && !reqTime.Equal(respTime) {
					fail("the restarted database's first refresh asked for changes since %v, the stored synchronisation point is %v", reqTime, respTime)
				}

				for _, k := range keys {
					p2, d2, err2 := vc14rtLookup(ctx, db2, k)
					check("restarted database after its first refresh", k, p2, d2, err2)

					// ProfileByHumanID: "It's important to check the profile and
					// return ErrProfileNotFound here to prevent the device finder
					// from trying to create a device for a profile that doesn't
					// exist" -- and only then.
					if k.Kind == "human" && err2 != nil && errors.Is(err2, ErrProfileNotFound) != (world.prof(k.Prof) == nil) {
						fail("restarted database after its first refresh: %s: %v, but the profile exists on the backend: %t\nsnapshot: %s", k, err2, world.prof(k.Prof) != nil, vc14rtDescribe(world))
					}
				}

				if nilHash > 0 && !st.Known(vc14rtFindingNilHash) {
					fail("restarted database: nil Auth.PasswordHash after the first refresh")
				}

				sync2 = resp2
				cl["restarted-db-first-refresh"] = true
				if reqTime.IsZero() {
					cl["restarted-db-first-refresh-full"] = true
				} else {
					cl["restarted-db-first-refresh-incremental"] = true
				}

				if len(world.Profs) == 0 {
					cl["restart-from-cache-without-profiles"] = true
				} else if len(world.Devs) == 0 {
					cl["restart-from-cache-without-devices"] = true
				}

				// Automatic devices: a profile that exists and has them enabled
				// must be usable right away, on both databases.
				stor.auto = func(req *StorageCreateAutoDeviceRequest) (*StorageCreateAutoDeviceResponse, error) {
					return &StorageCreateAutoDeviceResponse{Device: &agd.Device{
						Auth:         &agd.AuthSettings{PasswordHash: agdpasswd.AllowAuthenticator{}},
						ID:           "auto-1",
						HumanIDLower: agd.HumanIDToLower(req.HumanID),
					}}, nil
				}
				for _, pid := range vc14rtProfIDs {
					wp := world.prof(pid)
					for i, d := range []*Default{db, db2} {
						which := []string{"running database", "restarted database after its first refresh"}[i]
						p, dev, aerr := d.CreateAutoDevice(ctx, pid, "Auto-Dev", agd.DeviceTypeOther)
						switch {
						case wp != nil && wp.Auto:
							if aerr != nil || p == nil || dev == nil || p.ID != pid {
								fail("%s: CreateAutoDevice(%q): %v %v %v, want the profile (it exists and has automatic devices enabled)\nsnapshot: %s", which, pid, p, dev, aerr, vc14rtDescribe(world))
							}

							cl["auto-device-created-after-restart"] = true
						default:
							if !errors.Is(aerr, ErrProfileNotFound) {
								fail("%s: CreateAutoDevice(%q): error %v, want profile-not-found (exists: %t)", which, pid, aerr, wp != nil)
							}
						}
					}
				}

				stor.auto = nil
			}

			// A cache file in which some records cannot be converted back by the
			// process that restarts (a pause-schedule time zone its time-zone
			// database does not know: the file stores the zone NAME; a missing
			// or malformed blocking mode; a malformed device address).  However
			// the database treats such a file, after its own first refresh from
			// a backend on which nothing changed since the file was written it
			// must answer every lookup as the backend state says.
			if len(world.Profs) > 0 && rapid.IntRange(0, 2).Draw(t, "unconvertible") == 0 {
				b, rerr := os.ReadFile(path)
				if rerr != nil {
					fail("harness: reading the cache file: %v", rerr)
				}

				fc := &filecachepb.FileCache{}
				if uerr := proto.Unmarshal(b, fc); uerr != nil || len(fc.Profiles) != len(world.Profs) {
					fail("harness: decoding the cache file: %v (%d profiles)", uerr, len(fc.Profiles))
				}

				nBad := 1
				switch rapid.SampledFrom([]string{"one", "one", "one", "several", "all", "device"}).Draw(t, "unconvertibleHowMany") {
				case "several":
					nBad = rapid.IntRange(1, len(fc.Profiles)).Draw(t, "unconvertibleN")
				case "all":
					nBad = len(fc.Profiles)
				case "device":
					nBad = 0
				}

				var what []string
				if nBad == 0 && len(fc.Devices) > 0 {
					d := fc.Devices[rapid.IntRange(0, len(fc.Devices)-1).Draw(t, "badDevice")]
					d.LinkedIp = []byte{1, 2, 3, 4, 5}
					what = append(what, fmt.Sprintf("device %q: malformed linked ip", d.DeviceId))
					cl["restart-with-unconvertible-device"] = true
				} else if nBad == 0 {
					nBad = 1
				}

				order := rapid.Permutation(fc.Profiles).Draw(t, "unconvertibleWhich")
				for _, pp := range order[:nBad] {
					switch way := rapid.SampledFrom([]string{"time-zone", "time-zone", "blocking-mode", "custom-ip"}).Draw(t, "unconvertibleWay"); way {
					case "time-zone":
						tz := rapid.SampledFrom([]string{"Test/Dropped_Zone", "Nowhere/Atlantis", "../etc/localtime"}).Draw(t, "unknownZone")
						if pp.FilterConfig.Parental.PauseSchedule == nil {
							pp.FilterConfig.Parental.PauseSchedule = &filecachepb.FilterConfig_Schedule{Week: &filecachepb.FilterConfig_WeeklySchedule{}}
						}

						pp.FilterConfig.Parental.PauseSchedule.TimeZone = tz
						what = append(what, fmt.Sprintf("profile %q: schedule time zone %q", pp.ProfileId, tz))
						cl["unconvertible-by-time-zone"] = true
					case "blocking-mode":
						pp.BlockingMode = nil
						what = append(what, fmt.Sprintf("profile %q: no blocking mode", pp.ProfileId))
						cl["unconvertible-by-blocking-mode"] = true
					default:
						pp.BlockingMode = &filecachepb.Profile_BlockingModeCustomIp{BlockingModeCustomIp: &filecachepb.BlockingModeCustomIP{Ipv4: [][]byte{{1, 2, 3, 4, 5}}}}
						what = append(what, fmt.Sprintf("profile %q: malformed custom blocking ip", pp.ProfileId))
						cl["unconvertible-by-custom-ip"] = true
					}
				}

				b, merr := proto.Marshal(fc)
				if merr == nil {
					merr = os.WriteFile(path, b, 0o600)
				}

				if merr != nil {
					fail("harness: rewriting the cache file: %v", merr)
				}

				hist = append(hist, fmt.Sprintf("cache file now holds records this process cannot convert: %q; another restart and its first refresh", what))
				db3 := newDB()
				seq++
				resp3 := time.Unix(int64(1_700_000_000+seq), 0)
				var reqTime time.Time
				calls := 0
				stor.next = func(req *StorageProfilesRequest) (*StorageProfilesResponse, error) {
					calls++
					reqTime = req.SyncTime
					resp := &StorageProfilesResponse{SyncTime: resp3}
					if req.SyncTime.IsZero() {
						resp.Profiles, resp.Devices = world.build(est)
					}

					return resp, nil
				}
				err := db3.Refresh(ctx)
				stor.next = nil
				if err != nil || calls != 1 {
					fail("database restarted from a file with unconvertible records: first Refresh: %v (%d storage calls)", err, calls)
				}

				if !reqTime.IsZero() && len(db3.profiles) != len(world.Profs) {
					fail("the database restarted from a file with unconvertible records (%q) knows %d of the backend's %d profiles but asked only for the changes since %v: what is unchanged since then stays unknown\nsnapshot: %s",
						what, len(db3.profiles), len(world.Profs), reqTime, vc14rtDescribe(world))
				}

				for _, k := range keys {
					p3, d3, err3 := vc14rtLookup(ctx, db3, k)
					check("database restarted from a file with unconvertible records, after its first refresh", k, p3, d3, err3)
					if k.Kind == "human" && err3 != nil && errors.Is(err3, ErrProfileNotFound) != (world.prof(k.Prof) == nil) {
						fail("database restarted from a file with unconvertible records (%q), after its first refresh: %s: %v, but the profile exists on the backend: %t\nsnapshot: %s",
							what, k, err3, world.prof(k.Prof) != nil, vc14rtDescribe(world))
					}
				}

				switch {
				case cl["restart-with-unconvertible-device"] && nBad == 0:
				case nBad == 1 && len(fc.Profiles) > 1:
					cl["restart-with-one-unconvertible-profile-among-convertible-ones"] = true
				case nBad == len(fc.Profiles):
					cl["restart-with-all-profiles-unconvertible"] = true
				default:
					cl["restart-with-several-unconvertible-profiles"] = true
				}

				if reqTime.IsZero() {
					cl["unconvertible-cache-then-full-sync"] = true
				}

				// If that refresh was a full one, the file is whole again; put
				// it back in any case so that the history continues from a
				// good file with the running database's data.
				if serr := filecachepb.New(logger, path, est).Store(ctx, func() *internal.FileCache {
					ps, ds := world.build(est)

					return &internal.FileCache{SyncTime: respTime, Profiles: ps, Devices: ds, Version: internal.FileCacheVersion}
				}()); serr != nil {
					fail("harness: restoring the cache file: %v", serr)
				}
			}

			if rapid.Bool().Draw(t, "adopt") {
				hist = append(hist, "the restarted database takes over")
				db = db2
				adopted = true
				lastSync = sync2
			}

			prevFull = world
			partialsSinceFull = 0
		}

		// drawWorld also yields backends with profiles but no devices at all
		// (e.g. a young deployment relying on automatic devices) and with no
		// profiles.
		drawWorld := func() (w *vc14rtWorld) {
			switch rapid.SampledFrom([]string{"normal", "normal", "normal", "normal", "normal", "no-devices", "no-devices", "no-profiles"}).Draw(t, "backendKind") {
			case "no-devices":
				w = vc14rtDrawWorld(t, 0, false)
				w.Devs, w.TwinDevice = nil, ""
				for _, p := range w.Profs {
					p.DeviceIDs = nil
				}

				w.Profs[0].Auto = true
			case "no-profiles":
				w = &vc14rtWorld{}
			default:
				w = vc14rtDrawWorld(t, 1, false)
			}

			return w
		}

		fullAndVerify := func() {
			if world == nil {
				world = drawWorld()
				hist = append(hist, "backend: "+vc14rtDescribe(world))
			}

			fulls++
			hist = append(hist, "full sync, restart check")
			verify(sync(true))
		}

		// identical tells whether db answers every key exactly as snapshot w
		// says (identity only).
		identical := func(w *vc14rtWorld) bool {
			for _, k := range keys {
				p, d, err := vc14rtLookup(ctx, db, k)
				wp, wd := w.owner(k)
				if (err == nil) != (wp != nil) || (err == nil && (p.ID != wp.ID || d.ID != wd.ID)) {
					return false
				}
			}

			return true
		}

		steps := rapid.IntRange(1, 7).Draw(t, "steps")
		for i := 0; i < steps; i++ {
			switch rapid.SampledFrom([]string{"world", "tweak", "tweak", "partial", "partial", "full", "lookup", "storeFails"}).Draw(t, "op") {
			case "world":
				world = drawWorld()
				tweaked = false
				hist = append(hist, "backend: "+vc14rtDescribe(world))
			case "tweak":
				if world == nil {
					fullAndVerify()

					continue
				}

				// A near miss of the previous snapshot: exactly one change.
				var what string
				world, what = vc14rtTweakWorld(t, world)
				tweaked = true
				hist = append(hist, "backend changes one thing: "+what)
			case "storeFails":
				if fulls == 0 {
					fullAndVerify()

					continue
				}

				// The cache directory disappears: the full sync gets its data
				// but cannot store it.  Refresh must report that; the running
				// database must answer either entirely from the new snapshot
				// or entirely from the previous one; a database started now
				// finds no file.
				prev := prevFull
				if partialsSinceFull > 0 {
					prev = nil
				}

				world = drawWorld()
				hist = append(hist, "backend: "+vc14rtDescribe(world), "cache directory removed, full sync")
				if err := os.RemoveAll(cdir); err != nil {
					t.Fatalf("harness: %v", err)
				}

				db.lastFullSync, db.lastFullSyncError = time.Time{}, time.Time{}
				seq++
				respTime := time.Unix(int64(1_700_000_000+seq), 0)
				profs, devs := world.build(est)
				stor.next = func(*StorageProfilesRequest) (*StorageProfilesResponse, error) {
					return &StorageProfilesResponse{SyncTime: respTime, Profiles: profs, Devices: devs}, nil
				}
				err := db.Refresh(ctx)
				stor.next = nil
				if err == nil {
					fail("Refresh returned no error although the cache could not be stored")
				}

				if !identical(world) && (prev == nil || !identical(prev)) {
					fail("after a full sync whose store failed (%v) the running database answers neither from the new nor from the previous snapshot", err)
				}

				db2 := newDB()
				for _, k := range keys {
					if p, d, lerr := vc14rtLookup(ctx, db2, k); lerr == nil {
						fail("database started without a cache file: %s found %v %v", k, p.ID, d.ID)
					}
				}

				if err = os.Mkdir(cdir, 0o700); err != nil {
					t.Fatalf("harness: %v", err)
				}

				cl["store-failed"] = true
				usedP, usedD = nil, nil
				lastSync = respTime
				fullAndVerify()
			case "partial":
				if fulls == 0 {
					fullAndVerify()

					continue
				}

				hist = append(hist, "partial sync")
				sync(false)
				partialsSinceFull++
			case "full":
				fullAndVerify()
			case "lookup":
				// No verdict here (part (a) decides lookups between syncs);
				// these only leave clean-ups pending across the next sync.
				hist = append(hist, "lookups by all keys")
				for _, k := range keys {
					_, _, _ = vc14rtLookup(ctx, db, k)
				}
			}
		}

		fullAndVerify()

		nt := ""
		if nontrivial {
			nt = strings.Join(hist, ";")
		}

		if pr.Slow > 0 {
			cl["ratelimit-drop-probe-skipped-slow"] = true
		}

		st.Case(nt, vc14rtSortedKeys(cl)...)
		if st.WantSample() && nontrivial && cl["key-changed-owner-between-full-syncs"] {
			st.Sample(hist)
		}
	})
}
