//go:build verif

package profiledb

// C14 (b), sampled concurrent part: in production the records of a full sync
// are published first and stored afterwards, so queries use them WHILE the
// cache file is being written.  Readers look devices up and use what they get
// (access verdicts incl. blocked-name probes that initialise the lazy engine,
// rate limiter, authentication, configuration accessors) while the main
// goroutine runs full syncs; every answer must come from a snapshot that can be
// current at that moment, and a database restarted afterwards must answer from
// the last snapshot with every setting preserved.  Schedules are sampled, not
// owned; meant to run under -race as well.

import (
	"context"
	"fmt"
	"net/netip"
	"os"
	"path/filepath"
	"slices"
	"strings"
	"sync"
	"sync/atomic"
	"testing"
	"time"

	"github.com/AdguardTeam/AdGuardDNS/internal/agd"
	"github.com/AdguardTeam/golibs/logutil/slogutil"
	"github.com/miekg/dns"
	"pgregory.net/rapid"
	"verif.local/harness/vstat"
)

func TestVerifC14rtConcurrent(t *testing.T) {
	st := vstat.New("C14", "profiledb.concurrent-use",
		"three reader goroutines look every key up and use the returned records (IsBlocked with blocked-name probes, rate limiter Check, Authenticate for non-bcrypt hashes, Config accessors) while the main goroutine performs 2-4 full syncs of rapid-drawn snapshots (fresh ones and near misses) that each publish and then store; answers must be those of a snapshot between the last finished and the last started sync, a restarted database must equal the last snapshot; non-trivial = at least one lookup overlapped a sync; distinct by the snapshots",
		"lookup-during-sync", "record-used-during-sync", "restart-equals-last-snapshot", "zoned-ipv6-key")
	st.Finish(t)
	vc14rtNeedZones(t)

	dir := vc14rtScratchDir(t)
	ctx := context.Background()
	logger := slogutil.NewDiscardLogger()
	keys := vc14rtAllKeys()
	n := 0

	rapid.Check(t, func(t *rapid.T) {
		n++
		cdir := filepath.Join(dir, fmt.Sprintf("c%d", n))
		if err := os.Mkdir(cdir, 0o700); err != nil {
			t.Fatalf("harness: %v", err)
		}

		defer func() { _ = os.RemoveAll(cdir) }()

		path := filepath.Join(cdir, "cache.pb")
		est := rapid.SampledFrom(vc14rtEsts).Draw(t, "respSizeEstimate")
		pr := vc14rtDrawProbe(t, est)

		// Everything random is drawn up front, in this goroutine.
		nSyncs := rapid.IntRange(2, 4).Draw(t, "syncs")
		worlds := []*vc14rtWorld{vc14rtDrawWorld(t, 1, false)}
		var desc []string
		for i := 1; i <= nSyncs; i++ {
			if rapid.Bool().Draw(t, "nearMiss") {
				w, what := vc14rtTweakWorld(t, worlds[i-1])
				worlds = append(worlds, w)
				desc = append(desc, "one change: "+what)
			} else {
				worlds = append(worlds, vc14rtDrawWorld(t, 1, false))
				desc = append(desc, "fresh snapshot")
			}
		}

		fail := func(f string, a ...any) {
			t.Helper()
			var ws []string
			for i, w := range worlds {
				ws = append(ws, fmt.Sprintf("snapshot %d: %s", i, vc14rtDescribe(w)))
			}

			t.Fatalf("%s\nsyncs: %q\n%s", strings.Join(ws, "\n"), desc, fmt.Sprintf(f, a...))
		}

		stor := &vc14rtStorage{}
		newDB := func() *Default {
			db, err := New(&Config{
				Logger:               logger,
				Storage:              stor,
				ErrColl:              vc14rtErrColl{},
				Metrics:              EmptyMetrics{},
				CacheFilePath:        path,
				FullSyncIvl:          time.Hour,
				FullSyncRetryIvl:     time.Hour,
				ResponseSizeEstimate: est,
			})
			if err != nil || db == nil {
				fail("New: %v", err)
			}

			return db
		}

		db := newDB()
		refresh := func(i int) {
			profs, devs := worlds[i].build(est)
			db.lastFullSync, db.lastFullSyncError = time.Time{}, time.Time{}
			stor.next = func(*StorageProfilesRequest) (*StorageProfilesResponse, error) {
				return &StorageProfilesResponse{SyncTime: time.Unix(int64(1_700_000_000+i), 0), Profiles: profs, Devices: devs}, nil
			}
			if err := db.Refresh(ctx); err != nil {
				fail("Refresh %d: %v", i, err)
			}
		}

		refresh(0)

		var started, done atomic.Int64
		var stop atomic.Bool
		var mu sync.Mutex
		var problems []string
		var overlapped, used atomic.Int64
		report := func(f string, a ...any) {
			mu.Lock()
			defer mu.Unlock()

			if len(problems) < 5 {
				problems = append(problems, fmt.Sprintf(f, a...))
			}
		}

		neutral := netip.AddrPortFrom(netip.MustParseAddr("8.8.4.4"), 5353)
		wg := &sync.WaitGroup{}
		for r := 0; r < 3; r++ {
			wg.Add(1)
			go func(r int) {
				defer wg.Done()

				for round := 0; !stop.Load() || round == 0; round++ {
					for ki := range keys {
						k := keys[(ki+r*7)%len(keys)]
						lo := done.Load()
						p, d, err := vc14rtLookup(ctx, db, k)
						hi := started.Load()
						if hi > lo {
							overlapped.Add(1)
						}

						ok := false
						for i := lo; i <= hi && !ok; i++ {
							wp, wd := worlds[i].owner(k)
							ok = (err != nil && wp == nil) || (err == nil && wp != nil && p.ID == wp.ID && d.ID == wd.ID)
						}

						if !ok {
							got := "not found"
							if err == nil {
								got = fmt.Sprintf("profile %q device %q", p.ID, d.ID)
							}

							report("%s: %s, which no snapshot from %d to %d says", k, got, lo, hi)

							continue
						}

						if err != nil {
							continue
						}

						if !slices.Contains(p.DeviceIDs, d.ID) {
							report("%s: profile %q does not list the returned device %q", k, p.ID, d.ID)
						}

						// Use the record as a query would.
						name := vc14rtProbeNames[(ki+round)%len(vc14rtProbeNames)]
						_ = p.Access.IsBlocked(vc14rtMsg(name, dns.TypeA), neutral, nil)
						_ = p.Access.Config()
						_ = p.Ratelimiter.Check(ctx, vc14rtMsg(name, dns.TypeA), neutral.Addr())
						_ = p.Ratelimiter.Config()
						if s := p.FilterConfig.Parental.PauseSchedule; s != nil {
							_ = s.Contains(pr.Times[0])
						}

						if d.Auth.PasswordHash == nil {
							report("%s: device %q has a nil password hash", k, d.ID)
						} else if wd := worlds[hi].dev(d.ID); wd == nil || wd.Auth != "bcrypt" {
							_ = d.Auth.PasswordHash.Authenticate(ctx, []byte("pw"))
						}

						if hi > lo {
							used.Add(1)
						}
					}
				}
			}(r)
		}

		for i := 1; i <= nSyncs; i++ {
			started.Store(int64(i))
			refresh(i)
			done.Store(int64(i))
		}

		stop.Store(true)
		wg.Wait()

		if len(problems) > 0 {
			fail("while syncing:\n  %s", strings.Join(problems, "\n  "))
		}

		// Restart: the file holds the last snapshot, whatever the readers did to
		// the records while it was written.
		last := worlds[nSyncs]
		db2 := newDB()
		seenP := map[*agd.Profile]bool{}
		seenD := map[*agd.Device]bool{}
		for _, k := range keys {
			p, d, err := vc14rtLookup(ctx, db2, k)
			wp, wd := last.owner(k)
			if (err == nil) != (wp != nil) || (err == nil && (p.ID != wp.ID || d.ID != wd.ID)) {
				fail("restarted database: %s: got %v %v %v, want %v %v", k, p, d, err, wp, wd)
			}

			if err != nil {
				continue
			}

			var diffs []string
			if !seenP[p] {
				seenP[p] = true
				diffs = append(diffs, vc14rtDiffProfile(wp, p, pr)...)
			}

			if !seenD[d] {
				seenD[d] = true
				dd, nh := vc14rtDiffDevice(wd, d, pr)
				diffs = append(diffs, dd...)
				if nh {
					diffs = append(diffs, fmt.Sprintf("device %q: nil password hash", d.ID))
				}
			}

			if len(diffs) > 0 {
				fail("restarted database: %s: settings differ from the last snapshot:\n  %s", k, strings.Join(diffs, "\n  "))
			}
		}

		cl := []string{"restart-equals-last-snapshot"}
		if last.zoned() {
			cl = append(cl, "zoned-ipv6-key")
		}

		nt := ""
		if overlapped.Load() > 0 {
			cl = append(cl, "lookup-during-sync")
			nt = vc14rtDescribe(last) + strings.Join(desc, ";")
		}

		if used.Load() > 0 {
			cl = append(cl, "record-used-during-sync")
		}

		st.Case(nt, cl...)
	})
}
