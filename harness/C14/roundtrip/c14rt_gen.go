//go:build verif

package profiledb

// C14 (b), (c), (d): shared generators, builders and the semantic comparison
// used by the restart, store/load round-trip and kill-point checks.
//
// A profile / device is generated as a plain-data "spec".  The agd objects
// handed to the code under test are built from the spec; what comes back from
// the file cache is compared with the spec through accessors and behaviour
// probes (never reflect.DeepEqual: nil vs empty slices and engine internals
// differ legitimately).

import (
	"context"
	"encoding/json"
	"fmt"
	"net/netip"
	"os"
	"slices"
	"strings"
	"sync"
	"testing"
	"time"
	"unicode/utf8"

	"github.com/AdguardTeam/AdGuardDNS/internal/access"
	"github.com/AdguardTeam/AdGuardDNS/internal/agd"
	"github.com/AdguardTeam/AdGuardDNS/internal/agdpasswd"
	"github.com/AdguardTeam/AdGuardDNS/internal/agdtime"
	"github.com/AdguardTeam/AdGuardDNS/internal/dnsmsg"
	"github.com/AdguardTeam/AdGuardDNS/internal/filter"
	"github.com/AdguardTeam/AdGuardDNS/internal/geoip"
	"github.com/c2h5oh/datasize"
	"github.com/miekg/dns"
	"golang.org/x/crypto/bcrypt"
	"pgregory.net/rapid"
)

// vc14rtFindingNilHash is the id of the finding "a device whose authentication
// is enabled without a password comes back from the file cache with a nil
// PasswordHash".
const vc14rtFindingNilHash = "filecache-auth-enabled-without-password-loads-nil-hash"

// Pools.  Small on purpose: collisions and hits must be frequent.
var (
	// "p1"/"P1" and "d1"/"D1"/"d11" are near misses of each other (letter case,
	// shared prefix).
	vc14rtProfIDs = []agd.ProfileID{"p1", "P1", "P2!x", "a~b#c$d%", "zz"}
	vc14rtDevIDs  = []agd.DeviceID{"d1", "D1", "d11", "dev-2", "abcdefgh", "x", "d6"}

	vc14rtLinked = []netip.Addr{
		netip.MustParseAddr("192.0.2.1"),
		netip.MustParseAddr("192.0.2.2"),
		netip.MustParseAddr("2001:db8::1"),
		netip.MustParseAddr("::ffff:192.0.2.77"),
		// The IPv4-mapped form of the first entry: a different key.
		netip.MustParseAddr("::ffff:192.0.2.1"),
		// Zero-valued but valid addresses (netip.Addr{} means "none").
		netip.MustParseAddr("0.0.0.0"),
		// Scoped (zoned) IPv6 addresses: netip.Addr.UnmarshalBinary yields them
		// for a backend byte string longer than 16 octets.  The zoned and the
		// zoneless form of one address are DIFFERENT keys (near miss).
		netip.MustParseAddr("fe80::1%eth0"),
		netip.MustParseAddr("fe80::1"),
		netip.MustParseAddr("fe80::2%1"),
	}
	vc14rtDed = []netip.Addr{
		netip.MustParseAddr("198.51.100.1"),
		netip.MustParseAddr("198.51.100.2"),
		netip.MustParseAddr("2001:db8:d::1"),
		netip.MustParseAddr("2001:db8:d::2"),
		netip.MustParseAddr("198.51.100.3"),
		netip.MustParseAddr("::"),
		netip.MustParseAddr("fe80::d%eth0"),
		netip.MustParseAddr("fe80::d"),
		netip.MustParseAddr("fe80::d%1"),
		netip.MustParseAddr("fe80::e%a-rather-long-interface-name.with.dots_and-more-0123456789"),
	}
	vc14rtHumans = []agd.HumanIDLower{"", "tv", "tv-2", "phone", "my-device-x--10"}

	vc14rtNets = []netip.Prefix{
		netip.MustParsePrefix("192.0.2.0/24"),
		netip.MustParsePrefix("192.0.2.128/25"),
		netip.MustParsePrefix("198.51.100.0/24"),
		netip.MustParsePrefix("203.0.113.7/32"),
		netip.MustParsePrefix("2001:db8::/32"),
		netip.MustParsePrefix("2001:db8:1::/48"),
		netip.MustParsePrefix("10.1.2.3/8"), // not masked on purpose
		// Unaligned, adjacent and overlapping ones.
		netip.MustParsePrefix("198.51.100.64/26"),
		netip.MustParsePrefix("203.0.113.8/31"),
		netip.MustParsePrefix("2001:db8:8000::/33"),
		netip.MustParsePrefix("2001:db8:1::5/128"),
		netip.MustParsePrefix("0.0.0.0/0"),
		netip.MustParsePrefix("::/0"),
		netip.MustParsePrefix("128.0.0.0/1"),
	}
	vc14rtProbeIPs = []netip.Addr{
		netip.MustParseAddr("192.0.2.1"),
		netip.MustParseAddr("192.0.2.200"),
		netip.MustParseAddr("198.51.100.9"),
		netip.MustParseAddr("203.0.113.7"),
		netip.MustParseAddr("203.0.113.8"),
		netip.MustParseAddr("2001:db8::1"),
		netip.MustParseAddr("2001:db8:1::5"),
		netip.MustParseAddr("2001:db9::1"),
		netip.MustParseAddr("10.9.9.9"),
		netip.MustParseAddr("8.8.8.8"),
		netip.MustParseAddr("198.51.100.63"),
		netip.MustParseAddr("198.51.100.64"),
		netip.MustParseAddr("203.0.113.9"),
		netip.MustParseAddr("2001:db8:8000::1"),
		netip.MustParseAddr("2001:db8:7fff::1"),
		netip.MustParseAddr("0.0.0.0"),
	}
	vc14rtASNs = []uint32{0, 1, 2, 64500, 4294967295}
	// -1 stands for "no location".
	vc14rtProbeASNs = []int64{-1, 0, 1, 2, 7, 64500, 4294967295}

	vc14rtDomainRules = []string{
		"block.test",
		"||ads.example^",
		"|exact.example|",
		"*.wild.example",
		"@@||ok.ads.example^",
		"||typed.example^$dnstype=AAAA",
		"BLOCK-UPPER.test",
		"/regex[0-9]+\\.test/",
		"||пример.рф^",
	}
	vc14rtProbeNames = []string{
		"block.test.", "sub.ads.example.", "ok.ads.example.", "exact.example.", "a.wild.example.",
		"typed.example.", "block-upper.test.", "regex12.test.", "free.example.",
	}

	vc14rtCustomRules = []string{
		"|blocked-by-custom.example", "||x.test^$dnsrewrite=1.2.3.4", "@@||allow.test^", "# comment", "",
		"||юникод.test^", "a b\tc",
		// Exactly the maximum rule length (filter.MaxRuleTextRuneLen).
		"||" + strings.Repeat("a", 1024-3) + "^",
	}
	vc14rtServices = []string{"youtube", "9gag", "a.b-c_d", "X!"}
	vc14rtListIDs  = []string{"adguard_dns_filter", "1", "list-2", "z~z"}
	vc14rtZones    = []string{"UTC", "", "Europe/Brussels", "America/New_York", "Asia/Kolkata", "Australia/Lord_Howe", "Pacific/Chatham"}
	vc14rtNames    = []string{"", "dev1", "Dev1", "My Phone", "Телефон Ивана", "客厅电视 📺", "a\"b\\c\nd", "x",
		strings.Repeat("я", agd.MaxDeviceNameRuneLen)}
	vc14rtTTLs     = []time.Duration{0, time.Second, 10 * time.Second, time.Hour, 1, 1500 * time.Millisecond, -time.Second, 1<<62 + 12345}
	vc14rtRPS      = []uint32{1, 2, 3, 5, 5, 100, 20000, 0}
	vc14rtEsts     = []datasize.ByteSize{256 * datasize.B, 1 * datasize.KB}
	vc14rtPasswds  = []string{"correct horse", "pässwörd", ""}
	vc14rtProbeTS  = []int64{
		1711846740, // 2024-03-31 00:59 UTC, just before the EU DST switch
		1711850400, // 2024-03-31 02:00 UTC
		1730595600, // 2024-11-03, US DST switch day
		1735689599, // 2024-12-31 23:59:59 UTC
		1719792000, // 2024-07-01 00:00 UTC
	}
)

var (
	vc14rtHashOnce sync.Once
	vc14rtHashes   [][]byte
)

// vc14rtHash returns a real bcrypt hash (minimum cost) of password i.
func vc14rtHash(i int) (h []byte) {
	vc14rtHashOnce.Do(func() {
		for _, p := range vc14rtPasswds {
			b, err := bcrypt.GenerateFromPassword([]byte(p), bcrypt.MinCost)
			if err != nil {
				panic(err)
			}

			vc14rtHashes = append(vc14rtHashes, b)
		}
	})

	return slices.Clone(vc14rtHashes[i])
}

// Specs.

type vc14rtAccessSpec struct {
	AllowedNets []netip.Prefix
	BlockedNets []netip.Prefix
	AllowedASN  []uint32
	BlockedASN  []uint32
	Rules       []string
}

type vc14rtRLSpec struct {
	Subnets []netip.Prefix
	RPS     uint32
}

type vc14rtSchedSpec struct {
	TZ string
	// Days is indexed by time.Weekday; nil = no interval.
	Days [7]*[2]uint16
}

type vc14rtProfSpec struct {
	ID        agd.ProfileID
	DeviceIDs []agd.DeviceID
	TTL       time.Duration

	Auto, Chrome, Firefox, Relay, Deleted, Filtering, IPLog, QueryLog bool

	Mode   string // null | nxdomain | refused | custom
	ModeV4 []netip.Addr
	ModeV6 []netip.Addr

	Access *vc14rtAccessSpec // nil: access.EmptyProfile
	RL     *vc14rtRLSpec     // nil: agd.GlobalRatelimiter

	CustomID      string
	CustomTime    time.Time
	CustomRules   []string
	CustomEnabled bool

	Sched      *vc14rtSchedSpec
	Services   []string
	ParEnabled bool
	Adult      bool
	SSGeneral  bool
	SSYouTube  bool

	ListIDs     []string
	ListEnabled bool

	SBEnabled, SBDangerous, SBNewly bool

	// EmptyNonNil makes the builder use empty non-nil slices where a list is
	// empty, instead of nil ones.
	EmptyNonNil bool
}

type vc14rtDevSpec struct {
	ID        agd.DeviceID
	Linked    netip.Addr
	Name      string
	Human     agd.HumanIDLower
	Ded       []netip.Addr
	Filtering bool

	Auth    string // disabled | allow | bcrypt | badhash | emptyhash
	DoHOnly bool
	Passwd  int

	EmptyNonNil bool
}

type vc14rtWorld struct {
	Profs []*vc14rtProfSpec
	Devs  []*vc14rtDevSpec

	// TwinProfile / TwinDevice name the single difference between the first
	// two profiles / devices if they were generated as near misses.
	TwinProfile string `json:",omitempty"`
	TwinDevice  string `json:",omitempty"`
}

func (w *vc14rtWorld) prof(id agd.ProfileID) *vc14rtProfSpec {
	for _, p := range w.Profs {
		if p.ID == id {
			return p
		}
	}

	return nil
}

func (w *vc14rtWorld) dev(id agd.DeviceID) *vc14rtDevSpec {
	for _, d := range w.Devs {
		if d.ID == id {
			return d
		}
	}

	return nil
}

// ownerOf returns the profile that lists device id.
func (w *vc14rtWorld) ownerOf(id agd.DeviceID) *vc14rtProfSpec {
	for _, p := range w.Profs {
		if slices.Contains(p.DeviceIDs, id) {
			return p
		}
	}

	return nil
}

// vc14rtDescribe renders a world as the identity / description of a case.
func vc14rtDescribe(w *vc14rtWorld) string {
	b, err := json.Marshal(w)
	if err != nil {
		return fmt.Sprintf("%+v", w)
	}

	return string(b)
}

// Generators (constructive, no rejection).

func vc14rtSubset[T any](t *rapid.T, label string, pool []T, maxN int) (out []T) {
	n := rapid.IntRange(0, min(maxN, len(pool))).Draw(t, label+"N")
	if n == 0 {
		return nil
	}

	perm := rapid.Permutation(pool).Draw(t, label)

	return slices.Clone(perm[:n])
}

func vc14rtDrawString(t *rapid.T, label string, pool []string, maxRunes int) (s string) {
	if rapid.IntRange(0, 3).Draw(t, label+"Kind") > 0 {
		return rapid.SampledFrom(pool).Draw(t, label)
	}

	s = rapid.StringN(0, maxRunes, -1).Draw(t, label+"Free")
	if !utf8.ValidString(s) || utf8.RuneCountInString(s) > maxRunes {
		// The backend protocol carries proto3 strings: always valid UTF-8.
		return pool[0]
	}

	return s
}

func vc14rtDrawSched(t *rapid.T) (s *vc14rtSchedSpec) {
	if !rapid.Bool().Draw(t, "hasSched") {
		return nil
	}

	s = &vc14rtSchedSpec{TZ: rapid.SampledFrom(vc14rtZones).Draw(t, "tz")}
	for i := range s.Days {
		switch rapid.IntRange(0, 4).Draw(t, fmt.Sprintf("day%dKind", i)) {
		case 0:
			// no interval
		case 1:
			s.Days[i] = &[2]uint16{0, 0}
		case 2:
			s.Days[i] = &[2]uint16{0, filter.MaxDayIntervalEndMinutes}
		default:
			a := rapid.IntRange(0, filter.MaxDayIntervalStartMinutes).Draw(t, fmt.Sprintf("day%dStart", i))
			b := rapid.IntRange(a, filter.MaxDayIntervalEndMinutes).Draw(t, fmt.Sprintf("day%dEnd", i))
			s.Days[i] = &[2]uint16{uint16(a), uint16(b)}
		}
	}

	return s
}

func vc14rtDrawProf(t *rapid.T, id agd.ProfileID) (p *vc14rtProfSpec) {
	b := func(l string) bool { return rapid.Bool().Draw(t, l) }
	p = &vc14rtProfSpec{
		ID:        id,
		TTL:       rapid.SampledFrom(vc14rtTTLs).Draw(t, "ttl"),
		Auto:      b("auto"),
		Chrome:    b("chrome"),
		Firefox:   b("firefox"),
		Relay:     b("relay"),
		Deleted:   b("deleted"),
		Filtering: b("filtering"),
		IPLog:     b("iplog"),
		QueryLog:  b("querylog"),

		CustomID:      string(id),
		CustomRules:   nil,
		CustomEnabled: false,

		ParEnabled: b("parEnabled"),
		Adult:      b("adult"),
		SSGeneral:  b("ssGeneral"),
		SSYouTube:  b("ssYouTube"),

		ListEnabled: b("listEnabled"),

		SBEnabled:   b("sbEnabled"),
		SBDangerous: b("sbDangerous"),
		SBNewly:     b("sbNewly"),

		EmptyNonNil: b("emptyNonNil"),
	}

	if rapid.IntRange(0, 9).Draw(t, "ttlFree") == 0 {
		p.TTL = time.Duration(rapid.Int64().Draw(t, "ttlAny"))
	}

	p.Mode = rapid.SampledFrom([]string{"null", "nxdomain", "refused", "custom", "custom", "custom"}).Draw(t, "mode")
	if p.Mode == "custom" {
		v4 := []netip.Addr{netip.MustParseAddr("192.0.2.53"), netip.MustParseAddr("0.0.0.0"), netip.MustParseAddr("203.0.113.200")}
		v6 := []netip.Addr{netip.MustParseAddr("2001:db8::53"), netip.MustParseAddr("::"), netip.MustParseAddr("::ffff:1.2.3.4"),
			netip.MustParseAddr("fe80::53%eth0")}
		switch rapid.SampledFrom([]string{"v4", "v6", "both"}).Draw(t, "customKind") {
		case "v4":
			p.ModeV4 = v4[:rapid.IntRange(1, 2).Draw(t, "n4")]
		case "v6":
			p.ModeV6 = v6[:rapid.IntRange(1, 4).Draw(t, "n6")]
		default:
			p.ModeV4 = v4[rapid.IntRange(0, 2).Draw(t, "i4"):]
			p.ModeV6 = v6[rapid.IntRange(0, 3).Draw(t, "i6"):]
		}
	}

	if rapid.IntRange(0, 3).Draw(t, "accessKind") > 0 {
		p.Access = &vc14rtAccessSpec{
			AllowedNets: vc14rtSubset(t, "allowedNets", vc14rtNets, 3),
			BlockedNets: vc14rtSubset(t, "blockedNets", vc14rtNets, 3),
			AllowedASN:  vc14rtSubset(t, "allowedASN", vc14rtASNs, 2),
			BlockedASN:  vc14rtSubset(t, "blockedASN", vc14rtASNs, 2),
			Rules:       vc14rtSubset(t, "domainRules", vc14rtDomainRules, 4),
		}
	}

	if rapid.IntRange(0, 2).Draw(t, "rlKind") > 0 {
		p.RL = &vc14rtRLSpec{
			Subnets: vc14rtSubset(t, "rlSubnets", vc14rtNets[:7], 2),
			RPS:     rapid.SampledFrom(vc14rtRPS).Draw(t, "rps"),
		}
	}

	if rapid.Bool().Draw(t, "customTimeZero") {
		p.CustomTime = time.Time{}
	} else {
		p.CustomTime = time.Unix(rapid.Int64Range(0, 4_000_000_000).Draw(t, "customSec"),
			rapid.Int64Range(0, 999_999_999).Draw(t, "customNsec"))
		if b("customTimeUTC") {
			p.CustomTime = p.CustomTime.UTC()
		}
	}

	nRules := rapid.IntRange(0, 3).Draw(t, "nCustomRules")
	for i := 0; i < nRules; i++ {
		p.CustomRules = append(p.CustomRules, vc14rtDrawString(t, "customRule", vc14rtCustomRules, 40))
	}

	// The backend enables the custom filter iff there are rules; the flag is
	// still an independent field of the cache, so vary it independently.
	p.CustomEnabled = b("customEnabled")
	if b("customIDFree") {
		p.CustomID = vc14rtDrawString(t, "customID", []string{"", "other-id"}, 12)
	}

	p.Sched = vc14rtDrawSched(t)
	p.Services = vc14rtSubset(t, "services", vc14rtServices, 3)
	p.ListIDs = vc14rtSubset(t, "listIDs", vc14rtListIDs, 3)

	return p
}

func vc14rtDrawDev(t *rapid.T, id agd.DeviceID) (d *vc14rtDevSpec) {
	d = &vc14rtDevSpec{
		ID:          id,
		Name:        vc14rtDrawString(t, "devName", vc14rtNames, agd.MaxDeviceNameRuneLen),
		Filtering:   rapid.Bool().Draw(t, "devFiltering"),
		Auth:        rapid.SampledFrom([]string{"disabled", "allow", "bcrypt", "bcrypt", "badhash", "emptyhash"}).Draw(t, "auth"),
		EmptyNonNil: rapid.Bool().Draw(t, "devEmptyNonNil"),
	}

	if d.Auth != "disabled" {
		d.DoHOnly = rapid.Bool().Draw(t, "dohOnly")
	}

	if d.Auth == "bcrypt" {
		d.Passwd = rapid.IntRange(0, len(vc14rtPasswds)-1).Draw(t, "passwd")
	}

	return d
}

// vc14rtDrawWorld draws a consistent snapshot: device ids belong to at most one
// profile, linked and dedicated addresses are unique among devices, human ids
// are unique within a profile.  At least minDevs devices are attached.
func vc14rtDrawWorld(t *rapid.T, minDevs int, allowDeleted bool) (w *vc14rtWorld) {
	w = &vc14rtWorld{}
	nProf := rapid.IntRange(1, len(vc14rtProfIDs)).Draw(t, "nProf")
	ids := rapid.Permutation(vc14rtProfIDs).Draw(t, "profIDs")[:nProf]
	for _, id := range ids {
		p := vc14rtDrawProf(t, id)
		if !allowDeleted {
			p.Deleted = false
		}

		w.Profs = append(w.Profs, p)
	}

	// Near miss: the second profile is the first one with exactly one setting
	// changed (and its own id).
	if nProf >= 2 && rapid.IntRange(0, 2).Draw(t, "twinProfile") == 0 {
		tw := vc14rtCloneWorld(&vc14rtWorld{Profs: w.Profs[:1]}).Profs[0]
		tw.ID = w.Profs[1].ID
		if !allowDeleted {
			tw.Deleted = false
		}

		w.TwinProfile = vc14rtMutateProf(t, tw)
		w.Profs[1] = tw
	}

	freeLinked := slices.Clone(vc14rtLinked)
	freeDed := slices.Clone(vc14rtDed)
	for _, id := range vc14rtDevIDs {
		owner := rapid.IntRange(-1, nProf-1).Draw(t, "owner")
		if owner < 0 && len(w.Devs) < minDevs {
			owner = 0
		}

		if owner < 0 {
			continue
		}

		d := vc14rtDrawDev(t, id)
		p := w.Profs[owner]

		if len(freeLinked) > 0 && rapid.Bool().Draw(t, "hasLinked") {
			i := rapid.IntRange(0, len(freeLinked)-1).Draw(t, "linked")
			d.Linked = freeLinked[i]
			freeLinked = slices.Delete(freeLinked, i, i+1)
		}

		nDed := rapid.IntRange(0, min(2, len(freeDed))).Draw(t, "nDed")
		for j := 0; j < nDed; j++ {
			i := rapid.IntRange(0, len(freeDed)-1).Draw(t, "ded")
			d.Ded = append(d.Ded, freeDed[i])
			freeDed = slices.Delete(freeDed, i, i+1)
		}

		h := rapid.SampledFrom(vc14rtHumans).Draw(t, "human")
		for _, o := range p.DeviceIDs {
			if w.dev(o).Human == h {
				h = ""
			}
		}

		d.Human = h
		p.DeviceIDs = append(p.DeviceIDs, id)
		w.Devs = append(w.Devs, d)
	}

	// Near miss: the second device has the first one's settings with exactly
	// one changed (and its own id and keys).
	if len(w.Devs) >= 2 && rapid.IntRange(0, 2).Draw(t, "twinDevice") == 0 {
		a, b := w.Devs[0], w.Devs[1]
		b.Name, b.Filtering, b.Auth, b.DoHOnly, b.Passwd, b.EmptyNonNil = a.Name, a.Filtering, a.Auth, a.DoHOnly, a.Passwd, a.EmptyNonNil
		w.TwinDevice = vc14rtMutateDev(t, b)
	}

	return w
}

// vc14rtCloneWorld returns a deep copy of w.
func vc14rtCloneWorld(w *vc14rtWorld) (c *vc14rtWorld) {
	b, err := json.Marshal(w)
	if err != nil {
		panic(fmt.Errorf("harness: cloning world: %w", err))
	}

	c = &vc14rtWorld{}
	if err = json.Unmarshal(b, c); err != nil {
		panic(fmt.Errorf("harness: cloning world: %w", err))
	}

	return c
}

// vc14rtMutateProf changes exactly one setting of p and names it.
func vc14rtMutateProf(t *rapid.T, p *vc14rtProfSpec) (what string) {
	flags := []*bool{&p.Auto, &p.Chrome, &p.Firefox, &p.Relay, &p.Filtering, &p.IPLog, &p.QueryLog, &p.CustomEnabled,
		&p.ParEnabled, &p.Adult, &p.SSGeneral, &p.SSYouTube, &p.ListEnabled, &p.SBEnabled, &p.SBDangerous, &p.SBNewly}
	reverse := func(l []string) bool {
		if len(l) < 2 || l[0] == l[len(l)-1] {
			return false
		}

		slices.Reverse(l)

		return true
	}

	switch k := rapid.IntRange(0, 11).Draw(t, "mutation"); k {
	case 0:
		p.TTL++

		return "ttl+1ns"
	case 1:
		p.Mode, p.ModeV4, p.ModeV6 = map[string]string{"null": "nxdomain", "nxdomain": "refused", "refused": "null", "custom": "null"}[p.Mode], nil, nil

		return "blocking mode"
	case 2:
		if p.Mode == "custom" && len(p.ModeV4) > 0 {
			p.ModeV4 = append(slices.Clone(p.ModeV4[:len(p.ModeV4)-1]), netip.MustParseAddr("192.0.2.54"))

			return "custom ipv4"
		}
	case 3:
		if p.Access == nil {
			p.Access = &vc14rtAccessSpec{}

			return "access: empty manager -> manager without rules"
		} else if reverse(p.Access.Rules) {
			return "access: rule order"
		} else if len(p.Access.BlockedNets) > 0 {
			p.Access.AllowedNets, p.Access.BlockedNets = append(p.Access.AllowedNets, p.Access.BlockedNets[0]), p.Access.BlockedNets[1:]

			return "access: one net moved from blocked to allowed"
		}
	case 4:
		if p.Access != nil && len(p.Access.BlockedASN) > 0 {
			p.Access.AllowedASN, p.Access.BlockedASN = append(p.Access.AllowedASN, p.Access.BlockedASN[0]), p.Access.BlockedASN[1:]

			return "access: one asn moved from blocked to allowed"
		}
	case 5:
		if p.RL == nil {
			p.RL = &vc14rtRLSpec{RPS: 1}
		} else {
			p.RL.RPS++
		}

		return "rate limit +1"
	case 6:
		if p.Sched == nil {
			p.Sched = &vc14rtSchedSpec{TZ: "UTC"}

			return "schedule: none -> empty"
		}

		for i, d := range p.Sched.Days {
			if d != nil && d[1] > d[0] {
				p.Sched.Days[i] = &[2]uint16{d[0], d[1] - 1}

				return "schedule: one end -1"
			}
		}

		p.Sched.Days[6] = &[2]uint16{0, 1}

		return "schedule: saturday 0-1"
	case 7:
		if p.Sched != nil {
			p.Sched.TZ = map[bool]string{true: "America/New_York", false: "Europe/Brussels"}[p.Sched.TZ == "Europe/Brussels"]

			return "schedule: time zone"
		}
	case 8:
		if reverse(p.CustomRules) {
			return "custom rule order"
		}

		p.CustomRules = append(p.CustomRules, "||one-more.test^")

		return "one more custom rule"
	case 9:
		if reverse(p.ListIDs) {
			return "rule-list order"
		} else if reverse(p.Services) {
			return "blocked-service order"
		}
	case 10:
		p.CustomTime = p.CustomTime.Add(time.Nanosecond)

		return "custom update time +1ns"
	}

	i := rapid.IntRange(0, len(flags)-1).Draw(t, "flag")
	*flags[i] = !*flags[i]

	return fmt.Sprintf("flag %d", i)
}

// vc14rtMutateDev changes exactly one non-key setting of d and names it.
func vc14rtMutateDev(t *rapid.T, d *vc14rtDevSpec) (what string) {
	switch rapid.IntRange(0, 4).Draw(t, "devMutation") {
	case 0:
		if d.Auth != "disabled" {
			d.DoHOnly = !d.DoHOnly

			return "doh-only"
		}
	case 1:
		if d.Auth == "bcrypt" {
			d.Passwd = (d.Passwd + 1) % len(vc14rtPasswds)

			return "password"
		}
	case 2:
		d.Auth = map[string]string{"disabled": "allow", "allow": "bcrypt", "bcrypt": "badhash", "badhash": "emptyhash", "emptyhash": "allow"}[d.Auth]
		if d.Auth != "bcrypt" {
			d.Passwd = 0
		}

		return "auth kind"
	case 3:
		if d.Name != "" && d.Name != strings.ToUpper(d.Name) && utf8.RuneCountInString(strings.ToUpper(d.Name)) <= agd.MaxDeviceNameRuneLen {
			d.Name = strings.ToUpper(d.Name)

			return "name letter case"
		} else if utf8.RuneCountInString(d.Name) < agd.MaxDeviceNameRuneLen {
			d.Name += "1"

			return "name +1 character"
		}
	}

	d.Filtering = !d.Filtering

	return "device filtering flag"
}

// vc14rtTweakWorld returns a copy of w with exactly one thing changed (a near
// miss of w), keeping the snapshot consistent.
func vc14rtTweakWorld(t *rapid.T, w *vc14rtWorld) (nw *vc14rtWorld, what string) {
	nw = vc14rtCloneWorld(w)
	if len(nw.Profs) == 0 {
		return nw, "nothing (no profiles)"
	} else if len(nw.Devs) == 0 {
		p := nw.Profs[rapid.IntRange(0, len(nw.Profs)-1).Draw(t, "profChanged")]

		return nw, fmt.Sprintf("profile %q: %s", p.ID, vc14rtMutateProf(t, p))
	}

	dev := func(label string) *vc14rtDevSpec { return nw.Devs[rapid.IntRange(0, len(nw.Devs)-1).Draw(t, label)] }
	usedLinked := func(ip netip.Addr) bool {
		return slices.ContainsFunc(nw.Devs, func(d *vc14rtDevSpec) bool { return d.Linked == ip })
	}
	usedDed := func(ip netip.Addr) bool {
		return slices.ContainsFunc(nw.Devs, func(d *vc14rtDevSpec) bool { return slices.Contains(d.Ded, ip) })
	}

	switch rapid.SampledFrom([]string{"move", "swapLinked", "relink", "ded", "human", "removeDev", "profSetting", "devSetting"}).Draw(t, "tweak") {
	case "move":
		if len(nw.Profs) < 2 {
			break
		}

		d := dev("moved")
		from := nw.ownerOf(d.ID)
		var others []*vc14rtProfSpec
		for _, p := range nw.Profs {
			if p != from {
				others = append(others, p)
			}
		}

		to := others[rapid.IntRange(0, len(others)-1).Draw(t, "movedTo")]
		for _, o := range to.DeviceIDs {
			if d.Human != "" && nw.dev(o).Human == d.Human {
				d.Human = ""
			}
		}

		from.DeviceIDs = slices.DeleteFunc(from.DeviceIDs, func(id agd.DeviceID) bool { return id == d.ID })
		to.DeviceIDs = append(to.DeviceIDs, d.ID)

		return nw, fmt.Sprintf("device %q moves from %q to %q", d.ID, from.ID, to.ID)
	case "swapLinked":
		if len(nw.Devs) < 2 {
			break
		}

		a, b := dev("swapA"), dev("swapB")
		if a == b || a.Linked == b.Linked {
			break
		}

		a.Linked, b.Linked = b.Linked, a.Linked

		return nw, fmt.Sprintf("devices %q and %q swap linked ips", a.ID, b.ID)
	case "relink":
		d := dev("relinked")
		// Prefer the sibling form (IPv4 <-> IPv4-mapped) of the current
		// address: the nearest miss.
		cands := append([]netip.Addr{}, vc14rtLinked...)
		if d.Linked.IsValid() {
			sib := d.Linked.Unmap()
			if !d.Linked.Is4In6() {
				sib = netip.AddrFrom16(d.Linked.As16())
			}

			cands = append([]netip.Addr{sib}, cands...)

			// The other near miss: the same address with / without a zone.
			if d.Linked.Zone() != "" {
				cands = append([]netip.Addr{d.Linked.WithZone("")}, cands...)
			} else if d.Linked.Is6() && !d.Linked.Is4In6() {
				cands = append([]netip.Addr{d.Linked.WithZone("eth0")}, cands...)
			}
		}

		for _, ip := range cands {
			if ip != d.Linked && !usedLinked(ip) && slices.Contains(vc14rtLinked, ip) {
				old := d.Linked
				d.Linked = ip

				return nw, fmt.Sprintf("device %q linked ip %v -> %v", d.ID, old, ip)
			}
		}

		if d.Linked.IsValid() {
			d.Linked = netip.Addr{}

			return nw, fmt.Sprintf("device %q loses its linked ip", d.ID)
		}
	case "ded":
		d := dev("dedChanged")
		if len(d.Ded) > 0 {
			d.Ded = d.Ded[:len(d.Ded)-1]

			return nw, fmt.Sprintf("device %q loses a dedicated ip", d.ID)
		}

		for _, ip := range vc14rtDed {
			if !usedDed(ip) {
				d.Ded = append(d.Ded, ip)

				return nw, fmt.Sprintf("device %q gains dedicated ip %v", d.ID, ip)
			}
		}
	case "human":
		d := dev("humanChanged")
		own := nw.ownerOf(d.ID)
		for _, h := range vc14rtHumans[1:] {
			free := h != d.Human
			for _, o := range own.DeviceIDs {
				free = free && nw.dev(o).Human != h
			}

			if free {
				old := d.Human
				d.Human = h

				return nw, fmt.Sprintf("device %q human id %q -> %q", d.ID, old, h)
			}
		}
	case "removeDev":
		if len(nw.Devs) < 2 {
			break
		}

		d := dev("removed")
		own := nw.ownerOf(d.ID)
		own.DeviceIDs = slices.DeleteFunc(own.DeviceIDs, func(id agd.DeviceID) bool { return id == d.ID })
		nw.Devs = slices.DeleteFunc(nw.Devs, func(o *vc14rtDevSpec) bool { return o == d })

		return nw, fmt.Sprintf("device %q is deleted", d.ID)
	case "devSetting":
		d := dev("devChanged")

		return nw, fmt.Sprintf("device %q: %s", d.ID, vc14rtMutateDev(t, d))
	}

	p := nw.Profs[rapid.IntRange(0, len(nw.Profs)-1).Draw(t, "profChanged")]

	return nw, fmt.Sprintf("profile %q: %s", p.ID, vc14rtMutateProf(t, p))
}

// vc14rtZoned reports whether the world has a device with a zoned IPv6 address
// as its linked or as a dedicated address.
func (w *vc14rtWorld) zoned() bool {
	for _, d := range w.Devs {
		if d.Linked.Zone() != "" || slices.ContainsFunc(d.Ded, func(ip netip.Addr) bool { return ip.Zone() != "" }) {
			return true
		}
	}

	return false
}

// Builders.

func vc14rtList[T any](s []T, emptyNonNil bool) []T {
	if len(s) == 0 {
		if emptyNonNil {
			return []T{}
		}

		return nil
	}

	return slices.Clone(s)
}

func vc14rtConv[A, B any](s []A, emptyNonNil bool, f func(A) B) (out []B) {
	if len(s) == 0 {
		if emptyNonNil {
			return []B{}
		}

		return nil
	}

	for _, v := range s {
		out = append(out, f(v))
	}

	return out
}

func (a *vc14rtAccessSpec) build(emptyNonNil bool) access.Profile {
	if a == nil {
		return access.EmptyProfile{}
	}

	return access.NewDefaultProfile(&access.ProfileConfig{
		AllowedNets:          vc14rtList(a.AllowedNets, emptyNonNil),
		BlockedNets:          vc14rtList(a.BlockedNets, emptyNonNil),
		AllowedASN:           vc14rtConv(a.AllowedASN, emptyNonNil, func(v uint32) geoip.ASN { return geoip.ASN(v) }),
		BlockedASN:           vc14rtConv(a.BlockedASN, emptyNonNil, func(v uint32) geoip.ASN { return geoip.ASN(v) }),
		BlocklistDomainRules: vc14rtList(a.Rules, emptyNonNil),
	})
}

func (s *vc14rtSchedSpec) build() *filter.ConfigSchedule {
	if s == nil {
		return nil
	}

	loc, err := agdtime.LoadLocation(s.TZ)
	if err != nil {
		panic(fmt.Errorf("harness: time zone %q: %w (tzdata missing?)", s.TZ, err))
	}

	week := &filter.WeeklySchedule{}
	for i, d := range s.Days {
		if d != nil {
			week[i] = &filter.DayInterval{Start: d[0], End: d[1]}
		}
	}

	return &filter.ConfigSchedule{Week: week, TimeZone: loc}
}

func (p *vc14rtProfSpec) build(est datasize.ByteSize) *agd.Profile {
	var m dnsmsg.BlockingMode
	switch p.Mode {
	case "null":
		m = &dnsmsg.BlockingModeNullIP{}
	case "nxdomain":
		m = &dnsmsg.BlockingModeNXDOMAIN{}
	case "refused":
		m = &dnsmsg.BlockingModeREFUSED{}
	case "custom":
		m = &dnsmsg.BlockingModeCustomIP{IPv4: vc14rtList(p.ModeV4, p.EmptyNonNil), IPv6: vc14rtList(p.ModeV6, p.EmptyNonNil)}
	default:
		panic("harness: bad mode " + p.Mode)
	}

	var rl agd.Ratelimiter = agd.GlobalRatelimiter{}
	if p.RL != nil {
		rl = agd.NewDefaultRatelimiter(&agd.RatelimitConfig{
			ClientSubnets: vc14rtList(p.RL.Subnets, p.EmptyNonNil),
			RPS:           p.RL.RPS,
			Enabled:       true,
		}, est)
	}

	return &agd.Profile{
		FilterConfig: &filter.ConfigClient{
			Custom: &filter.ConfigCustom{
				ID:         p.CustomID,
				UpdateTime: p.CustomTime,
				Rules:      vc14rtConv(p.CustomRules, p.EmptyNonNil, func(s string) filter.RuleText { return filter.RuleText(s) }),
				Enabled:    p.CustomEnabled,
			},
			Parental: &filter.ConfigParental{
				PauseSchedule:            p.Sched.build(),
				BlockedServices:          vc14rtConv(p.Services, p.EmptyNonNil, func(s string) filter.BlockedServiceID { return filter.BlockedServiceID(s) }),
				Enabled:                  p.ParEnabled,
				AdultBlockingEnabled:     p.Adult,
				SafeSearchGeneralEnabled: p.SSGeneral,
				SafeSearchYouTubeEnabled: p.SSYouTube,
			},
			RuleList: &filter.ConfigRuleList{
				IDs:     vc14rtConv(p.ListIDs, p.EmptyNonNil, func(s string) filter.ID { return filter.ID(s) }),
				Enabled: p.ListEnabled,
			},
			SafeBrowsing: &filter.ConfigSafeBrowsing{
				Enabled:                       p.SBEnabled,
				DangerousDomainsEnabled:       p.SBDangerous,
				NewlyRegisteredDomainsEnabled: p.SBNewly,
			},
		},
		Access:              p.Access.build(p.EmptyNonNil),
		BlockingMode:        m,
		Ratelimiter:         rl,
		ID:                  p.ID,
		DeviceIDs:           vc14rtList(p.DeviceIDs, p.EmptyNonNil),
		FilteredResponseTTL: p.TTL,
		AutoDevicesEnabled:  p.Auto,
		BlockChromePrefetch: p.Chrome,
		BlockFirefoxCanary:  p.Firefox,
		BlockPrivateRelay:   p.Relay,
		Deleted:             p.Deleted,
		FilteringEnabled:    p.Filtering,
		IPLogEnabled:        p.IPLog,
		QueryLogEnabled:     p.QueryLog,
	}
}

func (d *vc14rtDevSpec) build() *agd.Device {
	// The shapes are exactly those backendpb produces: disabled = not enabled
	// with the allow-all authenticator; enabled = allow-all (no password set)
	// or a bcrypt hash.
	auth := &agd.AuthSettings{PasswordHash: agdpasswd.AllowAuthenticator{}}
	switch d.Auth {
	case "disabled":
	case "allow":
		auth.Enabled, auth.DoHAuthOnly = true, d.DoHOnly
	case "bcrypt":
		auth.Enabled, auth.DoHAuthOnly = true, d.DoHOnly
		auth.PasswordHash = agdpasswd.NewPasswordHashBcrypt(vc14rtHash(d.Passwd))
	case "badhash":
		auth.Enabled, auth.DoHAuthOnly = true, d.DoHOnly
		auth.PasswordHash = agdpasswd.NewPasswordHashBcrypt([]byte("test"))
	case "emptyhash":
		auth.Enabled, auth.DoHAuthOnly = true, d.DoHOnly
		auth.PasswordHash = agdpasswd.NewPasswordHashBcrypt([]byte{})
	default:
		panic("harness: bad auth " + d.Auth)
	}

	return &agd.Device{
		Auth:             auth,
		ID:               d.ID,
		LinkedIP:         d.Linked,
		Name:             agd.DeviceName(d.Name),
		HumanIDLower:     d.Human,
		DedicatedIPs:     vc14rtList(d.Ded, d.EmptyNonNil),
		FilteringEnabled: d.Filtering,
	}
}

func (w *vc14rtWorld) build(est datasize.ByteSize) (ps []*agd.Profile, ds []*agd.Device) {
	for _, p := range w.Profs {
		ps = append(ps, p.build(est))
	}

	for _, d := range w.Devs {
		ds = append(ds, d.build())
	}

	return ps, ds
}

// Semantic comparison.

func vc14rtSameList[A, B any](a []A, b []B, eq func(A, B) bool) bool {
	if len(a) != len(b) {
		return false
	}

	for i := range a {
		if !eq(a[i], b[i]) {
			return false
		}
	}

	return true
}

func vc14rtMsg(name string, qt uint16) *dns.Msg {
	m := &dns.Msg{}
	m.SetQuestion(name, qt)

	return m
}

// vc14rtResp builds a response whose length is at least n octets.
func vc14rtResp(n int) *dns.Msg {
	m := vc14rtMsg("big.example.", dns.TypeTXT)
	m.Response = true
	for m.Len() < n {
		m.Answer = append(m.Answer, &dns.TXT{
			Hdr: dns.RR_Header{Name: "big.example.", Rrtype: dns.TypeTXT, Class: dns.ClassINET, Ttl: 1},
			Txt: []string{"0123456789012345678901234567890123456789"},
		})
	}

	return m
}

// vc14rtProbe carries the per-case drawn parts of the behaviour probes.
type vc14rtProbe struct {
	Times []time.Time
	// RespUnits is how many response-size estimates the probed response
	// spans.
	RespUnits int
	Est       datasize.ByteSize
	// Slow counts the rate-limit drop expectations skipped because the probe
	// itself took too long (wall clock is never a verdict).
	Slow int
	// Bcrypt tells whether to run the (slow) bcrypt probes.
	Bcrypt bool
	// NoRLBehaviour skips the counting probes of the rate limiter: they
	// assume a fresh counter, which an object that has already been used does
	// not have.
	NoRLBehaviour bool
}

func vc14rtDrawProbe(t *rapid.T, est datasize.ByteSize) *vc14rtProbe {
	pr := &vc14rtProbe{Est: est, RespUnits: rapid.IntRange(0, 3).Draw(t, "respUnits"), Bcrypt: rapid.IntRange(0, 3).Draw(t, "bcryptProbe") == 0}
	for _, ts := range vc14rtProbeTS {
		pr.Times = append(pr.Times, time.Unix(ts, 0))
	}

	for i := 0; i < 4; i++ {
		pr.Times = append(pr.Times, time.Unix(rapid.Int64Range(1704067200, 1798761600).Draw(t, "probeTime"), 0))
	}

	return pr
}

// vc14rtDiffProfile lists the differences between what spec describes and got.
func vc14rtDiffProfile(spec *vc14rtProfSpec, got *agd.Profile, pr *vc14rtProbe) (diffs []string) {
	add := func(f string, a ...any) { diffs = append(diffs, fmt.Sprintf("profile %q: ", spec.ID)+fmt.Sprintf(f, a...)) }
	if got == nil {
		add("nil profile")

		return diffs
	}

	if got.ID != spec.ID {
		add("ID %q", got.ID)
	}

	if !slices.Equal(got.DeviceIDs, spec.DeviceIDs) && !(len(got.DeviceIDs) == 0 && len(spec.DeviceIDs) == 0) {
		add("DeviceIDs %q, want %q", got.DeviceIDs, spec.DeviceIDs)
	}

	if got.FilteredResponseTTL != spec.TTL {
		add("FilteredResponseTTL %v, want %v", got.FilteredResponseTTL, spec.TTL)
	}

	for _, f := range []struct {
		name      string
		got, want bool
	}{
		{"AutoDevicesEnabled", got.AutoDevicesEnabled, spec.Auto},
		{"BlockChromePrefetch", got.BlockChromePrefetch, spec.Chrome},
		{"BlockFirefoxCanary", got.BlockFirefoxCanary, spec.Firefox},
		{"BlockPrivateRelay", got.BlockPrivateRelay, spec.Relay},
		{"Deleted", got.Deleted, spec.Deleted},
		{"FilteringEnabled", got.FilteringEnabled, spec.Filtering},
		{"IPLogEnabled", got.IPLogEnabled, spec.IPLog},
		{"QueryLogEnabled", got.QueryLogEnabled, spec.QueryLog},
	} {
		if f.got != f.want {
			add("%s %t, want %t", f.name, f.got, f.want)
		}
	}

	// Blocking mode.
	gotMode := ""
	var got4, got6 []netip.Addr
	switch m := got.BlockingMode.(type) {
	case *dnsmsg.BlockingModeNullIP:
		gotMode = "null"
	case *dnsmsg.BlockingModeNXDOMAIN:
		gotMode = "nxdomain"
	case *dnsmsg.BlockingModeREFUSED:
		gotMode = "refused"
	case *dnsmsg.BlockingModeCustomIP:
		gotMode = "custom"
		if m != nil {
			got4, got6 = m.IPv4, m.IPv6
		}
	default:
		gotMode = fmt.Sprintf("%T", got.BlockingMode)
	}

	eqAddr := func(a, b netip.Addr) bool { return a == b }
	if gotMode != spec.Mode || !vc14rtSameList(got4, spec.ModeV4, eqAddr) || !vc14rtSameList(got6, spec.ModeV6, eqAddr) {
		add("BlockingMode %s v4=%v v6=%v, want %s v4=%v v6=%v", gotMode, got4, got6, spec.Mode, spec.ModeV4, spec.ModeV6)
	}

	diffs = append(diffs, vc14rtDiffAccess(spec, got.Access)...)
	diffs = append(diffs, vc14rtDiffRL(spec, got.Ratelimiter, pr)...)

	fc := got.FilterConfig
	if fc == nil || fc.Custom == nil || fc.Parental == nil || fc.RuleList == nil || fc.SafeBrowsing == nil {
		add("FilterConfig has nil parts: %+v", fc)

		return diffs
	}

	eqStr := func(a filter.RuleText, b string) bool { return string(a) == b }
	if fc.Custom.ID != spec.CustomID || !fc.Custom.UpdateTime.Equal(spec.CustomTime) ||
		fc.Custom.UpdateTime.IsZero() != spec.CustomTime.IsZero() ||
		fc.Custom.Enabled != spec.CustomEnabled || !vc14rtSameList(fc.Custom.Rules, spec.CustomRules, eqStr) {
		add("Custom {ID:%q UpdateTime:%v Rules:%q Enabled:%t}, want {%q %v %q %t}", fc.Custom.ID, fc.Custom.UpdateTime,
			fc.Custom.Rules, fc.Custom.Enabled, spec.CustomID, spec.CustomTime, spec.CustomRules, spec.CustomEnabled)
	}

	par := fc.Parental
	if par.Enabled != spec.ParEnabled || par.AdultBlockingEnabled != spec.Adult ||
		par.SafeSearchGeneralEnabled != spec.SSGeneral || par.SafeSearchYouTubeEnabled != spec.SSYouTube ||
		!vc14rtSameList(par.BlockedServices, spec.Services, func(a filter.BlockedServiceID, b string) bool { return string(a) == b }) {
		add("Parental {Enabled:%t Adult:%t General:%t YouTube:%t Services:%q}, want {%t %t %t %t %q}", par.Enabled,
			par.AdultBlockingEnabled, par.SafeSearchGeneralEnabled, par.SafeSearchYouTubeEnabled, par.BlockedServices,
			spec.ParEnabled, spec.Adult, spec.SSGeneral, spec.SSYouTube, spec.Services)
	}

	diffs = append(diffs, vc14rtDiffSched(spec, par.PauseSchedule, pr)...)

	if fc.RuleList.Enabled != spec.ListEnabled ||
		!vc14rtSameList(fc.RuleList.IDs, spec.ListIDs, func(a filter.ID, b string) bool { return string(a) == b }) {
		add("RuleList {IDs:%q Enabled:%t}, want {%q %t}", fc.RuleList.IDs, fc.RuleList.Enabled, spec.ListIDs, spec.ListEnabled)
	}

	sb := fc.SafeBrowsing
	if sb.Enabled != spec.SBEnabled || sb.DangerousDomainsEnabled != spec.SBDangerous || sb.NewlyRegisteredDomainsEnabled != spec.SBNewly {
		add("SafeBrowsing %+v, want {%t %t %t}", *sb, spec.SBEnabled, spec.SBDangerous, spec.SBNewly)
	}

	return diffs
}

// blocked is the harness's own reading of the access settings (it does not ask
// package access): allow lists win over block lists for the client address and
// AS number; the probed names are matched by the pooled rules as listed.
func (a *vc14rtAccessSpec) blocked(ip netip.Addr, asn int64, name string, qt uint16) bool {
	inNets := func(nets []netip.Prefix) bool {
		for _, n := range nets {
			if n.Contains(ip) {
				return true
			}
		}

		return false
	}
	inASNs := func(l []uint32) bool { return asn >= 0 && slices.Contains(l, uint32(asn)) }
	has := func(r string) bool { return slices.Contains(a.Rules, r) }

	if !(inASNs(a.AllowedASN) || inNets(a.AllowedNets)) && (inASNs(a.BlockedASN) || inNets(a.BlockedNets)) {
		return true
	}

	switch name {
	case "block.test.":
		return has("block.test")
	case "sub.ads.example.":
		return has("||ads.example^")
	case "ok.ads.example.":
		return has("||ads.example^") && !has("@@||ok.ads.example^")
	case "exact.example.":
		return has("|exact.example|")
	case "a.wild.example.":
		return has("*.wild.example")
	case "typed.example.":
		return qt == dns.TypeAAAA && has("||typed.example^$dnstype=AAAA")
	case "block-upper.test.":
		return has("BLOCK-UPPER.test")
	case "regex12.test.":
		return has("/regex[0-9]+\\.test/")
	default:
		return false
	}
}

func vc14rtDiffAccess(spec *vc14rtProfSpec, got access.Profile) (diffs []string) {
	add := func(f string, a ...any) {
		diffs = append(diffs, fmt.Sprintf("profile %q: access: ", spec.ID)+fmt.Sprintf(f, a...))
	}
	if got == nil {
		add("nil")

		return diffs
	}

	want := spec.Access
	if want == nil {
		want = &vc14rtAccessSpec{}
	}

	conf := got.Config()
	if conf == nil {
		// Only an access manager that blocks nothing may have no
		// configuration.
		conf = &access.ProfileConfig{}
	}

	eqPref := func(a, b netip.Prefix) bool { return a == b }
	eqASN := func(a geoip.ASN, b uint32) bool { return uint32(a) == b }
	if !vc14rtSameList(conf.AllowedNets, want.AllowedNets, eqPref) {
		add("AllowedNets %v, want %v", conf.AllowedNets, want.AllowedNets)
	}

	if !vc14rtSameList(conf.BlockedNets, want.BlockedNets, eqPref) {
		add("BlockedNets %v, want %v", conf.BlockedNets, want.BlockedNets)
	}

	if !vc14rtSameList(conf.AllowedASN, want.AllowedASN, eqASN) {
		add("AllowedASN %v, want %v", conf.AllowedASN, want.AllowedASN)
	}

	if !vc14rtSameList(conf.BlockedASN, want.BlockedASN, eqASN) {
		add("BlockedASN %v, want %v", conf.BlockedASN, want.BlockedASN)
	}

	if !slices.Equal(conf.BlocklistDomainRules, want.Rules) && !(len(conf.BlocklistDomainRules) == 0 && len(want.Rules) == 0) {
		add("BlocklistDomainRules %q, want %q", conf.BlocklistDomainRules, want.Rules)
	}

	// Behaviour: the same verdicts as a manager freshly built from the spec.
	ref := want.build(false)
	neutral := netip.AddrPortFrom(netip.MustParseAddr("8.8.4.4"), 5353)
	plain := vc14rtMsg("free.example.", dns.TypeA)
	for _, ip := range vc14rtProbeIPs {
		for _, asn := range vc14rtProbeASNs {
			var loc *geoip.Location
			if asn >= 0 {
				loc = &geoip.Location{ASN: geoip.ASN(asn)}
			}

			ap := netip.AddrPortFrom(ip, 12345)
			g := got.IsBlocked(plain, ap, loc)
			if w := ref.IsBlocked(plain, ap, loc); g != w {
				add("IsBlocked(ip %v, asn %d) = %t, want %t", ip, asn, g, w)
			} else if m := want.blocked(ip, asn, "free.example.", dns.TypeA); g != m {
				add("IsBlocked(ip %v, asn %d) = %t, the settings say %t", ip, asn, g, m)
			}
		}
	}

	for _, name := range vc14rtProbeNames {
		for _, qt := range []uint16{dns.TypeA, dns.TypeAAAA} {
			req := vc14rtMsg(name, qt)
			g := got.IsBlocked(req, neutral, nil)
			if w := ref.IsBlocked(req, neutral, nil); g != w {
				add("IsBlocked(%s %s) = %t, want %t", name, dns.TypeToString[qt], g, w)
			} else if m := want.blocked(neutral.Addr(), -1, name, qt); g != m {
				add("IsBlocked(%s %s) = %t, the settings say %t", name, dns.TypeToString[qt], g, m)
			}
		}
	}

	return diffs
}

func vc14rtDiffRL(spec *vc14rtProfSpec, got agd.Ratelimiter, pr *vc14rtProbe) (diffs []string) {
	add := func(f string, a ...any) {
		diffs = append(diffs, fmt.Sprintf("profile %q: ratelimiter: ", spec.ID)+fmt.Sprintf(f, a...))
	}
	if got == nil {
		add("nil")

		return diffs
	}

	ctx := context.Background()
	req := vc14rtMsg("free.example.", dns.TypeA)
	conf := got.Config()
	if conf == nil {
		add("nil Config()")

		return diffs
	}

	if spec.RL == nil {
		if conf.Enabled || conf.RPS != 0 || len(conf.ClientSubnets) != 0 {
			add("config %+v, want the global (disabled) one", *conf)
		}

		for _, ip := range vc14rtProbeIPs[:3] {
			if res := got.Check(ctx, req, ip); res != agd.RatelimitResultUseGlobal {
				add("Check(%v) = %d, want use-global", ip, res)
			}
		}

		return diffs
	}

	if !conf.Enabled || conf.RPS != spec.RL.RPS ||
		!vc14rtSameList(conf.ClientSubnets, spec.RL.Subnets, func(a, b netip.Prefix) bool { return a == b }) {
		add("config %+v, want enabled rps=%d subnets=%v", *conf, spec.RL.RPS, spec.RL.Subnets)
	}

	var inside, outside netip.Addr
	for _, ip := range vc14rtProbeIPs {
		in := len(spec.RL.Subnets) == 0
		for _, n := range spec.RL.Subnets {
			in = in || n.Contains(ip)
		}

		if in && !inside.IsValid() {
			inside = ip
		} else if !in && !outside.IsValid() {
			outside = ip
		}
	}

	if outside.IsValid() {
		if res := got.Check(ctx, req, outside); res != agd.RatelimitResultUseGlobal {
			add("Check(%v outside the client subnets) = %d, want use-global", outside, res)
		}
	}

	if !inside.IsValid() || len(diffs) > 0 || pr.NoRLBehaviour {
		return diffs
	}

	if spec.RL.RPS > 5 {
		if res := got.Check(ctx, req, inside); res != agd.RatelimitResultPass {
			add("first Check(%v) = %d, want pass", inside, res)
		}

		return diffs
	}

	// Small limits: the response-size estimate and the limit are observed
	// through behaviour.  A response spanning k estimates counts as k
	// requests; then exactly rps-k further requests pass (that part does not
	// depend on timing: the counter's ring is not full yet) and the next one
	// is dropped if everything happened within the one-second window.
	resp := vc14rtResp(pr.RespUnits * int(pr.Est))
	k := resp.Len() / int(pr.Est)
	start := time.Now()
	startWall := start.UnixNano()
	got.CountResponses(ctx, resp, inside)
	for i := k; i < int(spec.RL.RPS); i++ {
		if res := got.Check(ctx, req, inside); res != agd.RatelimitResultPass {
			add("after a response of %d octets (estimate %d): request %d of rps %d = %d, want pass", resp.Len(), pr.Est, i+1, spec.RL.RPS, res)

			return diffs
		}
	}

	res := got.Check(ctx, req, inside)
	el, wallEl := time.Since(start), time.Duration(time.Now().UnixNano()-startWall)
	if el > 500*time.Millisecond || wallEl > 500*time.Millisecond || wallEl < 0 {
		// The limiter reads the wall clock; no verdict from a slow or
		// clock-stepped probe.
		pr.Slow++
	} else if res != agd.RatelimitResultDrop {
		add("after a response of %d octets (estimate %d) and %d requests at rps %d: next = %d, want drop", resp.Len(), pr.Est,
			max(0, int(spec.RL.RPS)-k), spec.RL.RPS, res)
	}

	return diffs
}

func vc14rtDiffSched(spec *vc14rtProfSpec, got *filter.ConfigSchedule, pr *vc14rtProbe) (diffs []string) {
	add := func(f string, a ...any) {
		diffs = append(diffs, fmt.Sprintf("profile %q: pause schedule: ", spec.ID)+fmt.Sprintf(f, a...))
	}
	if (got == nil) != (spec.Sched == nil) {
		add("present=%t, want %t", got != nil, spec.Sched != nil)

		return diffs
	} else if got == nil {
		return nil
	}

	if got.Week == nil || got.TimeZone == nil {
		add("nil week or time zone: %+v", got)

		return diffs
	}

	ref := spec.Sched.build()
	if g, w := got.TimeZone.String(), ref.TimeZone.String(); g != w {
		add("time zone %q, want %q", g, w)
	}

	for i, d := range spec.Sched.Days {
		// A nil interval and a zero-length one mean the same.
		var w, g filter.DayInterval
		if d != nil {
			w = filter.DayInterval{Start: d[0], End: d[1]}
		}

		if got.Week[i] != nil {
			g = *got.Week[i]
		}

		if g != w && !(g.Start == g.End && w.Start == w.End) {
			add("%s %+v, want %+v", time.Weekday(i), g, w)
		}
	}

	for _, ts := range pr.Times {
		if g, w := got.Contains(ts), ref.Contains(ts); g != w {
			add("Contains(%v) = %t, want %t", ts.UTC(), g, w)
		}
	}

	return diffs
}

// vc14rtDiffDevice lists the differences between what spec describes and got.
// nilHash reports the recorded finding separately: authentication enabled
// without a password came back with a nil PasswordHash.
func vc14rtDiffDevice(spec *vc14rtDevSpec, got *agd.Device, pr *vc14rtProbe) (diffs []string, nilHash bool) {
	add := func(f string, a ...any) { diffs = append(diffs, fmt.Sprintf("device %q: ", spec.ID)+fmt.Sprintf(f, a...)) }
	if got == nil {
		add("nil device")

		return diffs, false
	}

	if got.ID != spec.ID {
		add("ID %q", got.ID)
	}

	if got.LinkedIP != spec.Linked {
		add("LinkedIP %v, want %v", got.LinkedIP, spec.Linked)
	}

	if string(got.Name) != spec.Name {
		add("Name %q, want %q", got.Name, spec.Name)
	}

	if got.HumanIDLower != spec.Human {
		add("HumanIDLower %q, want %q", got.HumanIDLower, spec.Human)
	}

	if !vc14rtSameList(got.DedicatedIPs, spec.Ded, func(a, b netip.Addr) bool { return a == b }) {
		add("DedicatedIPs %v, want %v", got.DedicatedIPs, spec.Ded)
	}

	if got.FilteringEnabled != spec.Filtering {
		add("FilteringEnabled %t, want %t", got.FilteringEnabled, spec.Filtering)
	}

	a := got.Auth
	if a == nil {
		add("nil Auth")

		return diffs, false
	}

	if a.Enabled != (spec.Auth != "disabled") || a.DoHAuthOnly != spec.DoHOnly {
		add("Auth {Enabled:%t DoHAuthOnly:%t}, want {%t %t}", a.Enabled, a.DoHAuthOnly, spec.Auth != "disabled", spec.DoHOnly)
	}

	if a.PasswordHash == nil {
		if spec.Auth == "allow" {
			// agd.AuthSettings: "PasswordHash ... is never nil"; devicefinder
			// calls conf.PasswordHash.Authenticate unconditionally.
			return diffs, true
		}

		add("nil Auth.PasswordHash (auth %s)", spec.Auth)

		return diffs, false
	}

	ctx := context.Background()
	switch spec.Auth {
	case "disabled", "allow":
		for _, pw := range []string{"", "anything"} {
			if !a.PasswordHash.Authenticate(ctx, []byte(pw)) {
				add("auth %s: Authenticate(%q) = false, want true (no password is set)", spec.Auth, pw)
			}
		}
	default:
		var want []byte
		switch spec.Auth {
		case "bcrypt":
			want = vc14rtHash(spec.Passwd)
		case "badhash":
			want = []byte("test")
		}

		h, ok := a.PasswordHash.(*agdpasswd.PasswordHashBcrypt)
		if !ok {
			add("auth %s: PasswordHash is %T, want a bcrypt hash", spec.Auth, a.PasswordHash)
		} else if string(h.PasswordHash()) != string(want) {
			add("auth %s: hash %q, want %q", spec.Auth, h.PasswordHash(), want)
		}

		if !pr.Bcrypt {
			break
		}

		right := spec.Passwd
		wrong := (spec.Passwd + 1) % len(vc14rtPasswds)
		if g, w := a.PasswordHash.Authenticate(ctx, []byte(vc14rtPasswds[right])), spec.Auth == "bcrypt"; g != w {
			add("auth %s: Authenticate(right password) = %t, want %t", spec.Auth, g, w)
		}

		if a.PasswordHash.Authenticate(ctx, []byte(vc14rtPasswds[wrong])) {
			add("auth %s: Authenticate(wrong password) = true", spec.Auth)
		}
	}

	return diffs, false
}

// vc14rtScratchDir returns a directory for the cache files of the in-process
// parts.  Every Store fsyncs; on a loaded machine that dominates the run time,
// so a memory-backed file system is preferred where there is one (the files are
// as real to the code under test; the kill-point part stays on t.TempDir()).
func vc14rtScratchDir(t *testing.T) string {
	if fi, err := os.Stat("/dev/shm"); err == nil && fi.IsDir() {
		if d, derr := os.MkdirTemp("/dev/shm", "vc14rt-"); derr == nil {
			t.Cleanup(func() { _ = os.RemoveAll(d) })

			return d
		}
	}

	return t.TempDir()
}

// vc14rtNeedZones makes the run inconclusive (not a violation) if the time-zone
// database is not available on this machine.
func vc14rtNeedZones(t *testing.T) {
	for _, z := range vc14rtZones {
		if _, err := agdtime.LoadLocation(z); err != nil {
			t.Logf("VERIF-INCONCLUSIVE: time zone %q cannot be loaded: %v", z, err)
			t.FailNow()
		}
	}
}

// vc14rtUse exercises freshly built objects the way the running service does
// before the cache file is written (profiledb.Refresh publishes the records
// before it stores them): access verdicts incl. blocked-name probes (which
// initialise the lazy engine), rate limiter Check / CountResponses, schedule
// Contains, Authenticate and the configuration accessors.  The probes are those
// of the comparison, so it also returns what a fresh object does differently
// from its specification (always nothing on a sound harness and tree).
func vc14rtUse(t *rapid.T, w *vc14rtWorld, profs []*agd.Profile, devs []*agd.Device, pr *vc14rtProbe) (usedP map[*agd.Profile]bool, usedD map[*agd.Device]bool, diffs []string) {
	usedP, usedD = map[*agd.Profile]bool{}, map[*agd.Device]bool{}
	for i, spec := range w.Profs {
		if rapid.Bool().Draw(t, "useProfileBeforeStore") {
			usedP[profs[i]] = true
			diffs = append(diffs, vc14rtDiffProfile(spec, profs[i], pr)...)
		}
	}

	for i, spec := range w.Devs {
		if rapid.Bool().Draw(t, "useDeviceBeforeStore") {
			usedD[devs[i]] = true
			dd, _ := vc14rtDiffDevice(spec, devs[i], pr)
			diffs = append(diffs, dd...)
		}
	}

	return usedP, usedD, diffs
}

// Local fakes (agdtest cannot be imported in-package: import cycle).

type vc14rtErrColl struct{}

func (vc14rtErrColl) Collect(context.Context, error) {}

type vc14rtStorage struct {
	next func(req *StorageProfilesRequest) (*StorageProfilesResponse, error)
	auto func(req *StorageCreateAutoDeviceRequest) (*StorageCreateAutoDeviceResponse, error)
}

func (s *vc14rtStorage) CreateAutoDevice(_ context.Context, req *StorageCreateAutoDeviceRequest) (*StorageCreateAutoDeviceResponse, error) {
	if s.auto == nil {
		panic("harness: unexpected call of Storage.CreateAutoDevice")
	}

	return s.auto(req)
}

func (s *vc14rtStorage) Profiles(_ context.Context, req *StorageProfilesRequest) (*StorageProfilesResponse, error) {
	if s.next == nil {
		panic("harness: unexpected call of Storage.Profiles")
	}

	return s.next(req)
}
