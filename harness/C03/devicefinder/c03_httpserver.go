//go:build verif

package devicefinder_test

// C03 through the real DoH server: what the device finder is shown is built by
// dnsserver.ServerHTTPS from a real HTTP request (URL, TLS server name,
// Authorization header).  The reference is the decision table of
// c03_devicefinder.go applied to what the request literally carries: an
// Authorization header of the Basic scheme with a decodable "user:password"
// value is credentials, also when the user name is empty; everything else is
// the absence of credentials.

import (
	"bytes"
	"context"
	"crypto/tls"
	"encoding/base64"
	"fmt"
	"io"
	"net/http"
	"net/netip"
	"net/url"
	"strings"
	"sync"
	"testing"
	"time"

	"github.com/AdguardTeam/AdGuardDNS/internal/agd"
	"github.com/AdguardTeam/AdGuardDNS/internal/dnsserver"
	"github.com/AdguardTeam/AdGuardDNS/internal/dnsserver/dnsservertest"
	"github.com/AdguardTeam/golibs/netutil"
	"github.com/miekg/dns"
	"pgregory.net/rapid"
	"verif.local/harness/vstat"
)

// vc03HTTPObs is what the server's handler was shown for one request.
type vc03HTTPObs struct {
	calls  int
	res    agd.DeviceResult
	hasUI  bool
	user   string
	pwSet  bool
	pw     string
	path   string
	sni    string
	hasURL bool
	raddr  netip.AddrPort
	laddr  netip.AddrPort
}

// vc03HTTPFixture is one real DoH server whose handler asks the finder of the
// current case, as the access/rate-limit middleware does.
type vc03HTTPFixture struct {
	mu  sync.Mutex
	cur agd.DeviceFinder
	obs vc03HTTPObs
}

func (f *vc03HTTPFixture) ServeDNS(ctx context.Context, rw dnsserver.ResponseWriter, req *dns.Msg) (err error) {
	f.mu.Lock()
	defer f.mu.Unlock()

	f.obs.calls++
	f.obs.raddr = netutil.NetAddrToAddrPort(rw.RemoteAddr())
	f.obs.laddr = netutil.NetAddrToAddrPort(rw.LocalAddr())
	if ri, ok := dnsserver.RequestInfoFromContext(ctx); ok {
		f.obs.sni = ri.TLSServerName
		if ri.URL != nil {
			f.obs.hasURL, f.obs.path = true, ri.URL.Path
		}

		if ri.Userinfo != nil {
			f.obs.hasUI, f.obs.user = true, ri.Userinfo.Username()
			f.obs.pw, f.obs.pwSet = ri.Userinfo.Password()
		}
	}

	f.obs.res = f.cur.Find(ctx, req, f.obs.raddr, f.obs.laddr)

	return rw.WriteMsg(ctx, req, (&dns.Msg{}).SetReply(req))
}

// Forms of the Authorization header.
const (
	vc03HdrAbsent      = iota
	vc03HdrBasic       // "Basic " + base64(user:pass)
	vc03HdrBasicLower  // "basic " + base64(user:pass): the scheme is case-insensitive
	vc03HdrBadBase64   // "Basic " + something that is not base64
	vc03HdrNoValue     // "Basic" alone
	vc03HdrNoColon     // "Basic " + base64(user)
	vc03HdrOtherScheme // "Bearer " + base64(user:pass)
)

var vc03HdrNames = [...]string{"absent", "basic", "basic-lower-case-scheme", "bad-base64", "no-value", "no-colon", "other-scheme"}

// vc03HTTPCase is a DoH case with the wire form of its credentials.
type vc03HTTPCase struct {
	*vc03Case

	Hdr      int
	HdrUser  string
	HdrPass  string
	UserKind string
	PassKind string
	// IDIn says where the generator put the target device's identifier.
	IDIn string
}

func (hc *vc03HTTPCase) header() (v string, ok bool) {
	creds := base64.StdEncoding.EncodeToString([]byte(hc.HdrUser + ":" + hc.HdrPass))
	switch hc.Hdr {
	case vc03HdrBasic:
		return "Basic " + creds, true
	case vc03HdrBasicLower:
		return "basic " + creds, true
	case vc03HdrBadBase64:
		return "Basic !!" + creds[:len(creds)/2] + "*", true
	case vc03HdrNoValue:
		return "Basic", true
	case vc03HdrNoColon:
		return "Basic " + base64.StdEncoding.EncodeToString([]byte(hc.HdrUser+hc.HdrPass)), true
	case vc03HdrOtherScheme:
		return "Bearer " + creds, true
	default:
		return "", false
	}
}

// carriesCredentials reports whether the header literally carries Basic
// credentials.
func (hc *vc03HTTPCase) carriesCredentials() (ok bool) {
	return hc.Hdr == vc03HdrBasic || hc.Hdr == vc03HdrBasicLower
}

func (hc *vc03HTTPCase) String() (s string) {
	hv, _ := hc.header()

	return fmt.Sprintf(
		"authorization=%q (form %s, user %q (%s), password %q (%s)), id in %s; %s",
		hv, vc03HdrNames[hc.Hdr], hc.HdrUser, hc.UserKind, hc.HdrPass, hc.PassKind, hc.IDIn, hc.vc03Case,
	)
}

func vc03GenHTTPCase(t *rapid.T) (hc *vc03HTTPCase) {
	w := vc03GenWorld(t)
	if w.Fault == vc03FaultCtxCancelled {
		// The server makes the context here; the harness cannot cancel it.
		w.Fault = vc03FaultNone
	}

	c := vc03GenSettings(t, w, agd.ProtoDoH)
	if len(c.Domains) == 0 && vc03Chance(t, "forceDomains", 80) {
		c.Domains = vc03DomainSets[1+vc03Uniform(t, "domainsIdx", len(vc03DomainSets)-1)]
	}

	hc = &vc03HTTPCase{vc03Case: c}

	// The device the request is about, and where its identifier travels.
	target := vc03From(t, "target", w.Devs)
	ident := func() (s string) {
		if vc03Chance(t, "identIsTarget", 75) {
			return vc03CaseVariant(t, target.ID)
		}

		return vc03GenIdent(t, w)
	}

	inPath, inSNI := false, false
	switch vc03Pick(t, "idIn", 35, 20, 15, 30) {
	case 0:
		inPath, hc.IDIn = true, "path"
	case 1:
		inSNI, hc.IDIn = true, "server-name"
	case 2:
		inPath, inSNI, hc.IDIn = true, true, "both"
	default:
		hc.IDIn = "neither"
	}

	switch {
	case vc03Chance(t, "generalPath", 15):
		c.Path = vc03GenPath(t, c)
	case inPath:
		c.Path = vc03From(t, "dnsPath", []string{"/dns-query", "/dns-query", "/resolve"}) + "/" + ident()
	default:
		c.Path = vc03From(t, "dnsPathBare", []string{"/dns-query", "/dns-query", "/resolve", "/dns-query/"})
	}

	switch {
	case len(c.Domains) == 0 || vc03Chance(t, "generalSNI", 15):
		c.SNI = vc03GenSNI(t, c)
	case inSNI:
		c.SNI = ident() + "." + vc03From(t, "sniDomain", c.Domains)
	case vc03Chance(t, "sniIsDomain", 50):
		c.SNI = vc03From(t, "sniBare", c.Domains)
	}

	vc03GenEDNS(t, c)

	// The Authorization header.
	hc.Hdr = vc03Pick(t, "hdr", 20, 50, 6, 6, 6, 6, 6)
	var named *vc03Dev
	switch vc03Pick(t, "hdrUser", 30, 15, 35, 10, 10) {
	case 0:
		named, hc.HdrUser, hc.UserKind = target, target.ID, "device-id"
	case 1:
		named = vc03From(t, "otherDev", w.Devs)
		hc.HdrUser, hc.UserKind = named.ID, "another-device-id"
	case 2:
		hc.HdrUser, hc.UserKind = "", "empty"
	case 3:
		named, hc.HdrUser, hc.UserKind = target, strings.ToUpper(target.ID), "upper-cased-id"
	default:
		hc.HdrUser, hc.UserKind = vc03NearID(t, w), "near-miss-id"
	}

	// With no user name the password can only be meant for the device that the
	// other channels name.
	if named == nil {
		named = target
	}

	switch vc03Pick(t, "hdrPass", 35, 35, 20, 10) {
	case 0:
		hc.HdrPass, hc.PassKind = named.Password, "right"
	case 1:
		hc.HdrPass, hc.PassKind = vc03WrongPassword(t, named.Password), "wrong"
	case 2:
		hc.HdrPass, hc.PassKind = "", "empty"
	default:
		hc.HdrPass, hc.PassKind = named.HashOf, "hash-of"
	}

	// A colon inside the user name would move the boundary; none of the pools
	// has one.
	if hc.carriesCredentials() {
		c.UI = &vc03Userinfo{User: hc.HdrUser, PwSet: true, Pw: hc.HdrPass, Kind: hc.PassKind}
	}

	return hc
}

// isJSONPath reports whether the server routes the path to the JSON API.
func vc03IsJSONPath(p string) (ok bool) {
	segs := vc03PathSegments(p)

	return len(segs) > 0 && strings.HasSuffix("resolve", segs[0])
}

// isRouted is the model of the server's routing: the first segment of the
// cleaned path is a DNS path or a suffix of one.
func vc03IsRouted(p string) (ok bool) {
	segs := vc03PathSegments(p)
	if len(segs) == 0 {
		return false
	}

	return strings.HasSuffix("dns-query", segs[0]) || strings.HasSuffix("resolve", segs[0])
}

func TestVerifC03HTTPServer(t *testing.T) {
	st := vstat.New("C03", "devicefinder.httpserver",
		"rapid: DoH worlds and requests sent as real HTTPS requests (drawn TLS server name, URL path, Authorization header forms: absent, Basic user:pass with user in {device id, another device's id, empty, upper-cased, near miss} and pass in {right, wrong, empty}, lower-case scheme, bad base64, no value, no colon, other scheme) to a real dnsserver.ServerHTTPS on loopback whose handler calls the real devicefinder; the result is compared with the decision table applied to what the request literally carries, and the RequestInfo the server built is compared with the request; non-trivial as in devicefinder.find",
		"nontrivial", "http:served", "http:not-routed",
		"basic-auth-with-empty-user-name-and-id-in-another-channel",
		"basic-auth-with-empty-user-name-and-auth-enabled-device-in-another-channel",
		"http:credentials", "http:hdr:absent", "http:hdr:bad-base64", "http:hdr:no-value", "http:hdr:no-colon",
		"http:hdr:other-scheme", "http:hdr:basic-lower-case-scheme",
		"http:id-in:path", "http:id-in:server-name", "http:id-in:both", "http:id-in:neither",
		"got:ok", "got:authfail", "got:error", "got:nil")
	st.Finish(t)

	fx := &vc03HTTPFixture{}
	srv, err := dnsservertest.RunLocalHTTPSServer(fx, dnsservertest.CreateServerTLSConfig("c03.example"), nil)
	if err != nil {
		fmt.Printf("VERIF-INCONCLUSIVE: cannot start the DoH server on loopback: %v\n", err)
		t.FailNow()
	}

	t.Cleanup(func() { _ = srv.Shutdown(context.Background()) })

	addr := srv.LocalTCPAddr().String()

	rapid.Check(t, func(t *rapid.T) {
		hc := vc03GenHTTPCase(t)
		c := hc.vc03Case

		// The message: wire format in a POST, or the JSON API's parameters.
		u := &url.URL{Scheme: "https", Host: addr, Path: c.Path}
		var r *http.Request
		var reqErr error
		if vc03IsJSONPath(c.Path) {
			// The JSON API has no EDNS options of the client's.
			c.HasOPT, c.Opts, c.Opts2 = false, nil, nil
			u.RawQuery = "name=c03.example.com&type=TXT"
			r, reqErr = http.NewRequest(http.MethodGet, u.String(), nil)
		} else {
			var packed []byte
			packed, reqErr = c.msg().Pack()
			if reqErr != nil {
				t.Fatalf("harness: packing: %v", reqErr)
			}

			r, reqErr = http.NewRequest(http.MethodPost, u.String(), bytes.NewReader(packed))
			if reqErr == nil {
				r.Header.Set("Content-Type", dnsserver.MimeTypeDoH)
			}
		}

		if reqErr != nil {
			t.Fatalf("harness: building the request: %v", reqErr)
		}

		if r.URL.Path != c.Path {
			t.Fatalf("harness: the request path is %q, wanted %q", r.URL.Path, c.Path)
		}

		if hv, ok := hc.header(); ok {
			r.Header.Set("Authorization", hv)
		}

		fx.mu.Lock()
		fx.cur, fx.obs = c.finder(), vc03HTTPObs{}
		fx.mu.Unlock()

		// One connection per request: the server name is per connection.
		tr := &http.Transport{
			TLSClientConfig:   &tls.Config{ServerName: c.SNI, InsecureSkipVerify: true},
			DisableKeepAlives: true,
		}
		defer tr.CloseIdleConnections()

		// The time-out only guards the harness against a dead fixture; it is
		// never a verdict.
		cl := &http.Client{Transport: tr, Timeout: 60 * time.Second}
		resp, doErr := cl.Do(r)
		if doErr != nil {
			fmt.Printf("VERIF-INCONCLUSIVE: C03 http: request failed: %v\ncase: %s\n", doErr, hc)
			t.FailNow()
		}

		_, _ = io.Copy(io.Discard, resp.Body)
		_ = resp.Body.Close()

		fx.mu.Lock()
		obs := fx.obs
		fx.mu.Unlock()

		c.Raddr, c.Laddr = obs.raddr, obs.laddr
		st.Class("http:hdr:"+vc03HdrNames[hc.Hdr], "http:id-in:"+hc.IDIn)

		if obs.calls == 0 {
			// Not a DNS path for the server, or not a DNS message: nothing is
			// attributed to anybody.
			if vc03IsRouted(c.Path) || resp.StatusCode == http.StatusOK {
				t.Fatalf("C03 http: the handler was not called (status %d) for a DNS path\ncase: %s", resp.StatusCode, hc)
			}

			st.Case("", "http:not-routed")

			return
		}

		if obs.calls != 1 {
			t.Fatalf("C03 http: the handler was called %d times\ncase: %s", obs.calls, hc)
		}

		// What the server made of the request.
		if !obs.hasURL || obs.path != c.Path {
			t.Fatalf("C03 http: the finder was shown URL path %q (present %t)\ncase: %s", obs.path, obs.hasURL, hc)
		}

		if obs.sni != c.SNI {
			t.Fatalf("C03 http: the finder was shown TLS server name %q\ncase: %s", obs.sni, hc)
		}

		if hc.carriesCredentials() {
			st.Class("http:credentials", "http:user:"+hc.UserKind, "http:pass:"+hc.PassKind)
		}

		// An empty user name with a password, while another channel names a
		// device.
		if hc.carriesCredentials() && hc.HdrUser == "" {
			w := c.World
			var other *vc03Dev
			if segs := vc03PathSegments(c.Path); len(segs) == 2 {
				other = w.devByID(strings.ToLower(segs[1]))
			}

			if label, ok := c.sniLabel(); ok && other == nil {
				other = w.devByID(strings.ToLower(label))
			}

			if w.state(other) == vc03LookOK {
				st.Class("basic-auth-with-empty-user-name-and-id-in-another-channel")
				if other.Auth == vc03AuthOn && !w.Profs[other.Owner].Deleted {
					st.Class("basic-auth-with-empty-user-name-and-auth-enabled-device-in-another-channel")
				}
			}
		}

		// The outcome first: it is what the statement is about.
		vc03Evaluate(t, st, c, obs.res)

		// Then the credentials as the server handed them on.
		switch {
		case hc.carriesCredentials() && !obs.hasUI:
			t.Fatalf("C03 http: the Authorization header carries credentials (user %q), the finder was shown none\ncase: %s", hc.HdrUser, hc)
		case !hc.carriesCredentials() && obs.hasUI:
			t.Fatalf("C03 http: the Authorization header carries no Basic credentials, the finder was shown user %q\ncase: %s", obs.user, hc)
		case obs.hasUI && (obs.user != hc.HdrUser || !obs.pwSet || obs.pw != hc.HdrPass):
			t.Fatalf("C03 http: the finder was shown credentials %q:%q (password set %t)\ncase: %s", obs.user, obs.pw, obs.pwSet, hc)
		}

		st.Class("http:served")
	})
}
