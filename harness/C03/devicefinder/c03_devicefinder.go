//go:build verif

package devicefinder_test

// C03: a device is recognised only via its own identifier and only when
// authenticated.  See /verif/DESIGN.md, section 3, C03.
//
// Every case is one generated world (server settings, device domains, profile
// database contents) and one generated request (transport, URL path, userinfo,
// TLS server name, EDNS options, local and remote addresses).  The real
// devicefinder.Default runs against a model profile database behind
// agdtest.ProfileDB; its result is compared with
//
//   - an independent decision table (vc03Oracle), in both directions, and
//   - one-directional security invariants that do not depend on the table
//     (vc03Invariants).
//
// TestVerifC03Middleware sends the same kind of cases through the real
// ratelimitmw.Middleware and checks what the next handler is shown.

import (
	"context"
	"encoding/json"
	"errors"
	"fmt"
	"net"
	"net/netip"
	"net/url"
	"os"
	"path"
	"slices"
	"strings"
	"sync"
	"testing"
	"time"

	"github.com/AdguardTeam/AdGuardDNS/internal/access"
	"github.com/AdguardTeam/AdGuardDNS/internal/agd"
	"github.com/AdguardTeam/AdGuardDNS/internal/agdnet"
	"github.com/AdguardTeam/AdGuardDNS/internal/agdpasswd"
	"github.com/AdguardTeam/AdGuardDNS/internal/agdtest"
	"github.com/AdguardTeam/AdGuardDNS/internal/dnsmsg"
	"github.com/AdguardTeam/AdGuardDNS/internal/dnsserver"
	"github.com/AdguardTeam/AdGuardDNS/internal/dnssvc/internal/devicefinder"
	"github.com/AdguardTeam/AdGuardDNS/internal/dnssvc/internal/ratelimitmw"
	"github.com/AdguardTeam/AdGuardDNS/internal/geoip"
	"github.com/AdguardTeam/AdGuardDNS/internal/metrics"
	"github.com/AdguardTeam/AdGuardDNS/internal/profiledb"
	"github.com/AdguardTeam/golibs/logutil/slogutil"
	"github.com/miekg/dns"
	"github.com/prometheus/client_golang/prometheus"
	"golang.org/x/crypto/bcrypt"
	"pgregory.net/rapid"
	"verif.local/harness/vstat"
)

// ---------------------------------------------------------------------------
// Model world

// Authentication modes of a model device.
const (
	vc03AuthOff        = iota // Enabled=false
	vc03AuthOffDoHFlag        // Enabled=false, DoHAuthOnly=true (flag without effect)
	vc03AuthOn                // Enabled=true
	vc03AuthOnDoHOnly         // Enabled=true, DoHAuthOnly=true
)

var vc03AuthNames = [...]string{"off", "off+dohflag", "on", "on+dohonly"}

// Stored password hashes of devices with authentication enabled.  All of them
// are served by the real authenticators of package agdpasswd.
const (
	vc03HashValid        = iota // bcrypt hash of Password
	vc03HashOther               // well-formed bcrypt hash of ANOTHER password
	vc03HashAllow               // no password configured: agdpasswd.AllowAuthenticator
	vc03HashEmpty               // empty bytes
	vc03HashTruncated           // first half of a real hash
	vc03HashTruncatedOne        // a real hash without its last byte
	vc03HashForeign             // first byte replaced by '#'
	vc03HashArgon               // a hash of another scheme
	vc03HashNewer               // version "$3"
	vc03HashCost3               // cost below the minimum
	vc03HashCost32              // cost above the maximum
	vc03HashKinds
)

var vc03HashNames = [...]string{
	"bcrypt", "bcrypt-of-other-password", "allow-all", "empty", "truncated", "truncated-by-one",
	"foreign-first-byte", "argon2", "newer-version", "cost3", "cost32",
}

// usable reports whether some password can match the stored hash.
func vc03HashUsable(kind int) (ok bool) {
	return kind == vc03HashValid || kind == vc03HashOther || kind == vc03HashAllow
}

var (
	vc03BcryptMu    sync.Mutex
	vc03BcryptCache = map[string][]byte{}
)

// vc03Bcrypt returns a real minimal-cost bcrypt hash of password.  The salt is
// random, which no outcome depends on.
func vc03Bcrypt(password string) (hash []byte) {
	vc03BcryptMu.Lock()
	defer vc03BcryptMu.Unlock()

	hash, ok := vc03BcryptCache[password]
	if !ok {
		var err error
		hash, err = bcrypt.GenerateFromPassword([]byte(password), bcrypt.MinCost)
		if err != nil {
			panic(fmt.Errorf("vc03: hashing: %w", err))
		}

		vc03BcryptCache[password] = hash
	}

	return slices.Clone(hash)
}

// authenticator returns the real authenticator for the stored hash of d.
func (d *vc03Dev) authenticator() (a agdpasswd.Authenticator) {
	good := vc03Bcrypt(d.HashOf)
	switch d.Hash {
	case vc03HashValid, vc03HashOther:
		return agdpasswd.NewPasswordHashBcrypt(good)
	case vc03HashAllow:
		return agdpasswd.AllowAuthenticator{}
	case vc03HashEmpty:
		return agdpasswd.NewPasswordHashBcrypt([]byte{})
	case vc03HashTruncated:
		return agdpasswd.NewPasswordHashBcrypt(good[:len(good)/2])
	case vc03HashTruncatedOne:
		return agdpasswd.NewPasswordHashBcrypt(good[:len(good)-1])
	case vc03HashForeign:
		return agdpasswd.NewPasswordHashBcrypt(append([]byte("#"), good[1:]...))
	case vc03HashArgon:
		return agdpasswd.NewPasswordHashBcrypt([]byte("$argon2id$v=19$m=65536,t=3,p=4$c29tZXNhbHQ$RdescudvJCsgt3ub+b+dWRWJTmaaJObG"))
	case vc03HashNewer:
		return agdpasswd.NewPasswordHashBcrypt(append([]byte("$3"), good[2:]...))
	case vc03HashCost3:
		return agdpasswd.NewPasswordHashBcrypt(append([]byte("$2a$03$"), good[7:]...))
	case vc03HashCost32:
		return agdpasswd.NewPasswordHashBcrypt(append([]byte("$2a$32$"), good[7:]...))
	default:
		panic(fmt.Errorf("vc03: hash kind %d", d.Hash))
	}
}

// passwordRefusal is the model of the password check for a device with
// authentication enabled: "" if the supplied password is right.  With a stored
// hash that nothing can match no password is right; a device without a
// configured password accepts every supplied password.
func (d *vc03Dev) passwordRefusal(ui *vc03Userinfo) (why string) {
	switch {
	case !ui.PwSet:
		return "password-unset"
	case d.Hash == vc03HashAllow:
		return ""
	case !vc03HashUsable(d.Hash):
		return "unusable-hash"
	case ui.Pw == "":
		return "password-empty"
	case ui.Pw != d.HashOf:
		return "password-wrong"
	default:
		return ""
	}
}

type vc03Prof struct {
	ID      string
	Present bool // false: the database has no such profile (its devices are orphans)
	Deleted bool
	Auto    bool

	p *agd.Profile
}

type vc03Dev struct {
	ID        string
	Owner     int
	Attached  bool // listed in the owner's DeviceIDs
	Auth      int
	Password  string // what the device's user believes the password is
	Hash      int    // how the password hash is stored, see the vc03Hash* constants
	HashOf    string // the password the stored hash was made from, if it is a real hash
	Linked    netip.Addr
	Dedicated []netip.Addr
	Human     string // lower-case human id, "" if none

	d *agd.Device
}

type vc03World struct {
	Profs    []*vc03Prof
	Devs     []*vc03Dev
	ErrStyle int // how not-found errors of the model database are wrapped
	Fault    int // see the vc03Fault* constants

	// run-time observations, guarded by mu
	mu          sync.Mutex
	created     []*agd.Device // devices made by CreateAutoDevice
	createdProf []*agd.Profile
	dbContract  []string // violations of the profiledb.Interface argument contract
}

// Faults of the model database.
const (
	vc03FaultNone = iota
	// vc03FaultDBError: every method fails with an error that is not a
	// not-found error.
	vc03FaultDBError
	// vc03FaultCtxCancelled: the caller's context is already cancelled.  The
	// in-memory lookups of the real database do not look at the context; the
	// creation of an automatic device calls the backend and fails.
	vc03FaultCtxCancelled
)

var vc03FaultNames = [...]string{"none", "db-error", "ctx-cancelled"}

// errVC03DB is the generic database failure.
var errVC03DB = errors.New("model db failure")

// dbErr returns the failure of a faulty database in one of its classes:
// generic, context deadline, i/o deadline.  None of them is a not-found error.
func (w *vc03World) dbErr() (err error) {
	switch w.ErrStyle {
	case 1:
		return fmt.Errorf("model db: %w", context.DeadlineExceeded)
	case 2:
		return fmt.Errorf("model db: %w", &net.OpError{Op: "read", Net: "tcp", Err: os.ErrDeadlineExceeded})
	default:
		return errVC03DB
	}
}

// resetRuntime forgets what earlier requests left in the observations.
func (w *vc03World) resetRuntime() {
	w.mu.Lock()
	defer w.mu.Unlock()

	w.created, w.createdProf, w.dbContract = nil, nil, nil
}

var (
	// The last profile id has the maximum length.
	vc03ProfIDs   = []string{"p1aa", "p2bb", "p3cc", "p4dd5678"}
	vc03DevIDs    = []string{"dev1", "dev2", "ab-cd", "x", "abcdefgh", "dev3", "0a1b", "zz9"}
	vc03Humans    = []string{"my-phone", "tv", "kids--pad", "a1"}
	vc03Passwords = []string{"s3cret", "Hunter2", "pa55"}
	vc03LinkedIPs = []netip.Addr{
		netip.MustParseAddr("203.0.113.1"), netip.MustParseAddr("203.0.113.2"),
		netip.MustParseAddr("203.0.113.3"), netip.MustParseAddr("2001:db8:1::1"),
		// A zero-valued address as somebody's linked address.
		netip.MustParseAddr("0.0.0.0"),
	}
	vc03DedicatedIPs = []netip.Addr{
		netip.MustParseAddr("192.0.2.2"), netip.MustParseAddr("192.0.2.3"),
		netip.MustParseAddr("2001:db8:2::2"),
	}
	vc03OwnAddr     = netip.MustParseAddr("192.0.2.1")
	vc03OutsideAddr = netip.MustParseAddr("198.51.100.7")
	vc03OtherClient = netip.MustParseAddr("198.51.100.99")

	vc03DomainSets = [][]string{
		nil,
		{"d.example.org"},
		{"d.example.org", "dns.example.net"},
		{"example.org", "d.example.org"},
		{"d.example.org", "example.org"},
	}
	vc03AllDomains = []string{"d.example.org", "dns.example.net", "example.org", "other.example"}

	vc03DevTypes = []string{"win", "adr", "mac", "ios", "lnx", "rtr", "stv", "gam", "otr"}
)

// vc03Bits draws ten fair bits.  rapid's integer generators are deliberately
// biased towards small values, which would distort weighted choices; single
// bits are fair.
var vc03Bits = rapid.Custom(func(t *rapid.T) (v int) {
	for i := 0; i < 10; i++ {
		v <<= 1
		if rapid.Bool().Draw(t, "bit") {
			v |= 1
		}
	}

	return v
})

// vc03Uniform draws a nearly uniform integer in [0, n), n <= 1024.
func vc03Uniform(t *rapid.T, label string, n int) (v int) {
	return vc03Bits.Draw(t, label) * n / 1024
}

// vc03Pick draws an index with the given weights.
func vc03Pick(t *rapid.T, label string, weights ...int) (idx int) {
	sum := 0
	for _, w := range weights {
		sum += w
	}

	n := vc03Uniform(t, label, sum)
	for i, w := range weights {
		if n < w {
			return i
		}

		n -= w
	}

	return len(weights) - 1
}

func vc03Chance(t *rapid.T, label string, percent int) (ok bool) {
	return vc03Uniform(t, label, 100) < percent
}

// vc03From draws a nearly uniform element of s.
func vc03From[E any](t *rapid.T, label string, s []E) (e E) {
	return s[vc03Uniform(t, label, len(s))]
}

func vc03GenWorld(t *rapid.T) (w *vc03World) {
	w = &vc03World{
		ErrStyle: vc03Uniform(t, "errStyle", 3),
		Fault:    vc03Pick(t, "fault", 82, 8, 10),
	}

	nProf := 2 + vc03Uniform(t, "nProf", 3)
	for i := 0; i < nProf; i++ {
		w.Profs = append(w.Profs, &vc03Prof{
			ID:      vc03ProfIDs[i],
			Present: vc03Chance(t, "profPresent", 90),
			Deleted: vc03Chance(t, "profDeleted", 25),
			Auto:    vc03Chance(t, "profAuto", 50),
		})
	}

	ids := rapid.Permutation(vc03DevIDs).Draw(t, "devIDs")
	linkedPool := rapid.Permutation(vc03LinkedIPs).Draw(t, "linkedPool")
	nDev := 3 + vc03Uniform(t, "nDev", 4)
	nextLinked, nextDedicated := 0, 0
	for i := 0; i < nDev; i++ {
		d := &vc03Dev{
			ID:       ids[i],
			Owner:    vc03Uniform(t, "owner", nProf),
			Attached: vc03Chance(t, "attached", 85),
			Auth:     vc03Pick(t, "auth", 30, 10, 30, 30),
			Password: vc03From(t, "password", vc03Passwords),
		}

		d.HashOf = d.Password
		switch vc03Pick(t, "hash", 50, 10, 12, 28) {
		case 0:
			d.Hash = vc03HashValid
		case 1:
			d.Hash = vc03HashOther
			for d.HashOf == d.Password {
				d.HashOf = vc03From(t, "hashOf", vc03Passwords)
			}
		case 2:
			d.Hash = vc03HashAllow
		default:
			d.Hash = vc03HashEmpty + vc03Uniform(t, "hashUnusable", vc03HashKinds-vc03HashEmpty)
		}

		if nextLinked < len(linkedPool) && vc03Chance(t, "hasLinked", 50) {
			d.Linked = linkedPool[nextLinked]
			nextLinked++
		}

		if nextDedicated < len(vc03DedicatedIPs) && vc03Chance(t, "hasDedicated", 45) {
			d.Dedicated = append(d.Dedicated, vc03DedicatedIPs[nextDedicated])
			nextDedicated++
			if nextDedicated < len(vc03DedicatedIPs) && vc03Chance(t, "hasDedicated2", 20) {
				d.Dedicated = append(d.Dedicated, vc03DedicatedIPs[nextDedicated])
				nextDedicated++
			}
		}

		if vc03Chance(t, "hasHuman", 40) {
			// The key of a human id is (profile, id): the same id may belong to
			// devices of different profiles, but not of one profile.
			h := vc03From(t, "human", vc03Humans)
			taken := false
			for _, o := range w.Devs {
				taken = taken || (o.Owner == d.Owner && o.Human == h)
			}

			if !taken {
				d.Human = h
			}
		}

		w.Devs = append(w.Devs, d)
	}

	w.build()

	return w
}

// build creates the agd values from the model.
func (w *vc03World) build() {
	for i, p := range w.Profs {
		p.p = &agd.Profile{
			Access:              access.EmptyProfile{},
			BlockingMode:        &dnsmsg.BlockingModeNullIP{},
			Ratelimiter:         agd.GlobalRatelimiter{},
			ID:                  agd.ProfileID(p.ID),
			FilteredResponseTTL: time.Duration(100+i) * time.Second,
			AutoDevicesEnabled:  p.Auto,
			Deleted:             p.Deleted,
			FilteringEnabled:    true,
		}
	}

	for _, d := range w.Devs {
		auth := &agd.AuthSettings{PasswordHash: agdpasswd.AllowAuthenticator{}}
		switch d.Auth {
		case vc03AuthOffDoHFlag:
			auth.DoHAuthOnly = true
		case vc03AuthOn, vc03AuthOnDoHOnly:
			auth.Enabled = true
			auth.DoHAuthOnly = d.Auth == vc03AuthOnDoHOnly
			auth.PasswordHash = d.authenticator()
		}

		d.d = &agd.Device{
			Auth:             auth,
			ID:               agd.DeviceID(d.ID),
			LinkedIP:         d.Linked,
			HumanIDLower:     agd.HumanIDLower(d.Human),
			DedicatedIPs:     d.Dedicated,
			FilteringEnabled: true,
		}

		if d.Attached {
			p := w.Profs[d.Owner].p
			p.DeviceIDs = append(p.DeviceIDs, d.d.ID)
		}
	}
}

// Lookup states of the model database.
const (
	vc03LookNone     = iota // no such record
	vc03LookOrphan          // record exists, its profile does not
	vc03LookDetached        // record exists, the profile does not list it
	vc03LookOK
)

func (w *vc03World) state(d *vc03Dev) (st int) {
	switch {
	case d == nil:
		return vc03LookNone
	case !w.Profs[d.Owner].Present:
		return vc03LookOrphan
	case !d.Attached:
		return vc03LookDetached
	default:
		return vc03LookOK
	}
}

func (w *vc03World) devByID(id string) (d *vc03Dev) {
	for _, d = range w.Devs {
		if d.ID == id {
			return d
		}
	}

	return nil
}

func (w *vc03World) devByLinked(ip netip.Addr) (d *vc03Dev) {
	for _, d = range w.Devs {
		if d.Linked.IsValid() && d.Linked == ip {
			return d
		}
	}

	return nil
}

func (w *vc03World) devByDedicated(ip netip.Addr) (d *vc03Dev) {
	for _, d = range w.Devs {
		if slices.Contains(d.Dedicated, ip) {
			return d
		}
	}

	return nil
}

func (w *vc03World) profByID(id string) (p *vc03Prof) {
	for _, p = range w.Profs {
		if p.ID == id && p.Present {
			return p
		}
	}

	return nil
}

// devByHuman returns the attached device of the present profile profID that
// has the lower-case human id human.
func (w *vc03World) devByHuman(profID, human string) (d *vc03Dev) {
	for _, d = range w.Devs {
		if d.Human != "" && d.Human == human && w.Profs[d.Owner].ID == profID && w.state(d) == vc03LookOK {
			return d
		}
	}

	return nil
}

// notFound returns the error of the model database for a lookup state, wrapped
// the way the real database wraps it.
func (w *vc03World) notFound(st int) (err error) {
	switch st {
	case vc03LookOrphan:
		err = profiledb.ErrProfileNotFound
	case vc03LookDetached:
		err = fmt.Errorf("rechecking devices: %w", profiledb.ErrDeviceNotFound)
	default:
		err = profiledb.ErrDeviceNotFound
	}

	for i := 0; i < w.ErrStyle; i++ {
		err = fmt.Errorf("model db level %d: %w", i, err)
	}

	return err
}

func (w *vc03World) answer(d *vc03Dev) (p *agd.Profile, dev *agd.Device, err error) {
	if st := w.state(d); st != vc03LookOK {
		return nil, nil, w.notFound(st)
	}

	return w.Profs[d.Owner].p, d.d, nil
}

// db returns the model database.  It honours the contract of the real one:
// it only returns devices that are listed in the returned profile, and it
// returns deleted profiles with their Deleted flag set.
func (w *vc03World) db() (db *agdtest.ProfileDB) {
	contract := func(format string, args ...any) {
		w.mu.Lock()
		defer w.mu.Unlock()

		w.dbContract = append(w.dbContract, fmt.Sprintf(format, args...))
	}

	// faulty reports whether a lookup fails with the generic error.
	faulty := func() (ok bool) { return w.Fault == vc03FaultDBError }

	checkDevID := func(id agd.DeviceID) {
		if _, err := agd.NewDeviceID(string(id)); err != nil {
			contract("invalid device id %q passed to the database", id)
		}
	}

	return &agdtest.ProfileDB{
		OnCreateAutoDevice: func(
			ctx context.Context,
			id agd.ProfileID,
			humanID agd.HumanID,
			devType agd.DeviceType,
		) (p *agd.Profile, d *agd.Device, err error) {
			if _, err = agd.NewHumanID(string(humanID)); err != nil {
				contract("invalid human id %q passed to CreateAutoDevice", humanID)
			}

			if devType == agd.DeviceTypeNone || devType > agd.DeviceTypeOther {
				contract("invalid device type %d passed to CreateAutoDevice", devType)
			}

			if faulty() {
				return nil, nil, w.dbErr()
			}

			mp := w.profByID(string(id))
			if mp == nil || !mp.Auto {
				return nil, nil, w.notFound(vc03LookOrphan)
			}

			if w.Fault == vc03FaultCtxCancelled {
				// The real database asks the backend here.
				if ctx.Err() == nil {
					contract("the caller's cancelled context was not passed to CreateAutoDevice")
				}

				return nil, nil, fmt.Errorf("model backend: %w", context.Canceled)
			}

			w.mu.Lock()
			defer w.mu.Unlock()

			d = &agd.Device{
				Auth:             &agd.AuthSettings{PasswordHash: agdpasswd.AllowAuthenticator{}},
				ID:               agd.DeviceID(fmt.Sprintf("auto%d", len(w.created))),
				HumanIDLower:     agd.HumanIDToLower(humanID),
				FilteringEnabled: true,
			}
			w.created = append(w.created, d)
			w.createdProf = append(w.createdProf, mp.p)

			return mp.p, d, nil
		},

		OnProfileByDedicatedIP: func(_ context.Context, ip netip.Addr) (*agd.Profile, *agd.Device, error) {
			if !ip.IsValid() {
				contract("invalid dedicated ip passed to the database")
			}

			if faulty() {
				return nil, nil, w.dbErr()
			}

			return w.answer(w.devByDedicated(ip))
		},

		OnProfileByDeviceID: func(_ context.Context, id agd.DeviceID) (*agd.Profile, *agd.Device, error) {
			checkDevID(id)
			if faulty() {
				return nil, nil, w.dbErr()
			}

			return w.answer(w.devByID(string(id)))
		},

		OnProfileByHumanID: func(
			_ context.Context,
			id agd.ProfileID,
			humanID agd.HumanIDLower,
		) (p *agd.Profile, d *agd.Device, err error) {
			if _, err = agd.NewHumanIDLower(string(humanID)); err != nil {
				contract("invalid lower-case human id %q passed to the database", humanID)
			}

			if _, err = agd.NewProfileID(string(id)); err != nil {
				contract("invalid profile id %q passed to the database", id)
			}

			if faulty() {
				return nil, nil, w.dbErr()
			}

			mp := w.profByID(string(id))
			if mp == nil {
				return nil, nil, w.notFound(vc03LookOrphan)
			}

			md := w.devByHuman(string(id), string(humanID))
			if md == nil {
				return nil, nil, w.notFound(vc03LookNone)
			}

			return mp.p, md.d, nil
		},

		OnProfileByLinkedIP: func(_ context.Context, ip netip.Addr) (*agd.Profile, *agd.Device, error) {
			if !ip.IsValid() {
				contract("invalid linked ip passed to the database")
			}

			if faulty() {
				return nil, nil, w.dbErr()
			}

			return w.answer(w.devByLinked(ip))
		},
	}
}

// ---------------------------------------------------------------------------
// Case

// Bind kinds of the model server.
const (
	vc03BindNone         = iota // no bind data
	vc03BindAddrPort            // plain address
	vc03BindPrefix              // interface subnets
	vc03BindPrefixSingle        // interface subnets, one of them the single own address
)

var vc03BindNames = [...]string{"none", "addrport", "prefix", "prefix+single"}

type vc03Userinfo struct {
	User  string
	PwSet bool
	Pw    string
	Kind  string
}

type vc03Opt struct {
	Code uint16
	Data string
}

type vc03Case struct {
	Proto    agd.Protocol
	LinkedOn bool
	Bind     int
	Domains  []string
	World    *vc03World

	Path   string // DoH only
	UI     *vc03Userinfo
	SNI    string
	HasOPT bool
	// Opts2, if not nil, are the options of a second OPT record.
	Opts2 []vc03Opt
	// Mapped: the servers report IPv4 addresses in the IPv4-mapped IPv6 form,
	// as a dual-stack socket does.
	Mapped bool
	Opts   []vc03Opt
	Laddr  netip.AddrPort
	Raddr  netip.AddrPort

	// Notes are generator remarks used for classes only.
	Notes []string
}

var vc03Protos = []agd.Protocol{agd.ProtoDNS, agd.ProtoDoT, agd.ProtoDoQ, agd.ProtoDoH, agd.ProtoDNSCrypt}

func vc03ProtoName(p agd.Protocol) (s string) {
	switch p {
	case agd.ProtoDNS:
		return "dns"
	case agd.ProtoDoT:
		return "dot"
	case agd.ProtoDoQ:
		return "doq"
	case agd.ProtoDoH:
		return "doh"
	case agd.ProtoDNSCrypt:
		return "dnscrypt"
	default:
		return "?"
	}
}

// vc03CaseVariant changes the letter case of s in a drawn way.
func vc03CaseVariant(t *rapid.T, s string) (v string) {
	switch vc03Pick(t, "caseVariant", 60, 20, 20) {
	case 1:
		return strings.ToUpper(s)
	case 2:
		b := []byte(s)
		for i := range b {
			if i%2 == 0 && b[i] >= 'a' && b[i] <= 'z' {
				b[i] -= 'a' - 'A'
			}
		}

		return string(b)
	default:
		return s
	}
}

// vc03NearID draws a string that differs from an existing device id by one
// character at the end: truncated by one, or extended by one (which for an id
// of the maximum length gives the shortest over-long string).
func vc03NearID(t *rapid.T, w *vc03World) (s string) {
	id := vc03From(t, "nearDev", w.Devs).ID
	if len(id) > 1 && vc03Chance(t, "nearTruncate", 50) {
		return id[:len(id)-1]
	}

	return id + vc03From(t, "nearExtra", []string{"1", "z", "h", "i"})
}

// vc03GenIdent draws an identifier string as it appears in a URL path segment
// or as the first label of a TLS server name.
func vc03GenIdent(t *rapid.T, w *vc03World) (s string) {
	switch vc03Pick(t, "identKind", 40, 35, 8, 12, 5) {
	case 0:
		d := vc03From(t, "identDev", w.Devs)

		return vc03CaseVariant(t, d.ID)
	case 1:
		var withHuman []*vc03Dev
		for _, d := range w.Devs {
			if d.Human != "" {
				withHuman = append(withHuman, d)
			}
		}

		if len(withHuman) > 0 && vc03Chance(t, "extCorrelated", 45) {
			// The extended id of an existing device.
			d := vc03From(t, "extDev", withHuman)

			return vc03CaseVariant(t, vc03From(t, "devType", vc03DevTypes)) + "-" +
				vc03CaseVariant(t, w.Profs[d.Owner].ID) + "-" + vc03CaseVariant(t, d.Human)
		}

		var typ string
		switch vc03Pick(t, "extType", 85, 10, 5) {
		case 0:
			typ = vc03CaseVariant(t, vc03From(t, "devType", vc03DevTypes))
		case 1:
			typ = "xyz"
		default:
			typ = "ab"
		}

		var prof string
		switch vc03Pick(t, "extProf", 75, 15, 5, 5) {
		case 0:
			prof = vc03CaseVariant(t, vc03From(t, "extProfIdx", w.Profs).ID)
		case 1:
			// One character more or less than an existing profile id.
			prof = vc03From(t, "extProfNear", w.Profs).ID
			if vc03Chance(t, "extProfTruncate", 50) {
				prof = prof[:len(prof)-1]
			} else {
				prof += "9"
			}
		case 2:
			prof = "p12345678"
		default:
			prof = ""
		}

		var human string
		switch vc03Pick(t, "extHuman", 55, 25, 10, 10) {
		case 0:
			human = vc03CaseVariant(t, vc03From(t, "extHumanIdx", vc03Humans))
		case 1:
			human = vc03From(t, "extHumanNew", []string{"new-dev", "Laptop", "n2", "t", "tvv", strings.Repeat("b", 63)})
		case 2:
			// Needs normalisation.
			human = vc03From(t, "extHumanNorm", []string{"My_Phone", "tv!", "a1---b2", "-tv"})
		default:
			human = vc03From(t, "extHumanBad", []string{"!!!", "-", strings.Repeat("a", 64)})
		}

		return typ + "-" + prof + "-" + human
	case 2:
		if vc03Chance(t, "identNear", 60) {
			return vc03CaseVariant(t, vc03NearID(t, w))
		}

		return vc03From(t, "identUnknown", []string{"nodev", "dev9", "q"})
	case 3:
		return vc03From(t, "identBad", []string{"toolongid9", "bad!id", "-abc", "abc-", "de_v1"})
	default:
		return vc03From(t, "identOdd", []string{"a-b-c", "dev1-x-y", "--"})
	}
}

func vc03GenCase(t *rapid.T) (c *vc03Case) {
	return vc03GenCaseProto(t, vc03Protos[vc03Pick(t, "proto", 30, 15, 10, 40, 5)])
}

func vc03GenCaseProto(t *rapid.T, proto agd.Protocol) (c *vc03Case) {
	c = vc03GenSettings(t, vc03GenWorld(t), proto)
	vc03GenRequest(t, c)

	return c
}

// vc03GenSettings draws the server side of a case.
func vc03GenSettings(t *rapid.T, w *vc03World, proto agd.Protocol) (c *vc03Case) {
	return &vc03Case{
		World:    w,
		Proto:    proto,
		LinkedOn: rapid.Bool().Draw(t, "linkedOn"),
		Bind:     vc03Pick(t, "bind", 20, 20, 40, 20),
		Domains:  vc03DomainSets[vc03Pick(t, "domains", 15, 35, 20, 15, 15)],
	}
}

// vc03GenRequest draws the request side of a case.
func vc03GenRequest(t *rapid.T, c *vc03Case) {
	c.Path, c.UI, c.SNI, c.HasOPT, c.Opts, c.Opts2, c.Notes = "", nil, "", false, nil, nil, nil
	c.Mapped = vc03Chance(t, "mapped", 20)

	isDoH := c.Proto == agd.ProtoDoH
	hasTLS := isDoH || c.Proto == agd.ProtoDoT || c.Proto == agd.ProtoDoQ

	// URL path.
	if isDoH {
		c.Path = vc03GenPath(t, c)
	}

	// Userinfo.
	if isDoH && vc03Chance(t, "hasUserinfo", 50) {
		c.UI = vc03GenUserinfo(t, c.World)
	}

	// TLS server name.
	if hasTLS {
		c.SNI = vc03GenSNI(t, c)
	}

	// EDNS options, on every transport.
	vc03GenEDNS(t, c)

	vc03GenLaddr(t, c)
	vc03GenRaddr(t, c)
}

func vc03GenLaddr(t *rapid.T, c *vc03Case) {
	w := c.World
	port := uint16(53)
	switch vc03Pick(t, "laddr", 35, 5, 35, 10, 5, 10) {
	case 0:
		c.Laddr = netip.AddrPortFrom(vc03OwnAddr, port)
	case 1:
		c.Laddr = netip.AddrPortFrom(vc03OwnAddr, 5353)
	case 2:
		var withDed []*vc03Dev
		for _, d := range w.Devs {
			if len(d.Dedicated) > 0 {
				withDed = append(withDed, d)
			}
		}

		if len(withDed) == 0 {
			c.Laddr = netip.AddrPortFrom(vc03DedicatedIPs[0], port)
		} else {
			d := vc03From(t, "laddrDev", withDed)
			c.Laddr = netip.AddrPortFrom(vc03From(t, "laddrIP", d.Dedicated), port)
		}
	case 3:
		c.Laddr = netip.AddrPortFrom(vc03From(t, "laddrPool", vc03DedicatedIPs), port)
	case 4:
		// The zero host of the bound subnet.
		c.Laddr = netip.AddrPortFrom(netip.MustParseAddr("192.0.2.0"), port)
	default:
		c.Laddr = netip.AddrPortFrom(vc03OutsideAddr, port)
	}
}

func vc03GenRaddr(t *rapid.T, c *vc03Case) {
	w := c.World
	switch vc03Pick(t, "raddr", 45, 15, 40) {
	case 0:
		var withLinked []*vc03Dev
		for _, d := range w.Devs {
			if d.Linked.IsValid() {
				withLinked = append(withLinked, d)
			}
		}

		if len(withLinked) == 0 {
			c.Raddr = netip.AddrPortFrom(vc03LinkedIPs[0], 12345)
		} else {
			c.Raddr = netip.AddrPortFrom(vc03From(t, "raddrDev", withLinked).Linked, 12345)
		}
	case 1:
		c.Raddr = netip.AddrPortFrom(vc03From(t, "raddrPool", vc03LinkedIPs), 12345)
	default:
		c.Raddr = netip.AddrPortFrom(vc03OtherClient, 12345)
	}
}

// vc03NearMiss returns a copy of c in the same world with exactly one
// component of the request or of the server settings changed, and the name of
// the change.  It resets the world's run-time observations.
func vc03NearMiss(t *rapid.T, c *vc03Case) (n *vc03Case, what string) {
	cp := *c
	n = &cp
	n.Notes = nil
	n.World.resetRuntime()

	var kinds []string
	if c.UI != nil {
		kinds = append(kinds, "password", "password", "user", "user", "no-userinfo")
	} else if c.Proto == agd.ProtoDoH {
		kinds = append(kinds, "add-userinfo", "path", "path")
	}

	if c.SNI != "" {
		kinds = append(kinds, "sni-case", "sni-label", "sni")
	}

	if c.Proto == agd.ProtoDNS {
		kinds = append(kinds, "edns", "edns", "laddr", "raddr", "linked-flag", "bind")
	} else {
		kinds = append(kinds, "edns", "laddr", "raddr", "domains")
	}

	what = vc03From(t, "nearMiss", kinds)
	switch what {
	case "password":
		// The same user with another kind of password.
		ui := *c.UI
		right := "whatever"
		if d := n.World.devByID(strings.ToLower(ui.User)); d != nil {
			right = d.Password
		}

		switch {
		case ui.Kind != "right":
			ui.PwSet, ui.Pw, ui.Kind = true, right, "right"
		case vc03Chance(t, "nearPwEmpty", 30):
			ui.PwSet, ui.Pw, ui.Kind = true, "", "empty"
		case vc03Chance(t, "nearPwUnset", 30):
			ui.PwSet, ui.Pw, ui.Kind = false, "", "unset"
		default:
			ui.PwSet, ui.Pw, ui.Kind = true, vc03WrongPassword(t, right), "wrong"
		}

		n.UI = &ui
	case "user":
		// The same password under another device's name.
		ui := *c.UI
		ui.User = vc03From(t, "nearUser", n.World.Devs).ID
		ui.Kind = "other-user"
		n.UI = &ui
	case "no-userinfo":
		n.UI = nil
	case "add-userinfo":
		n.UI = vc03GenUserinfo(t, n.World)
	case "path":
		n.Path = vc03GenPath(t, n)
	case "sni-case":
		if n.SNI == strings.ToLower(n.SNI) {
			n.SNI = strings.ToUpper(n.SNI)
		} else {
			n.SNI = strings.ToLower(n.SNI)
		}
	case "sni-label":
		// One more label between the first label and the rest.
		if i := strings.IndexByte(n.SNI, '.'); i >= 0 {
			n.SNI = n.SNI[:i] + ".x" + n.SNI[i:]
		} else {
			n.SNI = "x." + n.SNI
		}
	case "sni":
		n.SNI = vc03GenSNI(t, n)
	case "edns":
		n.HasOPT, n.Opts, n.Opts2 = false, nil, nil
		vc03GenEDNS(t, n)
	case "laddr":
		vc03GenLaddr(t, n)
	case "raddr":
		vc03GenRaddr(t, n)
	case "linked-flag":
		n.LinkedOn = !n.LinkedOn
	case "bind":
		n.Bind = (n.Bind + 1 + vc03Uniform(t, "nearBind", 3)) % 4
	case "domains":
		n.Domains = vc03DomainSets[vc03Uniform(t, "nearDomains", len(vc03DomainSets))]
	}

	return n, what
}

func vc03GenPath(t *rapid.T, c *vc03Case) (p string) {
	var first string
	switch vc03Pick(t, "pathFirst", 70, 10, 6, 5, 4, 5) {
	case 0:
		first = "dns-query"
	case 1:
		first = "resolve"
	case 2:
		first = vc03From(t, "pathQuirk", []string{"query", "y", "solve", "-query"})
		c.Notes = append(c.Notes, "path-suffix-quirk")
	case 3:
		first = vc03From(t, "pathOther", []string{"other", "dns-query2", "xdns-query", "Dns-Query"})
	case 4:
		first = ""
	default:
		first = "dns-query"
		// A device identifier in front of the DNS path is not in the DoH path
		// channel's position.
		p = "/" + vc03GenIdent(t, c.World)
	}

	p += "/" + first
	switch vc03Pick(t, "pathRest", 35, 50, 10, 5) {
	case 0:
		// No identifier.
	case 1:
		p += vc03PathSep(t) + vc03GenIdent(t, c.World)
	case 2:
		p += vc03PathSep(t) + vc03GenIdent(t, c.World) + vc03PathSep(t) + vc03From(t, "pathExtra", []string{"extra", "dev1", "dns-query"})
	default:
		// A dot-dot segment that removes the identifier before it.
		p += "/" + vc03GenIdent(t, c.World) + "/../" + vc03GenIdent(t, c.World)
	}

	if vc03Chance(t, "pathTrailingSlash", 15) {
		p += "/"
	}

	return p
}

func vc03PathSep(t *rapid.T) (s string) {
	return vc03From(t, "pathSep", []string{"/", "/", "/", "//", "/./"})
}

func vc03GenUserinfo(t *rapid.T, w *vc03World) (ui *vc03Userinfo) {
	ui = &vc03Userinfo{}

	var named *vc03Dev
	switch vc03Pick(t, "userKind", 65, 10, 10, 15) {
	case 0:
		named = vc03From(t, "userDev", w.Devs)
		ui.User = named.ID
	case 1:
		named = vc03From(t, "userDevUpper", w.Devs)
		ui.User = strings.ToUpper(named.ID)
	case 2:
		ui.User = vc03NearID(t, w)
	default:
		ui.User = vc03From(t, "userBad", []string{"", "toolongid9", "bad!id", "otr-p1aa-tv"})
	}

	right := "whatever"
	if named != nil {
		right = named.Password
	}

	switch vc03Pick(t, "pwKind", 40, 15, 15, 30) {
	case 0:
		ui.PwSet, ui.Pw, ui.Kind = true, right, "right"
	case 1:
		ui.Kind = "unset"
	case 2:
		ui.PwSet, ui.Pw, ui.Kind = true, "", "empty"
	default:
		ui.PwSet, ui.Kind = true, "wrong"
		ui.Pw = vc03WrongPassword(t, right)
	}

	// The password the stored hash was really made from, if that is another
	// one.
	if named != nil && named.HashOf != named.Password && vc03Chance(t, "pwHashOf", 35) {
		ui.PwSet, ui.Pw, ui.Kind = true, named.HashOf, "hash-of"
	}

	return ui
}

// vc03WrongPassword draws a password that is not right: another one or a near
// miss of the right one.
func vc03WrongPassword(t *rapid.T, right string) (pw string) {
	switch vc03Pick(t, "wrongKind", 15, 10, 10, 15, 15, 15, 5, 10, 5) {
	case 0:
		for _, p := range vc03Passwords {
			if p != right {
				return p
			}
		}

		return right + "y"
	case 1:
		return right + "x"
	case 2:
		return right[:len(right)-1]
	case 3:
		// Letter case changed.
		if up := strings.ToUpper(right); up != right {
			return up
		}

		return strings.ToLower(right)
	case 4:
		// One character changed.
		b := []byte(right)
		i := vc03Uniform(t, "wrongPos", len(b))
		b[i] ^= 0x01

		return string(b)
	case 5:
		return right + " "
	case 6:
		return " " + right
	case 7:
		// Longer than what bcrypt looks at, sharing nothing with the right one.
		return strings.Repeat("Zq9", 34)
	default:
		return right + "\x00"
	}
}

func vc03GenSNI(t *rapid.T, c *vc03Case) (sni string) {
	dom := vc03From(t, "sniDomainAny", vc03AllDomains)
	if len(c.Domains) > 0 && vc03Chance(t, "sniConfigured", 80) {
		dom = vc03From(t, "sniDomain", c.Domains)
	}

	switch vc03Pick(t, "sniKind", 10, 10, 55, 10, 8, 7) {
	case 0:
		return ""
	case 1:
		// The device domain itself.
		return dom
	case 2:
		sni = vc03GenIdent(t, c.World) + "." + dom
	case 3:
		// Nested labels.
		c.Notes = append(c.Notes, "sni-nested")
		sni = vc03GenIdent(t, c.World) + "." + vc03From(t, "sniMid", []string{"x", "dev1", "d"}) + "." + dom
	case 4:
		// A name that merely ends with the text of the domain.
		c.Notes = append(c.Notes, "sni-suffix-trick")
		sni = vc03GenIdent(t, c.World) + ".x" + dom
	default:
		// Identifier not in the first label.
		sni = "www." + vc03GenIdent(t, c.World) + "." + dom
	}

	if vc03Chance(t, "sniUpper", 20) {
		sni = strings.ToUpper(sni)
	}

	return sni
}

func vc03GenEDNS(t *rapid.T, c *vc03Case) {
	w := c.World
	cpe := func() (o vc03Opt) {
		o.Code = devicefinder.DnsmasqCPEIDOption
		switch vc03Pick(t, "cpeKind", 65, 10, 10, 15) {
		case 0:
			o.Data = vc03From(t, "cpeDev", w.Devs).ID
		case 1:
			o.Data = strings.ToUpper(vc03From(t, "cpeDevUpper", w.Devs).ID)
		case 2:
			o.Data = vc03NearID(t, w)
		default:
			o.Data = vc03From(t, "cpeBad", []string{"", "toolongid9", "bad!id"})
		}

		return o
	}

	other := func() (o vc03Opt) {
		// Near-miss codes carrying a real device id.
		o.Code = vc03From(t, "otherCode", []uint16{65073, 65075, 65001})
		o.Data = vc03From(t, "otherDev", w.Devs).ID

		return o
	}

	switch vc03Pick(t, "edns", 30, 10, 10, 35, 15) {
	case 0:
		// No OPT.
	case 1:
		c.HasOPT = true
	case 2:
		c.HasOPT = true
		c.Opts = []vc03Opt{other()}
	case 3:
		c.HasOPT = true
		if vc03Chance(t, "cpeAfterOther", 30) {
			c.Opts = append(c.Opts, other())
		}

		c.Opts = append(c.Opts, cpe())
	default:
		c.HasOPT = true
		c.Opts = []vc03Opt{cpe(), cpe()}
		c.Notes = append(c.Notes, "cpe-duplicated")
	}

	// The OPT record itself given twice.
	if c.HasOPT && vc03Chance(t, "opt2", 8) {
		c.Opts2 = []vc03Opt{cpe()}
		c.Notes = append(c.Notes, "opt-record-duplicated")
	}
}

// server returns the server value of the case.
func (c *vc03Case) server() (s *agd.Server) {
	s = &agd.Server{
		Name:            "vc03",
		Protocol:        c.Proto,
		LinkedIPEnabled: c.LinkedOn,
	}

	prefix := func(p string) (bd *agd.ServerBindData) {
		return &agd.ServerBindData{
			ListenConfig: &agdtest.ListenConfig{},
			PrefixAddr: &agdnet.PrefixNetAddr{
				Prefix: netip.MustParsePrefix(p),
				Net:    "udp",
				Port:   53,
			},
		}
	}

	switch c.Bind {
	case vc03BindAddrPort:
		s.SetBindData([]*agd.ServerBindData{{AddrPort: netip.AddrPortFrom(vc03OwnAddr, 53)}})
	case vc03BindPrefix:
		s.SetBindData([]*agd.ServerBindData{prefix("192.0.2.0/30"), prefix("2001:db8:2::/64")})
	case vc03BindPrefixSingle:
		s.SetBindData([]*agd.ServerBindData{prefix("192.0.2.1/32"), prefix("192.0.2.0/30"), prefix("2001:db8:2::/64")})
	}

	return s
}

// isOwnAddr is the model of "the local address is the server's own address":
// only single-address binds identify the server itself.
func (c *vc03Case) isOwnAddr() (ok bool) {
	switch c.Bind {
	case vc03BindAddrPort, vc03BindPrefixSingle:
		return c.Laddr == netip.AddrPortFrom(vc03OwnAddr, 53)
	default:
		return false
	}
}

func (c *vc03Case) bindsToInterfaces() (ok bool) {
	return c.Bind == vc03BindPrefix || c.Bind == vc03BindPrefixSingle
}

func (c *vc03Case) srvReqInfo() (ri *dnsserver.RequestInfo) {
	ri = &dnsserver.RequestInfo{
		TLSServerName: c.SNI,
		StartTime:     time.Unix(1700000000, 0),
	}

	if c.Proto == agd.ProtoDoH {
		ri.URL = &url.URL{Path: c.Path}
	}

	if c.UI != nil {
		if c.UI.PwSet {
			ri.Userinfo = url.UserPassword(c.UI.User, c.UI.Pw)
		} else {
			ri.Userinfo = url.User(c.UI.User)
		}
	}

	return ri
}

func (c *vc03Case) msg() (req *dns.Msg) {
	req = &dns.Msg{}
	req.SetQuestion("c03.example.com.", dns.TypeTXT)
	req.Id = 4242
	if !c.HasOPT {
		return req
	}

	opt := &dns.OPT{Hdr: dns.RR_Header{Name: ".", Rrtype: dns.TypeOPT}}
	opt.SetUDPSize(1232)
	for _, o := range c.Opts {
		opt.Option = append(opt.Option, &dns.EDNS0_LOCAL{Code: o.Code, Data: []byte(o.Data)})
	}

	req.Extra = append(req.Extra, opt)

	if c.Opts2 != nil {
		opt2 := &dns.OPT{Hdr: dns.RR_Header{Name: ".", Rrtype: dns.TypeOPT}}
		opt2.SetUDPSize(1232)
		for _, o := range c.Opts2 {
			opt2.Option = append(opt2.Option, &dns.EDNS0_LOCAL{Code: o.Code, Data: []byte(o.Data)})
		}

		req.Extra = append(req.Extra, opt2)
	}

	return req
}

// describe returns a JSON-encodable description of the case.
func (c *vc03Case) describe() (m map[string]any) {
	profs := []string{}
	for _, p := range c.World.Profs {
		profs = append(profs, fmt.Sprintf("%s present=%t deleted=%t auto=%t", p.ID, p.Present, p.Deleted, p.Auto))
	}

	devs := []string{}
	for _, d := range c.World.Devs {
		devs = append(devs, fmt.Sprintf(
			"%s owner=%s attached=%t auth=%s pw=%q hash=%s(of %q) linked=%v dedicated=%v human=%q",
			d.ID, c.World.Profs[d.Owner].ID, d.Attached, vc03AuthNames[d.Auth], d.Password, vc03HashNames[d.Hash], d.HashOf, d.Linked, d.Dedicated, d.Human,
		))
	}

	m = map[string]any{
		"proto":     vc03ProtoName(c.Proto),
		"linked_on": c.LinkedOn,
		"bind":      vc03BindNames[c.Bind],
		"domains":   c.Domains,
		"profiles":  profs,
		"devices":   devs,
		"err_style": c.World.ErrStyle,
		"fault":     vc03FaultNames[c.World.Fault],
		"sni":       c.SNI,
		"has_opt":   c.HasOPT,
		"opts":      fmt.Sprintf("%v", c.Opts),
		"opts2":     fmt.Sprintf("%v", c.Opts2),
		"mapped":    c.Mapped,
		"laddr":     c.Laddr.String(),
		"raddr":     c.Raddr.String(),
	}

	if c.Proto == agd.ProtoDoH {
		m["path"] = c.Path
	}

	if c.UI != nil {
		m["userinfo"] = fmt.Sprintf("user=%q pwset=%t pw=%q (%s)", c.UI.User, c.UI.PwSet, c.UI.Pw, c.UI.Kind)
	}

	return m
}

func (c *vc03Case) String() (s string) {
	b, _ := json.Marshal(c.describe())

	return string(b)
}

// ---------------------------------------------------------------------------
// Oracle: the decision table

// Verdict kinds.
const (
	vc03Nil = iota
	vc03OK
	vc03AuthFail
	vc03Error
	vc03UnknownDedicated
)

var vc03KindNames = [...]string{"nil", "ok", "authfail", "error", "unknown-dedicated"}

type vc03Verdict struct {
	Kind int

	// Dev and Prof are set for vc03OK when an existing device is expected.
	Dev  *vc03Dev
	Prof *vc03Prof

	// AutoHuman is set for vc03OK when a new automatic device with this
	// lower-case human id is expected for Prof.
	AutoHuman string

	// Creates is true if exactly one device is expected to be created.
	Creates bool

	// Via is the channel the table used and Why is the reason of a refusal;
	// both only feed the classes.
	Via string
	Why string
}

func (v vc03Verdict) String() (s string) {
	switch {
	case v.Kind == vc03OK && v.Dev != nil:
		return fmt.Sprintf("ok(prof=%s dev=%s via=%s)", v.Prof.ID, v.Dev.ID, v.Via)
	case v.Kind == vc03OK:
		return fmt.Sprintf("ok(prof=%s new auto device human=%s via=%s)", v.Prof.ID, v.AutoHuman, v.Via)
	default:
		return fmt.Sprintf("%s(via=%s why=%s creates=%t)", vc03KindNames[v.Kind], v.Via, v.Why, v.Creates)
	}
}

// vc03Opts select the reading of the corners the property statement leaves
// open; every reading that applies to a case yields an acceptable verdict.
type vc03Opts struct {
	// FoldUser: the basic-auth user is matched case-insensitively.
	FoldUser bool
	// FoldCPE: the CPE-ID is matched case-insensitively.
	FoldCPE bool
	// Quirk: a first path segment that is a proper suffix of a DNS path
	// ("query", "y") is a DNS path, as the HTTP server's own routing has it.
	Quirk bool
	// CPEPick is the index, among the CPE-ID options, of the one that counts.
	CPEPick int
	// OPTReading is the reading of a message with two OPT records.
	OPTReading int
}

func vc03ValidDevID(s string) (ok bool) {
	if len(s) < 1 || len(s) > 8 {
		return false
	}

	for i := 0; i < len(s); i++ {
		b := s[i]
		alnum := (b >= 'a' && b <= 'z') || (b >= 'A' && b <= 'Z') || (b >= '0' && b <= '9')
		if alnum {
			continue
		}

		if b == '-' && i > 0 && i < len(s)-1 {
			continue
		}

		return false
	}

	return true
}

var vc03HumanParser = agd.NewHumanIDParser()

// vc03ParseExt parses "type-profile-human".  The normalisation of the human id
// is taken from agd.HumanIDParser (trusted, not anchored by C03).
func vc03ParseExt(s string) (profID, humanLower string, ok bool) {
	parts := strings.SplitN(s, "-", 3)
	if len(parts) != 3 {
		return "", "", false
	}

	typOK := false
	for _, dt := range vc03DevTypes {
		if len(parts[0]) == 3 && strings.EqualFold(parts[0], dt) {
			typOK = true
		}
	}

	if !typOK || len(parts[1]) > 8 {
		return "", "", false
	}

	h, err := vc03HumanParser.ParseNormalized(parts[2])
	if err != nil {
		return "", "", false
	}

	return strings.ToLower(parts[1]), strings.ToLower(string(h)), true
}

// pathSegments returns the segments of the cleaned path.
func vc03PathSegments(p string) (segs []string) {
	for _, s := range strings.Split(path.Clean(p), "/") {
		if s != "" && s != "." {
			segs = append(segs, s)
		}
	}

	return segs
}

func vc03IsQuirkSegment(s string) (ok bool) {
	if s == "dns-query" || s == "resolve" || s == "" {
		return false
	}

	return strings.HasSuffix("dns-query", s) || strings.HasSuffix("resolve", s)
}

// sniLabel returns the identifier label of the TLS server name: the name must
// be exactly one label below a configured device domain (wildcard semantics of
// device_id_wildcards), compared case-insensitively.
func (c *vc03Case) sniLabel() (label string, ok bool) {
	if len(c.Domains) == 0 || c.SNI == "" {
		return "", false
	}

	i := strings.IndexByte(c.SNI, '.')
	if i <= 0 {
		return "", false
	}

	parent := strings.ToLower(c.SNI[i+1:])
	if !slices.Contains(c.Domains, parent) {
		return "", false
	}

	return c.SNI[:i], true
}

func (c *vc03Case) cpeOpts() (opts []vc03Opt) {
	return c.cpeOptsOf(vc03OPTLast)
}

// Readings of a message with two OPT records.
const (
	vc03OPTLast  = iota // the last record counts (what the message library hands out)
	vc03OPTFirst        // the first record counts
	vc03OPTAll          // the options of both count, in order
)

// cpeOptsOf returns the CPE-ID options under the given reading of a message
// with two OPT records; with one record all readings are the same.
func (c *vc03Case) cpeOptsOf(reading int) (opts []vc03Opt) {
	if !c.HasOPT {
		return nil
	}

	src := c.Opts
	switch {
	case c.Opts2 == nil:
		// One record.
	case reading == vc03OPTLast:
		src = c.Opts2
	case reading == vc03OPTAll:
		src = append(slices.Clone(c.Opts), c.Opts2...)
	}

	for _, o := range src {
		if o.Code == devicefinder.DnsmasqCPEIDOption {
			opts = append(opts, o)
		}
	}

	return opts
}

// vc03Oracle is the decision table.
func vc03Oracle(c *vc03Case, o vc03Opts) (v vc03Verdict) {
	w := c.World

	if c.Proto == agd.ProtoDNSCrypt {
		return vc03Verdict{Kind: vc03Nil, Via: "none", Why: "dnscrypt"}
	}

	// byDevID resolves a device identifier.
	dbError := func(via string) (v vc03Verdict) {
		return vc03Verdict{Kind: vc03Error, Via: via, Why: "db-error"}
	}

	byDevID := func(id, via string) (v vc03Verdict) {
		if w.Fault == vc03FaultDBError {
			return dbError(via)
		}

		d := w.devByID(id)
		switch w.state(d) {
		case vc03LookNone:
			return vc03Verdict{Kind: vc03Nil, Via: via, Why: "no-such-device"}
		case vc03LookOrphan:
			return vc03Verdict{Kind: vc03Nil, Via: via, Why: "profile-missing"}
		case vc03LookDetached:
			return vc03Verdict{Kind: vc03Nil, Via: via, Why: "detached"}
		}

		return c.admit(d, vc03Verdict{Via: via})
	}

	// byIdent resolves an identifier string from a path segment or a label.
	byIdent := func(s, via string) (v vc03Verdict) {
		if strings.Count(s, "-") >= 2 {
			profID, human, ok := vc03ParseExt(s)
			if !ok {
				return vc03Verdict{Kind: vc03Error, Via: via, Why: "bad-ext-id"}
			}

			via += "+humanid"
			if w.Fault == vc03FaultDBError {
				return dbError(via)
			}

			p := w.profByID(profID)
			if p == nil {
				return vc03Verdict{Kind: vc03Nil, Via: via, Why: "no-such-profile"}
			}

			if d := w.devByHuman(profID, human); d != nil {
				return c.admit(d, vc03Verdict{Via: via})
			}

			if !p.Auto {
				return vc03Verdict{Kind: vc03Nil, Via: via, Why: "auto-devices-off"}
			}

			if w.Fault == vc03FaultCtxCancelled {
				return vc03Verdict{Kind: vc03Error, Via: via, Why: "ctx-cancelled-create"}
			}

			if p.Deleted {
				return vc03Verdict{Kind: vc03Nil, Via: via, Why: "deleted", Creates: true}
			}

			// A new device has no authentication settings.
			return vc03Verdict{Kind: vc03OK, Prof: p, AutoHuman: human, Creates: true, Via: via + "+auto"}
		}

		if !vc03ValidDevID(s) {
			return vc03Verdict{Kind: vc03Error, Via: via, Why: "bad-device-id"}
		}

		return byDevID(strings.ToLower(s), via)
	}

	bySNI := func() (v vc03Verdict) {
		label, ok := c.sniLabel()
		if !ok {
			return vc03Verdict{Kind: vc03Nil, Via: "none", Why: "no-identifier"}
		}

		return byIdent(label, "sni")
	}

	switch c.Proto {
	case agd.ProtoDoH:
		if c.UI != nil {
			if !vc03ValidDevID(c.UI.User) {
				return vc03Verdict{Kind: vc03Error, Via: "userinfo", Why: "bad-device-id"}
			}

			id := c.UI.User
			if o.FoldUser {
				id = strings.ToLower(id)
			}

			return byDevID(id, "userinfo")
		}

		segs := vc03PathSegments(c.Path)
		if len(segs) == 0 || len(segs) > 2 {
			return vc03Verdict{Kind: vc03Error, Via: "path", Why: "bad-path"}
		}

		isDNS := segs[0] == "dns-query" || segs[0] == "resolve" || (o.Quirk && vc03IsQuirkSegment(segs[0]))
		if !isDNS {
			return vc03Verdict{Kind: vc03Error, Via: "path", Why: "not-dns-path"}
		}

		if len(segs) == 2 {
			return byIdent(segs[1], "path")
		}

		return bySNI()
	case agd.ProtoDoT, agd.ProtoDoQ:
		return bySNI()
	}

	// Plain DNS.
	if cpe := c.cpeOptsOf(o.OPTReading); len(cpe) > 0 {
		id := cpe[o.CPEPick].Data
		if !vc03ValidDevID(id) {
			return vc03Verdict{Kind: vc03Error, Via: "cpe", Why: "bad-device-id"}
		}

		if o.FoldCPE {
			id = strings.ToLower(id)
		}

		return byDevID(id, "cpe")
	}

	if c.bindsToInterfaces() && !c.isOwnAddr() {
		if w.Fault == vc03FaultDBError {
			return dbError("dedicated")
		}

		d := w.devByDedicated(c.Laddr.Addr())
		if w.state(d) != vc03LookOK {
			return vc03Verdict{Kind: vc03UnknownDedicated, Via: "dedicated", Why: "unknown-dedicated"}
		}

		return c.admit(d, vc03Verdict{Via: "dedicated"})
	}

	if !c.LinkedOn {
		return vc03Verdict{Kind: vc03Nil, Via: "none", Why: "no-identifier"}
	}

	if w.Fault == vc03FaultDBError {
		return dbError("linked")
	}

	d := w.devByLinked(c.Raddr.Addr())
	switch w.state(d) {
	case vc03LookNone:
		return vc03Verdict{Kind: vc03Nil, Via: "none", Why: "no-identifier"}
	case vc03LookOrphan:
		return vc03Verdict{Kind: vc03Nil, Via: "linked", Why: "profile-missing"}
	case vc03LookDetached:
		return vc03Verdict{Kind: vc03Nil, Via: "linked", Why: "detached"}
	}

	return c.admit(d, vc03Verdict{Via: "linked"})
}

// admit applies the ownership and authentication clauses to a device that the
// database still lists in a present profile.
func (c *vc03Case) admit(d *vc03Dev, v vc03Verdict) (res vc03Verdict) {
	p := c.World.Profs[d.Owner]
	if p.Deleted {
		v.Kind, v.Why = vc03Nil, "deleted"

		return v
	}

	if why := c.authRefusal(d); why != "" {
		v.Kind, v.Why = vc03AuthFail, why

		return v
	}

	v.Kind, v.Dev, v.Prof = vc03OK, d, p

	return v
}

// authRefusal returns the reason the device's authentication policy is not
// met, or "".
func (c *vc03Case) authRefusal(d *vc03Dev) (why string) {
	if d.Auth != vc03AuthOn && d.Auth != vc03AuthOnDoHOnly {
		return ""
	}

	if d.Auth == vc03AuthOnDoHOnly {
		if c.Proto != agd.ProtoDoH {
			return "dohonly-not-doh"
		} else if c.UI == nil {
			return "dohonly-no-credentials"
		}
	}

	if c.Proto == agd.ProtoDoH && c.UI != nil {
		return d.passwordRefusal(c.UI)
	}

	return ""
}

// vc03Acceptable returns the verdicts of every applicable reading; the first
// one is the reading documented in the code comments.
func vc03Acceptable(c *vc03Case) (vs []vc03Verdict) {
	userFolds := []bool{false}
	if c.Proto == agd.ProtoDoH && c.UI != nil && strings.ToLower(c.UI.User) != c.UI.User {
		userFolds = append(userFolds, true)
	}

	quirks := []bool{true}
	if c.Proto == agd.ProtoDoH && c.UI == nil {
		if segs := vc03PathSegments(c.Path); len(segs) > 0 && vc03IsQuirkSegment(segs[0]) {
			quirks = append(quirks, false)
		}
	}

	type cpeReading struct {
		all  int
		pick int
	}

	cpeFolds := []bool{false}
	readings := []cpeReading{{}}
	if c.Proto == agd.ProtoDNS {
		alls := []int{vc03OPTLast}
		if c.Opts2 != nil {
			alls = append(alls, vc03OPTFirst, vc03OPTAll)
		}

		readings = nil
		for _, all := range alls {
			readings = append(readings, cpeReading{all: all})
			cpe := c.cpeOptsOf(all)
			for i, o := range cpe {
				if strings.ToLower(o.Data) != o.Data {
					cpeFolds = []bool{false, true}
				}

				if i > 0 && o.Data != cpe[0].Data {
					readings = append(readings, cpeReading{all: all, pick: i})
				}
			}
		}
	}

	for _, fu := range userFolds {
		for _, q := range quirks {
			for _, fc := range cpeFolds {
				for _, r := range readings {
					vs = append(vs, vc03Oracle(c, vc03Opts{FoldUser: fu, Quirk: q, FoldCPE: fc, CPEPick: r.pick, OPTReading: r.all}))
				}
			}
		}
	}

	return vs
}

// ---------------------------------------------------------------------------
// Comparison

// vc03Got is the observed result in model terms.
type vc03Got struct {
	Kind int
	Prof *agd.Profile
	Dev  *agd.Device
	Err  error
}

func vc03Observe(r agd.DeviceResult) (g vc03Got) {
	switch r := r.(type) {
	case nil:
		return vc03Got{Kind: vc03Nil}
	case *agd.DeviceResultOK:
		return vc03Got{Kind: vc03OK, Prof: r.Profile, Dev: r.Device}
	case *agd.DeviceResultAuthenticationFailure:
		return vc03Got{Kind: vc03AuthFail, Err: r.Err}
	case *agd.DeviceResultError:
		return vc03Got{Kind: vc03Error, Err: r.Err}
	case *agd.DeviceResultUnknownDedicated:
		return vc03Got{Kind: vc03UnknownDedicated, Err: r.Err}
	default:
		return vc03Got{Kind: -1, Err: fmt.Errorf("unknown result type %T", r)}
	}
}

func (g vc03Got) String() (s string) {
	switch {
	case g.Kind == vc03OK && g.Prof != nil && g.Dev != nil:
		return fmt.Sprintf("ok(prof=%s dev=%s human=%q)", g.Prof.ID, g.Dev.ID, g.Dev.HumanIDLower)
	case g.Kind == vc03OK:
		return fmt.Sprintf("ok(prof=%v dev=%v)", g.Prof, g.Dev)
	case g.Kind < 0:
		return fmt.Sprintf("invalid(%v)", g.Err)
	default:
		return fmt.Sprintf("%s(err=%v)", vc03KindNames[g.Kind], g.Err)
	}
}

// matches reports whether the observed result is the verdict.
func (w *vc03World) matches(g vc03Got, v vc03Verdict) (ok bool) {
	if g.Kind != v.Kind {
		return false
	}

	wantCreated := 0
	if v.Creates {
		wantCreated = 1
	}

	if len(w.created) != wantCreated {
		return false
	}

	if v.Kind != vc03OK {
		return true
	}

	if g.Prof != v.Prof.p {
		return false
	}

	if v.Dev != nil {
		return g.Dev == v.Dev.d
	}

	return g.Dev == w.created[0] && string(g.Dev.HumanIDLower) == v.AutoHuman && w.createdProf[0] == v.Prof.p
}

// identMatches reports whether the identifier string s names the device d of
// profile p, leniently (any letter case).
func vc03IdentMatches(s string, p *agd.Profile, d *agd.Device) (ok bool) {
	if strings.EqualFold(s, string(d.ID)) {
		return true
	}

	if d.HumanIDLower == "" || strings.Count(s, "-") < 2 {
		return false
	}

	profID, human, ok := vc03ParseExt(s)

	return ok && profID == strings.ToLower(string(p.ID)) && human == string(d.HumanIDLower)
}

// carries reports whether the request carries an identifier of d through some
// channel that is valid for the transport.  It is deliberately lenient: any
// position in the path, any CPE-ID option, any letter case.
func (c *vc03Case) carries(p *agd.Profile, d *agd.Device) (ok bool) {
	sniOK := func() (ok bool) {
		label, has := c.sniLabel()

		return has && vc03IdentMatches(label, p, d)
	}

	switch c.Proto {
	case agd.ProtoDoH:
		if c.UI != nil && strings.EqualFold(c.UI.User, string(d.ID)) {
			return true
		}

		for _, seg := range vc03PathSegments(c.Path) {
			if vc03IdentMatches(seg, p, d) {
				return true
			}
		}

		return sniOK()
	case agd.ProtoDoT, agd.ProtoDoQ:
		return sniOK()
	case agd.ProtoDNS:
		for _, o := range c.cpeOptsOf(vc03OPTAll) {
			if strings.EqualFold(o.Data, string(d.ID)) {
				return true
			}
		}

		if c.bindsToInterfaces() && slices.Contains(d.DedicatedIPs, c.Laddr.Addr()) {
			return true
		}

		return c.LinkedOn && d.LinkedIP.IsValid() && d.LinkedIP == c.Raddr.Addr()
	default:
		return false
	}
}

// vc03Invariants checks the one-directional security invariants on an observed
// result.  It returns the first violated one or "".
func vc03Invariants(c *vc03Case, g vc03Got) (violated string) {
	w := c.World

	// I6 is about refusals, so it comes before the early return: a wrong,
	// empty or missing password supplied for an existing device with
	// authentication enabled never yields recognition of anything.
	if c.Proto == agd.ProtoDoH && c.UI != nil && g.Kind == vc03OK {
		for _, d := range w.Devs {
			authOn := d.Auth == vc03AuthOn || d.Auth == vc03AuthOnDoHOnly
			if authOn && w.state(d) == vc03LookOK && strings.EqualFold(d.ID, c.UI.User) && d.passwordRefusal(c.UI) != "" {
				return fmt.Sprintf(
					"I6: bad password (%s: %s) supplied for device %s with authentication enabled (stored hash: %s), yet the request is recognised",
					c.UI.Kind, d.passwordRefusal(c.UI), d.ID, vc03HashNames[d.Hash],
				)
			}
		}
	}

	if g.Kind != vc03OK {
		return ""
	}

	if g.Prof == nil || g.Dev == nil || g.Dev.Auth == nil {
		return "I0: DeviceResultOK with a nil profile, device or auth settings"
	}

	// I1: DNSCrypt requests are always anonymous.
	if c.Proto == agd.ProtoDNSCrypt {
		return "I1: recognised on DNSCrypt"
	}

	// I2: the profile is a present, non-deleted profile of the database and
	// lists the device (or the device was just created for it).
	var mp *vc03Prof
	for _, p := range w.Profs {
		if p.p == g.Prof {
			mp = p
		}
	}

	switch {
	case mp == nil || !mp.Present:
		return "I2: the profile is not a profile of the database"
	case g.Prof.Deleted:
		return "I2: the profile is deleted"
	}

	isCreated := false
	for i, d := range w.created {
		if d == g.Dev && w.createdProf[i] == g.Prof {
			isCreated = true
		}
	}

	if !isCreated && !slices.Contains(g.Prof.DeviceIDs, g.Dev.ID) {
		return "I2: the device is not listed in the profile"
	}

	// I3: the identifier came through a channel valid for the transport.
	if !c.carries(g.Prof, g.Dev) {
		return "I3: the request does not carry this device's identifier through a channel valid for the transport"
	}

	// I4 and I5 need the model device for the password.
	md := w.devByID(string(g.Dev.ID))
	if isCreated || md == nil {
		return ""
	}

	auth := g.Dev.Auth
	credsOK := c.Proto == agd.ProtoDoH && c.UI != nil && md.passwordRefusal(c.UI) == ""
	if auth.Enabled && auth.DoHAuthOnly && !credsOK {
		return "I4: DoH-only device recognised on another transport or without correct credentials"
	}

	if auth.Enabled && c.UI != nil && !credsOK {
		return "I5: authentication-enabled device recognised although the supplied password is unset or wrong"
	}

	return ""
}

// vc03Evaluate compares an observed result with the table and the invariants,
// records the case, and fails t on a violation.
func vc03Evaluate(t *rapid.T, st *vstat.Stats, c *vc03Case, r agd.DeviceResult) (primary vc03Verdict, g vc03Got) {
	g = vc03Observe(r)
	vs := vc03Acceptable(c)
	primary = vs[0]

	if len(c.World.dbContract) > 0 {
		t.Fatalf("C03 database contract broken by the finder: %v\ncase: %s", c.World.dbContract, c)
	}

	if inv := vc03Invariants(c, g); inv != "" {
		t.Fatalf("C03 invariant violated: %s\ngot: %s\ntable: %s\ncase: %s", inv, g, primary, c)
	}

	matched := -1
	for i, v := range vs {
		if c.World.matches(g, v) {
			matched = i

			break
		}
	}

	if matched < 0 {
		direction := "refusal kind differs"
		switch {
		case g.Kind == vc03OK && primary.Kind != vc03OK:
			direction = "over-recognition"
		case g.Kind == vc03OK:
			direction = "recognised as a different device"
		case primary.Kind == vc03OK:
			direction = "under-recognition"
		case g.Kind == primary.Kind:
			direction = "device creation differs"
		}

		// The statement is an "only if": recognising a request the table does
		// not allow, or as another device, breaks it.  So does failing to serve
		// a wrong-password request as anonymous (its last sentence).  The other
		// deviations from the table (a request the table would recognise is
		// refused, or refused in another way) contradict documented behaviour
		// but not the property; they are counted, not reported.
		fatal := direction == "over-recognition" || direction == "recognised as a different device" ||
			(primary.Kind == vc03AuthFail && (g.Kind == vc03Error || g.Kind == vc03UnknownDedicated))
		if fatal {
			t.Fatalf(
				"C03 decision table mismatch (%s)\ngot: %s (devices created: %d)\nacceptable: %v\ncase: %s",
				direction, g, len(c.World.created), vs, c,
			)
		}

		st.Class("table-deviation-tolerated:" + direction)

		return primary, g
	}

	vc03Record(st, c, vs, matched, g)

	return primary, g
}

// references reports whether any channel of the request, valid for the
// transport or not, names a device record of the database.
func (c *vc03Case) references() (ok bool) {
	w := c.World
	names := func(s string) (ok bool) {
		for _, d := range w.Devs {
			if vc03IdentMatches(s, w.Profs[d.Owner].pOrStub(), d.d) {
				return true
			}
		}

		return false
	}

	if c.UI != nil && names(c.UI.User) {
		return true
	}

	for _, seg := range vc03PathSegments(c.Path) {
		if c.Proto == agd.ProtoDoH && names(seg) {
			return true
		}
	}

	for _, label := range strings.Split(c.SNI, ".") {
		if label != "" && names(label) {
			return true
		}
	}

	for _, o := range append(slices.Clone(c.Opts), c.Opts2...) {
		if names(o.Data) {
			return true
		}
	}

	return w.devByDedicated(c.Laddr.Addr()) != nil || w.devByLinked(c.Raddr.Addr()) != nil
}

// namedDevices returns the number of different device records that the
// channels of the request name, whether valid for the transport or not.
func (c *vc03Case) namedDevices() (n int) {
	w := c.World
	named := map[*vc03Dev]bool{}
	mark := func(s string) {
		for _, d := range w.Devs {
			if vc03IdentMatches(s, w.Profs[d.Owner].pOrStub(), d.d) {
				named[d] = true
			}
		}
	}

	if c.UI != nil {
		mark(c.UI.User)
	}

	if c.Proto == agd.ProtoDoH {
		for _, seg := range vc03PathSegments(c.Path) {
			mark(seg)
		}
	}

	if i := strings.IndexByte(c.SNI, '.'); i > 0 {
		mark(c.SNI[:i])
	}

	for _, o := range append(slices.Clone(c.Opts), c.Opts2...) {
		mark(o.Data)
	}

	if d := w.devByDedicated(c.Laddr.Addr()); d != nil {
		named[d] = true
	}

	if d := w.devByLinked(c.Raddr.Addr()); d != nil {
		named[d] = true
	}

	return len(named)
}

// vc03UserOf returns the basic-auth user of the case, if any.
func vc03UserOf(c *vc03Case) (user string) {
	if c.UI == nil {
		return ""
	}

	return c.UI.User
}

func (p *vc03Prof) pOrStub() (ap *agd.Profile) {
	if p.p != nil {
		return p.p
	}

	return &agd.Profile{ID: agd.ProfileID(p.ID)}
}

func vc03Record(st *vstat.Stats, c *vc03Case, vs []vc03Verdict, matched int, g vc03Got) {
	v := vs[matched]
	w := c.World
	proto := vc03ProtoName(c.Proto)

	classes := []string{
		"got:" + vc03KindNames[g.Kind],
		"proto:" + proto,
		"bind:" + vc03BindNames[c.Bind],
	}
	classes = append(classes, c.Notes...)

	if len(vs) > 1 {
		distinct := false
		for _, o := range vs[1:] {
			if o.Kind != vs[0].Kind || o.Dev != vs[0].Dev {
				distinct = true
			}
		}

		if distinct {
			classes = append(classes, "open-corner")
			if matched > 0 && !w.matches(g, vs[0]) {
				classes = append(classes, "open-corner-alternate-taken")
			}
		}
	}

	switch v.Kind {
	case vc03OK:
		classes = append(classes, "ok-via-"+v.Via, "ok-on-"+proto)
		if v.Dev != nil {
			classes = append(classes, "ok-auth-"+vc03AuthNames[v.Dev.Auth])
			if v.Dev.Auth == vc03AuthOnDoHOnly {
				classes = append(classes, "dohonly-ok")
			}

			if v.Dev.Auth == vc03AuthOn && c.UI != nil {
				classes = append(classes, "right-password-ok")
			}

			if (v.Dev.Auth == vc03AuthOn || v.Dev.Auth == vc03AuthOnDoHOnly) && c.UI != nil {
				switch v.Dev.Hash {
				case vc03HashValid, vc03HashOther:
					classes = append(classes, "auth-real-bcrypt-right", "auth-right:"+vc03HashNames[v.Dev.Hash])
				case vc03HashAllow:
					classes = append(classes, "auth-allow-all-any-password", "auth-allow-all:"+c.UI.Kind)
				}
			}

			if v.Dev.Auth == vc03AuthOn && c.UI == nil {
				classes = append(classes, "auth-on-without-userinfo-ok")
			}
		}

		if strings.Contains(v.Via, "humanid") {
			classes = append(classes, "ok-via-humanid")
		}

		if v.Creates {
			classes = append(classes, "ok-auto-created")
		}

		if c.SNI != strings.ToLower(c.SNI) && strings.HasPrefix(v.Via, "sni") {
			classes = append(classes, "ok-sni-case-variant")
		}
	case vc03AuthFail:
		classes = append(classes, "authfail:"+v.Why)
		if d := w.devByID(strings.ToLower(vc03UserOf(c))); d != nil && c.UI != nil && c.UI.PwSet {
			switch {
			case v.Why == "unusable-hash":
				classes = append(classes, "auth-unusable-hash-any-password",
					"auth-unusable:"+vc03HashNames[d.Hash], "auth-unusable-pw:"+c.UI.Kind)
			case v.Why == "password-wrong" || v.Why == "password-empty":
				classes = append(classes, "auth-real-bcrypt-wrong", "auth-wrong:"+vc03HashNames[d.Hash])
			}
		}
	case vc03Nil:
		classes = append(classes, "nil:"+v.Why)
		if v.Creates {
			classes = append(classes, "created-for-deleted-profile")
		}
	case vc03Error:
		classes = append(classes, "error:"+v.Via+":"+v.Why)
		if v.Why == "db-error" || v.Why == "ctx-cancelled-create" {
			classes = append(classes, "fault:"+v.Why)
		}
	}

	if n := c.namedDevices(); n > 1 {
		classes = append(classes, "channels-conflict")
	}

	// Identifiers that must be ignored on this transport.
	encrypted := c.Proto == agd.ProtoDoH || c.Proto == agd.ProtoDoT || c.Proto == agd.ProtoDoQ
	addrHit := w.state(w.devByDedicated(c.Laddr.Addr())) == vc03LookOK || w.state(w.devByLinked(c.Raddr.Addr())) == vc03LookOK
	if encrypted && addrHit && v.Kind == vc03Nil && v.Via == "none" {
		classes = append(classes, "address-ignored-on-encrypted")
	}

	if encrypted && len(c.cpeOpts()) > 0 && w.state(w.devByID(c.cpeOpts()[0].Data)) == vc03LookOK && v.Via != "cpe" {
		classes = append(classes, "cpe-ignored-on-encrypted")
	}

	if c.Proto == agd.ProtoDNSCrypt && c.references() {
		classes = append(classes, "dnscrypt-with-identifier")
	}

	if c.Proto == agd.ProtoDNS && !c.LinkedOn && len(c.cpeOpts()) == 0 && w.state(w.devByLinked(c.Raddr.Addr())) == vc03LookOK &&
		v.Kind == vc03Nil {
		classes = append(classes, "linked-ip-disabled-ignored")
	}

	nt := ""
	if c.references() {
		nt = c.String()
		classes = append(classes, "nontrivial")
	}

	st.Case(nt, classes...)
	if nt != "" && st.WantSample() {
		m := c.describe()
		m["verdict"] = v.String()
		m["got"] = g.String()
		st.Sample(m)
	}
}

// ---------------------------------------------------------------------------
// Tests

var vc03Logger = slogutil.NewDiscardLogger()

func (c *vc03Case) finder() (f *devicefinder.Default) {
	return devicefinder.NewDefault(&devicefinder.Config{
		Logger:        vc03Logger,
		ProfileDB:     c.World.db(),
		HumanIDParser: agd.NewHumanIDParser(),
		Server:        c.server(),
		DeviceDomains: c.Domains,
	})
}

// ctx returns the context of the request as the dnsserver package builds it;
// it is already cancelled if the world says so.
func (c *vc03Case) ctx() (ctx context.Context) {
	ctx = context.Background()
	if c.World.Fault == vc03FaultCtxCancelled {
		var cancel context.CancelFunc
		ctx, cancel = context.WithCancel(ctx)
		cancel()
	}

	return dnsserver.ContextWithRequestInfo(ctx, c.srvReqInfo())
}

// netAddrs returns the addresses as the servers of the transport report them.
func (c *vc03Case) netAddrs() (laddr, raddr net.Addr) {
	form := func(ap netip.AddrPort) (res netip.AddrPort) {
		if c.Mapped && ap.Addr().Is4() {
			return netip.AddrPortFrom(netip.AddrFrom16(ap.Addr().As16()), ap.Port())
		}

		return ap
	}

	switch c.Proto {
	case agd.ProtoDoT, agd.ProtoDoH:
		return net.TCPAddrFromAddrPort(form(c.Laddr)), net.TCPAddrFromAddrPort(form(c.Raddr))
	default:
		return net.UDPAddrFromAddrPort(form(c.Laddr)), net.UDPAddrFromAddrPort(form(c.Raddr))
	}
}

// vc03Flips reports whether two verdicts differ in what the client gets.
func vc03Flips(a, b vc03Verdict) (ok bool) {
	return a.Kind != b.Kind || a.Dev != b.Dev || a.Prof != b.Prof
}

var vc03Required = []string{
	"nontrivial",
	"channels-conflict", "fault:db-error", "fault:ctx-cancelled-create",
	"near-miss", "near-miss-flips-verdict",
	"auth-real-bcrypt-right", "auth-real-bcrypt-wrong", "auth-unusable-hash-any-password", "auth-allow-all-any-password",
	"ok-via-userinfo", "ok-via-path", "ok-via-sni", "ok-via-cpe", "ok-via-dedicated", "ok-via-linked",
	"ok-via-humanid", "ok-auto-created", "ok-sni-case-variant",
	"dohonly-ok", "right-password-ok",
	"authfail:dohonly-not-doh", "authfail:dohonly-no-credentials",
	"authfail:password-unset", "authfail:password-empty", "authfail:password-wrong", "authfail:unusable-hash",
	"nil:deleted", "nil:detached", "nil:profile-missing",
	"address-ignored-on-encrypted", "cpe-ignored-on-encrypted", "linked-ip-disabled-ignored",
	"dnscrypt-with-identifier", "sni-nested", "sni-suffix-trick",
	"got:unknown-dedicated", "got:error",
}

func TestVerifC03Find(t *testing.T) {
	st := vstat.New("C03", "devicefinder.find",
		"rapid over transport x server settings x device domains x model profile database x request channels (path, userinfo, SNI, EDNS options, addresses) through devicefinder.Default.Find; non-trivial = some channel of the request (valid for the transport or not) names a device record of the database; distinct by the whole case",
		vc03Required...)
	st.Finish(t)

	rapid.Check(t, func(t *rapid.T) {
		c := vc03GenCase(t)
		f := c.finder()

		r := f.Find(c.ctx(), c.msg(), c.Raddr, c.Laddr)
		first, _ := vc03Evaluate(t, st, c, r)

		if !vc03Chance(t, "followUp", 60) {
			return
		}

		// A near miss of the same request, served by the same finder unless
		// the server settings are what changed.
		n, what := vc03NearMiss(t, c)
		switch what {
		case "linked-flag", "bind", "domains":
			f = n.finder()
		}

		r = f.Find(n.ctx(), n.msg(), n.Raddr, n.Laddr)
		second, _ := vc03Evaluate(t, st, n, r)

		st.Class("near-miss", "near-miss:"+what)
		if vc03Flips(first, second) {
			st.Class("near-miss-flips-verdict", "near-miss-flips:"+what)
		}
	})
}

// vc03SwitchFinder lets one long-lived middleware (and its request-info pool)
// serve every generated world.
type vc03SwitchFinder struct {
	cur   agd.DeviceFinder
	last  agd.DeviceResult
	calls int
}

func (f *vc03SwitchFinder) Find(ctx context.Context, req *dns.Msg, raddr, laddr netip.AddrPort) (r agd.DeviceResult) {
	f.calls++
	f.last = f.cur.Find(ctx, req, raddr, laddr)

	return f.last
}

type vc03Seen struct {
	calls   int
	result  agd.DeviceResult
	prof    *agd.Profile
	dev     *agd.Device
	msgs    *dnsmsg.Constructor
	ttl     uint32
	proto   agd.Protocol
	hasInfo bool
}

func TestVerifC03Middleware(t *testing.T) {
	st := vstat.New("C03", "devicefinder.middleware",
		"the same generated cases sent through ratelimitmw.Middleware.Wrap (one long-lived middleware per transport, real finder behind it); the next handler's agd.RequestInfo is compared with the decision table; non-trivial as in devicefinder.find",
		"nontrivial", "mw:profile-visible", "mw:served-anonymous-after-authfail", "mw:served-anonymous",
		"mw:dropped-unknown-dedicated", "mw:failed-with-error", "mw:reused-middleware",
		"mw:near-miss", "mw:near-miss-flips-verdict", "mw:anonymous-after-profile", "mw:profile-after-other-profile",
		"mw:process-lived-middleware", "mw:ipv4-mapped-addresses", "opt-record-duplicated",
		"auth-real-bcrypt-right", "auth-real-bcrypt-wrong", "auth-unusable-hash-any-password", "auth-allow-all-any-password")
	st.Finish(t)

	global := agdtest.NewConstructor(t)
	const globalTTL = agdtest.FilteredResponseTTLSec

	type stack struct {
		sw   *vc03SwitchFinder
		seen *vc03Seen
		h    dnsserver.Handler
	}

	// The production metrics, as cmd installs them.
	prodMetrics, err := metrics.NewDefaultRatelimitMiddleware("vc03", prometheus.NewRegistry())
	if err != nil {
		t.Fatalf("creating metrics: %v", err)
	}

	var mwMetrics ratelimitmw.Metrics = ratelimitmw.EmptyMetrics{}
	newStack := func(proto agd.Protocol) (s *stack) {
		s = &stack{sw: &vc03SwitchFinder{}, seen: &vc03Seen{}}
		mw := ratelimitmw.New(&ratelimitmw.Config{
			Logger:           vc03Logger,
			Messages:         global,
			FilteringGroup:   &agd.FilteringGroup{},
			ServerGroup:      &agd.ServerGroup{},
			Server:           &agd.Server{Name: "vc03", Protocol: proto},
			StructuredErrors: agdtest.NewSDEConfig(true),
			AccessManager: &agdtest.AccessManager{
				OnIsBlockedHost: func(string, uint16) bool { return false },
				OnIsBlockedIP:   func(netip.Addr) bool { return false },
			},
			DeviceFinder: s.sw,
			ErrColl:      agdtest.NewErrorCollector(),
			GeoIP: &agdtest.GeoIP{
				OnData: func(string, netip.Addr) (*geoip.Location, error) { return nil, nil },
			},
			Metrics:    mwMetrics,
			Limiter:    agdtest.NewRateLimit(),
			Protocols:  nil,
			EDEEnabled: true,
		})

		seen := s.seen
		s.h = mw.Wrap(dnsserver.HandlerFunc(func(ctx context.Context, rw dnsserver.ResponseWriter, req *dns.Msg) (err error) {
			seen.calls++
			ri, ok := agd.RequestInfoFromContext(ctx)
			seen.hasInfo = ok
			if !ok {
				return nil
			}

			seen.result = ri.DeviceResult
			seen.prof, seen.dev = ri.DeviceData()
			seen.msgs = ri.Messages
			seen.proto = ri.Proto

			resp, err := ri.Messages.NewRespTXT(req, "c03")
			if err != nil {
				return err
			}

			seen.ttl = resp.Answer[0].Header().Ttl

			return rw.WriteMsg(ctx, req, resp)
		}))

		return s
	}

	mwMetrics = prodMetrics
	procStacks := map[agd.Protocol]*stack{}
	procLastKind := map[agd.Protocol]vc03Got{}
	for _, proto := range vc03Protos {
		procStacks[proto] = newStack(proto)
	}

	mwMetrics = ratelimitmw.EmptyMetrics{}

	// serve sends one case through the stack and checks what came out.
	serve := func(t *rapid.T, s *stack, c *vc03Case) (primary vc03Verdict, g vc03Got) {
		*s.seen = vc03Seen{}
		s.sw.cur, s.sw.last, s.sw.calls = c.finder(), nil, 0

		ctx := c.ctx()
		rw := dnsserver.NewNonWriterResponseWriter(c.netAddrs())
		req := c.msg()
		if c.Mapped && (c.Laddr.Addr().Is4() || c.Raddr.Addr().Is4()) {
			st.Class("mw:ipv4-mapped-addresses")
		}

		err := s.h.ServeDNS(ctx, rw, req)

		if s.sw.calls != 1 {
			t.Fatalf("C03 middleware: finder called %d times\ncase: %s", s.sw.calls, c)
		}

		primary, g = vc03Evaluate(t, st, c, s.sw.last)

		seen := s.seen
		fail := func(format string, args ...any) {
			t.Fatalf("C03 middleware: "+format+"\nfinder result: %s\ncase: %s", append(args, g, c)...)
		}

		switch g.Kind {
		case vc03Error:
			if seen.calls != 0 || rw.Msg() != nil {
				fail("a request whose device data could not be processed reached the next handler (%d calls)", seen.calls)
			}

			if err == nil {
				fail("device error swallowed")
			}

			st.Class("mw:failed-with-error")

			return primary, g
		case vc03UnknownDedicated:
			if seen.calls != 0 || rw.Msg() != nil || err != nil {
				fail("a request to an unknown dedicated address was not dropped silently (calls %d, err %v)", seen.calls, err)
			}

			st.Class("mw:dropped-unknown-dedicated")

			return primary, g
		}

		if err != nil {
			fail("unexpected error %v", err)
		}

		if seen.calls != 1 || !seen.hasInfo || rw.Msg() == nil {
			fail("the request was not served exactly once (calls %d, info %t, response %v)", seen.calls, seen.hasInfo, rw.Msg())
		}

		if seen.proto != c.Proto {
			fail("request info says protocol %v", seen.proto)
		}

		if seen.result != s.sw.last {
			fail("the next handler saw device result %v, the finder returned %v", seen.result, s.sw.last)
		}

		if g.Kind == vc03OK {
			if seen.prof != g.Prof || seen.dev != g.Dev {
				fail("the next handler saw profile %v device %v", seen.prof, seen.dev)
			}

			if seen.msgs == global || time.Duration(seen.ttl)*time.Second != g.Prof.FilteredResponseTTL {
				fail("the next handler did not get the profile's message constructor (ttl %d)", seen.ttl)
			}

			st.Class("mw:profile-visible")

			return primary, g
		}

		// nil or authentication failure: served, and served as anonymous.
		if seen.prof != nil || seen.dev != nil {
			fail("anonymous request shown profile %v device %v", seen.prof, seen.dev)
		}

		if seen.msgs != global || seen.ttl != globalTTL {
			fail("anonymous request served with a profile's message constructor (ttl %d)", seen.ttl)
		}

		if g.Kind == vc03AuthFail {
			st.Class("mw:served-anonymous-after-authfail")
		} else {
			st.Class("mw:served-anonymous")
		}

		return primary, g
	}

	rapid.Check(t, func(t *rapid.T) {
		// Every case is a short history over fresh middlewares, so that what
		// one request leaves behind in the middleware's request-info pool is
		// seen by the next one, and a failure is reproducible from the case
		// alone.
		stacks := map[agd.Protocol]*stack{}
		lastKind := map[agd.Protocol]vc03Got{}
		if vc03Chance(t, "processLived", 30) {
			// The middlewares that live as long as the process, with whatever
			// the requests of earlier cases left in their pools.  A failure
			// that needs that history is reported, but rapid cannot replay it.
			stacks, lastKind = procStacks, procLastKind
			st.Class("mw:process-lived-middleware")
		}
		n := 1 + vc03Uniform(t, "requests", 4)
		var prev *vc03Case
		var prevVerdict vc03Verdict
		for i := 0; i < n; i++ {
			var c *vc03Case
			what := ""
			switch {
			case i > 0 && vc03Chance(t, "nearMissNext", 40):
				// The previous request with one component changed.
				c, what = vc03NearMiss(t, prev)
			case i > 0 && vc03Chance(t, "sameProto", 65):
				c = vc03GenCaseProto(t, prev.Proto)
			default:
				c = vc03GenCase(t)
			}

			s := stacks[c.Proto]
			if s == nil {
				s = newStack(c.Proto)
				stacks[c.Proto] = s
			} else {
				st.Class("mw:reused-middleware")
			}

			verdict, g := serve(t, s, c)

			if what != "" {
				st.Class("mw:near-miss", "mw:near-miss:"+what)
				if vc03Flips(prevVerdict, verdict) {
					st.Class("mw:near-miss-flips-verdict")
				}
			}

			// What kind of requester used this middleware's pool before.
			if before, ok := lastKind[c.Proto]; ok && before.Kind == vc03OK {
				switch {
				case g.Kind == vc03Nil || g.Kind == vc03AuthFail:
					st.Class("mw:anonymous-after-profile")
				case g.Kind == vc03OK && g.Prof != before.Prof:
					st.Class("mw:profile-after-other-profile")
				}
			}

			lastKind[c.Proto] = g
			prev, prevVerdict = c, verdict
		}
	})
}

// vc03ConcObs is what one request of the concurrent part observed.
type vc03ConcObs struct {
	result  agd.DeviceResult
	prof    *agd.Profile
	dev     *agd.Device
	ttl     uint32
	global  bool
	served  int
	err     error
	diverse string // non-empty if the iterations of one request disagreed
}

// vc03RecFinder records the finder's results by message id.
type vc03RecFinder struct {
	f   agd.DeviceFinder
	res []agd.DeviceResult // indexed by message id; one writer per index at a time
}

func (f *vc03RecFinder) Find(ctx context.Context, req *dns.Msg, raddr, laddr netip.AddrPort) (r agd.DeviceResult) {
	r = f.f.Find(ctx, req, raddr, laddr)
	f.res[req.Id] = r

	return r
}

// TestVerifC03Concurrent sends several different requests of one world at the
// same time, repeatedly, through one finder and one middleware, and checks
// that every requester got the outcome of its own request.  Schedules are
// sampled, not owned; the run is built with the race detector.
func TestVerifC03Concurrent(t *testing.T) {
	st := vstat.New("C03", "devicefinder.concurrent",
		"rapid: one world and server, 3-8 different requests (half of them near misses of another one), each repeated by its own goroutine through one devicefinder.Default and one ratelimitmw.Middleware under -race; every observation is compared with the decision table of its own request; non-trivial as in devicefinder.find",
		"nontrivial", "conc:batch", "conc:distinct-outcomes-in-batch", "conc:profile-visible", "conc:anonymous")
	st.Finish(t)

	global := agdtest.NewConstructor(t)
	const globalTTL = agdtest.FilteredResponseTTLSec
	iterations := vstat.Scale(12, 40)

	rapid.Check(t, func(t *rapid.T) {
		w := vc03GenWorld(t)
		// Automatic devices make the database stateful; the sequential parts
		// cover them.
		for _, p := range w.Profs {
			p.Auto = false
		}

		w.build()

		base := vc03GenSettings(t, w, vc03Protos[vc03Pick(t, "proto", 30, 15, 10, 40, 5)])
		vc03GenRequest(t, base)

		cases := []*vc03Case{base}
		n := 3 + vc03Uniform(t, "batch", 6)
		for len(cases) < n {
			var c *vc03Case
			what := ""
			for {
				if vc03Chance(t, "batchNear", 50) {
					c, what = vc03NearMiss(t, vc03From(t, "batchOf", cases))
				} else {
					cp := *base
					c = &cp
					vc03GenRequest(t, c)
				}

				// One server serves the whole batch.
				if what != "linked-flag" && what != "bind" && what != "domains" {
					break
				}
			}

			cases = append(cases, c)
		}

		w.resetRuntime()

		rec := &vc03RecFinder{f: base.finder(), res: make([]agd.DeviceResult, len(cases))}
		obs := make([]vc03ConcObs, len(cases))
		mw := ratelimitmw.New(&ratelimitmw.Config{
			Logger:           vc03Logger,
			Messages:         global,
			FilteringGroup:   &agd.FilteringGroup{},
			ServerGroup:      &agd.ServerGroup{},
			Server:           &agd.Server{Name: "vc03", Protocol: base.Proto},
			StructuredErrors: agdtest.NewSDEConfig(true),
			AccessManager: &agdtest.AccessManager{
				OnIsBlockedHost: func(string, uint16) bool { return false },
				OnIsBlockedIP:   func(netip.Addr) bool { return false },
			},
			DeviceFinder: rec,
			ErrColl:      agdtest.NewErrorCollector(),
			GeoIP: &agdtest.GeoIP{
				OnData: func(string, netip.Addr) (*geoip.Location, error) { return nil, nil },
			},
			Metrics:    ratelimitmw.EmptyMetrics{},
			Limiter:    agdtest.NewRateLimit(),
			Protocols:  nil,
			EDEEnabled: true,
		})

		h := mw.Wrap(dnsserver.HandlerFunc(func(ctx context.Context, rw dnsserver.ResponseWriter, req *dns.Msg) (err error) {
			o := &obs[req.Id]
			o.served++
			ri := agd.MustRequestInfoFromContext(ctx)
			o.result = ri.DeviceResult
			o.prof, o.dev = ri.DeviceData()
			o.global = ri.Messages == global

			resp, err := ri.Messages.NewRespTXT(req, "c03")
			if err != nil {
				return err
			}

			o.ttl = resp.Answer[0].Header().Ttl

			return rw.WriteMsg(ctx, req, resp)
		}))

		start := make(chan struct{})
		wg := &sync.WaitGroup{}
		for i, c := range cases {
			wg.Add(1)
			go func(i int, c *vc03Case) {
				defer wg.Done()

				var first vc03ConcObs
				var firstRes agd.DeviceResult
				<-start
				for k := 0; k < iterations; k++ {
					obs[i] = vc03ConcObs{}
					rec.res[i] = nil
					req := c.msg()
					req.Id = uint16(i)
					rw := dnsserver.NewNonWriterResponseWriter(c.netAddrs())
					err := h.ServeDNS(c.ctx(), rw, req)
					obs[i].err = err

					got, res := obs[i], vc03Observe(rec.res[i])
					if k == 0 {
						first, firstRes = got, rec.res[i]

						continue
					}

					was := vc03Observe(firstRes)
					same := res.Kind == was.Kind && res.Prof == was.Prof && res.Dev == was.Dev &&
						got.prof == first.prof && got.dev == first.dev && got.ttl == first.ttl &&
						got.global == first.global && got.served == first.served && (got.err == nil) == (first.err == nil)
					if !same && first.diverse == "" {
						first.diverse = fmt.Sprintf("iteration %d: finder %s, handler saw prof=%v dev=%v ttl=%d served=%d err=%v", k, res, got.prof, got.dev, got.ttl, got.served, got.err)
					}
				}

				obs[i] = first
				rec.res[i] = firstRes
			}(i, c)
		}

		close(start)
		wg.Wait()

		outcomes := map[string]bool{}
		for i, c := range cases {
			o := obs[i]
			fail := func(format string, args ...any) {
				t.Fatalf("C03 concurrent: request %d of %d: "+format+"\ncase: %s", append([]any{i, len(cases)}, append(args, c)...)...)
			}

			if o.diverse != "" {
				fail("the same request got different outcomes while other requests were in flight; first: finder %s, handler saw prof=%v dev=%v ttl=%d; then %s",
					vc03Observe(rec.res[i]), o.prof, o.dev, o.ttl, o.diverse)
			}

			_, g := vc03Evaluate(t, st, c, rec.res[i])
			outcomes[g.String()] = true

			switch g.Kind {
			case vc03Error, vc03UnknownDedicated:
				if o.served != 0 {
					fail("a refused request reached the next handler")
				}
			case vc03OK:
				if o.served != 1 || o.result != rec.res[i] || o.prof != g.Prof || o.dev != g.Dev || o.global ||
					time.Duration(o.ttl)*time.Second != g.Prof.FilteredResponseTTL {
					fail("recognised as %s, but the next handler saw prof=%v dev=%v ttl=%d served=%d", g, o.prof, o.dev, o.ttl, o.served)
				}

				st.Class("conc:profile-visible")
			default:
				if o.served != 1 || o.prof != nil || o.dev != nil || !o.global || o.ttl != globalTTL {
					fail("anonymous (%s), but the next handler saw prof=%v dev=%v ttl=%d served=%d", g, o.prof, o.dev, o.ttl, o.served)
				}

				st.Class("conc:anonymous")
			}
		}

		st.Class("conc:batch")
		if len(outcomes) > 1 {
			st.Class("conc:distinct-outcomes-in-batch")
		}
	})
}
