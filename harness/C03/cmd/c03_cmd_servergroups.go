//go:build verif

package cmd

// C03, configuration plumbing: a generated `server_groups:` section (with the
// `interface_listeners:` and `network:` sections it refers to) -- two or three
// groups whose device-related settings all differ from their neighbours'
// (profiles_enabled, filtering_group, tls.device_id_wildcards that share
// suffixes, ddr switches / device records / ports, per server protocol,
// linked_ip_enabled, bind_addresses or bind_interfaces) -- is parsed and
// validated by the package's own code and converted by the builder's own steps
// (initBindToDevice, initTLSManager, initServerGroups).
//
// (a) Fidelity: every setting arrives in the field of agd.ServerGroup /
// agd.Server the documentation names, in order, wildcards rewritten to the
// domains below which device IDs are looked for ("*.d.example" -> "d.example").
//
// (b) Behaviour: the handlers are built from the converted groups as
// builder.initDNS builds them (dnssvc.NewHandlers) over a recording profile
// database; a query on every server shows which lookups its settings lead to:
// device ID from the TLS server name only below a wildcard of the server's own
// group and only with profiles enabled, linked IP only where
// linked_ip_enabled, dedicated address only on servers bound to interfaces.

import (
	"context"
	"crypto/ecdsa"
	"crypto/elliptic"
	"crypto/rand"
	"crypto/x509"
	"crypto/x509/pkix"
	"encoding/pem"
	"fmt"
	"math/big"
	"net"
	"net/netip"
	"net/url"
	"os"
	"path/filepath"
	"slices"
	"sort"
	"strings"
	"testing"
	"time"

	"github.com/AdguardTeam/AdGuardDNS/internal/agd"
	"github.com/AdguardTeam/AdGuardDNS/internal/agdcache"
	"github.com/AdguardTeam/AdGuardDNS/internal/agdtest"
	"github.com/AdguardTeam/AdGuardDNS/internal/billstat"
	"github.com/AdguardTeam/AdGuardDNS/internal/debugsvc"
	"github.com/AdguardTeam/AdGuardDNS/internal/dnsdb"
	"github.com/AdguardTeam/AdGuardDNS/internal/dnsmsg"
	"github.com/AdguardTeam/AdGuardDNS/internal/dnsserver"
	"github.com/AdguardTeam/AdGuardDNS/internal/dnssvc"
	"github.com/AdguardTeam/AdGuardDNS/internal/filter"
	"github.com/AdguardTeam/AdGuardDNS/internal/filter/hashprefix"
	"github.com/AdguardTeam/AdGuardDNS/internal/geoip"
	"github.com/AdguardTeam/AdGuardDNS/internal/metrics"
	"github.com/AdguardTeam/AdGuardDNS/internal/profiledb"
	"github.com/AdguardTeam/AdGuardDNS/internal/querylog"
	"github.com/AdguardTeam/AdGuardDNS/internal/rulestat"
	"github.com/AdguardTeam/golibs/logutil/slogutil"
	"github.com/AdguardTeam/golibs/netutil"
	"github.com/miekg/dns"
	"github.com/prometheus/client_golang/prometheus"
	"pgregory.net/rapid"
	"verif.local/harness/vstat"
)

// vc03cmdServer is one generated server.
type vc03cmdServer struct {
	Name     string
	Proto    string
	LinkedIP bool
	Addrs    []netip.AddrPort
	// Ifaces is set instead of Addrs for a server bound to interfaces.
	Ifaces []vc03cmdIface
}

type vc03cmdIface struct {
	ID      string
	Port    uint16
	Subnets []netip.Prefix
}

// vc03cmdGroup is one generated server group.
type vc03cmdGroup struct {
	Name      string
	FltGroup  string
	Profiles  bool
	DDR       bool
	Wildcards []string
	// DDRWildcard, if not empty, has a device record with the three ports.
	DDRWildcard                  string
	HTTPSPort, QUICPort, TLSPort uint16
	PublicDomain                 string
	Servers                      []*vc03cmdServer
}

func (g *vc03cmdGroup) needsTLS() bool {
	for _, s := range g.Servers {
		if s.Proto == "tls" || s.Proto == "https" || s.Proto == "quic" {
			return true
		}
	}

	return false
}

// domains is the documented rewriting: the wildcard without its "*." label.
func (g *vc03cmdGroup) domains() (ds []string) {
	for _, w := range g.Wildcards {
		ds = append(ds, w[2:])
	}

	return ds
}

const vc03cmdDNSCryptInline = `
            inline:
                provider_name: '2.dnscrypt-cert.example.org'
                public_key: 'F11DDBCC4817E543845FDDD4CB881849B64226F3DE397625669D87B919BC4FB0'
                private_key: '5752095FFA56D963569951AFE70FE1690F378D13D8AD6F8054DFAA100907F8B6F11DDBCC4817E543845FDDD4CB881849B64226F3DE397625669D87B919BC4FB0'
                resolver_secret: '9E46E79FEB3AB3D45F4EB3EA957DEAF5D9639A0179F1850AFABA7E58F87C74C4'
                resolver_public: '9327C5E64783E19C339BD6B680A56DB85521CC6E4E0CA5DF5274E2D3CE026C6B'
                es_version: 1
                certificate_ttl: 8760h
`

func vc03cmdYAML(groups []*vc03cmdGroup, cert, key string) string {
	var y strings.Builder
	y.WriteString("network:\n    so_sndbuf: 0\n    so_rcvbuf: 0\n")

	var ifaces []vc03cmdIface
	for _, g := range groups {
		for _, s := range g.Servers {
			ifaces = append(ifaces, s.Ifaces...)
		}
	}

	if len(ifaces) > 0 {
		y.WriteString("interface_listeners:\n    channel_buffer_size: 100\n    list:\n")
		for _, i := range ifaces {
			fmt.Fprintf(&y, "        '%s':\n            interface: 'lo'\n            port: %d\n", i.ID, i.Port)
		}
	}

	y.WriteString("server_groups:\n")
	for _, g := range groups {
		fmt.Fprintf(&y, "  - name: '%s'\n    filtering_group: '%s'\n    profiles_enabled: %t\n    ddr:\n        enabled: %t\n", g.Name, g.FltGroup, g.Profiles, g.DDR)
		if g.DDRWildcard != "" {
			fmt.Fprintf(&y, "        device_records:\n            '%s':\n                doh_path: '/dns-query{?dns}'\n                https_port: %d\n                quic_port: %d\n                tls_port: %d\n",
				g.DDRWildcard, g.HTTPSPort, g.QUICPort, g.TLSPort)
		}

		if g.PublicDomain != "" {
			fmt.Fprintf(&y, "        public_records:\n            '%s':\n                doh_path: '/dns-query{?dns}'\n                https_port: %d\n                quic_port: %d\n                tls_port: %d\n",
				g.PublicDomain, g.HTTPSPort+1000, g.QUICPort+1000, g.TLSPort+1000)
		}

		if g.needsTLS() {
			fmt.Fprintf(&y, "    tls:\n        certificates:\n          - certificate: '%s'\n            key: '%s'\n        session_keys: []\n        device_id_wildcards:", cert, key)
			if len(g.Wildcards) == 0 {
				y.WriteString(" []\n")
			} else {
				y.WriteString("\n")
				for _, w := range g.Wildcards {
					fmt.Fprintf(&y, "          - '%s'\n", w)
				}
			}
		}

		y.WriteString("    servers:\n")
		for _, s := range g.Servers {
			fmt.Fprintf(&y, "      - name: '%s'\n        protocol: '%s'\n        linked_ip_enabled: %t\n", s.Name, s.Proto, s.LinkedIP)
			if len(s.Ifaces) > 0 {
				y.WriteString("        bind_interfaces:\n")
				for _, i := range s.Ifaces {
					fmt.Fprintf(&y, "          - id: '%s'\n            subnets:\n", i.ID)
					for _, sn := range i.Subnets {
						fmt.Fprintf(&y, "              - '%s'\n", sn)
					}
				}
			} else {
				y.WriteString("        bind_addresses:\n")
				for _, a := range s.Addrs {
					fmt.Fprintf(&y, "          - '%s'\n", a)
				}
			}

			if s.Proto == "dnscrypt" {
				y.WriteString("        dnscrypt:" + vc03cmdDNSCryptInline)
			}
		}
	}

	return y.String()
}

// vc03cmdProto is the documented meaning of the `protocol` values.
var vc03cmdProto = map[string]agd.Protocol{
	"dns":      agd.ProtoDNS,
	"dnscrypt": agd.ProtoDNSCrypt,
	"https":    agd.ProtoDoH,
	"quic":     agd.ProtoDoQ,
	"tls":      agd.ProtoDoT,
}

func vc03cmdWriteCert(tb testing.TB, certPath, keyPath string) {
	key, err := ecdsa.GenerateKey(elliptic.P256(), rand.Reader)
	if err != nil {
		tb.Fatalf("fixture: generating key: %v", err)
	}

	tmpl := &x509.Certificate{
		SerialNumber: big.NewInt(3),
		Subject:      pkix.Name{CommonName: "dns.example.com"},
		DNSNames:     []string{"dns.example.com", "*.d.dns.example.com"},
		NotBefore:    time.Now().Add(-time.Hour),
		NotAfter:     time.Now().Add(240 * time.Hour),
		KeyUsage:     x509.KeyUsageDigitalSignature,
		ExtKeyUsage:  []x509.ExtKeyUsage{x509.ExtKeyUsageServerAuth},
	}

	der, err := x509.CreateCertificate(rand.Reader, tmpl, tmpl, &key.PublicKey, key)
	if err != nil {
		tb.Fatalf("fixture: creating certificate: %v", err)
	}

	keyDER, err := x509.MarshalECPrivateKey(key)
	if err != nil {
		tb.Fatalf("fixture: marshalling key: %v", err)
	}

	if err = os.WriteFile(certPath, pem.EncodeToMemory(&pem.Block{Type: "CERTIFICATE", Bytes: der}), 0o600); err != nil {
		tb.Fatalf("fixture: %v", err)
	}

	if err = os.WriteFile(keyPath, pem.EncodeToMemory(&pem.Block{Type: "EC PRIVATE KEY", Bytes: keyDER}), 0o600); err != nil {
		tb.Fatalf("fixture: %v", err)
	}
}

// vc03cmdDB records the lookups.
type vc03cmdDB struct {
	calls []string
}

func (db *vc03cmdDB) iface() *agdtest.ProfileDB {
	p := agdtest.NewProfileDB()
	p.OnProfileByDeviceID = func(_ context.Context, id agd.DeviceID) (*agd.Profile, *agd.Device, error) {
		db.calls = append(db.calls, "device-id:"+string(id))

		return nil, nil, profiledb.ErrDeviceNotFound
	}
	p.OnProfileByLinkedIP = func(_ context.Context, ip netip.Addr) (*agd.Profile, *agd.Device, error) {
		db.calls = append(db.calls, "linked-ip:"+ip.String())

		return nil, nil, profiledb.ErrDeviceNotFound
	}
	p.OnProfileByDedicatedIP = func(_ context.Context, ip netip.Addr) (*agd.Profile, *agd.Device, error) {
		db.calls = append(db.calls, "dedicated-ip:"+ip.String())

		return nil, nil, profiledb.ErrDeviceNotFound
	}
	p.OnProfileByHumanID = func(_ context.Context, id agd.ProfileID, h agd.HumanIDLower) (*agd.Profile, *agd.Device, error) {
		db.calls = append(db.calls, "human-id:"+string(id)+"/"+string(h))

		return nil, nil, profiledb.ErrProfileNotFound
	}

	return p
}

type vc03cmdUpstream struct{}

func (vc03cmdUpstream) ServeDNS(ctx context.Context, rw dnsserver.ResponseWriter, req *dns.Msg) error {
	resp := (&dns.Msg{}).SetReply(req)
	resp.Answer = []dns.RR{&dns.A{
		Hdr: dns.RR_Header{Name: req.Question[0].Name, Rrtype: dns.TypeA, Class: dns.ClassINET, Ttl: 60},
		A:   net.IP{192, 0, 2, 80},
	}}

	return rw.WriteMsg(ctx, req, resp)
}

type vc03cmdRW struct {
	local, remote net.Addr
	writes        int
}

func (rw *vc03cmdRW) LocalAddr() net.Addr  { return rw.local }
func (rw *vc03cmdRW) RemoteAddr() net.Addr { return rw.remote }
func (rw *vc03cmdRW) WriteMsg(context.Context, *dns.Msg, *dns.Msg) error {
	rw.writes++

	return nil
}

func TestVerifC03CmdServerGroups(t *testing.T) {
	st := vstat.New("C03", "cmd.server-groups-config",
		"rapid: a `server_groups:` YAML section with 2-3 groups (group 2 carries the complement of group 1's profiles_enabled and ddr.enabled; filtering groups assigned crosswise; disjoint selections of device_id_wildcards that share suffixes; ddr device / public records with three different ports), 1-3 servers each over dns / dnscrypt / tls / https / quic with alternating linked_ip_enabled and distinct bind_addresses (IPv4 and IPv6) or bind_interfaces on `lo` with unaligned subnets -> parseConfig, validate, builder.initBindToDevice / initTLSManager / initServerGroups; fidelity of every agd.ServerGroup and agd.Server field against the YAML values (wildcard -> domain rewriting by the documented rule), of builder.profilesEnabled and bindSet; behaviour: dnssvc.NewHandlers over the converted groups with a recording profile database, one query per server and candidate TLS server name, judged by the lookups the YAML values imply; non-trivial = a probe that led to a profile-database lookup, or a near miss that must not (other group's wildcard, profiles disabled, linked IP disabled); distinct by configuration and probe",
		"device-id-looked-up-below-own-wildcard", "other-groups-wildcard-ignored", "profiles-disabled-no-lookup", "linked-ip-looked-up", "linked-ip-disabled-no-lookup",
		"dedicated-address-looked-up", "nested-wildcards-in-one-case", "group-without-wildcards", "server-bound-to-interfaces", "server-with-two-addresses",
		"proto-dns", "proto-dnscrypt", "proto-tls", "proto-https", "proto-quic", "three-groups", "profiles-enabled-somewhere", "profiles-disabled-everywhere", "ddr-ports-told-apart")
	st.Finish(t)

	dir := t.TempDir()
	certPath, keyPath := filepath.Join(dir, "cert.crt"), filepath.Join(dir, "cert.key")
	vc03cmdWriteCert(t, certPath, keyPath)
	logger := slogutil.NewDiscardLogger()
	errColl := agdtest.NewErrorCollector()
	errColl.OnCollect = func(context.Context, error) {}
	msgs := agdtest.NewConstructor(t)
	caseNo := 0
	ctx := context.Background()

	wildcardPool := []string{"*.d.dns.example.com", "*.e.dns.example.org", "*.dns.example.com", "*.dd.dns.example.com", "*.d.dns.example.net", "*.x.d.dns.example.com"}
	subnetPool := []netip.Prefix{
		netip.MustParsePrefix("127.3.0.0/16"), netip.MustParsePrefix("127.4.8.0/21"), netip.MustParsePrefix("127.5.5.64/27"), netip.MustParsePrefix("127.6.0.0/15"),
	}

	rapid.Check(t, func(rt *rapid.T) {
		caseNo++
		nGroups := rapid.IntRange(2, 3).Draw(rt, "groups")
		fltNames := rapid.Permutation([]string{"fg_a", "fg_b", "fg_c"}).Draw(rt, "filteringGroups")
		grpNames := rapid.Permutation([]string{"grp_default", "grp_family", "grp_private"}).Draw(rt, "groupNames")
		wcs := rapid.Permutation(wildcardPool).Draw(rt, "wildcards")
		protos := []string{"dns", "dns-iface", "tls", "https", "quic", "dnscrypt", "tls", "dns"}
		port := uint16(5300)
		nextPort := func() uint16 { port++; return port }
		ifaceUsed := false
		srvNo := 0

		groups := make([]*vc03cmdGroup, nGroups)
		allProfilesOff := rapid.IntRange(0, 7).Draw(rt, "allProfilesOff") == 0
		for i := range groups {
			g := &vc03cmdGroup{Name: grpNames[i], FltGroup: fltNames[i]}
			switch {
			case allProfilesOff:
				g.DDR = rapid.Bool().Draw(rt, "ddr")
			case i == 1:
				g.Profiles, g.DDR = !groups[0].Profiles, !groups[0].DDR
			default:
				g.Profiles, g.DDR = rapid.Bool().Draw(rt, "profiles"), rapid.Bool().Draw(rt, "ddr")
			}

			linked := rapid.Bool().Draw(rt, "linkedFirst")
			for j, n := 0, rapid.IntRange(1, 3).Draw(rt, "servers"); j < n; j++ {
				p := rapid.SampledFrom(protos).Draw(rt, "proto")
				if p == "dns-iface" && ifaceUsed {
					p = "dns"
				}

				srvNo++
				s := &vc03cmdServer{Name: fmt.Sprintf("srv%d_%s", srvNo, strings.ReplaceAll(p, "-", "_")), Proto: p, LinkedIP: linked}
				linked = !linked
				if p == "dns-iface" {
					ifaceUsed = true
					s.Proto = "dns"
					sn := rapid.Permutation(subnetPool).Draw(rt, "ifaceSubnets")
					s.Ifaces = []vc03cmdIface{{ID: "if_a", Port: nextPort(), Subnets: sn[:rapid.IntRange(1, 2).Draw(rt, "nSubnetsA")]}}
					if rapid.Bool().Draw(rt, "secondIface") {
						s.Ifaces = append(s.Ifaces, vc03cmdIface{ID: "if_b", Port: nextPort(), Subnets: sn[2:3]})
					}
				} else {
					s.Addrs = []netip.AddrPort{netip.AddrPortFrom(netip.AddrFrom4([4]byte{127, 0, 0, byte(1 + srvNo)}), nextPort())}
					if rapid.IntRange(0, 2).Draw(rt, "secondAddr") == 0 {
						s.Addrs = append(s.Addrs, netip.AddrPortFrom(netip.MustParseAddr("::1"), nextPort()))
					}
				}

				g.Servers = append(g.Servers, s)
			}

			if g.needsTLS() {
				k := rapid.IntRange(0, 2).Draw(rt, "nWildcards")
				g.Wildcards, wcs = wcs[:k], wcs[k:]
			}

			if rapid.Bool().Draw(rt, "ddrRecord") {
				g.DDRWildcard = wildcardPool[rapid.IntRange(0, len(wildcardPool)-1).Draw(rt, "ddrWildcard")]
				ports := rapid.Permutation([]uint16{443, 853, 8853, 10443}).Draw(rt, "ddrPorts")
				g.HTTPSPort, g.QUICPort, g.TLSPort = ports[0], ports[1], ports[2]
				if rapid.Bool().Draw(rt, "ddrPublic") {
					g.PublicDomain = "dns" + fmt.Sprint(i) + ".example.com"
				}
			}

			groups[i] = g
		}

		text := vc03cmdYAML(groups, certPath, keyPath)
		path := filepath.Join(dir, fmt.Sprintf("c%d.yaml", caseNo))
		if err := os.WriteFile(path, []byte(text), 0o600); err != nil {
			rt.Fatalf("harness: %v", err)
		}
		defer func() { _ = os.Remove(path) }()

		conf, err := parseConfig(path)
		if err != nil {
			rt.Fatalf("the generated configuration was not parsed: %v\n%s", err, text)
		}

		for name, v := range map[string]validator{"server_groups": conf.ServerGroups, "interface_listeners": conf.InterfaceListeners, "network": conf.Network} {
			if verr := v.validate(); verr != nil {
				rt.Fatalf("a valid %s section was rejected: %v\n%s", name, verr, text)
			}
		}

		// Values the other sections would provide.
		conf.RateLimit = &rateLimitConfig{
			TCP:  &ratelimitTCPConfig{MaxPipelineCount: 100, Enabled: true},
			QUIC: &ratelimitQUICConfig{MaxStreamsPerPeer: 100, Enabled: true},
		}
		conf.DNS = &dnsConfig{MaxUDPResponseSize: 1024}

		oldReg := prometheus.DefaultRegisterer
		prometheus.DefaultRegisterer = prometheus.NewRegistry()
		defer func() { prometheus.DefaultRegisterer = oldReg }()

		fltGrps := map[agd.FilteringGroupID]*agd.FilteringGroup{}
		for _, n := range []string{"fg_a", "fg_b", "fg_c"} {
			fltGrps[agd.FilteringGroupID(n)] = &agd.FilteringGroup{
				FilterConfig: &filter.ConfigGroup{Parental: &filter.ConfigParental{}, RuleList: &filter.ConfigRuleList{}, SafeBrowsing: &filter.ConfigSafeBrowsing{}},
				ID:           agd.FilteringGroupID(n),
			}
		}

		b := &builder{
			baseLogger:      logger,
			cacheManager:    agdcache.NewDefaultManager(),
			cloner:          dnsmsg.NewCloner(metrics.ClonerStat{}),
			conf:            conf,
			env:             &environment{},
			errColl:         errColl,
			logger:          logger,
			mtrcNamespace:   metrics.Namespace(),
			promRegisterer:  prometheus.NewRegistry(),
			debugRefrs:      debugsvc.Refreshers{},
			messages:        msgs,
			filteringGroups: fltGrps,
		}

		step := func(name string, f func() error) {
			defer func() {
				if v := recover(); v != nil {
					rt.Fatalf("%s panicked on a valid configuration: %v\n%s", name, v, text)
				}
			}()

			if serr := f(); serr != nil {
				if strings.Contains(serr.Error(), "does not contain subnet") || strings.Contains(serr.Error(), "looking up interface") {
					st.Class("no-usable-loopback-interface-discarded")
					rt.Skipf("the loopback interface is not usable: %v", serr)
				}

				rt.Fatalf("%s failed on a valid configuration: %v\n%s", name, serr, text)
			}
		}

		step("builder.initBindToDevice", func() error { return b.initBindToDevice(ctx) })
		step("builder.initTLSManager", func() error { return b.initTLSManager(ctx) })
		step("builder.initServerGroups", func() error { return b.initServerGroups(ctx) })

		classes := map[string]bool{}
		if nGroups == 3 {
			classes["three-groups"] = true
		}

		// (a) Fidelity.
		got := b.serverGroups
		if len(got) != len(groups) {
			rt.Fatalf("conversion: %d groups configured, %d converted\n%s", len(groups), len(got), text)
		}

		anyProfiles, allSingle := false, true
		var allDomains []string
		for i, g := range groups {
			cg := got[i]
			anyProfiles = anyProfiles || g.Profiles
			allDomains = append(allDomains, g.domains()...)
			if string(cg.Name) != g.Name || string(cg.FilteringGroup) != g.FltGroup || cg.ProfilesEnabled != g.Profiles {
				rt.Fatalf("conversion: group #%d configured name=%q filtering_group=%q profiles_enabled=%t, converted Name=%q FilteringGroup=%q ProfilesEnabled=%t\n%s",
					i, g.Name, g.FltGroup, g.Profiles, cg.Name, cg.FilteringGroup, cg.ProfilesEnabled, text)
			}

			if !slices.Equal(cg.DeviceDomains, g.domains()) {
				rt.Fatalf("conversion: group %q: tls.device_id_wildcards %q must give the device domains %q, converted to %q\n%s", g.Name, g.Wildcards, g.domains(), cg.DeviceDomains, text)
			}

			if len(g.Wildcards) == 0 {
				classes["group-without-wildcards"] = true
			}

			ddr := cg.DDR
			if ddr == nil || ddr.Enabled != g.DDR {
				rt.Fatalf("conversion: group %q: ddr.enabled=%t converted to %+v\n%s", g.Name, g.DDR, ddr, text)
			}

			wantDev, wantPub := []string{}, []string{}
			if g.DDRWildcard != "" {
				wantDev = append(wantDev, g.DDRWildcard[2:])
			}

			if g.PublicDomain != "" {
				wantPub = append(wantPub, g.PublicDomain)
			}

			gotDev, gotPub := ddr.DeviceTargets.Values(), ddr.PublicTargets.Values()
			sort.Strings(gotDev)
			sort.Strings(gotPub)
			if !slices.Equal(gotDev, wantDev) || !slices.Equal(gotPub, wantPub) {
				rt.Fatalf("conversion: group %q: DDR device targets %q (want %q), public targets %q (want %q)\n%s", g.Name, gotDev, wantDev, gotPub, wantPub, text)
			}

			checkTmpls := func(what string, tmpls []*dns.SVCB, target string, https, quic, tls uint16) {
				if target == "" {
					if len(tmpls) != 0 {
						rt.Fatalf("conversion: group %q: %d %s DDR templates without a record\n%s", g.Name, len(tmpls), what, text)
					}

					return
				}

				seen := map[string]bool{}
				for _, tm := range tmpls {
					var alpn []string
					var p uint16
					for _, kv := range tm.Value {
						switch v := kv.(type) {
						case *dns.SVCBAlpn:
							alpn = v.Alpn
						case *dns.SVCBPort:
							p = v.Port
						}
					}

					kind, want := "", uint16(0)
					switch {
					case slices.Contains(alpn, "dot"):
						kind, want = "tls_port", tls
					case slices.Contains(alpn, "doq"):
						kind, want = "quic_port", quic
					case slices.Contains(alpn, "h2") || slices.Contains(alpn, "h3"):
						kind, want = "https_port", https
					default:
						rt.Fatalf("conversion: group %q: %s DDR template with unknown ALPN %q\n%s", g.Name, what, alpn, text)
					}

					seen[kind] = true
					if p != want || strings.TrimSuffix(tm.Target, ".") != target {
						rt.Fatalf("conversion: group %q: %s DDR template for %s (ALPN %q) has port %d target %q; configured %s=%d for %q\n%s",
							g.Name, what, kind, alpn, p, tm.Target, kind, want, target, text)
					}
				}

				if len(seen) != 3 {
					rt.Fatalf("conversion: group %q: %s DDR templates cover %v, three non-zero ports are configured\n%s", g.Name, what, seen, text)
				}

				classes["ddr-ports-told-apart"] = true
			}

			devTarget := ""
			if g.DDRWildcard != "" {
				devTarget = g.DDRWildcard[2:]
			}

			checkTmpls("device", ddr.DeviceRecordTemplates, devTarget, g.HTTPSPort, g.QUICPort, g.TLSPort)
			checkTmpls("public", ddr.PublicRecordTemplates, g.PublicDomain, g.HTTPSPort+1000, g.QUICPort+1000, g.TLSPort+1000)

			if len(cg.Servers) != len(g.Servers) {
				rt.Fatalf("conversion: group %q: %d servers configured, %d converted\n%s", g.Name, len(g.Servers), len(cg.Servers), text)
			}

			for j, s := range g.Servers {
				cs := cg.Servers[j]
				classes["proto-"+s.Proto] = true
				if string(cs.Name) != s.Name || cs.Protocol != vc03cmdProto[s.Proto] || cs.LinkedIPEnabled != s.LinkedIP {
					rt.Fatalf("conversion: server #%d of group %q configured name=%q protocol=%q linked_ip_enabled=%t, converted Name=%q Protocol=%v LinkedIPEnabled=%t\n%s",
						j, g.Name, s.Name, s.Proto, s.LinkedIP, cs.Name, cs.Protocol, cs.LinkedIPEnabled, text)
				}

				bd := cs.BindData()
				if len(s.Ifaces) == 0 {
					var gotAddrs []netip.AddrPort
					for _, d := range bd {
						if d.PrefixAddr != nil || d.ListenConfig != nil {
							rt.Fatalf("conversion: server %q has interface bind data without bind_interfaces\n%s", s.Name, text)
						}

						gotAddrs = append(gotAddrs, d.AddrPort)
					}

					if !slices.Equal(gotAddrs, s.Addrs) {
						rt.Fatalf("conversion: server %q: bind_addresses %v converted to %v\n%s", s.Name, s.Addrs, gotAddrs, text)
					}

					if len(s.Addrs) > 1 {
						classes["server-with-two-addresses"] = true
					}

					if cs.BindsToInterfaces() {
						rt.Fatalf("conversion: server %q binds to interfaces without bind_interfaces\n%s", s.Name, text)
					}

					continue
				}

				classes["server-bound-to-interfaces"] = true
				var want, gotP []string
				for _, ifc := range s.Ifaces {
					for _, sn := range ifc.Subnets {
						allSingle = allSingle && sn.IsSingleIP()
						want = append(want, fmt.Sprintf("%s port %d", sn, ifc.Port))
					}
				}

				for _, d := range bd {
					if d.PrefixAddr == nil || d.ListenConfig == nil {
						rt.Fatalf("conversion: server %q: bind data without a listen configuration or prefix: %+v\n%s", s.Name, d, text)
					}

					gotP = append(gotP, fmt.Sprintf("%s port %d", d.PrefixAddr.Prefix, d.PrefixAddr.Port))
				}

				if !slices.Equal(gotP, want) || !cs.BindsToInterfaces() {
					rt.Fatalf("conversion: server %q: bind_interfaces give %q, converted to %q\n%s", s.Name, want, gotP, text)
				}
			}
		}

		if b.profilesEnabled != anyProfiles {
			rt.Fatalf("builder: profiles_enabled is set for some group = %t, but the builder decided %t\n%s", anyProfiles, b.profilesEnabled, text)
		}

		if anyProfiles {
			classes["profiles-enabled-somewhere"] = true
		} else {
			classes["profiles-disabled-everywhere"] = true
		}

		// The set of addresses a dedicated address may come from.
		if b.bindSet == nil {
			rt.Fatalf("builder: no bind set\n%s", text)
		}

		for _, g := range groups {
			for _, s := range g.Servers {
				for _, ifc := range s.Ifaces {
					for _, sn := range ifc.Subnets {
						in, out := sn.Addr().Next(), netip.MustParseAddr("198.51.100.7")
						if !b.bindSet.Contains(in) {
							rt.Fatalf("builder: address %s of the interface subnet %s is not in the bind set\n%s", in, sn, text)
						}

						if !allSingle && b.bindSet.Contains(out) {
							rt.Fatalf("builder: address %s outside every bind subnet is in the bind set\n%s", out, text)
						}
					}
				}
			}
		}

		for a := 0; a < len(allDomains); a++ {
			for c := 0; c < len(allDomains); c++ {
				if a != c && strings.HasSuffix(allDomains[a], "."+allDomains[c]) {
					classes["nested-wildcards-in-one-case"] = true
				}
			}
		}

		// (b) Behaviour.
		db := &vc03cmdDB{}
		rl := agdtest.NewRateLimit()
		rl.OnIsRateLimited = func(context.Context, *dns.Msg, netip.Addr) (bool, bool, error) { return false, false, nil }
		rl.OnCountResponses = func(context.Context, *dns.Msg, netip.Addr) {}
		geo := agdtest.NewGeoIP()
		geo.OnData = func(string, netip.Addr) (*geoip.Location, error) { return nil, nil }
		geo.OnSubnetByLocation = func(_ *geoip.Location, fam netutil.AddrFamily) (netip.Prefix, error) {
			return netutil.ZeroPrefix(fam), nil
		}
		reg := agdtest.NewTestPrometheusRegisterer()
		prometheus.DefaultRegisterer = reg
		handlers, err := dnssvc.NewHandlers(ctx, &dnssvc.HandlersConfig{
			BaseLogger:       logger,
			Cache:            &dnssvc.CacheConfig{Type: dnssvc.CacheTypeNone},
			Cloner:           b.cloner,
			HumanIDParser:    agd.NewHumanIDParser(),
			Messages:         msgs,
			StructuredErrors: agdtest.NewSDEConfig(true),
			AccessManager: &agdtest.AccessManager{
				OnIsBlockedHost: func(string, uint16) bool { return false },
				OnIsBlockedIP:   func(netip.Addr) bool { return false },
			},
			BillStat:     billstat.EmptyRecorder{},
			CacheManager: agdcache.EmptyManager{},
			DNSCheck: &agdtest.DNSCheck{
				OnCheck: func(context.Context, *dns.Msg, *agd.RequestInfo) (*dns.Msg, error) { return nil, nil },
			},
			DNSDB:   dnsdb.Empty{},
			ErrColl: errColl,
			FilterStorage: &agdtest.FilterStorage{
				OnForConfig: func(context.Context, filter.Config) filter.Interface { return filter.Empty{} },
				OnHasListID: func(filter.ID) bool { return true },
			},
			GeoIP:                geo,
			Handler:              vc03cmdUpstream{},
			HashMatcher:          hashprefix.NewMatcher(nil),
			ProfileDB:            db.iface(),
			PrometheusRegisterer: reg,
			QueryLog:             querylog.Empty{},
			RateLimit:            rl,
			RuleStat:             rulestat.Empty{},
			MetricsNamespace:     b.mtrcNamespace,
			FilteringGroups:      b.filteringGroups,
			ServerGroups:         b.serverGroups,
			EDEEnabled:           true,
		})
		if err != nil {
			rt.Fatalf("dnssvc.NewHandlers failed on the converted server groups: %v\n%s", err, text)
		}

		var ntKeys []string
		client := netip.MustParseAddr("192.0.2.77")
		probe := func(g *vc03cmdGroup, s *vc03cmdServer, cg *agd.ServerGroup, cs *agd.Server, sni string, laddr netip.AddrPort) (calls []string, writes int) {
			h, ok := handlers[dnssvc.HandlerKey{Server: cs, ServerGroup: cg}]
			if !ok {
				rt.Fatalf("no handler for server %q of group %q\n%s", s.Name, g.Name, text)
			}

			raddr := netip.AddrPortFrom(client, 40053)
			rw := &vc03cmdRW{}
			ri := &dnsserver.RequestInfo{StartTime: time.Now(), TLSServerName: sni}
			switch s.Proto {
			case "tls":
				rw.local, rw.remote = net.TCPAddrFromAddrPort(laddr), net.TCPAddrFromAddrPort(raddr)
			case "https":
				rw.local, rw.remote = net.TCPAddrFromAddrPort(laddr), net.TCPAddrFromAddrPort(raddr)
				ri.URL = &url.URL{Scheme: "https", Host: sni, Path: "/dns-query"}
			default:
				rw.local, rw.remote = net.UDPAddrFromAddrPort(laddr), net.UDPAddrFromAddrPort(raddr)
			}

			qctx, cancel := context.WithTimeout(ctx, 10*time.Second)
			defer cancel()

			qctx = dnsserver.ContextWithServerInfo(qctx, &dnsserver.ServerInfo{Name: s.Name, Addr: laddr.String(), Proto: cs.Protocol})
			qctx = dnsserver.ContextWithRequestInfo(qctx, ri)
			req := (&dns.Msg{}).SetQuestion("c03-probe.example.", dns.TypeA)
			req.Id = 0xC03
			db.calls = nil
			if herr := h.ServeDNS(qctx, rw, req); herr != nil {
				rt.Fatalf("query on server %q (sni %q, local %s) failed: %v\n%s", s.Name, sni, laddr, herr, text)
			}

			return slices.Clone(db.calls), rw.writes
		}

		for i, g := range groups {
			cg := got[i]
			for j, s := range g.Servers {
				cs := cg.Servers[j]
				switch s.Proto {
				case "tls", "https", "quic":
					names := []string{"", "dns.example.com"}
					for _, d := range allDomains {
						names = append(names, "abcd1234."+d, d)
					}

					for _, sni := range names {
						calls, writes := probe(g, s, cg, cs, sni, s.Addrs[0])
						var want []string
						if g.Profiles {
							for _, d := range g.domains() {
								if label, ok := strings.CutSuffix(sni, "."+d); ok && label != "" && !strings.Contains(label, ".") {
									want = []string{"device-id:" + label}

									break
								}
							}
						}

						if !slices.Equal(calls, want) {
							rt.Fatalf("server %q of group %q (profiles_enabled=%t, device_id_wildcards=%q): TLS server name %q led to the lookups %q; the configuration implies %q\n%s",
								s.Name, g.Name, g.Profiles, g.Wildcards, sni, calls, want, text)
						}

						if writes != 1 {
							rt.Fatalf("server %q: %d responses to a query with TLS server name %q\n%s", s.Name, writes, sni, text)
						}

						own := false
						for _, d := range g.domains() {
							own = own || strings.HasSuffix(sni, "."+d)
						}

						switch {
						case len(want) > 0:
							classes["device-id-looked-up-below-own-wildcard"] = true
							ntKeys = append(ntKeys, s.Name+"|"+sni)
						case strings.HasPrefix(sni, "abcd1234.") && own && !g.Profiles:
							classes["profiles-disabled-no-lookup"] = true
							ntKeys = append(ntKeys, s.Name+"|!"+sni)
						case strings.HasPrefix(sni, "abcd1234.") && !own && g.Profiles:
							classes["other-groups-wildcard-ignored"] = true
							ntKeys = append(ntKeys, s.Name+"|!"+sni)
						}
					}
				case "dnscrypt":
					if calls, _ := probe(g, s, cg, cs, "", s.Addrs[0]); len(calls) != 0 {
						rt.Fatalf("DNSCrypt server %q led to the lookups %q\n%s", s.Name, calls, text)
					}
				case "dns":
					if len(s.Ifaces) == 0 {
						calls, writes := probe(g, s, cg, cs, "", s.Addrs[0])
						var want []string
						if g.Profiles && s.LinkedIP {
							want = []string{"linked-ip:" + client.String()}
							classes["linked-ip-looked-up"] = true
							ntKeys = append(ntKeys, s.Name+"|linked")
						} else if g.Profiles {
							classes["linked-ip-disabled-no-lookup"] = true
							ntKeys = append(ntKeys, s.Name+"|!linked")
						} else if s.LinkedIP {
							classes["profiles-disabled-no-lookup"] = true
						}

						if !slices.Equal(calls, want) || writes != 1 {
							rt.Fatalf("plain-DNS server %q of group %q (profiles_enabled=%t linked_ip_enabled=%t): lookups %q, responses %d; the configuration implies %q and one response\n%s",
								s.Name, g.Name, g.Profiles, s.LinkedIP, calls, writes, want, text)
						}

						continue
					}

					for _, ifc := range s.Ifaces {
						for _, sn := range ifc.Subnets {
							local := sn.Addr().Next().Next()
							calls, writes := probe(g, s, cg, cs, "", netip.AddrPortFrom(local, ifc.Port))
							var want []string
							wantWrites := 1
							switch {
							case g.Profiles:
								// An address nobody owns: dropped.
								want, wantWrites = []string{"dedicated-ip:" + local.String()}, 0
								classes["dedicated-address-looked-up"] = true
								ntKeys = append(ntKeys, s.Name+"|dedicated:"+local.String())
							default:
								classes["profiles-disabled-no-lookup"] = true
							}

							if !slices.Equal(calls, want) || writes != wantWrites {
								rt.Fatalf("interface-bound server %q of group %q (profiles_enabled=%t): local address %s led to the lookups %q and %d responses; the configuration implies %q and %d\n%s",
									s.Name, g.Name, g.Profiles, local, calls, writes, want, wantWrites, text)
							}
						}
					}
				}
			}
		}

		var cl []string
		for c := range classes {
			cl = append(cl, c)
		}

		sort.Strings(cl)
		nt := ""
		if len(ntKeys) > 0 {
			nt = text + "|" + strings.Join(ntKeys, ",")
		}

		st.Case(nt, cl...)
		if len(ntKeys) > 2 && st.WantSample() {
			st.Sample(map[string]any{"yaml": strings.Split(text, "\n"), "deciding_probes": ntKeys, "classes": cl})
		}
	})
}
