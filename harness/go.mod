module verif.local/harness

go 1.23.4

require pgregory.net/rapid v1.3.0

require github.com/miekg/dns v1.1.62
