//go:build verif

package forward

// C06, upstream side, at the level the resolver uses it: the forwarding
// Handler.  What the handler writes to a client is made of that client's own
// upstream reply only, whatever earlier clients' replies are still unread on
// the pooled upstream connections.

import (
	"context"
	"fmt"
	"net"
	"net/netip"
	"strings"
	"sync"
	"testing"
	"time"

	"github.com/AdguardTeam/golibs/logutil/slogutil"
	"github.com/miekg/dns"
	"pgregory.net/rapid"
	"verif.local/harness/vstat"
)

// vc06RW records what the handler writes to the client.
type vc06RW struct {
	msgs []*dns.Msg
}

func (w *vc06RW) LocalAddr() net.Addr {
	return &net.UDPAddr{IP: net.IP{127, 0, 0, 1}, Port: 53}
}

func (w *vc06RW) RemoteAddr() net.Addr {
	return &net.UDPAddr{IP: net.IP{127, 0, 0, 1}, Port: 12345}
}

func (w *vc06RW) WriteMsg(_ context.Context, _, resp *dns.Msg) (err error) {
	w.msgs = append(w.msgs, resp.Copy())

	return nil
}

func TestVerifC06HandlerForward(t *testing.T) {
	st := vstat.New("C06", "forward.handler",
		"rapid (upstream network any/udp/tcp; 2..6 client queries with distinct names, each with drawn upstream faults: UDP reply sent twice, UDP reply marked truncated, TCP reply frame written twice, TCP closed without a reply) through the real forward.Handler.ServeDNS against scripted loopback UDP+TCP servers that number every reply and put the number and the asked name into it; oracle: whatever the handler writes to a client carries that client's ID and question, and its records are those of a reply the upstream made to this very query; an error or no response is always allowed; non-trivial = a query that follows one with a duplicated reply; distinct by (network, fault history)",
		"answered", "failed", "after-duplicated-tcp-frame", "after-duplicated-udp-reply", "tcp-leg-after-duplicated-tcp-frame", "udp-marked-truncated")
	st.Finish(t)

	var srv *vc06Server
	for i := 0; i < 20 && srv == nil; i++ {
		srv = vc06StartServer(t)
	}

	if srv == nil {
		fmt.Println("VERIF-INCONCLUSIVE: no free loopback port pair")
		t.FailNow()
	}

	defer srv.close()

	addr := netip.MustParseAddrPort(srv.ln.Addr().String())

	// made maps a lower-cased question name to the numbers of the replies the
	// upstream made for it.
	var mu sync.Mutex
	made := map[string]map[byte]bool{}
	var seq byte
	srv.set(func(q []byte) []byte {
		m := &dns.Msg{}
		if m.Unpack(q) != nil || len(m.Question) != 1 {
			return nil
		}

		mu.Lock()
		seq++
		if seq == 0 {
			seq = 1
		}

		n := seq
		name := strings.ToLower(m.Question[0].Name)
		if made[name] == nil {
			made[name] = map[byte]bool{}
		}

		made[name][n] = true
		mu.Unlock()

		r := (&dns.Msg{}).SetReply(m)
		r.Answer = []dns.RR{&dns.A{
			Hdr: dns.RR_Header{Name: m.Question[0].Name, Rrtype: dns.TypeA, Class: dns.ClassINET, Ttl: 10},
			A:   net.IP{10, 0, 0, n},
		}}
		b, _ := r.Pack()

		return b
	})

	caseNo := 0
	rapid.Check(t, func(t *rapid.T) {
		caseNo++
		mu.Lock()
		made = map[string]map[byte]bool{}
		mu.Unlock()

		nw := rapid.SampledFrom([]Network{NetworkAny, NetworkTCP, NetworkUDP}).Draw(t, "network")
		h := NewHandler(&HandlerConfig{
			Logger:             slogutil.NewDiscardLogger(),
			UpstreamsAddresses: []*UpstreamPlainConfig{{Network: nw, Address: addr, Timeout: 2 * time.Second}},
		})
		defer func() { _ = h.Close() }()

		ctx := context.Background()
		hist := string(nw)
		prevTCPDup, prevUDPDup := false, false
		for i, n := 0, rapid.IntRange(2, 6).Draw(t, "queries"); i < n; i++ {
			tcpDup := rapid.IntRange(0, 2).Draw(t, "tcpFrameTwice") == 0
			udpDup := rapid.IntRange(0, 3).Draw(t, "udpReplyTwice") == 0
			udpTC := rapid.IntRange(0, 2).Draw(t, "udpTruncated") == 0
			tcpDown := rapid.IntRange(0, 5).Draw(t, "tcpDown") == 0
			srv.setFaults(udpDup, tcpDown)
			srv.setHandlerFaults(tcpDup, udpTC)

			name := fmt.Sprintf("c%d-q%d.client.example.", caseNo, i)
			req := (&dns.Msg{}).SetQuestion(name, dns.TypeA)
			if rapid.Bool().Draw(t, "fixedID") {
				// DoH and DoQ clients send ID 0.
				req.Id = 0
			}

			rw := &vc06RW{}
			err := h.ServeDNS(ctx, rw, req)
			srv.setFaults(false, false)
			srv.setHandlerFaults(false, false)

			hist += fmt.Sprintf("|%t%t%t%t", tcpDup, udpDup, udpTC, tcpDown)
			classes := []string{"net-" + string(nw)}
			if prevTCPDup {
				classes = append(classes, "after-duplicated-tcp-frame")
				if nw == NetworkTCP || (nw == NetworkAny && udpTC) {
					classes = append(classes, "tcp-leg-after-duplicated-tcp-frame")
				}
			}

			if prevUDPDup {
				classes = append(classes, "after-duplicated-udp-reply")
			}

			if udpTC && nw != NetworkTCP {
				classes = append(classes, "udp-marked-truncated")
			}

			if len(rw.msgs) > 0 {
				classes = append(classes, "answered")
			} else {
				classes = append(classes, "failed")
			}

			nt := ""
			if prevTCPDup || prevUDPDup {
				nt = hist
			}

			st.Case(nt, classes...)
			prevTCPDup = prevTCPDup || (tcpDup && (nw == NetworkTCP || (nw == NetworkAny && udpTC)) && !tcpDown)
			prevUDPDup = prevUDPDup || (udpDup && nw != NetworkTCP)

			if len(rw.msgs) > 1 {
				t.Fatalf("handler %s, query %d %s: %d responses written to one client", nw, i, name, len(rw.msgs))
			}

			if len(rw.msgs) == 0 {
				continue
			}

			resp := rw.msgs[0]
			where := fmt.Sprintf("handler %s, query %d %s id %d (history %s, ServeDNS error: %v)", nw, i, name, req.Id, hist, err)
			if resp.Id != req.Id {
				t.Fatalf("%s: the client was written a response with ID %d:\n%s", where, resp.Id, resp)
			}

			if len(resp.Question) != 1 || !strings.EqualFold(resp.Question[0].Name, name) || resp.Question[0].Qtype != dns.TypeA {
				t.Fatalf("%s: the client was written a response to another question:\n%s", where, resp)
			}

			mu.Lock()
			mine := made[strings.ToLower(name)]
			mu.Unlock()
			for _, rr := range resp.Answer {
				a, ok := rr.(*dns.A)
				if !ok || !strings.EqualFold(rr.Header().Name, name) || a.A.To4() == nil || !mine[a.A.To4()[3]] {
					t.Fatalf("%s: the client was written a record of a reply made for another query: %s (replies made for this query: %v)\n%s", where, rr, mine, resp)
				}
			}
		}
	})
}
