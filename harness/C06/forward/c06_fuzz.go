//go:build verif

package forward

// C06, native fuzzing (thorough tier) of the upstream reply read path: see
// c06_upstream.go for the oracle.

import (
	"strings"
	"testing"

	"github.com/miekg/dns"
	"verif.local/harness/vstat"
	"verif.local/harness/vwire"
)

func FuzzVerifC06Upstream(f *testing.F) {
	st := vstat.New("C06", "forward.readmsg-fuzz",
		"go native fuzzing (coverage-guided byte mutation of the reply, UDP or TCP) through UpstreamPlain.readMsg with the pooled buffer handled as in exchangeNet, on an upstream warmed with a long marker reply; oracle = decoding the reply's own bytes; non-trivial = every case; distinct by (network, bytes)")
	st.Finish(f)

	long := &dns.Msg{}
	long.SetQuestion(vwire.Marker+"-0-0."+strings.Repeat("a", 50)+".secret.test.", dns.TypeTXT)
	long.Response = true
	for i := 0; i < 10; i++ {
		long.Answer = append(long.Answer, &dns.TXT{
			Hdr: dns.RR_Header{Name: long.Question[0].Name, Rrtype: dns.TypeTXT, Class: dns.ClassINET, Ttl: 1},
			Txt: []string{vwire.Marker + strings.Repeat("z", 150)},
		})
	}

	longWire, err := long.Pack()
	if err != nil {
		f.Fatal(err)
	}

	for _, name := range []string{".", "a.", "www.next.example."} {
		m := (&dns.Msg{}).SetQuestion(name, dns.TypeA)
		m.Response = true
		m.Answer = []dns.RR{&dns.A{Hdr: dns.RR_Header{Name: name, Rrtype: dns.TypeA, Class: dns.ClassINET, Ttl: 5}, A: []byte{192, 0, 2, 1}}}
		b, _ := m.Pack()
		f.Add(b, true)
		f.Add(b, false)
		f.Add(b[:len(b)-3], true)
		f.Add(b[:len(b)-3], false)
		m.SetEdns0(1232, true)
		b, _ = m.Pack()
		f.Add(b, false)
	}

	f.Add([]byte{0, 1, 0x80, 0, 0xff, 0xff, 0xff, 0xff, 0xff, 0xff, 0xff, 0xff}, true)
	f.Add([]byte{0, 2, 0x81, 0, 0, 1, 0, 0, 0, 0, 0, 0, 0xc0, 12, 0, 1, 0, 1}, false)
	f.Add([]byte{0, 3, 0x81, 0, 0, 1, 0, 0, 0, 0, 0, 0, 0xc0, 0x40, 0, 1, 0, 1}, true)
	f.Add([]byte{0, 4, 0x81, 0, 0, 1, 0, 1, 0, 0, 0, 0, 1, 'a', 0, 0, 1, 0, 1, 0xc0, 0x60, 0, 16, 0, 1, 0, 0, 0, 1, 0, 40}, false)

	f.Fuzz(func(t *testing.T, reply []byte, tcp bool) {
		if len(reply) > 4096 {
			t.Skip()
		}

		nw := NetworkUDP
		if tcp {
			nw = NetworkTCP
		}

		warm := vc06NewUpstream()
		hreq := (&dns.Msg{}).SetQuestion(long.Question[0].Name, dns.TypeTXT)
		if _, rerr := vc06Round(warm, nw, hreq, longWire); rerr != nil {
			t.Fatalf("harness: warm-up reply rejected: %v", rerr)
		}

		req := (&dns.Msg{}).SetQuestion("next.example.", dns.TypeA)
		got := vwire.Describe(vc06Round(warm, nw, req, reply))
		want := vc06ReadExpect(reply)
		if tcp && len(reply) == 0 {
			// A zero-length frame: nothing to decode; whatever error.
			want = "error"
		}

		cls := "ref-accepts"
		if want == "error" {
			cls = "ref-rejects"
		}

		st.Case(string(nw)+string(reply), cls, "net-"+string(nw))

		if strings.Contains(got, vwire.Marker) {
			t.Fatalf("upstream %s: reply decoded from %d own bytes contains data of an earlier reply:\n%x\n%s", nw, len(reply), reply, got)
		}

		if got != want {
			t.Fatalf("upstream %s: reply %x:\nwarm upstream decoded: %s\nown bytes decode to:   %s", nw, reply, got, want)
		}
	})
}
