//go:build verif

package forward

// C06, upstream side: UpstreamPlain decodes a reply from the reply's own bytes
// only.  Part 1 drives readMsg with a fake connection the way exchangeNet does
// (pooled buffer, request packed into it first).  Part 2 runs the real
// Exchange against scripted loopback UDP and TCP servers.

import (
	"context"
	"encoding/binary"
	"fmt"
	"io"
	"net"
	"net/netip"
	"strings"
	"sync"
	"sync/atomic"
	"testing"
	"time"

	"github.com/miekg/dns"
	"pgregory.net/rapid"
	"verif.local/harness/vstat"
	"verif.local/harness/vwire"
)

// vc06Conn is a net.Conn whose Read serves scripted bytes: for UDP one
// datagram per Read, for TCP a byte stream.
type vc06Conn struct {
	net.Conn

	data []byte
	udp  bool
}

func (c *vc06Conn) Read(p []byte) (n int, err error) {
	if len(c.data) == 0 {
		return 0, io.EOF
	}

	n = copy(p, c.data)
	if c.udp {
		c.data = nil
	} else {
		c.data = c.data[n:]
	}

	return n, nil
}

// vc06Round performs what exchangeNet does around readMsg: take a pooled
// buffer, pack the request into it, read the reply into the same buffer.
func vc06Round(u *UpstreamPlain, nw Network, req *dns.Msg, reply []byte) (m *dns.Msg, err error) {
	bufPtr := u.getBuffer(nw)
	defer u.putBuffer(nw, bufPtr)

	buf := *bufPtr
	if _, err = u.packReq(nw, buf, req); err != nil {
		return nil, fmt.Errorf("harness: packing: %w", err)
	}

	data := reply
	if nw == NetworkTCP {
		data = append(binary.BigEndian.AppendUint16(nil, uint16(len(reply))), reply...)
	}

	return u.readMsg(nw, &vc06Conn{data: data, udp: nw == NetworkUDP}, buf)
}

func vc06NewUpstream() *UpstreamPlain {
	return NewUpstreamPlain(&UpstreamPlainConfig{Network: NetworkAny, Address: netip.MustParseAddrPort("127.0.0.1:53"), Timeout: time.Second})
}

// vc06ReadExpect: the reply is decoded from its own bytes; a reply shorter
// than the smallest possible message is an error.
func vc06ReadExpect(reply []byte) string {
	if len(reply) < minDNSMessageSize {
		return "error"
	}

	return vwire.Describe(vwire.RefDecode(reply))
}

func TestVerifC06UpstreamRead(t *testing.T) {
	st := vstat.New("C06", "forward.readmsg",
		"rapid (network UDP/TCP, history of 1-5 valid marker replies, own request, next reply: valid / truncated / inflated counts / pointer beyond the end / trailing bytes / header only) through UpstreamPlain.readMsg with the pooled buffer handled as in exchangeNet; oracle = decoding the reply's own bytes; non-trivial = reply inconsistent; distinct by (network, reply bytes)",
		"inconsistent-after-longer", "ref-rejects", "ref-accepts", "net-udp", "net-tcp", "kind-pointer", "kind-counts", "kind-truncated", "kind-header-only")
	st.Finish(t)

	rapid.Check(t, func(t *rapid.T) {
		nw := rapid.SampledFrom([]Network{NetworkUDP, NetworkTCP}).Draw(t, "network")
		warm := vc06NewUpstream()
		longer := false
		var lens []int
		for i, n := 0, rapid.IntRange(1, 5).Draw(t, "histLen"); i < n; i++ {
			w, hm := vwire.HistoryMsg(t, i)
			lens = append(lens, len(w))
			req := (&dns.Msg{}).SetQuestion(hm.Question[0].Name, hm.Question[0].Qtype)
			if _, err := vc06Round(warm, nw, req, w); err != nil {
				t.Fatalf("harness: valid history reply rejected: %v", err)
			}
		}

		base := vwire.BaseMsg(t)
		req := (&dns.Msg{}).SetQuestion(base.Question[0].Name, base.Question[0].Qtype)
		req.Id = base.Id
		base.Response = true
		next := vwire.DrawNext(t, base)
		for _, l := range lens {
			longer = longer || l > len(next.Wire)
		}

		got := vwire.Describe(vc06Round(warm, nw, req, next.Wire))
		fresh := vwire.Describe(vc06Round(vc06NewUpstream(), nw, req, next.Wire))
		want := vc06ReadExpect(next.Wire)

		classes := []string{"kind-" + next.Kind, "net-" + string(nw)}

		nt := ""
		if next.Inconsistent {
			nt = string(nw) + string(next.Wire)
			if longer {
				classes = append(classes, "inconsistent-after-longer")
			}
		}

		if want == "error" {
			classes = append(classes, "ref-rejects")
		} else {
			classes = append(classes, "ref-accepts")
		}

		st.Case(nt, classes...)
		if st.WantSample() && nt != "" {
			st.Sample(map[string]any{"network": nw, "history_lens": lens, "next_kind": next.Kind, "next_hex": fmt.Sprintf("%x", next.Wire), "got": got})
		}

		if strings.Contains(got, vwire.Marker) {
			t.Fatalf("upstream %s: reply decoded from %d own bytes (%s) contains data of an earlier reply:\n%s", nw, len(next.Wire), next.Kind, got)
		}

		if got != want {
			t.Fatalf("upstream %s: history %v, request %v, reply %s %x:\nwarm upstream decoded: %s\nown bytes decode to:   %s\nfresh upstream:        %s", nw, lens, req.Question, next.Kind, next.Wire, got, want, fresh)
		}

		if fresh != want {
			t.Fatalf("fresh upstream %s: request %v, reply %s %x:\nfresh upstream decoded: %s\nown bytes decode to:    %s", nw, req.Question, next.Kind, next.Wire, fresh, want)
		}
	})
}

// ---------------------------------------------------------------------------
// real Exchange against scripted loopback servers

type vc06Server struct {
	mu    sync.Mutex
	reply func(req []byte) []byte

	// split, if positive, makes the TCP side deliver each framed reply in two
	// segments, cut split octets into the frame (prefix included).
	split int

	// dup makes the UDP side send every reply twice: the second copy stays
	// queued on the client's pooled socket and is read by its next exchange.
	// tcpDown makes the TCP side close the connection instead of replying.
	dup, tcpDown bool

	// tcpDup makes the TCP side write every framed reply twice: the second
	// frame stays unread on the client's pooled connection.  udpTC makes the
	// UDP side mark every reply as truncated, which sends the client to TCP.
	tcpDup, udpTC bool

	pc net.PacketConn
	ln net.Listener
	wg sync.WaitGroup
}

func vc06StartServer(t *testing.T) (s *vc06Server) {
	s = &vc06Server{}
	var err error
	s.ln, err = net.Listen("tcp", "127.0.0.1:0")
	if err != nil {
		t.Fatalf("listen tcp: %v", err)
	}

	port := s.ln.Addr().(*net.TCPAddr).Port
	s.pc, err = net.ListenPacket("udp", fmt.Sprintf("127.0.0.1:%d", port))
	if err != nil {
		// The UDP port of the same number may be taken; the caller retries.
		_ = s.ln.Close()

		return nil
	}

	s.wg.Add(2)
	go func() {
		defer s.wg.Done()
		buf := make([]byte, 65536)
		for {
			n, addr, rerr := s.pc.ReadFrom(buf)
			if rerr != nil {
				return
			}

			if r := s.get(buf[:n]); r != nil {
				s.mu.Lock()
				dup, tc := s.dup, s.udpTC
				s.mu.Unlock()
				if tc && len(r) > 2 {
					r = append([]byte(nil), r...)
					r[2] |= 0x02
				}

				_, _ = s.pc.WriteTo(r, addr)
				if dup {
					_, _ = s.pc.WriteTo(r, addr)
				}
			}
		}
	}()
	go func() {
		defer s.wg.Done()
		for {
			c, aerr := s.ln.Accept()
			if aerr != nil {
				return
			}

			s.wg.Add(1)
			go func() {
				defer s.wg.Done()
				defer c.Close()
				for {
					var l uint16
					if binary.Read(c, binary.BigEndian, &l) != nil {
						return
					}

					req := make([]byte, l)
					if _, rerr := io.ReadFull(c, req); rerr != nil {
						return
					}

					s.mu.Lock()
					down := s.tcpDown
					s.mu.Unlock()
					if down {
						return
					}

					r := s.get(req)
					if r == nil {
						return
					}

					out := append(binary.BigEndian.AppendUint16(nil, uint16(len(r))), r...)
					s.mu.Lock()
					cut := s.split
					s.mu.Unlock()
					if cut > 0 && cut < len(out) {
						if _, werr := c.Write(out[:cut]); werr != nil {
							return
						}

						time.Sleep(2 * time.Millisecond)
						out = out[cut:]
					}

					if _, werr := c.Write(out); werr != nil {
						return
					}

					s.mu.Lock()
					again := s.tcpDup
					s.mu.Unlock()
					if again {
						if _, werr := c.Write(out); werr != nil {
							return
						}
					}
				}
			}()
		}
	}()

	return s
}

func (s *vc06Server) get(req []byte) []byte {
	s.mu.Lock()
	defer s.mu.Unlock()

	return s.reply(req)
}

func (s *vc06Server) set(f func(req []byte) []byte) {
	s.mu.Lock()
	defer s.mu.Unlock()

	s.reply = f
}

func (s *vc06Server) setSplit(n int) {
	s.mu.Lock()
	defer s.mu.Unlock()

	s.split = n
}

func (s *vc06Server) setFaults(dup, tcpDown bool) {
	s.mu.Lock()
	defer s.mu.Unlock()

	s.dup, s.tcpDown = dup, tcpDown
}

func (s *vc06Server) setHandlerFaults(tcpDup, udpTC bool) {
	s.mu.Lock()
	defer s.mu.Unlock()

	s.tcpDup, s.udpTC = tcpDup, udpTC
}

func (s *vc06Server) close() {
	_ = s.pc.Close()
	_ = s.ln.Close()
	s.wg.Wait()
}

func TestVerifC06UpstreamExchange(t *testing.T) {
	st := vstat.New("C06", "forward.exchange",
		"rapid (upstream network any/udp/tcp, history of valid marker exchanges, next reply as above, served with the request's ID or its own) through the real UpstreamPlain.Exchange against scripted loopback UDP+TCP servers; oracle: accepted iff the reply's own bytes decode and ID, question name (case-insensitive) and type match, and then the result equals that decode; non-trivial = reply inconsistent; distinct by (network, reply bytes)",
		"accepted", "rejected", "kind-header-only", "kind-pointer", "kind-counts", "kind-truncated", "tcp-reply-in-two-segments", "stray-duplicate-on-pooled-udp-socket", "tcp-closed-without-reply", "stray-duplicate-and-tcp-fallback-fails", "follow-up-with-fixed-id-and-question", "follow-up-after-stray-duplicate")
	st.Finish(t)

	var srv *vc06Server
	for i := 0; i < 20 && srv == nil; i++ {
		srv = vc06StartServer(t)
	}

	if srv == nil {
		fmt.Println("VERIF-INCONCLUSIVE: no free loopback port pair")
		t.FailNow()
	}

	defer srv.close()

	addr := netip.MustParseAddrPort(srv.ln.Addr().String())
	rapid.Check(t, func(t *rapid.T) {
		nw := rapid.SampledFrom([]Network{NetworkAny, NetworkUDP, NetworkTCP}).Draw(t, "network")
		u := NewUpstreamPlain(&UpstreamPlainConfig{Network: nw, Address: addr, Timeout: 2 * time.Second})
		defer u.Close()

		ctx := context.Background()
		// Faults of the upstream: the last history reply is sent twice over UDP
		// (its second copy is what the next exchange reads first from the
		// pooled socket), and TCP connections are closed without a reply.
		dup := nw != NetworkTCP && rapid.IntRange(0, 3).Draw(t, "dupLastHistoryReply") == 0
		tcpDown := rapid.IntRange(0, 3).Draw(t, "tcpDown") == 0
		for i, n := 0, rapid.IntRange(1, 3).Draw(t, "histLen"); i < n; i++ {
			srv.setFaults(dup && i == n-1, false)
			w, hm := vwire.HistoryMsg(t, i)
			req := (&dns.Msg{}).SetQuestion(hm.Question[0].Name, hm.Question[0].Qtype)
			srv.set(func(q []byte) []byte {
				r := append([]byte(nil), w...)
				copy(r[:2], q[:2])
				r[2] |= 0x80
				r[2] &^= 0x02 // never truncated: keep the history on one transport

				return r
			})
			if _, _, err := u.Exchange(ctx, req); err != nil {
				t.Fatalf("harness: valid history exchange failed: %v", err)
			}
		}

		base := vwire.BaseMsg(t)
		req := (&dns.Msg{}).SetQuestion(base.Question[0].Name, base.Question[0].Qtype)
		base.Response = true
		next := vwire.DrawNext(t, base)
		ownID := rapid.IntRange(0, 4).Draw(t, "replyKeepsOwnID") == 0
		reply := append([]byte(nil), next.Wire...)
		reply[2] &^= 0x02 // TC would only add a TCP retry with the same bytes
		srv.set(func(q []byte) []byte {
			r := append([]byte(nil), reply...)
			if !ownID {
				copy(r[:2], q[:2])
			}

			return r
		})

		// Over TCP the reply frame may arrive in two segments.
		split := 0
		if rapid.Bool().Draw(t, "splitReply") {
			split = rapid.OneOf(rapid.SampledFrom([]int{1, 2, 3, 13, 14, 15}), rapid.IntRange(1, len(reply)+1)).Draw(t, "splitAt")
		}

		srv.setSplit(split)
		srv.setFaults(false, tcpDown)
		resp, _, err := u.Exchange(ctx, req)
		srv.setSplit(0)
		srv.setFaults(false, false)

		// Reference.
		sent := append([]byte(nil), reply...)
		if !ownID {
			binary.BigEndian.PutUint16(sent, req.Id)
		}

		ref, refErr := vwire.RefDecode(sent)
		accept := refErr == nil && len(sent) >= minDNSMessageSize && ref.Id == req.Id && len(ref.Question) == 1 &&
			ref.Question[0].Qtype == req.Question[0].Qtype && strings.EqualFold(ref.Question[0].Name, req.Question[0].Name)

		// With these faults a matching reply may legitimately not be obtained;
		// what Exchange returns without an error must still be that reply.
		mayFail := (nw == NetworkTCP && tcpDown) || (dup && (nw == NetworkUDP || tcpDown))

		classes := []string{"kind-" + next.Kind, "net-" + string(nw)}
		if dup {
			classes = append(classes, "stray-duplicate-on-pooled-udp-socket")
		}

		if tcpDown && nw != NetworkUDP {
			classes = append(classes, "tcp-closed-without-reply")
		}

		if dup && tcpDown && nw == NetworkAny {
			classes = append(classes, "stray-duplicate-and-tcp-fallback-fails")
		}
		if split > 0 && nw == NetworkTCP {
			classes = append(classes, "tcp-reply-in-two-segments")
		}

		nt := ""
		if next.Inconsistent {
			nt = string(nw) + string(sent)
		}

		if accept {
			classes = append(classes, "accepted")
		} else {
			classes = append(classes, "rejected")
		}

		st.Case(nt, classes...)

		if accept && !(mayFail && err != nil) {
			if err != nil {
				t.Fatalf("exchange %s: reply %s %x decodes on its own and matches the query, but Exchange failed: %v", nw, next.Kind, sent, err)
			}

			if g, w := vwire.Describe(resp, nil), vwire.Describe(ref, nil); g != w {
				t.Fatalf("exchange %s: reply %s %x:\nexchange returned: %s\nown bytes decode:  %s", nw, next.Kind, sent, g, w)
			}
		} else if !accept && err == nil {
			t.Fatalf("exchange %s: request %v id %d, reply %s %x does not decode on its own to a matching answer (decode error: %v), but Exchange accepted it as:\n%s",
				nw, req.Question, req.Id, next.Kind, sent, refErr, vwire.Describe(resp, nil))
		}

		if resp != nil && strings.Contains(vwire.Describe(resp, nil), vwire.Marker) {
			t.Fatalf("exchange %s: result contains data of an earlier reply: %s", nw, vwire.Describe(resp, nil))
		}

		// Follow-up exchanges with one fixed ID and question, as DoH and DoQ
		// clients send them (ID 0): the upstream numbers its replies, and each
		// result must be the reply to this very request.  A pooled socket that
		// has fallen one reply behind hands out the previous one.
		if nw == NetworkTCP {
			return
		}

		var seq atomic.Int32
		srv.set(func(q []byte) []byte {
			m := &dns.Msg{}
			if m.Unpack(q) != nil {
				return nil
			}

			r := (&dns.Msg{}).SetReply(m)
			n := seq.Add(1)
			r.Answer = []dns.RR{&dns.A{Hdr: dns.RR_Header{Name: m.Question[0].Name, Rrtype: dns.TypeA, Class: dns.ClassINET, Ttl: 10}, A: net.IP{10, 0, 0, byte(n)}}}
			b, _ := r.Pack()

			return b
		})

		for i, n := 0, rapid.IntRange(1, 3).Draw(t, "followUps"); i < n; i++ {
			freq := (&dns.Msg{}).SetQuestion("follow.example.", dns.TypeA)
			freq.Id = 0
			before := seq.Load()
			fresp, _, ferr := u.Exchange(ctx, freq)
			after := seq.Load()
			if ferr != nil {
				// A stray datagram may make a UDP-only exchange fail; that is
				// not this check's subject.
				continue
			}

			st.Class("follow-up-with-fixed-id-and-question")
			if dup {
				st.Class("follow-up-after-stray-duplicate")
			}

			got := -1
			if len(fresp.Answer) == 1 {
				if a, ok := fresp.Answer[0].(*dns.A); ok {
					got = int(a.A.To4()[3])
				}
			}

			if got <= int(before) || got > int(after) {
				t.Fatalf("exchange %s (stray duplicate before: %t): follow-up %d got the upstream's reply number %d, but the replies to this request are numbers %d..%d: an earlier client's reply was handed out",
					nw, dup, i, got, before+1, after)
			}
		}
	})
}
