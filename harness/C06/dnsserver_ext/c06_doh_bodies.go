//go:build verif

package dnsserver_test

// C06 on the DoH request body: a POSTed message must be decoded from the
// octets of that request's own body only, whatever bodies -- complete or cut
// short -- the server has read before, on the same or on other connections.  A
// real ServerHTTPS (one with TLS for HTTP/2 and HTTP/1.1, one plain HTTP/1.1)
// echoes a digest of the request as it was decoded; the reference is the
// decode of the request's own bytes.

import (
	"bufio"
	"bytes"
	"context"
	"encoding/base64"
	"errors"
	"fmt"
	"io"
	"net"
	"net/http"
	"strings"
	"sync"
	"testing"
	"time"

	"github.com/AdguardTeam/AdGuardDNS/internal/dnsserver"
	"github.com/AdguardTeam/AdGuardDNS/internal/dnsserver/dnsservertest"
	"github.com/miekg/dns"
	"golang.org/x/net/http2"
	"pgregory.net/rapid"
	"verif.local/harness/vsock"
	"verif.local/harness/vstat"
	"verif.local/harness/vwire"
)

// vc06xCutBody is a request body that delivers its octets and then fails, so
// that the client aborts the request in the middle of the announced length.
type vc06xCutBody struct {
	r io.Reader
}

func (b *vc06xCutBody) Read(p []byte) (int, error) {
	n, err := b.r.Read(p)
	if err == io.EOF {
		return n, errors.New("vc06: body cut short")
	}

	return n, err
}

func (b *vc06xCutBody) Close() error { return nil }

// vc06xRawCut sends a POST over a raw HTTP/1.1 connection whose Content-Length
// announces more than is sent, then closes (or half-closes and reads the
// response).  status is 0 if no response was read.
func vc06xRawCut(addr string, sent []byte, announced int, halfClose bool) (status int, body []byte, err error) {
	c, err := net.DialTimeout("tcp", addr, vc06xWait)
	if err != nil {
		return 0, nil, fmt.Errorf("environment: %w", err)
	}
	defer c.Close()

	_ = c.SetDeadline(time.Now().Add(vc06xWait))
	head := fmt.Sprintf("POST %s HTTP/1.1\r\nHost: example.org\r\nContent-Type: %s\r\nContent-Length: %d\r\n\r\n", dnsserver.PathDoH, dnsserver.MimeTypeDoH, announced)
	if _, err = c.Write(append([]byte(head), sent...)); err != nil {
		return 0, nil, fmt.Errorf("environment: %w", err)
	}

	if !halfClose {
		return 0, nil, nil
	}

	_ = c.(*net.TCPConn).CloseWrite()
	raw, _ := io.ReadAll(c)
	if len(raw) == 0 {
		return 0, nil, nil
	}

	resp, perr := http.ReadResponse(bufio.NewReader(bytes.NewReader(raw)), nil)
	if perr != nil {
		return 0, nil, nil
	}
	defer resp.Body.Close()

	body, _ = io.ReadAll(resp.Body)

	return resp.StatusCode, body, nil
}

func TestVerifC06DoHBodies(t *testing.T) {
	st := vstat.New("C06", "dnsserver-ext.doh-bodies",
		"rapid (two real ServerHTTPS on loopback -- TLS with HTTP/2 and HTTP/1.1, and plain HTTP/1.1 -- whose handler echoes a digest of the decoded request; per case 0-12 disturbances: POST requests whose body is cut short (Content-Length larger than the octets sent, the octets being a prefix of a valid marker query cut at a drawn offset, or the complete message with more announced; over a raw HTTP/1.1 connection that is then closed or half-closed, or through the HTTP/2 client with a body that fails); then 1-4 judged requests with valid queries of other names and IDs: POST over HTTP/2, POST over plain HTTP/1.1, GET ?dns=; one after the other or all at once); oracle: every judged request is answered 200 with the echo of the decode of ITS OWN bytes, its ID and its question, and no marker; a cut POST that can be answered at all is not answered 200; non-trivial = judged requests after at least one cut body; distinct by the judged messages and the cuts",
		"post-after-cut-post-bodies", "cut-post-body-then-concurrent-posts", "cut-after-complete-first-message", "cut-inside-message", "cut-via-h2", "judged-get", "no-disturbance")
	st.Finish(t)

	tlsConf := dnsservertest.CreateServerTLSConfig("example.org")
	srvTLS, err := dnsservertest.RunLocalHTTPSServer(vc06xEcho(), tlsConf.Clone(), nil)
	if err != nil {
		fmt.Println("VERIF-INCONCLUSIVE: cannot start the loopback server:", err)
		t.FailNow()
	}
	defer func() { _ = srvTLS.Shutdown(context.Background()) }()

	srvPlain, err := dnsservertest.RunLocalHTTPSServer(vc06xEcho(), nil, nil)
	if err != nil {
		fmt.Println("VERIF-INCONCLUSIVE: cannot start the loopback server:", err)
		t.FailNow()
	}
	defer func() { _ = srvPlain.Shutdown(context.Background()) }()

	tlsAddr, plainAddr := srvTLS.LocalTCPAddr().String(), srvPlain.LocalTCPAddr().String()
	dialTo := func(a string) func(ctx context.Context, network, _ string) (net.Conn, error) {
		d := &net.Dialer{Timeout: vc06xWait}

		return func(ctx context.Context, network, _ string) (net.Conn, error) { return d.DialContext(ctx, network, a) }
	}

	h2conf := tlsConf.Clone()
	h2conf.NextProtos = []string{"h2", "http/1.1"}
	h2tr := &http.Transport{TLSClientConfig: h2conf, DisableCompression: true, DialContext: dialTo(tlsAddr), ForceAttemptHTTP2: true}
	if err = http2.ConfigureTransport(h2tr); err != nil {
		fmt.Println("VERIF-INCONCLUSIVE:", err)
		t.FailNow()
	}

	h1tr := &http.Transport{DisableCompression: true, DialContext: dialTo(plainAddr)}
	defer h2tr.CloseIdleConnections()
	defer h1tr.CloseIdleConnections()

	h2 := &http.Client{Transport: h2tr, Timeout: vc06xWait}
	h1 := &http.Client{Transport: h1tr, Timeout: vc06xWait}

	type judged struct {
		how  string // "h2-post", "h1-post", "h2-get"
		wire []byte
		msg  *dns.Msg

		status int
		body   []byte
		err    error
	}

	do := func(j *judged) {
		var req *http.Request
		switch j.how {
		case "h2-post":
			req, _ = http.NewRequest(http.MethodPost, "https://example.org"+dnsserver.PathDoH, bytes.NewReader(j.wire))
		case "h1-post":
			req, _ = http.NewRequest(http.MethodPost, "http://example.org"+dnsserver.PathDoH, bytes.NewReader(j.wire))
		default:
			req, _ = http.NewRequest(http.MethodGet, "https://example.org"+dnsserver.PathDoH+"?dns="+base64.RawURLEncoding.EncodeToString(j.wire), nil)
		}

		req.Header.Set("Content-Type", dnsserver.MimeTypeDoH)
		cl := h2
		if j.how == "h1-post" {
			cl = h1
		}

		resp, derr := cl.Do(req)
		if derr != nil {
			j.err = derr

			return
		}
		defer resp.Body.Close()

		j.status = resp.StatusCode
		j.body, j.err = io.ReadAll(resp.Body)
	}

	inconclusive := false
	rapid.Check(t, func(t *rapid.T) {
		if inconclusive {
			t.FailNow()
		}

		classes := []string{}
		nDist := rapid.SampledFrom([]int{0, 1, 2, 3, 5, 8, 12}).Draw(t, "disturbances")
		if nDist == 0 {
			classes = append(classes, "no-disturbance")
		}

		var hist []string
		for i := 0; i < nDist; i++ {
			wire, _ := vwire.HistoryMsg(t, i)
			var sent []byte
			announced := 0
			if rapid.IntRange(0, 2).Draw(t, "cutKind") == 0 {
				// The complete first message, with more announced.
				sent = wire
				announced = len(wire) + rapid.IntRange(1, 300).Draw(t, "announcedMore")
				classes = append(classes, "cut-after-complete-first-message")
			} else {
				sent = wire[:rapid.IntRange(1, len(wire)-1).Draw(t, "cutAt")]
				announced = len(wire)
				classes = append(classes, "cut-inside-message")
			}

			switch via := rapid.SampledFrom([]string{"raw-close", "raw-half-close", "raw-half-close", "h2"}).Draw(t, "cutVia"); via {
			case "h2":
				req, _ := http.NewRequest(http.MethodPost, "https://example.org"+dnsserver.PathDoH, &vc06xCutBody{r: bytes.NewReader(sent)})
				req.ContentLength = int64(announced)
				req.Header.Set("Content-Type", dnsserver.MimeTypeDoH)
				if resp, derr := h2.Do(req); derr == nil {
					b, _ := io.ReadAll(resp.Body)
					_ = resp.Body.Close()
					if resp.StatusCode == http.StatusOK {
						t.Fatalf("a POST whose body was cut short after %d of %d announced octets (HTTP/2) was answered 200: %x", len(sent), announced, b)
					}
				}

				classes = append(classes, "cut-via-h2")
				hist = append(hist, fmt.Sprintf("h2 POST %d/%d", len(sent), announced))
			default:
				status, body, rerr := vc06xRawCut(plainAddr, sent, announced, via == "raw-half-close")
				if rerr != nil {
					inconclusive = true
					fmt.Println("VERIF-INCONCLUSIVE:", rerr)
					t.FailNow()
				}

				if status == http.StatusOK {
					t.Fatalf("a POST whose body was cut short after %d of %d announced octets (%s) was answered 200: %x", len(sent), announced, via, body)
				}

				hist = append(hist, fmt.Sprintf("%s POST %d/%d -> %d", via, len(sent), announced, status))
			}
		}

		nJ := rapid.IntRange(1, 4).Draw(t, "judged")
		concurrent := rapid.Bool().Draw(t, "concurrent") && nJ > 1
		var js []*judged
		for i := 0; i < nJ; i++ {
			m := vwire.BaseMsg(t)
			m.Question[0].Name = fmt.Sprintf("j%d-%s", i, m.Question[0].Name)
			m.Answer, m.Response = nil, false
			m.Id = uint16(20000 + rapid.IntRange(0, 20000).Draw(t, "judgedID"))
			w, perr := m.Pack()
			if perr != nil {
				t.Fatalf("harness: %v", perr)
			}

			how := rapid.SampledFrom([]string{"h2-post", "h2-post", "h1-post", "h1-post", "h2-get"}).Draw(t, "how")
			if i == 0 && nDist > 0 {
				// The first judged request after cut bodies is always a POST.
				how = rapid.SampledFrom([]string{"h2-post", "h1-post"}).Draw(t, "firstHow")
			}

			if how == "h2-get" {
				classes = append(classes, "judged-get")
			}

			js = append(js, &judged{how: how, wire: w, msg: m})
		}

		if nDist > 0 {
			if concurrent {
				classes = append(classes, "cut-post-body-then-concurrent-posts")
			} else {
				classes = append(classes, "post-after-cut-post-bodies")
			}
		}

		if concurrent {
			var wg sync.WaitGroup
			for _, j := range js {
				wg.Add(1)
				go func() {
					defer wg.Done()

					do(j)
				}()
			}

			wg.Wait()
		} else {
			for _, j := range js {
				do(j)
			}
		}

		key := strings.Join(hist, ";")
		for _, j := range js {
			key += "|" + j.how + string(j.wire)
		}

		st.Case(key, classes...)
		for i, j := range js {
			where := fmt.Sprintf("after [%s], judged request %d of %d (%s, concurrent=%t, %d octets, id %d, %s)", strings.Join(hist, "; "), i+1, nJ, j.how, concurrent, len(j.wire), j.msg.Id, j.msg.Question[0].Name)
			if j.err != nil {
				inconclusive = true
				fmt.Printf("VERIF-INCONCLUSIVE: %s: %v\n", where, j.err)
				t.FailNow()
			}

			if j.status != http.StatusOK {
				t.Fatalf("%s: HTTP status %d (%q); the message decodes on its own", where, j.status, j.body)
			}

			resp := &dns.Msg{}
			if uerr := resp.Unpack(j.body); uerr != nil {
				t.Fatalf("%s: the response does not decode: %v", where, uerr)
			}

			got, want := vsock.Got(resp), vsock.Expect(j.wire)
			if strings.Contains(resp.String(), vwire.Marker) {
				t.Fatalf("%s: the response carries data of an earlier request:\n%v", where, resp)
			}

			if got != want || resp.Id != j.msg.Id || len(resp.Question) != 1 || resp.Question[0] != j.msg.Question[0] {
				t.Fatalf("%s: the server decoded something else than the request's own body:\n got  %s id %d question %v\n want %s id %d question %v", where, got, resp.Id, resp.Question, want, j.msg.Id, j.msg.Question)
			}
		}
	})
}
