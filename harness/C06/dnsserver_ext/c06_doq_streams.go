//go:build verif

package dnsserver_test

// C06 on the DoQ read path over real QUIC streams, from outside the package (no
// unexported names): several streams of ONE connection are read concurrently
// by the server.  Each stream's query must be decoded from that stream's own
// bytes only, also when it arrives in two parts with other streams' queries in
// between.  A real ServerQUIC on loopback echoes a digest of the request as it
// was decoded; the reference is the decode of the stream's own bytes.

import (
	"context"
	"crypto/tls"
	"encoding/binary"
	"errors"
	"fmt"
	"io"
	"strings"
	"testing"
	"time"

	"github.com/AdguardTeam/AdGuardDNS/internal/dnsserver"
	"github.com/AdguardTeam/AdGuardDNS/internal/dnsserver/dnsservertest"
	"github.com/miekg/dns"
	"github.com/quic-go/quic-go"
	"pgregory.net/rapid"
	"verif.local/harness/vsock"
	"verif.local/harness/vstat"
	"verif.local/harness/vwire"
)

const vc06xWait = 15 * time.Second

func vc06xEcho() dnsserver.Handler {
	return dnsserver.HandlerFunc(func(ctx context.Context, rw dnsserver.ResponseWriter, req *dns.Msg) error {
		resp := (&dns.Msg{}).SetReply(req)
		resp.Answer = []dns.RR{&dns.TXT{
			Hdr: dns.RR_Header{Name: req.Question[0].Name, Rrtype: dns.TypeTXT, Class: dns.ClassINET, Ttl: 1},
			Txt: []string{vsock.Digest(vwire.Describe(req, nil))},
		}}

		return rw.WriteMsg(ctx, req, resp)
	})
}

// vc06xStream is one stream of a case.
type vc06xStream struct {
	payload []byte // what is written on the stream (length prefix included)
	own     []byte // the DNS message the stream carries ("" for garbage)
	want    string // vsock.Expect(own); "" = no DNS answer may come back
	split   int    // > 0: written in two parts, cut at this offset
	garbage string
	name    string

	st   quic.Stream
	got  []byte // everything read from the stream
	rerr error
}

// vc06xRun performs one case on a fresh connection.
func vc06xRun(addr string, tlsConf *tls.Config, streams []*vc06xStream, pause1, pause2 time.Duration) (took time.Duration, err error) {
	ctx, cancel := context.WithTimeout(context.Background(), vc06xWait)
	defer cancel()

	conn, err := quic.DialAddr(ctx, addr, tlsConf.Clone(), nil)
	if err != nil {
		return 0, fmt.Errorf("environment: dialing: %w", err)
	}
	defer func() { _ = conn.CloseWithError(0, "") }()

	// The server's read time-out (2 s) starts when it accepts a stream, which is
	// not before the stream is opened here.
	start := time.Now()
	for _, s := range streams {
		s.got, s.rerr = nil, nil
		if s.st, err = conn.OpenStreamSync(ctx); err != nil {
			return 0, fmt.Errorf("environment: opening a stream: %w", err)
		}

		_ = s.st.SetDeadline(time.Now().Add(vc06xWait))
	}

	write := func(s *vc06xStream, b []byte, fin bool) {
		if _, werr := s.st.Write(b); werr != nil && s.rerr == nil {
			s.rerr = werr
		}

		if fin {
			_ = s.st.Close()
		}
	}

	// First parts of the split streams; then the whole streams; then the rest.
	for _, s := range streams {
		if s.split > 0 {
			write(s, s.payload[:s.split], false)
		}
	}

	time.Sleep(pause1)
	for _, s := range streams {
		if s.split == 0 {
			write(s, s.payload, true)
		}
	}

	time.Sleep(pause2)
	for _, s := range streams {
		if s.split > 0 {
			write(s, s.payload[s.split:], true)
		}
	}

	for _, s := range streams {
		b, rerr := io.ReadAll(s.st)
		s.got = b
		if rerr != nil && s.rerr == nil {
			s.rerr = rerr
		}
	}

	return time.Since(start), nil
}

func vc06xFrames(b []byte) (msgs [][]byte, ok bool) {
	for len(b) > 0 {
		if len(b) < 2 {
			return msgs, false
		}

		l := int(binary.BigEndian.Uint16(b))
		if len(b) < 2+l {
			return msgs, false
		}

		msgs = append(msgs, b[2:2+l])
		b = b[2+l:]
	}

	return msgs, true
}

func TestVerifC06DoQStreams(t *testing.T) {
	st := vstat.New("C06", "dnsserver-ext.doq-streams",
		"rapid (one QUIC connection to a real ServerQUIC on loopback whose handler echoes a digest of the decoded request; 2-6 streams opened before anything is written; every stream carries a valid query with ID 0 and its own name and length, some padded to several KB; each stream is written whole or in two parts cut at a drawn offset, the first parts first, after 1-10 ms the whole streams, after 1-10 ms the second parts; in a third of the cases one more stream carries garbage: all zero octets, or a truncated query); oracle: the answer on a stream echoes the decode of THAT stream's own bytes and carries its question and ID 0; a garbage stream gets no DNS message at all, in particular none with another stream's question (the server then closes the connection, so the valid streams of such a case may stay unanswered, but may not be answered wrongly); a missing answer without a wrong one is repeated once and then inconclusive (the server has a 2 s read time-out of its own); non-trivial = a stream written in two parts with another stream's query in between, or a garbage stream next to valid ones; distinct by the streams' bytes and cuts",
		"stream-split-with-concurrent-stream", "garbage-stream-with-concurrent-valid-stream", "padded-query", "all-zero-stream", "truncated-query-stream")
	st.Finish(t)

	tlsConf := dnsservertest.CreateServerTLSConfig("example.org")
	tlsConf.NextProtos = dnsserver.NextProtoDoQ
	srv := dnsserver.NewServerQUIC(dnsserver.ConfigQUIC{
		TLSConfig:  tlsConf.Clone(),
		ConfigBase: dnsserver.ConfigBase{Name: "verif-c06-doq", Addr: "127.0.0.1:0", Handler: vc06xEcho()},
	})
	if err := srv.Start(context.Background()); err != nil {
		fmt.Println("VERIF-INCONCLUSIVE: cannot start the loopback server:", err)
		t.FailNow()
	}
	defer func() { _ = srv.Shutdown(context.Background()) }()

	addr := srv.LocalUDPAddr().String()
	inconclusive := false
	rapid.Check(t, func(t *rapid.T) {
		if inconclusive {
			t.FailNow()
		}

		n := rapid.IntRange(2, 6).Draw(t, "streams")
		var streams []*vc06xStream
		classes := []string{}
		anySplit, anyWhole := false, false
		for i := 0; i < n; i++ {
			name := fmt.Sprintf("s%d-%s.stream.test.", i, strings.Repeat("x", rapid.IntRange(0, 40).Draw(t, "nameLen")))
			m := (&dns.Msg{}).SetQuestion(name, rapid.SampledFrom([]uint16{dns.TypeA, dns.TypeAAAA, dns.TypeTXT}).Draw(t, "qtype"))
			m.Id = 0
			if pad := rapid.SampledFrom([]int{0, 0, 0, 30, 700, 3000, 9000}).Draw(t, "padding"); pad > 0 {
				m.SetEdns0(4096, false)
				opt := m.IsEdns0()
				opt.Option = append(opt.Option, &dns.EDNS0_PADDING{Padding: make([]byte, pad)})
				if pad >= 700 {
					classes = append(classes, "padded-query")
				}
			}

			own, err := m.Pack()
			if err != nil {
				t.Fatalf("harness: %v", err)
			}

			s := &vc06xStream{own: own, want: vsock.Expect(own), name: name}
			s.payload = append(binary.BigEndian.AppendUint16(nil, uint16(len(own))), own...)
			if rapid.Bool().Draw(t, "split") {
				s.split = rapid.OneOf(rapid.SampledFrom([]int{1, 2, 3, 14, len(s.payload) - 1}), rapid.IntRange(1, len(s.payload)-1)).Draw(t, "cut")
				anySplit = true
			} else {
				anyWhole = true
			}

			streams = append(streams, s)
		}

		// Make sure there is something in between the two parts.
		if anySplit && !anyWhole {
			streams[0].split = 0
		} else if !anySplit {
			streams[len(streams)-1].split = 1 + len(streams[len(streams)-1].payload)/2
		}

		classes = append(classes, "stream-split-with-concurrent-stream")
		garbage := rapid.IntRange(0, 2).Draw(t, "garbage") == 0
		if garbage {
			g := &vc06xStream{name: "(garbage)"}
			switch g.garbage = rapid.SampledFrom([]string{"all-zero", "truncated"}).Draw(t, "garbageKind"); g.garbage {
			case "all-zero":
				g.payload = make([]byte, rapid.IntRange(14, 300).Draw(t, "zeros"))
				classes = append(classes, "all-zero-stream")
			default:
				src := streams[0].own
				cut := rapid.IntRange(12, len(src)-1).Draw(t, "garbageCut")
				g.own = src[:cut]
				g.payload = append(binary.BigEndian.AppendUint16(nil, uint16(cut)), g.own...)
				if vsock.Expect(g.own) != "" {
					// A cut that still decodes is a valid (other) query of its own.
					g.want = vsock.Expect(g.own)
				}

				classes = append(classes, "truncated-query-stream")
			}

			if rapid.Bool().Draw(t, "garbageSplit") && len(g.payload) > 3 {
				g.split = rapid.IntRange(1, len(g.payload)-1).Draw(t, "garbageCutAt")
			}

			at := rapid.IntRange(0, len(streams)).Draw(t, "garbageAt")
			streams = append(streams[:at], append([]*vc06xStream{g}, streams[at:]...)...)
			classes = append(classes, "garbage-stream-with-concurrent-valid-stream")
		}

		p1 := time.Duration(rapid.IntRange(1, 10).Draw(t, "pause1")) * time.Millisecond
		p2 := time.Duration(rapid.IntRange(1, 10).Draw(t, "pause2")) * time.Millisecond

		// judge returns a verdict (wrong answer) or tells that answers are
		// missing.
		judge := func() (verdict error, missing int) {
			for i, s := range streams {
				msgs, ok := vc06xFrames(s.got)
				if !ok {
					return fmt.Errorf("stream %d (%s): the data that came back is not a sequence of frames: %x", i, s.name, s.got), 0
				}

				if len(msgs) > 1 {
					return fmt.Errorf("stream %d (%s): %d messages came back", i, s.name, len(msgs)), 0
				}

				if len(msgs) == 0 {
					if s.want != "" && !garbage {
						missing++
					}

					continue
				}

				resp := &dns.Msg{}
				if uerr := resp.Unpack(msgs[0]); uerr != nil {
					return fmt.Errorf("stream %d (%s): the answer does not decode: %v", i, s.name, uerr), 0
				}

				got := vsock.Got(resp)
				if s.want == "" {
					return fmt.Errorf("stream %d carries %s (%d octets) that do not decode on their own, and was answered: %s, question %v", i, s.garbage, len(s.payload), got, resp.Question), 0
				}

				if got != s.want {
					whose := ""
					for j, o := range streams {
						if j != i && o.want != "" && o.want == got {
							whose = fmt.Sprintf(" -- that is the echo of stream %d (%s)", j, o.name)
						}
					}

					return fmt.Errorf("stream %d (%s, %d octets, cut at %d): the server decoded something else than the stream's own bytes:\n got  %s question %v%s\n want %s", i, s.name, len(s.payload), s.split, got, resp.Question, whose, s.want), 0
				}

				if resp.Id != 0 || (s.garbage == "" && (len(resp.Question) != 1 || resp.Question[0].Name != s.name)) {
					return fmt.Errorf("stream %d (%s): answer ID %d question %v", i, s.name, resp.Id, resp.Question), 0
				}
			}

			return nil, missing
		}

		var verdict error
		missing := 0
		for try := 0; try < 2; try++ {
			took, err := vc06xRun(addr, tlsConf, streams, p1, p2)
			if err != nil {
				inconclusive = true
				fmt.Println("VERIF-INCONCLUSIVE:", err)
				t.FailNow()
			}

			if verdict, missing = judge(); verdict != nil || missing == 0 {
				break
			}

			// Only valid streams, and the server closed the connection with
			// DOQ_PROTOCOL_ERROR sooner than its own read time-out can have
			// expired: it could not decode a stream from that stream's bytes.
			if !garbage && took < 1500*time.Millisecond {
				for i, s := range streams {
					var ae *quic.ApplicationError
					if errors.As(s.rerr, &ae) && ae.Remote && ae.ErrorCode == 2 {
						verdict = fmt.Errorf("stream %d (%s): only valid queries on the connection, and %s after the streams were opened the server closed it with DOQ_PROTOCOL_ERROR (its read time-out is 2 s): a query was not decoded from its own bytes; %d streams unanswered", i, s.name, took.Round(time.Millisecond), missing)

						break
					}
				}
			}

			if verdict != nil {
				break
			}
		}

		key := ""
		for _, s := range streams {
			key += fmt.Sprintf("%d|%s|", s.split, s.payload)
		}

		st.Case(key, classes...)
		if verdict != nil {
			var desc []string
			for i, s := range streams {
				desc = append(desc, fmt.Sprintf("[%d: %s %d octets cut=%d]", i, s.name, len(s.payload), s.split))
			}

			t.Fatalf("one connection, streams %s, pauses %s / %s:\n%v", strings.Join(desc, " "), p1, p2, verdict)
		}

		if missing > 0 {
			var errs []string
			for _, s := range streams {
				if s.rerr != nil && !errors.Is(s.rerr, io.EOF) {
					errs = append(errs, s.rerr.Error())
				}
			}

			inconclusive = true
			fmt.Printf("VERIF-INCONCLUSIVE: %d streams stayed unanswered twice, no wrong answer (stream errors: %v)\n", missing, errs)
			t.FailNow()
		}
	})
}
