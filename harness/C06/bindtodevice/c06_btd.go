//go:build verif && linux

package bindtodevice_test

// C06 on the UDP receive path of the bind-to-device listeners: when
// interface_listeners are configured, datagrams reach dnsserver.ServerDNS
// through bindtodevice's own pooled body buffers (readUDP -> readPacketSession
// -> chanPacketConn), not through net.UDPConn.  A real Manager bound to "lo"
// feeds a real plain-DNS server whose handler echoes a digest of the request
// as it was decoded; the reference is the decode of the query's own bytes.

import (
	"context"
	"encoding/binary"
	"fmt"
	"net"
	"net/netip"
	"os"
	"strings"
	"testing"
	"time"

	"github.com/AdguardTeam/AdGuardDNS/internal/agdtest"
	"github.com/AdguardTeam/AdGuardDNS/internal/bindtodevice"
	"github.com/AdguardTeam/AdGuardDNS/internal/dnsserver"
	"github.com/AdguardTeam/golibs/logutil/slogutil"
	"github.com/miekg/dns"
	"pgregory.net/rapid"
	"verif.local/harness/vsock"
	"verif.local/harness/vstat"
	"verif.local/harness/vwire"
)

func vc06bEcho() dnsserver.Handler {
	return dnsserver.HandlerFunc(func(ctx context.Context, rw dnsserver.ResponseWriter, req *dns.Msg) error {
		resp := (&dns.Msg{}).SetReply(req)
		resp.Answer = []dns.RR{&dns.TXT{
			Hdr: dns.RR_Header{Name: req.Question[0].Name, Rrtype: dns.TypeTXT, Class: dns.ClassINET, Ttl: 1},
			Txt: []string{vsock.Digest(vwire.Describe(req, nil))},
		}}

		if strings.HasPrefix(req.Question[0].Name, "late-") {
			// A handler that runs out of the request time-out (slow upstream): it
			// gives up with the context's error, and the server's own SERVFAIL is
			// then written with a deadline in the past and fails, which takes the
			// writer's error path.
			<-ctx.Done()

			return ctx.Err()
		}

		return rw.WriteMsg(ctx, req, resp)
	})
}

// vc06bStart returns the address of a plain-DNS UDP server behind a
// bind-to-device listener on the loopback interface, or why there is none.
func vc06bStart(t *testing.T) (addr net.Addr, why string) {
	if os.Geteuid() != 0 {
		return nil, "not root: SO_BINDTODEVICE needs CAP_NET_RAW"
	}

	var lastErr error
	for attempt := 0; attempt < 20; attempt++ {
		c, err := net.ListenPacket("udp", "127.0.0.1:0")
		if err != nil {
			return nil, "no loopback: " + err.Error()
		}

		port := uint16(c.LocalAddr().(*net.UDPAddr).Port)
		_ = c.Close()

		m := bindtodevice.NewManager(&bindtodevice.ManagerConfig{
			Logger:            slogutil.NewDiscardLogger(),
			InterfaceStorage:  bindtodevice.DefaultInterfaceStorage{},
			ErrColl:           agdtest.NewErrorCollector(),
			ChannelBufferSize: 64,
		})

		const id bindtodevice.ID = "verifc06"
		if err = m.Add(id, "lo", port, nil); err != nil {
			return nil, "manager.Add: " + err.Error()
		}

		lc, err := m.ListenConfig(id, netip.MustParsePrefix("127.0.0.0/8"))
		if err != nil {
			return nil, "manager.ListenConfig: " + err.Error()
		}

		ctx, cancel := context.WithTimeout(context.Background(), 5*time.Second)
		err = m.Start(ctx)
		cancel()
		if err != nil {
			lastErr = err
			if strings.Contains(err.Error(), "operation not permitted") {
				return nil, "manager.Start: " + err.Error()
			}

			continue
		}

		ap := netip.AddrPortFrom(netip.MustParseAddr("127.0.0.1"), port)
		srv := dnsserver.NewServerDNS(dnsserver.ConfigDNS{ConfigBase: dnsserver.ConfigBase{
			Name:           "verif-c06-btd",
			Addr:           ap.String(),
			Network:        dnsserver.NetworkUDP,
			Handler:        vc06bEcho(),
			RequestContext: dnsserver.NewTimeoutContextConstructor(time.Second),
			ListenConfig:   lc,
		}})
		if err = srv.Start(context.Background()); err != nil {
			lastErr = err
			_ = m.Shutdown(context.Background())

			continue
		}

		t.Cleanup(func() {
			sdCtx, sdCancel := context.WithTimeout(context.Background(), 5*time.Second)
			defer sdCancel()

			_ = srv.Shutdown(sdCtx)
			_ = m.Shutdown(sdCtx)
		})

		// Wait until a query is answered through the listener.
		ua := net.UDPAddrFromAddrPort(ap)
		for i := 0; i < 50; i++ {
			resps, _, rerr := vsock.Round(false, ua, nil, 7, 8, nil, 0)
			_ = resps
			if rerr == nil {
				return ua, ""
			}

			time.Sleep(100 * time.Millisecond)
		}

		return nil, "the listener does not answer on " + ap.String()
	}

	return nil, fmt.Sprint("cannot start: ", lastErr)
}

func TestVerifC06BindToDevice(t *testing.T) {
	const rule = "rapid (history of 1-4 valid marker queries of drawn lengths, next query valid / truncated / inflated counts / pointer beyond the end / trailing bytes / header only) over real UDP to a plain-DNS ServerDNS fed by a bindtodevice.Manager bound to lo (its own pooled body buffers); the handler echoes a digest of the decoded request; oracle = decode of the query's own bytes + the accept rules; non-trivial = query inconsistent, or valid and longer than an earlier datagram of the case; distinct by query bytes"

	addr, why := vc06bStart(t)
	if addr == nil {
		// No privilege for SO_BINDTODEVICE (or no loopback interface named lo):
		// this part decides nothing here.
		st := vstat.New("C06", "bindtodevice.udp-sockets", rule)
		st.Finish(t)
		st.Extra("skipped", why)
		st.Class("skipped-no-bind-to-device")
		fmt.Println("C06 bindtodevice part skipped:", why)

		return
	}

	st := vstat.New("C06", "bindtodevice.udp-sockets", rule,
		"expect-echo", "expect-none", "longer-than-an-earlier-datagram", "kind-truncated", "kind-counts", "kind-pointer", "after-failed-response-write")
	st.Finish(t)

	rapid.Check(t, func(t *rapid.T) {
		var wires [][]byte
		used := map[uint16]bool{}
		shortest := 1 << 20
		for i, n := 0, rapid.IntRange(1, 4).Draw(t, "histLen"); i < n; i++ {
			w, m := vwire.HistoryMsg(t, i)
			if m.Response || used[m.Id] || len(w) > 512 {
				continue
			}

			used[m.Id] = true
			wires = append(wires, w)
			shortest = min(shortest, len(w))
		}

		lateSent := false
		for i, n := 0, rapid.SampledFrom([]int{0, 0, 0, 0, 0, 0, 0, 0, 0, 0, 0, 1, 3}).Draw(t, "lateQueries"); i < n; i++ {
			id := uint16(rapid.IntRange(0, 65535).Draw(t, "lateID"))
			if used[id] {
				continue
			}

			used[id] = true
			lm := (&dns.Msg{}).SetQuestion("late-"+strings.Repeat("x", rapid.IntRange(0, 12).Draw(t, "lateLen"))+".test.", dns.TypeA)
			lm.Id = id
			lw, _ := lm.Pack()
			wires = append(wires, lw)
			shortest = min(shortest, len(lw))
			lateSent = true
		}

		base := vwire.BaseMsg(t)
		for used[base.Id] {
			base.Id++
		}

		if pad := rapid.SampledFrom([]int{0, 0, 10, 100, 300}).Draw(t, "pad"); pad > 0 {
			if base.IsEdns0() == nil {
				base.SetEdns0(1232, false)
			}

			opt := base.IsEdns0()
			opt.Option = append(opt.Option, &dns.EDNS0_PADDING{Padding: make([]byte, pad)})
		}

		next := vwire.DrawNext(t, base)
		if len(next.Wire) > 512 {
			next.Wire = next.Wire[:512]
			next.Kind, next.Inconsistent = "truncated", true
		}

		nextID := binary.BigEndian.Uint16(next.Wire)
		used[nextID] = true
		sentinel := uint16(1)
		for used[sentinel] {
			sentinel++
		}

		used[sentinel] = true
		sentinel2 := sentinel + 1
		for used[sentinel2] {
			sentinel2++
		}

		want := vsock.Expect(next.Wire)
		expect := map[uint16]bool{}
		if want != "" {
			expect[nextID] = true
		}

		var resps map[uint16]*dns.Msg
		var settled bool
		var err error
		if lateSent {
			// Write deadlines are set on the one shared UDP socket: a write with
			// an expired context can fail a concurrent write of another response.
			// Not this property's subject: the history finishes first.
			if _, _, err = vsock.Round(false, addr, wires, sentinel, sentinel2, nil, 0); err == nil {
				time.Sleep(time.Second + 50*time.Millisecond)
				resps, settled, err = vsock.Round(false, addr, [][]byte{next.Wire}, sentinel, sentinel2, expect, 0)
			}
		} else {
			resps, settled, err = vsock.Round(false, addr, append(wires, next.Wire), sentinel, sentinel2, expect, 0)
		}

		classes := []string{"kind-" + next.Kind}
		switch {
		case want == "":
			classes = append(classes, "expect-none")
		case strings.HasPrefix(want, "echo:"):
			classes = append(classes, "expect-echo")
		default:
			classes = append(classes, "expect-rcode")
		}

		if lateSent {
			classes = append(classes, "after-failed-response-write")
		}

		longer := len(next.Wire) > shortest || len(next.Wire) > len(vsock.Sentinel(1))
		if longer {
			classes = append(classes, "longer-than-an-earlier-datagram")
		}

		nt := ""
		if next.Inconsistent || (next.Kind == "valid" && longer) {
			nt = string(next.Wire)
		}

		st.Case(nt, classes...)
		if st.WantSample() && nt != "" {
			st.Sample(map[string]any{"history": len(wires), "next_kind": next.Kind, "next_len": len(next.Wire), "want": want})
		}

		if err != nil || !settled {
			fmt.Println("VERIF-INCONCLUSIVE: socket round did not settle:", err)
			t.FailNow()
		}

		got := vsock.Got(resps[nextID])
		if strings.Contains(got, vwire.Marker) {
			t.Fatalf("bind-to-device UDP: response to %s query %x contains data of an earlier query:\n%s", next.Kind, next.Wire, got)
		}

		if got != want {
			t.Fatalf("bind-to-device UDP: %s query %x (%d octets) after %d earlier datagrams:\nserver answered: %q\nown bytes imply: %q", next.Kind, next.Wire, len(next.Wire), len(wires), got, want)
		}
	})
}
