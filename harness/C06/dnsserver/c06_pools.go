//go:build verif

package dnsserver

import (
	"context"
	"encoding/binary"
	"fmt"
	"io"
	"net"
	"strings"
	"sync"
	"testing"
	"time"

	"github.com/miekg/dns"
	"pgregory.net/rapid"
	"verif.local/harness/vstat"
)

// vc06PoolReqTimeout is the request time-out of the server of the pools part:
// the time an over-full pipeline waits before the server gives up on a message.
const vc06PoolReqTimeout = 400 * time.Millisecond

// vc06PoolPipeline is that server's pipeline limit.
const vc06PoolPipeline = 2

// vc06Probe is one query of the judged phase.
type vc06Probe struct {
	wire   []byte
	id     uint16
	want   string
	tcp    bool
	split  int
	pause  time.Duration
	delay  time.Duration
	got    string
	seen   bool
	alien  string
	closed bool
}

// vc06ProbeMsg builds a valid query whose name has nameLen x's: the question
// section of such a query ends where a pipelined "late-" query of the same
// name length ends, the one place where a cut leaves a decodable message.
func vc06ProbeMsg(id uint16, nameLen int, edns, do bool, pad int) []byte {
	m := (&dns.Msg{}).SetQuestion("prob-"+strings.Repeat("x", nameLen)+".test.", dns.TypeA)
	m.Id = id
	if edns || pad > 0 {
		m.SetEdns0(1232, do)
		if pad > 0 {
			opt := m.IsEdns0()
			opt.Option = append(opt.Option, &dns.EDNS0_PADDING{Padding: make([]byte, pad)})
		}
	}

	b, _ := m.Pack()

	return b
}

// vc06RunProbe sends p on its own socket or connection and collects what comes
// back: the response with its own ID, and any response with an ID it never
// sent.
func vc06RunProbe(p *vc06Probe, udpAddr, tcpAddr net.Addr) {
	time.Sleep(p.delay)
	if !p.tcp {
		c, err := net.Dial("udp", udpAddr.String())
		if err != nil {
			return
		}
		defer c.Close()

		buf := make([]byte, 65536)
		for try := 0; try < 4 && !p.seen; try++ {
			if _, err = c.Write(p.wire); err != nil {
				return
			}

			_ = c.SetReadDeadline(time.Now().Add(time.Second))
			for {
				n, rerr := c.Read(buf)
				if rerr != nil {
					break
				}

				m := &dns.Msg{}
				if m.Unpack(buf[:n]) != nil {
					p.alien = fmt.Sprintf("undecodable datagram %x", buf[:n])

					return
				}

				if m.Id != p.id {
					p.alien = fmt.Sprintf("response with ID %d: %s", m.Id, vc06Got(m))

					return
				}

				p.got, p.seen = vc06Got(m), true

				break
			}
		}

		return
	}

	c, err := net.Dial("tcp", tcpAddr.String())
	if err != nil {
		return
	}
	defer c.Close()

	out := append(binary.BigEndian.AppendUint16(nil, uint16(len(p.wire))), p.wire...)
	if cut := 2 + p.split; p.split > 0 && cut < len(out) {
		if _, err = c.Write(out[:cut]); err != nil {
			return
		}

		time.Sleep(p.pause)
		out = out[cut:]
	}

	if _, err = c.Write(out); err != nil {
		p.closed = true

		return
	}

	_ = c.SetReadDeadline(time.Now().Add(5 * time.Second))
	var l uint16
	if err = binary.Read(c, binary.BigEndian, &l); err != nil {
		p.closed = true

		return
	}

	b := make([]byte, l)
	if _, err = io.ReadFull(c, b); err != nil {
		p.closed = true

		return
	}

	m := &dns.Msg{}
	if m.Unpack(b) != nil {
		p.alien = fmt.Sprintf("undecodable response %x", b)

		return
	}

	if m.Id != p.id {
		p.alien = fmt.Sprintf("response with ID %d: %s", m.Id, vc06Got(m))

		return
	}

	p.got, p.seen = vc06Got(m), true
}

// TestVerifC06Pools: the buffers of the receive pools after error paths.  A case
// first disturbs a long-lived server with messages that end in an error path
// of the TCP reader (bodies cut short by a disconnect; more pipelined queries
// than the pipeline limit admits, the extra ones given up at the request
// time-out) and then lets several clients ask valid queries at the same time,
// over UDP and over TCP, some TCP frames arriving in two segments with another
// client's query in between.  Every answer must describe the asking query's own
// bytes; an answer with an ID the client never sent is a violation as well.
// An unanswered query is never a verdict.
func TestVerifC06Pools(t *testing.T) {
	st := vstat.New("C06", "dnsserver.pools-after-error-paths",
		"rapid (disturbances: 0-32 TCP messages whose body is cut short by a disconnect, 0-12 connections with more pipelined slow queries than the pipeline limit; then 2-8 concurrent clients with valid queries over UDP and TCP, TCP frames in one or two segments) against one long-lived real ServerDNS with pipeline limiting and a request time-out; oracle = digest of the query's own bytes, no response with an ID the client never sent; non-trivial = a disturbance precedes concurrent probes; distinct by (disturbances, probe shapes)",
		"aborted-bodies", "pipeline-overflow", "udp-probe-longer-than-overflow-query", "tcp-split-probe-with-concurrent-tcp-probe", "no-disturbance", "half-closed-cut-query")
	st.Finish(t)

	var srv *ServerDNS
	var startErr error
	for i := 0; i < 30; i++ {
		srv = NewServerDNS(ConfigDNS{
			ConfigBase:         ConfigBase{Name: "verif-c06-pools", Addr: "127.0.0.1:0", Handler: vc06EchoHandler(), RequestContext: NewTimeoutContextConstructor(vc06PoolReqTimeout)},
			MaxPipelineEnabled: true,
			MaxPipelineCount:   vc06PoolPipeline,
		})
		if startErr = srv.Start(context.Background()); startErr == nil {
			break
		}
	}

	if startErr != nil {
		fmt.Println("VERIF-INCONCLUSIVE: cannot start loopback server:", startErr)
		t.FailNow()
	}
	defer func() { _ = srv.Shutdown(context.Background()) }()

	udpAddr, tcpAddr := srv.LocalUDPAddr(), srv.LocalTCPAddr()
	rapid.Check(t, func(t *rapid.T) {
		var classes []string
		desc := &strings.Builder{}

		// Disturbance 1: bodies cut short.
		nAbort := rapid.SampledFrom([]int{0, 0, 1, 4, 12, 24, 32}).Draw(t, "abortedBodies")
		for i := 0; i < nAbort; i++ {
			announce := rapid.IntRange(2, 600).Draw(t, "announce")
			sent := rapid.IntRange(0, announce-1).Draw(t, "sent")
			c, err := net.Dial("tcp", tcpAddr.String())
			if err != nil {
				fmt.Println("VERIF-INCONCLUSIVE: cannot connect:", err)
				t.FailNow()
			}

			_, _ = c.Write(append(binary.BigEndian.AppendUint16(nil, uint16(announce)), make([]byte, sent)...))
			_ = c.Close()
		}

		if nAbort > 0 {
			classes = append(classes, "aborted-bodies")
			fmt.Fprintf(desc, "abort=%d ", nAbort)
		}

		// Disturbance 1b: a valid query cut inside its question, the frame
		// announcing the whole length, and the client then only closes its
		// sending side and keeps reading.  The server cannot have the rest of
		// the message: whatever it answers must be derived from the octets that
		// were sent, not from what an earlier message left in the buffer.
		nHalf := rapid.SampledFrom([]int{0, 0, 1, 2, 4}).Draw(t, "halfClosedCutQueries")
		for i := 0; i < nHalf; i++ {
			full := vc06ProbeMsg(uint16(rapid.IntRange(100, 999).Draw(t, "cutID")), rapid.IntRange(4, 40).Draw(t, "cutNameLen"), rapid.Bool().Draw(t, "cutEdns"), false, 0)
			cut := rapid.IntRange(13, len(full)-1).Draw(t, "cutAt")
			c, err := net.Dial("tcp", tcpAddr.String())
			if err != nil {
				fmt.Println("VERIF-INCONCLUSIVE: cannot connect:", err)
				t.FailNow()
			}

			_, _ = c.Write(append(binary.BigEndian.AppendUint16(nil, uint16(len(full))), full[:cut]...))
			_ = c.(*net.TCPConn).CloseWrite()
			_ = c.SetReadDeadline(time.Now().Add(2 * time.Second))
			var l uint16
			if binary.Read(c, binary.BigEndian, &l) == nil {
				b := make([]byte, l)
				if _, rerr := io.ReadFull(c, b); rerr == nil {
					m := &dns.Msg{}
					if m.Unpack(b) == nil {
						if got, want := vc06Got(m), vc06Expect(full[:cut]); got != want {
							_ = c.Close()
							st.Case(fmt.Sprintf("half-close cut=%d of %d", cut, len(full)), append(classes, "half-closed-cut-query")...)
							t.Fatalf("a frame announcing %d octets carried only %x and the client half-closed: the server answered %q, the octets sent imply %q (the rest came from an earlier message)",
								len(full), full[:cut], got, want)
						}
					}
				}
			}

			_ = c.Close()
		}

		if nHalf > 0 {
			classes = append(classes, "half-closed-cut-query")
			fmt.Fprintf(desc, "halfclose=%d ", nHalf)
		}

		// Disturbance 2: over-full pipelines.  The extra queries wait for a
		// slot until the request time-out; all connections are opened first and
		// awaited together.
		nOver := rapid.SampledFrom([]int{0, 0, 1, 3, 8, 12}).Draw(t, "overflowConns")
		lateLens := []int{}
		var overConns []net.Conn
		for i := 0; i < nOver; i++ {
			c, err := net.Dial("tcp", tcpAddr.String())
			if err != nil {
				fmt.Println("VERIF-INCONCLUSIVE: cannot connect:", err)
				t.FailNow()
			}

			overConns = append(overConns, c)
			var out []byte
			for j, n := 0, vc06PoolPipeline+rapid.IntRange(1, 3).Draw(t, "extra"); j < n; j++ {
				// At least 9 x's: the query is then no shorter than a probe's
				// header and question.
				ln := rapid.IntRange(9, 40).Draw(t, "lateLen")
				lateLens = append(lateLens, ln)
				w := vc06Late(uint16(1000+j), ln)
				out = append(binary.BigEndian.AppendUint16(out, uint16(len(w))), w...)
			}

			_, _ = c.Write(out)
		}

		if nOver > 0 {
			classes = append(classes, "pipeline-overflow")
			fmt.Fprintf(desc, "overflow=%d ", nOver)
			// The server gives up on the extra messages at the request time-out
			// and closes the connection after the running handlers have ended.
			end := time.Now().Add(4 * vc06PoolReqTimeout)
			for _, c := range overConns {
				_ = c.SetReadDeadline(end)
				_, _ = io.Copy(io.Discard, c)
				_ = c.Close()
			}
		} else {
			classes = append(classes, "no-disturbance")
		}

		// Judged phase: concurrent probes.
		nProbe := rapid.IntRange(2, 8).Draw(t, "probes")
		probes := make([]*vc06Probe, nProbe)
		used := map[uint16]bool{}
		splitTCP, wholeTCP := false, false
		for i := range probes {
			id := uint16(rapid.IntRange(2000, 65535).Draw(t, "probeID"))
			for used[id] {
				id++
			}

			used[id] = true
			p := &vc06Probe{id: id, tcp: rapid.Bool().Draw(t, "probeTCP")}
			nameLen := rapid.IntRange(1, 40).Draw(t, "probeNameLen")
			if len(lateLens) > 0 && rapid.IntRange(0, 3).Draw(t, "alignName") > 0 {
				nameLen = rapid.SampledFrom(lateLens).Draw(t, "alignTo")
			}

			pad := rapid.SampledFrom([]int{0, 0, 20, 100, 300}).Draw(t, "probePad")
			if p.tcp && rapid.IntRange(0, 3).Draw(t, "probeBig") == 0 {
				pad = rapid.SampledFrom([]int{600, 2000, 9000}).Draw(t, "probeBigPad")
			}

			p.wire = vc06ProbeMsg(id, nameLen, rapid.Bool().Draw(t, "probeEdns"), rapid.Bool().Draw(t, "probeDO"), pad)
			p.want = vc06Expect(p.wire)
			if p.tcp {
				if rapid.Bool().Draw(t, "probeSplit") {
					p.split = rapid.IntRange(1, len(p.wire)-1).Draw(t, "probeSplitAt")
					p.pause = time.Duration(rapid.IntRange(2, 12).Draw(t, "probePauseMs")) * time.Millisecond
					splitTCP = true
				} else {
					p.delay = time.Duration(rapid.IntRange(0, 6).Draw(t, "probeDelayMs")) * time.Millisecond
					wholeTCP = true
				}
			} else if len(lateLens) > 0 {
				classes = append(classes, "udp-probe-longer-than-overflow-query")
			}

			probes[i] = p
			fmt.Fprintf(desc, "p{tcp=%t len=%d split=%d} ", p.tcp, len(p.wire), p.split)
		}

		if splitTCP && wholeTCP {
			classes = append(classes, "tcp-split-probe-with-concurrent-tcp-probe")
		}

		wg := &sync.WaitGroup{}
		for _, p := range probes {
			wg.Add(1)
			go func() {
				defer wg.Done()
				vc06RunProbe(p, udpAddr, tcpAddr)
			}()
		}
		wg.Wait()

		nt := ""
		if nAbort > 0 || nOver > 0 || nHalf > 0 {
			nt = desc.String()
		}

		// Wrong answers first: they are verdicts.  Unanswered probes are
		// retried alone and are never a verdict.
		for _, p := range probes {
			switch {
			case p.alien != "":
				st.Case(nt, classes...)
				t.Fatalf("after %s: a client whose only query is %x (ID %d, tcp=%t) received a %s", desc, p.wire, p.id, p.tcp, p.alien)
			case p.seen && p.got != p.want:
				st.Case(nt, classes...)
				t.Fatalf("after %s: tcp=%t query %x:\nserver answered: %q\nown bytes imply: %q", desc, p.tcp, p.wire, p.got, p.want)
			}
		}

		for _, p := range probes {
			if p.seen {
				continue
			}

			classes = append(classes, "probe-unanswered-retried")
			for try := 0; try < 3 && !p.seen && p.alien == ""; try++ {
				p.closed, p.delay = false, 0
				vc06RunProbe(p, udpAddr, tcpAddr)
			}

			switch {
			case p.alien != "":
				st.Case(nt, classes...)
				t.Fatalf("after %s: a client whose only query is %x (ID %d, tcp=%t) received a %s", desc, p.wire, p.id, p.tcp, p.alien)
			case p.seen && p.got != p.want:
				st.Case(nt, classes...)
				t.Fatalf("after %s (retried alone): tcp=%t query %x:\nserver answered: %q\nown bytes imply: %q", desc, p.tcp, p.wire, p.got, p.want)
			case !p.seen:
				fmt.Printf("VERIF-INCONCLUSIVE: a valid query got no answer in four attempts (tcp=%t, %x)\n", p.tcp, p.wire)
				t.FailNow()
			}
		}

		st.Case(nt, classes...)
	})
}
