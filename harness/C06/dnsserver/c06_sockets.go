//go:build verif

package dnsserver

// C06, plain-DNS server side over real loopback sockets: the UDP and TCP read
// paths use pooled receive buffers.  A handler echoes a description of the
// request it was given; the reference is the decode of the query's own bytes
// plus the documented accept rules.

import (
	"context"
	"encoding/binary"
	"fmt"
	"strings"
	"testing"
	"time"

	"github.com/miekg/dns"
	"pgregory.net/rapid"
	"verif.local/harness/vsock"
	"verif.local/harness/vstat"
	"verif.local/harness/vwire"
)

// vc06EchoHandler answers with a TXT record that describes the request exactly
// as the server decoded it.
func vc06EchoHandler() Handler {
	return HandlerFunc(func(ctx context.Context, rw ResponseWriter, req *dns.Msg) error {
		resp := (&dns.Msg{}).SetReply(req)
		resp.Answer = []dns.RR{&dns.TXT{
			Hdr: dns.RR_Header{Name: req.Question[0].Name, Rrtype: dns.TypeTXT, Class: dns.ClassINET, Ttl: 1},
			Txt: []string{vc06Digest(vwire.Describe(req, nil))},
		}}

		if strings.HasPrefix(req.Question[0].Name, "late-") {
			// A handler that runs out of the request time-out (slow upstream): it
			// gives up with the context's error, and the server's own SERVFAIL is
			// then written with a deadline in the past and fails, which takes the
			// writer's error path.
			<-ctx.Done()

			return ctx.Err()
		}

		return rw.WriteMsg(ctx, req, resp)
	})
}

// vc06ReqTimeout is the servers' request time-out: long enough for an echo on a
// loaded machine, short enough to let a few handlers per run wait it out.
const vc06ReqTimeout = time.Second

// vc06Late is a short valid query whose response write fails in the handler.
func vc06Late(id uint16, n int) []byte {
	m := (&dns.Msg{}).SetQuestion("late-"+strings.Repeat("x", n)+".test.", dns.TypeA)
	m.Id = id
	b, _ := m.Pack()

	return b
}

var (
	vc06Digest   = vsock.Digest
	vc06Expect   = vsock.Expect
	vc06Got      = vsock.Got
	vc06Sentinel = vsock.Sentinel
	vc06Round    = vsock.Round
)

func TestVerifC06Sockets(t *testing.T) {
	st := vstat.New("C06", "dnsserver.udp-tcp-sockets",
		"rapid (transport UDP/TCP, history of 1-3 valid marker queries, next query (on TCP in half of the cases padded to 0.5-60 KiB, beyond the initial size of the pooled buffer) valid / truncated / inflated counts / pointer beyond the end / trailing bytes / header only) against one long-lived real ServerDNS on loopback whose handler echoes the decoded request; oracle = decode of the query's own bytes + the documented accept rules; non-trivial = query inconsistent; distinct by (transport, query bytes)",
		"udp", "tcp", "tcp-split-frame", "expect-none", "expect-echo", "kind-pointer", "kind-counts", "kind-truncated", "kind-header-only", "tcp-valid-query-over-512", "tcp-query-over-512", "after-failed-response-write")
	st.Finish(t)

	// The server binds UDP to a free port and then TCP to the same number, which
	// may be taken on a busy machine: retry.
	var srv *ServerDNS
	var startErr error
	for i := 0; i < 30; i++ {
		srv = NewServerDNS(ConfigDNS{ConfigBase: ConfigBase{Name: "verif-c06", Addr: "127.0.0.1:0", Handler: vc06EchoHandler(), RequestContext: NewTimeoutContextConstructor(vc06ReqTimeout)}})
		if startErr = srv.Start(context.Background()); startErr == nil {
			break
		}
	}

	if startErr != nil {
		fmt.Println("VERIF-INCONCLUSIVE: cannot start loopback server:", startErr)
		t.FailNow()
	}
	defer func() { _ = srv.Shutdown(context.Background()) }()

	udpAddr, tcpAddr := srv.LocalUDPAddr(), srv.LocalTCPAddr()
	rapid.Check(t, func(t *rapid.T) {
		tcp := rapid.Bool().Draw(t, "tcp")
		var wires [][]byte
		expectAll := map[uint16]bool{}
		used := map[uint16]bool{}
		lateSent := false
		for i, n := 0, rapid.IntRange(1, 3).Draw(t, "histLen"); i < n; i++ {
			w, m := vwire.HistoryMsg(t, i)
			if m.Response || used[m.Id] {
				continue
			}

			// History queries only warm the receive buffers; whether they are
			// answered is not this check's subject (over UDP the server reads at
			// most 512 octets, so the long ones are dropped).
			used[m.Id] = true
			wires = append(wires, w)
		}

		// Sometimes the history ends with short queries whose response write
		// fails (expired handler context).
		for i, n := 0, rapid.SampledFrom([]int{0, 0, 0, 0, 0, 0, 0, 0, 0, 0, 0, 1, 3}).Draw(t, "lateQueries"); i < n; i++ {
			id := uint16(rapid.IntRange(0, 65535).Draw(t, "lateID"))
			if used[id] {
				continue
			}

			used[id] = true
			wires = append(wires, vc06Late(id, rapid.IntRange(0, 12).Draw(t, "lateLen")))
			lateSent = true
		}

		base := vwire.BaseMsg(t)
		for used[base.Id] {
			base.Id++
		}

		// Over TCP the pooled receive buffer starts small and grows: half of
		// the TCP cases make the query under test larger than a buffer that
		// has only carried short queries (sizes around the initial 512 octets
		// and well beyond).
		big := 0
		if tcp && rapid.Bool().Draw(t, "big") {
			big = rapid.SampledFrom([]int{430, 470, 480, 500, 700, 1500, 5000, 20000, 60000}).Draw(t, "bigPad")
			if base.IsEdns0() == nil {
				base.SetEdns0(1232, false)
			}

			opt := base.IsEdns0()
			opt.Option = append(opt.Option, &dns.EDNS0_PADDING{Padding: make([]byte, big)})
		}

		if !tcp {
			// UDP queries of different lengths up to the 512 octets the server reads.
			if pad := rapid.SampledFrom([]int{0, 0, 40, 150, 300, 400}).Draw(t, "udpPad"); pad > 0 {
				if base.IsEdns0() == nil {
					base.SetEdns0(1232, false)
				}

				opt := base.IsEdns0()
				opt.Option = append(opt.Option, &dns.EDNS0_PADDING{Padding: make([]byte, pad)})
			}
		}

		next := vwire.DrawNext(t, base)
		if !tcp && len(next.Wire) > 512 {
			next.Wire = next.Wire[:512]
			next.Kind, next.Inconsistent = "truncated", true
		}
		nextID := binary.BigEndian.Uint16(next.Wire)
		used[nextID] = true
		sentinel := uint16(1)
		for used[sentinel] {
			sentinel++
		}

		want := vc06Expect(next.Wire)
		if want != "" {
			expectAll[nextID] = true
		}

		sentinel2 := sentinel + 1
		for used[sentinel2] {
			sentinel2++
		}

		// Over TCP a frame may arrive in several segments: half of the cases
		// cut the frame of the query under test at a drawn offset (biased to
		// the header boundary).
		split := 0
		if tcp && len(next.Wire) > 1 && rapid.Bool().Draw(t, "splitFrame") {
			split = rapid.OneOf(rapid.SampledFrom([]int{1, 11, 12, 13}), rapid.IntRange(1, len(next.Wire)-1)).Draw(t, "splitAt")
			split = min(split, len(next.Wire)-1)
		}

		var resps map[uint16]*dns.Msg
		var err error
		settled := false
		if tcp {
			// History on its own connection first (a bad query may close the
			// connection), then the query under test.
			if _, _, err = vc06Round(true, tcpAddr, wires, sentinel, sentinel2, nil, 0); err == nil {
				resps, settled, err = vc06Round(true, tcpAddr, [][]byte{next.Wire}, sentinel, sentinel2, expectAll, split)
			}
		} else {
			if lateSent {
				// The server sets write deadlines on its one shared UDP socket, so
				// a write with an expired context can make a concurrent write of
				// another response fail.  That is not this property's subject:
				// let the history, with its failing writes, finish first.
				if _, _, err = vc06Round(false, udpAddr, wires, sentinel, sentinel2, nil, 0); err == nil {
					time.Sleep(vc06ReqTimeout + 50*time.Millisecond)
					resps, settled, err = vc06Round(false, udpAddr, [][]byte{next.Wire}, sentinel, sentinel2, expectAll, 0)
				}
			} else {
				resps, settled, err = vc06Round(false, udpAddr, append(wires, next.Wire), sentinel, sentinel2, expectAll, 0)
			}
		}

		classes := []string{"kind-" + next.Kind}
		if lateSent {
			classes = append(classes, "after-failed-response-write")
		}

		if tcp {
			classes = append(classes, "tcp")
			if split > 0 {
				classes = append(classes, "tcp-split-frame")
			}

			switch l := len(next.Wire); {
			case l > 512 && next.Kind == "valid":
				classes = append(classes, "tcp-valid-query-over-512")
			case l > 512:
				classes = append(classes, "tcp-query-over-512")
			case l >= 500:
				classes = append(classes, "tcp-query-500-to-512")
			}
		} else {
			classes = append(classes, "udp")
		}

		switch {
		case want == "":
			classes = append(classes, "expect-none")
		case strings.HasPrefix(want, "echo:"):
			classes = append(classes, "expect-echo")
		default:
			classes = append(classes, "expect-rcode")
		}

		nt := ""
		if next.Inconsistent {
			nt = fmt.Sprint(tcp) + string(next.Wire)
		}

		st.Case(nt, classes...)

		got := vc06Got(resps[nextID])
		if err != nil || !settled {
			fmt.Println("VERIF-INCONCLUSIVE: socket round did not settle:", err)
			t.FailNow()
		}

		if strings.Contains(got, vwire.Marker) {
			t.Fatalf("tcp=%t: response to %s query %x contains data of an earlier query:\n%s", tcp, next.Kind, next.Wire, got)
		}

		if got != want {
			t.Fatalf("tcp=%t: %s query %x:\nserver answered: %q\nown bytes imply: %q", tcp, next.Kind, next.Wire, got, want)
		}
	})
}
