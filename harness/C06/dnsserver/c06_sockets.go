//go:build verif

package dnsserver

// C06, plain-DNS server side over real loopback sockets: the UDP and TCP read
// paths use pooled receive buffers.  A handler echoes a description of the
// request it was given; the reference is the decode of the query's own bytes
// plus the documented accept rules.

import (
	"context"
	"crypto/sha256"
	"encoding/binary"
	"encoding/hex"
	"fmt"
	"io"
	"net"
	"strings"
	"testing"
	"time"

	"github.com/miekg/dns"
	"pgregory.net/rapid"
	"verif.local/harness/vstat"
	"verif.local/harness/vwire"
)

// vc06Digest keeps the echoed description short enough for a 512-octet UDP
// response; any difference in the decoded request changes it.
func vc06Digest(desc string) string {
	sum := sha256.Sum256([]byte(desc))

	return hex.EncodeToString(sum[:])
}

// vc06EchoHandler answers with a TXT record that describes the request exactly
// as the server decoded it.
func vc06EchoHandler() Handler {
	return HandlerFunc(func(ctx context.Context, rw ResponseWriter, req *dns.Msg) error {
		resp := (&dns.Msg{}).SetReply(req)
		resp.Answer = []dns.RR{&dns.TXT{
			Hdr: dns.RR_Header{Name: req.Question[0].Name, Rrtype: dns.TypeTXT, Class: dns.ClassINET, Ttl: 1},
			Txt: []string{vc06Digest(vwire.Describe(req, nil))},
		}}

		return rw.WriteMsg(ctx, req, resp)
	})
}

// vc06Expect classifies a query by its own bytes: "" = no response expected,
// otherwise "rcode=<n>" or "echo:<description>".
func vc06Expect(wire []byte) string {
	m, err := vwire.RefDecode(wire)
	switch {
	case err != nil:
		return ""
	case m.Response:
		return ""
	case m.Opcode != dns.OpcodeQuery && m.Opcode != dns.OpcodeNotify:
		return fmt.Sprintf("rcode=%d", dns.RcodeNotImplemented)
	case len(m.Question) != 1, len(m.Answer) > 1, len(m.Ns) > 1:
		return fmt.Sprintf("rcode=%d", dns.RcodeFormatError)
	default:
		return "echo:" + vc06Digest(vwire.Describe(m, nil))
	}
}

func vc06Got(resp *dns.Msg) string {
	if resp == nil {
		return ""
	}

	for _, rr := range resp.Answer {
		if txt, ok := rr.(*dns.TXT); ok {
			return "echo:" + strings.Join(txt.Txt, "")
		}
	}

	return fmt.Sprintf("rcode=%d", resp.Rcode)
}

func vc06Sentinel(id uint16) []byte {
	m := (&dns.Msg{}).SetQuestion("sentinel.verif.test.", dns.TypeA)
	m.Id = id
	b, _ := m.Pack()

	return b
}

// vc06Round sends wires followed by a sentinel on one socket or connection and
// collects the responses by ID.  If a response listed in expect has not arrived
// when the sentinel's has, a second sentinel is sent and awaited: two complete
// round trips after the query was received are taken as confirmation that the
// server dropped it (settled = true).  A missing sentinel response is a
// time-out (err != nil), never a verdict.
func vc06Round(tcp bool, addr net.Addr, wires [][]byte, sentinelID, sentinel2ID uint16, expect map[uint16]bool, split int) (resps map[uint16]*dns.Msg, settled bool, err error) {
	network := "udp"
	if tcp {
		network = "tcp"
	}

	c, err := net.Dial(network, addr.String())
	if err != nil {
		return nil, false, err
	}
	defer c.Close()

	send := func(w []byte) error {
		if tcp {
			w = append(binary.BigEndian.AppendUint16(nil, uint16(len(w))), w...)
		}

		_, werr := c.Write(w)

		return werr
	}

	var out []byte
	for _, w := range append(append([][]byte{}, wires...), vc06Sentinel(sentinelID)) {
		if tcp {
			out = binary.BigEndian.AppendUint16(out, uint16(len(w)))
			out = append(out, w...)
		} else if err = send(w); err != nil {
			return nil, false, err
		}
	}

	if tcp {
		// split > 0: deliver the stream in two segments, cut split octets into
		// the first frame's body, so that the server sees a partial frame first.
		if cut := 2 + split; split > 0 && cut < len(out) {
			if _, err = c.Write(out[:cut]); err != nil {
				return nil, false, err
			}

			time.Sleep(3 * time.Millisecond)
			out = out[cut:]
		}

		if _, err = c.Write(out); err != nil {
			return nil, false, err
		}
	}

	recv := func() (m *dns.Msg, rerr error) {
		var b []byte
		if tcp {
			var l uint16
			if rerr = binary.Read(c, binary.BigEndian, &l); rerr != nil {
				return nil, rerr
			}

			b = make([]byte, l)
			if _, rerr = io.ReadFull(c, b); rerr != nil {
				return nil, rerr
			}
		} else {
			b = make([]byte, 65536)
			var n int
			if n, rerr = c.Read(b); rerr != nil {
				return nil, rerr
			}

			b = b[:n]
		}

		m = &dns.Msg{}
		if uerr := m.Unpack(b); uerr != nil {
			return nil, fmt.Errorf("server sent an undecodable response: %w", uerr)
		}

		return m, nil
	}

	missing := func() bool {
		for id := range expect {
			if _, ok := resps[id]; !ok {
				return true
			}
		}

		return false
	}

	resps = map[uint16]*dns.Msg{}
	seen1, seen2, sent2 := false, false, false
	for {
		switch {
		case !seen1 || (sent2 && !seen2):
			_ = c.SetReadDeadline(time.Now().Add(8 * time.Second))
		default:
			// Both what is expected and the sentinel have arrived (or the
			// second sentinel has): a short grace for a response that must
			// not exist.
			_ = c.SetReadDeadline(time.Now().Add(20 * time.Millisecond))
		}

		m, rerr := recv()
		if rerr != nil {
			if tcp && !seen1 && (rerr == io.EOF || strings.Contains(rerr.Error(), "reset") || rerr == io.ErrUnexpectedEOF) {
				// The server closed the connection on a bad query; that is a
				// settled outcome for everything on this connection.
				return resps, true, nil
			}

			if !seen1 || (sent2 && !seen2) {
				return resps, false, fmt.Errorf("timed out waiting for a sentinel response: %w", rerr)
			}

			return resps, true, nil
		}

		switch m.Id {
		case sentinelID:
			seen1 = true
			if missing() && !sent2 {
				sent2 = true
				if err = send(vc06Sentinel(sentinel2ID)); err != nil {
					return resps, false, err
				}
			}
		case sentinel2ID:
			seen2 = true
		default:
			resps[m.Id] = m
		}
	}
}

func TestVerifC06Sockets(t *testing.T) {
	st := vstat.New("C06", "dnsserver.udp-tcp-sockets",
		"rapid (transport UDP/TCP, history of 1-3 valid marker queries, next query valid / truncated / inflated counts / pointer beyond the end / trailing bytes / header only) against one long-lived real ServerDNS on loopback whose handler echoes the decoded request; oracle = decode of the query's own bytes + the documented accept rules; non-trivial = query inconsistent; distinct by (transport, query bytes)",
		"udp", "tcp", "tcp-split-frame", "expect-none", "expect-echo", "kind-pointer", "kind-counts", "kind-truncated", "kind-header-only")
	st.Finish(t)

	// The server binds UDP to a free port and then TCP to the same number, which
	// may be taken on a busy machine: retry.
	var srv *ServerDNS
	var startErr error
	for i := 0; i < 30; i++ {
		srv = NewServerDNS(ConfigDNS{ConfigBase: ConfigBase{Name: "verif-c06", Addr: "127.0.0.1:0", Handler: vc06EchoHandler()}})
		if startErr = srv.Start(context.Background()); startErr == nil {
			break
		}
	}

	if startErr != nil {
		fmt.Println("VERIF-INCONCLUSIVE: cannot start loopback server:", startErr)
		t.FailNow()
	}
	defer func() { _ = srv.Shutdown(context.Background()) }()

	udpAddr, tcpAddr := srv.LocalUDPAddr(), srv.LocalTCPAddr()
	rapid.Check(t, func(t *rapid.T) {
		tcp := rapid.Bool().Draw(t, "tcp")
		var wires [][]byte
		expectAll := map[uint16]bool{}
		used := map[uint16]bool{}
		for i, n := 0, rapid.IntRange(1, 3).Draw(t, "histLen"); i < n; i++ {
			w, m := vwire.HistoryMsg(t, i)
			if m.Response || used[m.Id] {
				continue
			}

			// History queries only warm the receive buffers; whether they are
			// answered is not this check's subject (over UDP the server reads at
			// most 512 octets, so the long ones are dropped).
			used[m.Id] = true
			wires = append(wires, w)
		}

		base := vwire.BaseMsg(t)
		for used[base.Id] {
			base.Id++
		}

		next := vwire.DrawNext(t, base)
		nextID := binary.BigEndian.Uint16(next.Wire)
		used[nextID] = true
		sentinel := uint16(1)
		for used[sentinel] {
			sentinel++
		}

		want := vc06Expect(next.Wire)
		if want != "" {
			expectAll[nextID] = true
		}

		sentinel2 := sentinel + 1
		for used[sentinel2] {
			sentinel2++
		}

		// Over TCP a frame may arrive in several segments: half of the cases
		// cut the frame of the query under test at a drawn offset (biased to
		// the header boundary).
		split := 0
		if tcp && len(next.Wire) > 1 && rapid.Bool().Draw(t, "splitFrame") {
			split = rapid.OneOf(rapid.SampledFrom([]int{1, 11, 12, 13}), rapid.IntRange(1, len(next.Wire)-1)).Draw(t, "splitAt")
			split = min(split, len(next.Wire)-1)
		}

		var resps map[uint16]*dns.Msg
		var err error
		settled := false
		if tcp {
			// History on its own connection first (a bad query may close the
			// connection), then the query under test.
			if _, _, err = vc06Round(true, tcpAddr, wires, sentinel, sentinel2, nil, 0); err == nil {
				resps, settled, err = vc06Round(true, tcpAddr, [][]byte{next.Wire}, sentinel, sentinel2, expectAll, split)
			}
		} else {
			resps, settled, err = vc06Round(false, udpAddr, append(wires, next.Wire), sentinel, sentinel2, expectAll, 0)
		}

		classes := []string{"kind-" + next.Kind}
		if tcp {
			classes = append(classes, "tcp")
			if split > 0 {
				classes = append(classes, "tcp-split-frame")
			}
		} else {
			classes = append(classes, "udp")
		}

		switch {
		case want == "":
			classes = append(classes, "expect-none")
		case strings.HasPrefix(want, "echo:"):
			classes = append(classes, "expect-echo")
		default:
			classes = append(classes, "expect-rcode")
		}

		nt := ""
		if next.Inconsistent {
			nt = fmt.Sprint(tcp) + string(next.Wire)
		}

		st.Case(nt, classes...)

		got := vc06Got(resps[nextID])
		if err != nil || !settled {
			fmt.Println("VERIF-INCONCLUSIVE: socket round did not settle:", err)
			t.FailNow()
		}

		if strings.Contains(got, vwire.Marker) {
			t.Fatalf("tcp=%t: response to %s query %x contains data of an earlier query:\n%s", tcp, next.Kind, next.Wire, got)
		}

		if got != want {
			t.Fatalf("tcp=%t: %s query %x:\nserver answered: %q\nown bytes imply: %q", tcp, next.Kind, next.Wire, got, want)
		}
	})
}
