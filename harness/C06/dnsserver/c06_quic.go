//go:build verif

package dnsserver

// C06: a message is interpreted from its own bytes only, whatever was
// processed before.  This file drives ServerQUIC.readQUICMsg with a fake
// stream; the pooled 64 KiB receive buffer is warmed with marker messages.

import (
	"context"
	"encoding/binary"
	"io"
	"strings"
	"testing"
	"time"

	"github.com/miekg/dns"
	"github.com/quic-go/quic-go"
	"pgregory.net/rapid"
	"verif.local/harness/vstat"
	"verif.local/harness/vwire"
)

// vc06Stream is a quic.Stream that serves fixed bytes in chunks and then FIN.
type vc06Stream struct {
	quic.Stream

	data  []byte
	chunk int
}

func (s *vc06Stream) Read(p []byte) (n int, err error) {
	if len(s.data) == 0 {
		return 0, io.EOF
	}

	n = min(len(p), len(s.data), s.chunk)
	copy(p, s.data[:n])
	s.data = s.data[n:]

	return n, nil
}

func (s *vc06Stream) SetReadDeadline(time.Time) error { return nil }

func vc06Prefixed(wire []byte, prefix int) []byte {
	b := binary.BigEndian.AppendUint16(nil, uint16(prefix))

	return append(b, wire...)
}

func vc06NewQUIC() *ServerQUIC {
	return NewServerQUIC(ConfigQUIC{ConfigBase: ConfigBase{
		Name:    "verif-c06",
		Addr:    "127.0.0.1:0",
		Handler: HandlerFunc(func(context.Context, ResponseWriter, *dns.Msg) error { return nil }),
	}})
}

func vc06ReadQUIC(s *ServerQUIC, data []byte, chunk int) (m *dns.Msg, err error) {
	return s.readQUICMsg(context.Background(), &vc06Stream{data: data, chunk: chunk})
}

// vc06QUICExpect is the reference: the stream content is a 2-octet length
// followed by exactly that many octets, which decode on their own.
func vc06QUICExpect(payload []byte, prefix int) string {
	if len(payload)+2 < DNSHeaderSize || prefix != len(payload) {
		return "error"
	}

	return vwire.Describe(vwire.RefDecode(payload))
}

func vc06CheckQUIC(t interface{ Fatalf(string, ...any) }, st *vstat.Stats, warm *ServerQUIC, hist [][]byte, next vwire.Next, prefix, chunk int, sample bool) {
	got := vwire.Describe(vc06ReadQUIC(warm, vc06Prefixed(next.Wire, prefix), chunk))
	fresh := vwire.Describe(vc06ReadQUIC(vc06NewQUIC(), vc06Prefixed(next.Wire, prefix), chunk))
	want := vc06QUICExpect(next.Wire, prefix)

	longer := false
	for _, h := range hist {
		longer = longer || len(h) > len(next.Wire)
	}

	nt := ""
	classes := []string{"kind-" + next.Kind}
	if next.Inconsistent && longer {
		nt = string(next.Wire)
		classes = append(classes, "inconsistent-after-longer")
	}

	if prefix != len(next.Wire) {
		classes = append(classes, "bad-prefix")
	}

	if want == "error" {
		classes = append(classes, "ref-rejects")
	} else {
		classes = append(classes, "ref-accepts")
	}

	st.Case(nt, classes...)
	if sample && st.WantSample() && nt != "" {
		st.Sample(map[string]any{"history_lens": vc06Lens(hist), "next_kind": next.Kind, "next_hex": vc06Hex(next.Wire), "prefix": prefix, "got": got})
	}

	if strings.Contains(got, vwire.Marker) {
		t.Fatalf("DoQ: message decoded from %d own bytes (%s) contains data of an earlier message:\n%s", len(next.Wire), next.Kind, got)
	}

	if got != want {
		t.Fatalf("DoQ: history %v, next %s %x (prefix %d):\nwarm server decoded: %s\nown bytes decode to: %s\nfresh server:        %s", vc06Lens(hist), next.Kind, next.Wire, prefix, got, want, fresh)
	}

	if fresh != want {
		t.Fatalf("DoQ fresh server: next %s %x (prefix %d):\nfresh server decoded: %s\nown bytes decode to:  %s", next.Kind, next.Wire, prefix, fresh, want)
	}
}

func vc06Lens(hist [][]byte) (l []int) {
	for _, h := range hist {
		l = append(l, len(h))
	}

	return l
}

func vc06Hex(b []byte) string {
	const digits = "0123456789abcdef"
	var sb strings.Builder
	for _, c := range b {
		sb.WriteByte(digits[c>>4])
		sb.WriteByte(digits[c&15])
	}

	return sb.String()
}

func TestVerifC06QUIC(t *testing.T) {
	st := vstat.New("C06", "dnsserver.quic-read",
		"rapid (history of 1-5 valid marker messages, next message: valid / truncated at a drawn offset / inflated counts / pointer beyond the end / trailing bytes / header only; correct or wrong length prefix; read chunk size) through ServerQUIC.readQUICMsg with a fake stream; oracle = decoding next's own bytes; non-trivial = next is inconsistent and the history has a longer message; distinct by next's bytes",
		"inconsistent-after-longer", "ref-rejects", "ref-accepts", "bad-prefix", "kind-pointer", "kind-counts", "kind-truncated")
	st.Finish(t)

	rapid.Check(t, func(t *rapid.T) {
		warm := vc06NewQUIC()
		var hist [][]byte
		for i, n := 0, rapid.IntRange(1, 5).Draw(t, "histLen"); i < n; i++ {
			w, _ := vwire.HistoryMsg(t, i)
			hist = append(hist, w)
			if _, err := vc06ReadQUIC(warm, vc06Prefixed(w, len(w)), 1<<16); err != nil {
				t.Fatalf("harness: valid history message rejected: %v", err)
			}
		}

		next := vwire.DrawNext(t, vwire.BaseMsg(t))
		prefix := len(next.Wire)
		if rapid.IntRange(0, 5).Draw(t, "badPrefix") == 0 {
			prefix = max(0, prefix+rapid.SampledFrom([]int{-1, 1, 2, 30, 300}).Draw(t, "prefixDelta"))
		}

		chunk := rapid.SampledFrom([]int{1 << 16, 1 << 16, 7, 1}).Draw(t, "chunk")
		vc06CheckQUIC(t, st, warm, hist, next, prefix, chunk, true)
	})
}

// TestVerifC06QUICCuts enumerates every cut point of a set of valid messages
// after warming the buffer with a longer one.
func TestVerifC06QUICCuts(t *testing.T) {
	st := vstat.New("C06", "dnsserver.quic-cuts",
		"bounded-exhaustive: every truncation offset >= 12 of 6 fixed valid messages, read by a server warmed with a longer marker message; oracle = decoding the truncated bytes on their own; distinct by (message, offset)",
		"inconsistent-after-longer", "ref-rejects")
	st.SetExhaustive()
	st.Finish(t)

	long := &dns.Msg{}
	long.SetQuestion(vwire.Marker+"-0-0."+strings.Repeat("a", 50)+"."+strings.Repeat("b", 50)+".secret.test.", dns.TypeTXT)
	for i := 0; i < 8; i++ {
		long.Answer = append(long.Answer, &dns.TXT{Hdr: dns.RR_Header{Name: long.Question[0].Name, Rrtype: dns.TypeTXT, Class: dns.ClassINET, Ttl: 1}, Txt: []string{vwire.Marker + strings.Repeat("z", 100)}})
	}

	longWire, err := long.Pack()
	if err != nil {
		t.Fatal(err)
	}

	var bases []*dns.Msg
	for _, name := range []string{"a.test.", "www.next.example."} {
		for _, qt := range []uint16{dns.TypeA, dns.TypeHTTPS} {
			m := (&dns.Msg{}).SetQuestion(name, qt)
			bases = append(bases, m)
		}
	}

	withAns := (&dns.Msg{}).SetQuestion("ans.next.example.", dns.TypeA)
	withAns.Answer = []dns.RR{&dns.A{Hdr: dns.RR_Header{Name: "ans.next.example.", Rrtype: dns.TypeA, Class: dns.ClassINET, Ttl: 5}, A: []byte{192, 0, 2, 1}}}
	withOpt := (&dns.Msg{}).SetQuestion("opt.next.example.", dns.TypeAAAA)
	withOpt.SetEdns0(1232, true)
	bases = append(bases, withAns, withOpt)

	for _, b := range bases {
		wire, packErr := b.Pack()
		if packErr != nil {
			t.Fatal(packErr)
		}

		for cut := 12; cut <= len(wire); cut++ {
			warm := vc06NewQUIC()
			if _, err = vc06ReadQUIC(warm, vc06Prefixed(longWire, len(longWire)), 1<<16); err != nil {
				t.Fatalf("harness: %v", err)
			}

			next := vwire.Next{Wire: wire[:cut], Kind: "truncated", Inconsistent: cut < len(wire)}
			vc06CheckQUIC(t, st, warm, [][]byte{longWire}, next, cut, 1<<16, false)
		}
	}
}
