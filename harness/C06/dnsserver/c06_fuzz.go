//go:build verif

package dnsserver

// C06, native fuzzing (thorough tier): coverage-guided mutation of the message
// under test itself, beyond the structured kinds of vwire.DrawNext.  Every
// iteration warms a fresh DoQ server with one fixed long marker message and
// then reads the fuzzed bytes; the oracle is the same as in c06_quic.go.

import (
	"strings"
	"testing"

	"github.com/miekg/dns"
	"verif.local/harness/vstat"
	"verif.local/harness/vwire"
)

func vc06LongMarker() []byte {
	long := &dns.Msg{}
	long.SetQuestion(vwire.Marker+"-0-0."+strings.Repeat("a", 50)+"."+strings.Repeat("b", 50)+".secret.test.", dns.TypeTXT)
	for i := 0; i < 12; i++ {
		long.Answer = append(long.Answer, &dns.TXT{
			Hdr: dns.RR_Header{Name: long.Question[0].Name, Rrtype: dns.TypeTXT, Class: dns.ClassINET, Ttl: 1},
			Txt: []string{vwire.Marker + strings.Repeat("z", 200)},
		})
	}

	w, err := long.Pack()
	if err != nil {
		panic(err)
	}

	return w
}

func vc06FuzzSeeds(f *testing.F) {
	for _, name := range []string{".", "a.", "www.next.example."} {
		for _, qt := range []uint16{dns.TypeA, dns.TypeHTTPS, dns.TypeANY} {
			m := (&dns.Msg{}).SetQuestion(name, qt)
			b, _ := m.Pack()
			f.Add(b, int8(0), uint8(0))
			f.Add(b[:len(b)-1], int8(0), uint8(1))
			m.SetEdns0(1232, true)
			m.Answer = []dns.RR{&dns.A{Hdr: dns.RR_Header{Name: name, Rrtype: dns.TypeA, Class: dns.ClassINET, Ttl: 5}, A: []byte{192, 0, 2, 1}}}
			b, _ = m.Pack()
			f.Add(b, int8(0), uint8(2))
			f.Add(b, int8(1), uint8(0))
			f.Add(b[:len(b)-7], int8(0), uint8(0))
		}
	}

	f.Add([]byte{0, 1, 0, 0, 0xff, 0xff, 0xff, 0xff, 0xff, 0xff, 0xff, 0xff}, int8(0), uint8(0))                                            // header only, maximal counts
	f.Add([]byte{0, 2, 1, 0, 0, 1, 0, 0, 0, 0, 0, 0, 0xc0, 12, 0, 1, 0, 1}, int8(0), uint8(0))                                              // pointer to itself
	f.Add([]byte{0, 3, 1, 0, 0, 1, 0, 0, 0, 0, 0, 0, 0xc0, 0x40, 0, 1, 0, 1}, int8(0), uint8(0))                                            // pointer beyond the end, into the earlier message
	f.Add([]byte{0, 4, 1, 0, 0, 1, 0, 1, 0, 0, 0, 0, 1, 'a', 0, 0, 1, 0, 1, 0xc0, 0x60, 0, 16, 0, 1, 0, 0, 0, 1, 0, 40}, int8(0), uint8(0)) // record with rdlength beyond the end
	f.Add([]byte{0, 5, 1, 0, 0, 2, 0, 0, 0, 0, 0, 0, 1, 'a', 0, 0, 1, 0, 1}, int8(0), uint8(0))                                             // two questions declared, one carried
}

func FuzzVerifC06QUIC(f *testing.F) {
	st := vstat.New("C06", "dnsserver.quic-fuzz",
		"go native fuzzing (coverage-guided byte mutation of the message under test, its length prefix delta and the read chunk size; seeded with valid, truncated and hostile messages: maximal counts, pointer loops, pointers and rdlengths beyond the end) through ServerQUIC.readQUICMsg on a server warmed with a 2.7 KiB marker message; oracle = decoding the message's own bytes; non-trivial = the reference rejects the bytes or they are shorter than the warm-up message; distinct by bytes")
	st.Finish(f)
	vc06FuzzSeeds(f)

	long := vc06LongMarker()
	f.Fuzz(func(t *testing.T, wire []byte, prefixDelta int8, chunkSel uint8) {
		if len(wire) > 4096 {
			t.Skip()
		}

		warm := vc06NewQUIC()
		if _, err := vc06ReadQUIC(warm, vc06Prefixed(long, len(long)), 1<<16); err != nil {
			t.Fatalf("harness: warm-up message rejected: %v", err)
		}

		prefix := len(wire)
		if prefixDelta%8 == 1 {
			prefix = max(0, prefix+int(prefixDelta))
		}

		chunk := []int{1 << 16, 7, 1, 300}[chunkSel%4]
		got := vwire.Describe(vc06ReadQUIC(warm, vc06Prefixed(wire, prefix), chunk))
		want := vc06QUICExpect(wire, prefix)

		cls := "ref-accepts"
		if want == "error" {
			cls = "ref-rejects"
		}

		st.Case(string(wire), cls)

		if strings.Contains(got, vwire.Marker) {
			t.Fatalf("DoQ: message decoded from %d own bytes contains data of an earlier message:\n%x\n%s", len(wire), wire, got)
		}

		if got != want {
			t.Fatalf("DoQ: next %x (prefix %d, chunk %d):\nwarm server decoded: %s\nown bytes decode to: %s", wire, prefix, chunk, got, want)
		}
	})
}
