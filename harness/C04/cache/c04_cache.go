//go:build verif

package cache

// C04 (simple cache): cached answers equal fresh answers and never outlive
// their TTL.  See /verif/DESIGN.md, section 3, C04.

import (
	"context"
	"fmt"
	"hash/fnv"
	"math"
	"net"
	"sort"
	"strings"
	"testing"
	"time"

	"github.com/AdguardTeam/AdGuardDNS/internal/dnsserver"
	"github.com/bluele/gcache"
	"github.com/miekg/dns"
	"pgregory.net/rapid"
	"verif.local/harness/vstat"
)

// ---------------------------------------------------------------------------
// (a) age grid

// vc04Msg builds a cacheable message of one of the shapes below; lowest is the
// lowest TTL as the property understands it.
func vc04Msg(shape int, ttl uint32) (req, resp *dns.Msg, lowest uint32) {
	req = (&dns.Msg{}).SetQuestion("grid.example.", dns.TypeA)
	resp = (&dns.Msg{}).SetReply(req)
	hdr := func(n string, t uint16, ttl uint32) dns.RR_Header {
		return dns.RR_Header{Name: n, Rrtype: t, Class: dns.ClassINET, Ttl: ttl}
	}

	switch shape {
	case 0: // single A
		resp.Answer = []dns.RR{&dns.A{Hdr: hdr("grid.example.", dns.TypeA, ttl), A: net.IP{192, 0, 2, 1}}}
		lowest = ttl
	case 1: // mixed TTLs, lowest in the answer
		resp.Answer = []dns.RR{
			&dns.A{Hdr: hdr("grid.example.", dns.TypeA, ttl+10), A: net.IP{192, 0, 2, 1}},
			&dns.A{Hdr: hdr("grid.example.", dns.TypeA, ttl), A: net.IP{192, 0, 2, 2}},
		}
		resp.Ns = []dns.RR{&dns.NS{Hdr: hdr("example.", dns.TypeNS, ttl+100), Ns: "ns.example."}}
		lowest = ttl
	case 2: // NXDOMAIN with SOA whose MINIMUM is the lowest
		resp.Rcode = dns.RcodeNameError
		resp.Ns = []dns.RR{&dns.SOA{Hdr: hdr("example.", dns.TypeSOA, ttl+50), Ns: "ns.example.", Mbox: "m.example.", Minttl: ttl}}
		lowest = ttl
	case 3: // NODATA with SOA, header TTL the lowest
		resp.Ns = []dns.RR{&dns.SOA{Hdr: hdr("example.", dns.TypeSOA, ttl), Ns: "ns.example.", Mbox: "m.example.", Minttl: ttl + 7}}
		lowest = ttl
	case 4: // SERVFAIL carrying a record: capped at 30 s
		resp.Rcode = dns.RcodeServerFailure
		resp.Extra = []dns.RR{&dns.TXT{Hdr: hdr("grid.example.", dns.TypeTXT, ttl), Txt: []string{"x"}}}
		lowest = min(ttl, 30)
	}

	return req, resp, lowest
}

// vc04Bound is the property's bound for a TTL served after age: original
// minus time in cache, rounded, floor zero.
func vc04Bound(lowest uint32, age time.Duration) (b uint32) {
	left := math.Round(float64(lowest) - age.Seconds())
	if left <= 0 {
		return 0
	}

	return uint32(left)
}

func vc04MaxTTL(m *dns.Msg) (ttl uint32, n int) {
	for _, rrs := range [][]dns.RR{m.Answer, m.Ns, m.Extra} {
		for _, rr := range rrs {
			if rr.Header().Rrtype == dns.TypeOPT {
				continue
			}

			n++
			ttl = max(ttl, rr.Header().Ttl)
		}
	}

	return ttl, n
}

// vc04KnownLateLife is the identity of the late-life finding: an item whose
// rounded remaining life is zero is served with its original TTL.
const vc04KnownLateLife = "cache-late-life-ttl"

func vc04CheckAge(t interface{ Fatalf(string, ...any) }, st *vstat.Stats, m *Middleware, shape int, ttl uint32, age time.Duration) {
	req, resp, lowest := vc04Msg(shape, ttl)
	item := cacheItem{msg: resp, when: time.Now().Add(-age)}
	got := m.fromCacheItem(item, req)
	bound := vc04Bound(lowest, age)
	served, n := vc04MaxTTL(got)

	cls := "early"
	switch {
	case age >= time.Duration(lowest)*time.Second:
		cls = "expired"
	case bound == 0:
		cls = "late-rounds-to-zero"
	case age >= time.Duration(lowest)*time.Second/2:
		cls = "late"
	}

	nt := ""
	if age > 0 {
		nt = fmt.Sprintf("%d/%d/%d", shape, ttl, age/(100*time.Millisecond))
	}

	st.Case(nt, cls, fmt.Sprintf("shape%d", shape))
	if st.WantSample() && cls != "early" {
		st.Sample(map[string]any{"shape": shape, "ttl": ttl, "age_ms": age.Milliseconds(), "served_ttl": served, "bound": bound})
	}

	if n == 0 {
		t.Fatalf("shape %d: cached message lost its records", shape)
	}

	if served > bound {
		if bound == 0 && st.Known(vc04KnownLateLife) {
			return
		}

		t.Fatalf("shape %d ttl %d (lowest %d) age %s: served TTL %d > bound %d", shape, ttl, lowest, age, served, bound)
	}

	if got.Rcode != resp.Rcode || len(got.Answer) != len(resp.Answer) || len(got.Ns) != len(resp.Ns) {
		t.Fatalf("shape %d: cached message differs from stored one: %v vs %v", shape, got, resp)
	}
}

func TestVerifC04AgeGrid(t *testing.T) {
	st := vstat.New("C04", "cache.agegrid",
		"bounded-exhaustive (shape x ttl x age on a 100ms grid from 0 to ttl+1s) through Middleware.fromCacheItem; non-trivial = age>0, distinct by (shape,ttl,age)",
		"late-rounds-to-zero", "expired")
	st.SetExhaustive()
	st.Finish(t)

	m := NewMiddleware(&MiddlewareConfig{Count: 10})
	for shape := 0; shape <= 4; shape++ {
		for _, ttl := range []uint32{1, 2, 3, 5, 30, 31, 300} {
			end := time.Duration(ttl)*time.Second + time.Second
			for age := time.Duration(0); age <= end; age += 100 * time.Millisecond {
				vc04CheckAge(t, st, m, shape, ttl, age)
			}
		}
	}
}

func TestVerifC04AgeRapid(t *testing.T) {
	st := vstat.New("C04", "cache.agerapid",
		"rapid (shape, ttl in 1..100000, age in ms up to ttl+2s, biased to the last two seconds of life); non-trivial = age>0, distinct by (shape,ttl,age/100ms)",
		"late-rounds-to-zero", "expired")
	st.Finish(t)

	m := NewMiddleware(&MiddlewareConfig{Count: 10})
	rapid.Check(t, func(t *rapid.T) {
		shape := rapid.IntRange(0, 4).Draw(t, "shape")
		ttl := rapid.OneOf(rapid.Uint32Range(1, 10), rapid.Uint32Range(1, 100000)).Draw(t, "ttl")
		lifeMs := int64(ttl) * 1000
		if shape == 4 {
			lifeMs = int64(min(ttl, 30)) * 1000
		}

		ageMs := rapid.OneOf(
			rapid.Int64Range(0, lifeMs+2000),
			rapid.Int64Range(max(0, lifeMs-2000), lifeMs+2000),
		).Draw(t, "ageMs")
		vc04CheckAge(t, st, m, shape, ttl, time.Duration(ageMs)*time.Millisecond)
	})
}

// ---------------------------------------------------------------------------
// (b) histories with an owned clock

// vc04FakeCache is a map-backed gcache.Cache driven by a harness clock.  Only
// the methods the middleware uses are implemented; the rest panic through the
// nil embedded interface, which would be a harness error, not a verdict.
type vc04FakeCache struct {
	gcache.Cache

	now   time.Duration
	items map[any]*vc04FakeItem
}

type vc04FakeItem struct {
	val      any
	stored   time.Duration
	deadline time.Duration
}

func (c *vc04FakeCache) SetWithExpire(k, v any, exp time.Duration) (err error) {
	c.items[k] = &vc04FakeItem{val: v, stored: c.now, deadline: c.now + exp}

	return nil
}

func (c *vc04FakeCache) Get(k any) (v any, err error) {
	it, ok := c.items[k]
	if !ok {
		return nil, gcache.KeyNotFoundError
	}

	return it.val, nil
}

func (c *vc04FakeCache) Len(_ bool) (n int) { return len(c.items) }

// advance moves the harness clock: every stored item's `when` is rewound by d
// and items past their deadline are dropped (gcache drops strictly after the
// deadline; at the deadline itself the age equals the lowest TTL and the
// served TTL must already be zero).
func (c *vc04FakeCache) advance(d time.Duration) {
	c.now += d
	for k, it := range c.items {
		if c.now > it.deadline {
			delete(c.items, k)

			continue
		}

		ci := it.val.(cacheItem)
		ci.when = ci.when.Add(-d)
		it.val = ci
	}
}

// vc04Upstream is a pure function of (lower-cased name, qtype, qclass, DO).
type vc04Upstream struct {
	calls map[string]int
	total int
}

type vc04Kind int

const (
	vkA vc04Kind = iota
	vkAMixed
	vkCNAME
	vkNodataSOA
	vkNodataNoSOA
	vkNX
	vkNXNoRR
	vkServfail
	vkServfailLong
	vkRefused
	vkTruncated
	vkTTL0
	vkWithOPT
	vkWeird
	vkKinds
)

var vc04KindNames = [...]string{"A", "A-mixed", "CNAME", "NODATA+SOA", "NODATA-noSOA", "NXDOMAIN+SOA", "NXDOMAIN-empty",
	"SERVFAIL", "SERVFAIL-longTTL", "REFUSED", "truncated", "TTL0", "with-OPT", "weird-answer"}

var vc04TTLs = [...]uint32{1, 2, 3, 5, 30, 45, 300}

func vc04Hash(s string) uint32 {
	h := fnv.New32a()
	_, _ = h.Write([]byte(s))

	return h.Sum32()
}

// vc04Name pool: the first label encodes the kind and the TTL so that every
// kind is reachable by construction; the key parts are mixed into rdata so that
// a wrong-key hit is visible in the records.
func vc04QKey(q dns.Question, do bool) string {
	return fmt.Sprintf("%s|%d|%d|%t", strings.ToLower(q.Name), q.Qtype, q.Qclass, do)
}

func vc04KindOf(name string) (k vc04Kind, ttl uint32) {
	var ki, ti int
	_, err := fmt.Sscanf(strings.ToLower(name), "k%dt%d.", &ki, &ti)
	if err != nil {
		panic(fmt.Errorf("bad name %q: %w", name, err))
	}

	return vc04Kind(ki), vc04TTLs[ti]
}

func vc04Answer(req *dns.Msg) (resp *dns.Msg) {
	q := req.Question[0]
	opt := req.IsEdns0()
	do := opt != nil && opt.Do()
	key := vc04QKey(q, do)
	h := vc04Hash(key)
	kind, ttl := vc04KindOf(q.Name)

	resp = (&dns.Msg{}).SetReply(req)
	resp.RecursionAvailable = true
	resp.AuthenticatedData = do && h&1 == 1
	hdr := func(t uint16, ttl uint32) dns.RR_Header {
		return dns.RR_Header{Name: q.Name, Rrtype: t, Class: q.Qclass, Ttl: ttl}
	}
	ans := func(ttl uint32, salt byte) dns.RR {
		switch q.Qtype {
		case dns.TypeA:
			return &dns.A{Hdr: hdr(dns.TypeA, ttl), A: net.IP{10, byte(h >> 8), byte(h), salt}}
		case dns.TypeAAAA:
			return &dns.AAAA{Hdr: hdr(dns.TypeAAAA, ttl), AAAA: net.IP{0x20, 1, 0xd, 0xb8, byte(h >> 24), byte(h >> 16), byte(h >> 8), byte(h), 0, 0, 0, 0, 0, 0, 0, salt}}
		default:
			return &dns.TXT{Hdr: hdr(q.Qtype, ttl), Txt: []string{key, string('a' + rune(salt))}}
		}
	}
	soa := func(ttl, minttl uint32) dns.RR {
		return &dns.SOA{Hdr: dns.RR_Header{Name: "test.", Rrtype: dns.TypeSOA, Class: dns.ClassINET, Ttl: ttl}, Ns: "ns.test.", Mbox: "m.test.", Serial: h, Minttl: minttl}
	}

	switch kind {
	case vkA:
		resp.Answer = []dns.RR{ans(ttl, 1)}
	case vkAMixed:
		resp.Answer = []dns.RR{ans(ttl+9, 1), ans(ttl, 2)}
		resp.Ns = []dns.RR{&dns.NS{Hdr: dns.RR_Header{Name: "test.", Rrtype: dns.TypeNS, Class: dns.ClassINET, Ttl: ttl + 3}, Ns: "ns.test."}}
		resp.Extra = []dns.RR{&dns.A{Hdr: dns.RR_Header{Name: "ns.test.", Rrtype: dns.TypeA, Class: dns.ClassINET, Ttl: ttl + 1}, A: net.IP{10, 9, 9, 9}}}
	case vkCNAME:
		resp.Answer = []dns.RR{
			&dns.CNAME{Hdr: hdr(dns.TypeCNAME, ttl+5), Target: "target.test."},
			func() dns.RR { r := ans(ttl, 3); r.Header().Name = "target.test."; return r }(),
		}
	case vkNodataSOA:
		resp.Ns = []dns.RR{soa(ttl+20, ttl)}
	case vkNodataNoSOA:
		resp.Ns = []dns.RR{&dns.NS{Hdr: dns.RR_Header{Name: "test.", Rrtype: dns.TypeNS, Class: dns.ClassINET, Ttl: ttl}, Ns: "ns.test."}}
	case vkNX:
		resp.Rcode = dns.RcodeNameError
		resp.Ns = []dns.RR{soa(ttl, ttl+20)}
	case vkNXNoRR:
		resp.Rcode = dns.RcodeNameError
	case vkServfail:
		resp.Rcode = dns.RcodeServerFailure
	case vkServfailLong:
		resp.Rcode = dns.RcodeServerFailure
		resp.Ns = []dns.RR{soa(ttl+3600, ttl+3600)}
	case vkRefused:
		resp.Rcode = dns.RcodeRefused
		resp.Answer = []dns.RR{ans(ttl, 1)}
	case vkTruncated:
		resp.Truncated = true
		resp.Answer = []dns.RR{ans(ttl, 1)}
	case vkTTL0:
		resp.Answer = []dns.RR{ans(ttl, 1), ans(0, 2)}
	case vkWithOPT:
		resp.Answer = []dns.RR{ans(ttl, 1)}
		if opt == nil {
			resp.SetEdns0(1232, false)
		}
	case vkWeird:
		// NOERROR whose answer section has neither the asked type nor a
		// CNAME/SIG: documented as not cacheable.
		resp.Answer = []dns.RR{&dns.MX{Hdr: hdr(dns.TypeMX, ttl), Mx: "mx.test.", Preference: 1}}
	}

	// A conforming upstream answers an EDNS query with an OPT record and copies
	// the DO bit (RFC 6891, RFC 3225); the cache derives the stored key from the
	// response, so this is a precondition every real caller respects.
	if opt != nil {
		resp.SetEdns0(1232, do)
	}

	return resp
}

func (u *vc04Upstream) ServeDNS(ctx context.Context, rw dnsserver.ResponseWriter, req *dns.Msg) (err error) {
	q := req.Question[0]
	opt := req.IsEdns0()
	u.calls[vc04QKey(q, opt != nil && opt.Do())]++
	u.total++

	return rw.WriteMsg(ctx, req, vc04Answer(req))
}

// vc04Cacheable tells, from the statement ("only complete NOERROR/NODATA,
// NXDOMAIN and short-lived SERVFAIL answers are cached at all"), whether a
// kind may ever be served from cache, and for how long.
func vc04Cacheable(kind vc04Kind, qt uint16, ttl uint32) (ok bool, life uint32) {
	switch kind {
	case vkA, vkAMixed, vkNodataSOA, vkNX, vkWithOPT:
		return true, ttl
	case vkCNAME:
		return true, ttl
	case vkServfail, vkServfailLong:
		return true, 30
	case vkWeird:
		// If the asked type is MX the answer is an ordinary one.
		return qt == dns.TypeMX, ttl
	default:
		return false, 0
	}
}

type vc04RRKey struct {
	Sec  int
	Text string
}

// vc04Canon renders a message modulo TTLs and OPT (hop-by-hop).
func vc04Canon(m *dns.Msg) (s string) {
	var rrs []string
	for i, sec := range [][]dns.RR{m.Answer, m.Ns, m.Extra} {
		for _, rr := range sec {
			if rr.Header().Rrtype == dns.TypeOPT {
				continue
			}

			c := dns.Copy(rr)
			c.Header().Ttl = 0
			// Owner names compare case-insensitively (RFC 4343); the question
			// section is compared byte-exact separately.
			c.Header().Name = strings.ToLower(c.Header().Name)
			rrs = append(rrs, fmt.Sprintf("%d:%s", i, c.String()))
		}
	}

	sort.Strings(rrs)

	return fmt.Sprintf("id=%d rcode=%d qr=%t aa=%t tc=%t rd=%t ra=%t ad=%t cd=%t op=%d q=%v rrs=%q",
		m.Id, m.Rcode, m.Response, m.Authoritative, m.Truncated, m.RecursionDesired, m.RecursionAvailable,
		m.AuthenticatedData, m.CheckingDisabled, m.Opcode, m.Question, rrs)
}

func vc04Exchange(t *rapid.T, h dnsserver.Handler, req *dns.Msg) (resp *dns.Msg) {
	addr := &net.UDPAddr{IP: net.IP{192, 0, 2, 77}, Port: 5353}
	nrw := dnsserver.NewNonWriterResponseWriter(addr, addr)
	err := h.ServeDNS(context.Background(), nrw, req)
	if err != nil {
		t.Fatalf("ServeDNS: %v", err)
	}

	resp = nrw.Msg()
	if resp == nil {
		t.Fatalf("no response written for %v", req.Question)
	}

	return resp
}

func vc04MixCase(t *rapid.T, s string) string {
	if !rapid.Bool().Draw(t, "mixcase") {
		return s
	}

	b := []byte(s)
	for i := range b {
		if b[i] >= 'a' && b[i] <= 'z' && rapid.Bool().Draw(t, "up") {
			b[i] -= 32
		}
	}

	return string(b)
}

func TestVerifC04History(t *testing.T) {
	st := vstat.New("C04", "cache.history",
		"rapid stateful histories (query | advance clock) against cache.Middleware with a harness-clocked store; non-trivial = response served without an upstream call, distinct by (cache key, age bucket of 500ms)",
		"hit", "hit-late", "miss-after-expiry", "uncacheable-repeat", "hit-other-case", "override")
	st.Finish(t)

	rapid.Check(t, func(t *rapid.T) {
		override := rapid.IntRange(0, 3).Draw(t, "override") == 0
		minTTL := time.Duration(rapid.SampledFrom([]int{2, 10, 60}).Draw(t, "minTTL")) * time.Second
		up := &vc04Upstream{calls: map[string]int{}}
		m := NewMiddleware(&MiddlewareConfig{Count: 1000, MinTTL: minTTL, OverrideTTL: override})
		fc := &vc04FakeCache{items: map[any]*vc04FakeItem{}}
		m.cache = fc
		h := m.Wrap(up)

		// model: key -> time stored (harness clock) of the live entry.
		type ent struct{ stored time.Duration }
		model := map[string]ent{}
		var hist []string

		nNames := rapid.IntRange(1, 4).Draw(t, "nNames")
		type nm struct {
			kind vc04Kind
			ti   int
		}
		names := make([]nm, nNames)
		for i := range names {
			names[i] = nm{kind: vc04Kind(rapid.IntRange(0, int(vkKinds)-1).Draw(t, "kind")), ti: rapid.IntRange(0, len(vc04TTLs)-1).Draw(t, "ttlIdx")}
		}

		steps := rapid.IntRange(2, 14).Draw(t, "steps")
		var lastLife uint32 = 1
		for i := 0; i < steps; i++ {
			if rapid.IntRange(0, 2).Draw(t, "op") == 0 {
				life := time.Duration(lastLife) * time.Second
				d := rapid.SampledFrom([]time.Duration{0, 400 * time.Millisecond, 600 * time.Millisecond, time.Second,
					life - 600*time.Millisecond, life - 400*time.Millisecond, life, life + time.Second, 29 * time.Second, 31 * time.Second}).Draw(t, "delta")
				if d < 0 {
					d = 0
				}

				fc.advance(d)
				hist = append(hist, fmt.Sprintf("advance %s", d))

				continue
			}

			n := names[rapid.IntRange(0, nNames-1).Draw(t, "name")]
			qt := rapid.SampledFrom([]uint16{dns.TypeA, dns.TypeA, dns.TypeAAAA, dns.TypeTXT, dns.TypeHTTPS, dns.TypeMX}).Draw(t, "qt")
			qc := rapid.SampledFrom([]uint16{dns.ClassINET, dns.ClassINET, dns.ClassINET, dns.ClassCHAOS}).Draw(t, "qc")
			do := rapid.IntRange(0, 3).Draw(t, "do") == 0
			name := vc04MixCase(t, fmt.Sprintf("k%dt%d.cache.test.", n.kind, n.ti))
			req := &dns.Msg{}
			req.Id = uint16(rapid.IntRange(0, 65535).Draw(t, "id"))
			req.RecursionDesired = rapid.Bool().Draw(t, "rd")
			req.AuthenticatedData = rapid.IntRange(0, 3).Draw(t, "ad") == 0
			req.CheckingDisabled = rapid.IntRange(0, 3).Draw(t, "cd") == 0
			req.Question = []dns.Question{{Name: name, Qtype: qt, Qclass: qc}}
			if do || rapid.IntRange(0, 3).Draw(t, "edns") == 0 {
				req.SetEdns0(uint16(rapid.SampledFrom([]int{512, 1232, 4096}).Draw(t, "udpsize")), do)
			}

			key := vc04QKey(req.Question[0], do)
			kind, ttl := vc04KindOf(name)
			cacheable, life := vc04Cacheable(kind, qt, ttl)
			lastLife = max(life, 1)

			before := up.calls[key]
			totalBefore := up.total
			resp := vc04Exchange(t, h, req.Copy())
			fromCache := up.total == totalBefore
			if !fromCache && up.calls[key] != before+1 {
				t.Fatalf("history %v: query %s reached upstream under another key", hist, key)
			}

			hist = append(hist, fmt.Sprintf("query %s id=%d -> cache=%t", key, req.Id, fromCache))

			// fresh twin
			fm := NewMiddleware(&MiddlewareConfig{Count: 10, MinTTL: minTTL, OverrideTTL: override})
			fresh := vc04Exchange(t, fm.Wrap(&vc04Upstream{calls: map[string]int{}}), req.Copy())

			if g, w := vc04Canon(resp), vc04Canon(fresh); g != w {
				t.Fatalf("history %v\nwarm  %s\nfresh %s", hist, g, w)
			}

			if len(resp.Question) != 1 || resp.Question[0] != req.Question[0] || resp.Id != req.Id {
				t.Fatalf("history %v: response id/question %d %v differ from request %d %v", hist, resp.Id, resp.Question, req.Id, req.Question)
			}

			e, inModel := model[key]
			age := fc.now - e.stored
			classes := []string{"kind-" + vc04KindNames[kind]}
			nt := ""
			if fromCache {
				nt = fmt.Sprintf("%s@%d", key, age/(500*time.Millisecond))
				classes = append(classes, "hit")
				if name != strings.ToLower(name) {
					classes = append(classes, "hit-other-case")
				}

				if override {
					classes = append(classes, "override")
				}

				if !cacheable {
					t.Fatalf("history %v: uncacheable answer kind %s served from cache", hist, vc04KindNames[kind])
				}

				if !inModel {
					t.Fatalf("history %v: cache hit for %s which was never stored under this key", hist, key)
				}

				effLife := life
				if override && kind != vkServfail && kind != vkServfailLong {
					effLife = max(life, uint32(minTTL/time.Second))
				}

				if age >= time.Duration(effLife)*time.Second && age > 0 {
					// At age == life exactly the entry may still be present in an LRU that
					// expires strictly after the deadline, but then its TTL must be 0.
					if age > time.Duration(effLife)*time.Second {
						t.Fatalf("history %v: %s served from cache at age %s > life %ds", hist, key, age, effLife)
					}
				}

				if age*2 >= time.Duration(effLife)*time.Second {
					classes = append(classes, "hit-late")
				}

				served, _ := vc04MaxTTL(resp)
				bound := vc04Bound(effLife, age)
				if override {
					// The override raises answer TTLs only; the bound applies to
					// the raised value.
					bound = max(bound, vc04Bound(max(ttl+9, uint32(minTTL/time.Second)), age))
				} else {
					// per-record bound is not needed: the code serves one TTL for
					// all records, and it must not exceed the lowest one's rest.
				}

				if served > bound {
					if bound == 0 && !override && st.Known(vc04KnownLateLife) {
						// excluded, counted
					} else {
						t.Fatalf("history %v: %s served TTL %d at age %s, bound %d (life %d)", hist, key, served, age, bound, effLife)
					}
				}
			} else {
				classes = append(classes, "miss")
				if inModel {
					classes = append(classes, "miss-after-expiry")
				}

				if !cacheable && before > 0 {
					classes = append(classes, "uncacheable-repeat")
				}

				if cacheable {
					model[key] = ent{stored: fc.now}
				}
			}

			st.Case(nt, classes...)
		}

		if st.WantSample() && len(hist) > 4 {
			st.Sample(hist)
		}
	})
}
