//go:build verif

package cache

// C04 (simple cache): cached answers equal fresh answers and never outlive
// their TTL.  See /verif/DESIGN.md, section 3, C04.

import (
	"context"
	"errors"
	"fmt"
	"net"
	"sort"
	"strings"
	"sync"
	"testing"
	"time"

	"github.com/AdguardTeam/AdGuardDNS/internal/dnsserver"
	"github.com/bluele/gcache"
	"github.com/miekg/dns"
	"pgregory.net/rapid"
	"verif.local/harness/vdns"
	"verif.local/harness/vstat"
)

// ---------------------------------------------------------------------------
// (a) age grid

// vc04Msg builds a cacheable message of one of the shapes below; lowest is the
// lowest TTL as the property understands it.
func vc04Msg(shape int, ttl uint32) (req, resp *dns.Msg, lowest uint32) {
	req = (&dns.Msg{}).SetQuestion("grid.example.", dns.TypeA)
	resp = (&dns.Msg{}).SetReply(req)
	hdr := func(n string, t uint16, ttl uint32) dns.RR_Header {
		return dns.RR_Header{Name: n, Rrtype: t, Class: dns.ClassINET, Ttl: ttl}
	}

	switch shape {
	case 0: // single A
		resp.Answer = []dns.RR{&dns.A{Hdr: hdr("grid.example.", dns.TypeA, ttl), A: net.IP{192, 0, 2, 1}}}
		lowest = ttl
	case 1: // mixed TTLs, lowest in the answer
		resp.Answer = []dns.RR{
			&dns.A{Hdr: hdr("grid.example.", dns.TypeA, ttl+10), A: net.IP{192, 0, 2, 1}},
			&dns.A{Hdr: hdr("grid.example.", dns.TypeA, ttl), A: net.IP{192, 0, 2, 2}},
		}
		resp.Ns = []dns.RR{&dns.NS{Hdr: hdr("example.", dns.TypeNS, ttl+100), Ns: "ns.example."}}
		lowest = ttl
	case 2: // NXDOMAIN with SOA whose MINIMUM is the lowest
		resp.Rcode = dns.RcodeNameError
		resp.Ns = []dns.RR{&dns.SOA{Hdr: hdr("example.", dns.TypeSOA, ttl+50), Ns: "ns.example.", Mbox: "m.example.", Minttl: ttl}}
		lowest = ttl
	case 3: // NODATA with SOA, header TTL the lowest
		resp.Ns = []dns.RR{&dns.SOA{Hdr: hdr("example.", dns.TypeSOA, ttl), Ns: "ns.example.", Mbox: "m.example.", Minttl: ttl + 7}}
		lowest = ttl
	case 4: // SERVFAIL carrying a record: capped at 30 s
		resp.Rcode = dns.RcodeServerFailure
		resp.Extra = []dns.RR{&dns.TXT{Hdr: hdr("grid.example.", dns.TypeTXT, ttl), Txt: []string{"x"}}}
		lowest = min(ttl, 30)
	}

	return req, resp, lowest
}

// vc04KnownLateLife is the identity of the late-life finding: an item whose
// rounded remaining life is zero is served with its original TTL.
const vc04KnownLateLife = "cache-late-life-ttl"

func vc04CheckAge(t interface{ Fatalf(string, ...any) }, st *vstat.Stats, m *Middleware, shape int, ttl uint32, age time.Duration) {
	req, resp, lowest := vc04Msg(shape, ttl)
	item := cacheItem{msg: resp, when: time.Now().Add(-age)}
	got := m.fromCacheItem(item, req)
	bound := vdns.Bound(lowest, age)
	served, n := vdns.MaxTTL(got)

	cls := "early"
	switch {
	case age >= time.Duration(lowest)*time.Second:
		cls = "expired"
	case bound == 0:
		cls = "late-rounds-to-zero"
	case age >= time.Duration(lowest)*time.Second/2:
		cls = "late"
	}

	nt := ""
	if age > 0 {
		nt = fmt.Sprintf("%d/%d/%d", shape, ttl, age/(100*time.Millisecond))
	}

	st.Case(nt, cls, fmt.Sprintf("shape%d", shape))
	if st.WantSample() && cls != "early" {
		st.Sample(map[string]any{"shape": shape, "ttl": ttl, "age_ms": age.Milliseconds(), "served_ttl": served, "bound": bound})
	}

	if n == 0 {
		t.Fatalf("shape %d: cached message lost its records", shape)
	}

	if served > bound {
		if bound == 0 && st.Known(vc04KnownLateLife) {
			return
		}

		t.Fatalf("shape %d ttl %d (lowest %d) age %s: served TTL %d > bound %d", shape, ttl, lowest, age, served, bound)
	}

	if got.Rcode != resp.Rcode || len(got.Answer) != len(resp.Answer) || len(got.Ns) != len(resp.Ns) {
		t.Fatalf("shape %d: cached message differs from stored one: %v vs %v", shape, got, resp)
	}
}

func TestVerifC04AgeGrid(t *testing.T) {
	st := vstat.New("C04", "cache.agegrid",
		"bounded-exhaustive (shape x ttl x age on a 100ms grid from 0 to ttl+1s) through Middleware.fromCacheItem; non-trivial = age>0, distinct by (shape,ttl,age)",
		"late-rounds-to-zero", "expired")
	st.SetExhaustive()
	st.Finish(t)

	m := NewMiddleware(&MiddlewareConfig{Count: 10})
	for shape := 0; shape <= 4; shape++ {
		for _, ttl := range []uint32{1, 2, 3, 5, 30, 31, 300} {
			end := time.Duration(ttl)*time.Second + time.Second
			for age := time.Duration(0); age <= end; age += 100 * time.Millisecond {
				vc04CheckAge(t, st, m, shape, ttl, age)
			}
		}
	}
}

func TestVerifC04AgeRapid(t *testing.T) {
	st := vstat.New("C04", "cache.agerapid",
		"rapid (shape, ttl in 1..100000, age in ms up to ttl+2s, biased to the last two seconds of life); non-trivial = age>0, distinct by (shape,ttl,age/100ms)",
		"late-rounds-to-zero", "expired")
	st.Finish(t)

	m := NewMiddleware(&MiddlewareConfig{Count: 10})
	rapid.Check(t, func(t *rapid.T) {
		shape := rapid.IntRange(0, 4).Draw(t, "shape")
		ttl := rapid.OneOf(rapid.Uint32Range(1, 10), rapid.Uint32Range(1, 100000)).Draw(t, "ttl")
		lifeMs := int64(ttl) * 1000
		if shape == 4 {
			lifeMs = int64(min(ttl, 30)) * 1000
		}

		ageMs := rapid.OneOf(
			rapid.Int64Range(0, lifeMs+2000),
			rapid.Int64Range(max(0, lifeMs-2000), lifeMs+2000),
		).Draw(t, "ageMs")
		vc04CheckAge(t, st, m, shape, ttl, time.Duration(ageMs)*time.Millisecond)
	})
}

// ---------------------------------------------------------------------------
// (b) histories with an owned clock

// vc04FakeCache is a map-backed gcache.Cache driven by a harness clock.  Only
// the methods the middleware uses are implemented; the rest panic through the
// nil embedded interface, which would be a harness error, not a verdict.
type vc04FakeCache struct {
	gcache.Cache

	now   time.Duration
	items map[any]*vc04FakeItem
}

type vc04FakeItem struct {
	val      any
	stored   time.Duration
	deadline time.Duration
}

func (c *vc04FakeCache) SetWithExpire(k, v any, exp time.Duration) (err error) {
	c.items[k] = &vc04FakeItem{val: v, stored: c.now, deadline: c.now + exp}

	return nil
}

func (c *vc04FakeCache) Get(k any) (v any, err error) {
	it, ok := c.items[k]
	if !ok {
		return nil, gcache.KeyNotFoundError
	}

	return it.val, nil
}

func (c *vc04FakeCache) Len(_ bool) (n int) { return len(c.items) }

// advance moves the harness clock: every stored item's `when` is rewound by d
// and items past their deadline are dropped (gcache drops strictly after the
// deadline; at the deadline itself the age equals the lowest TTL and the
// served TTL must already be zero).
func (c *vc04FakeCache) advance(d time.Duration) {
	c.now += d
	for k, it := range c.items {
		if c.now > it.deadline {
			delete(c.items, k)

			continue
		}

		ci := it.val.(cacheItem)
		ci.when = ci.when.Add(-d)
		it.val = ci
	}
}

// vc04Upstream is the shared reference upstream (vdns.Answer): a pure function
// of (lower-cased name, qtype, qclass, DO), counting calls per key.
type vc04Upstream struct {
	calls map[string]int
	total int
}

func (u *vc04Upstream) ServeDNS(ctx context.Context, rw dnsserver.ResponseWriter, req *dns.Msg) (err error) {
	u.calls[vdns.QKey(req.Question[0], vdns.IsDO(req))]++
	u.total++

	switch kind, _ := vdns.KindOf(req.Question[0].Name); kind {
	case vdns.KErr:
		return errors.New("scripted upstream error")
	case vdns.KSilent:
		return nil
	}

	return rw.WriteMsg(ctx, req, vdns.Answer(req, "", false))
}

// vc04ServerRW is the client-facing response writer: it keeps a copy of what
// was written and then edits the written message in place as the UDP server does
// with a response that does not fit (see vdns.ServerEdits).
type vc04ServerRW struct {
	dnsserver.ResponseWriter

	got *dns.Msg
}

func (w *vc04ServerRW) WriteMsg(_ context.Context, _, resp *dns.Msg) (err error) {
	w.got = resp.Copy()
	vdns.ServerEdits(resp)

	return nil
}

func (w *vc04ServerRW) Msg() (m *dns.Msg) { return w.got }

func vc04NewRW(addr net.Addr) (w *vc04ServerRW) {
	return &vc04ServerRW{ResponseWriter: dnsserver.NewNonWriterResponseWriter(addr, addr)}
}

func vc04Exchange(t *rapid.T, h dnsserver.Handler, req *dns.Msg) (resp *dns.Msg) {
	addr := &net.UDPAddr{IP: net.IP{192, 0, 2, 77}, Port: 5353}
	nrw := vc04NewRW(addr)
	err := h.ServeDNS(context.Background(), nrw, req)
	// A handler error (the server then answers SERVFAIL) and a handler that
	// writes nothing are outcomes like any other: they are rendered as marker
	// messages so that warm and fresh instances can be compared.
	if err != nil {
		resp = (&dns.Msg{}).SetReply(req)
		resp.Rcode = 3841

		return resp
	}

	resp = nrw.Msg()
	if resp == nil {
		resp = (&dns.Msg{}).SetReply(req)
		resp.Rcode = 3842
	}

	return resp
}

func TestVerifC04History(t *testing.T) {
	st := vstat.New("C04", "cache.history",
		"rapid stateful histories (query | advance clock) against cache.Middleware with a harness-clocked store; non-trivial = response served without an upstream call, distinct by (cache key, age bucket of 500ms)",
		"hit", "hit-late", "miss-after-expiry", "uncacheable-repeat", "hit-other-case", "override", "near-miss-do", "near-miss-qtype", "near-miss-qclass")
	st.Finish(t)

	rapid.Check(t, func(t *rapid.T) {
		override := rapid.IntRange(0, 3).Draw(t, "override") == 0
		minTTL := time.Duration(rapid.SampledFrom([]int{2, 10, 60}).Draw(t, "minTTL")) * time.Second
		up := &vc04Upstream{calls: map[string]int{}}
		m := NewMiddleware(&MiddlewareConfig{Count: 1000, MinTTL: minTTL, OverrideTTL: override})
		fc := &vc04FakeCache{items: map[any]*vc04FakeItem{}}
		m.cache = fc
		h := m.Wrap(up)

		// model: key -> time stored (harness clock) of the live entry.
		type ent struct{ stored time.Duration }
		model := map[string]ent{}
		var hist []string

		type vq struct {
			name   string
			qt, qc uint16
			do     bool
		}
		var asked []vq

		steps := rapid.IntRange(2, 16).Draw(t, "steps")
		var lastLife uint32 = 1
		for i := 0; i < steps; i++ {
			op := rapid.IntRange(0, 5).Draw(t, "op")
			if op == 0 {
				life := time.Duration(lastLife) * time.Second
				d := rapid.SampledFrom([]time.Duration{0, 400 * time.Millisecond, 600 * time.Millisecond, time.Second,
					life - 600*time.Millisecond, life - 400*time.Millisecond, life, life + time.Second, 29 * time.Second, 31 * time.Second}).Draw(t, "delta")
				if d < 0 {
					d = 0
				}

				fc.advance(d)
				hist = append(hist, fmt.Sprintf("advance %s", d))

				continue
			}

			var q vq
			nearMiss := ""
			if op >= 3 && len(asked) > 0 {
				q = asked[rapid.IntRange(0, len(asked)-1).Draw(t, "repeat")]

				// Near miss: the same question except for exactly one component
				// that a correct cache key must distinguish.
				switch rapid.IntRange(0, 7).Draw(t, "nearMiss") {
				case 1, 2:
					q.do = !q.do
					nearMiss = "do"
				case 3:
					q.qt = map[uint16]uint16{dns.TypeA: dns.TypeAAAA, dns.TypeAAAA: dns.TypeA}[q.qt]
					if q.qt == 0 {
						q.qt = dns.TypeA
					}

					nearMiss = "qtype"
				case 5:
					// Types that differ in bit 5 of one octet only, as upper
					// and lower case letters do (HTTPS 65 and TYPE97, 321 and
					// 353): a key that is case-folded as a whole merges them.
					q.qt ^= 0x20
					nearMiss = "qtype-bit5"
				case 6:
					// Types that differ in the high octet only (A 1 and CAA 257,
					// HTTPS 65 and 321): a key that loses that octet merges them.
					q.qt ^= 0x100
					nearMiss = "qtype-high-octet"
				case 4:
					q.qc = map[uint16]uint16{dns.ClassINET: dns.ClassCHAOS, dns.ClassCHAOS: dns.ClassINET}[q.qc]
					nearMiss = "qclass"
				}
			} else {
				kind := vdns.Kind(rapid.IntRange(0, int(vdns.KKinds)-1).Draw(t, "kind"))
				ti := rapid.IntRange(0, len(vdns.TTLs)-1).Draw(t, "ttlIdx")
				name := vdns.Name(kind, ti, "cache.test.")
				if rapid.IntRange(0, 9).Draw(t, "minimalName") == 0 {
					name = rapid.SampledFrom(vdns.MinimalNames).Draw(t, "minimal")
				}

				q = vq{
					name: name,
					qt:   rapid.SampledFrom([]uint16{dns.TypeA, dns.TypeA, dns.TypeAAAA, dns.TypeTXT, dns.TypeHTTPS, dns.TypeHTTPS, 97, 321, dns.TypeMX, dns.TypeSRV, dns.TypeSRV, dns.TypePTR}).Draw(t, "qt"),
					qc:   rapid.SampledFrom([]uint16{dns.ClassINET, dns.ClassINET, dns.ClassINET, dns.ClassCHAOS}).Draw(t, "qc"),
					do:   rapid.IntRange(0, 3).Draw(t, "do") == 0,
				}
				asked = append(asked, q)
			}

			qt, qc, do := q.qt, q.qc, q.do
			name := vdns.MixCase(t, q.name)
			req := &dns.Msg{}
			req.Id = uint16(rapid.IntRange(0, 65535).Draw(t, "id"))
			req.RecursionDesired = rapid.Bool().Draw(t, "rd")
			req.AuthenticatedData = rapid.IntRange(0, 3).Draw(t, "ad") == 0
			req.CheckingDisabled = rapid.IntRange(0, 3).Draw(t, "cd") == 0
			req.Question = []dns.Question{{Name: name, Qtype: qt, Qclass: qc}}
			if do || rapid.IntRange(0, 3).Draw(t, "edns") == 0 {
				req.SetEdns0(uint16(rapid.SampledFrom([]int{512, 1232, 4096}).Draw(t, "udpsize")), do)
			}

			// Sometimes a second OPT record with the opposite DO bit comes
			// first (illegal by RFC 6891, but served): the DO bit that counts is
			// that of the last record, which is also what goes upstream.
			twoOPT := false
			if req.IsEdns0() != nil && rapid.IntRange(0, 7).Draw(t, "twoOPT") == 0 {
				first := &dns.OPT{Hdr: dns.RR_Header{Name: ".", Rrtype: dns.TypeOPT}}
				first.SetUDPSize(4096)
				if !do {
					first.SetDo()
				}

				req.Extra = append([]dns.RR{first}, req.Extra...)
				twoOPT = true
			}

			key := vdns.QKey(req.Question[0], do)
			kind, ttl := vdns.KindOf(name)
			cacheable, life := vdns.Cacheable(kind, qt, ttl)
			lastLife = max(life, 1)

			before := up.calls[key]
			totalBefore := up.total
			resp := vc04Exchange(t, h, req.Copy())
			fromCache := up.total == totalBefore
			if !fromCache && up.calls[key] != before+1 {
				t.Fatalf("history %v: query %s reached upstream under another key", hist, key)
			}

			hist = append(hist, fmt.Sprintf("query %s id=%d -> cache=%t", key, req.Id, fromCache))

			// fresh twin
			fm := NewMiddleware(&MiddlewareConfig{Count: 10, MinTTL: minTTL, OverrideTTL: override})
			fresh := vc04Exchange(t, fm.Wrap(&vc04Upstream{calls: map[string]int{}}), req.Copy())

			if g, w := vdns.Canon(resp, vdns.CanonOpts{}), vdns.Canon(fresh, vdns.CanonOpts{}); g != w {
				t.Fatalf("history %v\nwarm  %s\nfresh %s", hist, g, w)
			}

			if len(resp.Question) != 1 || resp.Question[0] != req.Question[0] || resp.Id != req.Id {
				t.Fatalf("history %v: response id/question %d %v differ from request %d %v", hist, resp.Id, resp.Question, req.Id, req.Question)
			}

			e, inModel := model[key]
			age := fc.now - e.stored
			classes := []string{"kind-" + vdns.KindNames[kind]}
			if twoOPT {
				classes = append(classes, "two-opt-records-do-differs")
			}

			if nearMiss != "" {
				classes = append(classes, "near-miss-"+nearMiss)
			}

			nt := ""
			if fromCache {
				nt = fmt.Sprintf("%s@%d", key, age/(500*time.Millisecond))
				classes = append(classes, "hit")
				if name != strings.ToLower(name) {
					classes = append(classes, "hit-other-case")
				}

				if override {
					classes = append(classes, "override")
				}

				if !cacheable {
					t.Fatalf("history %v: uncacheable answer kind %s served from cache", hist, vdns.KindNames[kind])
				}

				if !inModel {
					t.Fatalf("history %v: cache hit for %s which was never stored under this key", hist, key)
				}

				effLife := life
				if override && kind != vdns.KServfail && kind != vdns.KServfailLong {
					effLife = max(life, uint32(minTTL/time.Second))
				}

				if age >= time.Duration(effLife)*time.Second && age > 0 {
					// At age == life exactly the entry may still be present in an LRU that
					// expires strictly after the deadline, but then its TTL must be 0.
					if age > time.Duration(effLife)*time.Second {
						t.Fatalf("history %v: %s served from cache at age %s > life %ds", hist, key, age, effLife)
					}
				}

				if age*2 >= time.Duration(effLife)*time.Second {
					classes = append(classes, "hit-late")
				}

				served, _ := vdns.MaxTTL(resp)
				bound := vdns.Bound(effLife, age)
				if override {
					// The override raises answer TTLs only; the bound applies to
					// the raised value.
					bound = max(bound, vdns.Bound(max(ttl+9, uint32(minTTL/time.Second)), age))
				} else {
					// per-record bound is not needed: the code serves one TTL for
					// all records, and it must not exceed the lowest one's rest.
				}

				if served > bound {
					if bound == 0 && !override && st.Known(vc04KnownLateLife) {
						// excluded, counted
					} else {
						t.Fatalf("history %v: %s served TTL %d at age %s, bound %d (life %d)", hist, key, served, age, bound, effLife)
					}
				}
			} else {
				classes = append(classes, "miss")
				if inModel {
					classes = append(classes, "miss-after-expiry")
				}

				if !cacheable && before > 0 {
					classes = append(classes, "uncacheable-repeat")
				}

				if cacheable {
					model[key] = ent{stored: fc.now}
				}
			}

			st.Case(nt, classes...)
		}

		if st.WantSample() && len(hist) > 4 {
			st.Sample(hist)
		}
	})
}

// ---------------------------------------------------------------------------
// (c) real LRU, real time: the harness-clocked histories assume that rewinding
// stored timestamps equals the passage of time; this part samples the same
// clauses with real sleeps and the real gcache expiry.

func TestVerifC04RealTime(t *testing.T) {
	st := vstat.New("C04", "cache.realtime",
		"rapid: K probes (kind A/NXDOMAIN/SERVFAIL, ttl 1-3 s, delay drawn around half-life, expiry and beyond) stored at once in the real LRU, each re-asked after its real delay; oracle is one-sided on measured ages: served TTL <= bound(ttl, measured minimum age), and an answer whose measured minimum age exceeds its life must come from upstream; non-trivial = probe re-asked at age >= 0.4 s; distinct by (kind, ttl, delay/100ms)",
		"rt-hit", "rt-miss-after-expiry", "rt-late-hit")
	st.Finish(t)

	rapid.Check(t, func(t *rapid.T) {
		up := &vc04Upstream{calls: map[string]int{}}
		m := NewMiddleware(&MiddlewareConfig{Count: 1000})
		h := m.Wrap(up)

		type probe struct {
			req    *dns.Msg
			life   time.Duration
			delay  time.Duration
			stored time.Time
			kind   vdns.Kind
		}

		n := rapid.IntRange(4, 16).Draw(t, "probes")
		probes := make([]*probe, 0, n)
		for i := 0; i < n; i++ {
			kind := rapid.SampledFrom([]vdns.Kind{vdns.KA, vdns.KA, vdns.KAMixed, vdns.KNX, vdns.KNodataSOA}).Draw(t, "kind")
			ti := rapid.IntRange(0, 2).Draw(t, "ttlIdx") // 1, 2, 3 s
			life := time.Duration(vdns.TTLs[ti]) * time.Second
			delay := rapid.SampledFrom([]time.Duration{400 * time.Millisecond, 600 * time.Millisecond, life - 550*time.Millisecond,
				life - 450*time.Millisecond, life + 150*time.Millisecond, life + 600*time.Millisecond}).Draw(t, "delay")
			if delay < 0 {
				delay = 100 * time.Millisecond
			}

			req := (&dns.Msg{}).SetQuestion(vdns.Name(kind, ti, fmt.Sprintf("p%d.rt.test.", i)), dns.TypeA)
			probes = append(probes, &probe{req: req, life: life, delay: delay, kind: kind})
		}

		// Three fixed probes make the interesting classes certain in every case:
		// an early hit, a late hit and a re-ask after expiry.
		for i, f := range []struct {
			ti    int
			delay time.Duration
		}{{0, 400 * time.Millisecond}, {1, 1500 * time.Millisecond}, {0, 1150 * time.Millisecond}} {
			req := (&dns.Msg{}).SetQuestion(vdns.Name(vdns.KA, f.ti, fmt.Sprintf("f%d.rt.test.", i)), dns.TypeA)
			probes = append(probes, &probe{req: req, life: time.Duration(vdns.TTLs[f.ti]) * time.Second, delay: f.delay, kind: vdns.KA})
		}

		for _, p := range probes {
			vc04Exchange(t, h, p.req.Copy())
			p.stored = time.Now() // after the store: the real age is at least time.Since(stored)
		}

		sort.Slice(probes, func(i, j int) bool { return probes[i].delay < probes[j].delay })
		for _, p := range probes {
			if d := time.Until(p.stored.Add(p.delay)); d > 0 {
				time.Sleep(d)
			}

			minAge := time.Since(p.stored)
			before := up.total
			resp := vc04Exchange(t, h, p.req.Copy())
			hit := up.total == before
			served, _ := vdns.MaxTTL(resp)
			cls := "rt-miss"
			switch {
			case hit && minAge*2 >= p.life:
				cls = "rt-late-hit"
			case hit:
				cls = "rt-hit"
			case minAge > p.life:
				cls = "rt-miss-after-expiry"
			}

			st.Case(fmt.Sprintf("%d/%s/%d", p.kind, p.life, p.delay/(100*time.Millisecond)), cls)
			if st.WantSample() && hit {
				st.Sample(map[string]any{"kind": vdns.KindNames[p.kind], "life_s": p.life.Seconds(), "min_age_ms": minAge.Milliseconds(), "served_ttl": served})
			}

			if !hit {
				continue
			}

			if minAge > p.life {
				t.Fatalf("real time: %s (life %s) served from cache at a measured age of at least %s", p.req.Question[0].Name, p.life, minAge)
			}

			if bound := vdns.Bound(uint32(p.life/time.Second), minAge); served > bound {
				t.Fatalf("real time: %s (life %s) served TTL %d at a measured age of at least %s; bound %d", p.req.Question[0].Name, p.life, served, minAge, bound)
			}
		}
	})
}

// ---------------------------------------------------------------------------
// (d) concurrent clients on one middleware (sampled schedules, run under the
// race detector as well): every response equals what a fresh instance gives for
// the same request, whoever stored or is reading the entry at the same time.

func TestVerifC04Concurrent(t *testing.T) {
	st := vstat.New("C04", "cache.concurrent",
		"rapid: G goroutines replay pre-drawn query lists over a small pool of questions (mixed case, DO, qtype, qclass near misses) against one cache.Middleware with the real LRU; oracle: each response equals the fresh-instance answer for its own request modulo TTLs and carries its own ID and question; schedules are sampled; non-trivial = a case where at least two goroutines asked the same question; distinct by the drawn plan",
		"shared-question")
	st.Finish(t)

	rapid.Check(t, func(t *rapid.T) {
		type q struct {
			name   string
			qt, qc uint16
			do     bool
		}

		nq := rapid.IntRange(2, 5).Draw(t, "questions")
		pool := make([]q, nq)
		for i := range pool {
			kind := rapid.SampledFrom([]vdns.Kind{vdns.KA, vdns.KAMixed, vdns.KCNAME, vdns.KNX, vdns.KNodataSOA, vdns.KServfail, vdns.KRefused}).Draw(t, "kind")
			pool[i] = q{
				name: vdns.Name(kind, 6, "conc.test."),
				qt:   rapid.SampledFrom([]uint16{dns.TypeA, dns.TypeAAAA, dns.TypeTXT}).Draw(t, "qt"),
				qc:   dns.ClassINET,
				do:   rapid.Bool().Draw(t, "do"),
			}
		}

		g := rapid.IntRange(2, 8).Draw(t, "goroutines")
		n := rapid.IntRange(5, 40).Draw(t, "perGoroutine")
		plans := make([][]*dns.Msg, g)
		used := map[int]int{}
		for i := range plans {
			for j := 0; j < n; j++ {
				k := rapid.IntRange(0, nq-1).Draw(t, "which")
				used[k]++
				p := pool[k]
				req := &dns.Msg{}
				req.Id = uint16(i<<8 | j)
				req.RecursionDesired = true
				req.Question = []dns.Question{{Name: vdns.MixCase(t, p.name), Qtype: p.qt, Qclass: p.qc}}
				if p.do {
					req.SetEdns0(1232, true)
				}

				plans[i] = append(plans[i], req)
			}
		}

		// References, computed sequentially on fresh instances.
		want := make([][]string, g)
		for i, plan := range plans {
			for _, req := range plan {
				fm := NewMiddleware(&MiddlewareConfig{Count: 10})
				want[i] = append(want[i], vdns.Canon(vc04ExchangePlain(fm.Wrap(&vc04LockedUpstream{}), req.Copy()), vdns.CanonOpts{}))
			}
		}

		m := NewMiddleware(&MiddlewareConfig{Count: 100})
		h := m.Wrap(&vc04LockedUpstream{})
		got := make([][]string, g)
		var wg sync.WaitGroup
		start := make(chan struct{})
		for i := range plans {
			wg.Add(1)
			go func(i int) {
				defer wg.Done()
				<-start
				for _, req := range plans[i] {
					got[i] = append(got[i], vdns.Canon(vc04ExchangePlain(h, req.Copy()), vdns.CanonOpts{}))
				}
			}(i)
		}

		close(start)
		wg.Wait()

		shared := false
		for _, c := range used {
			shared = shared || c > 1
		}

		cls, nt := "", ""
		if shared {
			cls, nt = "shared-question", fmt.Sprint(plans)
		}

		st.Case(nt, cls)
		for i := range plans {
			for j := range plans[i] {
				if got[i][j] != want[i][j] {
					t.Fatalf("goroutine %d query %d (%v) among %d goroutines:\nconcurrent %s\nalone      %s", i, j, plans[i][j].Question, g, got[i][j], want[i][j])
				}
			}
		}
	})
}

// vc04LockedUpstream is the reference upstream without call counting (safe for
// concurrent use).
type vc04LockedUpstream struct{}

func (vc04LockedUpstream) ServeDNS(ctx context.Context, rw dnsserver.ResponseWriter, req *dns.Msg) (err error) {
	return rw.WriteMsg(ctx, req, vdns.Answer(req, "", false))
}

// vc04ExchangePlain is vc04Exchange without a *rapid.T (callable from
// goroutines).
func vc04ExchangePlain(h dnsserver.Handler, req *dns.Msg) (resp *dns.Msg) {
	addr := &net.UDPAddr{IP: net.IP{192, 0, 2, 77}, Port: 5353}
	nrw := vc04NewRW(addr)
	if err := h.ServeDNS(context.Background(), nrw, req); err != nil {
		resp = (&dns.Msg{}).SetReply(req)
		resp.Rcode = 3841

		return resp
	}

	if resp = nrw.Msg(); resp == nil {
		resp = (&dns.Msg{}).SetReply(req)
		resp.Rcode = 3842
	}

	return resp
}
