//go:build verif

package dnssvc_test

// C04 through the wiring the ECS cache really has in front of it: the cache
// reads the client's location and ECS from the pooled agd.RequestInfo that
// ratelimitmw fills in, so "the same question, DO bit and client location" is
// only as good as that object.  Histories of different clients (with and
// without ECS, known and unknown locations, IPv4 and IPv6) ask overlapping
// questions on ONE stack (ratelimitmw -> ecscache -> subnet-tagging upstream);
// every answer must equal that of a fresh stack serving only this request.
// The stack and the generators are the ones of C05 (c05_ecs.go).

import (
	"fmt"
	"net/netip"
	"testing"

	"github.com/AdguardTeam/AdGuardDNS/internal/geoip"
	"github.com/miekg/dns"
	"pgregory.net/rapid"
	"verif.local/harness/vdns"
	"verif.local/harness/vstat"
)

func TestVerifC04Wired(tt *testing.T) {
	st := vstat.New("C04", "dnssvc.cache-behind-ratelimitmw",
		"rapid histories of 2-14 queries by clients of different locations and ECS settings (none / valid / declined) over overlapping scoped and unscoped names of every cacheable and uncacheable kind through one ratelimitmw + ecscache stack; oracle: rcode, flags and records equal those a fresh stack gives the same client for the same request; non-trivial = the question was asked before in the history by a client with another location or ECS setting; distinct by (question, client, earlier clients)",
		"asked-before-by-other-client", "served-from-cache", "no-ecs-after-ecs", "ecs-after-no-ecs", "scoped-name")
	st.Finish(tt)

	vc05UseRealAddrs = false
	model := vc05NewGeo()
	env := &vc05Env{geo: model, locate: func(a netip.Addr) *geoip.Location {
		l, _ := model.Data("", a)

		return l
	}}

	rapid.Check(tt, func(t *rapid.T) {
		s := vc05NewStack(tt, env)
		var hist []string
		type asked struct {
			name string
			qt   uint16
			do   bool
		}
		var pool []asked
		askedBy := map[string][]string{}
		prevMode := -1

		for i, steps := 0, rapid.IntRange(2, 14).Draw(t, "steps"); i < steps; i++ {
			var a asked
			if len(pool) > 0 && rapid.IntRange(0, 2).Draw(t, "repeat") > 0 {
				a = pool[rapid.IntRange(0, len(pool)-1).Draw(t, "which")]
			} else {
				kind := vdns.Kind(rapid.IntRange(0, int(vdns.KErr)-1).Draw(t, "kind"))
				zone := rapid.SampledFrom([]string{"s.test.", "s.test.", "u.test."}).Draw(t, "zone")
				a = asked{
					name: vdns.Name(kind, 6, zone),
					qt:   rapid.SampledFrom([]uint16{dns.TypeA, dns.TypeA, dns.TypeAAAA, dns.TypeTXT, dns.TypeSRV, dns.TypeMX, dns.TypeHTTPS}).Draw(t, "qt"),
					do:   rapid.IntRange(0, 4).Draw(t, "do") == 0,
				}
				pool = append(pool, a)
			}

			c := vc05DrawClient(t)
			switch c.Mode {
			case vc05None, vc05Valid, vc05Declined:
			default:
				// Malformed options are C05's subject.
				c.Mode = vc05None
			}

			c.Second = netip.Prefix{}
			req := vc05BuildReq(t, vdns.MixCase(t, a.name), a.qt, a.do, c)
			resp, nUp, _, writes := vc05Exchange(t, s, c, req.Copy())
			hist = append(hist, fmt.Sprintf("%s %d do=%t %s -> up=%d", a.name, a.qt, a.do, c, nUp))

			if resp == nil || writes != 1 {
				t.Fatalf("history %v: %d responses", hist, writes)
			}

			fresh, _, _, _ := vc05Exchange(t, vc05NewStack(tt, env), c, req.Copy())
			if g, w := vdns.Canon(resp, vdns.CanonOpts{WithOPT: true}), vdns.Canon(fresh, vdns.CanonOpts{WithOPT: true}); g != w {
				t.Fatalf("history %v\nthis stack  %s\nfresh stack %s", hist, g, w)
			}

			if resp.Id != req.Id || len(resp.Question) != 1 || resp.Question[0] != req.Question[0] {
				t.Fatalf("history %v: response id/question %d %v differ from the request's %d %v", hist, resp.Id, resp.Question, req.Id, req.Question)
			}

			qk := vdns.QKey(req.Question[0], a.do)
			me := c.String()
			classes := []string{}
			nt := ""
			for _, other := range askedBy[qk] {
				if other != me {
					nt = fmt.Sprintf("%s|%s|%v", qk, me, askedBy[qk])
					classes = append(classes, "asked-before-by-other-client")

					break
				}
			}

			if nUp == 0 {
				classes = append(classes, "served-from-cache")
			}

			if vc05Scoped(a.name) {
				classes = append(classes, "scoped-name")
			}

			switch {
			case prevMode == vc05Valid && c.Mode == vc05None:
				classes = append(classes, "no-ecs-after-ecs")
			case prevMode == vc05None && c.Mode == vc05Valid:
				classes = append(classes, "ecs-after-no-ecs")
			}

			prevMode = c.Mode
			askedBy[qk] = append(askedBy[qk], me)
			st.Case(nt, classes...)
			if st.WantSample() && nt != "" {
				st.Sample(map[string]any{"question": qk, "client": me, "earlier_clients": askedBy[qk], "from_cache": nUp == 0})
			}
		}
	})
}
