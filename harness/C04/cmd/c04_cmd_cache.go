//go:build verif

package cmd

// C04, configuration plumbing: a generated `cache:` section -- every setting
// different from its neighbours -- is parsed and validated by the package's
// own code and converted by (*cacheConfig).toInternal.  (a) Fidelity: every
// value written into the YAML text arrives in the field of dnssvc.CacheConfig
// that the documentation assigns to it (hand-written mapping, never the
// conversion's).  (b) Behaviour: the handlers are built from the converted
// structure the way builder.initDNS builds them (dnssvc.NewHandlers) in front
// of a TTL- and subnet-tagging upstream, and are probed against what
// doc/configuration.md says about the values in the YAML text: size 0 means no
// caching at all, `size` and `ecs_size` items fit into their caches and one
// more does not, ttl_override raises a cached TTL to `min` exactly when it is
// enabled, and an ECS-scoped answer stays with the location it was cached for
// exactly when the type is `ecs`.

import (
	"context"
	"fmt"
	"net"
	"net/netip"
	"os"
	"path/filepath"
	"sort"
	"strings"
	"testing"
	"time"

	"github.com/AdguardTeam/AdGuardDNS/internal/agd"
	"github.com/AdguardTeam/AdGuardDNS/internal/agdcache"
	"github.com/AdguardTeam/AdGuardDNS/internal/agdtest"
	"github.com/AdguardTeam/AdGuardDNS/internal/billstat"
	"github.com/AdguardTeam/AdGuardDNS/internal/dnsdb"
	"github.com/AdguardTeam/AdGuardDNS/internal/dnsserver"
	"github.com/AdguardTeam/AdGuardDNS/internal/dnssvc"
	"github.com/AdguardTeam/AdGuardDNS/internal/filter"
	"github.com/AdguardTeam/AdGuardDNS/internal/filter/hashprefix"
	"github.com/AdguardTeam/AdGuardDNS/internal/geoip"
	"github.com/AdguardTeam/AdGuardDNS/internal/querylog"
	"github.com/AdguardTeam/AdGuardDNS/internal/rulestat"
	"github.com/AdguardTeam/golibs/logutil/slogutil"
	"github.com/AdguardTeam/golibs/netutil"
	"github.com/miekg/dns"
	"github.com/prometheus/client_golang/prometheus"
	"pgregory.net/rapid"
	"verif.local/harness/vstat"
)

// vc04cmdSettings are the values written into the YAML text.
type vc04cmdSettings struct {
	Type     string
	Size     int
	ECSSize  int
	Override bool
	Min      time.Duration
}

func (s *vc04cmdSettings) yaml() string {
	return fmt.Sprintf(`cache:
    type: '%s'
    size: %d
    ecs_size: %d
    ttl_override:
        enabled: %t
        min: %s
`, s.Type, s.Size, s.ECSSize, s.Override, s.Min)
}

// Model GeoIP: two client pools with different locations, each location with
// its own coarse subnet per family.
var (
	vc04cmdPoolA = netip.MustParsePrefix("203.0.113.0/26")
	vc04cmdPoolB = netip.MustParsePrefix("203.0.113.128/26")

	vc04cmdSubnetA = netip.MustParsePrefix("198.18.16.0/20")
	vc04cmdSubnetB = netip.MustParsePrefix("198.18.64.0/22")
)

func vc04cmdNewGeo() (g *agdtest.GeoIP) {
	g = agdtest.NewGeoIP()
	g.OnData = func(_ string, ip netip.Addr) (l *geoip.Location, err error) {
		switch {
		case vc04cmdPoolA.Contains(ip):
			return &geoip.Location{Country: "US", ASN: 1}, nil
		case vc04cmdPoolB.Contains(ip):
			return &geoip.Location{Country: "DE", ASN: 2}, nil
		default:
			return nil, nil
		}
	}
	g.OnSubnetByLocation = func(l *geoip.Location, fam netutil.AddrFamily) (n netip.Prefix, err error) {
		switch {
		case fam != netutil.AddrFamilyIPv4:
			return netutil.ZeroPrefix(fam), nil
		case l.Country == "US":
			return vc04cmdSubnetA, nil
		case l.Country == "DE":
			return vc04cmdSubnetB, nil
		default:
			return netutil.ZeroPrefix(fam), nil
		}
	}

	return g
}

// vc04cmdUpstream answers every A question with one record whose TTL is taken
// from the table and whose address names the subnet the query carried, if the
// name is under the scoped zone.
type vc04cmdUpstream struct {
	ttls  map[string]uint32
	calls int
	ecs   []string
}

func vc04cmdScoped(name string) bool { return strings.HasSuffix(strings.ToLower(name), ".s.test.") }

func vc04cmdECS(m *dns.Msg) (e *dns.EDNS0_SUBNET) {
	opt := m.IsEdns0()
	if opt == nil {
		return nil
	}

	for _, o := range opt.Option {
		if sn, ok := o.(*dns.EDNS0_SUBNET); ok {
			return sn
		}
	}

	return nil
}

// vc04cmdTagIP is the address the upstream answers with for a subnet tag.
func vc04cmdTagIP(tag string) net.IP {
	switch tag {
	case "":
		return net.IP{10, 0, 0, 1}
	case vc04cmdSubnetA.String():
		return net.IP{10, 0, 0, 2}
	case vc04cmdSubnetB.String():
		return net.IP{10, 0, 0, 3}
	default:
		return net.IP{10, 0, 0, 99}
	}
}

func (u *vc04cmdUpstream) ServeDNS(ctx context.Context, rw dnsserver.ResponseWriter, req *dns.Msg) (err error) {
	u.calls++
	q := req.Question[0]
	e := vc04cmdECS(req)
	tag := ""
	if e != nil {
		a, _ := netip.AddrFromSlice(e.Address)
		tag = netip.PrefixFrom(a.Unmap(), int(e.SourceNetmask)).String()
	}

	u.ecs = append(u.ecs, tag)
	scoped := vc04cmdScoped(q.Name)
	if !scoped {
		tag = ""
	}

	ttl, ok := u.ttls[strings.ToLower(q.Name)]
	if !ok {
		ttl = 300
	}

	resp := (&dns.Msg{}).SetReply(req)
	resp.RecursionAvailable = true
	resp.Answer = []dns.RR{&dns.A{
		Hdr: dns.RR_Header{Name: q.Name, Rrtype: dns.TypeA, Class: dns.ClassINET, Ttl: ttl},
		A:   vc04cmdTagIP(tag),
	}}
	if opt := req.IsEdns0(); opt != nil {
		resp.SetEdns0(1232, opt.Do())
		if e != nil {
			scope := uint8(0)
			if scoped {
				scope = e.SourceNetmask
			}

			ro := resp.IsEdns0()
			ro.Option = append(ro.Option, &dns.EDNS0_SUBNET{
				Code: dns.EDNS0SUBNET, Family: e.Family, SourceNetmask: e.SourceNetmask, SourceScope: scope, Address: e.Address,
			})
		}
	}

	return rw.WriteMsg(ctx, req, resp)
}

type vc04cmdRW struct {
	local, remote net.Addr
	resp          *dns.Msg
	writes        int
}

func (rw *vc04cmdRW) LocalAddr() net.Addr  { return rw.local }
func (rw *vc04cmdRW) RemoteAddr() net.Addr { return rw.remote }
func (rw *vc04cmdRW) WriteMsg(_ context.Context, _, resp *dns.Msg) error {
	rw.resp = resp
	rw.writes++

	return nil
}

// vc04cmdStack is the handler chain of one plain-DNS server, built as
// builder.initDNS builds it, over the converted cache configuration.
type vc04cmdStack struct {
	h   dnsserver.Handler
	up  *vc04cmdUpstream
	srv *agd.Server
}

var vc04cmdLocal = netip.MustParseAddrPort("192.0.2.53:53")

func vc04cmdNewStack(tb testing.TB, cc *dnssvc.CacheConfig, ttls map[string]uint32) (s *vc04cmdStack, err error) {
	up := &vc04cmdUpstream{ttls: ttls}
	srv := &agd.Server{Name: "c04", Protocol: agd.ProtoDNS}
	srv.SetBindData([]*agd.ServerBindData{{AddrPort: vc04cmdLocal}})
	fltGrp := &agd.FilteringGroup{
		FilterConfig: &filter.ConfigGroup{
			Parental:     &filter.ConfigParental{},
			RuleList:     &filter.ConfigRuleList{},
			SafeBrowsing: &filter.ConfigSafeBrowsing{},
		},
		ID: "fg",
	}
	srvGrp := &agd.ServerGroup{
		DDR:            &agd.DDR{},
		Name:           "sg",
		FilteringGroup: "fg",
		Servers:        []*agd.Server{srv},
	}
	errColl := agdtest.NewErrorCollector()
	errColl.OnCollect = func(context.Context, error) {}
	rl := agdtest.NewRateLimit()
	rl.OnIsRateLimited = func(context.Context, *dns.Msg, netip.Addr) (bool, bool, error) { return false, false, nil }
	rl.OnCountResponses = func(context.Context, *dns.Msg, netip.Addr) {}

	// The plain cache's metrics listener registers with the default
	// registerer through promauto; give every stack its own.
	reg := agdtest.NewTestPrometheusRegisterer()
	oldReg := prometheus.DefaultRegisterer
	prometheus.DefaultRegisterer = reg
	defer func() { prometheus.DefaultRegisterer = oldReg }()

	handlers, err := dnssvc.NewHandlers(context.Background(), &dnssvc.HandlersConfig{
		BaseLogger:       slogutil.NewDiscardLogger(),
		Cache:            cc,
		Cloner:           agdtest.NewCloner(),
		HumanIDParser:    agd.NewHumanIDParser(),
		Messages:         agdtest.NewConstructor(tb),
		PluginRegistry:   nil,
		StructuredErrors: agdtest.NewSDEConfig(true),
		AccessManager: &agdtest.AccessManager{
			OnIsBlockedHost: func(string, uint16) bool { return false },
			OnIsBlockedIP:   func(netip.Addr) bool { return false },
		},
		BillStat:     billstat.EmptyRecorder{},
		CacheManager: agdcache.EmptyManager{},
		DNSCheck: &agdtest.DNSCheck{
			OnCheck: func(context.Context, *dns.Msg, *agd.RequestInfo) (*dns.Msg, error) { return nil, nil },
		},
		DNSDB:   dnsdb.Empty{},
		ErrColl: errColl,
		FilterStorage: &agdtest.FilterStorage{
			OnForConfig: func(context.Context, filter.Config) filter.Interface { return filter.Empty{} },
			OnHasListID: func(filter.ID) bool { return true },
		},
		GeoIP:                vc04cmdNewGeo(),
		Handler:              up,
		HashMatcher:          hashprefix.NewMatcher(nil),
		ProfileDB:            agdtest.NewProfileDB(),
		PrometheusRegisterer: reg,
		QueryLog:             querylog.Empty{},
		RateLimit:            rl,
		RuleStat:             rulestat.Empty{},
		MetricsNamespace:     "vc04cmd",
		FilteringGroups:      map[agd.FilteringGroupID]*agd.FilteringGroup{"fg": fltGrp},
		ServerGroups:         []*agd.ServerGroup{srvGrp},
		EDEEnabled:           true,
	})
	if err != nil {
		return nil, err
	}

	h, ok := handlers[dnssvc.HandlerKey{Server: srv, ServerGroup: srvGrp}]
	if !ok {
		return nil, fmt.Errorf("no handler for the server")
	}

	return &vc04cmdStack{h: h, up: up, srv: srv}, nil
}

// vc04cmdAnswer is what one query showed.
type vc04cmdAnswer struct {
	ttl     uint32
	ip      string
	upCalls int
	upECS   []string
}

func (s *vc04cmdStack) ask(client netip.Addr, name string, id uint16) (a vc04cmdAnswer, err error) {
	rw := &vc04cmdRW{
		local:  net.UDPAddrFromAddrPort(vc04cmdLocal),
		remote: net.UDPAddrFromAddrPort(netip.AddrPortFrom(client, 40053)),
	}
	ctx, cancel := context.WithTimeout(context.Background(), 10*time.Second)
	defer cancel()

	ctx = dnsserver.ContextWithServerInfo(ctx, &dnsserver.ServerInfo{Name: "c04", Addr: vc04cmdLocal.String(), Proto: agd.ProtoDNS})
	ctx = dnsserver.ContextWithRequestInfo(ctx, &dnsserver.RequestInfo{StartTime: time.Now()})

	req := (&dns.Msg{}).SetQuestion(name, dns.TypeA)
	req.Id = id
	req.SetEdns0(1232, false)

	before, ecsBefore := s.up.calls, len(s.up.ecs)
	err = s.h.ServeDNS(ctx, rw, req)
	if err != nil {
		return a, fmt.Errorf("handler error: %w", err)
	}

	if rw.writes != 1 || rw.resp == nil {
		return a, fmt.Errorf("%d responses written", rw.writes)
	}

	resp := rw.resp
	if resp.Id != id || resp.Rcode != dns.RcodeSuccess || len(resp.Answer) != 1 {
		return a, fmt.Errorf("unexpected response %v", resp)
	}

	rr, ok := resp.Answer[0].(*dns.A)
	if !ok {
		return a, fmt.Errorf("unexpected answer %v", resp.Answer[0])
	}

	return vc04cmdAnswer{
		ttl:     rr.Hdr.Ttl,
		ip:      rr.A.String(),
		upCalls: s.up.calls - before,
		upECS:   append([]string(nil), s.up.ecs[ecsBefore:]...),
	}, nil
}

// vc04cmdSlack is how many seconds a cached TTL may lag behind its value at
// insertion before the case is discarded as too slow (a machine under load);
// the upper bounds of the oracle are exact.
const vc04cmdSlack = 4

func TestVerifC04CmdCache(t *testing.T) {
	st := vstat.New("C04", "cmd.cache-config",
		"rapid: a `cache:` YAML section (type simple/ecs; size 0 or small; ecs_size different from size; ttl_override.enabled; ttl_override.min different from every upstream TTL, with upstream TTLs at min-1, min, min+1 and far below/above) -> parseConfig, validate, (*cacheConfig).toInternal; fidelity of every field of dnssvc.CacheConfig against the YAML values (hand mapping); then dnssvc.NewHandlers as in builder.initDNS over a TTL- and subnet-tagging upstream with a two-location model GeoIP: repeat TTL vs override, size 0 => upstream asked every time, `size` (`ecs_size`) names fit and one more does not, scoped answer not served to another location iff type is ecs; non-trivial = a probe whose verdict depends on a setting differing from its neighbour (override raised a TTL, capacities told apart, locations told apart); distinct by settings and probe parameters",
		"type-simple", "type-ecs", "size-zero-no-caching", "override-enabled-ttl-raised-to-min", "override-disabled-ttl-below-min-kept",
		"override-enabled-ttl-above-min-kept", "no-ecs-capacity-told-from-ecs-size", "ecs-capacity-told-from-size",
		"scoped-answer-kept-from-other-location", "simple-cache-shared-across-locations", "ttl-at-min-boundary")
	st.Finish(t)

	dir := t.TempDir()
	caseNo := 0

	rapid.Check(t, func(rt *rapid.T) {
		caseNo++
		start := time.Now()

		s := vc04cmdSettings{
			Type:     rapid.SampledFrom([]string{"simple", "ecs"}).Draw(rt, "type"),
			Override: rapid.Bool().Draw(rt, "override"),
			Min:      time.Duration(rapid.SampledFrom([]int{20, 45, 60, 90, 600}).Draw(rt, "minSec")) * time.Second,
		}
		s.Size = rapid.SampledFrom([]int{0, 1, 2, 3, 4, 5, 2, 3}).Draw(rt, "size")
		ecsPool := []int{}
		for _, v := range []int{1, 2, 3, 4, 5, 6} {
			if v != s.Size {
				ecsPool = append(ecsPool, v)
			}
		}
		s.ECSSize = rapid.SampledFrom(ecsPool).Draw(rt, "ecsSize")

		text := s.yaml()
		path := filepath.Join(dir, fmt.Sprintf("c%d.yaml", caseNo))
		if err := os.WriteFile(path, []byte(text), 0o600); err != nil {
			rt.Fatalf("harness: %v", err)
		}
		defer func() { _ = os.Remove(path) }()

		conf, err := parseConfig(path)
		if err != nil || conf.Cache == nil {
			rt.Fatalf("the generated cache section was not parsed: %v\n%s", err, text)
		}

		if err = conf.Cache.validate(); err != nil {
			rt.Fatalf("a valid cache section was rejected: %v\n%s", err, text)
		}

		cc := conf.Cache.toInternal()

		// (a) Fidelity, by the documentation of the keys.
		wantType := dnssvc.CacheTypeECS
		switch {
		case s.Size == 0:
			// "size: ... If zero, cache is disabled."
			wantType = dnssvc.CacheTypeNone
		case s.Type == "simple":
			wantType = dnssvc.CacheTypeSimple
		}

		// VERIF_C04CMD_BEHAVIOUR_ONLY (sensitivity runs only) leaves the verdict
		// to the probes.
		if os.Getenv("VERIF_C04CMD_BEHAVIOUR_ONLY") != "" {
			// Nothing.
		} else if cc.Type != wantType || cc.NoECSCount != s.Size || cc.ECSCount != s.ECSSize || cc.MinTTL != s.Min || cc.OverrideCacheTTL != s.Override {
			rt.Fatalf("conversion: configured type=%s size=%d ecs_size=%d ttl_override.enabled=%t ttl_override.min=%s, handed to the handlers: Type=%d (want %d) NoECSCount=%d ECSCount=%d OverrideCacheTTL=%t MinTTL=%s\n%s",
				s.Type, s.Size, s.ECSSize, s.Override, s.Min, cc.Type, wantType, cc.NoECSCount, cc.ECSCount, cc.OverrideCacheTTL, cc.MinTTL, text)
		}

		classes := map[string]bool{"type-" + s.Type: true}
		var hist []string
		fail := func(format string, args ...any) {
			rt.Fatalf("%s\nsettings %+v\n%s  %s", fmt.Sprintf(format, args...), s, text, strings.Join(hist, "\n  "))
		}

		ttls := map[string]uint32{}
		newStack := func(what string) *vc04cmdStack {
			// Every stack gets a conversion of its own, as a restarted service
			// would.
			stk, serr := vc04cmdNewStack(t, conf.Cache.toInternal(), ttls)
			if serr != nil {
				fail("%s: building the handlers from the converted configuration: %v", what, serr)
			}

			hist = append(hist, "-- new stack: "+what)

			return stk
		}

		id := uint16(rapid.IntRange(1, 60000).Draw(rt, "id"))
		ask := func(stk *vc04cmdStack, client netip.Addr, name string) vc04cmdAnswer {
			id++
			a, aerr := stk.ask(client, name, id)
			hist = append(hist, fmt.Sprintf("%s asks %s -> ttl=%d ip=%s upstream calls=%d ecs sent upstream=%q err=%v", client, name, a.ttl, a.ip, a.upCalls, a.upECS, aerr))
			if aerr != nil {
				fail("query failed: %v", aerr)
			}

			return a
		}

		hostA := func(i int) netip.Addr { return netip.AddrFrom4([4]byte{203, 0, 113, byte(1 + i%60)}) }
		hostB := func(i int) netip.Addr { return netip.AddrFrom4([4]byte{203, 0, 113, byte(129 + i%60)}) }
		clientA := hostA(rapid.IntRange(0, 59).Draw(rt, "clientA"))
		clientB := hostB(rapid.IntRange(0, 59).Draw(rt, "clientB"))

		minSec := uint32(s.Min / time.Second)
		salt := rapid.StringMatching(`[a-z]{3}`).Draw(rt, "salt")

		// Probe 1: repeat TTL against the override settings, for an unscoped
		// and a scoped name.
		u := rapid.SampledFrom([]uint32{minSec - 1, minSec, minSec + 1, 5, 7, minSec / 2, 2 * minSec, 3600}).Draw(rt, "upstreamTTL")
		if u == minSec-1 || u == minSec || u == minSec+1 {
			classes["ttl-at-min-boundary"] = true
		}

		stk := newStack("ttl probe")
		for _, zone := range []string{"u.test.", "s.test."} {
			name := fmt.Sprintf("ttl-%s.%s", salt, zone)
			ttls[name] = u
			first := ask(stk, clientA, name)
			if first.upCalls != 1 {
				fail("the first query for a name did not reach the upstream exactly once")
			}

			if first.ttl > max(u, minSec) {
				fail("fresh answer with TTL %d, upstream TTL %d, ttl_override.min %ds", first.ttl, u, minSec)
			}

			second := ask(stk, clientA, name)
			if s.Size == 0 {
				// "If zero, cache is disabled."
				classes["size-zero-no-caching"] = true
				if second.upCalls != 1 {
					fail("size is 0 (cache disabled) but the repeated query did not reach the upstream")
				}

				if second.ttl != u && !s.Override {
					fail("size is 0 (cache disabled) and no override, but the answer's TTL %d is not the upstream's %d", second.ttl, u)
				}

				continue
			}

			if second.upCalls != 0 {
				fail("size is %d (cache enabled) but the immediately repeated query went to the upstream", s.Size)
			}

			want := u
			if s.Override {
				want = max(u, minSec)
			}

			if second.ttl > want {
				fail("cached answer has TTL %d; upstream TTL %d, ttl_override.enabled=%t min=%ds allow at most %d", second.ttl, u, s.Override, minSec, want)
			}

			if second.ttl+vc04cmdSlack < want {
				if time.Since(start) > 2*time.Second {
					st.Class("slow-case-discarded")
					rt.Skip("slow case")
				}

				fail("cached answer has TTL %d right after insertion; upstream TTL %d, ttl_override.enabled=%t min=%ds give %d", second.ttl, u, s.Override, minSec, want)
			}

			switch {
			case s.Override && minSec > u+vc04cmdSlack:
				classes["override-enabled-ttl-raised-to-min"] = true
			case s.Override && u > minSec:
				classes["override-enabled-ttl-above-min-kept"] = true
			case !s.Override && minSec > u:
				classes["override-disabled-ttl-below-min-kept"] = true
			}
		}

		// Probe 2: capacities.  n distinct names fit into a cache of n items
		// and are all served from it when asked again; of n+1 names at least
		// one is not.
		capacity := func(what, zone string, n int, otherN int, class string) {
			for _, extra := range []int{0, 1} {
				stk := newStack(fmt.Sprintf("%s capacity %d, %d names", what, n, n+extra))
				names := make([]string, n+extra)
				for i := range names {
					names[i] = fmt.Sprintf("cap%d-%s.%s", i, salt, zone)
					if a := ask(stk, clientA, names[i]); a.upCalls != 1 {
						fail("%s: a new name did not reach the upstream exactly once", what)
					}
				}

				misses := 0
				for _, nm := range names {
					misses += ask(stk, clientA, nm).upCalls
				}

				if extra == 0 && misses != 0 {
					fail("%s is %d, but of %d distinct names asked once each, %d were not served from the cache when asked again", what, n, n, misses)
				} else if extra == 1 && misses == 0 {
					fail("%s is %d, but %d distinct names were all served from the cache", what, n, n+1)
				}
			}

			// The probe tells n from the neighbouring setting whenever they
			// differ, which they always do.
			if otherN != n {
				classes[class] = true
			}
		}

		if s.Size > 0 {
			capacity("size", "u.test.", s.Size, s.ECSSize, "no-ecs-capacity-told-from-ecs-size")
			if s.Type == "ecs" {
				capacity("ecs_size", "s.test.", s.ECSSize, s.Size, "ecs-capacity-told-from-size")
			}
		}

		// Probe 3: locations.
		if s.Size > 0 {
			stk := newStack("locations")
			name := fmt.Sprintf("loc-%s.s.test.", salt)
			a1 := ask(stk, clientA, name)
			b1 := ask(stk, clientB, name)
			a2 := ask(stk, hostA(rapid.IntRange(0, 59).Draw(rt, "clientA2")), name)
			switch s.Type {
			case "ecs":
				classes["scoped-answer-kept-from-other-location"] = true
				if len(a1.upECS) != 1 || a1.upECS[0] != vc04cmdSubnetA.String() {
					fail("type ecs: the upstream query for a client of location A carried ECS %q, want the location's subnet %s", a1.upECS, vc04cmdSubnetA)
				}

				if b1.upCalls != 1 || b1.ip == a1.ip {
					fail("type ecs: a client of another location got the answer scoped to %s (upstream calls %d)", vc04cmdSubnetA, b1.upCalls)
				}

				// Two scoped entries (one per location) need two items.
				if a2.ip != a1.ip || (s.ECSSize >= 2 && a2.upCalls != 0) {
					fail("type ecs: a client of the same location was not served the answer cached for it")
				}
			case "simple":
				classes["simple-cache-shared-across-locations"] = true
				if len(a1.upECS) != 1 || a1.upECS[0] != "" {
					fail("type simple: the upstream query carried ECS %q", a1.upECS)
				}

				if b1.upCalls != 0 || a2.upCalls != 0 {
					fail("type simple: the location-unaware cache was not used for a repeated question (upstream calls %d, %d)", b1.upCalls, a2.upCalls)
				}
			}
		}

		var cl []string
		nt := false
		for c := range classes {
			cl = append(cl, c)
			if !strings.HasPrefix(c, "type-") && c != "ttl-at-min-boundary" {
				nt = true
			}
		}

		sort.Strings(cl)
		key := ""
		if nt {
			key = fmt.Sprintf("%+v|%d|%v", s, u, cl)
		}

		st.Case(key, cl...)
		if nt && st.WantSample() {
			st.Sample(map[string]any{"yaml": strings.Split(text, "\n"), "upstream_ttl": u, "classes": cl, "history": hist})
		}
	})
}
