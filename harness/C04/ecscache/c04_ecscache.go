//go:build verif

package ecscache

// C04 (ECS-aware cache): cached answers equal fresh answers and never outlive
// their TTL.  See /verif/DESIGN.md, section 3, C04.

import (
	"context"
	"errors"
	"fmt"
	"net"
	"net/netip"
	"sort"
	"strings"
	"testing"
	"time"

	"github.com/AdguardTeam/AdGuardDNS/internal/agd"
	"github.com/AdguardTeam/AdGuardDNS/internal/agdcache"
	"github.com/AdguardTeam/AdGuardDNS/internal/agdnet"
	"github.com/AdguardTeam/AdGuardDNS/internal/agdtest"
	"github.com/AdguardTeam/AdGuardDNS/internal/dnsmsg"
	"github.com/AdguardTeam/AdGuardDNS/internal/dnsserver"
	"github.com/AdguardTeam/AdGuardDNS/internal/geoip"
	"github.com/AdguardTeam/golibs/logutil/slogutil"
	"github.com/AdguardTeam/golibs/netutil"
	"github.com/miekg/dns"
	"pgregory.net/rapid"
	"verif.local/harness/vdns"
	"verif.local/harness/vstat"
)

// ---------------------------------------------------------------------------
// (a) age grid through fromCacheItem

func vc04EcsGridMsg(shape int, ttl uint32) (req, resp *dns.Msg, lowest uint32) {
	req = (&dns.Msg{}).SetQuestion("grid.example.", dns.TypeA)
	resp = (&dns.Msg{}).SetReply(req)
	hdr := func(n string, t uint16, ttl uint32) dns.RR_Header {
		return dns.RR_Header{Name: n, Rrtype: t, Class: dns.ClassINET, Ttl: ttl}
	}

	switch shape {
	case 0:
		resp.Answer = []dns.RR{&dns.A{Hdr: hdr("grid.example.", dns.TypeA, ttl), A: net.IP{192, 0, 2, 1}}}
		lowest = ttl
	case 1:
		resp.Answer = []dns.RR{
			&dns.A{Hdr: hdr("grid.example.", dns.TypeA, ttl+10), A: net.IP{192, 0, 2, 1}},
			&dns.A{Hdr: hdr("grid.example.", dns.TypeA, ttl), A: net.IP{192, 0, 2, 2}},
		}
		resp.Ns = []dns.RR{&dns.NS{Hdr: hdr("example.", dns.TypeNS, ttl+100), Ns: "ns.example."}}
		lowest = ttl
	case 2:
		resp.Rcode = dns.RcodeNameError
		resp.Ns = []dns.RR{&dns.SOA{Hdr: hdr("example.", dns.TypeSOA, ttl+50), Ns: "ns.example.", Mbox: "m.example.", Minttl: ttl}}
		lowest = ttl
	case 3:
		resp.Ns = []dns.RR{&dns.SOA{Hdr: hdr("example.", dns.TypeSOA, ttl), Ns: "ns.example.", Mbox: "m.example.", Minttl: ttl + 7}}
		lowest = ttl
	case 4:
		resp.Rcode = dns.RcodeServerFailure
		resp.Extra = []dns.RR{&dns.TXT{Hdr: hdr("grid.example.", dns.TypeTXT, ttl), Txt: []string{"x"}}}
		lowest = min(ttl, 30)
	}

	return req, resp, lowest
}

func vc04EcsCheckAge(t interface{ Fatalf(string, ...any) }, st *vstat.Stats, cl *dnsmsg.Cloner, shape int, ttl uint32, age time.Duration) {
	req, resp, lowest := vc04EcsGridMsg(shape, ttl)
	item := &cacheItem{msg: resp, when: time.Now().Add(-age), host: "grid.example"}
	got := fromCacheItem(item, cl, req, false)
	bound := vdns.Bound(lowest, age)
	served, n := vdns.MaxTTL(got)

	cls := "early"
	switch {
	case age >= time.Duration(lowest)*time.Second:
		cls = "expired"
	case bound == 0:
		cls = "late-rounds-to-zero"
	case age >= time.Duration(lowest)*time.Second/2:
		cls = "late"
	}

	nt := ""
	if age > 0 {
		nt = fmt.Sprintf("%d/%d/%d", shape, ttl, age/(100*time.Millisecond))
	}

	st.Case(nt, cls, fmt.Sprintf("shape%d", shape))
	if st.WantSample() && cls != "early" {
		st.Sample(map[string]any{"shape": shape, "ttl": ttl, "age_ms": age.Milliseconds(), "served_ttl": served, "bound": bound})
	}

	if n == 0 {
		t.Fatalf("shape %d: cached message lost its records", shape)
	}

	if served > bound {
		t.Fatalf("ecscache shape %d ttl %d (lowest %d) age %s: served TTL %d > bound %d", shape, ttl, lowest, age, served, bound)
	}

	if got.Rcode != resp.Rcode || len(got.Answer) != len(resp.Answer) || len(got.Ns) != len(resp.Ns) {
		t.Fatalf("shape %d: cached message differs from stored one: %v vs %v", shape, got, resp)
	}
}

func TestVerifC04EcsAgeGrid(t *testing.T) {
	st := vstat.New("C04", "ecscache.agegrid",
		"bounded-exhaustive (shape x ttl x age on a 100ms grid from 0 to ttl+1s) through ecscache.fromCacheItem; non-trivial = age>0, distinct by (shape,ttl,age)",
		"late-rounds-to-zero", "expired")
	st.SetExhaustive()
	st.Finish(t)

	cl := agdtest.NewCloner()
	for shape := 0; shape <= 4; shape++ {
		for _, ttl := range []uint32{1, 2, 3, 5, 30, 31, 300} {
			end := time.Duration(ttl)*time.Second + time.Second
			for age := time.Duration(0); age <= end; age += 100 * time.Millisecond {
				vc04EcsCheckAge(t, st, cl, shape, ttl, age)
			}
		}
	}
}

func TestVerifC04EcsAgeRapid(t *testing.T) {
	st := vstat.New("C04", "ecscache.agerapid",
		"rapid (shape, ttl in 1..100000, age in ms up to ttl+2s, biased to the last two seconds of life) through ecscache.fromCacheItem; non-trivial = age>0, distinct by (shape,ttl,age/100ms)",
		"late-rounds-to-zero", "expired")
	st.Finish(t)

	cl := agdtest.NewCloner()
	rapid.Check(t, func(t *rapid.T) {
		shape := rapid.IntRange(0, 4).Draw(t, "shape")
		ttl := rapid.OneOf(rapid.Uint32Range(1, 10), rapid.Uint32Range(1, 100000)).Draw(t, "ttl")
		lifeMs := int64(ttl) * 1000
		if shape == 4 {
			lifeMs = int64(min(ttl, 30)) * 1000
		}

		ageMs := rapid.OneOf(
			rapid.Int64Range(0, lifeMs+2000),
			rapid.Int64Range(max(0, lifeMs-2000), lifeMs+2000),
		).Draw(t, "ageMs")
		vc04EcsCheckAge(t, st, cl, shape, ttl, time.Duration(ageMs)*time.Millisecond)
	})
}

// ---------------------------------------------------------------------------
// (b) histories with an owned clock

// vc04Clock is shared by the two stores of one middleware.
type vc04Clock struct{ now time.Duration }

// vc04Store is a map-backed agdcache.Interface driven by the harness clock.
type vc04Store struct {
	clk   *vc04Clock
	items map[uint64]*vc04StoreItem
}

type vc04StoreItem struct {
	val      *cacheItem
	deadline time.Duration
}

var _ agdcache.Interface[uint64, *cacheItem] = (*vc04Store)(nil)

func (c *vc04Store) Set(k uint64, v *cacheItem) { panic("vc04Store: Set without expiry is not used by ecscache") }
func (c *vc04Store) SetWithExpire(k uint64, v *cacheItem, exp time.Duration) {
	c.items[k] = &vc04StoreItem{val: v, deadline: c.clk.now + exp}
}
func (c *vc04Store) Get(k uint64) (v *cacheItem, ok bool) {
	it, ok := c.items[k]
	if !ok {
		return nil, false
	}

	return it.val, true
}
func (c *vc04Store) Clear()       { c.items = map[uint64]*vc04StoreItem{} }
func (c *vc04Store) Len() (n int) { return len(c.items) }

// advance rewinds every stored item by d and drops items strictly past their
// deadline (the LRU's expiry test is strict).
func (c *vc04Store) advance(d time.Duration) {
	for k, it := range c.items {
		if c.clk.now > it.deadline {
			delete(c.items, k)

			continue
		}

		it.val.when = it.val.when.Add(-d)
	}
}

// Model GeoIP: (country, family) -> coarse subnet.
var vc04Countries = []geoip.Country{geoip.CountryNone, "US", "DE"}

func vc04GeoSubnet(c geoip.Country, fam netutil.AddrFamily) netip.Prefix {
	switch {
	case c == "US" && fam == netutil.AddrFamilyIPv4:
		return netip.MustParsePrefix("198.18.1.0/24")
	case c == "DE" && fam == netutil.AddrFamilyIPv4:
		return netip.MustParsePrefix("198.18.2.0/24")
	case c == "US":
		return netip.MustParsePrefix("2001:db8:a1::/48")
	case c == "DE":
		return netip.MustParsePrefix("2001:db8:a2::/48")
	default:
		return netutil.ZeroPrefix(fam)
	}
}

func vc04NewGeo() *agdtest.GeoIP {
	g := agdtest.NewGeoIP()
	g.OnSubnetByLocation = func(l *geoip.Location, fam netutil.AddrFamily) (netip.Prefix, error) {
		return vc04GeoSubnet(l.Country, fam), nil
	}

	return g
}

// vc04EcsUpstream: a pure function of the question, DO and — for names whose
// kind index is odd, which the upstream scopes — the forwarded subnet.
type vc04EcsUpstream struct {
	calls map[string]int
	total int
}

func vc04Scoped(name string) bool {
	// The second label decides: "s" = scoped, "u" = unscoped.
	parts := strings.Split(strings.ToLower(name), ".")

	return len(parts) > 1 && parts[1] == "s"
}

func (u *vc04EcsUpstream) ServeDNS(ctx context.Context, rw dnsserver.ResponseWriter, req *dns.Msg) (err error) {
	e := vdns.ECSOpt(req)
	sub := vdns.ECSPrefix(e)
	q := req.Question[0]
	scoped := vc04Scoped(q.Name)
	tag := ""
	if scoped {
		tag = sub
	}

	u.calls[vdns.QKey(q, false)+"|"+tag]++
	u.total++

	switch kind, _ := vdns.KindOf(q.Name); kind {
	case vdns.KErr:
		return errors.New("scripted upstream error")
	case vdns.KSilent:
		return nil
	}

	resp := vdns.Answer(req, tag, true)
	if opt := resp.IsEdns0(); opt != nil && resp.Rcode == dns.RcodeServerFailure {
		// Failures carry an Extended DNS Error, the one EDNS option the cache
		// keeps; the OPT record that holds it is then part of the cached answer.
		opt.Option = append(opt.Option, &dns.EDNS0_EDE{InfoCode: dns.ExtendedErrorCodeNetworkError, ExtraText: "upstream unreachable"})
	}

	if e != nil {
		opt := resp.IsEdns0()
		if opt == nil {
			resp.SetEdns0(1232, vdns.IsDO(req))
			opt = resp.IsEdns0()
		}

		scope := uint8(0)
		if scoped {
			scope = max(e.SourceNetmask, 1)
		}

		opt.Option = append(opt.Option, &dns.EDNS0_SUBNET{Code: dns.EDNS0SUBNET, Family: e.Family, SourceNetmask: e.SourceNetmask, SourceScope: scope, Address: e.Address})
	}

	return rw.WriteMsg(ctx, req, resp)
}

type vc04Client struct {
	Remote  netip.Addr
	Country geoip.Country
	// ECS: 0 none, 1 valid, 2 declined (/0)
	ECSMode    int
	ECSSubnet  netip.Prefix
	ECSCountry geoip.Country
}

func (c vc04Client) String() string {
	return fmt.Sprintf("{%s %q ecs=%d %s %q}", c.Remote, c.Country, c.ECSMode, c.ECSSubnet, c.ECSCountry)
}

func vc04DrawClient(t *rapid.T) (c vc04Client) {
	v6 := rapid.IntRange(0, 3).Draw(t, "v6") == 0
	c.Country = rapid.SampledFrom(vc04Countries).Draw(t, "country")
	if v6 {
		c.Remote = netip.MustParseAddr(fmt.Sprintf("2001:db8:c::%x", rapid.IntRange(1, 3).Draw(t, "host")))
	} else {
		c.Remote = netip.MustParseAddr(fmt.Sprintf("203.0.113.%d", rapid.IntRange(1, 3).Draw(t, "host")))
	}

	c.ECSMode = rapid.SampledFrom([]int{0, 0, 1, 2}).Draw(t, "ecsMode")
	ecs6 := rapid.IntRange(0, 3).Draw(t, "ecs6") == 0
	switch c.ECSMode {
	case 1:
		c.ECSCountry = rapid.SampledFrom(vc04Countries).Draw(t, "ecsCountry")
		if ecs6 {
			c.ECSSubnet = netip.MustParsePrefix(fmt.Sprintf("2001:db8:e%d::/56", rapid.IntRange(1, 2).Draw(t, "ecsNet")))
		} else {
			c.ECSSubnet = netip.MustParsePrefix(fmt.Sprintf("192.0.2.%d/26", 64*rapid.IntRange(0, 1).Draw(t, "ecsNet")))
		}
	case 2:
		if ecs6 {
			c.ECSSubnet = netip.MustParsePrefix("::/0")
		} else {
			c.ECSSubnet = netip.MustParsePrefix("0.0.0.0/0")
		}
	}

	return c
}

// vc04ReqInfo builds the request information the way ratelimitmw does.
func vc04ReqInfo(c vc04Client, req *dns.Msg) (ri *agd.RequestInfo) {
	q := req.Question[0]
	ri = &agd.RequestInfo{
		RemoteIP: c.Remote,
		Host:     agdnet.NormalizeDomain(q.Name),
		QType:    q.Qtype,
		QClass:   q.Qclass,
	}
	if c.Country != geoip.CountryNone {
		ri.Location = &geoip.Location{Country: c.Country}
	}

	subnet, scope, err := dnsmsg.ECSFromMsg(req)
	if err != nil {
		panic(fmt.Errorf("harness generated a malformed ecs option: %w", err))
	}

	if subnet != (netip.Prefix{}) {
		ri.ECS = &dnsmsg.ECS{Subnet: subnet, Scope: scope}
		if c.ECSCountry != geoip.CountryNone {
			ri.ECS.Location = &geoip.Location{Country: c.ECSCountry}
		}
	}

	return ri
}

// vc04ServerRW is the client-facing response writer: it keeps a copy of what
// was written and then edits the written message in place as the UDP server does
// with a response that does not fit (see vdns.ServerEdits).
type vc04ServerRW struct {
	dnsserver.ResponseWriter

	got *dns.Msg
}

func (w *vc04ServerRW) WriteMsg(_ context.Context, _, resp *dns.Msg) (err error) {
	w.got = resp.Copy()
	vdns.ServerEdits(resp)

	return nil
}

func (w *vc04ServerRW) Msg() (m *dns.Msg) { return w.got }

func vc04EcsExchange(t *rapid.T, h dnsserver.Handler, c vc04Client, req *dns.Msg) (resp *dns.Msg) {
	addr := &net.UDPAddr{IP: c.Remote.AsSlice(), Port: 5353}
	nrw := &vc04ServerRW{ResponseWriter: dnsserver.NewNonWriterResponseWriter(addr, addr)}
	ctx := agd.ContextWithRequestInfo(context.Background(), vc04ReqInfo(c, req))
	err := h.ServeDNS(ctx, nrw, req)
	// A handler error (the server then answers SERVFAIL) and a handler that
	// writes nothing are outcomes like any other: they are rendered as marker
	// messages so that warm and fresh instances can be compared.
	if err != nil {
		resp = (&dns.Msg{}).SetReply(req)
		resp.Rcode = 3841

		return resp
	}

	resp = nrw.Msg()
	if resp == nil {
		resp = (&dns.Msg{}).SetReply(req)
		resp.Rcode = 3842
	}

	return resp
}

func vc04NewMw(minTTL time.Duration, override bool) *Middleware {
	return NewMiddleware(&MiddlewareConfig{
		Cloner:       agdtest.NewCloner(),
		Logger:       slogutil.NewDiscardLogger(),
		CacheManager: agdcache.EmptyManager{},
		GeoIP:        vc04NewGeo(),
		MinTTL:       minTTL,
		NoECSCount:   1000,
		ECSCount:     1000,
		OverrideTTL:  override,
	})
}

type vc04Query struct {
	name   string
	qt, qc uint16
	do     bool
	client vc04Client
}

func TestVerifC04EcsHistory(t *testing.T) {
	st := vstat.New("C04", "ecscache.history",
		"rapid stateful histories (new query | repeat an earlier question, possibly as another client | advance clock) against ecscache.Middleware with harness-clocked stores; non-trivial = response served without an upstream call, distinct by (cache key incl. effective subnet, age bucket of 500ms)",
		"hit", "hit-late", "miss-after-expiry", "uncacheable-repeat", "hit-other-case", "override", "hit-scoped", "hit-other-client", "near-miss-do", "near-miss-do-v6", "near-miss-qtype", "near-miss-qclass")
	st.Finish(t)

	rapid.Check(t, func(t *rapid.T) {
		override := rapid.IntRange(0, 3).Draw(t, "override") == 0
		minTTL := time.Duration(rapid.SampledFrom([]int{2, 10, 60}).Draw(t, "minTTL")) * time.Second
		up := &vc04EcsUpstream{calls: map[string]int{}}
		m := vc04NewMw(minTTL, override)
		clk := &vc04Clock{}
		s1 := &vc04Store{clk: clk, items: map[uint64]*vc04StoreItem{}}
		s2 := &vc04Store{clk: clk, items: map[uint64]*vc04StoreItem{}}
		m.cache, m.ecsCache = s1, s2
		h := m.Wrap(up)

		type ent struct {
			stored time.Duration
			by     string
		}
		model := map[string]ent{}
		var hist []string
		var asked []vc04Query
		var lastLife uint32 = 1

		steps := rapid.IntRange(2, 16).Draw(t, "steps")
		for i := 0; i < steps; i++ {
			op := rapid.IntRange(0, 5).Draw(t, "op")
			if op == 0 {
				life := time.Duration(lastLife) * time.Second
				d := rapid.SampledFrom([]time.Duration{0, 400 * time.Millisecond, 600 * time.Millisecond, time.Second,
					life - 600*time.Millisecond, life - 400*time.Millisecond, life, life + time.Second, 29 * time.Second, 31 * time.Second}).Draw(t, "delta")
				if d < 0 {
					d = 0
				}

				clk.now += d
				s1.advance(d)
				s2.advance(d)
				hist = append(hist, fmt.Sprintf("advance %s", d))

				continue
			}

			var q vc04Query
			nearMiss := ""
			if op >= 3 && len(asked) > 0 {
				q = asked[rapid.IntRange(0, len(asked)-1).Draw(t, "repeat")]
				if rapid.Bool().Draw(t, "otherClient") {
					q.client = vc04DrawClient(t)
				}

				// Near miss: the same question except for exactly one component
				// that a correct cache key must distinguish.
				switch rapid.IntRange(0, 7).Draw(t, "nearMiss") {
				case 1, 2:
					q.do = !q.do
					nearMiss = "do"
				case 3:
					q.qt = map[uint16]uint16{dns.TypeA: dns.TypeAAAA, dns.TypeAAAA: dns.TypeA}[q.qt]
					if q.qt == 0 {
						q.qt = dns.TypeA
					}

					nearMiss = "qtype"
				case 5:
					// Types that differ in bit 5 of one octet only, as upper
					// and lower case letters do (HTTPS 65 and TYPE97, 321 and
					// 353): a key that is case-folded as a whole merges them.
					q.qt ^= 0x20
					nearMiss = "qtype-bit5"
				case 6:
					// Types that differ in the high octet only (A 1 and CAA 257,
					// HTTPS 65 and 321): a key that loses that octet merges them.
					q.qt ^= 0x100
					nearMiss = "qtype-high-octet"
				case 4:
					q.qc = map[uint16]uint16{dns.ClassINET: dns.ClassCHAOS, dns.ClassCHAOS: dns.ClassINET}[q.qc]
					nearMiss = "qclass"
				}
			} else {
				kind := vdns.Kind(rapid.IntRange(0, int(vdns.KKinds)-1).Draw(t, "kind"))
				ti := rapid.IntRange(0, len(vdns.TTLs)-1).Draw(t, "ttlIdx")
				zone := rapid.SampledFrom([]string{"u.test.", "s.test."}).Draw(t, "zone")
				name := vdns.Name(kind, ti, zone)
				if rapid.IntRange(0, 9).Draw(t, "minimalName") == 0 {
					name = rapid.SampledFrom(vdns.MinimalNames).Draw(t, "minimal")
				}

				q = vc04Query{
					name:   name,
					qt:     rapid.SampledFrom([]uint16{dns.TypeA, dns.TypeA, dns.TypeAAAA, dns.TypeTXT, dns.TypeHTTPS, dns.TypeHTTPS, 97, 321, dns.TypeMX, dns.TypeSRV, dns.TypeSRV, dns.TypePTR}).Draw(t, "qt"),
					qc:     rapid.SampledFrom([]uint16{dns.ClassINET, dns.ClassINET, dns.ClassINET, dns.ClassCHAOS}).Draw(t, "qc"),
					do:     rapid.IntRange(0, 3).Draw(t, "do") == 0,
					client: vc04DrawClient(t),
				}
				asked = append(asked, q)
			}

			name := vdns.MixCase(t, q.name)
			req := &dns.Msg{}
			req.Id = uint16(rapid.IntRange(0, 65535).Draw(t, "id"))
			req.RecursionDesired = rapid.Bool().Draw(t, "rd")
			req.AuthenticatedData = rapid.IntRange(0, 3).Draw(t, "ad") == 0
			req.CheckingDisabled = rapid.IntRange(0, 3).Draw(t, "cd") == 0
			req.Question = []dns.Question{{Name: name, Qtype: q.qt, Qclass: q.qc}}
			c := q.client
			if q.do || c.ECSMode != 0 || rapid.IntRange(0, 3).Draw(t, "edns") == 0 {
				req.SetEdns0(uint16(rapid.SampledFrom([]int{512, 1232, 4096}).Draw(t, "udpsize")), q.do)
			}

			// Sometimes a second OPT record with the opposite DO bit comes
			// first (illegal by RFC 6891, but served): the DO bit that counts is
			// that of the last record, which is also what goes upstream.
			twoOPT := false
			if req.IsEdns0() != nil && rapid.IntRange(0, 7).Draw(t, "twoOPT") == 0 {
				first := &dns.OPT{Hdr: dns.RR_Header{Name: ".", Rrtype: dns.TypeOPT}}
				first.SetUDPSize(4096)
				if !q.do {
					first.SetDo()
				}

				req.Extra = append([]dns.RR{first}, req.Extra...)
				twoOPT = true
			}

			if c.ECSMode != 0 {
				fam := uint16(1)
				ip := net.IP(c.ECSSubnet.Addr().AsSlice())
				if c.ECSSubnet.Addr().Is6() {
					fam = 2
				}

				opt := req.IsEdns0()
				opt.Option = append(opt.Option, &dns.EDNS0_SUBNET{Code: dns.EDNS0SUBNET, Family: fam, SourceNetmask: uint8(c.ECSSubnet.Bits()), Address: ip})
			}

			// Effective subnet by the statement: the GeoIP subnet of the
			// client's (or its ECS option's) country, or the zero prefix.
			fam := netutil.AddrFamilyIPv4
			addr := c.Remote
			if c.ECSMode != 0 {
				addr = c.ECSSubnet.Addr()
			}

			if addr.Is6() {
				fam = netutil.AddrFamilyIPv6
			}

			eff := netutil.ZeroPrefix(fam)
			if c.ECSMode != 2 {
				ctry := c.Country
				if c.ECSMode == 1 && c.ECSCountry != geoip.CountryNone {
					ctry = c.ECSCountry
				}

				eff = vc04GeoSubnet(ctry, fam)
			}

			scoped := vc04Scoped(name)
			tag := ""
			if scoped {
				tag = eff.String()
			}

			// The key a correct cache may use: question, DO and — for scoped
			// answers — the forwarded subnet; the family is part of the
			// statement's "same subnet and family".
			key := vdns.QKey(req.Question[0], q.do) + "|" + tag
			modelKey := key + "|" + fmt.Sprint(fam)
			kind, ttl := vdns.KindOf(name)
			cacheable, life := vdns.Cacheable(kind, q.qt, ttl)
			lastLife = max(life, 1)

			// The upstream sees its own DO bit (the middleware sets DO on requests
			// without EDNS), so calls are counted modulo DO.
			upKey := vdns.QKey(req.Question[0], false) + "|" + tag
			before := up.calls[upKey]
			totalBefore := up.total
			resp := vc04EcsExchange(t, h, c, req.Copy())
			fromCache := up.total == totalBefore
			hist = append(hist, fmt.Sprintf("query %s fam=%d id=%d client=%s -> cache=%t", key, fam, req.Id, c, fromCache))
			if !fromCache && up.calls[upKey] != before+1 {
				t.Fatalf("history %v: query reached upstream under another key: %v", hist, up.calls)
			}

			// fresh twin
			fresh := vc04EcsExchange(t, vc04NewMw(minTTL, override).Wrap(&vc04EcsUpstream{calls: map[string]int{}}), c, req.Copy())
			if g, w := vdns.Canon(resp, vdns.CanonOpts{WithOPT: true}), vdns.Canon(fresh, vdns.CanonOpts{WithOPT: true}); g != w {
				t.Fatalf("history %v\nwarm  %s\nfresh %s", hist, g, w)
			}

			if len(resp.Question) != 1 || resp.Question[0] != req.Question[0] || resp.Id != req.Id {
				t.Fatalf("history %v: response id/question %d %v differ from request %d %v", hist, resp.Id, resp.Question, req.Id, req.Question)
			}

			e, inModel := model[modelKey]
			age := clk.now - e.stored
			classes := []string{"kind-" + vdns.KindNames[kind]}
			if twoOPT {
				classes = append(classes, "two-opt-records-do-differs")
			}

			if nearMiss != "" {
				classes = append(classes, "near-miss-"+nearMiss)
				if c.Remote.Is6() || (c.ECSMode != 0 && c.ECSSubnet.Addr().Is6()) {
					classes = append(classes, "near-miss-"+nearMiss+"-v6")
				}
			}

			nt := ""
			if fromCache {
				nt = fmt.Sprintf("%s@%d", modelKey, age/(500*time.Millisecond))
				classes = append(classes, "hit")
				if name != strings.ToLower(name) {
					classes = append(classes, "hit-other-case")
				}

				if override {
					classes = append(classes, "override")
				}

				if scoped {
					classes = append(classes, "hit-scoped")
				}

				if inModel && e.by != c.String() {
					classes = append(classes, "hit-other-client")
				}

				if !cacheable {
					t.Fatalf("history %v: uncacheable answer kind %s served from cache", hist, vdns.KindNames[kind])
				}

				// Unscoped answers may legitimately be shared between
				// families only if the code says so; the statement allows
				// reuse for "the same question, DO bit and client location",
				// so a hit must have been stored under the same model key or,
				// for unscoped names, under the same key with another family.
				if !inModel {
					other := key + "|" + fmt.Sprint(3-int(fam))
					if o, ok := model[other]; ok && !scoped {
						e, inModel = o, true
						age = clk.now - e.stored
					}
				}

				if !inModel {
					t.Fatalf("history %v: cache hit for %s which was never stored under this key", hist, modelKey)
				}

				effLife := life
				if override && kind != vdns.KServfail && kind != vdns.KServfailLong {
					effLife = max(life, uint32(minTTL/time.Second))
				}

				if age > time.Duration(effLife)*time.Second {
					t.Fatalf("history %v: %s served from cache at age %s > life %ds", hist, key, age, effLife)
				}

				if age*2 >= time.Duration(effLife)*time.Second {
					classes = append(classes, "hit-late")
				}

				served, _ := vdns.MaxTTL(resp)
				bound := vdns.Bound(effLife, age)
				if override {
					bound = max(bound, vdns.Bound(max(ttl+9, uint32(minTTL/time.Second)), age))
				}

				if served > bound {
					t.Fatalf("history %v: %s served TTL %d at age %s, bound %d (life %d)", hist, key, served, age, bound, effLife)
				}
			} else {
				classes = append(classes, "miss")
				if inModel {
					classes = append(classes, "miss-after-expiry")
				}

				if !cacheable && before > 0 {
					classes = append(classes, "uncacheable-repeat")
				}

				if cacheable {
					model[modelKey] = ent{stored: clk.now, by: c.String()}
				}
			}

			st.Case(nt, classes...)
		}

		if st.WantSample() && len(hist) > 4 {
			st.Sample(hist)
		}
	})
}

// ---------------------------------------------------------------------------
// (c) real LRU stores, real time (see the simple cache's counterpart).

func TestVerifC04EcsRealTime(t *testing.T) {
	st := vstat.New("C04", "ecscache.realtime",
		"rapid: K probes (kind, ttl 1-3 s, scoped or unscoped name, delay drawn around half-life, expiry and beyond) stored at once in the real LRU stores, each re-asked after its real delay; one-sided oracle on measured ages: served TTL <= bound(ttl, measured minimum age), and an answer whose measured minimum age exceeds its life must come from upstream; non-trivial = probe re-asked at age >= 0.4 s; distinct by (kind, zone, ttl, delay/100ms)",
		"rt-hit", "rt-miss-after-expiry", "rt-late-hit")
	st.Finish(t)

	client := vc04Client{Remote: netip.MustParseAddr("203.0.113.1"), Country: "US"}
	rapid.Check(t, func(t *rapid.T) {
		up := &vc04EcsUpstream{calls: map[string]int{}}
		h := vc04NewMw(0, false).Wrap(up)

		type probe struct {
			req    *dns.Msg
			life   time.Duration
			delay  time.Duration
			stored time.Time
			kind   vdns.Kind
		}

		var probes []*probe
		add := func(kind vdns.Kind, ti int, zone string, delay time.Duration, label string) {
			life := time.Duration(vdns.TTLs[ti]) * time.Second
			if delay < 0 {
				delay = 100 * time.Millisecond
			}

			req := (&dns.Msg{}).SetQuestion(vdns.Name(kind, ti, label+"."+zone), dns.TypeA)
			probes = append(probes, &probe{req: req, life: life, delay: delay, kind: kind})
		}

		for i, n := 0, rapid.IntRange(4, 16).Draw(t, "probes"); i < n; i++ {
			kind := rapid.SampledFrom([]vdns.Kind{vdns.KA, vdns.KA, vdns.KAMixed, vdns.KNX, vdns.KNodataSOA}).Draw(t, "kind")
			ti := rapid.IntRange(0, 2).Draw(t, "ttlIdx")
			life := time.Duration(vdns.TTLs[ti]) * time.Second
			delay := rapid.SampledFrom([]time.Duration{400 * time.Millisecond, 600 * time.Millisecond, life - 550*time.Millisecond,
				life - 450*time.Millisecond, life + 150*time.Millisecond, life + 600*time.Millisecond}).Draw(t, "delay")
			add(kind, ti, rapid.SampledFrom([]string{"u.test.", "s.test."}).Draw(t, "zone"), delay, fmt.Sprintf("p%d", i))
		}

		add(vdns.KA, 0, "u.test.", 400*time.Millisecond, "f0")
		add(vdns.KA, 1, "s.test.", 1500*time.Millisecond, "f1")
		add(vdns.KA, 0, "s.test.", 1150*time.Millisecond, "f2")

		for _, p := range probes {
			vc04EcsExchange(t, h, client, p.req.Copy())
			p.stored = time.Now()
		}

		sort.Slice(probes, func(i, j int) bool { return probes[i].delay < probes[j].delay })
		for _, p := range probes {
			if d := time.Until(p.stored.Add(p.delay)); d > 0 {
				time.Sleep(d)
			}

			minAge := time.Since(p.stored)
			before := up.total
			resp := vc04EcsExchange(t, h, client, p.req.Copy())
			hit := up.total == before
			served, _ := vdns.MaxTTL(resp)
			cls := "rt-miss"
			switch {
			case hit && minAge*2 >= p.life:
				cls = "rt-late-hit"
			case hit:
				cls = "rt-hit"
			case minAge > p.life:
				cls = "rt-miss-after-expiry"
			}

			st.Case(fmt.Sprintf("%s/%s/%d", p.req.Question[0].Name, p.life, p.delay/(100*time.Millisecond)), cls)
			if st.WantSample() && hit {
				st.Sample(map[string]any{"name": p.req.Question[0].Name, "life_s": p.life.Seconds(), "min_age_ms": minAge.Milliseconds(), "served_ttl": served})
			}

			if !hit {
				continue
			}

			if minAge > p.life {
				t.Fatalf("real time: %s (life %s) served from cache at a measured age of at least %s", p.req.Question[0].Name, p.life, minAge)
			}

			if bound := vdns.Bound(uint32(p.life/time.Second), minAge); served > bound {
				t.Fatalf("real time: %s (life %s) served TTL %d at a measured age of at least %s; bound %d", p.req.Question[0].Name, p.life, served, minAge, bound)
			}
		}
	})
}
