// Package vpeek reads unexported fields of objects built by the code under
// test, for conversion-fidelity checks of values that are handed to a
// constructor inside a builder method and are not observable otherwise (a
// staleness, a timeout, a cache size).  It only reads; nothing is ever set.
//
// A path that does not exist is an error of the harness (the layout of the
// object changed), never a verdict: callers report it as inconclusive.
package vpeek

import (
	"fmt"
	"reflect"
	"unsafe"
)

// Get walks path from root, following pointers and interfaces on the way, and
// returns the field as a value whose Interface method may be called.
func Get(root any, path ...string) (v reflect.Value, err error) {
	v = reflect.ValueOf(root)
	for i, name := range path {
		v = deref(v)
		if !v.IsValid() {
			return v, fmt.Errorf("vpeek: %v: nil before %q", path[:i], name)
		}

		if v.Kind() != reflect.Struct {
			return v, fmt.Errorf("vpeek: %v: %s is not a struct", path[:i], v.Type())
		}

		f := v.FieldByName(name)
		if !f.IsValid() {
			return f, fmt.Errorf("vpeek: %v: %s has no field %q", path[:i], v.Type(), name)
		}

		v = open(f)
	}

	return v, nil
}

// Elem follows pointers and interfaces of v to the value behind them.
func Elem(v reflect.Value) reflect.Value { return deref(v) }

// Open makes a value obtained through an unexported field usable with
// Interface, if it is addressable.
func Open(v reflect.Value) reflect.Value { return open(v) }

func deref(v reflect.Value) reflect.Value {
	for v.IsValid() && (v.Kind() == reflect.Pointer || v.Kind() == reflect.Interface) {
		if v.IsNil() {
			return reflect.Value{}
		}

		v = open(v.Elem())
	}

	return v
}

func open(v reflect.Value) reflect.Value {
	if v.IsValid() && v.CanAddr() && !v.CanInterface() {
		return reflect.NewAt(v.Type(), unsafe.Pointer(v.UnsafeAddr())).Elem()
	}

	return v
}

// Must is Get that panics with the error; the harness recovers it into an
// inconclusive run.
func Must(root any, path ...string) reflect.Value {
	v, err := Get(root, path...)
	if err != nil {
		panic(err)
	}

	return v
}
