// Package vdns holds the reference upstream, canonicalisation and TTL-bound
// helpers shared by the cache-related checks (C04, C05 and the full-stack
// checks).  It depends only on miekg/dns and rapid.
package vdns

import (
	"fmt"
	"hash/fnv"
	"math"
	"net"
	"net/netip"
	"sort"
	"strings"
	"time"

	"github.com/miekg/dns"
	"pgregory.net/rapid"
)

// Kind is the class of answer the reference upstream gives for a name.
type Kind int

// Answer kinds.  The first label of a generated name, k<kind>t<ttlIdx>,
// selects the kind and the TTL, so every kind is reachable by construction.
const (
	KA Kind = iota
	KAMixed
	KCNAME
	KNodataSOA
	KNodataNoSOA
	KNX
	KNXNoRR
	KServfail
	KServfailLong
	KRefused
	KTruncated
	KTTL0
	KWithOPT
	KWeird
	// Truncated (TC=1) negative and failure answers: incomplete, so never to
	// be cached, whatever their rcode.
	KTruncNX
	KTruncNodata
	KTruncServfail
	// KErr: the upstream handler returns an error.  KSilent: it returns
	// without writing anything.  Both are produced by the harness's upstream
	// wrapper, not by Answer.
	KErr
	KSilent
	KKinds
)

// KindNames are printable names of the kinds.
var KindNames = [...]string{"A", "A-mixed", "CNAME", "NODATA+SOA", "NODATA-noSOA", "NXDOMAIN+SOA", "NXDOMAIN-empty",
	"SERVFAIL", "SERVFAIL-longTTL", "REFUSED", "truncated", "TTL0", "with-OPT", "weird-answer", "truncated-NXDOMAIN", "truncated-NODATA", "truncated-SERVFAIL", "upstream-error", "upstream-silent"}

// TTLs is the TTL alphabet.
var TTLs = [...]uint32{1, 2, 3, 5, 30, 45, 300}

// Hash is FNV-1a 32.
func Hash(s string) uint32 {
	h := fnv.New32a()
	_, _ = h.Write([]byte(s))

	return h.Sum32()
}

// QKey is the identity of a question as far as a cache may distinguish it.
func QKey(q dns.Question, do bool) string {
	return fmt.Sprintf("%s|%d|%d|%t", strings.ToLower(q.Name), q.Qtype, q.Qclass, do)
}

// Name renders the name for a kind and TTL index under zone.
func Name(k Kind, ttlIdx int, zone string) string {
	return fmt.Sprintf("k%dt%d.%s", k, ttlIdx, zone)
}

// KindOf parses a generated name.
func KindOf(name string) (k Kind, ttl uint32) {
	// Minimal names: the root and one-letter top-level names.
	switch strings.ToLower(name) {
	case ".":
		return KA, 5
	case "a.":
		return KAMixed, 5
	case "z.":
		return KNX, 5
	}

	var ki, ti int
	_, err := fmt.Sscanf(strings.ToLower(name), "k%dt%d.", &ki, &ti)
	if err != nil {
		panic(fmt.Errorf("bad name %q: %w", name, err))
	}

	return Kind(ki), TTLs[ti]
}

// MinimalNames are names that do not follow the k<kind>t<ttl> scheme; see
// KindOf.
var MinimalNames = []string{".", "a.", "z."}

// IsDO reports the DO bit of m.
func IsDO(m *dns.Msg) bool {
	opt := m.IsEdns0()

	return opt != nil && opt.Do()
}

// Answer is the reference upstream: a pure function of the lower-cased name,
// qtype, qclass, the DO bit and tag (the forwarded subnet for ECS-dependent
// names, "" otherwise).  validated tells whether the upstream considers the
// answer DNSSEC-validated (AD bit); alwaysAD makes AD independent of DO (for
// the ECS cache, which applies the request's AD/DO itself).
func Answer(req *dns.Msg, tag string, alwaysAD bool) (resp *dns.Msg) {
	q := req.Question[0]
	opt := req.IsEdns0()
	do := opt != nil && opt.Do()
	// The records are a function of the question and the tag only; as with a
	// real resolver, the DO bit only adds signatures (and, unless alwaysAD, gates
	// the AD flag).
	key := QKey(q, false) + "|" + tag
	h := Hash(key)
	kind, ttl := KindOf(q.Name)

	resp = (&dns.Msg{}).SetReply(req)
	resp.RecursionAvailable = true
	if alwaysAD {
		resp.AuthenticatedData = Hash(strings.ToLower(q.Name))&1 == 1
	} else {
		resp.AuthenticatedData = do && h&1 == 1
	}

	hdr := func(t uint16, ttl uint32) dns.RR_Header {
		return dns.RR_Header{Name: q.Name, Rrtype: t, Class: q.Qclass, Ttl: ttl}
	}
	ans := func(ttl uint32, salt byte) dns.RR {
		switch q.Qtype {
		case dns.TypeA:
			return &dns.A{Hdr: hdr(dns.TypeA, ttl), A: net.IP{10, byte(h >> 8), byte(h), salt}}
		case dns.TypeAAAA:
			return &dns.AAAA{Hdr: hdr(dns.TypeAAAA, ttl), AAAA: net.IP{0x20, 1, 0xd, 0xb8, byte(h >> 24), byte(h >> 16), byte(h >> 8), byte(h), 0, 0, 0, 0, 0, 0, 0, salt}}
		case dns.TypeMX:
			return &dns.MX{Hdr: hdr(dns.TypeMX, ttl), Preference: 10 + uint16(salt), Mx: "mx" + string('a'+rune(salt)) + ".test."}
		case dns.TypeSRV:
			// All four numbers differ, so that a clone that mixes two of them
			// up is visible.
			return &dns.SRV{Hdr: hdr(dns.TypeSRV, ttl), Priority: 10 * uint16(salt), Weight: 60 - uint16(salt), Port: 5000 + uint16(h%1000), Target: "srv" + string('a'+rune(salt)) + ".test."}
		case dns.TypePTR:
			return &dns.PTR{Hdr: hdr(dns.TypePTR, ttl), Ptr: "ptr" + string('a'+rune(salt)) + ".test."}
		case dns.TypeHTTPS:
			return &dns.HTTPS{SVCB: dns.SVCB{Hdr: hdr(dns.TypeHTTPS, ttl), Priority: uint16(salt), Target: "svc" + string('a'+rune(salt)) + ".test.", Value: []dns.SVCBKeyValue{
				&dns.SVCBAlpn{Alpn: []string{"h2", "h3"}},
				&dns.SVCBPort{Port: 8000 + uint16(h%1000)},
				&dns.SVCBIPv4Hint{Hint: []net.IP{{10, byte(h >> 8), byte(h), salt}, {10, 1, 2, salt}}},
				&dns.SVCBECHConfig{ECH: []byte{byte(h), salt, 7}},
				&dns.SVCBIPv6Hint{Hint: []net.IP{{0x20, 1, 0xd, 0xb8, byte(h >> 8), byte(h), 0, 0, 0, 0, 0, 0, 0, 0, 0, salt}}},
				&dns.SVCBDoHPath{Template: "/dns-query{?dns}"},
			}}}
		default:
			return &dns.TXT{Hdr: hdr(q.Qtype, ttl), Txt: []string{key, string('a' + rune(salt))}}
		}
	}
	soa := func(ttl, minttl uint32) dns.RR {
		return &dns.SOA{Hdr: dns.RR_Header{Name: "test.", Rrtype: dns.TypeSOA, Class: dns.ClassINET, Ttl: ttl}, Ns: "ns.test.", Mbox: "m.test.", Serial: h, Minttl: minttl}
	}

	switch kind {
	case KA:
		resp.Answer = []dns.RR{ans(ttl, 1)}
	case KAMixed:
		resp.Answer = []dns.RR{ans(ttl+9, 1), ans(ttl, 2)}
		resp.Ns = []dns.RR{&dns.NS{Hdr: dns.RR_Header{Name: "test.", Rrtype: dns.TypeNS, Class: dns.ClassINET, Ttl: ttl + 3}, Ns: "ns.test."}}
		resp.Extra = []dns.RR{&dns.A{Hdr: dns.RR_Header{Name: "ns.test.", Rrtype: dns.TypeA, Class: dns.ClassINET, Ttl: ttl + 1}, A: net.IP{10, 9, 9, 9}}}
	case KCNAME:
		resp.Answer = []dns.RR{
			&dns.CNAME{Hdr: hdr(dns.TypeCNAME, ttl+5), Target: "target.test."},
			func() dns.RR { r := ans(ttl, 3); r.Header().Name = "target.test."; return r }(),
		}
	case KNodataSOA:
		resp.Ns = []dns.RR{soa(ttl+20, ttl)}
	case KNodataNoSOA:
		resp.Ns = []dns.RR{&dns.NS{Hdr: dns.RR_Header{Name: "test.", Rrtype: dns.TypeNS, Class: dns.ClassINET, Ttl: ttl}, Ns: "ns.test."}}
	case KNX:
		resp.Rcode = dns.RcodeNameError
		resp.Ns = []dns.RR{soa(ttl, ttl+20)}
	case KNXNoRR:
		resp.Rcode = dns.RcodeNameError
	case KServfail:
		resp.Rcode = dns.RcodeServerFailure
	case KServfailLong:
		resp.Rcode = dns.RcodeServerFailure
		resp.Ns = []dns.RR{soa(ttl+3600, ttl+3600)}
	case KRefused:
		resp.Rcode = dns.RcodeRefused
		resp.Answer = []dns.RR{ans(ttl, 1)}
	case KTruncated:
		resp.Truncated = true
		resp.Answer = []dns.RR{ans(ttl, 1)}
	case KTTL0:
		resp.Answer = []dns.RR{ans(ttl, 1), ans(0, 2)}
	case KWithOPT:
		resp.Answer = []dns.RR{ans(ttl, 1)}
		if opt == nil {
			resp.SetEdns0(1232, false)
		}
	case KWeird:
		// NOERROR whose answer section has neither the asked type nor a
		// CNAME/SIG: documented as not cacheable.
		resp.Answer = []dns.RR{&dns.MX{Hdr: hdr(dns.TypeMX, ttl), Mx: "mx.test.", Preference: 1}}
	case KTruncNX:
		resp.Truncated = true
		resp.Rcode = dns.RcodeNameError
		resp.Ns = []dns.RR{soa(ttl, ttl+20)}
	case KTruncNodata:
		resp.Truncated = true
		resp.Ns = []dns.RR{soa(ttl+20, ttl)}
	case KTruncServfail:
		resp.Truncated = true
		resp.Rcode = dns.RcodeServerFailure
	}

	if do && len(resp.Answer) > 0 && resp.Rcode == dns.RcodeSuccess && !resp.Truncated {
		last := resp.Answer[len(resp.Answer)-1].Header()
		resp.Answer = append(resp.Answer, &dns.RRSIG{
			Hdr:         dns.RR_Header{Name: last.Name, Rrtype: dns.TypeRRSIG, Class: last.Class, Ttl: last.Ttl},
			TypeCovered: last.Rrtype, Algorithm: 13, Labels: 3, OrigTtl: last.Ttl, Expiration: 2000000000, Inception: 1000000000,
			KeyTag: uint16(h), SignerName: "test.", Signature: "c2lnbmF0dXJl",
		})
	}

	// A conforming upstream answers an EDNS query with an OPT record and copies
	// the DO bit (RFC 6891, RFC 3225); the simple cache derives the stored key
	// from the response, so this is a precondition every real caller respects.
	if opt != nil {
		resp.SetEdns0(1232, do)
		// The OPT record may stand anywhere in the additional section (RFC
		// 6891, 6.1.1): for half of the names it comes first.
		if n := len(resp.Extra); n > 1 && h&8 == 0 {
			resp.Extra = append([]dns.RR{resp.Extra[n-1]}, resp.Extra[:n-1]...)
		}
	}

	return resp
}

// ServerEdits does to resp, in place, what the DNS server's response writer
// does to a response that does not fit the client's UDP buffer (normalize and
// truncate in internal/dnsserver): TC is set, the records are removed, the OPT
// record is rewritten and compression is switched on.  The harness's response
// writers call it on the message they were given, after having copied it, so
// that a handler which keeps using (or caching) the very object it wrote sees
// what it would see behind a real server.
func ServerEdits(resp *dns.Msg) {
	resp.Truncated = true
	resp.Answer = nil
	resp.Ns = nil
	resp.Compress = true

	var extra []dns.RR
	for _, rr := range resp.Extra {
		if opt, ok := rr.(*dns.OPT); ok {
			opt.SetUDPSize(512)
			opt.Hdr.Ttl &= 0xff00
			extra = append(extra, opt)
		}
	}

	resp.Extra = extra
}

// Cacheable tells, from the statement of C04 ("only complete NOERROR/NODATA,
// NXDOMAIN and short-lived SERVFAIL answers are cached at all"), whether a kind
// may ever be served from cache, and for how long at most.
func Cacheable(kind Kind, qt uint16, ttl uint32) (ok bool, life uint32) {
	switch kind {
	case KA, KAMixed, KNodataSOA, KNX, KWithOPT, KCNAME:
		return true, ttl
	case KServfail, KServfailLong:
		return true, 30
	case KWeird:
		// If the asked type is MX the answer is an ordinary one.
		return qt == dns.TypeMX, ttl
	default:
		return false, 0
	}
}

// Bound is C04's bound for a TTL served after age: original minus time in
// cache, rounded, floor zero.
func Bound(lowest uint32, age time.Duration) (b uint32) {
	left := math.Round(float64(lowest) - age.Seconds())
	if left <= 0 {
		return 0
	}

	return uint32(left)
}

// MaxTTL returns the highest TTL among the non-OPT records of m and their
// number.
func MaxTTL(m *dns.Msg) (ttl uint32, n int) {
	for _, rrs := range [][]dns.RR{m.Answer, m.Ns, m.Extra} {
		for _, rr := range rrs {
			if rr.Header().Rrtype == dns.TypeOPT {
				continue
			}

			n++
			ttl = max(ttl, rr.Header().Ttl)
		}
	}

	return ttl, n
}

// CanonOpts controls Canon.
type CanonOpts struct {
	// WithOPT includes the OPT record's DO bit and options (not the UDP size).
	WithOPT bool
}

// Canon renders a message modulo TTLs; the OPT record is hop-by-hop and is
// excluded unless requested.  Owner names compare case-insensitively (RFC
// 4343); the question section is rendered byte-exact.
func Canon(m *dns.Msg, o CanonOpts) (s string) {
	var rrs []string
	optStr := ""
	for i, sec := range [][]dns.RR{m.Answer, m.Ns, m.Extra} {
		for _, rr := range sec {
			if opt, ok := rr.(*dns.OPT); ok {
				if o.WithOPT {
					var os []string
					for _, e := range opt.Option {
						os = append(os, fmt.Sprintf("%d:%s", e.Option(), e.String()))
					}

					sort.Strings(os)
					// The whole flag word: extended rcode, version, DO and Z bits.
					optStr = fmt.Sprintf(" opt{do=%t ver=%d flags=%#08x %q}", opt.Do(), opt.Version(), opt.Hdr.Ttl, os)
				}

				continue
			}

			c := dns.Copy(rr)
			c.Header().Ttl = 0
			c.Header().Name = strings.ToLower(c.Header().Name)
			rrs = append(rrs, fmt.Sprintf("%d:%s", i, c.String()))
		}
	}

	sort.Strings(rrs)

	return fmt.Sprintf("id=%d rcode=%d qr=%t aa=%t tc=%t rd=%t ra=%t ad=%t cd=%t op=%d q=%v rrs=%q%s",
		m.Id, m.Rcode, m.Response, m.Authoritative, m.Truncated, m.RecursionDesired, m.RecursionAvailable,
		m.AuthenticatedData, m.CheckingDisabled, m.Opcode, m.Question, rrs, optStr)
}

// MixCase randomly upper-cases letters of s.
func MixCase(t *rapid.T, s string) string {
	if !rapid.Bool().Draw(t, "mixcase") {
		return s
	}

	b := []byte(s)
	for i := range b {
		if b[i] >= 'a' && b[i] <= 'z' && rapid.Bool().Draw(t, "up") {
			b[i] -= 32
		}
	}

	return string(b)
}

// ECSOpt returns the subnet option of m, if any.
func ECSOpt(m *dns.Msg) (e *dns.EDNS0_SUBNET) {
	opt := m.IsEdns0()
	if opt == nil {
		return nil
	}

	for _, o := range opt.Option {
		if s, ok := o.(*dns.EDNS0_SUBNET); ok {
			return s
		}
	}

	return nil
}

// ECSPrefix renders e as a prefix string ("" if nil).
func ECSPrefix(e *dns.EDNS0_SUBNET) string {
	if e == nil {
		return ""
	}

	a, ok := netip.AddrFromSlice(e.Address)
	if !ok {
		return fmt.Sprintf("bad(%v)/%d", e.Address, e.SourceNetmask)
	}

	if e.Family == 1 {
		a = a.Unmap()
	}

	return fmt.Sprintf("%s/%d", a, e.SourceNetmask)
}
