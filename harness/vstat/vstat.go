// Package vstat collects what a generated check actually covered and dumps it
// for the driver (/verif/check) to merge into the evidence file.
//
// It is deliberately tiny and dependency-free: harness test files compiled into
// the repository's packages through -overlay import it via the external
// workspace (GOWORK=/verif/harness/go.work).
package vstat

import (
	"encoding/json"
	"fmt"
	"hash/fnv"
	"os"
	"path/filepath"
	"sort"
	"strconv"
	"strings"
	"sync"
	"testing"
)

// MaxSamples is the number of samples kept per Stats.
const MaxSamples = 6

// Stats accumulates coverage facts for one part of one property.
type Stats struct {
	mu sync.Mutex

	id   string
	part string
	rule string

	evaluations int64
	nontrivial  map[uint64]struct{}
	classes     map[string]int64
	samples     []any
	excluded    map[string]int64
	knownHit    map[string]string
	required    []string
	exhaustive  bool
	extra       map[string]any
}

// New creates a Stats for property id and check part.  rule is the stated
// non-triviality rule.  required lists classes that must be non-empty,
// otherwise the driver reports the run as inconclusive.
func New(id, part, rule string, required ...string) *Stats {
	return &Stats{
		id:         id,
		part:       part,
		rule:       rule,
		nontrivial: map[uint64]struct{}{},
		classes:    map[string]int64{},
		excluded:   map[string]int64{},
		knownHit:   map[string]string{},
		required:   required,
		extra:      map[string]any{},
	}
}

// Case records one generated case.  ntKey is the identity of the case if it is
// non-trivial by the rule and "" otherwise; classes are histogram labels.
func (s *Stats) Case(ntKey string, classes ...string) {
	s.mu.Lock()
	defer s.mu.Unlock()

	s.evaluations++
	if ntKey != "" {
		h := fnv.New64a()
		_, _ = h.Write([]byte(ntKey))
		s.nontrivial[h.Sum64()] = struct{}{}
	}

	for _, c := range classes {
		if c != "" {
			s.classes[c]++
		}
	}
}

// Class adds to the histogram without counting a case.
func (s *Stats) Class(classes ...string) {
	s.mu.Lock()
	defer s.mu.Unlock()

	for _, c := range classes {
		if c != "" {
			s.classes[c]++
		}
	}
}

// NonTrivial records one more execution of the real code belonging to the
// current generated case (e.g. the same query on another transport) that is
// non-trivial under its own identity.  It counts as an evaluation of its own, so
// that the number of distinct non-trivial executions never exceeds the number
// of evaluations.
func (s *Stats) NonTrivial(ntKey string) {
	s.mu.Lock()
	defer s.mu.Unlock()

	s.evaluations++
	h := fnv.New64a()
	_, _ = h.Write([]byte(ntKey))
	s.nontrivial[h.Sum64()] = struct{}{}
}

// Sample keeps v as a sample if fewer than MaxSamples are kept so far.  v must
// be JSON-encodable.
func (s *Stats) Sample(v any) {
	s.mu.Lock()
	defer s.mu.Unlock()

	if len(s.samples) < MaxSamples {
		s.samples = append(s.samples, v)
	}
}

// WantSample reports whether more samples are wanted; use it to avoid building
// expensive sample values.
func (s *Stats) WantSample() bool {
	s.mu.Lock()
	defer s.mu.Unlock()

	return len(s.samples) < MaxSamples
}

// SetExhaustive marks that a finite space was enumerated completely.
func (s *Stats) SetExhaustive() {
	s.mu.Lock()
	defer s.mu.Unlock()

	s.exhaustive = true
}

// Extra stores a free-form key in the dump.
func (s *Stats) Extra(k string, v any) {
	s.mu.Lock()
	defer s.mu.Unlock()

	s.extra[k] = v
}

// knownFindings is the parsed /verif/known_findings.json.
type knownFindings struct {
	Known []struct {
		Property string `json:"property"`
		ID       string `json:"id"`
		What     string `json:"what"`
	} `json:"known"`
}

var (
	knownOnce sync.Once
	knownMap  map[string]string
)

func loadKnown() {
	knownMap = map[string]string{}
	p := os.Getenv("VERIF_KNOWN")
	if p == "" {
		p = "/verif/known_findings.json"
	}

	b, err := os.ReadFile(p)
	if err != nil {
		return
	}

	var kf knownFindings
	if json.Unmarshal(b, &kf) != nil {
		return
	}

	for _, k := range kf.Known {
		knownMap[k.Property+"/"+k.ID] = k.What
	}
}

// Known reports whether the finding findingID of this property is listed in
// the committed known-findings file.  If it is, the occurrence is counted as
// excluded and true is returned: the caller must then treat the case as
// excluded (not as a violation) and continue.  If it is not listed, false is
// returned and the caller must fail the case.
func (s *Stats) Known(findingID string) bool {
	knownOnce.Do(loadKnown)

	what, ok := knownMap[s.id+"/"+findingID]
	if !ok {
		return false
	}

	s.mu.Lock()
	defer s.mu.Unlock()

	s.excluded[findingID]++
	s.knownHit[findingID] = what

	return true
}

type dump struct {
	ID          string            `json:"id"`
	Part        string            `json:"part"`
	Rule        string            `json:"rule"`
	Evaluations int64             `json:"evaluations"`
	Nontrivial  []string          `json:"nontrivial_hashes"`
	Classes     map[string]int64  `json:"classes"`
	Samples     []any             `json:"samples"`
	Excluded    map[string]int64  `json:"excluded"`
	KnownHit    map[string]string `json:"known_hit"`
	Required    []string          `json:"required"`
	Exhaustive  bool              `json:"exhaustive"`
	Extra       map[string]any    `json:"extra"`
}

// Dump writes the statistics to $VERIF_STATS_DIR (if set) as
// <id>.<part>.<pid>.<n>.json.  It is safe to call several times; each call
// writes the cumulative state to the same file.
func (s *Stats) Dump() {
	dir := os.Getenv("VERIF_STATS_DIR")
	if dir == "" {
		return
	}

	s.mu.Lock()
	defer s.mu.Unlock()

	d := dump{
		ID:          s.id,
		Part:        s.part,
		Rule:        s.rule,
		Evaluations: s.evaluations,
		Classes:     s.classes,
		Samples:     s.samples,
		Excluded:    s.excluded,
		KnownHit:    s.knownHit,
		Required:    s.required,
		Exhaustive:  s.exhaustive,
		Extra:       s.extra,
	}

	// Cap the number of hashes written per process; the driver unions them.
	const maxHashes = 200_000
	for h := range s.nontrivial {
		if len(d.Nontrivial) >= maxHashes {
			break
		}

		d.Nontrivial = append(d.Nontrivial, strconv.FormatUint(h, 36))
	}

	sort.Strings(d.Nontrivial)
	d.Extra["nontrivial_total_in_process"] = len(s.nontrivial)

	b, err := json.Marshal(d)
	if err != nil {
		// Samples that cannot be encoded must not lose the counters.
		d.Samples = []any{fmt.Sprintf("%+v", s.samples)}
		b, _ = json.Marshal(d)
	}

	name := fmt.Sprintf("%s.%s.%d.json", s.id, sanitize(s.part), os.Getpid())
	_ = os.WriteFile(filepath.Join(dir, name), b, 0o644)
}

func sanitize(s string) string {
	return strings.Map(func(r rune) rune {
		switch {
		case r >= 'a' && r <= 'z', r >= 'A' && r <= 'Z', r >= '0' && r <= '9', r == '-', r == '_':
			return r
		default:
			return '_'
		}
	}, s)
}

// Finish registers a cleanup on t that dumps the statistics.
func (s *Stats) Finish(t testing.TB) {
	t.Cleanup(s.Dump)
}

// EnvInt returns the integer value of the environment variable name or def.
func EnvInt(name string, def int) int {
	v := os.Getenv(name)
	if v == "" {
		return def
	}

	n, err := strconv.Atoi(v)
	if err != nil {
		return def
	}

	return n
}

// Thorough reports whether the thorough tier is running.
func Thorough() bool {
	return os.Getenv("VERIF_TIER") == "thorough"
}

// Scale returns quick or thorough depending on the tier, multiplied by
// VERIF_SCALE percent if set.
func Scale(quick, thorough int) int {
	n := quick
	if Thorough() {
		n = thorough
	}

	if pc := EnvInt("VERIF_SCALE", 100); pc != 100 {
		n = n * pc / 100
		if n < 1 {
			n = 1
		}
	}

	return n
}
