//go:build verif

package cmd

// C05, configuration plumbing: the `geoip:` section (host_cache_size and
// ip_cache_size, always different, and refresh_interval) and the environment
// variables GEOIP_ASN_PATH / GEOIP_COUNTRY_PATH are parsed and validated by the
// package's own code (parseConfig, parseEnvironment) and taken through the
// builder's own steps (initGeoIP, waitGeoIP).  Fidelity only: the capacities
// of the two lookup caches and the two database paths of the built geoip.File
// and the period of its refresh worker are read back and compared with the
// YAML / environment values; one lookup of an address of the test databases
// shows that each path opened the database of its kind.

import (
	"context"
	"fmt"
	"net/netip"
	"os"
	"path/filepath"
	"strings"
	"sync"
	"testing"
	"time"
	"unsafe"

	"github.com/AdguardTeam/AdGuardDNS/internal/agdcache"
	"github.com/AdguardTeam/AdGuardDNS/internal/agdtest"
	"github.com/AdguardTeam/AdGuardDNS/internal/debugsvc"
	"github.com/AdguardTeam/golibs/logutil/slogutil"
	"github.com/AdguardTeam/golibs/service"
	"pgregory.net/rapid"
	"verif.local/harness/vpeek"
	"verif.local/harness/vstat"
)

var vc05cmdEnvNames = []string{
	"ADULT_BLOCKING_URL", "BLOCKED_SERVICE_INDEX_URL", "FILTER_INDEX_URL", "GENERAL_SAFE_SEARCH_URL", "NEW_REG_DOMAINS_URL", "SAFE_BROWSING_URL",
	"YOUTUBE_SAFE_SEARCH_URL", "GEOIP_ASN_PATH", "GEOIP_COUNTRY_PATH", "VERBOSE", "ADULT_BLOCKING_ENABLED", "NEW_REG_DOMAINS_ENABLED",
	"SAFE_BROWSING_ENABLED", "BLOCKED_SERVICE_ENABLED", "GENERAL_SAFE_SEARCH_ENABLED", "YOUTUBE_SAFE_SEARCH_ENABLED", "WEB_STATIC_DIR_ENABLED", "WEB_STATIC_DIR",
}

func vc05cmdWithEnv(set map[string]string, f func()) {
	old := map[string]*string{}
	for _, n := range vc05cmdEnvNames {
		if v, ok := os.LookupEnv(n); ok {
			old[n] = &v
		} else {
			old[n] = nil
		}

		if v, ok := set[n]; ok {
			_ = os.Setenv(n, v)
		} else {
			_ = os.Unsetenv(n)
		}
	}

	defer func() {
		for n, v := range old {
			if v == nil {
				_ = os.Unsetenv(n)
			} else {
				_ = os.Setenv(n, *v)
			}
		}
	}()

	f()
}

type vc05cmdNotifier struct{}

func (vc05cmdNotifier) Notify(chan<- os.Signal, ...os.Signal) {}
func (vc05cmdNotifier) Stop(chan<- os.Signal)                 {}

var (
	vc05cmdTickerOnce sync.Once
	vc05cmdTickerOff  uintptr
	vc05cmdTickerOK   bool
)

// vc05cmdTickerPeriod reads the period of a ticker out of the runtime timer
// behind it, at an offset found and validated on tickers of known periods.
func vc05cmdTickerPeriod(tk *time.Ticker) (d time.Duration, ok bool) {
	vc05cmdTickerOnce.Do(func() {
		const pa, pb = 12345 * time.Second, 777 * time.Hour
		a, b := time.NewTicker(pa), time.NewTicker(pb)
		defer a.Stop()
		defer b.Stop()

		for off := uintptr(16); off <= 88; off += 8 {
			va := *(*int64)(unsafe.Add(unsafe.Pointer(a), off))
			vb := *(*int64)(unsafe.Add(unsafe.Pointer(b), off))
			if va == int64(pa) && vb == int64(pb) {
				vc05cmdTickerOff, vc05cmdTickerOK = off, true

				return
			}
		}
	})

	if !vc05cmdTickerOK || tk == nil {
		return 0, false
	}

	return time.Duration(*(*int64)(unsafe.Add(unsafe.Pointer(tk), vc05cmdTickerOff))), true
}

func TestVerifC05CmdGeoIP(t *testing.T) {
	st := vstat.New("C05", "cmd.geoip-config",
		"rapid: a `geoip:` YAML section with two different cache sizes and a refresh interval, GEOIP_ASN_PATH / GEOIP_COUNTRY_PATH pointing at copies of the repository's two test databases under drawn file names -> parseConfig, parseEnvironment, validate, builder.initGeoIP, builder.waitGeoIP; oracle: capacities of the host and IP lookup caches, the two paths, the refresh worker's period, and country + ASN of one address known to the test databases; non-trivial = every case (all values differ), distinct by settings",
		"caches-and-paths-read-back", "lookup-told-the-two-databases-apart")
	st.Finish(t)

	repo := os.Getenv("VERIF_REPO")
	if repo == "" {
		repo = "/repo"
	}

	dir := t.TempDir()
	td := filepath.Join(repo, "internal", "geoip", "testdata")
	asnData, err1 := os.ReadFile(filepath.Join(td, "GeoIP2-ISP-Test.mmdb"))
	ctryData, err2 := os.ReadFile(filepath.Join(td, "GeoIP2-City-Test.mmdb"))
	if err1 != nil || err2 != nil {
		t.Fatalf("fixture: reading the test databases: %v %v", err1, err2)
	}

	logger := slogutil.NewDiscardLogger()
	errColl := agdtest.NewErrorCollector()
	errColl.OnCollect = func(context.Context, error) {}
	caseNo := 0
	ctx := context.Background()

	inconclusive := func(format string, args ...any) {
		msg := fmt.Sprintf(format, args...)
		fmt.Printf("VERIF-INCONCLUSIVE: %s\n", msg)
		t.Logf("VERIF-INCONCLUSIVE: %s", msg)
		t.FailNow()
	}

	rapid.Check(t, func(rt *rapid.T) {
		caseNo++
		sizes := rapid.Permutation([]int{11, 101, 203, 1009, 7}).Draw(rt, "sizes")
		hostSize, ipSize := sizes[0], sizes[1]
		ivl := rapid.SampledFrom([]time.Duration{61 * time.Second, 5 * time.Minute, 17 * time.Minute, time.Hour}).Draw(rt, "refreshInterval")
		names := rapid.Permutation([]string{"a.mmdb", "b.mmdb", "country.mmdb", "asn.mmdb"}).Draw(rt, "fileNames")
		asnPath, ctryPath := filepath.Join(dir, names[0]), filepath.Join(dir, names[1])
		if err := os.WriteFile(asnPath, asnData, 0o600); err != nil {
			rt.Fatalf("harness: %v", err)
		}

		if err := os.WriteFile(ctryPath, ctryData, 0o600); err != nil {
			rt.Fatalf("harness: %v", err)
		}

		text := fmt.Sprintf("geoip:\n    host_cache_size: %d\n    ip_cache_size: %d\n    refresh_interval: %s\n", hostSize, ipSize, ivl)
		path := filepath.Join(dir, fmt.Sprintf("c%d.yaml", caseNo))
		if err := os.WriteFile(path, []byte(text), 0o600); err != nil {
			rt.Fatalf("harness: %v", err)
		}
		defer func() {
			_ = os.Remove(path)
			_ = os.Remove(asnPath)
			_ = os.Remove(ctryPath)
		}()

		env := map[string]string{
			"FILTER_INDEX_URL": "http://127.0.0.1:9/filters.json", "GEOIP_ASN_PATH": asnPath, "GEOIP_COUNTRY_PATH": ctryPath,
			"ADULT_BLOCKING_ENABLED": "0", "NEW_REG_DOMAINS_ENABLED": "0", "SAFE_BROWSING_ENABLED": "0", "BLOCKED_SERVICE_ENABLED": "0",
			"GENERAL_SAFE_SEARCH_ENABLED": "0", "YOUTUBE_SAFE_SEARCH_ENABLED": "0",
		}
		fail := func(format string, args ...any) {
			rt.Fatalf("%s\nGEOIP_ASN_PATH=%s GEOIP_COUNTRY_PATH=%s\n%s", fmt.Sprintf(format, args...), asnPath, ctryPath, text)
		}

		conf, err := parseConfig(path)
		if err != nil || conf.GeoIP == nil {
			fail("the generated geoip section was not parsed: %v", err)
		}

		if err = conf.GeoIP.validate(); err != nil {
			fail("a valid geoip section was rejected: %v", err)
		}

		var envs *environment
		vc05cmdWithEnv(env, func() { envs, err = parseEnvironment() })
		if err == nil {
			err = envs.validate()
		}

		if err != nil {
			fail("a valid environment was rejected: %v", err)
		}

		b := &builder{
			baseLogger:   logger,
			cacheManager: agdcache.NewDefaultManager(),
			conf:         conf,
			env:          envs,
			errColl:      errColl,
			geoIPError:   make(chan error, 1),
			logger:       logger,
			debugRefrs:   debugsvc.Refreshers{},
			sigHdlr: service.NewSignalHandler(&service.SignalHandlerConfig{
				SignalNotifier:  vc05cmdNotifier{},
				Logger:          logger,
				ShutdownTimeout: shutdownTimeout,
			}),
		}

		// builder.startGeoIP runs this in a goroutine; waitGeoIP joins it.
		b.initGeoIP(ctx)
		if err = b.waitGeoIP(ctx); err != nil || b.geoIP == nil {
			fail("builder.initGeoIP / waitGeoIP failed on a valid configuration: %v", err)
		}

		svcs, perr := vpeek.Get(b.sigHdlr, "services")
		if perr != nil || svcs.Len() != 1 {
			inconclusive("the signal handler cannot be read: %v", perr)
		}

		worker, _ := vpeek.Open(svcs.Index(0)).Interface().(service.Interface)
		defer func() { _ = worker.Shutdown(ctx) }()

		var bad []string
		expect := func(what string, got, want any) {
			if got != want {
				bad = append(bad, fmt.Sprintf("%s: the configuration says %v, built with %v", what, want, got))
			}
		}
		num := func(path ...string) int64 {
			v, gerr := vpeek.Get(b.geoIP, path...)
			if gerr != nil {
				inconclusive("the built GeoIP database cannot be read: %v", gerr)
			}

			return v.Int()
		}
		str := func(path ...string) string {
			v, gerr := vpeek.Get(b.geoIP, path...)
			if gerr != nil {
				inconclusive("the built GeoIP database cannot be read: %v", gerr)
			}

			return v.String()
		}

		// "The size of the host lookup cache, in entries."
		expect("host lookup cache (geoip.host_cache_size)", num("hostCache", "cache", "size"), int64(hostSize))
		// "The size of the IP lookup cache, in entries."
		expect("IP lookup cache (geoip.ip_cache_size)", num("ipCache", "cache", "size"), int64(ipSize))
		expect("ASN database path (GEOIP_ASN_PATH)", str("asnPath"), asnPath)
		expect("country database path (GEOIP_COUNTRY_PATH)", str("countryPath"), ctryPath)

		// "Interval between the GeoIP database refreshes"
		if tick, terr := vpeek.Get(worker, "tick"); terr == nil {
			tk, _ := tick.Interface().(*time.Ticker)
			if period, ok := vc05cmdTickerPeriod(tk); ok {
				expect("refresh worker period (geoip.refresh_interval)", period, ivl)
			}
		}

		if len(bad) > 0 {
			fail("conversion of the GeoIP settings:\n  %s", strings.Join(bad, "\n  "))
		}

		// 1.128.0.0 is in the ISP test database (AS1221), 216.160.83.56 in the
		// City test database (US).
		loc, lerr := b.geoIP.Data("", netip.MustParseAddr("1.128.0.0"))
		if lerr != nil || loc == nil || loc.ASN != 1221 {
			fail("looking 1.128.0.0 up in the built database: %+v, %v; the ISP test database says AS1221", loc, lerr)
		}

		loc, lerr = b.geoIP.Data("", netip.MustParseAddr("216.160.83.56"))
		if lerr != nil || loc == nil || loc.Country != "US" {
			fail("looking 216.160.83.56 up in the built database: %+v, %v; the City test database says US", loc, lerr)
		}

		st.Case(text+asnPath+ctryPath, "caches-and-paths-read-back", "lookup-told-the-two-databases-apart")
		if st.WantSample() {
			st.Sample(map[string]any{"yaml": strings.Split(text, "\n"), "GEOIP_ASN_PATH": asnPath, "GEOIP_COUNTRY_PATH": ctryPath})
		}
	})
}
