//go:build verif

package dnssvc_test

// C05: client subnets stay private and ECS-dependent answers stay in their
// region.  The real access/rate-limit middleware (which derives the request's
// ECS and location) is composed with the real ECS cache in front of a recording
// upstream that tags scoped answers with the subnet it was sent.

import (
	"context"
	"encoding/binary"
	"fmt"
	"net"
	"net/netip"
	"os"
	"path/filepath"
	"slices"
	"sync"
	"strings"
	"time"
	"testing"

	"github.com/AdguardTeam/AdGuardDNS/internal/agd"
	"github.com/AdguardTeam/AdGuardDNS/internal/agdcache"
	"github.com/AdguardTeam/AdGuardDNS/internal/agdtest"
	"github.com/AdguardTeam/AdGuardDNS/internal/dnsserver"
	"github.com/AdguardTeam/AdGuardDNS/internal/dnssvc/internal/mainmw"
	"github.com/AdguardTeam/AdGuardDNS/internal/dnssvc/internal/ratelimitmw"
	"github.com/AdguardTeam/AdGuardDNS/internal/ecscache"
	"github.com/AdguardTeam/AdGuardDNS/internal/filter"
	"github.com/AdguardTeam/AdGuardDNS/internal/geoip"
	"github.com/AdguardTeam/AdGuardDNS/internal/querylog"
	"github.com/AdguardTeam/golibs/logutil/slogutil"
	"github.com/AdguardTeam/golibs/netutil"
	"github.com/miekg/dns"
	"pgregory.net/rapid"
	"verif.local/harness/vdns"
	"verif.local/harness/vstat"
)

// Model GeoIP.  Address pools (all documentation ranges) map to (country, ASN);
// (country, ASN, family) maps to a coarse subnet in 198.18.0.0/15 or
// 2001:db8:a000::/36, disjoint by construction from every client address and
// every client-supplied subnet.
type vc05Loc struct {
	Country geoip.Country
	ASN     geoip.ASN
}

var vc05Pools = []struct {
	pfx netip.Prefix
	loc vc05Loc
}{
	{netip.MustParsePrefix("203.0.113.0/26"), vc05Loc{"US", 1}},
	{netip.MustParsePrefix("203.0.113.64/26"), vc05Loc{"US", 2}},
	{netip.MustParsePrefix("203.0.113.128/26"), vc05Loc{"DE", 1}},
	{netip.MustParsePrefix("203.0.113.192/27"), vc05Loc{"DE", 2}},
	{netip.MustParsePrefix("203.0.113.224/27"), vc05Loc{"US", 4}},
	{netip.MustParsePrefix("2001:db8:c1::/48"), vc05Loc{"US", 1}},
	{netip.MustParsePrefix("2001:db8:c2::/48"), vc05Loc{"DE", 1}},
	{netip.MustParsePrefix("192.0.2.0/26"), vc05Loc{"US", 1}},
	{netip.MustParsePrefix("192.0.2.64/26"), vc05Loc{"DE", 1}},
	{netip.MustParsePrefix("192.0.2.128/26"), vc05Loc{"DE", 3}},
	{netip.MustParsePrefix("192.0.2.192/27"), vc05Loc{"US", 2}},
	{netip.MustParsePrefix("192.0.2.224/28"), vc05Loc{"DE", 2}},
	// a country but no ASN (the ISP database does not know the network)
	{netip.MustParsePrefix("192.0.2.240/28"), vc05Loc{"DE", 0}},
	{netip.MustParsePrefix("2001:db8:e1::/48"), vc05Loc{"US", 2}},
	{netip.MustParsePrefix("2001:db8:e2::/48"), vc05Loc{"DE", 1}},
}

func vc05LocOf(ip netip.Addr) (l vc05Loc, ok bool) {
	for _, p := range vc05Pools {
		if p.pfx.Contains(ip) {
			return p.loc, true
		}
	}

	return vc05Loc{}, false
}

// vc05Subnets is the model database's (country, ASN) -> coarse subnet table.
// The lengths are deliberately not multiples of eight, neighbours share their
// leading whole octets, and two entries share a base address with different
// lengths, so that a cache key that drops the prefix length, or the partly
// covered last octet, merges regions.  (DE, ASN 3) has no subnet.
var vc05Subnets = map[vc05Loc][2]netip.Prefix{
	{"US", 1}: {netip.MustParsePrefix("198.18.16.0/20"), netip.MustParsePrefix("2001:db8:a110::/44")},
	{"US", 2}: {netip.MustParsePrefix("198.18.32.0/20"), netip.MustParsePrefix("2001:db8:a120::/44")},
	{"US", 4}: {netip.MustParsePrefix("198.18.16.0/21"), netip.MustParsePrefix("2001:db8:a110::/45")},
	{"DE", 1}: {netip.MustParsePrefix("198.18.64.0/22"), netip.MustParsePrefix("2001:db8:a200::/40")},
	{"DE", 2}: {netip.MustParsePrefix("198.18.68.0/22"), netip.MustParsePrefix("2001:db8:a300::/40")},
	{"DE", 0}: {netip.MustParsePrefix("198.18.80.0/21"), netip.MustParsePrefix("2001:db8:a400::/41")},
}

func vc05GeoSubnet(l vc05Loc, fam netutil.AddrFamily) netip.Prefix {
	e, ok := vc05Subnets[l]
	if !ok {
		return netutil.ZeroPrefix(fam)
	}

	if fam == netutil.AddrFamilyIPv4 {
		return e[0]
	}

	return e[1]
}

func vc05NewGeo() *agdtest.GeoIP {
	g := agdtest.NewGeoIP()
	g.OnData = func(_ string, ip netip.Addr) (*geoip.Location, error) {
		l, ok := vc05LocOf(ip)
		if !ok {
			return nil, nil
		}

		return &geoip.Location{Country: l.Country, ASN: l.ASN}, nil
	}
	g.OnSubnetByLocation = func(l *geoip.Location, fam netutil.AddrFamily) (netip.Prefix, error) {
		return vc05GeoSubnet(vc05Loc{l.Country, l.ASN}, fam), nil
	}

	return g
}

type vc05UpCall struct {
	ecs    *dns.EDNS0_SUBNET
	all    []*dns.EDNS0_SUBNET
	hasOpt bool
}

type vc05Upstream struct {
	calls []vc05UpCall

	// edeSent counts answers that carried an extended DNS error option.
	edeSent int
}

func vc05Scoped(name string) bool {
	parts := strings.Split(strings.ToLower(name), ".")

	return len(parts) > 1 && (parts[1] == "s" || parts[1] == "sb")
}

// vc05BadEcho: names under sb.test. are answered by a faulty upstream whose
// echoed ECS address has a bit set beyond the source prefix, with a non-zero
// scope: a malformed option, so the answer can be neither used nor cached.
func vc05BadEcho(name string) bool {
	parts := strings.Split(strings.ToLower(name), ".")

	return len(parts) > 1 && parts[1] == "sb"
}

// vc05FormErr: names under fe.test. are answered by an upstream that does not
// implement ECS and says FORMERR to every request that carries a non-zero
// subnet (RFC 7871, 7.1.3, describes such servers); without ECS or with /0 it
// answers normally.
func vc05FormErr(name string) bool {
	parts := strings.Split(strings.ToLower(name), ".")

	return len(parts) > 1 && parts[1] == "fe"
}

func (u *vc05Upstream) ServeDNS(ctx context.Context, rw dnsserver.ResponseWriter, req *dns.Msg) (err error) {
	e := vdns.ECSOpt(req)
	var all []*dns.EDNS0_SUBNET
	for _, rr := range req.Extra {
		opt, ok := rr.(*dns.OPT)
		if !ok {
			continue
		}

		for _, o := range opt.Option {
			if sn, isECS := o.(*dns.EDNS0_SUBNET); isECS {
				all = append(all, sn)
			}
		}
	}

	// The option the upstream acts on first in the list.
	if e != nil {
		for i, sn := range all {
			if sn == e {
				all[0], all[i] = all[i], all[0]
			}
		}
	}

	u.calls = append(u.calls, vc05UpCall{ecs: e, all: all, hasOpt: req.IsEdns0() != nil})
	q := req.Question[0]
	scoped := vc05Scoped(q.Name)
	tag := ""
	if scoped {
		tag = vdns.ECSPrefix(e)
	}

	if vc05FormErr(q.Name) && e != nil && e.SourceNetmask > 0 {
		fe := (&dns.Msg{}).SetRcode(req, dns.RcodeFormatError)
		if req.IsEdns0() != nil {
			fe.SetEdns0(1232, false)
		}

		return rw.WriteMsg(ctx, req, fe)
	}

	resp := vdns.Answer(req, tag, true)
	if e != nil {
		opt := resp.IsEdns0()
		if opt == nil {
			resp.SetEdns0(1232, vdns.IsDO(req))
			opt = resp.IsEdns0()
		}

		scope := uint8(0)
		if scoped {
			scope = max(e.SourceNetmask, 1)
		}

		addr := e.Address
		if vc05BadEcho(q.Name) && e.SourceNetmask > 0 && int(e.SourceNetmask) < 8*len(addr) {
			addr = slices.Clone(addr)
			addr[len(addr)-1] |= 1
		}

		opt.Option = append(opt.Option, &dns.EDNS0_SUBNET{Code: dns.EDNS0SUBNET, Family: e.Family, SourceNetmask: e.SourceNetmask, SourceScope: scope, Address: addr})
	}

	// For a quarter of the names the upstream also sends an extended DNS error
	// option (RFC 8914 allows it in any response), before or after the ECS
	// echo: the cache keeps that option for the client and must still strip
	// everything else.
	if opt := resp.IsEdns0(); opt != nil {
		if h := vdns.Hash("ede|" + strings.ToLower(q.Name)); h%4 == 0 {
			u.edeSent++
			ede := &dns.EDNS0_EDE{InfoCode: dns.ExtendedErrorCodeOther, ExtraText: "upstream note"}
			if h&4 == 0 {
				opt.Option = append([]dns.EDNS0{ede}, opt.Option...)
			} else {
				opt.Option = append(opt.Option, ede)
			}
		}
	}

	return rw.WriteMsg(ctx, req, resp)
}

// vc05Env selects the GeoIP database behind a run: the harness model, or the
// real geoip.File on the repository's test MMDB files.
type vc05Env struct {
	geo  geoip.Interface
	real bool

	// locate is the reference location lookup.  For the model database it is
	// the database itself; for the real file it asks a fresh, cache-less
	// instance per address, so that the reference does not share lookup caches
	// with the instance under test.
	locate func(a netip.Addr) (l *geoip.Location)

	// sameBlock, if not nil, returns the addresses the database under test has
	// been asked about that share a's location-cache block.
	sameBlock func(a netip.Addr) (as []netip.Addr)
}

// vc05RecGeo records every address the real database is asked about.
type vc05RecGeo struct {
	*geoip.File

	mu   sync.Mutex
	seen map[string][]netip.Addr
}

func vc05Block(a netip.Addr) string {
	if a.Is4In6() {
		a = a.Unmap()
	}

	bits := 56
	if a.Is4() {
		bits = 24
	}

	return netip.PrefixFrom(a, bits).Masked().String()
}

func (g *vc05RecGeo) Data(host string, ip netip.Addr) (l *geoip.Location, err error) {
	if ip.IsValid() {
		g.mu.Lock()
		k := vc05Block(ip)
		if !slices.Contains(g.seen[k], ip) {
			g.seen[k] = append(g.seen[k], ip)
		}
		g.mu.Unlock()
	}

	return g.File.Data(host, ip)
}

func (g *vc05RecGeo) sameBlock(a netip.Addr) (as []netip.Addr) {
	g.mu.Lock()
	defer g.mu.Unlock()

	return slices.Clone(g.seen[vc05Block(a)])
}

// vc05RealAddrs are addresses known to the test databases (AU/ASN 1221, US/WA,
// JP, US country subnet, JP country subnet) and some unknown to them.
var vc05RealAddrs = []string{"1.128.0.0", "1.128.0.77", "216.160.83.56", "2001:218::", "2001:218::1234", "76.128.0.5", "240f::1", "203.0.113.9", "2001:db8::9", "89.160.20.112", "81.2.69.142"}

// vc05RealECSAddrs adds IPv4-mapped IPv6 forms, which a client may put into an
// ECS option of family 2.
var vc05RealECSAddrs = append([]string{"::ffff:1.128.0.0", "::ffff:216.160.83.56", "::ffff:81.2.69.142", "::ffff:89.160.20.112"}, vc05RealAddrs...)

func vc05NewRealGeo(tb testing.TB) *geoip.File {
	dir := os.Getenv("VERIF_REPO")
	if dir == "" {
		dir = "/repo"
	}

	td := filepath.Join(dir, "internal", "geoip", "testdata")
	g := geoip.NewFile(&geoip.FileConfig{
		Logger:         slogutil.NewDiscardLogger(),
		CacheManager:   agdcache.EmptyManager{},
		ASNPath:        filepath.Join(td, "GeoIP2-ISP-Test.mmdb"),
		CountryPath:    filepath.Join(td, "GeoIP2-City-Test.mmdb"),
		HostCacheCount: 0,
		IPCacheCount:   100,
		AllTopASNs:     geoip.DefaultTopASNs,
		CountryTopASNs: geoip.DefaultCountryTopASNs,
	})
	if err := g.Refresh(context.Background()); err != nil {
		tb.Fatalf("harness: loading the test GeoIP databases: %v", err)
	}

	return g
}

type vc05Stack struct {
	h  dnsserver.Handler
	up *vc05Upstream
}

func vc05NewStack(tb testing.TB, env *vc05Env) (s *vc05Stack) {
	geo := env.geo
	up := &vc05Upstream{}
	cacheMw := ecscache.NewMiddleware(&ecscache.MiddlewareConfig{
		Cloner:       agdtest.NewCloner(),
		Logger:       slogutil.NewDiscardLogger(),
		CacheManager: agdcache.EmptyManager{},
		GeoIP:        geo,
		NoECSCount:   1000,
		ECSCount:     1000,
	})
	rlMw := ratelimitmw.New(&ratelimitmw.Config{
		Logger:           slogutil.NewDiscardLogger(),
		Messages:         agdtest.NewConstructor(tb),
		FilteringGroup:   &agd.FilteringGroup{},
		ServerGroup:      &agd.ServerGroup{},
		Server:           &agd.Server{Protocol: agd.ProtoDoT},
		StructuredErrors: agdtest.NewSDEConfig(true),
		AccessManager: &agdtest.AccessManager{
			OnIsBlockedHost: func(string, uint16) bool { return false },
			OnIsBlockedIP:   func(netip.Addr) bool { return false },
		},
		DeviceFinder: &agdtest.DeviceFinder{
			OnFind: func(context.Context, *dns.Msg, netip.AddrPort, netip.AddrPort) agd.DeviceResult { return nil },
		},
		ErrColl:    agdtest.NewErrorCollector(),
		GeoIP:      geo,
		Metrics:    ratelimitmw.EmptyMetrics{},
		Limiter:    agdtest.NewRateLimit(),
		Protocols:  []agd.Protocol{agd.ProtoDNS},
		EDEEnabled: true,
	})

	// The main (filtering) middleware sits between the two, as in
	// dnssvc.NewHandlers.  Its filter rewrites questions for cn-<name> into
	// <name> (what a CNAME $dnsrewrite rule or safe search does), so that the
	// ECS cache is also reached through the rewritten-request path, which
	// builds its own request information.
	flt := &agdtest.Filter{
		OnFilterRequest: func(_ context.Context, req *filter.Request) (r filter.Result, err error) {
			q := req.DNS.Question[0]
			if len(q.Name) < 4 || !strings.EqualFold(q.Name[:3], "cn-") {
				return nil, nil
			}

			mod := req.DNS.Copy()
			mod.Question[0].Name = strings.ToLower(q.Name[3:])

			return &filter.ResultModifiedRequest{Msg: mod, List: "verif_c05", Rule: "cname-rewrite"}, nil
		},
		OnFilterResponse: func(context.Context, *filter.Response) (filter.Result, error) { return nil, nil },
	}
	mainMw := mainmw.New(&mainmw.Config{
		Cloner:   agdtest.NewCloner(),
		Logger:   slogutil.NewDiscardLogger(),
		Messages: agdtest.NewConstructor(tb),
		BillStat: &agdtest.BillStatRecorder{
			OnRecord: func(context.Context, agd.DeviceID, geoip.Country, geoip.ASN, time.Time, agd.Protocol) {},
		},
		ErrColl: agdtest.NewErrorCollector(),
		FilterStorage: &agdtest.FilterStorage{
			OnForConfig: func(context.Context, filter.Config) filter.Interface { return flt },
			OnHasListID: func(filter.ID) bool { return true },
		},
		GeoIP:    geo,
		Metrics:  mainmw.EmptyMetrics{},
		QueryLog: &agdtest.QueryLog{OnWrite: func(context.Context, *querylog.Entry) error { return nil }},
		RuleStat: &agdtest.RuleStat{OnCollect: func(context.Context, filter.ID, filter.RuleText) {}},
	})

	return &vc05Stack{h: rlMw.Wrap(mainMw.Wrap(cacheMw.Wrap(up))), up: up}
}

// vc05UseRealAddrs switches the address generator to the test databases'
// networks; set by the test that uses the real GeoIP file (tests do not run in
// parallel).
var vc05UseRealAddrs bool

// ECS option modes.
const (
	vc05None = iota
	vc05Valid
	vc05Declined
	vc05DeclinedFam0
	vc05BadHostBits
	vc05BadFamily0
	vc05Modes
)

var vc05ModeNames = [...]string{"none", "valid", "declined/0", "declined-family0", "malformed-hostbits", "malformed-family0-bits"}

type vc05Client struct {
	Remote netip.Addr
	Mode   int
	// Subnet is the ECS subnet for vc05Valid, the address carrying stray host
	// bits for vc05BadHostBits.
	Subnet netip.Prefix
	Scope  uint8
	// Second, if valid, is a second ECS option sent after the first.
	Second netip.Prefix
	// SecondInOwnOPT puts the first option into an OPT record of its own, so
	// that the query carries two OPT records (RFC 6891 wants FORMERR for that;
	// whatever the server does, nothing of either option may reach upstream).
	SecondInOwnOPT bool
}

func (c vc05Client) String() string {
	if c.Second.IsValid() {
		return fmt.Sprintf("{%s ecs=%s %s scope=%d second-ecs=%s}", c.Remote, vc05ModeNames[c.Mode], c.Subnet, c.Scope, c.Second)
	}

	return fmt.Sprintf("{%s ecs=%s %s scope=%d}", c.Remote, vc05ModeNames[c.Mode], c.Subnet, c.Scope)
}

func vc05DrawAddr(t *rapid.T, label string, ecs bool) netip.Addr {
	if vc05UseRealAddrs {
		pool := vc05RealAddrs
		if ecs {
			pool = vc05RealECSAddrs
		}

		return netip.MustParseAddr(rapid.SampledFrom(pool).Draw(t, label+"Real"))
	}

	pools := []string{"203.0.113.%d", "203.0.113.%d", "2001:db8:c1::%x", "2001:db8:c2::%x", "2001:db8:cf::%x"}
	if ecs {
		pools = []string{"192.0.2.%d", "192.0.2.%d", "2001:db8:e1:%x::", "2001:db8:e2:%x::", "2001:db8:ef:%x::"}
	}

	p := rapid.SampledFrom(pools).Draw(t, label+"Pool")
	// hosts chosen around the /26 boundaries so that neighbours share or do not
	// share a location.
	n := rapid.SampledFrom([]int{1, 2, 63, 64, 65, 127, 128, 129, 191, 192, 200, 223, 224, 230, 250}).Draw(t, label+"Host")

	return netip.MustParseAddr(fmt.Sprintf(p, n))
}

func vc05DrawClient(t *rapid.T) (c vc05Client) {
	c.Remote = vc05DrawAddr(t, "remote", false)
	c.Mode = rapid.SampledFrom([]int{vc05None, vc05None, vc05Valid, vc05Valid, vc05Declined, vc05DeclinedFam0, vc05BadHostBits, vc05BadFamily0}).Draw(t, "ecsMode")
	switch c.Mode {
	case vc05Valid, vc05BadHostBits:
		a := vc05DrawAddr(t, "ecs", true)
		bits := 24
		if a.Is4In6() {
			bits = rapid.SampledFrom([]int{120, 128}).Draw(t, "ecsBitsMapped")
		} else if a.Is6() {
			bits = rapid.SampledFrom([]int{48, 56, 64}).Draw(t, "ecsBits6")
		} else {
			bits = rapid.SampledFrom([]int{16, 24, 26, 32}).Draw(t, "ecsBits4")
		}

		c.Subnet = netip.PrefixFrom(a, bits)
		if c.Mode == vc05Valid {
			c.Subnet = c.Subnet.Masked()
			if rapid.IntRange(0, 4).Draw(t, "queryScope") == 0 {
				c.Scope = uint8(rapid.IntRange(1, bits).Draw(t, "scope"))
			}

			// Occasionally a second ECS option follows the first one (a
			// client's own address, say); nothing of it may reach the upstream.
			if rapid.IntRange(0, 5).Draw(t, "secondECS") == 3 {
				sa := vc05DrawAddr(t, "ecs2", true)
				sb := 24
				if sa.Is6() {
					sb = 56
				}

				c.Second = netip.PrefixFrom(sa, sb).Masked()
				c.SecondInOwnOPT = rapid.Bool().Draw(t, "twoOPTRecords")
			}
		} else {
			// Put one stray host bit inside the last octet that goes on the wire
			// (octets beyond ceil(bits/8) are not transmitted).
			if bits%8 == 0 {
				bits--
			}

			m := netip.PrefixFrom(a, bits).Masked().Addr().AsSlice()
			m[(bits+7)/8-1] |= 1
			na, _ := netip.AddrFromSlice(m)
			c.Subnet = netip.PrefixFrom(na, bits)
		}
	case vc05Declined:
		if rapid.Bool().Draw(t, "declined6") {
			c.Subnet = netip.MustParsePrefix("::/0")
		} else {
			c.Subnet = netip.MustParsePrefix("0.0.0.0/0")
		}
	}

	return c
}

// vc05RawECS renders the option payload exactly (miekg's packer would mask
// stray host bits away).
func vc05RawECS(c vc05Client) (data []byte) {
	fam := uint16(1)
	switch c.Mode {
	case vc05DeclinedFam0:
		return []byte{0, 0, 0, 0}
	case vc05BadFamily0:
		// miekg refuses family 0 with a non-zero netmask on unpack, so the
		// only family-0 form that can reach the middleware is netmask 0 with a
		// stray address octet.
		return []byte{0, 0, 0, 0, 1}
	}

	a := c.Subnet.Addr()
	if a.Is6() {
		fam = 2
	}

	bits := c.Subnet.Bits()
	data = binary.BigEndian.AppendUint16(nil, fam)
	data = append(data, byte(bits), c.Scope)
	data = append(data, a.AsSlice()[:(bits+7)/8]...)

	return data
}

// vc05CountingRW counts the messages written to the client.
type vc05CountingRW struct {
	dnsserver.ResponseWriter

	n    int
	last *dns.Msg
}

func (w *vc05CountingRW) WriteMsg(ctx context.Context, req, resp *dns.Msg) (err error) {
	w.n++
	// Keep a copy and then edit the written message in place as the UDP server
	// does with a response that does not fit (vdns.ServerEdits): whatever the
	// stack keeps of the object it wrote must not depend on it.
	w.last = resp.Copy()
	vdns.ServerEdits(resp)

	return w.ResponseWriter.WriteMsg(ctx, req, w.last)
}

// vc05Exchange serves one request.  writes is the number of responses the
// client gets: what the handler wrote, plus the SERVFAIL that the DNS server
// (ServerBase.serveDNSMsgInternal) sends whenever the handler returns an error.
func vc05Exchange(t *rapid.T, s *vc05Stack, c vc05Client, req *dns.Msg) (resp *dns.Msg, nUp int, calls []vc05UpCall, writes int) {
	raddr := &net.TCPAddr{IP: c.Remote.AsSlice(), Port: 4242}
	laddr := &net.TCPAddr{IP: net.IP{127, 0, 0, 1}, Port: 853}
	rw := &vc05CountingRW{ResponseWriter: dnsserver.NewNonWriterResponseWriter(laddr, raddr)}
	before := len(s.up.calls)
	ctx := dnsserver.ContextWithRequestInfo(context.Background(), &dnsserver.RequestInfo{})
	err := s.h.ServeDNS(ctx, rw, req)
	writes, resp = rw.n, rw.last
	if err != nil {
		writes++
		resp = (&dns.Msg{}).SetRcode(req, dns.RcodeServerFailure)
	}

	return resp, len(s.up.calls) - before, s.up.calls[before:], writes
}

func vc05BuildReq(t *rapid.T, name string, qt uint16, do bool, c vc05Client) (req *dns.Msg) {
	req = &dns.Msg{}
	req.Id = uint16(rapid.IntRange(0, 65535).Draw(t, "id"))
	req.RecursionDesired = true
	req.AuthenticatedData = rapid.IntRange(0, 3).Draw(t, "ad") == 0
	req.Question = []dns.Question{{Name: name, Qtype: qt, Qclass: dns.ClassINET}}
	if do || c.Mode != vc05None || rapid.IntRange(0, 3).Draw(t, "edns") == 0 {
		req.SetEdns0(1232, do)
	}

	if c.Mode != vc05None {
		opt := req.IsEdns0()
		if rapid.IntRange(0, 3).Draw(t, "otherOptFirst") == 0 {
			opt.Option = append(opt.Option, &dns.EDNS0_NSID{Code: dns.EDNS0NSID})
		}

		opt.Option = append(opt.Option, &dns.EDNS0_LOCAL{Code: dns.EDNS0SUBNET, Data: vc05RawECS(c)})
		if c.Second.IsValid() {
			c2 := vc05Client{Mode: vc05Valid, Subnet: c.Second}
			second := &dns.EDNS0_LOCAL{Code: dns.EDNS0SUBNET, Data: vc05RawECS(c2)}
			if c.SecondInOwnOPT {
				opt2 := &dns.OPT{Hdr: dns.RR_Header{Name: ".", Rrtype: dns.TypeOPT}}
				opt2.SetUDPSize(1232)
				opt2.Option = []dns.EDNS0{second}
				req.Extra = append(req.Extra, opt2)
			} else {
				opt.Option = append(opt.Option, second)
			}
		}
	}

	// Through the wire, as in production.
	b, err := req.Pack()
	if err != nil {
		t.Fatalf("harness: packing %v: %v", req, err)
	}

	out := &dns.Msg{}
	if err = out.Unpack(b); err != nil {
		t.Fatalf("harness: generated a request the server would not even decode: %v (%s)", err, c)
	}

	return out
}

func TestVerifC05History(tt *testing.T) {
	st := vstat.New("C05", "dnssvc.ecs-history",
		"rapid histories of clients (v4/v6, known/unknown location, ECS none/valid/declined/malformed/two options) asking overlapping scoped and unscoped names (one in five answered through a filter CNAME rewrite of the question) through ratelimitmw+mainmw+ecscache in front of a subnet-tagging upstream, model GeoIP database; non-trivial = cache hit on a scoped name, or a declined or malformed request; distinct by (question, client ECS mode, effective subnet, hit)",
		"hit-scoped", "declined", "malformed", "declined-after-scoped-cached", "scoped-other-subnet", "valid-ecs", "two-ecs-options", "question-rewritten-by-filter+ecs", "upstream-echo-malformed", "region-from-ecs-only", "region-from-client-address", "upstream-formerr-to-ecs")
	st.Finish(tt)

	vc05UseRealAddrs = false
	model := vc05NewGeo()
	vc05RunHistories(tt, st, &vc05Env{geo: model, locate: func(a netip.Addr) *geoip.Location {
		l, _ := model.Data("", a)

		return l
	}})
}

// TestVerifC05RealGeoIP runs the same histories with the real geoip.File on the
// repository's test MMDB databases; the reference asks that database directly.
func TestVerifC05RealGeoIP(tt *testing.T) {
	st := vstat.New("C05", "dnssvc.ecs-history-real-geoip",
		"as dnssvc.ecs-history, but the GeoIP database is geoip.File on the repository's test MMDB files and client / ECS addresses are drawn from networks those files know (AU/ASN 1221, US/WA, JP, SE, GB) and do not know; the allowed upstream subnets are obtained from the database itself; non-trivial and distinct as above",
		"hit-scoped", "declined", "malformed", "valid-ecs", "upstream-nonzero-subnet", "ecs-ipv4-mapped", "question-rewritten-by-filter+ecs")
	st.Finish(tt)

	vc05UseRealAddrs = true
	defer func() { vc05UseRealAddrs = false }()

	memo := map[netip.Addr]*geoip.Location{}
	locate := func(a netip.Addr) *geoip.Location {
		if l, ok := memo[a]; ok {
			return l
		}

		// One fresh instance per address: nothing cached can influence it.
		l, err := vc05NewRealGeo(tt).Data("", a)
		if err != nil {
			tt.Fatalf("harness: reference GeoIP lookup of %s: %v", a, err)
		}

		memo[a] = l

		return l
	}

	// The real database caches locations per /24 (IPv4, including the
	// IPv4-mapped form) and per /56 (IPv6) block by design (RFC 6177 comment in
	// geoip/file.go), so the location it reports for an address may be that of
	// any address of the same block it has seen before.  The reference follows
	// that granularity with its own block function: every address the instance
	// under test was ever asked about is recorded, and the allowed locations of
	// an address are those of all recorded addresses of its block.
	rec := &vc05RecGeo{File: vc05NewRealGeo(tt), seen: map[string][]netip.Addr{}}
	vc05RunHistories(tt, st, &vc05Env{geo: rec, real: true, locate: locate, sameBlock: rec.sameBlock})
}

func vc05RunHistories(tt *testing.T, st *vstat.Stats, env *vc05Env) {
	t := tt
	rapid.Check(t, func(t *rapid.T) {
		s := vc05NewStack(tt, env)
		var hist []string
		type asked struct {
			name string
			qt   uint16
			do   bool
		}
		var pool []asked
		scopedCachedFor := map[string]map[string]bool{}
		zeroAsked := map[string]bool{}

		steps := rapid.IntRange(2, 14).Draw(t, "steps")
		for i := 0; i < steps; i++ {
			var a asked
			if len(pool) > 0 && rapid.IntRange(0, 2).Draw(t, "repeat") > 0 {
				a = pool[rapid.IntRange(0, len(pool)-1).Draw(t, "which")]
			} else {
				kind := rapid.SampledFrom([]vdns.Kind{vdns.KA, vdns.KA, vdns.KAMixed, vdns.KCNAME, vdns.KNodataSOA, vdns.KNX, vdns.KServfail, vdns.KRefused}).Draw(t, "kind")
				zone := rapid.SampledFrom([]string{"s.test.", "s.test.", "u.test.", "sb.test.", "fe.test."}).Draw(t, "zone")
				name := vdns.Name(kind, 6, zone) // TTL 300: nothing expires within a case
				if rapid.IntRange(0, 4).Draw(t, "rewritten") == 0 {
					// answered through the filter's CNAME rewrite of the question
					name = "cn-" + name
				}
				if rapid.IntRange(0, 11).Draw(t, "minimalName") == 0 {
					// the root and one-letter names (TTL 5, still far longer than a case)
					name = rapid.SampledFrom(vdns.MinimalNames).Draw(t, "minimal")
				}

				a = asked{
					name: name,
					qt:   rapid.SampledFrom([]uint16{dns.TypeA, dns.TypeA, dns.TypeAAAA, dns.TypeTXT}).Draw(t, "qt"),
					do:   rapid.IntRange(0, 4).Draw(t, "do") == 0,
				}
				pool = append(pool, a)
			}

			c := vc05DrawClient(t)
			req := vc05BuildReq(t, vdns.MixCase(t, a.name), a.qt, a.do, c)
			resp, nUp, calls, writes := vc05Exchange(t, s, c, req.Copy())
			hist = append(hist, fmt.Sprintf("%s %d do=%t %s -> up=%d", a.name, a.qt, a.do, c, nUp))

			qk := vdns.QKey(req.Question[0], a.do)
			// The cache is keyed by the question that reaches it: for a question
			// the filter rewrites, that is the rewritten one.
			upQ := req.Question[0]
			if len(upQ.Name) > 3 && strings.EqualFold(upQ.Name[:3], "cn-") {
				upQ.Name = upQ.Name[3:]
			}

			cacheKey := vdns.QKey(upQ, a.do)
			scoped := vc05Scoped(a.name)
			classes := []string{"ecs-" + vc05ModeNames[c.Mode]}
			if strings.HasPrefix(a.name, "cn-") {
				classes = append(classes, "question-rewritten-by-filter")
				if c.Mode != vc05None {
					classes = append(classes, "question-rewritten-by-filter+ecs")
				}
			}

			if resp == nil {
				t.Fatalf("history %v: no response", hist)
			}

			if writes != 1 {
				t.Fatalf("history %v: the client gets %d responses for one query (handler error => the server adds SERVFAIL); last: rcode %d", hist, writes, resp.Rcode)
			}

			if resp.Id != req.Id || len(resp.Question) != 1 || resp.Question[0] != req.Question[0] {
				t.Fatalf("history %v: response id/question mismatch: %v", hist, resp)
			}

			// An option with family 0 and source length 0 (what dig sends) is
			// not a family RFC 7871 defines: the statement leaves open whether it
			// is "malformed" (FORMERR) or an opt-out; both treatments are accepted.
			fam0Rejected := c.Mode == vc05DeclinedFam0 && resp.Rcode == dns.RcodeFormatError && nUp == 0

			// Two OPT records are a format error by RFC 6891; the statement does
			// not say whether the server must reject them, so both treatments
			// are accepted, but a rejection sends nothing upstream.
			twoOPTRejected := c.SecondInOwnOPT && resp.Rcode == dns.RcodeFormatError && !(vc05FormErr(a.name) && nUp > 0)

			// P5: malformed => FORMERR and nothing upstream.
			if c.Mode == vc05BadHostBits || c.Mode == vc05BadFamily0 || fam0Rejected || twoOPTRejected {
				if resp.Rcode != dns.RcodeFormatError || nUp != 0 {
					t.Fatalf("history %v: malformed ECS %s: rcode %d, upstream calls %d; want FORMERR and none", hist, c, resp.Rcode, nUp)
				}

				if len(resp.Answer) != 0 {
					t.Fatalf("history %v: FORMERR with answers %v", hist, resp.Answer)
				}

				st.Case(fmt.Sprintf("%s|%s|malformed", qk, c), append(classes, "malformed")...)

				continue
			}

			declined := c.Mode == vc05Declined || c.Mode == vc05DeclinedFam0
			if nUp > 1 {
				t.Fatalf("history %v: %d upstream calls for one query", hist, nUp)
			}

			// The set of subnets the statement allows upstream for this client.
			fams := []netutil.AddrFamily{netutil.AddrFamilyIPv4, netutil.AddrFamilyIPv6}
			allowed := map[string]bool{"0.0.0.0/0": true, "::/0": true}
			if !declined {
				// The region is that of the ECS option when the option's
				// address has a location with a country (ecscache.locFromReq:
				// "either the contents of the EDNS Client Subnet option or the
				// real remote address", as a whole); the client's own location
				// only stands in when it has not.  Whole locations only, never
				// a mixture of the two.
				var ecsAddrs []netip.Addr
				if c.Mode == vc05Valid {
					ecsAddrs = append(ecsAddrs, c.Subnet.Addr())
					if c.SecondInOwnOPT {
						// Two OPT records: whichever the server takes as the
						// client's option.
						ecsAddrs = append(ecsAddrs, c.Second.Addr())
					}
				}

				if env.sameBlock != nil {
					for _, a := range slices.Clone(ecsAddrs) {
						ecsAddrs = append(ecsAddrs, env.sameBlock(a)...)
					}
				}

				clientStandsIn := len(ecsAddrs) == 0
				for _, a := range ecsAddrs {
					if l := env.locate(a); l == nil || l.Country == geoip.CountryNone {
						clientStandsIn = true
					}
				}

				addrs := ecsAddrs
				if clientStandsIn {
					classes = append(classes, "region-from-client-address")
					addrs = append(addrs, c.Remote)
					if env.sameBlock != nil {
						addrs = append(addrs, env.sameBlock(c.Remote)...)
					}
				} else {
					classes = append(classes, "region-from-ecs-only")
				}

				for _, a := range addrs {
					l := env.locate(a)
					if l == nil {
						continue
					}

					for _, f := range fams {
						// The reference asks the database directly, with a copy
						// of the location (the real file mutates its argument).
						lc := *l
						n, serr := env.geo.SubnetByLocation(&lc, f)
						if serr == nil {
							allowed[n.String()] = true
						}
					}
				}
			}

			// P1 / P2 on the upstream request.
			for _, call := range calls {
				if call.ecs == nil {
					t.Fatalf("history %v: upstream request without an ECS option", hist)
				}

				for _, extra := range call.all[1:] {
					t.Fatalf("history %v: upstream request carries a second ECS option %s (client %s)", hist, vdns.ECSPrefix(extra), c)
				}

				sub := vdns.ECSPrefix(call.ecs)
				if !allowed[sub] {
					t.Fatalf("history %v: upstream got subnet %s for client %s; allowed %v", hist, sub, c, allowed)
				}

				p, err := netip.ParsePrefix(sub)
				if err != nil {
					t.Fatalf("history %v: upstream got unparsable subnet %q", hist, sub)
				}

				// With the model database every coarse subnet is disjoint from
				// every client address and client-supplied subnet by construction;
				// a real database may legitimately place a client inside its
				// country's subnet, so there only membership is judged.
				if !env.real && p.Bits() > 0 && (p.Contains(c.Remote) || (c.Mode == vc05Valid && p.Overlaps(c.Subnet))) {
					t.Fatalf("history %v: upstream subnet %s reveals client %s", hist, sub, c)
				}

				if call.ecs.SourceNetmask != 0 {
					st.Class("upstream-nonzero-subnet")
				}

				if call.ecs.SourceScope != 0 {
					t.Fatalf("history %v: upstream query with scope %d", hist, call.ecs.SourceScope)
				}

				if declined && call.ecs.SourceNetmask != 0 {
					t.Fatalf("history %v: client declined ECS but upstream got %s", hist, sub)
				}
			}

			// An upstream that says FORMERR to ECS: whatever the stack does next
			// (pass the error on, or retry), every upstream request has been
			// judged above (only the coarse subnet or /0 may ever be sent); the
			// client-side echo of an error response is not judged.
			// Such an upstream is not a function of the forwarded subnet that is
			// consistent with the scopes it reports, so nothing but the upstream
			// requests is judged for its names.
			if vc05FormErr(a.name) {
				for _, call := range calls {
					if call.ecs != nil && call.ecs.SourceNetmask > 0 {
						st.Class("upstream-formerr-to-ecs")
					}
				}

				st.Case("", classes...)

				continue
			}

			// P3: warm equals fresh.
			fs := vc05NewStack(tt, env)
			fresh, _, fcalls, _ := vc05Exchange(t, fs, c, req.Copy())
			if g, w := vdns.Canon(resp, vdns.CanonOpts{WithOPT: true}), vdns.Canon(fresh, vdns.CanonOpts{WithOPT: true}); g != w {
				t.Fatalf("history %v\nwarm  %s\nfresh %s", hist, g, w)
			}

			effSub := ""
			if len(fcalls) == 1 {
				effSub = vdns.ECSPrefix(fcalls[0].ecs)
			}

			// P2, stated directly: a declined client is never served an answer
			// that was cached for some subnet.  Whatever the cache layout, a hit
			// for a declined client needs an earlier upstream query for the same
			// question that carried /0.
			if declined && nUp == 0 && !zeroAsked[cacheKey] {
				t.Fatalf("history %v: declined client %s served from cache although no /0 upstream query for %s was ever made", hist, c, qk)
			}

			for _, call := range calls {
				if call.ecs.SourceNetmask == 0 {
					zeroAsked[cacheKey] = true
				}
			}

			// A faulty upstream: its answer carried a malformed ECS echo, so it
			// can be neither used nor cached; the client gets a server failure
			// and the next asker goes upstream again (a cached copy would show
			// in the comparison with the fresh stack above).
			mangled := false
			for _, call := range calls {
				if vc05BadEcho(a.name) && call.ecs != nil && call.ecs.SourceNetmask > 0 {
					mangled = true
				}
			}

			if mangled {
				if resp.Rcode != dns.RcodeServerFailure {
					t.Fatalf("history %v: the upstream's answer had a malformed ECS echo, but the client got rcode %d", hist, resp.Rcode)
				}

				st.Case(fmt.Sprintf("%s|%s|bad-upstream-echo", qk, c), append(classes, "upstream-echo-malformed")...)

				continue
			}

			// P4: ECS option in the response.
			re := vdns.ECSOpt(resp)
			if c.Mode == vc05None {
				if re != nil {
					t.Fatalf("history %v: response carries ECS %v although the query had none", hist, re)
				}
			} else {
				if re == nil {
					t.Fatalf("history %v: query carried ECS %s but the response has none", hist, c)
				}

				want := c.Subnet
				if c.Mode == vc05DeclinedFam0 {
					want = netip.MustParsePrefix("0.0.0.0/0")
				}

				got := vdns.ECSPrefix(re)
				if c.SecondInOwnOPT && got == c.Second.String() {
					// Two OPT records: the server took the second record's
					// option as the client's.
					want = c.Second
				}
				if got != want.String() {
					t.Fatalf("history %v: response ECS %s, want the client's own %s", hist, got, want)
				}

				if int(re.SourceScope) != want.Bits() {
					t.Fatalf("history %v: response ECS scope %d, want source length %d", hist, re.SourceScope, want.Bits())
				}

				wantFam := uint16(1)
				if want.Addr().Is6() {
					wantFam = 2
				}

				if re.Family != wantFam {
					t.Fatalf("history %v: response ECS family %d, want %d", hist, re.Family, wantFam)
				}
			}

			hit := nUp == 0
			nt := ""
			if declined {
				classes = append(classes, "declined")
				nt = fmt.Sprintf("%s|%s|%t", qk, vc05ModeNames[c.Mode], hit)
				if scoped && len(scopedCachedFor[cacheKey]) > 0 {
					classes = append(classes, "declined-after-scoped-cached")
				}
			}

			if c.Mode == vc05Valid && c.Subnet.Addr().Is4In6() {
				classes = append(classes, "ecs-ipv4-mapped")
			}

			if c.Mode == vc05Valid {
				classes = append(classes, "valid-ecs")
				if c.Second.IsValid() {
					classes = append(classes, "two-ecs-options")
					if c.SecondInOwnOPT {
						classes = append(classes, "two-opt-records")
					}
				}
			}

			if scoped {
				if hit {
					classes = append(classes, "hit-scoped")
					nt = fmt.Sprintf("%s|%s|%s|hit", qk, vc05ModeNames[c.Mode], effSub)
				} else if m := scopedCachedFor[cacheKey]; len(m) > 0 && !m[effSub] {
					classes = append(classes, "scoped-other-subnet")
				}

				if scopedCachedFor[cacheKey] == nil {
					scopedCachedFor[cacheKey] = map[string]bool{}
				}

				scopedCachedFor[cacheKey][effSub] = true
			} else if hit {
				classes = append(classes, "hit-unscoped")
			}

			st.Case(nt, classes...)
		}

		if st.WantSample() && len(hist) > 3 {
			st.Sample(hist)
		}
	})
}
