//go:build verif

package dnssvc_test

// C08 through the real middleware stack: the size limit of a UDP response is
// derived from the request that the last handler passes to WriteMsg, so a
// middleware that hands the transport anything but the client's own request
// (for example its upstream-bound clone with a larger advertised size) breaks
// the limit although the transport code is right.  A real plain-DNS server on
// loopback is put in front of the access/rate-limit middleware and the ECS
// cache with an upstream that returns large answers.

import (
	"context"
	"fmt"
	"net"
	"net/netip"
	"testing"
	"time"

	"github.com/AdguardTeam/AdGuardDNS/internal/agd"
	"github.com/AdguardTeam/AdGuardDNS/internal/agdcache"
	"github.com/AdguardTeam/AdGuardDNS/internal/agdtest"
	"github.com/AdguardTeam/AdGuardDNS/internal/dnsserver"
	"github.com/AdguardTeam/AdGuardDNS/internal/dnssvc/internal/ratelimitmw"
	"github.com/AdguardTeam/AdGuardDNS/internal/ecscache"
	"github.com/AdguardTeam/AdGuardDNS/internal/geoip"
	"github.com/AdguardTeam/golibs/logutil/slogutil"
	"github.com/AdguardTeam/golibs/netutil"
	"github.com/miekg/dns"
	"pgregory.net/rapid"
	"verif.local/harness/vstat"
)

// vc08sUpstream answers with nRecords TXT records of about 60 octets each, the
// number being encoded in the first label (n<k>.…).
func vc08sUpstream() dnsserver.Handler {
	return dnsserver.HandlerFunc(func(ctx context.Context, rw dnsserver.ResponseWriter, req *dns.Msg) error {
		var n int
		_, _ = fmt.Sscanf(req.Question[0].Name, "n%d-", &n)
		resp := (&dns.Msg{}).SetReply(req)
		for i := 0; i < n; i++ {
			resp.Answer = append(resp.Answer, &dns.TXT{
				Hdr: dns.RR_Header{Name: req.Question[0].Name, Rrtype: dns.TypeTXT, Class: dns.ClassINET, Ttl: 300},
				Txt: []string{fmt.Sprintf("record-%04d-%s", i, "0123456789abcdefghijklmnopqrstuvwxyz")},
			})
		}

		if opt := req.IsEdns0(); opt != nil {
			resp.SetEdns0(4096, opt.Do())
		}

		return rw.WriteMsg(ctx, req, resp)
	})
}

func vc08sStart(tb testing.TB, maxUDP uint16) (srv *dnsserver.ServerDNS) {
	h := vc08sHandler(tb)
	var err error
	for i := 0; i < 30; i++ {
		srv = dnsserver.NewServerDNS(dnsserver.ConfigDNS{
			ConfigBase:     dnsserver.ConfigBase{Name: "verif-c08-stack", Addr: "127.0.0.1:0", Handler: h},
			MaxUDPRespSize: maxUDP,
		})
		if err = srv.Start(context.Background()); err == nil {
			return srv
		}
	}

	fmt.Println("VERIF-INCONCLUSIVE: cannot start loopback server:", err)
	tb.FailNow()

	return nil
}

// vc08sHandler is the chain ratelimitmw -> ecscache -> large-answer upstream.
func vc08sHandler(tb testing.TB) (h dnsserver.Handler) {
	geo := agdtest.NewGeoIP()
	geo.OnData = func(string, netip.Addr) (*geoip.Location, error) { return nil, nil }
	geo.OnSubnetByLocation = func(_ *geoip.Location, fam netutil.AddrFamily) (netip.Prefix, error) {
		return netutil.ZeroPrefix(fam), nil
	}

	cacheMw := ecscache.NewMiddleware(&ecscache.MiddlewareConfig{
		Cloner:       agdtest.NewCloner(),
		Logger:       slogutil.NewDiscardLogger(),
		CacheManager: agdcache.EmptyManager{},
		GeoIP:        geo,
		NoECSCount:   100,
		ECSCount:     100,
	})
	rlMw := ratelimitmw.New(&ratelimitmw.Config{
		Logger:           slogutil.NewDiscardLogger(),
		Messages:         agdtest.NewConstructor(tb),
		FilteringGroup:   &agd.FilteringGroup{},
		ServerGroup:      &agd.ServerGroup{},
		Server:           &agd.Server{Protocol: agd.ProtoDoT}, // no rate limiting
		StructuredErrors: agdtest.NewSDEConfig(true),
		AccessManager: &agdtest.AccessManager{
			OnIsBlockedHost: func(string, uint16) bool { return false },
			OnIsBlockedIP:   func(netip.Addr) bool { return false },
		},
		DeviceFinder: &agdtest.DeviceFinder{
			OnFind: func(context.Context, *dns.Msg, netip.AddrPort, netip.AddrPort) agd.DeviceResult { return nil },
		},
		ErrColl:    agdtest.NewErrorCollector(),
		GeoIP:      geo,
		Metrics:    ratelimitmw.EmptyMetrics{},
		Limiter:    agdtest.NewRateLimit(),
		Protocols:  []agd.Protocol{agd.ProtoDNS},
		EDEEnabled: true,
	})

	return rlMw.Wrap(cacheMw.Wrap(vc08sUpstream()))
}

func TestVerifC08Stack(t *testing.T) {
	st := vstat.New("C08", "dnssvc.udp-limit-behind-middlewares",
		"rapid (configured maximum, client EDNS: none or advertised size, number of 60-octet records from 1 to 80, first ask or repeat) over real UDP to a ServerDNS whose handler is ratelimitmw + ecscache + an upstream with large answers; oracle on the datagram received: length <= max(512, min(advertised, configured maximum)), TC => empty answer, OPT present iff the query had one, with the client's UDP size and version 0; non-trivial = the upstream answer exceeds the client's limit; distinct by (maximum, advertised, records, repeat)",
		"over-limit-first-ask", "over-limit-cache-hit", "fits", "no-edns-over-512")
	st.Finish(t)

	servers := map[uint16]*dnsserver.ServerDNS{}
	defer func() {
		for _, s := range servers {
			_ = s.Shutdown(context.Background())
		}
	}()

	seq := 0
	rapid.Check(t, func(t *rapid.T) {
		maxUDP := uint16(rapid.SampledFrom([]int{0, 512, 1232, 4096}).Draw(t, "configuredMax"))
		srv := servers[maxUDP]
		if srv == nil {
			srv = vc08sStart(tt(t), maxUDP)
			servers[maxUDP] = srv
		}

		adv := rapid.SampledFrom([]int{-1, 0, 512, 700, 1232, 2000, 4096, 65535}).Draw(t, "advertised")
		n := rapid.SampledFrom([]int{1, 5, 7, 8, 15, 17, 18, 25, 40, 60, 80}).Draw(t, "records")
		seq++
		name := fmt.Sprintf("n%d-q%d.big.verif.test.", n, seq)

		c, err := net.Dial("udp", srv.LocalUDPAddr().String())
		if err != nil {
			t.Fatalf("dial: %v", err)
		}
		defer c.Close()

		// The statement's bound, taken literally: a configured maximum of 0
		// gives 512.
		limit := 512
		if adv >= 0 {
			limit = max(512, min(adv, int(maxUDP)))
		}

		for round := 0; round < 2; round++ {
			req := (&dns.Msg{}).SetQuestion(name, dns.TypeTXT)
			req.Id = uint16(1000*round + seq%1000 + 1)
			if adv >= 0 {
				req.SetEdns0(uint16(adv), rapid.Bool().Draw(t, "do"))
			}

			b, _ := req.Pack()
			if _, err = c.Write(b); err != nil {
				t.Fatalf("write: %v", err)
			}

			buf := make([]byte, 70000)
			_ = c.SetReadDeadline(time.Now().Add(5 * time.Second))
			k, rerr := c.Read(buf)
			if rerr != nil {
				fmt.Println("VERIF-INCONCLUSIVE: no response within 5 s:", rerr)
				t.FailNow()
			}

			resp := &dns.Msg{}
			if uerr := resp.Unpack(buf[:k]); uerr != nil {
				t.Fatalf("max %d adv %d records %d round %d: response of %d octets does not decode: %v", maxUDP, adv, n, round, k, uerr)
			}

			over := 60*n+60 > limit
			cls := "fits"
			switch {
			case over && round == 0:
				cls = "over-limit-first-ask"
			case over:
				cls = "over-limit-cache-hit"
			}

			extra := ""
			if over && adv < 0 {
				extra = "no-edns-over-512"
			}

			nt := ""
			if over {
				nt = fmt.Sprintf("%d/%d/%d/%d", maxUDP, adv, n, round)
			}

			st.Case(nt, cls, extra)
			if st.WantSample() && over {
				st.Sample(map[string]any{"configured_max": maxUDP, "advertised": adv, "records": n, "round": round, "received_octets": k, "limit": limit, "tc": resp.Truncated})
			}

			if k > limit {
				t.Fatalf("configured max %d, advertised %d, %d records, round %d (0 = first ask, 1 = repeat): UDP response of %d octets exceeds the limit %d", maxUDP, adv, n, round, k, limit)
			}

			if resp.Truncated && len(resp.Answer) != 0 {
				t.Fatalf("truncated response keeps %d answers", len(resp.Answer))
			}

			opt := resp.IsEdns0()
			if adv >= 0 {
				if opt == nil {
					t.Fatalf("query had OPT (size %d) but the response has none", adv)
				}

				if int(opt.UDPSize()) != adv || opt.Version() != 0 {
					t.Fatalf("configured max %d, advertised %d, %d records, round %d: response OPT has UDP size %d version %d, want the client's %d and 0", maxUDP, adv, n, round, opt.UDPSize(), opt.Version(), adv)
				}
			}
		}
	})
}

// tt adapts *rapid.T for helpers that need a testing.TB only to fail.
type vc08sTB struct {
	testing.TB
	t *rapid.T
}

func (b vc08sTB) Fatalf(f string, a ...any) { b.t.Fatalf(f, a...) }
func (b vc08sTB) FailNow()                  { b.t.FailNow() }
func (b vc08sTB) Helper()                   {}
func (b vc08sTB) Cleanup(func())            {}

func tt(t *rapid.T) testing.TB { return vc08sTB{t: t} }
