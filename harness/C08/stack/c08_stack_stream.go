//go:build verif

package dnssvc_test

// C08 through the real middleware stack on the stream transports: on TCP and
// DoT the writer learns the client's EDNS settings (advertised size to echo,
// keep-alive, padding) only from the request that the last handler passes to
// WriteMsg, so the clauses about the OPT record are decided here with the real
// middlewares in between, on the octets a socket client receives.

import (
	"context"
	"crypto/tls"
	"encoding/binary"
	"fmt"
	"io"
	"net"
	"testing"
	"time"

	"github.com/AdguardTeam/AdGuardDNS/internal/dnsserver"
	"github.com/AdguardTeam/AdGuardDNS/internal/dnsserver/dnsservertest"
	"github.com/miekg/dns"
	"pgregory.net/rapid"
	"verif.local/harness/vstat"
)

type vc08sStream struct {
	addr  string
	tls   *tls.Config
	close func()
}

func vc08sStartStream(tb testing.TB, useTLS bool) (s *vc08sStream) {
	plain := vc08sStart(tb, 0)
	if !useTLS {
		return &vc08sStream{
			addr:  plain.LocalTCPAddr().String(),
			close: func() { _ = plain.Shutdown(context.Background()) },
		}
	}

	// Reuse the handler chain of a fresh plain server for the DoT one.
	_ = plain.Shutdown(context.Background())

	tlsConf := dnsservertest.CreateServerTLSConfig("verif.test")
	var err error
	for i := 0; i < 30; i++ {
		srv := dnsserver.NewServerTLS(dnsserver.ConfigTLS{
			TLSConfig: tlsConf,
			ConfigDNS: dnsserver.ConfigDNS{
				ConfigBase: dnsserver.ConfigBase{Name: "verif-c08-stack-dot", Addr: "127.0.0.1:0", Handler: vc08sHandler(tb)},
			},
		})
		if err = srv.Start(context.Background()); err == nil {
			return &vc08sStream{
				addr:  srv.LocalTCPAddr().String(),
				tls:   &tls.Config{InsecureSkipVerify: true, ServerName: "verif.test"},
				close: func() { _ = srv.Shutdown(context.Background()) },
			}
		}
	}

	fmt.Println("VERIF-INCONCLUSIVE: cannot start loopback DoT server:", err)
	tb.FailNow()

	return nil
}

func TestVerifC08StackStream(t *testing.T) {
	st := vstat.New("C08", "dnssvc.stream-behind-middlewares",
		"rapid (TCP or DoT, client EDNS: none or advertised size, keep-alive option or not, padding option or not, DO, number of 60-octet records from 1 to 1200, first ask then repeat on one connection) over real sockets to a server whose handler is ratelimitmw + ecscache + an upstream with large answers; oracle on the frame received: at most 65535 octets, decodes, TC => empty answer, OPT present iff the query had one with the client's UDP size and version 0, keep-alive only if asked, padding only on DoT and only if asked; non-trivial = the query carried an OPT with a keep-alive or padding option, or the upstream answer exceeds 65535 octets; distinct by (transport, advertised, options, records, repeat)",
		"tcp", "dot", "asked-keepalive", "asked-padding", "asked-neither-with-opt", "no-opt", "upstream-answer-over-64k", "cache-hit")
	st.Finish(t)

	servers := map[bool]*vc08sStream{}
	defer func() {
		for _, s := range servers {
			s.close()
		}
	}()

	seq := 0
	rapid.Check(t, func(t *rapid.T) {
		useTLS := rapid.Bool().Draw(t, "dot")
		srv := servers[useTLS]
		if srv == nil {
			srv = vc08sStartStream(tt(t), useTLS)
			servers[useTLS] = srv
		}

		adv := rapid.SampledFrom([]int{-1, -1, 0, 512, 1232, 4096, 65535}).Draw(t, "advertised")
		askKA := adv >= 0 && rapid.Bool().Draw(t, "keepalive")
		askPad := adv >= 0 && rapid.Bool().Draw(t, "padding")
		do := adv >= 0 && rapid.Bool().Draw(t, "do")
		n := rapid.SampledFrom([]int{1, 8, 40, 80, 400, 1000, 1080, 1100, 1200}).Draw(t, "records")
		seq++
		name := fmt.Sprintf("n%d-s%d.big.verif.test.", n, seq)

		var c net.Conn
		var err error
		if useTLS {
			c, err = tls.DialWithDialer(&net.Dialer{Timeout: 5 * time.Second}, "tcp", srv.addr, srv.tls)
		} else {
			c, err = net.DialTimeout("tcp", srv.addr, 5*time.Second)
		}

		if err != nil {
			fmt.Println("VERIF-INCONCLUSIVE: cannot connect:", err)
			t.FailNow()
		}
		defer c.Close()

		trName := map[bool]string{false: "tcp", true: "dot"}[useTLS]
		for round := 0; round < 2; round++ {
			req := (&dns.Msg{}).SetQuestion(name, dns.TypeTXT)
			req.Id = uint16(7000*round + seq%7000 + 1)
			if adv >= 0 {
				req.SetEdns0(uint16(adv), do)
				opt := req.IsEdns0()
				if askKA {
					opt.Option = append(opt.Option, &dns.EDNS0_TCP_KEEPALIVE{Code: dns.EDNS0TCPKEEPALIVE})
				}

				if askPad {
					opt.Option = append(opt.Option, &dns.EDNS0_PADDING{Padding: make([]byte, rapid.IntRange(0, 40).Draw(t, "padlen"))})
				}
			}

			b, perr := req.Pack()
			if perr != nil {
				t.Fatalf("packing the query: %v", perr)
			}

			frame := make([]byte, 2+len(b))
			binary.BigEndian.PutUint16(frame, uint16(len(b)))
			copy(frame[2:], b)
			if _, err = c.Write(frame); err != nil {
				fmt.Println("VERIF-INCONCLUSIVE: write:", err)
				t.FailNow()
			}

			_ = c.SetReadDeadline(time.Now().Add(10 * time.Second))
			var hdr [2]byte
			if _, err = io.ReadFull(c, hdr[:]); err != nil {
				if ne, ok := err.(net.Error); ok && ne.Timeout() {
					fmt.Println("VERIF-INCONCLUSIVE: no response within 10 s")
					t.FailNow()
				}

				t.Fatalf("%s advertised %d keepalive %v padding %v records %d round %d: connection ended without a response: %v", trName, adv, askKA, askPad, n, round, err)
			}

			k := int(binary.BigEndian.Uint16(hdr[:]))
			body := make([]byte, k)
			if _, err = io.ReadFull(c, body); err != nil {
				t.Fatalf("%s records %d round %d: frame announces %d octets but the stream ends: %v", trName, n, round, k, err)
			}

			resp := &dns.Msg{}
			if uerr := resp.Unpack(body); uerr != nil {
				t.Fatalf("%s advertised %d records %d round %d: response of %d octets does not decode: %v", trName, adv, n, round, k, uerr)
			}

			if resp.Id != req.Id {
				t.Fatalf("%s records %d round %d: response id %d for query id %d", trName, n, round, resp.Id, req.Id)
			}

			over := 60*n > 65535
			classes := []string{trName}
			switch {
			case adv < 0:
				classes = append(classes, "no-opt")
			case !askKA && !askPad:
				classes = append(classes, "asked-neither-with-opt")
			}

			if askKA {
				classes = append(classes, "asked-keepalive")
			}

			if askPad {
				classes = append(classes, "asked-padding")
			}

			if over {
				classes = append(classes, "upstream-answer-over-64k")
			}

			if round == 1 {
				classes = append(classes, "cache-hit")
			}

			nt := ""
			if askKA || askPad || over {
				nt = fmt.Sprintf("%s/%d/%v/%v/%v/%d/%d", trName, adv, askKA, askPad, do, n, round)
			}

			desc := fmt.Sprintf("%s, advertised %d, keep-alive asked %v, padding asked %v, DO %v, %d records, round %d (0 = first ask, 1 = repeat)", trName, adv, askKA, askPad, do, n, round)

			if resp.Truncated && len(resp.Answer) != 0 {
				t.Fatalf("%s: truncated response keeps %d answers", desc, len(resp.Answer))
			}

			if over && !resp.Truncated && len(resp.Answer) == n {
				t.Fatalf("%s: all %d records in a frame of %d octets?", desc, n, k)
			}

			if !over && !resp.Truncated && len(resp.Answer) != n && resp.Rcode == dns.RcodeSuccess {
				// Not a clause of the property; count it.
				classes = append(classes, "fits-but-records-missing")
			}

			opt := resp.IsEdns0()
			if adv < 0 {
				if opt != nil {
					classes = append(classes, "opt-volunteered-to-client-without-opt")
					for _, o := range opt.Option {
						switch o.Option() {
						case dns.EDNS0TCPKEEPALIVE:
							t.Fatalf("%s: keep-alive option returned to a client that sent no OPT at all", desc)
						case dns.EDNS0PADDING:
							t.Fatalf("%s: padding returned to a client that sent no OPT at all", desc)
						}
					}
				}
			} else {
				if opt == nil {
					t.Fatalf("%s: the query had an OPT record but the response has none", desc)
				}

				if int(opt.UDPSize()) != adv || opt.Version() != 0 {
					t.Fatalf("%s: response OPT has UDP size %d version %d, want the client's %d and 0", desc, opt.UDPSize(), opt.Version(), adv)
				}

				gotKA, gotPad := 0, 0
				for _, o := range opt.Option {
					switch o.Option() {
					case dns.EDNS0TCPKEEPALIVE:
						gotKA++
					case dns.EDNS0PADDING:
						gotPad++
					}
				}

				if gotKA > 0 && !askKA {
					t.Fatalf("%s: keep-alive option returned although the client did not send it", desc)
				}

				if gotPad > 0 && (!askPad || !useTLS) {
					t.Fatalf("%s: padding returned (%d options) although the transport is not encrypted or the client did not send the option", desc, gotPad)
				}

				// dnsserver's addTCPKeepAlive and padAnswer comments: a client
				// that asks gets the option (on DoT for padding).
				if askKA && gotKA != 1 {
					t.Fatalf("%s: %d keep-alive options in the response, the client asked for it (addTCPKeepAlive)", desc, gotKA)
				}

				if askPad && useTLS && gotPad != 1 {
					t.Fatalf("%s: %d padding options in the response on DoT, the client sent one (padAnswer)", desc, gotPad)
				}
			}

			st.Case(nt, classes...)
			if st.WantSample() && nt != "" {
				st.Sample(map[string]any{"transport": trName, "advertised": adv, "keepalive_asked": askKA, "padding_asked": askPad, "records": n, "round": round, "frame_octets": k, "tc": resp.Truncated, "answers": len(resp.Answer)})
			}
		}
	})
}
