//go:build verif

package dnssvc_test

// C08 through the real middleware stack, EDNS options of the upstream: one
// handler chain (ratelimitmw + ecscache + a scripted upstream) behind a plain
// server (UDP and TCP) and a DoT server, so that the ECS cache is shared by
// clients of all three transports.  For a fresh name the upstream's answer
// carries an OPT record whose option list is a drawn sequence of EDE,
// keep-alive, padding, NSID, cookie, subnet and local options (what a resolver
// returns when the forwarded query had them, and more), or the upstream fails
// with a timeout error wrapped in annotations of drawn length.  Two or three
// clients with their own EDNS settings then ask that name one after the other
// (the later ones are usually served from the cache).  Every response is judged
// against the asking client's own query: options returned are within what the
// statement allows for that client and transport, the OPT record echoes its
// UDP size with version 0, and a UDP response stays within the limit.

import (
	"context"
	"crypto/tls"
	"encoding/binary"
	"fmt"
	"io"
	"net"
	"net/netip"
	"os"
	"strings"
	"sync"
	"testing"
	"time"

	"github.com/AdguardTeam/AdGuardDNS/internal/agd"
	"github.com/AdguardTeam/AdGuardDNS/internal/agdcache"
	"github.com/AdguardTeam/AdGuardDNS/internal/agdtest"
	"github.com/AdguardTeam/AdGuardDNS/internal/dnsserver"
	"github.com/AdguardTeam/AdGuardDNS/internal/dnsserver/dnsservertest"
	"github.com/AdguardTeam/AdGuardDNS/internal/dnssvc/internal/ratelimitmw"
	"github.com/AdguardTeam/AdGuardDNS/internal/ecscache"
	"github.com/AdguardTeam/AdGuardDNS/internal/geoip"
	"github.com/AdguardTeam/golibs/logutil/slogutil"
	"github.com/AdguardTeam/golibs/netutil"
	"github.com/miekg/dns"
	"pgregory.net/rapid"
	"verif.local/harness/vstat"
)

// vc08oMaxUDP is the configured UDP maximum of the plain server.
const vc08oMaxUDP = 1232

// vc08oPlan is what the upstream does for one name.
type vc08oPlan struct {
	// Options are the kinds of the options of the answer's OPT record, in
	// order; NoOpt means no OPT record at all.
	Options []string `json:"options"`
	NoOpt   bool     `json:"no_opt,omitempty"`
	// FailText, when not empty, makes the upstream fail with a timeout error
	// with this text instead of answering.
	FailText string `json:"fail_text,omitempty"`
	Records  int    `json:"records"`
}

type vc08oUpstream struct {
	mu    sync.Mutex
	plans map[string]*vc08oPlan
	calls map[string]int
}

func (u *vc08oUpstream) set(name string, p *vc08oPlan) {
	u.mu.Lock()
	defer u.mu.Unlock()

	u.plans[strings.ToLower(name)] = p
}

func (u *vc08oUpstream) numCalls(name string) (n int) {
	u.mu.Lock()
	defer u.mu.Unlock()

	return u.calls[strings.ToLower(name)]
}

func vc08oOption(kind string) (o dns.EDNS0) {
	switch kind {
	case "ede":
		return &dns.EDNS0_EDE{InfoCode: dns.ExtendedErrorCodeStaleAnswer}
	case "ede-text":
		return &dns.EDNS0_EDE{InfoCode: dns.ExtendedErrorCodeDNSBogus, ExtraText: "signature expired"}
	case "keepalive":
		return &dns.EDNS0_TCP_KEEPALIVE{Code: dns.EDNS0TCPKEEPALIVE, Timeout: 100}
	case "padding":
		return &dns.EDNS0_PADDING{Padding: make([]byte, 23)}
	case "nsid":
		return &dns.EDNS0_NSID{Code: dns.EDNS0NSID, Nsid: "7265736f6c7665722d31"}
	case "cookie":
		return &dns.EDNS0_COOKIE{Code: dns.EDNS0COOKIE, Cookie: "0102030405060708a1a2a3a4a5a6a7a8"}
	case "subnet":
		return &dns.EDNS0_SUBNET{Code: dns.EDNS0SUBNET, Family: 1, SourceNetmask: 24, SourceScope: 24, Address: net.IP{192, 0, 2, 0}}
	default:
		return &dns.EDNS0_LOCAL{Code: 65001, Data: []byte("upstream-local")}
	}
}

var vc08oOptionKinds = []string{"ede", "ede", "ede-text", "keepalive", "keepalive", "padding", "padding", "nsid", "cookie", "subnet", "local"}

func (u *vc08oUpstream) ServeDNS(ctx context.Context, rw dnsserver.ResponseWriter, req *dns.Msg) (err error) {
	name := strings.ToLower(req.Question[0].Name)

	u.mu.Lock()
	p := u.plans[name]
	u.calls[name]++
	u.mu.Unlock()

	if p == nil {
		return fmt.Errorf("vc08o: no plan for %q", name)
	}

	if p.FailText != "" {
		return fmt.Errorf("%s: %w", p.FailText, &net.OpError{Op: "read", Net: "udp", Err: os.ErrDeadlineExceeded})
	}

	resp := (&dns.Msg{}).SetReply(req)
	resp.RecursionAvailable = true
	for i := 0; i < p.Records; i++ {
		resp.Answer = append(resp.Answer, &dns.A{
			Hdr: dns.RR_Header{Name: req.Question[0].Name, Rrtype: dns.TypeA, Class: dns.ClassINET, Ttl: 300},
			A:   net.IP{192, 0, 2, byte(i + 1)},
		})
	}

	if !p.NoOpt && req.IsEdns0() != nil {
		resp.SetEdns0(1232, false)
		opt := resp.IsEdns0()
		for _, k := range p.Options {
			opt.Option = append(opt.Option, vc08oOption(k))
		}
	}

	return rw.WriteMsg(ctx, req, resp)
}

// vc08oHandler is the chain ratelimitmw -> ecscache -> up.
func vc08oHandler(tb testing.TB, up dnsserver.Handler) (h dnsserver.Handler) {
	geo := agdtest.NewGeoIP()
	geo.OnData = func(string, netip.Addr) (*geoip.Location, error) { return nil, nil }
	geo.OnSubnetByLocation = func(_ *geoip.Location, fam netutil.AddrFamily) (netip.Prefix, error) {
		return netutil.ZeroPrefix(fam), nil
	}

	cacheMw := ecscache.NewMiddleware(&ecscache.MiddlewareConfig{
		Cloner:       agdtest.NewCloner(),
		Logger:       slogutil.NewDiscardLogger(),
		CacheManager: agdcache.EmptyManager{},
		GeoIP:        geo,
		NoECSCount:   1000,
		ECSCount:     1000,
	})
	rlMw := ratelimitmw.New(&ratelimitmw.Config{
		Logger:           slogutil.NewDiscardLogger(),
		Messages:         agdtest.NewConstructor(tb),
		FilteringGroup:   &agd.FilteringGroup{},
		ServerGroup:      &agd.ServerGroup{},
		Server:           &agd.Server{Protocol: agd.ProtoDoT}, // no rate limiting
		StructuredErrors: agdtest.NewSDEConfig(true),
		AccessManager: &agdtest.AccessManager{
			OnIsBlockedHost: func(string, uint16) bool { return false },
			OnIsBlockedIP:   func(netip.Addr) bool { return false },
		},
		DeviceFinder: &agdtest.DeviceFinder{
			OnFind: func(context.Context, *dns.Msg, netip.AddrPort, netip.AddrPort) agd.DeviceResult { return nil },
		},
		ErrColl:    agdtest.NewErrorCollector(),
		GeoIP:      geo,
		Metrics:    ratelimitmw.EmptyMetrics{},
		Limiter:    agdtest.NewRateLimit(),
		Protocols:  []agd.Protocol{agd.ProtoDNS},
		EDEEnabled: true,
	})

	return rlMw.Wrap(cacheMw.Wrap(up))
}

type vc08oServers struct {
	plain *dnsserver.ServerDNS
	dot   *dnsserver.ServerTLS
	tls   *tls.Config
}

func vc08oStart(tb testing.TB, h dnsserver.Handler) (s *vc08oServers) {
	s = &vc08oServers{tls: &tls.Config{InsecureSkipVerify: true, ServerName: "verif.test"}}
	tlsConf := dnsservertest.CreateServerTLSConfig("verif.test")

	var err error
	for i := 0; i < 30 && s.plain == nil; i++ {
		srv := dnsserver.NewServerDNS(dnsserver.ConfigDNS{
			ConfigBase:     dnsserver.ConfigBase{Name: "verif-c08-opt", Addr: "127.0.0.1:0", Handler: h},
			MaxUDPRespSize: vc08oMaxUDP,
		})
		if err = srv.Start(context.Background()); err == nil {
			s.plain = srv
		}
	}

	for i := 0; i < 30 && s.plain != nil && s.dot == nil; i++ {
		srv := dnsserver.NewServerTLS(dnsserver.ConfigTLS{
			TLSConfig: tlsConf,
			ConfigDNS: dnsserver.ConfigDNS{
				ConfigBase: dnsserver.ConfigBase{Name: "verif-c08-opt-dot", Addr: "127.0.0.1:0", Handler: h},
			},
		})
		if err = srv.Start(context.Background()); err == nil {
			s.dot = srv
		}
	}

	if s.plain == nil || s.dot == nil {
		fmt.Println("VERIF-INCONCLUSIVE: cannot start loopback servers:", err)
		tb.FailNow()
	}

	return s
}

func (s *vc08oServers) shutdown() {
	if s.plain != nil {
		_ = s.plain.Shutdown(context.Background())
	}

	if s.dot != nil {
		_ = s.dot.Shutdown(context.Background())
	}
}

// vc08oClient is one asking client.
type vc08oClient struct {
	Transport string `json:"transport"`  // udp, tcp, dot
	Adv       int    `json:"advertised"` // -1: no OPT
	KeepAlive bool   `json:"keepalive"`
	Padding   int    `json:"padding"` // -1: none
	DO        bool   `json:"do"`
	Cookie    bool   `json:"cookie"`
}

func (c *vc08oClient) hasOptions() bool { return c.KeepAlive || c.Padding >= 0 }

// exchange sends one query and returns the response octets; timedOut is set
// when nothing came back in time (inconclusive, not a verdict).
func (s *vc08oServers) exchange(c *vc08oClient, b []byte) (resp []byte, timedOut bool, err error) {
	const wait = 10 * time.Second

	switch c.Transport {
	case "udp":
		conn, derr := net.Dial("udp", s.plain.LocalUDPAddr().String())
		if derr != nil {
			return nil, false, derr
		}
		defer conn.Close()

		if _, err = conn.Write(b); err != nil {
			return nil, false, err
		}

		buf := make([]byte, 70000)
		_ = conn.SetReadDeadline(time.Now().Add(wait))
		n, rerr := conn.Read(buf)
		if rerr != nil {
			return nil, true, rerr
		}

		return buf[:n], false, nil
	default:
		var conn net.Conn
		if c.Transport == "dot" {
			conn, err = tls.DialWithDialer(&net.Dialer{Timeout: wait}, "tcp", s.dot.LocalTCPAddr().String(), s.tls)
		} else {
			conn, err = net.DialTimeout("tcp", s.plain.LocalTCPAddr().String(), wait)
		}

		if err != nil {
			return nil, true, err
		}
		defer conn.Close()

		frame := make([]byte, 2+len(b))
		binary.BigEndian.PutUint16(frame, uint16(len(b)))
		copy(frame[2:], b)
		if _, err = conn.Write(frame); err != nil {
			return nil, true, err
		}

		_ = conn.SetReadDeadline(time.Now().Add(wait))
		var hdr [2]byte
		if _, err = io.ReadFull(conn, hdr[:]); err != nil {
			ne, ok := err.(net.Error)

			return nil, ok && ne.Timeout(), err
		}

		resp = make([]byte, binary.BigEndian.Uint16(hdr[:]))
		if _, err = io.ReadFull(conn, resp); err != nil {
			return nil, false, fmt.Errorf("frame announces %d octets but the stream ends: %w", len(resp), err)
		}

		return resp, false, nil
	}
}

func vc08oGenClient(t *rapid.T, label string, forceOptions bool, forcePlain bool) (c *vc08oClient) {
	c = &vc08oClient{Padding: -1, Adv: -1}
	c.Transport = rapid.SampledFrom([]string{"udp", "udp", "tcp", "dot"}).Draw(t, label+"Transport")
	switch {
	case forceOptions:
		c.Transport = rapid.SampledFrom([]string{"tcp", "dot", "dot", "udp"}).Draw(t, label+"TransportOpts")
	case forcePlain:
		c.Transport = rapid.SampledFrom([]string{"udp", "udp", "tcp"}).Draw(t, label+"TransportPlain")
	}

	if forceOptions || rapid.IntRange(0, 4).Draw(t, label+"HasOpt") != 0 {
		c.Adv = rapid.SampledFrom([]int{0, 300, 512, 513, 700, 1232, 4096, 65535}).Draw(t, label+"Adv")
		c.DO = rapid.Bool().Draw(t, label+"DO")
		c.Cookie = rapid.IntRange(0, 3).Draw(t, label+"Cookie") == 0
		if forcePlain {
			return c
		}

		ka := rapid.Bool().Draw(t, label+"KA")
		pad := rapid.Bool().Draw(t, label+"Pad")
		if forceOptions && !ka && !pad {
			ka = true
		}

		c.KeepAlive = ka
		if pad {
			c.Padding = rapid.IntRange(0, 40).Draw(t, label+"PadLen")
		}
	}

	return c
}

func (c *vc08oClient) query(name string, id uint16) (req *dns.Msg) {
	req = (&dns.Msg{}).SetQuestion(name, dns.TypeA)
	req.Id = id
	if c.Adv < 0 {
		return req
	}

	req.SetEdns0(uint16(c.Adv), c.DO)
	opt := req.IsEdns0()
	if c.KeepAlive {
		opt.Option = append(opt.Option, &dns.EDNS0_TCP_KEEPALIVE{Code: dns.EDNS0TCPKEEPALIVE})
	}

	if c.Cookie {
		opt.Option = append(opt.Option, &dns.EDNS0_COOKIE{Code: dns.EDNS0COOKIE, Cookie: "0102030405060708"})
	}

	if c.Padding >= 0 {
		opt.Option = append(opt.Option, &dns.EDNS0_PADDING{Padding: make([]byte, c.Padding)})
	}

	return req
}

// vc08oJudge checks one response against the asking client's own query.
func vc08oJudge(c *vc08oClient, req *dns.Msg, b []byte) (violations []string) {
	bad := func(f string, a ...any) { violations = append(violations, fmt.Sprintf(f, a...)) }

	if c.Transport == "udp" {
		limit := 512
		if c.Adv >= 0 {
			limit = max(512, min(c.Adv, vc08oMaxUDP))
		}

		if len(b) > limit {
			bad("UDP response of %d octets exceeds the limit %d", len(b), limit)
		}
	} else if len(b) > 65535 {
		bad("stream response of %d octets", len(b))
	}

	resp := &dns.Msg{}
	if err := resp.Unpack(b); err != nil {
		bad("response of %d octets does not decode: %v", len(b), err)

		return violations
	}

	if resp.Id != req.Id {
		bad("response id %d for query id %d", resp.Id, req.Id)
	}

	if resp.Truncated && len(resp.Answer) != 0 {
		bad("TC is set but the answer section has %d records", len(resp.Answer))
	}

	var opts []*dns.OPT
	for _, rr := range resp.Extra {
		if o, ok := rr.(*dns.OPT); ok {
			opts = append(opts, o)
		}
	}

	if c.Adv >= 0 {
		if len(opts) != 1 {
			bad("the query had an OPT record, the response has %d", len(opts))
		} else if int(opts[0].UDPSize()) != c.Adv || opts[0].Version() != 0 {
			bad("response OPT has UDP size %d version %d, want the client's %d and 0", opts[0].UDPSize(), opts[0].Version(), c.Adv)
		}
	}

	gotKA, gotPad := 0, 0
	for _, o := range opts {
		for _, e := range o.Option {
			switch e.Option() {
			case dns.EDNS0TCPKEEPALIVE:
				gotKA++
			case dns.EDNS0PADDING:
				gotPad++
			}
		}
	}

	if gotKA > 0 && !c.KeepAlive {
		bad("TCP keep-alive option returned to a client that did not send it (transport %s)", c.Transport)
	}

	if gotPad > 0 && (c.Padding < 0 || c.Transport != "dot") {
		bad("padding returned: transport %s, client sent padding: %v", c.Transport, c.Padding >= 0)
	}

	return violations
}

func TestVerifC08StackOptions(t *testing.T) {
	st := vstat.New("C08", "dnssvc.upstream-options-behind-middlewares",
		"rapid histories: a fresh name (short or close to 255 octets), an upstream plan (answer OPT with a drawn sequence of 0..6 options from EDE / EDE with text / keep-alive / padding / NSID / cookie / subnet / local, or no OPT, or a timeout failure with 0..~450 octets of annotations) and 2..3 clients (UDP, TCP or DoT; no OPT or a drawn advertised size, keep-alive, padding, cookie, DO) asking it in turn over real sockets through ratelimitmw + ecscache shared by a plain and a DoT server; every response judged against the asking client's own query; non-trivial = the upstream's OPT has keep-alive or padding after an EDE option and a later client did not send that option, or the upstream fails with a long text; distinct by plan and client settings",
		"upstream-ede-then-keepalive", "upstream-ede-then-padding", "upstream-ede-last", "upstream-no-ede", "upstream-two-ede",
		"later-client-without-options-after-client-with", "cache-hit", "client:udp", "client:tcp", "client:dot",
		"upstream-timeout", "upstream-timeout-text-200-or-more", "long-qname", "long-qname-timeout-small-adv-udp")
	st.Finish(t)

	up := &vc08oUpstream{plans: map[string]*vc08oPlan{}, calls: map[string]int{}}
	var srv *vc08oServers
	defer func() {
		if srv != nil {
			srv.shutdown()
		}
	}()

	seq := 0
	rapid.Check(t, func(t *rapid.T) {
		if srv == nil {
			srv = vc08oStart(tt(t), vc08oHandler(tt(t), up))
		}

		seq++
		var classes []string
		cls := func(s string) { classes = append(classes, s) }

		// The name.
		name := fmt.Sprintf("o%d.opt.verif.test.", seq)
		long := rapid.IntRange(0, 2).Draw(t, "longName") == 0
		if long {
			// Fill up to 243..255 octets on the wire with 63-octet labels.
			want := 255 - rapid.IntRange(0, 12).Draw(t, "longNameShorter")
			for len(name)+1 < want {
				n := min(63, want-len(name)-2)
				if n < 1 {
					break
				}

				name = strings.Repeat("l", n) + "." + name
			}

			cls("long-qname")
		}

		// The upstream's plan.
		plan := &vc08oPlan{Records: rapid.IntRange(1, 4).Draw(t, "records")}
		switch k := rapid.IntRange(0, 9).Draw(t, "planKind"); {
		case k < 3:
			var parts []string
			for i, n := 0, rapid.IntRange(0, 7).Draw(t, "failWraps"); i < n; i++ {
				parts = append(parts, rapid.SampledFrom([]string{
					"mainmw: upstream", "preupstreammw", "forwarding to [2001:db8:1234:5678:9abc:def0:1234:5678]:53 with fallback [2001:db8:8765:4321:fedc:ba98:7654:3210]:53",
					"upstreamplain: exchanging with [2001:db8:1234:5678:9abc:def0:1234:5678]:53 over udp",
					"read udp [2001:db8:ffff:ffff:ffff:ffff:ffff:fffe]:49152->[2001:db8:1234:5678:9abc:def0:1234:5678]:53",
				}).Draw(t, "failText"))
			}

			plan.FailText = strings.Join(append(parts, "i/o"), ": ")
			cls("upstream-timeout")
			if len(plan.FailText) >= 200 {
				cls("upstream-timeout-text-200-or-more")
			}
		case k == 3:
			plan.NoOpt = true
			cls("upstream-no-opt")
		default:
			// Most plans start from an EDE option and put keep-alive and/or
			// padding somewhere; the order is drawn.
			n := rapid.IntRange(0, 6).Draw(t, "numOptions")
			for i := 0; i < n; i++ {
				plan.Options = append(plan.Options, rapid.SampledFrom(vc08oOptionKinds).Draw(t, "option"))
			}

			if rapid.Bool().Draw(t, "edeFirstThenHopByHop") {
				plan.Options = append([]string{"ede"}, plan.Options...)
				plan.Options = append(plan.Options, rapid.SampledFrom([]string{"keepalive", "padding"}).Draw(t, "tailOption"))
			}
		}

		firstEDE, lastEDE, numEDE := -1, -1, 0
		for i, o := range plan.Options {
			if strings.HasPrefix(o, "ede") {
				if firstEDE < 0 {
					firstEDE = i
				}

				lastEDE = i
				numEDE++
			}
		}

		kaAfterEDE, padAfterEDE := false, false
		if firstEDE >= 0 {
			for _, o := range plan.Options[firstEDE+1:] {
				kaAfterEDE = kaAfterEDE || o == "keepalive"
				padAfterEDE = padAfterEDE || o == "padding"
			}
		}

		if plan.FailText == "" && !plan.NoOpt {
			switch {
			case numEDE == 0:
				cls("upstream-no-ede")
			case numEDE > 1:
				cls("upstream-two-ede")
			}

			if kaAfterEDE {
				cls("upstream-ede-then-keepalive")
			}

			if padAfterEDE {
				cls("upstream-ede-then-padding")
			}

			if numEDE > 0 && lastEDE == len(plan.Options)-1 {
				cls("upstream-ede-last")
			}
		}

		up.set(name, plan)

		// The clients.  Often the first one sends the options and a later one
		// does not.
		nClients := rapid.IntRange(2, 3).Draw(t, "clients")
		pattern := rapid.Bool().Draw(t, "optionsThenNone")
		var clients []*vc08oClient
		for i := 0; i < nClients; i++ {
			clients = append(clients, vc08oGenClient(t, fmt.Sprintf("c%d", i), pattern && i == 0, pattern && i == nClients-1))
		}

		nontrivial := false
		seenWithOptions := false
		var log []string
		for i, c := range clients {
			cls("client:" + c.Transport)
			if seenWithOptions && !c.hasOptions() {
				cls("later-client-without-options-after-client-with")
				if kaAfterEDE || padAfterEDE {
					nontrivial = true
				}
			}

			seenWithOptions = seenWithOptions || c.hasOptions()
			if plan.FailText != "" && long && c.Transport == "udp" && c.Adv >= 0 && c.Adv <= 540 {
				cls("long-qname-timeout-small-adv-udp")
				if len(plan.FailText) >= 200 {
					nontrivial = true
				}
			}

			before := up.numCalls(name)
			req := c.query(name, uint16(seq%20000*3+i+1))
			b, perr := req.Pack()
			if perr != nil {
				t.Fatalf("vc08o: harness: packing the query: %v", perr)
			}

			resp, timedOut, err := srv.exchange(c, b)
			if timedOut {
				fmt.Println("VERIF-INCONCLUSIVE: no response within 10 s:", err)
				t.FailNow()
			}

			if up.numCalls(name) == before && i > 0 {
				cls("cache-hit")
			}

			log = append(log, fmt.Sprintf("client %d %+v (upstream asked: %v)", i+1, *c, up.numCalls(name) != before))
			if err != nil {
				st.Case("", classes...)
				t.Fatalf("C08 violated: name %q, upstream plan %+v\n  %s\n  client %d: no response: %v", name, *plan, strings.Join(log, "\n  "), i+1, err)
			}

			if v := vc08oJudge(c, req, resp); len(v) > 0 {
				st.Case("", classes...)
				t.Fatalf("C08 violated: name %q (%d octets), upstream plan %+v\n  %s\n  response to client %d:\n    %s",
					name, len(name), *plan, strings.Join(log, "\n  "), i+1, strings.Join(v, "\n    "))
			}
		}

		nt := ""
		if nontrivial {
			nt = fmt.Sprintf("%v|%v|%d|%d", plan.Options, long, len(plan.FailText), len(clients))
			for _, c := range clients {
				nt += fmt.Sprintf("|%+v", *c)
			}
		}

		st.Case(nt, classes...)
		if nontrivial && st.WantSample() {
			st.Sample(map[string]any{"name_octets": len(name), "plan": plan, "clients": clients})
		}
	})
}
