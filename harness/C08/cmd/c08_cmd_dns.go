//go:build verif

package cmd

// C08, configuration plumbing: a generated `dns:` section -- four different
// timeouts and a maximum UDP response size -- together with the sections the
// builder needs next to it is parsed and validated by the package's own code
// and taken through the builder's own steps (initTLSManager, initServerGroups,
// initDNS).  Judged by the values in the YAML text:
//
//   - agd.Server of every server (ReadTimeout, WriteTimeout,
//     TCPConf.IdleTimeout, UDPConf.MaxRespSize);
//   - the dnsserver.ConfigDNS / ConfigTLS every plain-DNS and DoT listener of the
//     built service was constructed with (ReadTimeout, WriteTimeout,
//     TCPIdleTimeout, MaxUDPRespSize -- the value the size limit of C08 is
//     computed from);
//   - behaviour of handle_timeout: the request-context constructor of every
//     listener (all six transports) returns contexts whose deadline lies exactly
//     handle_timeout after an instant between the two clock readings taken
//     around the call.

import (
	"context"
	"crypto/ecdsa"
	"crypto/elliptic"
	"crypto/rand"
	"crypto/x509"
	"crypto/x509/pkix"
	"encoding/pem"
	"fmt"
	"math/big"
	"os"
	"path/filepath"
	"reflect"
	"sort"
	"strings"
	"testing"
	"time"

	"github.com/AdguardTeam/AdGuardDNS/internal/agd"
	"github.com/AdguardTeam/AdGuardDNS/internal/agdcache"
	"github.com/AdguardTeam/AdGuardDNS/internal/agdtest"
	"github.com/AdguardTeam/AdGuardDNS/internal/debugsvc"
	"github.com/AdguardTeam/AdGuardDNS/internal/dnsmsg"
	"github.com/AdguardTeam/AdGuardDNS/internal/dnsserver"
	"github.com/AdguardTeam/AdGuardDNS/internal/dnsserver/ratelimit"
	"github.com/AdguardTeam/AdGuardDNS/internal/filter"
	"github.com/AdguardTeam/AdGuardDNS/internal/metrics"
	"github.com/AdguardTeam/golibs/logutil/slogutil"
	"github.com/AdguardTeam/golibs/netutil"
	"github.com/panjf2000/ants/v2"
	"github.com/prometheus/client_golang/prometheus"
	"pgregory.net/rapid"
	"verif.local/harness/vpeek"
	"verif.local/harness/vstat"
)

// vc08cmdSettings are the values written into the YAML text.
type vc08cmdSettings struct {
	Read, Idle, Write, Handle time.Duration
	MaxUDP                    int
	Cert, Key                 string
}

func (s *vc08cmdSettings) yaml() string {
	return fmt.Sprintf(`ratelimit:
    refuseany: true
    response_size_estimate: 1KB
    backoff_period: 10m
    backoff_duration: 30m
    backoff_count: 1000
    ipv4:
        count: 300
        interval: 10s
        subnet_key_len: 24
    ipv6:
        count: 301
        interval: 11s
        subnet_key_len: 48
    allowlist:
        list: []
        refresh_interval: 30s
        type: 'consul'
    connection_limit:
        enabled: false
        stop: 1000
        resume: 800
    quic:
        enabled: true
        max_streams_per_peer: 77
    tcp:
        enabled: true
        max_pipeline_count: 55
cache:
    type: 'simple'
    size: 0
    ecs_size: 0
    ttl_override:
        enabled: false
        min: 60s
upstream:
    servers:
      - address: '127.0.0.1:9'
        timeout: 2s
    fallback:
        servers:
          - address: '127.0.0.1:9'
            timeout: 1s
    healthcheck:
        enabled: false
        interval: 2s
        timeout: 1s
        backoff_duration: 30s
        domain_template: '${RANDOM}.neverssl.com'
dnsdb:
    enabled: false
    max_size: 500000
dns:
    read_timeout: %s
    tcp_idle_timeout: %s
    write_timeout: %s
    handle_timeout: %s
    max_udp_response_size: %dB
query_log:
    file:
        enabled: false
filters:
    response_ttl: 10s
    custom_filter_cache_size: 1024
    safe_search_cache_size: 1025
    refresh_interval: 1h
    refresh_timeout: 5m
    index_refresh_timeout: 1m
    rule_list_refresh_timeout: 2m
    max_size: 256MB
    rule_list_cache:
        enabled: true
        size: 10000
    ede_enabled: true
    sde_enabled: false
server_groups:
  - name: 'c08_group'
    filtering_group: 'default'
    ddr:
        enabled: false
    tls:
        certificates:
          - certificate: '%s'
            key: '%s'
        session_keys: []
        device_id_wildcards: []
    profiles_enabled: false
    servers:
      - name: 'c08_dns'
        protocol: 'dns'
        linked_ip_enabled: false
        bind_addresses:
          - '127.0.0.1:5301'
          - '[::1]:5301'
      - name: 'c08_tls'
        protocol: 'tls'
        linked_ip_enabled: false
        bind_addresses:
          - '127.0.0.1:5302'
      - name: 'c08_https'
        protocol: 'https'
        linked_ip_enabled: false
        bind_addresses:
          - '127.0.0.1:5304'
      - name: 'c08_quic'
        protocol: 'quic'
        linked_ip_enabled: false
        bind_addresses:
          - '127.0.0.1:5305'
      - name: 'c08_dnscrypt'
        protocol: 'dnscrypt'
        linked_ip_enabled: false
        bind_addresses:
          - '127.0.0.1:5306'
        dnscrypt:
            inline:
                provider_name: '2.dnscrypt-cert.example.org'
                public_key: 'F11DDBCC4817E543845FDDD4CB881849B64226F3DE397625669D87B919BC4FB0'
                private_key: '5752095FFA56D963569951AFE70FE1690F378D13D8AD6F8054DFAA100907F8B6F11DDBCC4817E543845FDDD4CB881849B64226F3DE397625669D87B919BC4FB0'
                resolver_secret: '9E46E79FEB3AB3D45F4EB3EA957DEAF5D9639A0179F1850AFABA7E58F87C74C4'
                resolver_public: '9327C5E64783E19C339BD6B680A56DB85521CC6E4E0CA5DF5274E2D3CE026C6B'
                es_version: 1
                certificate_ttl: 8760h
  - name: 'c08_second_group'
    filtering_group: 'default'
    ddr:
        enabled: false
    profiles_enabled: false
    servers:
      - name: 'c08_dns_2'
        protocol: 'dns'
        linked_ip_enabled: false
        bind_addresses:
          - '127.0.0.1:5307'
`, s.Read, s.Idle, s.Write, s.Handle, s.MaxUDP, s.Cert, s.Key)
}

// vc08cmdWriteCert writes a self-signed certificate and its key.
func vc08cmdWriteCert(tb testing.TB, certPath, keyPath string) {
	key, err := ecdsa.GenerateKey(elliptic.P256(), rand.Reader)
	if err != nil {
		tb.Fatalf("fixture: generating key: %v", err)
	}

	tmpl := &x509.Certificate{
		SerialNumber: big.NewInt(8),
		Subject:      pkix.Name{CommonName: "dns.example.com"},
		DNSNames:     []string{"dns.example.com", "*.d.dns.example.com"},
		NotBefore:    time.Now().Add(-time.Hour),
		NotAfter:     time.Now().Add(240 * time.Hour),
		KeyUsage:     x509.KeyUsageDigitalSignature,
		ExtKeyUsage:  []x509.ExtKeyUsage{x509.ExtKeyUsageServerAuth},
	}

	der, err := x509.CreateCertificate(rand.Reader, tmpl, tmpl, &key.PublicKey, key)
	if err != nil {
		tb.Fatalf("fixture: creating certificate: %v", err)
	}

	keyDER, err := x509.MarshalECPrivateKey(key)
	if err != nil {
		tb.Fatalf("fixture: marshalling key: %v", err)
	}

	certPEM := pem.EncodeToMemory(&pem.Block{Type: "CERTIFICATE", Bytes: der})
	keyPEM := pem.EncodeToMemory(&pem.Block{Type: "EC PRIVATE KEY", Bytes: keyDER})
	if err = os.WriteFile(certPath, certPEM, 0o600); err != nil {
		tb.Fatalf("fixture: %v", err)
	}

	if err = os.WriteFile(keyPath, keyPEM, 0o600); err != nil {
		tb.Fatalf("fixture: %v", err)
	}
}

// vc08cmdListener is one dnsserver listener of the built service.
type vc08cmdListener struct {
	name string
	srv  reflect.Value
}

// vc08cmdListeners walks the built service down to its dnsserver listeners.
func vc08cmdListeners(svc any) (ls []vc08cmdListener, err error) {
	groups, err := vpeek.Get(svc, "groups")
	if err != nil {
		return nil, err
	}

	for i := range groups.Len() {
		servers, gerr := vpeek.Get(vpeek.Open(groups.Index(i)).Interface(), "servers")
		if gerr != nil {
			return nil, gerr
		}

		for j := range servers.Len() {
			lsnrs, serr := vpeek.Get(vpeek.Open(servers.Index(j)).Interface(), "listeners")
			if serr != nil {
				return nil, serr
			}

			for k := range lsnrs.Len() {
				l := vpeek.Open(lsnrs.Index(k)).Interface()
				name, nerr := vpeek.Get(l, "name")
				if nerr != nil {
					return nil, nerr
				}

				inner, ierr := vpeek.Get(l, "Listener")
				if ierr != nil {
					return nil, ierr
				}

				ls = append(ls, vc08cmdListener{name: name.String(), srv: inner})
			}
		}
	}

	return ls, nil
}

// vc08cmdReleasePools stops the worker pools of a listener that was
// constructed but never started.
func vc08cmdReleasePools(v reflect.Value, depth int) {
	v = vpeek.Elem(v)
	if depth > 3 || !v.IsValid() || v.Kind() != reflect.Struct {
		return
	}

	poolType := reflect.TypeOf((*ants.Pool)(nil))
	for i := range v.NumField() {
		f := vpeek.Open(v.Field(i))
		switch {
		case f.Type() == poolType:
			if p, ok := f.Interface().(*ants.Pool); ok && p != nil {
				p.Release()
			}
		case f.Kind() == reflect.Pointer && f.Type().Elem().Kind() == reflect.Struct && strings.HasPrefix(f.Type().Elem().Name(), "Server"):
			vc08cmdReleasePools(f, depth+1)
		}
	}
}

func TestVerifC08CmdDNS(t *testing.T) {
	st := vstat.New("C08", "cmd.dns-config",
		"rapid: a configuration whose `dns:` section carries four pairwise different timeouts (tcp_idle_timeout also at the documented maximum of 6553.5 s) and a max_udp_response_size from 512 to 65535 (boundaries and odd values), with a dns (two addresses), tls, https, quic and dnscrypt server and a second group -> parseConfig, validate, builder.initTLSManager / initServerGroups / initDNS; fidelity of agd.Server and of the ConfigDNS / ConfigTLS every plain and DoT listener was constructed with against the YAML values; behaviour: the request-context constructor of every listener gives contexts whose deadline is handle_timeout after the call (bounded by two clock readings); non-trivial = every case (all values differ from their neighbours), distinct by settings",
		"listener-dns", "listener-tls", "listener-https", "listener-quic", "listener-dnscrypt", "udp-size-at-512", "udp-size-at-65535", "udp-size-odd", "tcp-idle-timeout-at-maximum", "handle-timeout-shortest", "handle-timeout-longest")
	st.Finish(t)

	dir := t.TempDir()
	certPath, keyPath := filepath.Join(dir, "cert.crt"), filepath.Join(dir, "cert.key")
	vc08cmdWriteCert(t, certPath, keyPath)
	logger := slogutil.NewDiscardLogger()
	errColl := agdtest.NewErrorCollector()
	errColl.OnCollect = func(context.Context, error) {}
	msgs := agdtest.NewConstructor(t)
	caseNo := 0
	ctx := context.Background()

	inconclusive := func(format string, args ...any) {
		msg := fmt.Sprintf(format, args...)
		fmt.Printf("VERIF-INCONCLUSIVE: %s\n", msg)
		t.Logf("VERIF-INCONCLUSIVE: %s", msg)
		t.FailNow()
	}

	pool := []time.Duration{
		1500 * time.Millisecond, 2 * time.Second, 3 * time.Second, 7 * time.Second, 11 * time.Second, 30 * time.Second, 47 * time.Second, 90 * time.Second, 10 * time.Minute,
	}

	rapid.Check(t, func(rt *rapid.T) {
		caseNo++
		d := rapid.Permutation(pool).Draw(rt, "timeouts")
		s := vc08cmdSettings{Read: d[0], Idle: d[1], Write: d[2], Handle: d[3], Cert: certPath, Key: keyPath}
		if rapid.IntRange(0, 5).Draw(rt, "idleAtMax") == 0 {
			// "must be less than or equal to" dnsserver.MaxTCPIdleTimeout.
			s.Idle = 65535 * 100 * time.Millisecond
		}

		s.MaxUDP = rapid.SampledFrom([]int{512, 513, 1024, 1232, 1233, 4096, 4097, 65535, 777, 16384}).Draw(rt, "maxUDP")

		text := s.yaml()
		path := filepath.Join(dir, fmt.Sprintf("c%d.yaml", caseNo))
		if err := os.WriteFile(path, []byte(text), 0o600); err != nil {
			rt.Fatalf("harness: %v", err)
		}
		defer func() { _ = os.Remove(path) }()

		show := func() string {
			return fmt.Sprintf("dns{read_timeout=%s tcp_idle_timeout=%s write_timeout=%s handle_timeout=%s max_udp_response_size=%dB}", s.Read, s.Idle, s.Write, s.Handle, s.MaxUDP)
		}

		conf, err := parseConfig(path)
		if err != nil {
			rt.Fatalf("the generated configuration was not parsed: %v\n%s", err, text)
		}

		for name, v := range map[string]validator{
			"ratelimit": conf.RateLimit, "cache": conf.Cache, "upstream": conf.Upstream, "dnsdb": conf.DNSDB, "dns": conf.DNS,
			"query_log": conf.QueryLog, "filters": conf.Filters, "server_groups": conf.ServerGroups,
		} {
			if verr := v.validate(); verr != nil {
				rt.Fatalf("a valid %s section was rejected: %v\n%s", name, verr, show())
			}
		}

		reg := prometheus.NewRegistry()
		oldReg := prometheus.DefaultRegisterer
		prometheus.DefaultRegisterer = prometheus.NewRegistry()
		defer func() { prometheus.DefaultRegisterer = oldReg }()

		b := &builder{
			baseLogger:     logger,
			cacheManager:   agdcache.NewDefaultManager(),
			cloner:         dnsmsg.NewCloner(metrics.ClonerStat{}),
			conf:           conf,
			env:            &environment{},
			errColl:        errColl,
			geoIPError:     make(chan error, 1),
			logger:         logger,
			mtrcNamespace:  metrics.Namespace(),
			promRegisterer: reg,
			debugRefrs:     debugsvc.Refreshers{},
			messages:       msgs,
			filteringGroups: map[agd.FilteringGroupID]*agd.FilteringGroup{"default": {
				FilterConfig: &filter.ConfigGroup{
					Parental:     &filter.ConfigParental{},
					RuleList:     &filter.ConfigRuleList{},
					SafeBrowsing: &filter.ConfigSafeBrowsing{},
				},
				ID: "default",
			}},
		}

		step := func(name string, f func() error) {
			defer func() {
				if v := recover(); v != nil {
					rt.Fatalf("%s panicked on a valid configuration: %v\n%s", name, v, show())
				}
			}()

			if serr := f(); serr != nil {
				rt.Fatalf("%s failed on a valid configuration: %v\n%s", name, serr, show())
			}
		}

		step("builder.initTLSManager", func() error { return b.initTLSManager(ctx) })
		step("builder.initServerGroups", func() error { return b.initServerGroups(ctx) })
		step("ratelimit", func() error {
			rc := conf.RateLimit
			allowlist := ratelimit.NewDynamicAllowlist(netutil.UnembedPrefixes(rc.Allowlist.List), nil)
			b.connLimit = rc.ConnectionLimit.toInternal(b.baseLogger)
			b.rateLimit = ratelimit.NewBackoff(rc.toInternal(allowlist))

			return nil
		})
		step("builder.initDNS", func() error { return b.initDNS(ctx) })
		defer func() {
			if b.fwdHandler != nil {
				_ = b.fwdHandler.Close()
			}
		}()

		listeners, err := vc08cmdListeners(b.dnsSvc)
		if err != nil {
			inconclusive("the built service cannot be walked: %v", err)
		}
		defer func() {
			for _, l := range listeners {
				vc08cmdReleasePools(l.srv, 0)
			}
		}()

		classes := map[string]bool{}
		switch {
		case s.MaxUDP == 512:
			classes["udp-size-at-512"] = true
		case s.MaxUDP == 65535:
			classes["udp-size-at-65535"] = true
		case s.MaxUDP%2 == 1:
			classes["udp-size-odd"] = true
		}

		if s.Idle == 65535*100*time.Millisecond {
			classes["tcp-idle-timeout-at-maximum"] = true
		}

		if s.Handle == min(s.Read, s.Idle, s.Write, s.Handle) {
			classes["handle-timeout-shortest"] = true
		} else if s.Handle == max(s.Read, s.Idle, s.Write, s.Handle) {
			classes["handle-timeout-longest"] = true
		}

		// The servers.
		nSrv := 0
		for _, g := range b.serverGroups {
			for _, srv := range g.Servers {
				nSrv++
				// "It currently doesn't affect DNSCrypt, QUIC, or HTTPS": the
				// values are still those of the configuration.
				if srv.ReadTimeout != s.Read || srv.WriteTimeout != s.Write {
					rt.Fatalf("conversion: server %q got ReadTimeout=%s WriteTimeout=%s\n%s", srv.Name, srv.ReadTimeout, srv.WriteTimeout, show())
				}

				switch srv.Protocol {
				case agd.ProtoDNS:
					if srv.UDPConf == nil || int(srv.UDPConf.MaxRespSize) != s.MaxUDP {
						rt.Fatalf("conversion: server %q got UDP settings %+v\n%s", srv.Name, srv.UDPConf, show())
					}

					fallthrough
				case agd.ProtoDoT:
					if srv.TCPConf == nil || srv.TCPConf.IdleTimeout != s.Idle {
						rt.Fatalf("conversion: server %q got TCP settings %+v\n%s", srv.Name, srv.TCPConf, show())
					}
				}
			}
		}

		if nSrv != 6 {
			rt.Fatalf("conversion: %d servers built from 6 configured\n%s", nSrv, show())
		}

		if len(listeners) != 7 {
			rt.Fatalf("the service has %d listeners for 7 configured addresses\n%s", len(listeners), show())
		}

		for _, l := range listeners {
			confV, cerr := vpeek.Get(l.srv.Interface(), "conf")
			if cerr != nil {
				inconclusive("listener %s: %v", l.name, cerr)
			}

			checkDNS := func(c dnsserver.ConfigDNS, udp bool) {
				if c.ReadTimeout != s.Read || c.WriteTimeout != s.Write || c.TCPIdleTimeout != s.Idle {
					rt.Fatalf("listener %s was constructed with ReadTimeout=%s WriteTimeout=%s TCPIdleTimeout=%s\n%s", l.name, c.ReadTimeout, c.WriteTimeout, c.TCPIdleTimeout, show())
				}

				if udp && int(c.MaxUDPRespSize) != s.MaxUDP {
					rt.Fatalf("listener %s was constructed with MaxUDPRespSize=%d\n%s", l.name, c.MaxUDPRespSize, show())
				}
			}

			var base dnsserver.ConfigBase
			switch c := confV.Interface().(type) {
			case dnsserver.ConfigDNS:
				classes["listener-dns"] = true
				base = c.ConfigBase
				checkDNS(c, true)
			case dnsserver.ConfigTLS:
				classes["listener-tls"] = true
				base = c.ConfigBase
				checkDNS(c.ConfigDNS, false)
			case dnsserver.ConfigHTTPS:
				classes["listener-https"] = true
				base = c.ConfigBase
			case dnsserver.ConfigQUIC:
				classes["listener-quic"] = true
				base = c.ConfigBase
			case dnsserver.ConfigDNSCrypt:
				classes["listener-dnscrypt"] = true
				base = c.ConfigBase
			default:
				inconclusive("listener %s has an unknown configuration type %T", l.name, c)
			}

			// "The timeout for the entire handling of a single query".
			rc := base.RequestContext
			if rc == nil {
				rt.Fatalf("listener %s has no request-context constructor\n%s", l.name, show())
			}

			t0 := time.Now()
			qctx, cancel := rc.New()
			t1 := time.Now()
			dl, ok := qctx.Deadline()
			cancel()
			if !ok {
				rt.Fatalf("listener %s: request contexts have no deadline; handle_timeout is %s\n%s", l.name, s.Handle, show())
			}

			if dl.Before(t0.Add(s.Handle)) || dl.After(t1.Add(s.Handle)) {
				rt.Fatalf("listener %s: a request context made between %s and %s has the deadline %s, that is %s .. %s after; handle_timeout is %s\n%s",
					l.name, t0.Format(time.RFC3339Nano), t1.Format(time.RFC3339Nano), dl.Format(time.RFC3339Nano), dl.Sub(t1), dl.Sub(t0), s.Handle, show())
			}
		}

		var cl []string
		for c := range classes {
			cl = append(cl, c)
		}

		sort.Strings(cl)
		st.Case(show(), cl...)
		if st.WantSample() {
			st.Sample(map[string]any{"settings": show(), "classes": cl})
		}
	})
}
