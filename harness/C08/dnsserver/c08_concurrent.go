//go:build verif

package dnsserver

// C08, concurrent part: 2..4 queries with pairwise different EDNS settings
// are in flight at the same time on one transport (pipelined on one TCP/DoT
// connection, or as datagrams on one UDP socket, or as parallel DoH requests /
// DoQ streams / DNSCrypt queries) against servers that dispose of responses
// into one production cloner, with a handler that answers from stored
// messages through that cloner.  Every response is matched to its query by
// message ID and judged by the per-response oracle against that query's own
// EDNS settings.  Schedules are sampled, not owned; the run is also built with
// the race detector.

import (
	"bytes"
	"context"
	"encoding/binary"
	"fmt"
	"math/rand"
	"strings"
	"sync"
	"testing"
	"time"

	"github.com/AdguardTeam/AdGuardDNS/internal/dnsserver/netext"
	"github.com/miekg/dns"
	"pgregory.net/rapid"
	"verif.local/harness/vstat"
)

type vc08ConcItem struct {
	p      vc08SeqParams
	req    *dns.Msg
	rf     vc08ReqFacts
	stored *dns.Msg
	pf     vc08RespFacts
	bytes  []byte

	// Written by the handler under vc08ConcState.mu.
	handled  int
	writeErr error

	out    vc08Out
	outSet bool
}

type vc08ConcState struct {
	mu   sync.Mutex
	byID map[uint16]*vc08ConcItem
}

// Vc08RunConcurrent is the body of TestVerifC08Concurrent.
func Vc08RunConcurrent(t *testing.T, newCloner func() (c Vc08Cloner)) {
	st := vstat.New("C08", "dnsserver.concurrent",
		"rapid (transport, configured UDP cap, 2..4 queries for one question with drawn EDNS settings and stored-message kinds) served by one goroutine each, released together, on one shared TCP/DoT connection or UDP socket (own request/stream objects on DoH, DoQ, DNSCrypt), production cloner as disposer and response source; responses matched by message ID; non-trivial = the in-flight queries differ in keep-alive or padding; distinct by transport and the multiset of request settings",
		"conc:tcp", "conc:dot", "conc:udp", "conc:doh", "conc:doq", "mixed-keepalive-in-flight", "mixed-padding-in-flight")
	st.Finish(t)

	e := vc08NewEnv()
	fnd := vc08NewFindings(st)
	defer fnd.report(t)

	state := &vc08ConcState{}
	var cl Vc08Cloner
	e.h = func(ctx context.Context, rw ResponseWriter, req *dns.Msg) (err error) {
		state.mu.Lock()
		it := state.byID[req.Id]
		if it != nil {
			it.handled++
		}
		state.mu.Unlock()

		if it == nil {
			return fmt.Errorf("vc08: unknown query id %d", req.Id)
		}

		resp := cl.Clone(it.stored)
		resp.Id = req.Id
		err = rw.WriteMsg(ctx, req, resp)

		state.mu.Lock()
		it.writeErr = err
		state.mu.Unlock()

		return err
	}

	trs := []vc08Transport{vc08UDP, vc08TCP, vc08TCP, vc08DoT, vc08DoT, vc08DoH, vc08DoQ, vc08DCUDP}

	rapid.Check(t, func(t *rapid.T) {
		cl = newCloner()
		e.setDisposer(cl)
		rand.Seed(rapid.Int64().Draw(t, "padSeed"))

		tr := rapid.SampledFrom(trs).Draw(t, "transport")
		cap := rapid.SampledFrom([]uint16{0, 512, 1232, 4096, 65535}).Draw(t, "cap")
		n := rapid.IntRange(2, 4).Draw(t, "inFlight")
		base := rapid.Uint16Range(1, 60000).Draw(t, "idBase")

		items := make([]*vc08ConcItem, n)
		state.byID = map[uint16]*vc08ConcItem{}
		var key []string
		kaSeen, padSeen := map[bool]bool{}, map[bool]bool{}
		for i := range items {
			it := &vc08ConcItem{}
			it.p.Tr = tr
			it.p.Kind = rapid.SampledFrom(vc08StoredKinds).Draw(t, "stored")
			// The first query asks for what the write path appends; the others are
			// drawn freely (and often do not).
			vc08SeqDraw(t, &it.p, i == 0 && (tr == vc08TCP || tr == vc08DoT), i == 0 && (tr == vc08DoT || tr == vc08DoH || tr == vc08DoQ))
			it.req, it.rf = vc08SeqReq(&it.p, base+uint16(i))
			it.stored = vc08Stored(t, it.p.Kind)
			it.pf = vc08StoredFacts(it.stored, it.req, it.rf, it.p.Kind)
			b, err := it.req.Pack()
			if err != nil {
				t.Fatalf("vc08: harness: %v", err)
			}

			it.bytes = b
			it.rf.Len = len(b)
			items[i] = it
			state.byID[it.req.Id] = it
			key = append(key, fmt.Sprintf("%s/%v/%d/%v/%d", it.p.Kind, it.rf.HasOpt, it.rf.UDPSize, it.rf.KeepAlive, it.rf.Pad))
			kaSeen[it.rf.KeepAlive] = true
			padSeen[it.rf.Pad >= 0] = true
		}

		if e.plain.conf.MaxUDPRespSize != cap {
			e.plain.conf.MaxUDPRespSize = cap
		}

		// Shared link objects.
		pc := &vc08PacketConn{}
		conn := &vc08StreamConn{}
		writeMu := &sync.Mutex{}
		connWG := &sync.WaitGroup{}

		start := make(chan struct{})
		done := &sync.WaitGroup{}
		for _, it := range items {
			done.Add(1)
			go func(it *vc08ConcItem) {
				defer done.Done()

				<-start
				switch tr {
				case vc08UDP:
					s := e.plain
					ctx, cancel := s.requestContext()
					defer cancel()

					ctx = ContextWithRequestInfo(ctx, &RequestInfo{StartTime: time.Now()})
					s.wg.Add(1)
					s.serveUDPPacket(ctx, bytes.Clone(it.bytes), pc, netext.NewSimplePacketSession(vc08LocalUDP, vc08RemoteUDP))
				case vc08TCP, vc08DoT:
					s := e.plain
					if tr == vc08DoT {
						s = e.dot
					}

					ctx, cancel := s.requestContext()
					defer cancel()

					ctx = ContextWithRequestInfo(ctx, &RequestInfo{StartTime: time.Now()})
					connWG.Add(1)
					s.serveTCPMessage(ctx, connWG, writeMu, bytes.Clone(it.bytes), conn)
				default:
					it.out = e.serveRaw(tr, cap, it.bytes, false)
					it.outSet = true
				}
			}(it)
		}

		close(start)
		done.Wait()

		var violations []string
		bad := func(format string, a ...any) { violations = append(violations, fmt.Sprintf(format, a...)) }

		// Split what the shared link carries by message ID.
		assign := func(msg []byte) {
			if len(msg) < 2 {
				bad("a message of %d octets on the shared link", len(msg))

				return
			}

			it := state.byID[binary.BigEndian.Uint16(msg)]
			switch {
			case it == nil:
				bad("a response with id %d that no query in flight has", binary.BigEndian.Uint16(msg))
			case it.outSet:
				bad("two responses with id %d", it.req.Id)
			default:
				it.out, it.outSet = vc08Out{msg: msg}, true
			}
		}

		switch tr {
		case vc08UDP:
			for _, d := range pc.wrote {
				assign(d)
			}
		case vc08TCP, vc08DoT:
			b := conn.wrote
			for len(b) > 0 {
				if len(b) < 2 || len(b) < 2+int(binary.BigEndian.Uint16(b)) {
					bad("framing: the shared connection ends inside a message (%d octets left)", len(b))

					break
				}

				l := int(binary.BigEndian.Uint16(b))
				assign(b[2 : 2+l])
				b = b[2+l:]
			}
		}

		classes := []string{"conc:" + tr.String()}
		mixed := false
		if len(kaSeen) == 2 {
			classes = append(classes, "mixed-keepalive-in-flight")
			mixed = true
		}

		if len(padSeen) == 2 {
			classes = append(classes, "mixed-padding-in-flight")
			mixed = true
		}

		panics := e.mtr.take()
		var cases []vc08Case
		for i, it := range items {
			c := vc08Case{
				Transport: tr.String(), Cap: cap, Limit: vc08Limit(tr, it.rf.HasOpt, it.rf.UDPSize, cap),
				Req: it.rf, Resp: it.pf, Handler: "concurrent",
			}
			ob := vc08Obs{handled: it.handled, writeErr: it.writeErr}
			if i == 0 {
				ob.panics = panics
			}

			_, v := vc08Judge(fnd, &c, tr, it.out, ob)
			for _, s := range v {
				bad("query %d (id %d): %s", i+1, it.req.Id, s)
			}

			cases = append(cases, c)
		}

		nt := ""
		if mixed {
			nt = tr.String() + "|" + strings.Join(key, ";")
		}

		st.Case(nt, classes...)
		if mixed && st.WantSample() {
			st.Sample(cases)
		}

		if len(violations) > 0 {
			t.Fatalf("C08 violated with %d queries in flight on %s:\n  %s\ncases: %+v", n, tr, strings.Join(violations, "\n  "), cases)
		}
	})
}
