//go:build verif

package dnsserver

// C08: responses respect the transport's size limit and are truncated safely.
//
// Every case is a (transport, configured UDP cap, request, handler response)
// tuple.  The request is packed to bytes and handed to the real per-transport
// serving function of an unstarted server (serveUDPPacket, serveTCPMessage,
// httpHandler.ServeHTTP, serveQUICStream, dnsCryptHandler.ServeDNS) together
// with a fake connection that records what the server writes.  The oracle is
// evaluated on the recorded bytes only.  See /verif/DESIGN.md, section 3, C08.

import (
	"bytes"
	"context"
	"encoding/base64"
	"encoding/binary"
	"encoding/hex"
	"errors"
	"fmt"
	"math/rand"
	"net"
	"net/http"
	"net/http/httptest"
	"os"
	"strings"
	"sync"
	"testing"
	"time"

	"github.com/AdguardTeam/AdGuardDNS/internal/dnsserver/netext"
	"github.com/miekg/dns"
	"github.com/quic-go/quic-go"
	"pgregory.net/rapid"
	"verif.local/harness/vstat"
)

// ---------------------------------------------------------------------------
// transports

type vc08Transport int

const (
	vc08UDP vc08Transport = iota
	vc08TCP
	vc08DoT
	vc08DoH
	vc08DoQ
	vc08DCUDP
	vc08DCTCP
	vc08NumTransports
)

var vc08TrNames = [...]string{"udp", "tcp", "dot", "doh", "doq", "dnscrypt-udp", "dnscrypt-tcp"}

func (tr vc08Transport) String() string { return vc08TrNames[tr] }

// datagram reports whether the statement's UDP bound applies.
func (tr vc08Transport) datagram() bool { return tr == vc08UDP || tr == vc08DCUDP }

// encrypted reports whether the transport is an encrypted one in the sense of
// the statement ("padding is added only on encrypted transports").
func (tr vc08Transport) encrypted() bool { return tr != vc08UDP && tr != vc08TCP }

// prefixed reports whether the bytes written carry a two-octet length prefix
// that the harness sees (DNSCrypt framing is done by the library, behind the
// observed interface).
func (tr vc08Transport) prefixed() bool { return tr == vc08TCP || tr == vc08DoT || tr == vc08DoQ }

// vc08Limit is the statement's bound: max(512, min(advertised, configured
// maximum)) on UDP, 65535 on a stream.  DNSCrypt has no configured maximum.
func vc08Limit(tr vc08Transport, hasOpt bool, adv, cap uint16) int {
	if !tr.datagram() {
		return 65535
	}

	a := 0
	if hasOpt {
		a = int(adv)
	}

	c := int(cap)
	if tr == vc08DCUDP {
		c = 65535
	}

	return max(512, min(a, c))
}

// ---------------------------------------------------------------------------
// fakes

type vc08Addr struct{ netw, s string }

func (a vc08Addr) Network() string { return a.netw }
func (a vc08Addr) String() string  { return a.s }

var (
	vc08LocalUDP  net.Addr = &net.UDPAddr{IP: net.IP{192, 0, 2, 53}, Port: 53}
	vc08RemoteUDP net.Addr = &net.UDPAddr{IP: net.IP{198, 51, 100, 7}, Port: 40000}
	vc08LocalTCP  net.Addr = &net.TCPAddr{IP: net.IP{192, 0, 2, 53}, Port: 53}
	vc08RemoteTCP net.Addr = &net.TCPAddr{IP: net.IP{198, 51, 100, 7}, Port: 40000}
)

// vc08PacketConn records datagrams.
type vc08PacketConn struct {
	net.PacketConn

	// mu makes the fake as safe for concurrent use as a real UDP socket is.
	mu    sync.Mutex
	wrote [][]byte
}

func (c *vc08PacketConn) WriteTo(b []byte, _ net.Addr) (n int, err error) {
	c.mu.Lock()
	defer c.mu.Unlock()

	c.wrote = append(c.wrote, bytes.Clone(b))

	return len(b), nil
}

func (c *vc08PacketConn) SetWriteDeadline(time.Time) error { return nil }
func (c *vc08PacketConn) LocalAddr() net.Addr              { return vc08LocalUDP }

// vc08SessionPacketConn is the same recorder behind the session interface
// that the production listeners (netext with OOB data, bindtodevice) implement;
// netext.WriteToSession takes another branch for it.
type vc08SessionPacketConn struct {
	*vc08PacketConn
}

func (c *vc08SessionPacketConn) ReadFromSession(_ []byte) (n int, s netext.PacketSession, err error) {
	return 0, nil, net.ErrClosed
}

func (c *vc08SessionPacketConn) WriteToSession(b []byte, s netext.PacketSession) (n int, err error) {
	return c.vc08PacketConn.WriteTo(b, s.RemoteAddr())
}

// vc08StreamConn records a byte stream.
type vc08StreamConn struct {
	net.Conn

	wrote  []byte
	writes int
	closed bool
}

func (c *vc08StreamConn) Write(b []byte) (n int, err error) {
	c.wrote = append(c.wrote, b...)
	c.writes++

	return len(b), nil
}

func (c *vc08StreamConn) Close() error                     { c.closed = true; return nil }
func (c *vc08StreamConn) SetWriteDeadline(time.Time) error { return nil }
func (c *vc08StreamConn) SetReadDeadline(time.Time) error  { return nil }
func (c *vc08StreamConn) SetDeadline(time.Time) error      { return nil }
func (c *vc08StreamConn) LocalAddr() net.Addr              { return vc08LocalTCP }
func (c *vc08StreamConn) RemoteAddr() net.Addr             { return vc08RemoteTCP }

// vc08QUICStream is one bidirectional stream: the query is readable until
// io.EOF (STREAM FIN), everything written is recorded.
type vc08QUICStream struct {
	quic.Stream

	in    *bytes.Reader
	wrote []byte
}

func (s *vc08QUICStream) Read(p []byte) (n int, err error) { return s.in.Read(p) }
func (s *vc08QUICStream) Write(p []byte) (n int, err error) {
	s.wrote = append(s.wrote, p...)
	return len(p), nil
}
func (s *vc08QUICStream) Close() error                     { return nil }
func (s *vc08QUICStream) CancelRead(quic.StreamErrorCode)  {}
func (s *vc08QUICStream) CancelWrite(quic.StreamErrorCode) {}
func (s *vc08QUICStream) SetReadDeadline(time.Time) error  { return nil }
func (s *vc08QUICStream) SetWriteDeadline(time.Time) error { return nil }
func (s *vc08QUICStream) SetDeadline(time.Time) error      { return nil }
func (s *vc08QUICStream) StreamID() quic.StreamID          { return 0 }
func (s *vc08QUICStream) Context() context.Context         { return context.Background() }

// vc08QUICConn is the connection a stream belongs to; only what
// serveQUICStream touches is implemented.
type vc08QUICConn struct {
	quic.Connection

	mu         sync.Mutex
	closedWith []quic.ApplicationErrorCode
}

func (c *vc08QUICConn) LocalAddr() net.Addr  { return vc08LocalUDP }
func (c *vc08QUICConn) RemoteAddr() net.Addr { return vc08RemoteUDP }
func (c *vc08QUICConn) CloseWithError(code quic.ApplicationErrorCode, _ string) error {
	c.mu.Lock()
	defer c.mu.Unlock()

	c.closedWith = append(c.closedWith, code)

	return nil
}
func (c *vc08QUICConn) Context() context.Context { return context.Background() }

// vc08DCWriter is the dnscrypt.ResponseWriter the DNSCrypt library would hand
// to the handler.  The library packs the message it is given with Msg.Pack
// and encrypts the result, so the packed length is the DNS payload size.
type vc08DCWriter struct {
	local net.Addr
	wrote [][]byte
	errs  []error
}

func (w *vc08DCWriter) LocalAddr() net.Addr { return w.local }
func (w *vc08DCWriter) RemoteAddr() net.Addr {
	if w.local.Network() == "udp" {
		return vc08RemoteUDP
	}

	return vc08RemoteTCP
}

func (w *vc08DCWriter) WriteMsg(m *dns.Msg) error {
	b, err := m.Pack()
	if err != nil {
		w.errs = append(w.errs, err)

		return err
	}

	w.wrote = append(w.wrote, b)

	return nil
}

// vc08Metrics records panics that the servers recover from.
type vc08Metrics struct {
	EmptyMetricsListener

	mu     sync.Mutex
	panics []string
}

func (m *vc08Metrics) OnPanic(_ context.Context, v any) {
	m.mu.Lock()
	defer m.mu.Unlock()

	m.panics = append(m.panics, fmt.Sprint(v))
}

func (m *vc08Metrics) take() (p []string) {
	m.mu.Lock()
	defer m.mu.Unlock()

	p, m.panics = m.panics, nil

	return p
}

// ---------------------------------------------------------------------------
// environment: one unstarted server per protocol, one handler

type vc08Env struct {
	plain *ServerDNS
	dot   *ServerDNS
	doh   *ServerHTTPS
	doq   *ServerQUIC
	dc    *ServerDNSCrypt
	mtr   *vc08Metrics

	// resp is what the handler writes for the current case; handled counts
	// handler invocations.
	resp     *dns.Msg
	handled  int
	writeErr error

	// clone, when set, makes the handler write clone(resp) instead of resp.
	clone func(m *dns.Msg) (c *dns.Msg)

	// mode is how the handler behaves for the current case; foreign is the
	// request it passes to WriteMsg in mode vc08HForeignReq.
	mode    vc08HandlerMode
	foreign *dns.Msg

	// failErr is what the handler returns in mode vc08HErrNoWrite; failKind
	// names it.
	failErr  error
	failKind string

	// built are plain-DNS servers whose configured UDP maximum went through
	// NewServerDNS, next to read-buffer sizes that differ from every maximum.
	built map[uint16]*ServerDNS
	// sessionConn makes the UDP path write through a netext.SessionPacketConn.
	sessionConn bool

	// h, when set, replaces the handler altogether (concurrent part).
	h HandlerFunc
}

// vc08HandlerMode is what the handler does with the query.
type vc08HandlerMode int

const (
	// vc08HNormal: WriteMsg(ctx, req, resp) with the request it was given.
	vc08HNormal vc08HandlerMode = iota
	// vc08HReqCopy: passes a deep copy of the request to WriteMsg (equal
	// content, another object), as middlewares that clone the request do.
	vc08HReqCopy
	// vc08HForeignReq: passes another request to WriteMsg (an upstream-bound
	// clone with other EDNS settings).  A handler defect; see vc08Judge for
	// what is still decided.
	vc08HForeignReq
	// vc08HErrNoWrite: returns an error without writing; the server answers
	// with its own SERVFAIL through the same writer.
	vc08HErrNoWrite
	// vc08HSilent: returns nil without writing (a dropped query).
	vc08HSilent
)

var vc08HModeNames = [...]string{"normal", "req-copy", "foreign-req", "error-no-write", "silent"}

func (m vc08HandlerMode) String() string { return vc08HModeNames[m] }

// vc08TimeoutErr is a net.Error; timeout says what Timeout() reports.
type vc08TimeoutErr struct{ timeout bool }

func (e *vc08TimeoutErr) Error() string {
	return fmt.Sprintf("vc08: upstream i/o (timeout: %v)", e.timeout)
}
func (e *vc08TimeoutErr) Timeout() bool   { return e.timeout }
func (e *vc08TimeoutErr) Temporary() bool { return false }

// vc08FailKinds are the error classes serveDNSMsgInternal can be handed by a
// handler that did not write: it adds an extended error to its SERVFAIL for
// the timeout-like ones (isNonCriticalNetError) and not for the others.
var vc08FailKinds = []struct {
	name    string
	timeout bool
	err     error
}{
	{"generic", false, errors.New("vc08: handler failed before writing")},
	{"context-canceled", false, context.Canceled},
	{"net-error-no-timeout", false, &vc08TimeoutErr{timeout: false}},
	{"context-deadline", true, context.DeadlineExceeded},
	{"os-deadline", true, os.ErrDeadlineExceeded},
	{"net-error-timeout", true, &vc08TimeoutErr{timeout: true}},
	{"op-error-timeout", true, &net.OpError{Op: "read", Net: "udp", Err: os.ErrDeadlineExceeded}},
	{"wrapped-context-deadline", true, fmt.Errorf("forwarding: %w", context.DeadlineExceeded)},
	{"wrapped-os-deadline", true, fmt.Errorf("forwarding: %w", fmt.Errorf("upstream: %w", os.ErrDeadlineExceeded))},
	{"joined-timeout", true, errors.Join(errors.New("first upstream refused"), &vc08TimeoutErr{timeout: true})},
	{"wrapped-canceled", false, fmt.Errorf("forwarding: %w", context.Canceled)},
}

// vc08WrapTexts are the annotations the real chain puts around an upstream
// error (middlewares, forwarder, upstream, the net package).
var vc08WrapTexts = []string{
	"ratelimitmw",
	"mainmw: upstream",
	"preupstreammw",
	"ecs-cache: upstream",
	"forwarding to [2001:db8:1234:5678:9abc:def0:1234:5678]:53 with fallback [2001:db8:8765:4321:fedc:ba98:7654:3210]:53",
	"upstreamplain: exchanging with [2001:db8:1234:5678:9abc:def0:1234:5678]:53 over udp",
	"read udp [2001:db8:ffff:ffff:ffff:ffff:ffff:fffe]:49152->[2001:db8:1234:5678:9abc:def0:1234:5678]:53",
}

// vc08WrapErr wraps err in 0..7 drawn annotations (up to about 450 octets of
// text), the way errors travel up the handler chain.  Wrapping with %w keeps
// the class of the error.
func vc08WrapErr(t *rapid.T, err error) (wrapped error) {
	wrapped = err
	for i, n := 0, rapid.IntRange(0, 7).Draw(t, "errWraps"); i < n; i++ {
		wrapped = fmt.Errorf("%s: %w", rapid.SampledFrom(vc08WrapTexts).Draw(t, "errWrapText"), wrapped)
	}

	return wrapped
}

// ownResponse reports whether whatever the client gets is built by the server
// itself rather than by the handler.
func (m vc08HandlerMode) ownResponse() bool { return m == vc08HErrNoWrite || m == vc08HSilent }

// setDisposer installs d as the disposer of every server of e.
func (e *vc08Env) setDisposer(d Disposer) {
	e.plain.disposer = d
	e.dot.disposer = d
	e.doh.disposer = d
	e.doq.disposer = d
	e.dc.disposer = d
	for _, s := range e.built {
		s.disposer = d
	}
}

const vc08IdleTimeout = 30 * time.Second

func vc08NewEnv() (e *vc08Env) {
	e = &vc08Env{mtr: &vc08Metrics{}}
	h := HandlerFunc(func(ctx context.Context, rw ResponseWriter, req *dns.Msg) (err error) {
		if e.h != nil {
			return e.h(ctx, rw, req)
		}

		e.handled++
		switch e.mode {
		case vc08HErrNoWrite:
			return e.failErr
		case vc08HSilent:
			return nil
		case vc08HReqCopy:
			req = req.Copy()
		case vc08HForeignReq:
			req = e.foreign
		}

		resp := e.resp
		if e.clone != nil {
			// The sequence part: the handler answers from a stored message
			// through the production cloner, as the caches do.
			resp = e.clone(e.resp)
			resp.Id = req.Id
		}

		e.writeErr = rw.WriteMsg(ctx, req, resp)

		return e.writeErr
	})

	base := func(name string, n Network) ConfigBase {
		return ConfigBase{Name: name, Addr: "127.0.0.1:0", Network: n, Handler: h, Metrics: e.mtr}
	}

	e.plain = NewServerDNS(ConfigDNS{ConfigBase: base("vc08-dns", NetworkAny), TCPIdleTimeout: vc08IdleTimeout})
	e.built = map[uint16]*ServerDNS{}
	for i, c := range []uint16{512, 1232, 4096} {
		e.built[c] = NewServerDNS(ConfigDNS{
			ConfigBase:     base(fmt.Sprintf("vc08-dns-%d", c), NetworkAny),
			TCPIdleTimeout: vc08IdleTimeout,
			UDPSize:        2048 + i,
			TCPSize:        3072 + i,
			MaxUDPRespSize: c,
		})
	}

	e.dot = NewServerTLS(ConfigTLS{ConfigDNS: ConfigDNS{ConfigBase: base("vc08-dot", NetworkTCP), TCPIdleTimeout: vc08IdleTimeout}}).ServerDNS
	e.doh = NewServerHTTPS(ConfigHTTPS{ConfigBase: base("vc08-doh", NetworkTCP)})
	e.doq = NewServerQUIC(ConfigQUIC{ConfigBase: base("vc08-doq", NetworkUDP)})
	e.dc = NewServerDNSCrypt(ConfigDNSCrypt{ConfigBase: base("vc08-dnscrypt", NetworkAny)})

	return e
}

// vc08Out is what the client would have received.
type vc08Out struct {
	// msg is the DNS message bytes (without any length prefix); nil when
	// nothing was written.
	msg []byte
	// frameErr is non-empty when the bytes on a prefixed stream are not one
	// well-framed message.
	frameErr string
	// note says why nothing was written, when the harness knows.
	note string
}

// serve runs one request through the real serving path of tr.
func (e *vc08Env) serve(tr vc08Transport, cap uint16, reqBytes []byte, resp *dns.Msg, dohGet bool) (out vc08Out) {
	e.resp = resp
	e.handled = 0
	e.writeErr = nil

	return e.serveRaw(tr, cap, reqBytes, dohGet)
}

// serveRaw is serve without touching the per-case fields of e; apart from the
// configured UDP maximum (written only when it changes) it is safe to call
// from several goroutines.
func (e *vc08Env) serveRaw(tr vc08Transport, cap uint16, reqBytes []byte, dohGet bool) (out vc08Out) {
	switch tr {
	case vc08UDP:
		s := e.plain
		if b := e.built[cap]; b != nil {
			// The maximum reached the server through its constructor.
			s = b
		} else if s.conf.MaxUDPRespSize != cap {
			s.conf.MaxUDPRespSize = cap
		}

		ctx, cancel := s.requestContext()
		defer cancel()

		ctx = ContextWithRequestInfo(ctx, &RequestInfo{StartTime: time.Now()})
		pc := &vc08PacketConn{}
		var conn net.PacketConn = pc
		if e.sessionConn {
			conn = &vc08SessionPacketConn{vc08PacketConn: pc}
		}

		s.wg.Add(1)
		s.serveUDPPacket(ctx, bytes.Clone(reqBytes), conn, netext.NewSimplePacketSession(vc08LocalUDP, vc08RemoteUDP))
		switch len(pc.wrote) {
		case 0:
		case 1:
			out.msg = pc.wrote[0]
		default:
			out.msg = pc.wrote[0]
			out.frameErr = fmt.Sprintf("%d datagrams written for one query", len(pc.wrote))
		}
	case vc08TCP, vc08DoT:
		s := e.plain
		if tr == vc08DoT {
			s = e.dot
		}

		ctx, cancel := s.requestContext()
		defer cancel()

		ctx = ContextWithRequestInfo(ctx, &RequestInfo{StartTime: time.Now()})
		conn := &vc08StreamConn{}
		wg := &sync.WaitGroup{}
		wg.Add(1)
		s.serveTCPMessage(ctx, wg, &sync.Mutex{}, bytes.Clone(reqBytes), conn)
		out.msg, out.frameErr = vc08Unframe(conn.wrote)
	case vc08DoQ:
		s := e.doq
		ctx, cancel := s.requestContext()
		defer cancel()

		ctx = ContextWithRequestInfo(ctx, &RequestInfo{StartTime: time.Now()})
		in := make([]byte, 2+len(reqBytes))
		binary.BigEndian.PutUint16(in, uint16(len(reqBytes)))
		copy(in[2:], reqBytes)
		stream := &vc08QUICStream{in: bytes.NewReader(in)}
		conn := &vc08QUICConn{}
		err := s.serveQUICStream(ctx, stream, conn)
		out.msg, out.frameErr = vc08Unframe(stream.wrote)
		if err != nil {
			out.note = "doq: " + err.Error()
		}
	case vc08DoH:
		h := &httpHandler{srv: e.doh, localAddr: vc08LocalTCP}
		var r *http.Request
		if dohGet {
			r = httptest.NewRequest(http.MethodGet, "/dns-query?dns="+base64.RawURLEncoding.EncodeToString(reqBytes), nil)
		} else {
			r = httptest.NewRequest(http.MethodPost, "/dns-query", bytes.NewReader(reqBytes))
			r.Header.Set("Content-Type", MimeTypeDoH)
		}

		r.Header.Set("Accept", MimeTypeDoH)
		w := httptest.NewRecorder()
		h.ServeHTTP(w, r)
		if w.Code == http.StatusOK {
			out.msg = w.Body.Bytes()
			if out.msg == nil {
				out.msg = []byte{}
			}
		} else {
			out.note = fmt.Sprintf("doh: status %d: %s", w.Code, strings.TrimSpace(w.Body.String()))
		}
	case vc08DCUDP, vc08DCTCP:
		req := &dns.Msg{}
		if err := req.Unpack(reqBytes); err != nil {
			out.note = "dnscrypt: query does not unpack: " + err.Error()

			return out
		}

		w := &vc08DCWriter{local: vc08LocalUDP}
		if tr == vc08DCTCP {
			w.local = vc08LocalTCP
		}

		err := (&dnsCryptHandler{srv: e.dc}).ServeDNS(w, req)
		switch len(w.wrote) {
		case 0:
		case 1:
			out.msg = w.wrote[0]
		default:
			out.msg = w.wrote[0]
			out.frameErr = fmt.Sprintf("%d messages written for one query", len(w.wrote))
		}

		if err != nil {
			out.note = "dnscrypt: " + err.Error()
		}
	}

	return out
}

// vc08Unframe splits prefix and message of a stream that must carry at most
// one message.
func vc08Unframe(b []byte) (msg []byte, frameErr string) {
	if len(b) == 0 {
		return nil, ""
	}

	if len(b) < 2 {
		return b, "short write: only part of the length prefix"
	}

	n := int(binary.BigEndian.Uint16(b))
	if n != len(b)-2 {
		return b[2:], fmt.Sprintf("length prefix says %d, %d message bytes follow", n, len(b)-2)
	}

	return b[2:], ""
}

// ---------------------------------------------------------------------------
// generators

var vc08Labels = []string{"a", "b", "www", "example", "test", "Mail", "x1"}

func vc08LongName(seedCh byte) string {
	var sb strings.Builder
	for i, n := range []int{63, 63, 63, 61} {
		sb.WriteString(strings.Repeat(string(rune(seedCh+byte(i))), n))
		sb.WriteByte('.')
	}

	return sb.String()
}

func vc08GenName(t *rapid.T) string {
	switch rapid.IntRange(0, 9).Draw(t, "nameKind") {
	case 0:
		return vc08LongName('k')
	case 1:
		return "."
	default:
		n := rapid.IntRange(1, 4).Draw(t, "labels")
		parts := make([]string, 0, n)
		for i := 0; i < n; i++ {
			parts = append(parts, rapid.SampledFrom(vc08Labels).Draw(t, "label"))
		}

		return strings.Join(parts, ".") + "."
	}
}

// vc08ReqFacts is what the oracle needs to know about the request.
type vc08ReqFacts struct {
	Name      string `json:"name"`
	Qtype     uint16 `json:"qtype"`
	HasOpt    bool   `json:"has_opt"`
	UDPSize   uint16 `json:"udp_size"`
	DO        bool   `json:"do"`
	Version   uint8  `json:"version"`
	Pad       int    `json:"pad"` // -1: none
	KeepAlive bool   `json:"keepalive"`
	NSID      int    `json:"nsid"` // -1: none, else payload bytes
	Expire    bool   `json:"expire"`
	Cookie    bool   `json:"cookie"`
	ECS       bool   `json:"ecs"`
	Local     bool   `json:"local"`
	Len       int    `json:"len"`
	// Kind is "" for a plain query, else what makes the server answer on its
	// own: "notimp" (opcode UPDATE), "formerr" (two questions), "qr" (the QR
	// bit is set: not a query, ignored).
	Kind string `json:"kind,omitempty"`
}

var vc08Sizes = []uint16{0, 1, 511, 512, 513, 1232, 4096, 65535}

func vc08GenUDPSize(t *rapid.T, cap uint16) uint16 {
	switch rapid.IntRange(0, 3).Draw(t, "advKind") {
	case 0:
		return rapid.Uint16().Draw(t, "advUniform")
	case 1:
		d := rapid.IntRange(-2, 2).Draw(t, "advNearCap")

		return uint16(max(0, min(65535, int(cap)+d)))
	case 2:
		return rapid.Uint16Range(500, 1500).Draw(t, "advSmall")
	default:
		return rapid.SampledFrom(vc08Sizes).Draw(t, "advEdge")
	}
}

func vc08GenCap(t *rapid.T) uint16 {
	switch rapid.IntRange(0, 3).Draw(t, "capKind") {
	case 0:
		return rapid.Uint16().Draw(t, "capUniform")
	case 1:
		return rapid.Uint16Range(500, 1500).Draw(t, "capSmall")
	default:
		return rapid.SampledFrom([]uint16{0, 512, 1232, 4096, 65535}).Draw(t, "capEdge")
	}
}

// vc08ReqHint steers the request towards what a handler-fails case needs: the
// server's own SERVFAIL consists of header, question and OPT only, so its size
// is decided by the length of the name and of whatever the OPT carries, against
// a small advertised size.
type vc08ReqHint struct {
	longName bool
	smallAdv bool
}

// vc08GenReq builds a query a client can send on tr.  The plain-UDP query is
// at most 512 octets by construction (the production read buffer).
func vc08GenReq(t *rapid.T, tr vc08Transport, cap uint16, hint vc08ReqHint) (req *dns.Msg, f vc08ReqFacts) {
	f.Name = vc08GenName(t)
	if hint.longName {
		// 243..255 octets on the wire.
		f.Name = vc08LongName('k')
		f.Name = f.Name[:len(f.Name)-1-rapid.IntRange(0, 12).Draw(t, "longNameShorter")] + "."
	}

	f.Qtype = rapid.SampledFrom([]uint16{dns.TypeA, dns.TypeAAAA, dns.TypeTXT, dns.TypeHTTPS, dns.TypeMX, dns.TypeANY}).Draw(t, "qtype")
	f.Pad, f.NSID = -1, -1

	req = &dns.Msg{}
	req.SetQuestion(f.Name, f.Qtype)
	req.Id = rapid.Uint16().Draw(t, "id")
	req.RecursionDesired = rapid.Bool().Draw(t, "rd")
	req.CheckingDisabled = rapid.IntRange(0, 7).Draw(t, "cd") == 0

	switch rapid.IntRange(0, 19).Draw(t, "reqKind") {
	case 0:
		f.Kind = "notimp"
		req.Opcode = dns.OpcodeUpdate
	case 1:
		f.Kind = "formerr"
		req.Question = append(req.Question, dns.Question{Name: "second.example.", Qtype: dns.TypeA, Qclass: dns.ClassINET})
	case 2:
		f.Kind = "qr"
		req.Response = true
	}

	f.HasOpt = rapid.IntRange(0, 6).Draw(t, "hasOpt") != 0 || hint.smallAdv
	if f.HasOpt {
		f.UDPSize = vc08GenUDPSize(t, cap)
		if hint.smallAdv {
			f.UDPSize = rapid.SampledFrom([]uint16{0, 1, 300, 511, 512, 513, 520, 540, 600}).Draw(t, "advSmallHint")
		}

		f.DO = rapid.Bool().Draw(t, "do")
		f.Version = rapid.SampledFrom([]uint8{0, 0, 0, 0, 1, 255}).Draw(t, "version")

		opt := &dns.OPT{Hdr: dns.RR_Header{Name: ".", Rrtype: dns.TypeOPT}}
		opt.SetUDPSize(f.UDPSize)
		opt.SetVersion(f.Version)
		if f.DO {
			opt.SetDo()
		}

		if rapid.IntRange(0, 9).Draw(t, "optPad") < 4 {
			f.Pad = rapid.IntRange(0, 64).Draw(t, "padLen")
			opt.Option = append(opt.Option, &dns.EDNS0_PADDING{Padding: make([]byte, f.Pad)})
		}

		if rapid.IntRange(0, 9).Draw(t, "optKA") < 4 {
			f.KeepAlive = true
			ka := &dns.EDNS0_TCP_KEEPALIVE{Code: dns.EDNS0TCPKEEPALIVE}
			if rapid.IntRange(0, 4).Draw(t, "kaWithTimeout") == 0 {
				ka.Timeout = rapid.Uint16Range(1, 65535).Draw(t, "kaTimeout")
			}

			opt.Option = append(opt.Option, ka)
		}

		if rapid.IntRange(0, 9).Draw(t, "optNSID") < 3 {
			f.NSID = 0
			if rapid.IntRange(0, 3).Draw(t, "nsidPayload") == 0 {
				f.NSID = rapid.IntRange(1, 16).Draw(t, "nsidLen")
			}

			// A DNSCrypt query may be as large as the library's 1252-octet read
			// buffer; an echoed option is then a large part of the response.
			if tr == vc08DCUDP && rapid.IntRange(0, 7).Draw(t, "nsidLarge") == 0 {
				f.NSID = rapid.IntRange(100, 700).Draw(t, "nsidLargeLen")
			}

			opt.Option = append(opt.Option, &dns.EDNS0_NSID{Code: dns.EDNS0NSID, Nsid: hex.EncodeToString(bytes.Repeat([]byte{0xa5}, f.NSID))})
		}

		if rapid.IntRange(0, 9).Draw(t, "optExpire") == 0 {
			f.Expire = true
			opt.Option = append(opt.Option, &dns.EDNS0_EXPIRE{Code: dns.EDNS0EXPIRE, Empty: true})
		}

		if rapid.IntRange(0, 9).Draw(t, "optCookie") < 2 {
			f.Cookie = true
			opt.Option = append(opt.Option, &dns.EDNS0_COOKIE{Code: dns.EDNS0COOKIE, Cookie: "0102030405060708"})
		}

		if rapid.IntRange(0, 9).Draw(t, "optECS") < 2 {
			f.ECS = true
			opt.Option = append(opt.Option, &dns.EDNS0_SUBNET{Code: dns.EDNS0SUBNET, Family: 1, SourceNetmask: 24, Address: net.IP{203, 0, 113, 0}})
		}

		if rapid.IntRange(0, 9).Draw(t, "optLocal") == 0 {
			f.Local = true
			opt.Option = append(opt.Option, &dns.EDNS0_LOCAL{Code: 65001, Data: []byte("cpe-id-0123")})
		}

		if len(opt.Option) > 1 && rapid.Bool().Draw(t, "optReverse") {
			for i, j := 0, len(opt.Option)-1; i < j; i, j = i+1, j-1 {
				opt.Option[i], opt.Option[j] = opt.Option[j], opt.Option[i]
			}
		}

		req.Extra = append(req.Extra, opt)
	}

	return req, f
}

// vc08RespFacts is what the oracle needs to know about the handler's response
// before the server touches it.
type vc08RespFacts struct {
	Rcode     int    `json:"rcode"`
	TC        bool   `json:"tc_preset"`
	Answer    int    `json:"answer"`
	Ns        int    `json:"ns"`
	Extra     int    `json:"extra"` // without OPT
	OwnOpt    bool   `json:"own_opt"`
	OwnPad    int    `json:"own_pad"` // -1: none
	OwnKA     bool   `json:"own_keepalive"`
	OwnOptLen int    `json:"own_opt_len"`
	PreU      int    `json:"pre_uncompressed"` // incl. the OPT that normalisation will append
	PreC      int    `json:"pre_compressed"`
	Mode      string `json:"mode"`
	Target    int    `json:"target"`
	// Tail is "tsig" or "sig0" when the additional section carries such a
	// record; TailLast says that it is the last record of the section (the
	// handler's own OPT, if any, is then in front of it).
	Tail     string `json:"tail,omitempty"`
	TailLast bool   `json:"tail_last,omitempty"`
}

// vc08SigRR returns a transaction signature (TSIG) or a SIG(0) record as a
// relayed signed answer carries at the end of its additional section.
func vc08SigRR(kind string, id uint16) (rr dns.RR) {
	if kind == "tsig" {
		return &dns.TSIG{
			Hdr:        dns.RR_Header{Name: "tsigkey.", Rrtype: dns.TypeTSIG, Class: dns.ClassANY},
			Algorithm:  dns.HmacSHA256,
			TimeSigned: 1700000000,
			Fudge:      300,
			MACSize:    32,
			MAC:        strings.Repeat("ab", 32),
			OrigId:     id,
		}
	}

	return &dns.SIG{RRSIG: dns.RRSIG{
		Hdr:        dns.RR_Header{Name: ".", Rrtype: dns.TypeSIG, Class: dns.ClassANY},
		Algorithm:  dns.ED25519,
		Expiration: 1700000300,
		Inception:  1700000000,
		KeyTag:     12345,
		SignerName: "sigkey.",
		Signature:  base64.StdEncoding.EncodeToString(bytes.Repeat([]byte{0x5a}, 64)),
	}}
}

func vc08Hdr(name string, rrtype uint16, ttl uint32) dns.RR_Header {
	return dns.RR_Header{Name: name, Rrtype: rrtype, Class: dns.ClassINET, Ttl: ttl}
}

// vc08TXT returns a TXT record whose RDATA is exactly rdlen octets (rdlen>=1).
func vc08TXT(owner string, rdlen int, ttl uint32) *dns.TXT {
	rr := &dns.TXT{Hdr: vc08Hdr(owner, dns.TypeTXT, ttl)}
	for rdlen > 0 {
		c := min(rdlen-1, 255)
		rr.Txt = append(rr.Txt, strings.Repeat("x", c))
		rdlen -= c + 1
	}

	return rr
}

// vc08GenRR draws one record.  big asks for a large TXT of about that many
// octets.
func vc08GenRR(t *rapid.T, owners []string, big int) dns.RR {
	owner := rapid.SampledFrom(owners).Draw(t, "owner")
	ttl := rapid.SampledFrom([]uint32{0, 1, 60, 300, 86400}).Draw(t, "ttl")
	if big > 0 {
		return vc08TXT(owner, big, ttl)
	}

	switch rapid.IntRange(0, 9).Draw(t, "rrKind") {
	case 0, 1, 2:
		return &dns.A{Hdr: vc08Hdr(owner, dns.TypeA, ttl), A: net.IP{192, 0, 2, byte(rapid.IntRange(1, 250).Draw(t, "ip"))}}
	case 3:
		return &dns.AAAA{Hdr: vc08Hdr(owner, dns.TypeAAAA, ttl), AAAA: net.ParseIP("2001:db8::1")}
	case 4:
		return &dns.CNAME{Hdr: vc08Hdr(owner, dns.TypeCNAME, ttl), Target: rapid.SampledFrom(owners).Draw(t, "target")}
	case 5:
		return &dns.MX{Hdr: vc08Hdr(owner, dns.TypeMX, ttl), Preference: 10, Mx: rapid.SampledFrom(owners).Draw(t, "target")}
	case 6:
		return &dns.NS{Hdr: vc08Hdr(owner, dns.TypeNS, ttl), Ns: rapid.SampledFrom(owners).Draw(t, "target")}
	case 7:
		return &dns.SOA{Hdr: vc08Hdr(owner, dns.TypeSOA, ttl), Ns: "ns1.example.net.", Mbox: "hostmaster.example.net.", Serial: 1, Refresh: 2, Retry: 3, Expire: 4, Minttl: 5}
	case 8:
		return &dns.SRV{Hdr: vc08Hdr(owner, dns.TypeSRV, ttl), Priority: 1, Weight: 2, Port: 853, Target: rapid.SampledFrom(owners).Draw(t, "target")}
	default:
		return vc08TXT(owner, rapid.IntRange(1, 90).Draw(t, "txtLen"), ttl)
	}
}

// vc08EchoOpts is the set of request options the documentation of
// filterUnsupportedOptions says are reused in an appended OPT.  It is used for
// sizing the generated response only, never for a verdict.
func vc08EchoOpts(reqOpt *dns.OPT) (o []dns.EDNS0) {
	for _, e := range reqOpt.Option {
		switch e.Option() {
		case dns.EDNS0NSID, dns.EDNS0EXPIRE:
			o = append(o, e)
		}
	}

	return o
}

// vc08Sizes returns the uncompressed and the compressed size of m plus, when
// standIn is not nil, that OPT appended.
func vc08MsgSizes(m *dns.Msg, standIn *dns.OPT) (u, c int) {
	cp := *m
	if standIn != nil {
		cp.Extra = append(append([]dns.RR{}, m.Extra...), standIn)
	}

	cp.Compress = false
	u = cp.Len()
	cp.Compress = true
	c = cp.Len()

	return u, c
}

// vc08GenResp builds the handler's response for req, sized relative to limit.
func vc08GenResp(t *rapid.T, tr vc08Transport, req *dns.Msg, rf vc08ReqFacts, limit int) (resp *dns.Msg, f vc08RespFacts) {
	resp = &dns.Msg{}
	resp.SetReply(req)
	resp.Rcode = rapid.SampledFrom([]int{0, 0, 0, 0, dns.RcodeNameError, dns.RcodeServerFailure, dns.RcodeRefused}).Draw(t, "rcode")
	resp.RecursionAvailable = true
	resp.Authoritative = rapid.IntRange(0, 5).Draw(t, "aa") == 0
	resp.Truncated = rapid.IntRange(0, 24).Draw(t, "tcPreset") == 0
	f.Rcode, f.TC = resp.Rcode, resp.Truncated
	f.OwnPad = -1

	owners := []string{rf.Name, rf.Name, rf.Name, "ns1.example.net.", "a.b.c.d.example.org.", "."}
	if len(rf.Name) < 200 && rf.Name != "." {
		owners = append(owners, "sub."+rf.Name, strings.ToUpper(rf.Name))
	}

	// The handler's own OPT, if any.
	var ownOpt *dns.OPT
	if rapid.Bool().Draw(t, "ownOpt") {
		ownOpt = &dns.OPT{Hdr: dns.RR_Header{Name: ".", Rrtype: dns.TypeOPT}}
		ownOpt.SetUDPSize(rapid.SampledFrom([]uint16{0, 512, 1232, 4096, 65535}).Draw(t, "ownUDPSize"))
		switch rapid.IntRange(0, 3).Draw(t, "ownTTLKind") {
		case 0:
			ownOpt.Hdr.Ttl = rapid.Uint32().Draw(t, "ownTTL")
		case 1:
			ownOpt.SetVersion(rapid.SampledFrom([]uint8{1, 7, 255}).Draw(t, "ownVersion"))
		}

		if rapid.IntRange(0, 9).Draw(t, "ownNSID") < 3 {
			ownOpt.Option = append(ownOpt.Option, &dns.EDNS0_NSID{Code: dns.EDNS0NSID, Nsid: hex.EncodeToString([]byte("adg-node-17"))})
		}

		if rapid.IntRange(0, 9).Draw(t, "ownEDE") < 3 {
			ownOpt.Option = append(ownOpt.Option, &dns.EDNS0_EDE{InfoCode: dns.ExtendedErrorCodeFiltered, ExtraText: strings.Repeat("e", rapid.IntRange(0, 40).Draw(t, "edeLen"))})
		}

		if rf.ECS && rapid.Bool().Draw(t, "ownECS") {
			ownOpt.Option = append(ownOpt.Option, &dns.EDNS0_SUBNET{Code: dns.EDNS0SUBNET, Family: 1, SourceNetmask: 24, SourceScope: 24, Address: net.IP{203, 0, 113, 0}})
		}

		if rf.Cookie && rapid.Bool().Draw(t, "ownCookie") {
			ownOpt.Option = append(ownOpt.Option, &dns.EDNS0_COOKIE{Code: dns.EDNS0COOKIE, Cookie: "0102030405060708a1a2a3a4a5a6a7a8"})
		}

		if rapid.IntRange(0, 9).Draw(t, "ownPad") < 2 {
			f.OwnPad = rapid.IntRange(0, 80).Draw(t, "ownPadLen")
			ownOpt.Option = append(ownOpt.Option, &dns.EDNS0_PADDING{Padding: make([]byte, f.OwnPad)})
		}

		// An upstream returns the keep-alive option only to a query that
		// carried it (RFC 7828); the handler never invents one.
		if rf.KeepAlive && rapid.IntRange(0, 9).Draw(t, "ownKA") < 3 {
			f.OwnKA = true
			ownOpt.Option = append(ownOpt.Option, &dns.EDNS0_TCP_KEEPALIVE{Code: dns.EDNS0TCPKEEPALIVE, Timeout: rapid.Uint16().Draw(t, "ownKATimeout")})
		}

		f.OwnOpt = true
		f.OwnOptLen = dns.Len(ownOpt)
		resp.Extra = append(resp.Extra, ownOpt)
	}

	// A signed answer: TSIG or SIG(0) at the end of the additional section, the
	// handler's OPT (if any) before or after it.
	var sigRR dns.RR
	switch k := rapid.IntRange(0, 11).Draw(t, "tailSig"); {
	case k == 0:
		f.Tail = "sig0"
	case k < 4:
		f.Tail = "tsig"
	}

	if f.Tail != "" {
		sigRR = vc08SigRR(f.Tail, req.Id)
		f.TailLast = ownOpt == nil || rapid.Bool().Draw(t, "sigAfterOpt")
		if f.TailLast {
			resp.Extra = append(resp.Extra, sigRR)
		} else {
			resp.Extra = append([]dns.RR{sigRR}, resp.Extra...)
		}
	}

	var standIn *dns.OPT
	if rf.HasOpt && ownOpt == nil {
		standIn = &dns.OPT{Hdr: dns.RR_Header{Name: ".", Rrtype: dns.TypeOPT}, Option: vc08EchoOpts(req.IsEdns0())}
	}

	// Size plan.
	target := 0
	compressedMeasure := rapid.Bool().Draw(t, "measureCompressed")
	modeDraw := rapid.IntRange(0, 99).Draw(t, "mode")
	switch {
	case modeDraw < 20:
		f.Mode = "small"
	case modeDraw < 60:
		f.Mode = "edge"
		d := 0
		if rapid.Bool().Draw(t, "edgeTight") {
			d = rapid.IntRange(-2, 3).Draw(t, "edgeDeltaTight")
		} else {
			d = rapid.IntRange(-45, 45).Draw(t, "edgeDelta")
		}

		target = limit + d
	case modeDraw < 85:
		f.Mode = "over"
		hi := 3000
		if !tr.datagram() {
			hi = 6000
		}

		target = limit + rapid.IntRange(1, hi).Draw(t, "overBy")
	case modeDraw < 90 && tr.datagram():
		f.Mode = "far-over"
		target = rapid.IntRange(limit+1, 70000).Draw(t, "farTarget")
	default:
		f.Mode = "under"
		target = rapid.IntRange(60, min(limit, 6000)).Draw(t, "underTarget")
	}

	// Stream transports are exercised at 64 KiB in a third of the sized
	// cases only; the rest use the same size plan against a UDP-like figure so
	// that OPT, padding and keep-alive handling see many small responses.
	if !tr.datagram() && target > 0 && rapid.IntRange(0, 2).Draw(t, "streamSmall") != 0 {
		f.Mode = "under"
		target = rapid.IntRange(60, 3000).Draw(t, "streamSmallTarget")
	}

	f.Target = target

	addRR := func(rr dns.RR) {
		switch s := rapid.IntRange(0, 9).Draw(t, "section"); {
		case s < 6:
			resp.Answer = append(resp.Answer, rr)
		case s < 8:
			resp.Ns = append(resp.Ns, rr)
		default:
			// Keep the handler's OPT where it is (usually last), and a signature
			// record always where it is.
			n := len(resp.Extra)
			switch {
			case sigRR != nil:
				// In front of the trailing block (OPT and/or signature).
				at := n
				for at > 0 && (resp.Extra[at-1] == sigRR || ownOpt != nil && resp.Extra[at-1] == dns.RR(ownOpt)) {
					at--
				}

				resp.Extra = append(resp.Extra[:at:at], append([]dns.RR{rr}, resp.Extra[at:]...)...)
			case ownOpt != nil && resp.Extra[n-1] == dns.RR(ownOpt) && rapid.IntRange(0, 3).Draw(t, "beforeOpt") != 0:
				resp.Extra = append(resp.Extra[:n-1:n-1], rr, ownOpt)
			default:
				resp.Extra = append(resp.Extra, rr)
			}
		}
	}

	if f.Mode == "small" {
		for i, n := 0, rapid.IntRange(0, 8).Draw(t, "smallN"); i < n; i++ {
			addRR(vc08GenRR(t, owners, 0))
		}
	} else {
		est, _ := vc08MsgSizes(resp, standIn)
		for n := 0; est+120 < target && n < 600; n++ {
			var rr dns.RR
			if gap := target - est; gap > 2500 && rapid.IntRange(0, 9).Draw(t, "bigTXT") != 0 {
				rr = vc08GenRR(t, owners, rapid.IntRange(200, min(gap-300, 4000)).Draw(t, "bigLen"))
			} else {
				rr = vc08GenRR(t, owners, 0)
			}

			addRR(rr)
			est += dns.Len(rr)
		}

		// Filler with the root owner: nothing in it can be compressed, so the
		// chosen measure moves by exactly its length.
		u, c := vc08MsgSizes(resp, standIn)
		cur := u
		if compressedMeasure {
			cur = c
		}

		if gap := target - cur; gap >= 12 && gap < 60000 {
			addRR(vc08TXT(".", gap-11, 30))
		}
	}

	for _, rr := range resp.Answer {
		_ = rr
		f.Answer++
	}

	f.Ns = len(resp.Ns)
	f.Extra = len(resp.Extra)
	if ownOpt != nil {
		f.Extra--
	}

	f.PreU, f.PreC = vc08MsgSizes(resp, standIn)

	return resp, f
}

// vc08FillRequest makes the query of a handler-fails case heavy, half of the
// time: the padding option is (re)sized so that the packed query ends within a
// few octets of 512 (the plain-UDP read buffer, and the smallest UDP limit), or
// somewhere up to ~1100 octets on the other transports.  The server's own
// SERVFAIL must not reflect any of it.
func vc08FillRequest(t *rapid.T, tr vc08Transport, req *dns.Msg, rf *vc08ReqFacts) {
	opt := req.IsEdns0()
	if opt == nil || !rapid.Bool().Draw(t, "fillRequest") {
		return
	}

	var pad *dns.EDNS0_PADDING
	for _, o := range opt.Option {
		if p, ok := o.(*dns.EDNS0_PADDING); ok {
			pad = p
		}
	}

	if pad == nil {
		pad = &dns.EDNS0_PADDING{}
		opt.Option = append(opt.Option, pad)
	}

	pad.Padding = nil
	want := 512 - rapid.IntRange(0, 6).Draw(t, "fillShort")
	if tr != vc08UDP && rapid.Bool().Draw(t, "fillLarge") {
		want = rapid.IntRange(513, 1100).Draw(t, "fillTo")
	}

	if n := want - req.Len(); n > 0 {
		pad.Padding = make([]byte, n)
	}

	rf.Pad = len(pad.Padding)
}

// vc08GenForeign returns a request that is not the client's: its copy with the
// EDNS part replaced the way an upstream-bound clone or a careless middleware
// would.
func vc08GenForeign(t *rapid.T, req *dns.Msg) (f *dns.Msg) {
	f = req.Copy()
	extra := f.Extra[:0]
	for _, rr := range f.Extra {
		if rr.Header().Rrtype != dns.TypeOPT {
			extra = append(extra, rr)
		}
	}

	f.Extra = extra
	opt := &dns.OPT{Hdr: dns.RR_Header{Name: ".", Rrtype: dns.TypeOPT}}
	switch rapid.IntRange(0, 2).Draw(t, "foreignKind") {
	case 0:
		// No EDNS at all.
		return f
	case 1:
		// Upstream-bound: large buffer, DO, the subnet option.
		opt.SetUDPSize(4096)
		opt.SetDo()
		opt.Option = append(opt.Option, &dns.EDNS0_SUBNET{Code: dns.EDNS0SUBNET, Family: 1, SourceNetmask: 24, Address: net.IP{203, 0, 113, 0}})
	default:
		// Options the client may not have sent.
		opt.SetUDPSize(rapid.SampledFrom(vc08Sizes).Draw(t, "foreignUDPSize"))
		opt.Option = append(opt.Option,
			&dns.EDNS0_PADDING{Padding: make([]byte, 4)},
			&dns.EDNS0_TCP_KEEPALIVE{Code: dns.EDNS0TCPKEEPALIVE})
	}

	f.Extra = append(f.Extra, opt)

	return f
}

// ---------------------------------------------------------------------------
// oracle

// Known findings (see /verif/known_findings.json).
const (
	// vc08KnownOptSize: request with OPT, handler response without one: the
	// OPT appended by normalize carries UDP size 0 instead of the client's.
	vc08KnownOptSize = "appended-opt-udpsize-zero"
	// vc08KnownDoH64K: DoH writes a padded message longer than 65535 octets
	// (no length guard on that path).
	vc08KnownDoH64K = "doh-padded-over-64k"
	// vc08KnownOptAlone: header + question + OPT of the response alone exceed
	// the UDP limit (options echoed from the query), nothing left to drop.
	vc08KnownOptAlone = "opt-alone-exceeds-udp-limit"
)

// vc08Findings separates the three recorded root causes from everything else:
// a case that matches the predicate of one of them is never an immediate
// failure, so that one run reports every root cause.  If the finding is listed
// in known_findings.json it is counted as excluded (st.Known); if it is not,
// the smallest matching case is kept and the test fails after the search with
// one message per finding.
type vc08Findings struct {
	st       *vstat.Stats
	mu       sync.Mutex
	unlisted map[string]*vc08Unlisted
}

type vc08Unlisted struct {
	n    int
	size int
	what string
	c    vc08Case
}

func vc08NewFindings(st *vstat.Stats) *vc08Findings {
	return &vc08Findings{st: st, unlisted: map[string]*vc08Unlisted{}}
}

// match records that c matches finding id; what describes the observation.  It
// returns the class to count.
func (f *vc08Findings) match(id, what string, c *vc08Case) (class string) {
	if f.st.Known(id) {
		return "known:" + id
	}

	f.mu.Lock()
	defer f.mu.Unlock()

	u := f.unlisted[id]
	if u == nil {
		u = &vc08Unlisted{size: 1 << 30}
		f.unlisted[id] = u
	}

	u.n++
	if size := c.Req.Len + c.Resp.PreU; size < u.size {
		u.size, u.what, u.c = size, what, *c
	}

	return "unlisted:" + id
}

// report fails t once per unlisted finding.
func (f *vc08Findings) report(t testing.TB) {
	f.mu.Lock()
	defer f.mu.Unlock()

	for _, id := range []string{vc08KnownOptSize, vc08KnownDoH64K, vc08KnownOptAlone, vc08KnownDCFallback, vc08KnownTSIGLast} {
		if u := f.unlisted[id]; u != nil {
			t.Errorf("C08 violated (finding %q, not listed in known_findings.json; %d cases, smallest shown):\n  %s\ncase: %+v", id, u.n, u.what, u.c)
		}
	}
}

type vc08Case struct {
	Transport string        `json:"transport"`
	Cap       uint16        `json:"cap"`
	Limit     int           `json:"limit"`
	DoHGet    bool          `json:"doh_get,omitempty"`
	Req       vc08ReqFacts  `json:"req"`
	Resp      vc08RespFacts `json:"resp"`
	OutLen    int           `json:"out_len"`
	OutTC     bool          `json:"out_tc"`
	OutCounts [3]int        `json:"out_counts"`
	Note      string        `json:"note,omitempty"`
	Handler   string        `json:"handler,omitempty"`
}

// vc08Obs is what the harness saw of the handler while the case was served.
type vc08Obs struct {
	handled  int
	writeErr error
	panics   []string
	mode     vc08HandlerMode

	failKind    string
	failTimeout bool
	failTextLen int
}

func vc08FindOpts(m *dns.Msg) (opts []*dns.OPT, misplaced int) {
	for _, rr := range m.Extra {
		if o, ok := rr.(*dns.OPT); ok {
			opts = append(opts, o)
		}
	}

	for _, sec := range [][]dns.RR{m.Answer, m.Ns} {
		for _, rr := range sec {
			if rr.Header().Rrtype == dns.TypeOPT {
				misplaced++
			}
		}
	}

	return opts, misplaced
}

func vc08NonOpt(rrs []dns.RR) (n int) {
	for _, rr := range rrs {
		if rr.Header().Rrtype != dns.TypeOPT {
			n++
		}
	}

	return n
}

// vc08Run generates nothing: it serves one fully described case and judges it.
// Violations are returned as strings (empty: none); known findings are
// routed through fnd.
func vc08Run(
	fnd *vc08Findings,
	e *vc08Env,
	tr vc08Transport,
	cap uint16,
	dohGet bool,
	req *dns.Msg,
	rf vc08ReqFacts,
	resp *dns.Msg,
	pf vc08RespFacts,
) (c vc08Case, classes []string, violations []string) {
	limit := vc08Limit(tr, rf.HasOpt, rf.UDPSize, cap)
	c = vc08Case{Transport: tr.String(), Cap: cap, Limit: limit, DoHGet: dohGet, Req: rf, Resp: pf, Handler: e.mode.String()}

	reqBytes, err := req.Pack()
	if err != nil {
		panic(fmt.Sprintf("vc08: harness: request does not pack: %v", err))
	}

	c.Req.Len = len(reqBytes)
	if tr == vc08UDP && len(reqBytes) > 512 {
		panic(fmt.Sprintf("vc08: harness: plain-UDP request of %d octets", len(reqBytes)))
	}

	out := e.serve(tr, cap, reqBytes, resp, dohGet)
	ob := vc08Obs{handled: e.handled, writeErr: e.writeErr, panics: e.mtr.take(), mode: e.mode}
	if e.mode == vc08HErrNoWrite {
		ob.failKind = e.failKind
		for _, k := range vc08FailKinds {
			if k.name == e.failKind {
				ob.failTimeout = k.timeout
			}
		}

		ob.failTextLen = len(e.failErr.Error())
		c.Handler += fmt.Sprintf(":%s:text%d", e.failKind, ob.failTextLen)
	}

	if tr == vc08UDP {
		if e.built[cap] != nil {
			classes = append(classes, "udp-cap-through-constructor")
		}

		if e.sessionConn {
			classes = append(classes, "udp-via-session-conn")
		}
	}

	jc, jv := vc08Judge(fnd, &c, tr, out, ob)

	return c, append(classes, jc...), jv
}

// vc08KnownDCFallback: the DNSCrypt handler answers a query that the handler
// left unanswered with a SERVFAIL that does not go through normalize, so a
// query with an OPT record gets a response without one.
const vc08KnownDCFallback = "dnscrypt-fallback-servfail-without-opt"

// vc08KnownTSIGLast: a handler response whose additional section ends with a
// TSIG record, in the forms where normalize appends nothing behind it (the
// response has its own OPT in front of the TSIG, or the query has no OPT), is
// never truncated: dns.Msg.Truncate is a no-op for a message with a trailing
// TSIG, so an oversize response leaves over UDP as it is.
const vc08KnownTSIGLast = "tsig-last-disables-truncation"

// vc08Judge evaluates the oracle on what was written for the case c (request
// facts, handler-response facts and limit are taken from c).
func vc08Judge(fnd *vc08Findings, c *vc08Case, tr vc08Transport, out vc08Out, ob vc08Obs) (classes []string, violations []string) {
	rf, pf, limit := c.Req, c.Resp, c.Limit
	c.Note = out.note
	cls := func(s string) { classes = append(classes, s) }
	bad := func(format string, a ...any) { violations = append(violations, fmt.Sprintf(format, a...)) }

	cls("tr:" + tr.String())
	cls("handler:" + ob.mode.String())
	if rf.Kind != "" {
		cls("req-kind:" + rf.Kind)
	}

	if ob.mode == vc08HErrNoWrite && ob.handled == 1 {
		if ob.failTimeout {
			cls("server-servfail-after-timeout-error")
		} else {
			cls("server-servfail-after-other-error")
		}

		cls("fail:" + ob.failKind)
		if rf.Pad >= 0 && !tr.encrypted() {
			cls("server-servfail-request-had-padding-on-plain")
		}

		if rf.KeepAlive && tr != vc08TCP && tr != vc08DoT {
			cls("server-servfail-request-had-keepalive-off-tcp")
		}

		if tr.datagram() && rf.Len >= limit-8 {
			cls("server-servfail-request-near-udp-limit")
		}

		// Would the error text, if it were put into the response, push header +
		// question + OPT + EDE over the limit?
		if ob.failTimeout && rf.HasOpt && tr.datagram() && 12+len(rf.Name)+5+11+6+ob.failTextLen > limit {
			cls("server-servfail-timeout-text-plus-name-exceed-udp-limit")
		}

		if ob.failTextLen >= 200 {
			cls("fail-text-200-or-more")
		}
	}

	if rf.HasOpt {
		cls("req-opt")
	} else {
		cls("req-no-opt")
	}

	if pf.OwnOpt {
		cls("resp-own-opt")
	} else if rf.HasOpt {
		cls("req-opt-resp-no-opt")
	}

	// reached: the handler's response is what the transport was given.
	reached := ob.handled == 1 && !ob.mode.ownResponse()

	over := pf.PreC > limit
	if over && reached {
		cls("pre-over-limit")
		if tr.datagram() {
			cls("pre-over-limit-" + tr.String())
		} else {
			cls("pre-over-limit-stream")
		}
	}

	near := pf.PreC >= limit-40 && pf.PreC <= limit+40 || pf.PreU >= limit-40 && pf.PreU <= limit+40
	if near && reached {
		cls("near-limit")
		if tr.datagram() {
			cls("near-limit-datagram")
		} else {
			cls("near-limit-stream")
		}
	}

	if reached && (pf.PreC == limit+1 || pf.PreU == limit+1) {
		cls("pre-exactly-limit+1")
	}

	if reached && (pf.PreC == limit || pf.PreU == limit) {
		cls("pre-exactly-limit")
	}

	padTransport := tr == vc08DoT || tr == vc08DoH || tr == vc08DoQ
	kaTransport := tr == vc08TCP || tr == vc08DoT
	if rf.Pad >= 0 {
		if padTransport {
			cls("req-padding-on-dot-doh-doq")
		} else {
			cls("req-padding-elsewhere")
		}
	}

	if rf.KeepAlive {
		if kaTransport {
			cls("req-keepalive-on-tcp-dot")
		} else {
			cls("req-keepalive-elsewhere")
		}
	}

	if rf.KeepAlive && rf.Pad >= 0 && tr == vc08DoT {
		cls("req-keepalive-and-padding-on-dot")
	}

	if pf.TC {
		cls("handler-tc-preset")
	}

	if pf.Tail != "" && reached {
		pos := "-before-own-opt"
		switch {
		case pf.TailLast && pf.OwnOpt:
			pos = "-after-own-opt"
		case pf.TailLast:
			pos = "-last-no-own-opt"
		}

		cls("tail:" + pf.Tail + pos)
		if over && tr.datagram() {
			cls("oversize-datagram-tail:" + pf.Tail + pos)
		}

		if over && rf.HasOpt && !pf.OwnOpt && pf.Tail == "tsig" && pf.TailLast {
			cls("oversize-response-ending-with-tsig-and-no-opt-of-its-own")
		}
	}

	if ob.handled != 1 {
		cls("handler-not-invoked")
	}

	if len(ob.panics) > 0 {
		bad("panic while serving: %s", strings.Join(ob.panics, "; "))
	}

	// foreign: the handler passed WriteMsg a request that is not the client's.
	// The UDP, TCP/DoT and DoH writers have nothing else to go by (the
	// ResponseWriter interface gives them the request only through that call),
	// so what depends on the request is the handler's responsibility there and
	// is not decided here (the stack unit decides it for the real middlewares).
	// DoQ and DNSCrypt normalise against the query they read themselves, so for
	// them everything is decided against the client's query.
	foreign := ob.mode == vc08HForeignReq && ob.handled == 1
	reqDecided := !foreign || tr == vc08DoQ || tr == vc08DCUDP || tr == vc08DCTCP
	if foreign {
		if reqDecided {
			cls("foreign-req-judged-by-client-query")
		} else {
			cls("undecided:foreign-req-on-udp-tcp-dot-doh")
		}
	}

	// The response writer refused the handler's response.  On a stream that is
	// what packWithPrefix does to a message over 64 KiB ("nothing at all" is
	// within the statement); the server then answers with its own SERVFAIL,
	// which is judged below like any response, except that it is not a
	// truncation of the handler's.
	replaced := ob.mode.ownResponse()
	if ob.writeErr != nil {
		replaced = true
		if !tr.datagram() && pf.PreU >= 65535-60 {
			cls("stream-refused-near-64k")
		} else {
			bad("the response writer failed for a handler response of %d octets uncompressed (limit %d): %v", pf.PreU, limit, ob.writeErr)
		}
	}

	// Nothing written.
	if out.msg == nil {
		cls("nothing-written")
		switch {
		case tr == vc08DoQ && rf.KeepAlive:
			// RFC 9250, section 5.5.2: a protocol error, by design.
			cls("doq-keepalive-protocol-error")
		case rf.Kind == "qr":
			// Not a query: ignored.
			cls("ignored-non-query")
		case ob.mode == vc08HSilent && ob.handled == 1:
			cls("handler-silent-nothing-written")
		case !tr.datagram() && pf.PreU >= 65535-60:
			// packWithPrefix refuses a message over 64 KiB; "nothing at all" is
			// within the statement.
			cls("stream-refused-near-64k")
		case tr.datagram() && pf.PreU+60 < limit, !tr.datagram() && pf.PreU+60 < 65535:
			bad("nothing was written for a handler response of %d octets uncompressed (limit %d): %s", pf.PreU, limit, out.note)
		default:
			cls("nothing-written-near-limit")
		}

		return classes, violations
	}

	c.OutLen = len(out.msg)
	if out.frameErr != "" {
		bad("framing: %s", out.frameErr)
	}

	// It must be a DNS message.
	m := &dns.Msg{}
	uerr := m.Unpack(out.msg)
	if uerr == nil {
		c.OutTC = m.Truncated
		c.OutCounts = [3]int{len(m.Answer), len(m.Ns), vc08NonOpt(m.Extra)}
	}

	// (1) size.  On a stream the bound does not depend on the request.
	if len(out.msg) > limit && (reqDecided || !tr.datagram()) {
		what := fmt.Sprintf("size: %d octets written, limit is %d", len(out.msg), limit)
		switch {
		case pf.Tail == "tsig" && pf.TailLast && (pf.OwnOpt || !rf.HasOpt) && ob.handled == 1 && !replaced:
			// The handler's response ends with a TSIG record and normalize adds
			// nothing behind it: dns.Msg.Truncate returns at once for such a
			// message.
			cls(fnd.match(vc08KnownTSIGLast, what+fmt.Sprintf(" (response ends with a TSIG record, TC %v, %d answers kept)", c.OutTC, c.OutCounts[0]), c))
		case tr == vc08DoH && rf.Pad >= 0 && len(out.msg) <= 65535+4+responsePaddingMaxSize:
			// Padding is added after the size check; DoH has no 64 KiB guard.
			cls(fnd.match(vc08KnownDoH64K, what, c))
		case uerr == nil && tr.datagram() && len(m.Answer)+len(m.Ns)+vc08NonOpt(m.Extra) == 0:
			// Header, question and OPT alone: nothing is left to drop.
			cls(fnd.match(vc08KnownOptAlone, what+" (header, question and OPT only)", c))
		default:
			bad("%s", what)
		}
	}

	if len(out.msg) == limit {
		cls("out-exactly-limit")
	}

	// (2) unpacks.
	if uerr != nil {
		bad("the %d octets written do not unpack: %v", len(out.msg), uerr)

		return classes, violations
	}

	// (3) truncation is safe.  When the handler was not reached (DoQ protocol
	// error etc.) the response is the server's own and the counts do not apply.
	if ob.handled == 1 && !replaced {
		dropped := len(m.Answer) < pf.Answer || len(m.Ns) < pf.Ns || vc08NonOpt(m.Extra) < pf.Extra
		if dropped {
			cls("records-dropped")
			if tr.datagram() {
				cls("records-dropped-" + tr.String())
			} else {
				cls("records-dropped-stream")
			}

			if !pf.TC && pf.PreU <= limit {
				// Over-truncation is not excluded by the statement.
				cls("undecided:dropped-although-fits")
			}

			if !m.Truncated {
				bad("records were dropped (answer %d->%d, ns %d->%d, extra %d->%d) but TC is not set",
					pf.Answer, len(m.Answer), pf.Ns, len(m.Ns), pf.Extra, vc08NonOpt(m.Extra))
			}
		}

		if len(m.Answer) > pf.Answer || len(m.Ns) > pf.Ns || vc08NonOpt(m.Extra) > pf.Extra {
			bad("records appeared: answer %d->%d, ns %d->%d, extra %d->%d",
				pf.Answer, len(m.Answer), pf.Ns, len(m.Ns), pf.Extra, vc08NonOpt(m.Extra))
		}
	} else {
		cls("server-own-response")
	}

	if m.Truncated {
		cls("out-tc")
		if len(m.Answer) != 0 {
			bad("TC is set but the answer section has %d records", len(m.Answer))
		}
	}

	// (4) OPT.
	opts, misplaced := vc08FindOpts(m)
	if misplaced > 0 {
		bad("%d OPT records outside the additional section", misplaced)
	}

	if !reqDecided {
		return classes, violations
	}

	switch {
	case rf.Kind == "qr":
		// The client did not send a query; nothing is promised about the OPT of
		// whatever the transport answers.
		cls("undecided:opt-for-non-query")
	case rf.HasOpt && len(opts) == 0 && (tr == vc08DCUDP || tr == vc08DCTCP) && ob.mode == vc08HSilent && ob.handled == 1:
		cls(fnd.match(vc08KnownDCFallback, "query carried an OPT record, the SERVFAIL that DNSCrypt sends when the handler wrote nothing has none", c))
	case rf.HasOpt && len(opts) != 1:
		bad("query carried an OPT record, response has %d", len(opts))
	case rf.HasOpt:
		o := opts[0]
		if o.Version() != 0 {
			bad("response OPT version is %d, want 0", o.Version())
		}

		if o.UDPSize() != rf.UDPSize {
			if (!pf.OwnOpt || replaced || ob.handled != 1) && o.UDPSize() == 0 {
				cls(fnd.match(vc08KnownOptSize, fmt.Sprintf("response OPT UDP size is 0, the client's is %d (the handler's response had no OPT, normalize appended one)", rf.UDPSize), c))
			} else {
				bad("response OPT UDP size is %d, the client's is %d (handler response had its own OPT: %v)",
					o.UDPSize(), rf.UDPSize, pf.OwnOpt)
			}
		}
	case len(opts) > 0:
		// Not decided by the statement.
		cls("undecided:opt-to-non-edns-client")
	}

	// (5) padding and keep-alive.
	var outPad, outKA, padLen int
	var kaTimeout uint16
	for _, o := range opts {
		for _, e0 := range o.Option {
			switch e0 := e0.(type) {
			case *dns.EDNS0_PADDING:
				outPad++
				padLen = len(e0.Padding)
			case *dns.EDNS0_TCP_KEEPALIVE:
				outKA++
				kaTimeout = e0.Timeout
			}
		}
	}

	if outPad > 0 {
		switch {
		case tr.encrypted() && rf.Pad >= 0:
			cls("padding-returned-as-asked")
			if outPad > 1 {
				bad("%d padding options in one response", outPad)
			}
		case pf.OwnPad >= 0 && ob.handled == 1 && !replaced:
			// The handler's own padding travelling through: the statement talks
			// about padding being added, so this is not decided.
			cls("undecided:handler-padding-passthrough")
		default:
			bad("padding added: transport %s (encrypted: %v), client sent padding: %v", tr, tr.encrypted(), rf.Pad >= 0)
		}
	}

	// The doc comments of normalize and padAnswer decide the other direction:
	// "in the case of encrypted protocols we should pad responses" when the
	// client indicates it, with the random-length strategy (1..31 octets); any
	// padding the handler left in its OPT is cut first.
	if padTransport && rf.HasOpt && rf.Pad >= 0 && len(opts) == 1 {
		switch {
		case outPad != 1:
			bad("client sent padding on %s, response carries %d padding options (documented: pad)", tr, outPad)
		case padLen < 1 || padLen >= responsePaddingMaxSize:
			bad("padding of %d octets on %s, documented range is 1..%d", padLen, tr, responsePaddingMaxSize-1)
		default:
			cls("padding-length-in-documented-range")
		}
	}

	if outKA > 0 {
		if rf.KeepAlive {
			cls("keepalive-returned-as-asked")
			if !kaTransport {
				cls("keepalive-passthrough-non-tcp")
			}
		} else {
			bad("TCP keep-alive option returned to a client that did not send it (transport %s)", tr)
		}
	}

	// addTCPKeepAlive's doc comment: the option is added to the response over
	// TCP/DoT when the request indicates support, and carries the idle timeout
	// in units of 100 ms (also when the handler's OPT already had one).
	if kaTransport && rf.HasOpt && rf.KeepAlive && len(opts) == 1 {
		switch {
		case outKA != 1:
			bad("client sent keep-alive on %s, response carries %d keep-alive options (documented: add one)", tr, outKA)
		case kaTimeout != uint16(vc08IdleTimeout.Milliseconds()/100):
			bad("keep-alive timeout is %d, documented is the idle timeout in 100 ms units: %d", kaTimeout, vc08IdleTimeout.Milliseconds()/100)
		default:
			cls("keepalive-timeout-as-documented")
		}
	}

	return classes, violations
}

func vc08NTKey(c *vc08Case) string {
	over := c.Resp.PreC > c.Limit
	if !over && c.Req.Pad < 0 && !c.Req.KeepAlive {
		return ""
	}

	return fmt.Sprintf("%s|cap%d|adv%d/%v|pad%d|ka%v|nsid%d|own%v/%d/%v|u%d|c%d|a%d|n%d|e%d|tc%v|q%s",
		c.Transport, c.Cap, c.Req.UDPSize, c.Req.HasOpt, c.Req.Pad, c.Req.KeepAlive, c.Req.NSID,
		c.Resp.OwnOpt, c.Resp.OwnPad, c.Resp.OwnKA, c.Resp.PreU, c.Resp.PreC,
		c.Resp.Answer, c.Resp.Ns, c.Resp.Extra, c.Resp.TC, c.Req.Name)
}

// vc08Sample keeps the first case of every known finding and of a few
// interesting classes as a sample.
func vc08Sample(st *vstat.Stats, sampled map[string]bool, c *vc08Case, classes []string) {
	if !st.WantSample() {
		return
	}

	for _, cl := range classes {
		switch {
		case strings.HasPrefix(cl, "known:"), strings.HasPrefix(cl, "unlisted:"),
			cl == "records-dropped-udp", cl == "records-dropped-stream", cl == "stream-refused-near-64k":
			if !sampled[cl] {
				sampled[cl] = true
				st.Sample(map[string]any{"why": cl, "case": *c})

				return
			}
		}
	}
}

// ---------------------------------------------------------------------------
// tests

func TestVerifC08Transports(t *testing.T) {
	st := vstat.New("C08", "dnsserver.transports",
		"rapid (transport x configured UDP cap x request EDNS settings x handler response sized around the applicable limit) through the real per-transport write path into a recording connection; non-trivial = the handler's response (plus the OPT to be appended) exceeds the limit when packed with compression, or the request carried padding or keep-alive; distinct by transport, cap, request EDNS settings and response shape/sizes",
		"pre-over-limit-udp", "pre-over-limit-dnscrypt-udp", "pre-over-limit-stream",
		"near-limit-datagram", "near-limit-stream", "pre-exactly-limit+1",
		"records-dropped-udp", "records-dropped-dnscrypt-udp", "records-dropped-stream",
		"req-opt-resp-no-opt", "resp-own-opt", "req-no-opt",
		"req-padding-on-dot-doh-doq", "req-padding-elsewhere",
		"req-keepalive-on-tcp-dot", "req-keepalive-elsewhere",
		"padding-returned-as-asked", "keepalive-returned-as-asked",
		"tr:udp", "tr:tcp", "tr:dot", "tr:doh", "tr:doq", "tr:dnscrypt-udp", "tr:dnscrypt-tcp",
		"handler:req-copy", "handler:foreign-req", "handler:error-no-write", "handler:silent",
		"foreign-req-judged-by-client-query", "req-kind:notimp", "req-kind:formerr", "req-kind:qr",
		"req-keepalive-and-padding-on-dot", "padding-length-in-documented-range", "keepalive-timeout-as-documented",
		"server-own-response",
		"server-servfail-after-timeout-error", "server-servfail-after-other-error",
		"server-servfail-request-had-padding-on-plain", "server-servfail-request-had-keepalive-off-tcp",
		"server-servfail-request-near-udp-limit", "udp-cap-through-constructor", "udp-via-session-conn",
		"fail:context-deadline", "fail:os-deadline", "fail:net-error-timeout", "fail:wrapped-context-deadline",
		"fail:context-canceled", "fail:generic",
		"server-servfail-timeout-text-plus-name-exceed-udp-limit", "fail-text-200-or-more",
		"oversize-response-ending-with-tsig-and-no-opt-of-its-own", "tail:tsig-last-no-own-opt",
		"tail:tsig-after-own-opt", "tail:tsig-before-own-opt", "tail:sig0-last-no-own-opt",
		"oversize-datagram-tail:tsig-last-no-own-opt", "oversize-datagram-tail:tsig-before-own-opt",
	)
	st.Finish(t)

	e := vc08NewEnv()
	sampled := map[string]bool{}
	fnd := vc08NewFindings(st)
	defer fnd.report(t)

	rapid.Check(t, func(t *rapid.T) {
		// UDP-like transports carry the inequality; give them half of the cases.
		tr := rapid.SampledFrom([]vc08Transport{
			vc08UDP, vc08UDP, vc08UDP, vc08DCUDP, vc08DCUDP,
			vc08TCP, vc08DoT, vc08DoH, vc08DoQ, vc08DCTCP,
		}).Draw(t, "transport")
		cap := vc08GenCap(t)
		dohGet := tr == vc08DoH && rapid.IntRange(0, 3).Draw(t, "dohGet") == 0
		m := rapid.IntRange(0, 19).Draw(t, "handlerMode")
		var hint vc08ReqHint
		if m >= 5 && m < 8 {
			hint.longName = rapid.Bool().Draw(t, "failLongName")
			hint.smallAdv = rapid.IntRange(0, 4).Draw(t, "failSmallAdv") < 3
		}

		req, rf := vc08GenReq(t, tr, cap, hint)
		limit := vc08Limit(tr, rf.HasOpt, rf.UDPSize, cap)
		resp, pf := vc08GenResp(t, tr, req, rf, limit)

		// What the handler does with the query.
		e.mode, e.foreign = vc08HNormal, nil
		switch {
		case m < 3:
			e.mode = vc08HReqCopy
		case m < 5:
			e.mode = vc08HForeignReq
			e.foreign = vc08GenForeign(t, req)
		case m < 8:
			e.mode = vc08HErrNoWrite
			k := rapid.SampledFrom(vc08FailKinds).Draw(t, "failKind")
			e.failErr, e.failKind = vc08WrapErr(t, k.err), k.name
			vc08FillRequest(t, tr, req, &rf)
		case m == 8:
			e.mode = vc08HSilent
		}

		e.sessionConn = tr == vc08UDP && rapid.Bool().Draw(t, "sessionConn")

		// padAnswer draws the padding length from math/rand's global source;
		// pin it to a drawn seed so that a case is a function of its draws.
		rand.Seed(rapid.Int64().Draw(t, "padSeed"))

		c, classes, violations := vc08Run(fnd, e, tr, cap, dohGet, req, rf, resp, pf)
		st.Case(vc08NTKey(&c), classes...)
		vc08Sample(st, sampled, &c, classes)

		if len(violations) > 0 {
			t.Fatalf("C08 violated:\n  %s\ncase: %+v", strings.Join(violations, "\n  "), c)
		}
	})
}

// vc08GridValues are the advertised sizes and configured maxima of the grid.
var vc08GridValues = []uint16{0, 1, 2, 255, 511, 512, 513, 514, 1000, 1231, 1232, 1233, 1452, 4095, 4096, 4097,
	16383, 16384, 32767, 32768, 65534, 65535}

// TestVerifC08UDPGrid enumerates (advertised size, configured maximum) over
// vc08GridValues (plus "no OPT") and, for each pair, sends incompressible
// responses of exactly limit-1, limit, limit+1 and limit+2 octets (as they
// would be after normalisation) through the plain-UDP and the DNSCrypt-UDP
// path.
func TestVerifC08UDPGrid(t *testing.T) {
	st := vstat.New("C08", "dnsserver.udpgrid",
		"bounded-exhaustive: (advertised size or none) x configured maximum over a fixed list of edge values x response size limit-1..limit+2 x {plain UDP, DNSCrypt UDP} x {handler OPT, no handler OPT}; non-trivial = response of limit+1 or limit+2 octets",
		"pre-over-limit-udp", "pre-over-limit-dnscrypt-udp", "records-dropped-udp", "out-exactly-limit",
		"oversize-response-ending-with-tsig-and-no-opt-of-its-own", "oversize-datagram-tail:tsig-before-own-opt",
		"oversize-datagram-tail:sig0-last-no-own-opt", "oversize-datagram-tail:sig0-after-own-opt")
	st.SetExhaustive()
	st.Finish(t)

	e := vc08NewEnv()
	fnd := vc08NewFindings(st)
	defer fnd.report(t)

	advs := append([]int{-1}, func() (v []int) {
		for _, x := range vc08GridValues {
			v = append(v, int(x))
		}

		return v
	}()...)

	for _, tr := range []vc08Transport{vc08UDP, vc08DCUDP} {
		for _, adv := range advs {
			for _, cap := range vc08GridValues {
				if tr == vc08DCUDP && cap != vc08GridValues[0] {
					// No configured maximum on DNSCrypt.
					continue
				}

				for _, ownOpt := range []bool{false, true} {
					for d := -1; d <= 2; d++ {
						vc08GridCase(t, st, fnd, e, tr, adv, cap, ownOpt, d, "", false)
						for _, tail := range []string{"tsig", "sig0"} {
							vc08GridCase(t, st, fnd, e, tr, adv, cap, ownOpt, d, tail, true)
							if ownOpt {
								vc08GridCase(t, st, fnd, e, tr, adv, cap, ownOpt, d, tail, false)
							}
						}

					}
				}
			}
		}
	}
}

func vc08GridCase(t *testing.T, st *vstat.Stats, fnd *vc08Findings, e *vc08Env, tr vc08Transport, adv int, cap uint16, ownOpt bool, d int, tail string, tailLast bool) {
	rf := vc08ReqFacts{Name: "grid.example.", Qtype: dns.TypeTXT, Pad: -1, NSID: -1}
	req := (&dns.Msg{}).SetQuestion(rf.Name, rf.Qtype)
	req.Id = 4711
	if adv >= 0 {
		rf.HasOpt, rf.UDPSize = true, uint16(adv)
		req.SetEdns0(rf.UDPSize, false)
	}

	limit := vc08Limit(tr, rf.HasOpt, rf.UDPSize, cap)
	resp := (&dns.Msg{}).SetReply(req)
	pf := vc08RespFacts{OwnPad: -1, Mode: "grid", Target: limit + d}

	var standIn *dns.OPT
	switch {
	case ownOpt:
		o := &dns.OPT{Hdr: dns.RR_Header{Name: ".", Rrtype: dns.TypeOPT}}
		o.SetUDPSize(1232)
		resp.Extra = append(resp.Extra, o)
		pf.OwnOpt, pf.OwnOptLen = true, dns.Len(o)
	case rf.HasOpt:
		standIn = &dns.OPT{Hdr: dns.RR_Header{Name: ".", Rrtype: dns.TypeOPT}}
	}

	if tail != "" {
		pf.Tail, pf.TailLast, pf.Extra = tail, tailLast, 1
		if tailLast {
			resp.Extra = append(resp.Extra, vc08SigRR(tail, req.Id))
		} else {
			resp.Extra = append([]dns.RR{vc08SigRR(tail, req.Id)}, resp.Extra...)
		}
	}

	// Incompressible body: root-owner TXT records, the last one sized to hit
	// the target exactly.  Several records, so that there is something to keep
	// and something to drop.
	for i := 0; i < 3; i++ {
		resp.Answer = append(resp.Answer, vc08TXT(".", 40, 60))
	}

	u, _ := vc08MsgSizes(resp, standIn)
	if gap := limit + d - u; gap >= 12 {
		resp.Answer = append(resp.Answer, vc08TXT(".", gap-11, 60))
	} else {
		t.Fatalf("vc08: harness: grid body does not fit: limit %d", limit)
	}

	pf.Answer = len(resp.Answer)
	pf.PreU, pf.PreC = vc08MsgSizes(resp, standIn)
	// The question name is repeated nowhere, so both measures agree with the
	// packed size; make sure of it, the grid relies on exact sizes.
	if pf.PreU != limit+d {
		t.Fatalf("vc08: harness: grid response is %d octets, want %d", pf.PreU, limit+d)
	}

	c, classes, violations := vc08Run(fnd, e, tr, cap, false, req, rf, resp, pf)
	nt := ""
	if d > 0 {
		nt = fmt.Sprintf("%s|%d|%d|%v|%d|%s|%v", tr, adv, cap, ownOpt, d, tail, tailLast)
	}

	st.Case(nt, classes...)
	if d == 1 && ownOpt && adv == 1232 && cap == 4096 {
		st.Sample(c)
	}

	if d <= 0 && c.OutCounts[0] != pf.Answer && len(violations) == 0 {
		// Not a violation of the statement (over-truncation is allowed by it).
		st.Class("undecided:dropped-although-fits")
	}

	if len(violations) > 0 {
		t.Fatalf("C08 violated:\n  %s\ncase: %+v", strings.Join(violations, "\n  "), c)
	}
}
