//go:build verif

package dnsserver

// C08, sequence part: the per-response predicates (padding only on an
// encrypted transport to a client that sent it, keep-alive only to a client
// that sent it, one OPT with the client's UDP size and version 0, size limits)
// must hold for every response of a history, when the servers dispose of
// written responses into the production cloner's pools (ConfigBase.Disposer,
// as dnssvc wires it) and the handler answers with cloner.Clone(stored
// message), as the caches do.  What one response had appended to its OPT must
// not reappear in a later one.
//
// dnsmsg imports dnsserver, so this in-package file cannot name the cloner;
// the test function lives in the external test package (c08_recycle_ext.go)
// and passes a constructor.

import (
	"fmt"
	"math/rand"
	"net"
	"strings"
	"testing"

	"github.com/miekg/dns"
	"pgregory.net/rapid"
	"verif.local/harness/vstat"
)

// Vc08Cloner is the part of dnsmsg.Cloner this part uses.
type Vc08Cloner interface {
	Disposer

	Clone(msg *dns.Msg) (clone *dns.Msg)
}

const (
	vc08SeqName  = "recycle.example."
	vc08SeqQtype = dns.TypeA
)

// Stored message kinds.
const (
	vc08StoredOptEmpty   = "stored-opt-empty"   // OPT with Option == nil
	vc08StoredOptOptions = "stored-opt-options" // OPT with options the cloner pools
	vc08StoredOptOther   = "stored-opt-other"   // OPT with an option the cloner copies
	vc08StoredNoOpt      = "stored-no-opt"
	vc08StoredBig        = "stored-big" // OPT with Option == nil, ~2.5 KiB of pooled TXT records
)

var vc08StoredKinds = []string{
	vc08StoredOptEmpty, vc08StoredOptEmpty, vc08StoredOptEmpty,
	vc08StoredOptOptions, vc08StoredOptOther, vc08StoredNoOpt, vc08StoredBig,
}

// vc08Stored builds the stored message of the given kind; it is never handed
// to a server, only cloned.
func vc08Stored(t *rapid.T, kind string) (m *dns.Msg) {
	q := (&dns.Msg{}).SetQuestion(vc08SeqName, vc08SeqQtype)
	m = (&dns.Msg{}).SetReply(q)
	m.RecursionAvailable = true
	for i, n := 0, rapid.IntRange(0, 3).Draw(t, "storedAnswers"); i < n; i++ {
		m.Answer = append(m.Answer, &dns.A{Hdr: vc08Hdr(vc08SeqName, dns.TypeA, 300), A: net.IP{192, 0, 2, byte(i + 1)}})
	}

	if kind == vc08StoredBig {
		for i := 0; i < 36; i++ {
			m.Answer = append(m.Answer, &dns.TXT{Hdr: vc08Hdr(vc08SeqName, dns.TypeTXT, 300), Txt: []string{fmt.Sprintf("big-%02d-%s", i, strings.Repeat("t", 40+i%7))}})
		}
	}

	if len(m.Answer) == 0 {
		m.Ns = append(m.Ns, &dns.SOA{Hdr: vc08Hdr("example.", dns.TypeSOA, 300), Ns: "ns1.example.", Mbox: "m.example.", Minttl: 60})
	}

	if kind == vc08StoredNoOpt {
		return m
	}

	opt := &dns.OPT{Hdr: dns.RR_Header{Name: ".", Rrtype: dns.TypeOPT}}
	opt.SetUDPSize(rapid.SampledFrom([]uint16{0, 512, 1232, 4096}).Draw(t, "storedUDPSize"))
	if rapid.Bool().Draw(t, "storedDO") {
		opt.SetDo()
	}

	switch kind {
	case vc08StoredOptOptions:
		if rapid.Bool().Draw(t, "storedEDE") {
			opt.Option = append(opt.Option, &dns.EDNS0_EDE{InfoCode: dns.ExtendedErrorCodeFiltered, ExtraText: "filtered"})
		}

		if rapid.Bool().Draw(t, "storedCookie") {
			opt.Option = append(opt.Option, &dns.EDNS0_COOKIE{Code: dns.EDNS0COOKIE, Cookie: "0102030405060708a1a2a3a4a5a6a7a8"})
		}

		if len(opt.Option) == 0 || rapid.Bool().Draw(t, "storedECS") {
			opt.Option = append(opt.Option, &dns.EDNS0_SUBNET{Code: dns.EDNS0SUBNET, Family: 1, SourceNetmask: 24, SourceScope: 24, Address: net.IP{203, 0, 113, 0}.To4()})
		}
	case vc08StoredOptOther:
		opt.Option = append(opt.Option, &dns.EDNS0_NSID{Code: dns.EDNS0NSID, Nsid: "6164672d31"})
	}

	m.Extra = append(m.Extra, opt)

	return m
}

// vc08SeqParams is everything that distinguishes one step of a history.
type vc08SeqParams struct {
	Tr     vc08Transport
	Kind   string
	HasOpt bool
	Adv    uint16
	DO     bool
	KA     bool
	Pad    int // -1: none
	Cookie bool
}

// vc08SeqDraw draws the EDNS part of a step.
func vc08SeqDraw(t *rapid.T, p *vc08SeqParams, wantKA, wantPad bool) {
	p.Pad = -1
	p.HasOpt = wantKA || wantPad || rapid.IntRange(0, 5).Draw(t, "hasOpt") != 0
	if !p.HasOpt {
		return
	}

	p.Adv = rapid.SampledFrom([]uint16{0, 512, 1232, 4096, 65535}).Draw(t, "adv")
	p.DO = rapid.Bool().Draw(t, "do")
	p.KA = wantKA || rapid.IntRange(0, 3).Draw(t, "ka") == 0
	if wantPad || rapid.IntRange(0, 3).Draw(t, "pad") == 0 {
		p.Pad = rapid.IntRange(0, 32).Draw(t, "padLen")
	}

	p.Cookie = rapid.IntRange(0, 4).Draw(t, "cookie") == 0
}

// vc08SeqNearMiss changes exactly one component of p that the write path must
// tell apart.
func vc08SeqNearMiss(t *rapid.T, p *vc08SeqParams, all []vc08Transport) (what string) {
	for {
		switch rapid.IntRange(0, 5).Draw(t, "nearMiss") {
		case 0:
			if p.KA {
				p.KA = false

				return "drop-keepalive"
			}
		case 1:
			if p.Pad >= 0 {
				p.Pad = -1

				return "drop-padding"
			}
		case 2:
			if p.HasOpt {
				*p = vc08SeqParams{Tr: p.Tr, Kind: p.Kind, Pad: -1}

				return "drop-opt"
			}
		case 3:
			if tr := rapid.SampledFrom(all).Draw(t, "nearMissTr"); tr != p.Tr {
				p.Tr = tr

				return "other-transport"
			}
		case 4:
			if p.Kind != vc08StoredOptEmpty {
				p.Kind = vc08StoredOptEmpty

				return "stored-opt-emptied"
			}
		default:
			if p.HasOpt {
				p.Adv ^= 1

				return "adv-off-by-one"
			}
		}
	}
}

// vc08SeqReq builds the query of a step for the fixed question.
func vc08SeqReq(p *vc08SeqParams, id uint16) (req *dns.Msg, f vc08ReqFacts) {
	f = vc08ReqFacts{Name: vc08SeqName, Qtype: vc08SeqQtype, Pad: -1, NSID: -1}
	req = (&dns.Msg{}).SetQuestion(f.Name, f.Qtype)
	req.Id = id
	f.HasOpt = p.HasOpt
	if !f.HasOpt {
		return req, f
	}

	f.UDPSize, f.DO, f.KeepAlive, f.Pad, f.Cookie = p.Adv, p.DO, p.KA, p.Pad, p.Cookie
	opt := &dns.OPT{Hdr: dns.RR_Header{Name: ".", Rrtype: dns.TypeOPT}}
	opt.SetUDPSize(f.UDPSize)
	if f.DO {
		opt.SetDo()
	}

	if f.KeepAlive {
		opt.Option = append(opt.Option, &dns.EDNS0_TCP_KEEPALIVE{Code: dns.EDNS0TCPKEEPALIVE})
	}

	if f.Pad >= 0 {
		opt.Option = append(opt.Option, &dns.EDNS0_PADDING{Padding: make([]byte, f.Pad)})
	}

	if f.Cookie {
		opt.Option = append(opt.Option, &dns.EDNS0_COOKIE{Code: dns.EDNS0COOKIE, Cookie: "0102030405060708"})
	}

	req.Extra = append(req.Extra, opt)

	return req, f
}

// vc08StoredFacts describes stored for a request with facts rf.
func vc08StoredFacts(stored, req *dns.Msg, rf vc08ReqFacts, kind string) (pf vc08RespFacts) {
	pf = vc08RespFacts{Rcode: stored.Rcode, Answer: len(stored.Answer), Ns: len(stored.Ns), OwnPad: -1, Mode: kind}
	ownOpt := stored.IsEdns0()
	pf.Extra = len(stored.Extra)
	var standIn *dns.OPT
	switch {
	case ownOpt != nil:
		pf.OwnOpt, pf.OwnOptLen = true, dns.Len(ownOpt)
		pf.Extra--
	case rf.HasOpt:
		standIn = &dns.OPT{Hdr: dns.RR_Header{Name: ".", Rrtype: dns.TypeOPT}, Option: vc08EchoOpts(req.IsEdns0())}
	}

	pf.PreU, pf.PreC = vc08MsgSizes(stored, standIn)

	return pf
}

type vc08SeqStep struct {
	Transport string       `json:"transport"`
	Stored    string       `json:"stored"`
	Req       vc08ReqFacts `json:"req"`
	Recycle   bool         `json:"recycle_pattern,omitempty"`
}

// Vc08RunRecycle is the body of TestVerifC08Recycle.
func Vc08RunRecycle(t *testing.T, newCloner func() (c Vc08Cloner)) {
	const patternClass = "recycled-opt-after-keepalive-or-padding"

	st := vstat.New("C08", "dnsserver.recycle",
		"rapid histories of 2-6 queries for one question over drawn transports against servers whose Disposer is one production dnsmsg.Cloner (fresh per history) and whose handler answers with cloner.Clone(stored message: OPT without options / OPT with pooled options / OPT with a copied option / no OPT); every response is judged by the same per-response oracle as the transports part; non-trivial = the history contains a response that had keep-alive or padding appended and was disposed of, followed by a response cloned from a stored OPT without options for a client that did not send that option; distinct by the sequence of (transport, stored kind, request EDNS settings)",
		patternClass, vc08StoredOptEmpty, vc08StoredOptOptions, vc08StoredOptOther, vc08StoredNoOpt, vc08StoredBig,
		"polluter:keepalive", "polluter:padding", "near-miss-step",
		"near-miss:drop-keepalive", "near-miss:drop-padding", "near-miss:drop-opt", "near-miss:other-transport")
	st.Finish(t)

	e := vc08NewEnv()
	fnd := vc08NewFindings(st)
	defer fnd.report(t)

	all := []vc08Transport{vc08UDP, vc08UDP, vc08TCP, vc08DoT, vc08DoH, vc08DoQ, vc08DCUDP, vc08DCTCP}

	rapid.Check(t, func(t *rapid.T) {
		cl := newCloner()
		e.setDisposer(cl)
		e.clone = cl.Clone
		defer func() {
			e.clone = nil
			e.setDisposer(EmptyDisposer{})
		}()

		rand.Seed(rapid.Int64().Draw(t, "padSeed"))

		n := rapid.IntRange(2, 6).Draw(t, "steps")
		steps := make([]vc08SeqStep, 0, n)
		var classes, key []string
		pollutedKA, pollutedPad, pattern := false, false, false
		var prev vc08SeqParams
		var prevCap uint16
		var prevStored *dns.Msg
		for i := 0; i < n; i++ {
			// Most steps are either a response that gets an option appended on a
			// transport whose responses are disposed of, or a near miss of the
			// previous step: the same step with exactly one component changed.
			var p vc08SeqParams
			nearMiss := false
			switch polluter := rapid.IntRange(0, 12).Draw(t, "stepKind"); {
			case polluter < 3 && i < n-1:
				p.Tr = rapid.SampledFrom([]vc08Transport{vc08TCP, vc08DoT}).Draw(t, "trKA")
				p.Kind = rapid.SampledFrom(vc08StoredKinds).Draw(t, "stored")
				vc08SeqDraw(t, &p, true, false)
			case polluter < 6 && i < n-1:
				p.Tr = rapid.SampledFrom([]vc08Transport{vc08DoT, vc08DoH, vc08DoQ}).Draw(t, "trPad")
				p.Kind = rapid.SampledFrom(vc08StoredKinds).Draw(t, "stored")
				vc08SeqDraw(t, &p, false, true)
			case polluter < 10 && i > 0:
				p = prev
				nearMiss = true
				classes = append(classes, "near-miss-step", "near-miss:"+vc08SeqNearMiss(t, &p, all))
			default:
				p.Tr = rapid.SampledFrom(all).Draw(t, "tr")
				p.Kind = rapid.SampledFrom(vc08StoredKinds).Draw(t, "stored")
				vc08SeqDraw(t, &p, false, false)
			}

			// A near miss keeps the configured maximum and, unless the stored
			// kind is the changed component, the very same stored message (it is
			// only ever cloned, never written).
			tr, kind := p.Tr, p.Kind
			cap, stored := prevCap, prevStored
			if !nearMiss {
				cap = rapid.SampledFrom([]uint16{0, 512, 1232, 4096, 65535}).Draw(t, "cap")
			}

			if !nearMiss || kind != prev.Kind {
				stored = vc08Stored(t, kind)
			}

			prev, prevCap, prevStored = p, cap, stored
			req, rf := vc08SeqReq(&p, rapid.Uint16().Draw(t, "id"))
			pf := vc08StoredFacts(stored, req, rf, kind)

			step := vc08SeqStep{Transport: tr.String(), Stored: kind, Req: rf}
			if (kind == vc08StoredOptEmpty || kind == vc08StoredBig) &&
				(pollutedKA && !rf.KeepAlive || pollutedPad && !(tr.encrypted() && rf.Pad >= 0)) {
				step.Recycle = true
				pattern = true
			}

			steps = append(steps, step)
			key = append(key, fmt.Sprintf("%s/%s/%v/%d/%v/%d", tr, kind, rf.HasOpt, rf.UDPSize, rf.KeepAlive, rf.Pad))
			classes = append(classes, kind)

			c, cls, violations := vc08Run(fnd, e, tr, cap, tr == vc08DoH && rapid.Bool().Draw(t, "dohGet"), req, rf, stored, pf)
			if len(violations) > 0 {
				st.Case(strings.Join(key, ";"), classes...)
				t.Fatalf("C08 violated at step %d of the history:\n  %s\nstep case: %+v\nhistory: %+v",
					i+1, strings.Join(violations, "\n  "), c, steps)
			}

			// Responses written by these four paths are handed to the disposer.
			if tr == vc08TCP || tr == vc08DoT || tr == vc08DoH || tr == vc08DoQ {
				for _, cn := range cls {
					switch cn {
					case "keepalive-returned-as-asked":
						if !pollutedKA {
							classes = append(classes, "polluter:keepalive")
						}

						pollutedKA = true
					case "padding-returned-as-asked":
						if !pollutedPad {
							classes = append(classes, "polluter:padding")
						}

						pollutedPad = true
					}
				}
			}
		}

		nt := ""
		if pattern {
			nt = strings.Join(key, ";")
			classes = append(classes, patternClass)
		}

		st.Case(nt, classes...)
		if pattern && st.WantSample() {
			st.Sample(steps)
		}
	})
}
