//go:build verif

package dnsserver_test

import (
	"testing"

	"github.com/AdguardTeam/AdGuardDNS/internal/dnsmsg"
	"github.com/AdguardTeam/AdGuardDNS/internal/dnsserver"
)

// TestVerifC08Recycle is the sequence part of C08; see c08_recycle.go.
func TestVerifC08Recycle(t *testing.T) {
	dnsserver.Vc08RunRecycle(t, func() (c dnsserver.Vc08Cloner) {
		return dnsmsg.NewCloner(dnsmsg.EmptyClonerStat{})
	})
}

// TestVerifC08Concurrent is the concurrent part of C08; see c08_concurrent.go.
func TestVerifC08Concurrent(t *testing.T) {
	dnsserver.Vc08RunConcurrent(t, func() (c dnsserver.Vc08Cloner) {
		return dnsmsg.NewCloner(dnsmsg.EmptyClonerStat{})
	})
}
