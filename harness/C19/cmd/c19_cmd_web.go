//go:build verif

package cmd

// C19, configuration plumbing: a generated `web:` section -- linked_ip, three
// block-page servers and non_doh_bind with pairwise different bind addresses
// (some with certificates), different block pages and error pages, a
// root_redirect_url, static content, a timeout -- and the environment variable
// LINKED_IP_TARGET_URL (a loopback stand-in for the backend, different from the
// redirect URL) are parsed and validated by the package's own code (parseConfig,
// parseEnvironment) and converted by (*webConfig).toInternal; the service is
// then made as builder.initWeb makes it (websvc.New, Refresh).
//
// (a) Fidelity: every value arrives in the field of websvc.Config the
// documentation of the key names.
//
// (b) Behaviour: every linked-IP server of the built service has its
// configured address and the configured timeouts; a documented linked-IP
// request handed to its handler reaches the LINKED_IP_TARGET_URL stand-in (and
// not the redirect URL) below the target's own path, with the connecting
// peer's address in X-Connecting-Ip; an undocumented one is answered locally;
// the non-DoH handler redirects to root_redirect_url.

import (
	"context"
	"crypto/ecdsa"
	"crypto/elliptic"
	"crypto/rand"
	"crypto/x509"
	"crypto/x509/pkix"
	"encoding/base64"
	"encoding/pem"
	"fmt"
	"math/big"
	"net/http"
	"net/http/httptest"
	"net/netip"
	"os"
	"path/filepath"
	"sort"
	"strings"
	"sync"
	"testing"
	"time"

	"github.com/AdguardTeam/AdGuardDNS/internal/agdtest"
	"github.com/AdguardTeam/AdGuardDNS/internal/tlsconfig"
	"github.com/AdguardTeam/AdGuardDNS/internal/websvc"
	"github.com/AdguardTeam/golibs/logutil/slogutil"
	"pgregory.net/rapid"
	"verif.local/harness/vpeek"
	"verif.local/harness/vstat"
)

// vc19cmdBind is one bind item.
type vc19cmdBind struct {
	Addr netip.AddrPort
	TLS  bool
}

// vc19cmdSettings are the values written into the YAML text and the
// environment.
type vc19cmdSettings struct {
	Timeout time.Duration

	// LinkedIP is nil if the section is absent.
	LinkedIP []vc19cmdBind

	// Block-page servers by key; absent if nil.
	BlockPages map[string][]vc19cmdBind
	PagePaths  map[string]string

	NonDoH       []vc19cmdBind
	RootRedirect string
	Err404       string
	Err500       string
	StaticBody   string

	TargetURL string
	Cert, Key string
}

func vc19cmdBinds(indent string, bs []vc19cmdBind, cert, key string) string {
	var y strings.Builder
	for _, b := range bs {
		fmt.Fprintf(&y, "%s- address: '%s'\n", indent, b.Addr)
		if b.TLS {
			fmt.Fprintf(&y, "%s  certificates:\n%s    - certificate: '%s'\n%s      key: '%s'\n", indent, indent, cert, indent, key)
		}
	}

	return y.String()
}

func (s *vc19cmdSettings) yaml() string {
	var y strings.Builder
	y.WriteString("web:\n")
	if s.LinkedIP != nil {
		y.WriteString("    linked_ip:\n        bind:\n" + vc19cmdBinds("          ", s.LinkedIP, s.Cert, s.Key))
	}

	for _, k := range []string{"adult_blocking", "general_blocking", "safe_browsing"} {
		if bs := s.BlockPages[k]; bs != nil {
			fmt.Fprintf(&y, "    %s:\n        bind:\n%s        block_page: '%s'\n", k, vc19cmdBinds("          ", bs, s.Cert, s.Key), s.PagePaths[k])
		}
	}

	if len(s.NonDoH) > 0 {
		y.WriteString("    non_doh_bind:\n" + vc19cmdBinds("      ", s.NonDoH, s.Cert, s.Key))
	}

	if s.RootRedirect != "" {
		fmt.Fprintf(&y, "    root_redirect_url: '%s'\n", s.RootRedirect)
	}

	if s.Err404 != "" {
		fmt.Fprintf(&y, "    error_404: '%s'\n", s.Err404)
	}

	if s.Err500 != "" {
		fmt.Fprintf(&y, "    error_500: '%s'\n", s.Err500)
	}

	if s.StaticBody != "" {
		fmt.Fprintf(&y, "    static_content:\n        '/favicon.ico':\n            content: '%s'\n            headers:\n                'content-type':\n                  - 'image/x-icon'\n",
			base64.StdEncoding.EncodeToString([]byte(s.StaticBody)))
	}

	fmt.Fprintf(&y, "    timeout: %s\n", s.Timeout)

	return y.String()
}

func vc19cmdWriteCert(tb testing.TB, certPath, keyPath string) {
	key, err := ecdsa.GenerateKey(elliptic.P256(), rand.Reader)
	if err != nil {
		tb.Fatalf("fixture: generating key: %v", err)
	}

	tmpl := &x509.Certificate{
		SerialNumber: big.NewInt(19),
		Subject:      pkix.Name{CommonName: "dns.example.com"},
		DNSNames:     []string{"dns.example.com"},
		NotBefore:    time.Now().Add(-time.Hour),
		NotAfter:     time.Now().Add(240 * time.Hour),
		KeyUsage:     x509.KeyUsageDigitalSignature,
		ExtKeyUsage:  []x509.ExtKeyUsage{x509.ExtKeyUsageServerAuth},
	}

	der, err := x509.CreateCertificate(rand.Reader, tmpl, tmpl, &key.PublicKey, key)
	if err != nil {
		tb.Fatalf("fixture: creating certificate: %v", err)
	}

	keyDER, err := x509.MarshalECPrivateKey(key)
	if err != nil {
		tb.Fatalf("fixture: marshalling key: %v", err)
	}

	if err = os.WriteFile(certPath, pem.EncodeToMemory(&pem.Block{Type: "CERTIFICATE", Bytes: der}), 0o600); err != nil {
		tb.Fatalf("fixture: %v", err)
	}

	if err = os.WriteFile(keyPath, pem.EncodeToMemory(&pem.Block{Type: "EC PRIVATE KEY", Bytes: keyDER}), 0o600); err != nil {
		tb.Fatalf("fixture: %v", err)
	}
}

// vc19cmdSeen is one request at a stand-in.
type vc19cmdSeen struct {
	Method, Path, ConnectingIP string
}

type vc19cmdStandIn struct {
	mu   sync.Mutex
	seen []vc19cmdSeen
	srv  *httptest.Server
}

func vc19cmdNewStandIn(tb testing.TB) (s *vc19cmdStandIn) {
	s = &vc19cmdStandIn{}
	s.srv = httptest.NewServer(http.HandlerFunc(func(w http.ResponseWriter, r *http.Request) {
		s.mu.Lock()
		s.seen = append(s.seen, vc19cmdSeen{Method: r.Method, Path: r.URL.Path, ConnectingIP: r.Header.Get("X-Connecting-Ip")})
		s.mu.Unlock()
		w.WriteHeader(http.StatusOK)
		_, _ = w.Write([]byte("ok"))
	}))
	tb.Cleanup(s.srv.Close)

	return s
}

func (s *vc19cmdStandIn) take() (seen []vc19cmdSeen) {
	s.mu.Lock()
	defer s.mu.Unlock()

	seen, s.seen = s.seen, nil

	return seen
}

var vc19cmdEnvNames = []string{
	"ADULT_BLOCKING_URL", "BACKEND_RATELIMIT_URL", "BILLSTAT_URL", "BLOCKED_SERVICE_INDEX_URL", "CONSUL_ALLOWLIST_URL", "CONSUL_DNSCHECK_KV_URL",
	"CONSUL_DNSCHECK_SESSION_URL", "DNSCHECK_REMOTEKV_URL", "FILTER_INDEX_URL", "GENERAL_SAFE_SEARCH_URL", "LINKED_IP_TARGET_URL", "NEW_REG_DOMAINS_URL",
	"PROFILES_URL", "RULESTAT_URL", "SAFE_BROWSING_URL", "YOUTUBE_SAFE_SEARCH_URL", "WEB_STATIC_DIR", "VERBOSE", "ADULT_BLOCKING_ENABLED",
	"NEW_REG_DOMAINS_ENABLED", "SAFE_BROWSING_ENABLED", "BLOCKED_SERVICE_ENABLED", "GENERAL_SAFE_SEARCH_ENABLED", "YOUTUBE_SAFE_SEARCH_ENABLED",
	"WEB_STATIC_DIR_ENABLED",
}

func vc19cmdWithEnv(set map[string]string, f func()) {
	old := map[string]*string{}
	for _, n := range vc19cmdEnvNames {
		if v, ok := os.LookupEnv(n); ok {
			old[n] = &v
		} else {
			old[n] = nil
		}

		if v, ok := set[n]; ok {
			_ = os.Setenv(n, v)
		} else {
			_ = os.Unsetenv(n)
		}
	}

	defer func() {
		for n, v := range old {
			if v == nil {
				_ = os.Unsetenv(n)
			} else {
				_ = os.Setenv(n, *v)
			}
		}
	}()

	f()
}

func TestVerifC19CmdWeb(t *testing.T) {
	st := vstat.New("C19", "cmd.web-config",
		"rapid: a `web:` YAML section (linked_ip with 1-2 binds or absent; adult_blocking / general_blocking / safe_browsing block-page servers present or absent; non_doh_bind; all bind addresses different, some with certificates; root_redirect_url; error pages; static content; one of four timeouts) and LINKED_IP_TARGET_URL pointing at a loopback stand-in, with or without a base path, a second stand-in behind root_redirect_url -> parseConfig, parseEnvironment, validate, (*webConfig).toInternal, websvc.New + Refresh as in builder.initWeb; fidelity of websvc.Config; behaviour of every built linked-IP server (address, four timeouts, a documented and an undocumented request through its handler, judged at the stand-ins) and of the non-DoH handler's redirect; non-trivial = a linked-IP request was proxied to the configured target, distinct by settings",
		"linked-ip-proxied-to-target-url", "target-url-with-base-path", "linked-ip-absent", "linked-ip-two-binds", "linked-ip-bind-with-certificate", "undocumented-path-answered-locally",
		"root-redirect-told-from-target-url", "block-page-servers-all-three", "some-block-page-server-absent")
	st.Finish(t)

	dir := t.TempDir()
	certPath, keyPath := filepath.Join(dir, "cert.crt"), filepath.Join(dir, "cert.key")
	vc19cmdWriteCert(t, certPath, keyPath)
	logger := slogutil.NewDiscardLogger()
	errColl := agdtest.NewErrorCollector()
	errColl.OnCollect = func(context.Context, error) {}
	target, other := vc19cmdNewStandIn(t), vc19cmdNewStandIn(t)
	caseNo := 0
	ctx := context.Background()

	inconclusive := func(format string, args ...any) {
		msg := fmt.Sprintf(format, args...)
		fmt.Printf("VERIF-INCONCLUSIVE: %s\n", msg)
		t.Logf("VERIF-INCONCLUSIVE: %s", msg)
		t.FailNow()
	}

	rapid.Check(t, func(rt *rapid.T) {
		caseNo++
		port := uint16(18000)
		nextBind := func(label string) vc19cmdBind {
			port++

			return vc19cmdBind{
				Addr: netip.AddrPortFrom(netip.AddrFrom4([4]byte{127, 0, 0, byte(1 + rapid.IntRange(0, 3).Draw(rt, label+"Host"))}), port),
				TLS:  rapid.IntRange(0, 2).Draw(rt, label+"TLS") == 0,
			}
		}
		binds := func(label string, minN, maxN int) (bs []vc19cmdBind) {
			bs = []vc19cmdBind{}
			for i, n := 0, rapid.IntRange(minN, maxN).Draw(rt, label+"N"); i < n; i++ {
				bs = append(bs, nextBind(label))
			}

			return bs
		}

		s := &vc19cmdSettings{
			Timeout:      rapid.SampledFrom([]time.Duration{7 * time.Second, 11 * time.Second, 45 * time.Second, 2 * time.Minute}).Draw(rt, "timeout"),
			BlockPages:   map[string][]vc19cmdBind{},
			PagePaths:    map[string]string{},
			RootRedirect: other.srv.URL + "/root-redirect",
			Cert:         certPath,
			Key:          keyPath,
			TargetURL:    target.srv.URL,
		}
		base := ""
		if rapid.Bool().Draw(rt, "targetBasePath") {
			base = "/backend/api"
			s.TargetURL += base
		}

		if rapid.IntRange(0, 7).Draw(rt, "linkedIPAbsent") != 0 {
			s.LinkedIP = binds("linkedIP", 1, 2)
		}

		pages := map[string]string{}
		for _, k := range []string{"adult_blocking", "general_blocking", "safe_browsing"} {
			if rapid.IntRange(0, 3).Draw(rt, k+"Absent") == 0 {
				continue
			}

			s.BlockPages[k] = binds(k, 1, 2)
			p := filepath.Join(dir, fmt.Sprintf("page_%s_%d.html", k, caseNo))
			pages[k] = fmt.Sprintf("<html>%s page of case %d</html>", k, caseNo)
			if err := os.WriteFile(p, []byte(pages[k]), 0o600); err != nil {
				rt.Fatalf("harness: %v", err)
			}
			defer func() { _ = os.Remove(p) }()

			s.PagePaths[k] = p
		}

		s.NonDoH = binds("nonDoH", 0, 2)
		errPages := map[string]string{}
		for _, k := range []string{"404", "500"} {
			if rapid.Bool().Draw(rt, "error"+k) {
				p := filepath.Join(dir, fmt.Sprintf("error_%s_%d.html", k, caseNo))
				errPages[k] = fmt.Sprintf("<html>error %s of case %d</html>", k, caseNo)
				if err := os.WriteFile(p, []byte(errPages[k]), 0o600); err != nil {
					rt.Fatalf("harness: %v", err)
				}
				defer func() { _ = os.Remove(p) }()

				if k == "404" {
					s.Err404 = p
				} else {
					s.Err500 = p
				}
			}
		}

		if rapid.Bool().Draw(rt, "static") {
			s.StaticBody = fmt.Sprintf("icon-%d", caseNo)
		}

		text := s.yaml()
		path := filepath.Join(dir, fmt.Sprintf("c%d.yaml", caseNo))
		if err := os.WriteFile(path, []byte(text), 0o600); err != nil {
			rt.Fatalf("harness: %v", err)
		}
		defer func() { _ = os.Remove(path) }()

		env := map[string]string{
			"FILTER_INDEX_URL": "http://127.0.0.1:9/filters.json", "LINKED_IP_TARGET_URL": s.TargetURL,
			"ADULT_BLOCKING_ENABLED": "0", "NEW_REG_DOMAINS_ENABLED": "0", "SAFE_BROWSING_ENABLED": "0", "BLOCKED_SERVICE_ENABLED": "0",
			"GENERAL_SAFE_SEARCH_ENABLED": "0", "YOUTUBE_SAFE_SEARCH_ENABLED": "0",
			// A decoy next to the target.
			"RULESTAT_URL": other.srv.URL + "/rulestat",
		}
		fail := func(format string, args ...any) {
			rt.Fatalf("%s\nLINKED_IP_TARGET_URL=%s\n%s", fmt.Sprintf(format, args...), s.TargetURL, text)
		}

		conf, err := parseConfig(path)
		if err != nil || conf.Web == nil {
			fail("the generated web section was not parsed: %v", err)
		}

		if err = conf.Web.validate(); err != nil {
			fail("a valid web section was rejected: %v", err)
		}

		var envs *environment
		vc19cmdWithEnv(env, func() { envs, err = parseEnvironment() })
		if err == nil {
			err = envs.validate()
		}

		if err != nil {
			fail("a valid environment was rejected: %v", err)
		}

		tlsMgr, err := tlsconfig.NewDefaultManager(&tlsconfig.DefaultManagerConfig{
			Logger:  logger,
			ErrColl: errColl,
			Metrics: tlsconfig.EmptyMetrics{},
		})
		if err != nil {
			rt.Fatalf("harness: %v", err)
		}

		// As builder.initWeb.
		webConf, err := conf.Web.toInternal(ctx, envs, nil, errColl, tlsMgr)
		if err != nil || webConf == nil {
			fail("(*webConfig).toInternal failed on a valid section: %v", err)
		}

		// (a) Fidelity.
		var bad []string
		expect := func(what string, got, want any) {
			if got != want {
				bad = append(bad, fmt.Sprintf("%s: the configuration says %v, converted to %v", what, want, got))
			}
		}
		bindsOf := func(what string, got []*websvc.BindData, want []vc19cmdBind) {
			if len(got) != len(want) {
				bad = append(bad, fmt.Sprintf("%s: %d bind items configured, %d converted", what, len(want), len(got)))

				return
			}

			for i, w := range want {
				expect(fmt.Sprintf("%s[%d].address", what, i), got[i].Address, w.Addr)
				expect(fmt.Sprintf("%s[%d] has a TLS configuration (certificates given)", what, i), got[i].TLS != nil, w.TLS)
			}
		}

		// "The timeout for server operations"
		expect("web.timeout", webConf.Timeout, s.Timeout)
		if s.LinkedIP == nil {
			if webConf.LinkedIP != nil {
				bad = append(bad, "linked_ip is absent but a linked-IP server was converted")
			}
		} else if webConf.LinkedIP == nil || webConf.LinkedIP.TargetURL == nil {
			bad = append(bad, "linked_ip is present but no linked-IP server (or no target URL) was converted")
		} else {
			expect("linked-IP target (LINKED_IP_TARGET_URL)", webConf.LinkedIP.TargetURL.String(), s.TargetURL)
			bindsOf("linked_ip.bind", webConf.LinkedIP.Bind, s.LinkedIP)
		}

		for k, got := range map[string]*websvc.BlockPageServerConfig{"adult_blocking": webConf.AdultBlocking, "general_blocking": webConf.GeneralBlocking, "safe_browsing": webConf.SafeBrowsing} {
			want := s.BlockPages[k]
			switch {
			case want == nil && got != nil:
				bad = append(bad, k+" is absent but a block-page server was converted")
			case want == nil:
			case got == nil:
				bad = append(bad, k+" is present but no block-page server was converted")
			default:
				expect(k+".block_page", got.ContentFilePath, s.PagePaths[k])
				bindsOf(k+".bind", got.Bind, want)
			}
		}

		bindsOf("non_doh_bind", webConf.NonDoHBind, s.NonDoH)
		if webConf.RootRedirectURL == nil {
			bad = append(bad, "root_redirect_url is set but was not converted")
		} else {
			expect("root_redirect_url", webConf.RootRedirectURL.String(), s.RootRedirect)
		}

		expect("error_404 page", string(webConf.Error404), errPages["404"])
		expect("error_500 page", string(webConf.Error500), errPages["500"])

		if len(bad) > 0 {
			sort.Strings(bad)
			fail("conversion of the web settings:\n  %s", strings.Join(bad, "\n  "))
		}

		// (b) Behaviour.
		svc := websvc.New(webConf)
		if err = svc.Refresh(ctx); err != nil {
			fail("refreshing the web service built from a valid section: %v", err)
		}

		classes := map[string]bool{}
		if len(s.BlockPages) == 3 {
			classes["block-page-servers-all-three"] = true
		} else {
			classes["some-block-page-server-absent"] = true
		}

		srvsV, perr := vpeek.Get(svc, "linkedIP")
		if perr != nil {
			inconclusive("the built web service cannot be read: %v", perr)
		}

		srvs, _ := srvsV.Interface().([]*http.Server)
		if len(srvs) != len(s.LinkedIP) {
			fail("%d linked-IP servers were built for %d bind items", len(srvs), len(s.LinkedIP))
		}

		target.take()
		other.take()
		nt := ""
		if s.LinkedIP == nil {
			classes["linked-ip-absent"] = true
		} else if len(s.LinkedIP) == 2 {
			classes["linked-ip-two-binds"] = true
		}

		for i, srv := range srvs {
			w := s.LinkedIP[i]
			if srv.Addr != w.Addr.String() || (srv.TLSConfig != nil) != w.TLS {
				fail("linked-IP server #%d listens on %s (TLS %t); linked_ip.bind[%d] is %s (certificates %t)", i, srv.Addr, srv.TLSConfig != nil, i, w.Addr, w.TLS)
			}

			if w.TLS {
				classes["linked-ip-bind-with-certificate"] = true
			}

			if srv.ReadTimeout != s.Timeout || srv.WriteTimeout != s.Timeout || srv.IdleTimeout != s.Timeout || srv.ReadHeaderTimeout != s.Timeout {
				fail("linked-IP server %s has the timeouts read=%s write=%s idle=%s read-header=%s; web.timeout is %s", srv.Addr, srv.ReadTimeout, srv.WriteTimeout, srv.IdleTimeout, srv.ReadHeaderTimeout, s.Timeout)
			}

			peer := fmt.Sprintf("192.0.2.%d", 10+i)
			for _, q := range []struct {
				method, path string
				proxied      bool
			}{
				{http.MethodGet, "/linkip/dev1234/0123abcd", true},
				{http.MethodPost, "/ddns/dev1234/0123abcd/example.org", true},
				{http.MethodGet, "/linkip/dev1234", false},
				{http.MethodGet, "/", false},
			} {
				req := httptest.NewRequest(q.method, "http://"+srv.Addr+q.path, nil)
				req.RemoteAddr = peer + ":4444"
				req.Header.Set("X-Connecting-Ip", "203.0.113.99")
				rec := httptest.NewRecorder()
				srv.Handler.ServeHTTP(rec, req)
				atTarget, atOther := target.take(), other.take()
				if len(atOther) != 0 {
					fail("%s %s on the linked-IP server %s reached the server behind root_redirect_url / RULESTAT_URL: %+v", q.method, q.path, srv.Addr, atOther)
				}

				if !q.proxied {
					if len(atTarget) != 0 || rec.Code != http.StatusNotFound {
						fail("%s %s on the linked-IP server %s: status %d, at the backend %+v; want a local 404", q.method, q.path, srv.Addr, rec.Code, atTarget)
					}

					classes["undocumented-path-answered-locally"] = true

					continue
				}

				want := vc19cmdSeen{Method: q.method, Path: base + q.path, ConnectingIP: peer}
				if len(atTarget) != 1 || atTarget[0] != want || rec.Code != http.StatusOK {
					fail("%s %s from %s on the linked-IP server %s: status %d, the LINKED_IP_TARGET_URL backend saw %+v; want %+v", q.method, q.path, peer, srv.Addr, rec.Code, atTarget, want)
				}

				classes["linked-ip-proxied-to-target-url"] = true
				if base != "" {
					classes["target-url-with-base-path"] = true
				}

				nt = text + s.TargetURL
			}
		}

		// The non-DoH handler: "The optional URL to which non-DNS and non-Debug
		// HTTP requests are redirected."
		req := httptest.NewRequest(http.MethodGet, "http://dns.example.com/", nil)
		req.RemoteAddr = "192.0.2.77:4444"
		rec := httptest.NewRecorder()
		svc.ServeHTTP(rec, req)
		if loc := rec.Header().Get("Location"); rec.Code < 300 || rec.Code > 399 || loc != s.RootRedirect {
			fail("GET / on the non-DoH handler: status %d, Location %q; root_redirect_url is %s", rec.Code, loc, s.RootRedirect)
		}

		classes["root-redirect-told-from-target-url"] = true
		if n := len(target.take()) + len(other.take()); n != 0 {
			fail("GET / on the non-DoH handler contacted a backend")
		}

		var cl []string
		for c := range classes {
			cl = append(cl, c)
		}

		sort.Strings(cl)
		st.Case(nt, cl...)
		if nt != "" && st.WantSample() {
			st.Sample(map[string]any{"yaml": strings.Split(text, "\n"), "LINKED_IP_TARGET_URL": s.TargetURL, "classes": cl})
		}
	})
}
