//go:build verif

package websvc

// C19, concurrent part: with several proxied requests from different peers in
// flight at once, each one still reaches the backend with ITS peer's address
// and without forged forwarding headers.  Sequential requests cannot show
// state shared between requests (a per-request value kept on the shared
// handler / reverse proxy); this part aligns K requests at the handler's entry
// and holds them at the backend so that they really overlap.

import (
	"bufio"
	"fmt"
	"io"
	"net"
	"net/http"
	"net/http/httptest"
	"net/netip"
	"net/url"
	"sort"
	"strconv"
	"strings"
	"sync"
	"testing"
	"time"

	"pgregory.net/rapid"
	"verif.local/harness/vstat"
)

// vc19Gate is a one-shot barrier: arrive blocks until n callers have arrived
// or the time-out expires.
type vc19Gate struct {
	mu       sync.Mutex
	n        int
	arrived  int
	maxSeen  int
	timedOut bool
	ch       chan struct{}
	once     sync.Once
}

func vc19NewGate(n int) (g *vc19Gate) {
	return &vc19Gate{n: n, ch: make(chan struct{})}
}

func (g *vc19Gate) release() { g.once.Do(func() { close(g.ch) }) }

// arrive returns when all n have arrived (or after d).
func (g *vc19Gate) arrive(d time.Duration) {
	g.mu.Lock()
	g.arrived++
	if g.arrived > g.maxSeen {
		g.maxSeen = g.arrived
	}

	full := g.arrived >= g.n
	g.mu.Unlock()

	if full {
		g.release()

		return
	}

	tm := time.NewTimer(d)
	defer tm.Stop()

	select {
	case <-g.ch:
	case <-tm.C:
		g.mu.Lock()
		g.timedOut = true
		g.mu.Unlock()
		g.release()
	}
}

func (g *vc19Gate) stats() (arrived int, timedOut bool) {
	g.mu.Lock()
	defer g.mu.Unlock()

	return g.arrived, g.timedOut
}

// vc19CBackend records requests and holds each one until all requests of the
// round are inside the handler at the same time.
type vc19CBackend struct {
	mu   sync.Mutex
	gate *vc19Gate
	recs []vc19Rec

	// plans are the scripted answers by request tag (the X-Vc19-Case header);
	// each is consumed by the first request carrying the tag.
	plans map[string]vc19Plan
}

func (b *vc19CBackend) ServeHTTP(w http.ResponseWriter, r *http.Request) {
	_, _ = io.Copy(io.Discard, r.Body)

	b.mu.Lock()
	b.recs = append(b.recs, vc19Rec{
		Method: r.Method,
		URI:    r.RequestURI,
		Path:   r.URL.Path,
		Host:   r.Host,
		CaseID: r.Header.Get("X-Vc19-Case"),
		Hdr:    r.Header.Clone(),
		Srv:    "backend",
	})
	g := b.gate
	tag := r.Header.Get("X-Vc19-Case")
	plan, planned := b.plans[tag]
	delete(b.plans, tag)
	b.mu.Unlock()

	if g != nil {
		g.arrive(2 * time.Second)
	}

	if planned && plan.redirect() {
		w.Header().Set("Location", plan.Location)
		w.WriteHeader(plan.Status)
	}

	_, _ = io.WriteString(w, "vc19-backend-ok")
}

func (b *vc19CBackend) arm(g *vc19Gate, plans map[string]vc19Plan) (old []vc19Rec) {
	b.mu.Lock()
	defer b.mu.Unlock()

	old, b.recs = b.recs, nil
	b.gate = g
	b.plans = plans

	return old
}

// vc19CTap aligns the requests of a round at the entry of the handler under
// test: they are all released into it at the same moment.
type vc19CTap struct {
	h    http.Handler
	mu   sync.Mutex
	gate *vc19Gate
}

func (p *vc19CTap) ServeHTTP(w http.ResponseWriter, r *http.Request) {
	p.mu.Lock()
	g := p.gate
	p.mu.Unlock()

	if g != nil {
		g.arrive(10 * time.Second)
	}

	p.h.ServeHTTP(w, r)
}

func (p *vc19CTap) arm(g *vc19Gate) {
	p.mu.Lock()
	defer p.mu.Unlock()

	p.gate = g
}

type vc19CFront struct {
	base  string
	tap   *vc19CTap
	addr4 string
	addr6 string
}

// vc19COne is one request of a round and what happened to it.
type vc19COne struct {
	req    *vc19Req
	tag    string
	shape  string
	fam    string
	addr   string
	local  net.IP
	conn   net.Conn
	wire   []byte
	resp   vc19Resp
	tmo    bool
	err    error
	peer   netip.Addr
	target string

	// local404: the request must be answered locally with 404.
	local404 bool

	// plan is the backend's scripted answer to this request.
	plan vc19Plan
}

func TestVerifC19Concurrent(t *testing.T) {
	st := vstat.New("C19", "websvc.concurrent",
		"rapid draws K=2..8 requests (the four documented shapes, unique device-id tag, forged forwarding / client-IP / Connection header sets; from the third on a member may instead be a one-component near miss that must get a local 404 while the others are in flight) from pairwise distinct loopback peers (127.0.0.1-127.0.0.8, ::1) to one linkedIPHandler; a barrier releases all K into the handler at once and the recording backend holds each until all K are inside it; per request: exactly one X-Connecting-IP equal to its own socket peer, no marker in a forwarding header, its own method and path; non-trivial = at least two requests from different peers were inside the backend handler simultaneously; distinct by the multiset of (peer, shape, header names)",
		"overlap>=2-distinct-peers", "overlap=all", "round-has-ipv4-and-ipv6", "k>=5", "forged-header-in-round",
		"round-has-locally-answered-member", "backend-answered-with-a-redirect")
	st.Finish(t)

	backend := &vc19CBackend{}
	errs := &vc19ErrColl{}
	bsrv := httptest.NewServer(backend)
	t.Cleanup(bsrv.Close)

	var fronts []*vc19CFront
	for _, base := range []string{"", "/base/v1"} {
		apiURL, err := url.Parse(bsrv.URL + base)
		if err != nil {
			t.Fatalf("harness: parsing backend url: %s", err)
		}

		srv := vc19NewServer(t, apiURL, errs, 30*time.Second, nil)
		fr := &vc19CFront{base: base, tap: &vc19CTap{h: srv.Handler}}
		srv.Handler = fr.tap

		wg := &sync.WaitGroup{}
		l4, err := net.Listen("tcp4", "127.0.0.1:0")
		if err != nil {
			t.Fatalf("harness: listening on ipv4 loopback: %s", err)
		}

		fr.addr4 = l4.Addr().String()
		wg.Add(1)
		go func() { defer wg.Done(); _ = srv.Serve(l4) }()

		if l6, err6 := net.Listen("tcp6", "[::1]:0"); err6 == nil {
			fr.addr6 = l6.Addr().String()
			wg.Add(1)
			go func() { defer wg.Done(); _ = srv.Serve(l6) }()
		}

		t.Cleanup(func() {
			_ = srv.Close()
			wg.Wait()
		})

		fronts = append(fronts, fr)
	}

	round := 0

	rapid.Check(t, func(t *rapid.T) {
		fr := rapid.SampledFrom(fronts).Draw(t, "front")

		// Peers: 0 = ::1, 1..8 = 127.0.0.n; pairwise distinct within a round.
		peers := []int{1, 2, 3, 4, 5, 6, 7, 8}
		if fr.addr6 != "" {
			peers = append(peers, 0)
		}

		k := rapid.IntRange(2, 8).Draw(t, "k")
		order := rapid.Permutation(peers).Draw(t, "peers")[:k]

		round++
		ones := make([]*vc19COne, k)
		anyForged := false
		nFwd := 0
		plans := map[string]vc19Plan{}
		for i := range ones {
			o := &vc19COne{req: &vc19Req{Proto: "HTTP/1.1"}}
			if order[i] == 0 {
				o.fam, o.addr = "ipv6", fr.addr6
				o.req.Self = "::1"
			} else {
				o.fam, o.addr = "ipv4", fr.addr4
				o.local = net.IPv4(127, 0, 0, byte(order[i]))
				o.req.Self = o.local.String()
			}

			tm := vc19Templates[rapid.IntRange(0, 3).Draw(t, "shape")]
			o.shape = tm.name
			o.tag = "r" + strconv.Itoa(round) + "q" + strconv.Itoa(i)
			segs := append([]string{}, tm.segs...)
			segs[1] = o.tag
			segs[2] = rapid.SampledFrom(vc19IDs).Draw(t, "enc")
			o.req.Method = tm.method

			// The first two are always forwardable; later ones may be requests
			// that must be answered locally while the others are in flight
			// (exactly one component of a documented shape changed).
			if i >= 2 && rapid.IntRange(0, 4).Draw(t, "local-member") == 0 {
				o.local404 = true
				o.shape = "local"
				switch rapid.IntRange(0, 5).Draw(t, "local-kind") {
				case 0:
					o.req.Method = rapid.SampledFrom([]string{"DELETE", "PUT", "HEAD", "get", "post"}).Draw(t, "local-method")
				case 1:
					segs = append(segs, "more")
					if len(segs) == 4 {
						segs = append(segs, "stuff")
					}
				case 2:
					segs[0] += "x"
				case 3:
					segs = segs[:2]
				case 4:
					if o.req.Method == http.MethodGet {
						segs[0] = "ddns"
					} else {
						o.req.Method, segs = http.MethodPost, []string{"linkip", o.tag, "enc", "status"}
					}
				default:
					segs[2] = ".."
				}
			} else {
				nFwd++
				if rapid.IntRange(0, 3).Draw(t, "backend-redirects") == 0 {
					o.plan = vc19Plan{
						Status: rapid.SampledFrom([]int{301, 302, 303, 307, 308}).Draw(t, "redirect-status"),
						Location: rapid.SampledFrom([]string{
							"/account", "/", "/linkip/dev9/enc9", bsrv.URL + "/account", bsrv.URL + "/ddns/dev9/enc9/example.org",
						}).Draw(t, "redirect-target"),
					}
					plans[o.tag] = o.plan
				}
			}

			o.req.RawPath = "/" + strings.Join(segs, "/")
			o.req.Target = o.req.RawPath
			if rapid.IntRange(0, 3).Draw(t, "query") == 0 {
				o.req.Target += "?x=" + o.tag
			}

			if o.req.Method == http.MethodPost {
				o.req.Body = rapid.SampledFrom([]string{"", "ip=203.0.113.7"}).Draw(t, "body")
			}

			vc19GenHeaders(t, o.req)
			anyForged = anyForged || len(o.req.Forged) > 0

			o.wire = o.req.vc19Bytes(o.tag)
			ones[i] = o
		}

		tapGate, backGate := vc19NewGate(k), vc19NewGate(nFwd)
		if old := backend.arm(backGate, plans); len(old) != 0 {
			t.Fatalf("harness anomaly: backend got %d requests between rounds: %+v", len(old), old)
		}

		fr.tap.arm(tapGate)
		errs.take()

		// Connect first, so that only the request itself is in the timed part.
		closeAll := func() {
			for _, o := range ones {
				if o.conn != nil {
					if tc, ok := o.conn.(*net.TCPConn); ok {
						_ = tc.SetLinger(0)
					}

					_ = o.conn.Close()
				}
			}
		}
		defer closeAll()

		for _, o := range ones {
			d := &net.Dialer{Timeout: 10 * time.Second}
			if o.local != nil {
				d.LocalAddr = &net.TCPAddr{IP: o.local}
			}

			c, err := d.Dial("tcp", o.addr)
			if err != nil {
				fmt.Printf("VERIF-INCONCLUSIVE: cannot connect to the front server: %v\n", err)
				t.Fatalf("VERIF-INCONCLUSIVE: dial: %v", err)
			}

			o.conn = c
			la, _ := netip.ParseAddrPort(c.LocalAddr().String())
			o.peer = la.Addr().Unmap().WithZone("")
		}

		start := make(chan struct{})
		wg := &sync.WaitGroup{}
		for _, o := range ones {
			wg.Add(1)
			go func(o *vc19COne) {
				defer wg.Done()

				<-start
				o.resp, o.tmo, o.err = vc19Exchange(o.conn, o.req.Method, o.wire)
			}(o)
		}

		close(start)
		wg.Wait()

		recs := backend.arm(nil, nil)
		fr.tap.arm(nil)
		perrs := errs.take()
		tapArrived, tapTimedOut := tapGate.stats()
		backArrived, _ := backGate.stats()

		desc := func(o *vc19COne) string {
			return fmt.Sprintf("request %q from %s peer %s (round of %d to front base=%q; %d aligned at the handler, %d simultaneously inside the backend)",
				o.wire, o.fam, o.peer, k, fr.base, tapArrived, backArrived)
		}

		for _, o := range ones {
			if o.tmo {
				fmt.Printf("VERIF-INCONCLUSIVE: time-out talking to the front server: %v (%s)\n", o.err, desc(o))
				t.Fatalf("VERIF-INCONCLUSIVE: time-out: %v", o.err)
			}
		}

		if tapTimedOut || tapArrived != k {
			fmt.Printf("VERIF-INCONCLUSIVE: only %d of %d requests reached the handler within the time-out\n", tapArrived, k)
			t.Fatalf("VERIF-INCONCLUSIVE: handler barrier: %d of %d", tapArrived, k)
		}

		if len(perrs) != 0 {
			fmt.Printf("VERIF-INCONCLUSIVE: proxy could not reach the recording backend: %v\n", perrs)
			t.Fatalf("VERIF-INCONCLUSIVE: proxy error: %v", perrs)
		}

		byTag := map[string][]vc19Rec{}
		for _, rec := range recs {
			segs := strings.Split(strings.TrimPrefix(rec.Path, fr.base+"/"), "/")
			tag := ""
			if len(segs) > 1 {
				tag = segs[1]
			}

			byTag[tag] = append(byTag[tag], rec)
		}

		forwarded, nLocal, nRedirect := 0, 0, 0
		peersAtBackend := map[netip.Addr]struct{}{}
		for _, o := range ones {
			if o.err != nil {
				t.Fatalf("no readable response: %v; %s", o.err, desc(o))
			}

			rs := byTag[o.tag]
			delete(byTag, o.tag)
			if o.local404 {
				if len(rs) != 0 {
					t.Fatalf("backend contacted with %s %q for a request that is none of the four documented shapes; %s", rs[0].Method, rs[0].URI, desc(o))
				}

				if o.resp.Status != http.StatusNotFound {
					t.Fatalf("not forwarded, but answered with status %d body %q instead of 404; %s", o.resp.Status, o.resp.Body, desc(o))
				}

				nLocal++

				continue
			}

			if len(rs) == 0 {
				// Whether a valid shape must be forwarded is not part of the
				// property; counted only.
				st.Class("not-forwarded")

				continue
			}

			if len(rs) > 1 {
				t.Fatalf("backend contacted %d times for one client request: %s; %s", len(rs), vc19RecList(rs), desc(o))
			}

			if o.plan.redirect() {
				// What the client gets for a redirecting backend is not part of
				// the statement; only what reaches the backend is judged.
				nRedirect++
			}

			forwarded++
			peersAtBackend[o.peer] = struct{}{}
			rec := rs[0]
			rawBackendPath, _, _ := strings.Cut(rec.URI, "?")
			if rec.Method != o.req.Method || rec.Path != fr.base+o.req.RawPath || rawBackendPath != fr.base+o.req.RawPath {
				t.Fatalf("backend saw %s %q for a client request %s %q; %s", rec.Method, rec.URI, o.req.Method, o.req.Target, desc(o))
			}

			if rec.CaseID != o.tag {
				t.Fatalf("backend request for %q carries the headers of request %q: %v; %s", o.tag, rec.CaseID, rec.Hdr, desc(o))
			}

			cip := rec.Hdr.Values("X-Connecting-Ip")
			if len(cip) != 1 {
				t.Fatalf("forwarded request carries X-Connecting-IP values %q, want exactly the peer address %s; backend headers %v; %s",
					cip, o.peer, rec.Hdr, desc(o))
			}

			got, perr := netip.ParseAddr(cip[0])
			if perr != nil || got.Unmap().WithZone("") != o.peer {
				t.Fatalf("forwarded request carries X-Connecting-IP %q, but its connecting peer is %s (peers in this round: %s); backend headers %v; %s",
					cip[0], o.peer, vc19Peers(ones), rec.Hdr, desc(o))
			}

			if name, v, bad := vc19ForgedAtBackend(o.req, rec.Hdr); bad {
				t.Fatalf("forwarded request carries client-supplied %s: %q; backend headers %v; %s", name, v, rec.Hdr, desc(o))
			}
		}

		for tag, rs := range byTag {
			t.Fatalf("backend got requests that no client of this round sent, e.g. a redirect followed by the proxy (tag %q): %s; round of %d to front base=%q",
				tag, vc19RecList(rs), k, fr.base)
		}

		// Statistics.
		classes := []string{"k=" + strconv.Itoa(k), "overlap=" + strconv.Itoa(backArrived)}
		if k >= 5 {
			classes = append(classes, "k>=5")
		}

		if anyForged {
			classes = append(classes, "forged-header-in-round")
		}

		has4, has6 := false, false
		for _, o := range ones {
			has4 = has4 || o.fam == "ipv4"
			has6 = has6 || o.fam == "ipv6"
		}

		if has4 && has6 {
			classes = append(classes, "round-has-ipv4-and-ipv6")
		}

		if nLocal > 0 {
			classes = append(classes, "round-has-locally-answered-member")
		}

		if nRedirect > 0 {
			classes = append(classes, "backend-answered-with-a-redirect")
		}

		key := ""
		if backArrived >= 2 && forwarded >= 2 && len(peersAtBackend) >= 2 {
			classes = append(classes, "overlap>=2-distinct-peers")
			if backArrived == nFwd {
				classes = append(classes, "overlap=all")
			}

			ids := make([]string, 0, k)
			for _, o := range ones {
				ids = append(ids, o.req.vc19Key(o.peer.String()+" "+o.shape))
			}

			sort.Strings(ids)
			key = fr.base + "|" + strings.Join(ids, "|")
			key = strings.ReplaceAll(key, "r"+strconv.Itoa(round)+"q", "q")
		}

		st.Case(key, classes...)
		if st.WantSample() && key != "" {
			st.Sample(map[string]any{"k": k, "base": fr.base, "peers": vc19Peers(ones), "overlap_at_backend": backArrived})
		}
	})
}

func vc19Peers(ones []*vc19COne) (s string) {
	ps := make([]string, 0, len(ones))
	for _, o := range ones {
		ps = append(ps, o.peer.String())
	}

	return strings.Join(ps, ",")
}

// vc19Exchange writes raw to an established connection and reads one response.
func vc19Exchange(conn net.Conn, method string, raw []byte) (resp vc19Resp, timedOut bool, err error) {
	_ = conn.SetDeadline(time.Now().Add(30 * time.Second))
	if _, err = conn.Write(raw); err != nil {
		return resp, vc19IsTimeout(err), fmt.Errorf("writing: %w", err)
	}

	hr, err := http.ReadResponse(bufio.NewReader(conn), &http.Request{Method: method})
	if err != nil {
		return resp, vc19IsTimeout(err), fmt.Errorf("reading response: %w", err)
	}

	body, err := io.ReadAll(hr.Body)
	_ = hr.Body.Close()
	if err != nil {
		return resp, vc19IsTimeout(err), fmt.Errorf("reading body: %w", err)
	}

	resp.Status = hr.StatusCode
	resp.Body = string(body)
	resp.Location = hr.Header.Get("Location")

	return resp, false, nil
}
