//go:build verif

package websvc

// C19: the linked-IP proxy forwards only its API and only with the real client
// address.  See /verif/DESIGN.md, section 3, C19.
//
// Two parts share one request generator and one path oracle:
//
//   - wire:   linkedIPHandler behind a real http.Server on loopback (IPv4 and
//     IPv6 listeners, two target URLs: with and without a base path), a raw TCP
//     client (nothing normalises the request line), a recording backend.
//   - decide: shouldProxy on the path net/url makes of the same raw targets
//     (cheap, so the path space is searched much more widely).

import (
	"bufio"
	"bytes"
	"context"
	"crypto/ecdsa"
	"crypto/elliptic"
	crand "crypto/rand"
	"crypto/tls"
	"crypto/x509"
	"crypto/x509/pkix"
	"errors"
	"fmt"
	"io"
	"math/big"
	"net"
	"net/http"
	"net/http/httptest"
	"net/netip"
	"net/url"
	"path"
	"sort"
	"strconv"
	"strings"
	"sync"
	"testing"
	"time"

	"github.com/AdguardTeam/AdGuardDNS/internal/agdhttp"
	"pgregory.net/rapid"
	"verif.local/harness/vstat"
)

// Finding identities (see known_findings.json protocol in HARNESS_GUIDE.md).
const (
	// A forwarded path leaves /linkip/ or /ddns/ after dot-segment
	// normalisation (under every reading the oracle knows).
	vc19KnownDotSeg = "linkip-dot-segment-escape"

	// The client names X-Connecting-IP in its Connection header and the
	// backend receives the request without any client-IP header.
	vc19KnownHopByHop = "linkip-client-ip-hop-by-hop"
)

// ---------------------------------------------------------------------------
// path oracle

// vc19RemoveDots is RFC 3986, section 5.2.4 (remove_dot_segments) for a path
// that starts with a slash.  Unlike path.Clean it keeps empty segments and a
// trailing slash.
func vc19RemoveDots(p string) (res string) {
	if !strings.HasPrefix(p, "/") {
		return p
	}

	segs := strings.Split(p[1:], "/")
	out := make([]string, 0, len(segs))
	for i, s := range segs {
		last := i == len(segs)-1
		switch s {
		case ".":
			if last {
				out = append(out, "")
			}
		case "..":
			if len(out) > 0 {
				out = out[:len(out)-1]
			}

			if last {
				out = append(out, "")
			}
		default:
			out = append(out, s)
		}
	}

	return "/" + strings.Join(out, "/")
}

// vc19IsUnreserved reports whether c is an RFC 3986 unreserved character.
func vc19IsUnreserved(c byte) (ok bool) {
	return c >= 'a' && c <= 'z' || c >= 'A' && c <= 'Z' || c >= '0' && c <= '9' ||
		c == '-' || c == '.' || c == '_' || c == '~'
}

func vc19Unhex(c byte) (v int) {
	switch {
	case c >= '0' && c <= '9':
		return int(c - '0')
	case c >= 'a' && c <= 'f':
		return int(c-'a') + 10
	case c >= 'A' && c <= 'F':
		return int(c-'A') + 10
	default:
		return -1
	}
}

// vc19DecodeUnreserved decodes only the percent-escapes of unreserved
// characters (RFC 3986, 6.2.2.2); %2F, %00 and the like stay as they are.
func vc19DecodeUnreserved(raw string) (res string) {
	var b strings.Builder
	for i := 0; i < len(raw); i++ {
		if raw[i] == '%' && i+2 < len(raw) {
			hi, lo := vc19Unhex(raw[i+1]), vc19Unhex(raw[i+2])
			if hi >= 0 && lo >= 0 && vc19IsUnreserved(byte(hi<<4|lo)) {
				b.WriteByte(byte(hi<<4 | lo))
				i += 2

				continue
			}
		}

		b.WriteByte(raw[i])
	}

	return b.String()
}

// vc19Shape returns the documented shape that rest ("/seg/seg/...", relative
// to the target's base path) has for method, or "".  Placeholders are single
// path segments; the oracle does not require them to be non-empty.
func vc19Shape(method, rest string) (shape, kw string) {
	if !strings.HasPrefix(rest, "/") {
		return "", ""
	}

	segs := strings.Split(rest[1:], "/")
	n := len(segs)
	switch method {
	case http.MethodGet:
		if segs[0] == "linkip" && n == 3 {
			return "get-linkip", "linkip"
		} else if segs[0] == "linkip" && n == 4 && segs[3] == "status" {
			return "get-linkip-status", "linkip"
		}
	case http.MethodPost:
		if segs[0] == "linkip" && n == 3 {
			return "post-linkip", "linkip"
		} else if segs[0] == "ddns" && n == 4 {
			return "post-ddns", "ddns"
		}
	}

	return "", ""
}

// vc19PathVerdict is what the oracle says about a path that reached (or would
// reach) the backend.
type vc19PathVerdict struct {
	// Shape is the documented shape, "" if none.
	Shape string

	// EscapesAll: the path is outside <base>/<kw>/ under every combination of
	// {fully decoded, only unreserved escapes decoded} x {RFC 3986
	// remove_dot_segments, path.Clean}.  Only this is a violation.
	EscapesAll bool

	// EscapesSome: outside under at least one of them (reading-dependent,
	// counted but not judged).
	EscapesSome bool

	// Norms are the normalised forms, for messages.
	Norms []string
}

// vc19JudgePath judges the path of a forwarded request.  decoded is the
// backend's r.URL.Path, rawEsc the path as it was on the wire to the backend,
// base the path of the target URL ("" or "/x").
func vc19JudgePath(method, base, decoded, rawEsc string) (v vc19PathVerdict) {
	if method != http.MethodGet && method != http.MethodPost {
		return v
	}

	semi := vc19DecodeUnreserved(rawEsc)

	var kw string
	for _, form := range []string{decoded, semi} {
		if !strings.HasPrefix(form, base+"/") {
			continue
		}

		if s, k := vc19Shape(method, form[len(base):]); s != "" {
			v.Shape, kw = s, k

			break
		}
	}

	if v.Shape == "" {
		return v
	}

	prefix := base + "/" + kw + "/"
	v.EscapesAll = true
	for _, form := range []string{decoded, semi} {
		for _, norm := range []string{vc19RemoveDots(form), path.Clean(form)} {
			v.Norms = append(v.Norms, norm)
			if strings.HasPrefix(norm, prefix) {
				v.EscapesAll = false
			} else {
				v.EscapesSome = true
			}
		}
	}

	return v
}

// ---------------------------------------------------------------------------
// generator

// vc19Req is one generated request.
type vc19Req struct {
	Method   string
	Target   string // request-target as written on the wire
	RawPath  string // path part of Target
	Proto    string // HTTP/1.1 or HTTP/1.0
	Headers  [][2]string
	Body     string
	Template string // the valid shape the path was derived from, or "free"
	Mutated  int    // number of mutations applied to the template

	// What the client did, for the oracle and the statistics.
	Forged       []string // canonical names of forged forwarding headers
	ConnListsCIP bool     // Connection names X-Connecting-IP

	// ConnFirstEmptyLaterCIP: several Connection lines, the first one empty
	// or white space only, a later one names X-Connecting-IP.
	ConnFirstEmptyLaterCIP bool

	// RepeatedLine: some header name occurs on more than one line.
	RepeatedLine   bool
	SentOwnCIP     bool // client sent X-Connecting-IP itself
	HasConnHeader  bool
	PathClasses    []string
	AbsoluteTarget bool

	// Self is the client's own address ("" if unknown); forged values never
	// equal it.
	Self string

	// Sent are the values the client sent per canonical forwarding header.
	Sent map[string][]string

	// ZeroForged: some forged value is empty / a zero address / another
	// peer's loopback address instead of a documentation-range marker.
	ZeroForged bool

	// Chunked: the body is sent with chunked transfer coding; TrailerForged:
	// with forged client-IP fields in the trailer section.
	Chunked       bool
	TrailerForged bool

	// Query is the query part of Target including the question mark.
	Query string

	// Variant names the single component in which this request differs from
	// the previous one on the connection, "" if it was drawn afresh.
	Variant string
}

var vc19IDs = []string{"dev1234", "0123456789abcdef", "a", "b", "example.com", "x-y_z~1", "0"}

var vc19Specials = []string{
	"", "", ".", "..", "..", "%2e%2e", "%2E%2E", ".%2e", "%2e.", "%2e", "...",
	"%2F", "%2f", "a%2Fb", "..%2Fx", "..%2F..", "%2e%2e%2Fx", "%5C..", "..\\x",
	"%00", "a%00b", "%zz", "%", "%252e%252e",
	"dévice", "%C3%A9", "․․", "．．",
	"linkip", "ddns", "status", "robots.txt", "LINKIP", "Linkip", "linkipx", "xlinkip", "ddnsx", "DDNS",
	"linkip%2Fa", "%6cinkip", "%64dns", "statu%73", "Status", "status.", "status%2F..",
	";x", "a;b=c", "a b", "a?b", "a#b", "a:b", "@", "*",
}

// vc19DotSegs are spellings of dot segments.
var vc19DotSegs = []string{"..", "..", "..", "%2e%2e", ".%2e", "%2E.", "%2E%2e", ".", "%2e"}

func vc19Long(t *rapid.T) (s string) {
	n := rapid.SampledFrom([]int{64, 255, 256, 1024}).Draw(t, "longlen")

	return strings.Repeat("a", n)
}

func vc19Seg(t *rapid.T, label string) (s string) {
	switch k := rapid.IntRange(0, 19).Draw(t, label+"-kind"); {
	case k < 8:
		return rapid.SampledFrom(vc19IDs).Draw(t, label+"-id")
	case k < 11:
		return rapid.SampledFrom([]string{"linkip", "ddns", "status"}).Draw(t, label+"-kw")
	case k < 19:
		return rapid.SampledFrom(vc19Specials).Draw(t, label+"-sp")
	default:
		return vc19Long(t)
	}
}

// vc19Templates are the four documented shapes plus the locally served paths.
var vc19Templates = []struct {
	name   string
	method string
	segs   []string
}{
	{"get-linkip", http.MethodGet, []string{"linkip", "dev1234", "0123456789abcdef"}},
	{"get-linkip-status", http.MethodGet, []string{"linkip", "dev1234", "0123456789abcdef", "status"}},
	{"post-linkip", http.MethodPost, []string{"linkip", "dev1234", "0123456789abcdef"}},
	{"post-ddns", http.MethodPost, []string{"ddns", "dev1234", "0123456789abcdef", "example.com"}},
	{"robots", http.MethodGet, []string{"robots.txt"}},
	{"root", http.MethodGet, []string{}},
}

var vc19OtherMethods = []string{
	"HEAD", "PUT", "DELETE", "PATCH", "OPTIONS", "TRACE", "CONNECT",
	"get", "post", "Get", "Post", "GETX", "POSTS", "XGET", "PROPFIND",
}

func vc19Method(t *rapid.T, preferred string) (m string) {
	switch k := rapid.IntRange(0, 9).Draw(t, "method-kind"); {
	case k < 6 && preferred != "":
		return preferred
	case k < 8:
		return rapid.SampledFrom([]string{http.MethodGet, http.MethodPost}).Draw(t, "method-gp")
	default:
		return rapid.SampledFrom(vc19OtherMethods).Draw(t, "method-other")
	}
}

// vc19GenPath draws the path segments.
func vc19GenPath(t *rapid.T, r *vc19Req) (segs []string, preferred string) {
	if rapid.IntRange(0, 99).Draw(t, "path-mode") < 60 {
		// The four proxied shapes three times as often as the local ones.
		ti := rapid.SampledFrom([]int{0, 0, 0, 1, 1, 1, 2, 2, 2, 3, 3, 3, 4, 5}).Draw(t, "template")
		tm := vc19Templates[ti]
		r.Template = tm.name
		preferred = tm.method
		segs = append(segs, tm.segs...)

		// Fresh identifiers in the placeholder positions.
		for i := 1; i < len(segs) && i < 3; i++ {
			segs[i] = rapid.SampledFrom(vc19IDs).Draw(t, "tmpl-id")
		}

		r.Mutated = rapid.SampledFrom([]int{0, 0, 0, 1, 1, 1, 2, 3}).Draw(t, "mutations")
		for m := 0; m < r.Mutated; m++ {
			switch op := rapid.IntRange(0, 8).Draw(t, "mut-op"); {
			case op == 6 && len(segs) > 0: // replace a run of segments by dot segments
				i := rapid.IntRange(0, len(segs)-1).Draw(t, "mut-pos")
				k := rapid.IntRange(1, 3).Draw(t, "dot-run")
				for j := i; j < len(segs) && j < i+k; j++ {
					segs[j] = rapid.SampledFrom(vc19DotSegs).Draw(t, "dot-seg")
				}
			case op == 7: // insert a traversal: k dot segments, perhaps followed by a target
				i := rapid.IntRange(0, len(segs)).Draw(t, "mut-pos")
				k := rapid.IntRange(1, 3).Draw(t, "dot-run")
				ins := make([]string, 0, k+1)
				for j := 0; j < k; j++ {
					ins = append(ins, rapid.SampledFrom(vc19DotSegs).Draw(t, "dot-seg"))
				}

				if rapid.Bool().Draw(t, "dot-target") {
					ins = append(ins, rapid.SampledFrom([]string{"secret", "linkip", "ddns", "admin"}).Draw(t, "dot-target-seg"))
				}

				segs = append(segs[:i], append(ins, segs[i:]...)...)
			case op == 8 && len(segs) > 0: // a near-miss of the keyword
				kw := segs[0]
				segs[0] = rapid.SampledFrom([]string{
					kw + "x", "x" + kw, strings.ToUpper(kw), kw + "%2F", kw + ".", kw + ";a", "%6c" + strings.TrimPrefix(kw, "l"),
					kw + "%00", kw + "s", strings.TrimSuffix(kw, "p"),
				}).Draw(t, "kw-variant")
			case op <= 1 && len(segs) > 0: // replace
				i := rapid.IntRange(0, len(segs)-1).Draw(t, "mut-pos")
				segs[i] = vc19Seg(t, "mut-seg")
			case op <= 3: // insert
				i := rapid.IntRange(0, len(segs)).Draw(t, "mut-pos")
				s := vc19Seg(t, "mut-seg")
				segs = append(segs[:i], append([]string{s}, segs[i:]...)...)
			case op == 4 && len(segs) > 0: // delete
				i := rapid.IntRange(0, len(segs)-1).Draw(t, "mut-pos")
				segs = append(segs[:i], segs[i+1:]...)
			default: // append
				segs = append(segs, vc19Seg(t, "mut-seg"))
			}
		}

		return segs, preferred
	}

	r.Template = "free"
	n := rapid.IntRange(0, 6).Draw(t, "nsegs")
	for i := 0; i < n; i++ {
		if i == 0 && rapid.IntRange(0, 9).Draw(t, "first-kw") < 6 {
			segs = append(segs, rapid.SampledFrom([]string{"linkip", "ddns"}).Draw(t, "first"))

			continue
		}

		segs = append(segs, vc19Seg(t, "seg"))
	}

	return segs, ""
}

// vc19PathClasses classifies a raw path.
func vc19PathClasses(raw string) (cls []string, interesting bool) {
	low := strings.ToLower(raw)
	segs := strings.Split(strings.TrimPrefix(raw, "/"), "/")
	has := func(f func(s string) bool) bool {
		for _, s := range segs {
			if f(s) {
				return true
			}
		}

		return false
	}

	if has(func(s string) bool { return s == "." || s == ".." }) {
		cls = append(cls, "path:dot-segment")
	}

	if has(func(s string) bool {
		d := vc19DecodeUnreserved(s)

		return s != d && (d == "." || d == "..")
	}) {
		cls = append(cls, "path:encoded-dot-segment")
	}

	if strings.Contains(low, "%2f") {
		cls = append(cls, "path:encoded-slash")
	}

	if strings.Contains(low, "%00") {
		cls = append(cls, "path:encoded-nul")
	}

	if strings.Contains(raw, "%") && len(cls) == 0 {
		cls = append(cls, "path:other-escape")
	}

	if len(segs) > 1 && has(func(s string) bool { return s == "" }) || strings.HasPrefix(raw, "//") {
		cls = append(cls, "path:empty-segment")
	}

	if strings.HasPrefix(raw, "//") {
		cls = append(cls, "path:leading-double-slash")
	}

	if len(raw) > 1 && strings.HasSuffix(raw, "/") {
		cls = append(cls, "path:trailing-slash")
	}

	for i := 0; i < len(raw); i++ {
		if raw[i] >= 0x80 {
			cls = append(cls, "path:non-ascii")

			break
		}
	}

	if len(raw) > 200 {
		cls = append(cls, "path:long")
	}

	return cls, len(cls) > 0
}

var vc19FwdNames = []string{
	"Cf-Connecting-Ip", "Forwarded", "True-Client-Ip", "X-Real-Ip",
	"X-Forwarded-For", "X-Forwarded-Host", "X-Forwarded-Proto", "X-Connecting-Ip",
}

// vc19WireName renders a canonical header name in one of the spellings a
// client may use.
func vc19WireName(t *rapid.T, canon string) (name string) {
	switch rapid.IntRange(0, 4).Draw(t, "hdr-case") {
	case 0:
		return strings.ToLower(canon)
	case 1:
		return strings.ToUpper(canon)
	case 2:
		b := []byte(strings.ToLower(canon))
		for i := 0; i < len(b); i += 2 {
			if b[i] >= 'a' && b[i] <= 'z' {
				b[i] -= 'a' - 'A'
			}
		}

		return string(b)
	default:
		return canon
	}
}

// vc19Marker draws an address that is never the address of a loopback peer.
func vc19Marker(t *rapid.T) (m string) {
	n := rapid.IntRange(1, 250).Draw(t, "marker-n")
	if rapid.Bool().Draw(t, "marker-v6") {
		return "2001:db8::" + strconv.FormatInt(int64(n), 16)
	}

	return "203.0.113." + strconv.Itoa(n)
}

// vc19HasMarker reports whether a header value carries a client-supplied
// marker.
func vc19HasMarker(v string) (ok bool) {
	low := strings.ToLower(v)

	return strings.Contains(low, "203.0.113.") || strings.Contains(low, "2001:db8:") ||
		strings.Contains(low, "vc19mark")
}

// vc19ZeroValue draws a forged value that is not a documentation-range marker:
// empty, a zero address, "unknown", or the loopback address of another peer.
func vc19ZeroValue(t *rapid.T, self string) (v string) {
	v = rapid.SampledFrom([]string{"", "0.0.0.0", "::", "0", "unknown", "127.0.0.1", "127.0.0.2", "::1", "127.0.0.9"}).Draw(t, "zero-value")
	if v == self {
		return "127.0.0.10"
	}

	return v
}

func vc19FwdValue(t *rapid.T, canon string) (v string) {
	m := vc19Marker(t)
	switch canon {
	case "Forwarded":
		if strings.Contains(m, ":") {
			return `for="[` + m + `]";proto=https;host=vc19mark.example`
		}

		return "for=" + m + ";proto=https;by=" + m
	case "X-Forwarded-Host":
		return "vc19mark.example"
	case "X-Forwarded-Proto":
		return "vc19mark"
	case "X-Forwarded-For":
		if rapid.Bool().Draw(t, "xff-chain") {
			return m + ", " + vc19Marker(t)
		}

		return m
	default:
		return m
	}
}

// vc19GenHeaders draws the header set.
func vc19GenHeaders(t *rapid.T, r *vc19Req) {
	var hs [][2]string

	var chosen []string
	switch k := rapid.IntRange(0, 9).Draw(t, "forge-mode"); {
	case k < 2:
		// none
	case k < 4:
		chosen = append(chosen, vc19FwdNames...)
	case k < 6:
		chosen = append(chosen, "X-Connecting-Ip")
	default:
		for _, n := range vc19FwdNames {
			if rapid.IntRange(0, 2).Draw(t, "forge-"+n) == 0 {
				chosen = append(chosen, n)
			}
		}
	}

	for _, canon := range chosen {
		rep := 1
		if rapid.IntRange(0, 5).Draw(t, "hdr-repeat") == 0 {
			rep = 2
		}

		for i := 0; i < rep; i++ {
			v := vc19FwdValue(t, canon)
			if rapid.IntRange(0, 4).Draw(t, "forge-zero") == 0 {
				v = vc19ZeroValue(t, r.Self)
				r.ZeroForged = true
			}

			hs = append(hs, [2]string{vc19WireName(t, canon), v})
			if r.Sent == nil {
				r.Sent = map[string][]string{}
			}

			r.Sent[canon] = append(r.Sent[canon], v)
		}

		r.Forged = append(r.Forged, canon)
		if canon == "X-Connecting-Ip" {
			r.SentOwnCIP = true
		}
	}

	if rapid.Bool().Draw(t, "benign") {
		hs = append(hs, [2]string{"User-Agent", "vc19-client/1.0"})
		hs = append(hs, [2]string{"Accept", "*/*"})
		hs = append(hs, [2]string{"X-Custom", "not-a-forwarding-header"})
	}

	if len(hs) > 1 {
		perm := rapid.Permutation(hs).Draw(t, "hdr-order")
		hs = perm
	}

	// Connection: one to three header lines, kept in their drawn order among
	// the other headers.  A line is a token list, or empty / white space only
	// (which the parser trims to empty).  net/http and the reverse proxy read
	// ALL lines; code that asks Header.Get sees only the first.
	if rapid.IntRange(0, 9).Draw(t, "conn-hdr") < 5 {
		pool := []string{
			"close", "keep-alive", "X-Connecting-IP", "x-connecting-ip", "X-Request-ID",
			"CF-Connecting-IP", "X-Real-IP", "X-Forwarded-For", "User-Agent",
		}
		tokenLine := func(label string) string {
			toks := []string{}
			for _, p := range pool {
				if rapid.IntRange(0, 2).Draw(t, label+"-tok-"+p) == 0 {
					toks = append(toks, p)
				}
			}

			if len(toks) == 0 {
				toks = append(toks, "X-Connecting-IP")
			}

			return strings.Join(toks, rapid.SampledFrom([]string{", ", ",", " , "}).Draw(t, label+"-sep"))
		}
		emptyLine := func(label string) string {
			return rapid.SampledFrom([]string{"", "", " ", "   ", "\t", ","}).Draw(t, label+"-empty")
		}

		var lines []string
		switch mode := rapid.IntRange(0, 9).Draw(t, "conn-mode"); {
		case mode < 2:
			// The first line says nothing, a later one names the client-IP
			// header.
			lines = append(lines, emptyLine("conn0"))
			if rapid.Bool().Draw(t, "conn-mid") {
				lines = append(lines, rapid.SampledFrom([]string{"", "keep-alive", "close", "X-Real-IP"}).Draw(t, "conn-mid-line"))
			}

			lines = append(lines, rapid.SampledFrom([]string{
				"X-Connecting-IP", "x-connecting-ip", "X-CONNECTING-IP, X-Request-ID", "keep-alive, X-Connecting-Ip",
			}).Draw(t, "conn-last-line"))
		default:
			n := rapid.SampledFrom([]int{1, 1, 1, 2, 2, 3}).Draw(t, "conn-lines")
			for j := 0; j < n; j++ {
				label := "conn" + strconv.Itoa(j)
				if rapid.IntRange(0, 5).Draw(t, label+"-kind") == 0 {
					lines = append(lines, emptyLine(label))
				} else {
					lines = append(lines, tokenLine(label))
				}
			}
		}

		r.HasConnHeader = true
		pos := 0
		for j, line := range lines {
			pos = rapid.IntRange(pos, len(hs)).Draw(t, "conn-pos")
			name := "Connection"
			if j > 0 || rapid.Bool().Draw(t, "conn-name-case") {
				name = vc19WireName(t, "Connection")
			}

			hs = append(hs[:pos], append([][2]string{{name, line}}, hs[pos:]...)...)
			pos++

			names := false
			for _, tok := range strings.Split(line, ",") {
				if strings.EqualFold(strings.TrimSpace(tok), "X-Connecting-IP") {
					names = true
				}
			}

			if names {
				r.ConnListsCIP = true
				if j > 0 && strings.Trim(lines[0], " \t") == "" {
					r.ConnFirstEmptyLaterCIP = true
				}
			}
		}
	}

	seen := map[string]int{}
	for _, h := range hs {
		seen[strings.ToLower(h[0])]++
		if seen[strings.ToLower(h[0])] == 2 {
			r.RepeatedLine = true
		}
	}

	r.Headers = hs
}

// vc19GenReq draws a whole request from a client of unknown address.
func vc19GenReq(t *rapid.T) (r *vc19Req) {
	return vc19GenReqFor(t, "")
}

// vc19GenReqFor draws a whole request for the client with address self.
func vc19GenReqFor(t *rapid.T, self string) (r *vc19Req) {
	r = &vc19Req{Self: self}
	segs, preferred := vc19GenPath(t, r)
	r.Method = vc19Method(t, preferred)

	raw := "/" + strings.Join(segs, "/")
	switch rapid.IntRange(0, 19).Draw(t, "slashes") {
	case 0:
		raw = "/" + raw
	case 1, 2:
		raw += "/"
	case 3:
		raw = strings.TrimSuffix(raw, "/")
	}

	r.RawPath = raw
	switch rapid.IntRange(0, 9).Draw(t, "query") {
	case 0:
		r.Query = "?x=1"
	case 1:
		r.Query = "?/../../secret"
	case 2:
		r.Query = "?"
	case 3:
		r.Query = "?next=/linkip/a/b&y=%2e%2e"
	}

	r.AbsoluteTarget = rapid.IntRange(0, 14).Draw(t, "absolute-form") == 0
	r.vc19SetTarget()

	r.Proto = "HTTP/1.1"
	if rapid.IntRange(0, 9).Draw(t, "http10") == 0 {
		r.Proto = "HTTP/1.0"
	}

	if r.Method == http.MethodPost || r.Method == http.MethodPut || rapid.IntRange(0, 9).Draw(t, "body-any") == 0 {
		r.Body = rapid.SampledFrom([]string{"", "", "ip=203.0.113.7", "{}"}).Draw(t, "body")
		if r.Proto == "HTTP/1.1" && rapid.IntRange(0, 3).Draw(t, "chunked") == 0 {
			r.Chunked = true
			r.TrailerForged = rapid.Bool().Draw(t, "trailer")
		}
	}

	vc19GenHeaders(t, r)

	return r
}

// vc19SetTarget derives the request-target and the path classes from RawPath,
// Query and AbsoluteTarget.
func (r *vc19Req) vc19SetTarget() {
	r.Target = r.RawPath + r.Query
	if r.AbsoluteTarget {
		r.Target = "http://other.example" + r.Target
	}

	// A question mark inside a drawn segment starts the query.
	onlyPath, _, _ := strings.Cut(r.RawPath, "?")
	r.PathClasses, _ = vc19PathClasses(onlyPath)
}

// vc19Vary returns a request that differs from prev in exactly one component
// which the proxy must tell apart (method, one segment, arity, keyword,
// spelling, header set).
func vc19Vary(t *rapid.T, prev *vc19Req) (r *vc19Req) {
	c := *prev
	r = &c
	r.Mutated = prev.Mutated + 1
	if r.Proto != "HTTP/1.1" {
		r.Proto = "HTTP/1.1"
	}

	raw := prev.RawPath
	switch op := rapid.IntRange(0, 8).Draw(t, "vary-op"); op {
	case 0:
		r.Variant = "method-swap"
		switch prev.Method {
		case http.MethodGet:
			r.Method = http.MethodPost
		default:
			r.Method = http.MethodGet
		}
	case 1:
		r.Variant = "method-spelling"
		r.Method = rapid.SampledFrom([]string{strings.ToLower(prev.Method), http.MethodHead, prev.Method + "X", "PUT"}).Draw(t, "vary-method")
	case 2:
		r.Variant = "toggle-status"
		if strings.HasSuffix(raw, "/status") {
			raw = strings.TrimSuffix(raw, "/status")
		} else {
			raw = strings.TrimSuffix(raw, "/") + "/status"
		}
	case 3:
		r.Variant = "swap-keyword"
		switch {
		case strings.HasPrefix(raw, "/linkip/"):
			raw = "/ddns/" + strings.TrimPrefix(raw, "/linkip/")
		case strings.HasPrefix(raw, "/ddns/"):
			raw = "/linkip/" + strings.TrimPrefix(raw, "/ddns/")
		default:
			raw = "/linkip" + raw
		}
	case 4:
		r.Variant = "one-more-segment"
		raw = strings.TrimSuffix(raw, "/") + "/" + vc19Seg(t, "vary-seg")
	case 5:
		r.Variant = "one-segment-less"
		if i := strings.LastIndex(strings.TrimSuffix(raw, "/"), "/"); i > 0 {
			raw = raw[:i]
		} else {
			raw = "/"
		}
	case 6:
		r.Variant = "header-set"
		r.Forged, r.Sent, r.ZeroForged = nil, nil, false
		r.ConnListsCIP, r.SentOwnCIP, r.HasConnHeader = false, false, false
		r.ConnFirstEmptyLaterCIP, r.RepeatedLine = false, false
		vc19GenHeaders(t, r)
	case 7:
		r.Variant = "keyword-spelling"
		switch {
		case strings.HasPrefix(raw, "/linkip"):
			raw = rapid.SampledFrom([]string{"/%6cinkip", "/LINKIP", "/linkip%2F", "/linkipx", "//linkip"}).Draw(t, "vary-kw") +
				strings.TrimPrefix(raw, "/linkip")
		case strings.HasPrefix(raw, "/ddns"):
			raw = rapid.SampledFrom([]string{"/%64dns", "/DDNS", "/ddns%2F", "/ddnsx", "//ddns"}).Draw(t, "vary-kw") +
				strings.TrimPrefix(raw, "/ddns")
		default:
			raw = "/" + strings.ToUpper(strings.TrimPrefix(raw, "/"))
		}
	default:
		r.Variant = "dot-for-id"
		segs := strings.Split(strings.TrimPrefix(raw, "/"), "/")
		i := rapid.IntRange(0, len(segs)-1).Draw(t, "vary-pos")
		segs[i] = rapid.SampledFrom(vc19DotSegs).Draw(t, "vary-dot")
		raw = "/" + strings.Join(segs, "/")
	}

	r.RawPath = raw
	r.vc19SetTarget()
	if r.Method != http.MethodPost && r.Method != http.MethodPut {
		r.Body, r.Chunked, r.TrailerForged = "", false, false
	}

	return r
}

// vc19Bytes renders the request for the wire.
func (r *vc19Req) vc19Bytes(caseID string) (b []byte) {
	var buf bytes.Buffer
	fmt.Fprintf(&buf, "%s %s %s\r\n", r.Method, r.Target, r.Proto)
	buf.WriteString("Host: link-ip.example\r\n")
	fmt.Fprintf(&buf, "X-Vc19-Case: %s\r\n", caseID)
	for _, h := range r.Headers {
		fmt.Fprintf(&buf, "%s: %s\r\n", h[0], h[1])
	}

	if r.Chunked {
		buf.WriteString("Transfer-Encoding: chunked\r\n")
		if r.TrailerForged {
			buf.WriteString("Trailer: X-Connecting-Ip, Cf-Connecting-Ip\r\n")
		}

		buf.WriteString("\r\n")
		if r.Body != "" {
			fmt.Fprintf(&buf, "%x\r\n%s\r\n", len(r.Body), r.Body)
		}

		buf.WriteString("0\r\n")
		if r.TrailerForged {
			buf.WriteString("X-Connecting-Ip: 203.0.113.99\r\nCf-Connecting-Ip: 2001:db8::99\r\n")
		}

		buf.WriteString("\r\n")

		return buf.Bytes()
	}

	if r.Body != "" || r.Method == http.MethodPost || r.Method == http.MethodPut {
		fmt.Fprintf(&buf, "Content-Length: %d\r\n", len(r.Body))
	}

	buf.WriteString("\r\n")
	buf.WriteString(r.Body)

	return buf.Bytes()
}

// vc19Key is the identity of a request for the distinct-non-trivial count.
func (r *vc19Req) vc19Key(extra string) (k string) {
	hs := make([]string, 0, len(r.Headers))
	for _, h := range r.Headers {
		hs = append(hs, strings.ToLower(h[0]))
	}

	sort.Strings(hs)

	if r.Chunked {
		extra += " chunked"
	}

	return r.Method + " " + r.Target + " " + r.Proto + " [" + strings.Join(hs, ",") + "] " + extra
}

// ---------------------------------------------------------------------------
// fixture

type vc19Rec struct {
	Method  string
	URI     string
	Path    string
	Host    string
	CaseID  string
	Hdr     http.Header
	Trailer http.Header

	// Srv is the harness listener that received the request: "backend" (the
	// proxy's target) or "other" (a listener the proxy has no business with).
	Srv string
}

// vc19Plan is how the backend answers the next request it receives.
type vc19Plan struct {
	Status   int
	Location string
	Kind     string // class label of the Location target, "" if none
}

func (p vc19Plan) redirect() bool { return p.Status >= 300 && p.Status < 400 }

type vc19Backend struct {
	mu   sync.Mutex
	recs []vc19Rec

	// plan, if set, is consumed by the first request that arrives; whatever
	// arrives after it (nothing should) is answered with a plain 200.
	plan *vc19Plan
}

func (b *vc19Backend) setPlan(p *vc19Plan) {
	b.mu.Lock()
	defer b.mu.Unlock()

	b.plan = p
}

// vc19Other returns the handler of the other listener: it records into the
// same list and answers 200.
func (b *vc19Backend) vc19Other() (h http.Handler) {
	return http.HandlerFunc(func(w http.ResponseWriter, r *http.Request) {
		_, _ = io.Copy(io.Discard, r.Body)

		b.mu.Lock()
		b.recs = append(b.recs, vc19Rec{
			Method: r.Method,
			URI:    r.RequestURI,
			Path:   r.URL.Path,
			Host:   r.Host,
			CaseID: r.Header.Get("X-Vc19-Case"),
			Hdr:    r.Header.Clone(),
			Srv:    "other",
		})
		b.mu.Unlock()

		_, _ = io.WriteString(w, "vc19-other-listener")
	})
}

func (b *vc19Backend) ServeHTTP(w http.ResponseWriter, r *http.Request) {
	_, _ = io.Copy(io.Discard, r.Body)

	b.mu.Lock()
	b.recs = append(b.recs, vc19Rec{
		Method:  r.Method,
		URI:     r.RequestURI,
		Path:    r.URL.Path,
		Host:    r.Host,
		CaseID:  r.Header.Get("X-Vc19-Case"),
		Hdr:     r.Header.Clone(),
		Trailer: r.Trailer.Clone(),
		Srv:     "backend",
	})
	plan := b.plan
	b.plan = nil
	b.mu.Unlock()

	w.Header().Set("Content-Type", "text/plain")
	if plan == nil {
		_, _ = io.WriteString(w, "vc19-backend-ok")

		return
	}

	if plan.Location != "" {
		w.Header().Set("Location", plan.Location)
	}

	w.WriteHeader(plan.Status)
	if plan.Status != http.StatusNoContent {
		_, _ = io.WriteString(w, "vc19-backend-status")
	}
}

func (b *vc19Backend) take() (recs []vc19Rec) {
	b.mu.Lock()
	defer b.mu.Unlock()

	recs, b.recs = b.recs, nil

	return recs
}

type vc19Call struct {
	Method string
	Path   string
	Remote string
}

// vc19Tap records that the handler under test was invoked and with what.
type vc19Tap struct {
	h     http.Handler
	mu    sync.Mutex
	calls []vc19Call
}

func (p *vc19Tap) ServeHTTP(w http.ResponseWriter, r *http.Request) {
	p.mu.Lock()
	p.calls = append(p.calls, vc19Call{Method: r.Method, Path: r.URL.Path, Remote: r.RemoteAddr})
	p.mu.Unlock()

	p.h.ServeHTTP(w, r)
}

func (p *vc19Tap) take() (calls []vc19Call) {
	p.mu.Lock()
	defer p.mu.Unlock()

	calls, p.calls = p.calls, nil

	return calls
}

type vc19ErrColl struct {
	mu   sync.Mutex
	errs []string
}

func (c *vc19ErrColl) Collect(_ context.Context, err error) {
	c.mu.Lock()
	defer c.mu.Unlock()

	c.errs = append(c.errs, err.Error())
}

func (c *vc19ErrColl) take() (errs []string) {
	c.mu.Lock()
	defer c.mu.Unlock()

	errs, c.errs = c.errs, nil

	return errs
}

type vc19Front struct {
	base  string
	tls   bool
	tap   *vc19Tap
	addr4 string
	addr6 string // "" if IPv6 loopback is not available
}

type vc19Fixture struct {
	backend *vc19Backend
	errs    *vc19ErrColl
	fronts  []*vc19Front

	backendURL string // of the proxy's target server
	otherURL   string // of the other listener
}

// vc19NewServer returns the *http.Server that websvc.New builds for a linked_ip
// bind with the given target, i.e. the handler wired the way production wires
// it (with the production time-outs), to be served on the harness' listeners.
func vc19NewServer(
	t *testing.T,
	apiURL *url.URL,
	ec *vc19ErrColl,
	timeout time.Duration,
	tlsConf *tls.Config,
) (srv *http.Server) {
	svc := New(&Config{
		LinkedIP: &LinkedIPServer{
			TargetURL: apiURL,
			Bind:      []*BindData{{TLS: tlsConf, Address: netip.MustParseAddrPort("127.0.0.1:0")}},
		},
		StaticContent: http.NotFoundHandler(),
		ErrColl:       ec,
		Timeout:       timeout,
	})
	if svc == nil || len(svc.linkedIP) != 1 || svc.linkedIP[0].Handler == nil {
		t.Fatalf("harness: websvc.New did not build exactly one linked ip server")
	}

	return svc.linkedIP[0]
}

func vc19NewFixture(t *testing.T) (f *vc19Fixture) {
	f = &vc19Fixture{backend: &vc19Backend{}, errs: &vc19ErrColl{}}

	bsrv := httptest.NewServer(f.backend)
	t.Cleanup(bsrv.Close)

	osrv := httptest.NewServer(f.backend.vc19Other())
	t.Cleanup(osrv.Close)

	f.backendURL, f.otherURL = bsrv.URL, osrv.URL

	// Two plain binds (with and without a base path in the target) and one TLS
	// bind, served the way mustStartServer serves it: Serve on a TLS listener
	// made from the server's own TLS configuration.
	for _, fc := range []struct {
		base string
		tls  bool
	}{{"", false}, {"/base/v1", false}, {"", true}} {
		base := fc.base
		apiURL, err := url.Parse(bsrv.URL + base)
		if err != nil {
			t.Fatalf("harness: parsing backend url: %s", err)
		}

		var tlsConf *tls.Config
		if fc.tls {
			tlsConf = vc19ServerTLS(t)
		}

		srv := vc19NewServer(t, apiURL, f.errs, 10*time.Second, tlsConf)
		fr := &vc19Front{base: base, tls: fc.tls, tap: &vc19Tap{h: srv.Handler}}
		srv.Handler = fr.tap

		wg := &sync.WaitGroup{}
		l4, err := net.Listen("tcp4", "127.0.0.1:0")
		if err != nil {
			t.Fatalf("harness: listening on ipv4 loopback: %s", err)
		}

		// Decided before Serve runs: Serve itself installs an empty TLS
		// configuration on a plain server when it sets up HTTP/2.
		srvTLS := srv.TLSConfig
		wrap := func(l net.Listener) net.Listener {
			if srvTLS == nil {
				return l
			}

			return tls.NewListener(l, srvTLS)
		}

		fr.addr4 = l4.Addr().String()
		wg.Add(1)
		tl4 := wrap(l4)
		go func() { defer wg.Done(); _ = srv.Serve(tl4) }()

		if l6, err6 := net.Listen("tcp6", "[::1]:0"); err6 == nil {
			fr.addr6 = l6.Addr().String()
			wg.Add(1)
			tl6 := wrap(l6)
			go func() { defer wg.Done(); _ = srv.Serve(tl6) }()
		}

		t.Cleanup(func() {
			_ = srv.Close()
			wg.Wait()
		})

		f.fronts = append(f.fronts, fr)
	}

	return f
}

// vc19ServerTLS returns a server TLS configuration with a fresh self-signed
// certificate, HTTP/1.1 only.
func vc19ServerTLS(t *testing.T) (c *tls.Config) {
	key, err := ecdsa.GenerateKey(elliptic.P256(), crand.Reader)
	if err != nil {
		t.Fatalf("harness: generating key: %s", err)
	}

	tmpl := &x509.Certificate{
		SerialNumber: big.NewInt(19),
		Subject:      pkix.Name{CommonName: "link-ip.example"},
		NotBefore:    time.Now().Add(-time.Hour),
		NotAfter:     time.Now().Add(240 * time.Hour),
		KeyUsage:     x509.KeyUsageDigitalSignature,
		ExtKeyUsage:  []x509.ExtKeyUsage{x509.ExtKeyUsageServerAuth},
		DNSNames:     []string{"link-ip.example"},
	}

	der, err := x509.CreateCertificate(crand.Reader, tmpl, tmpl, &key.PublicKey, key)
	if err != nil {
		t.Fatalf("harness: creating certificate: %s", err)
	}

	return &tls.Config{
		Certificates: []tls.Certificate{{Certificate: [][]byte{der}, PrivateKey: key}},
		NextProtos:   []string{"http/1.1"},
		MinVersion:   tls.VersionTLS12,
	}
}

// vc19Client is a raw client that keeps its connection between requests the
// way a keep-alive client does, and reconnects when the server closed it.
type vc19Client struct {
	addr  string
	local net.IP
	tls   bool
	raw   net.Conn // the TCP connection
	conn  net.Conn // raw, or the TLS session over it
	br    *bufio.Reader
}

func (c *vc19Client) close() {
	if c.conn == nil {
		return
	}

	// Reset instead of FIN: no TIME_WAIT sockets pile up on the loopback
	// tuple; every response has been read completely by then.
	if tc, ok := c.raw.(*net.TCPConn); ok {
		_ = tc.SetLinger(0)
	}

	_ = c.raw.Close()
	c.raw, c.conn, c.br = nil, nil, nil
}

// do sends raw and reads one response.  reused tells whether an earlier
// request of the case went over the same connection.
func (c *vc19Client) do(method string, raw []byte) (resp vc19Resp, reused, timedOut bool, err error) {
	if c.conn == nil {
		d := &net.Dialer{Timeout: 10 * time.Second}
		if c.local != nil {
			d.LocalAddr = &net.TCPAddr{IP: c.local}
		}

		c.raw, err = d.Dial("tcp", c.addr)
		if err != nil {
			c.raw = nil

			return resp, false, vc19IsTimeout(err), fmt.Errorf("dialing: %w", err)
		}

		c.conn = c.raw
		if c.tls {
			_ = c.raw.SetDeadline(time.Now().Add(20 * time.Second))
			tc := tls.Client(c.raw, &tls.Config{InsecureSkipVerify: true, NextProtos: []string{"http/1.1"}})
			if err = tc.Handshake(); err != nil {
				c.conn = c.raw
				c.close()

				return resp, false, vc19IsTimeout(err), fmt.Errorf("tls handshake: %w", err)
			}

			c.conn = tc
		}

		c.br = bufio.NewReader(c.conn)
	} else {
		reused = true
	}

	la, _ := netip.ParseAddrPort(c.conn.LocalAddr().String())
	resp.Local = la.Addr().Unmap()

	_ = c.conn.SetDeadline(time.Now().Add(20 * time.Second))
	if _, err = c.conn.Write(raw); err != nil {
		c.close()

		return resp, reused, vc19IsTimeout(err), fmt.Errorf("writing: %w", err)
	}

	hr, err := http.ReadResponse(c.br, &http.Request{Method: method})
	if err != nil {
		c.close()

		return resp, reused, vc19IsTimeout(err), fmt.Errorf("reading response: %w", err)
	}

	body, err := io.ReadAll(hr.Body)
	_ = hr.Body.Close()
	if err != nil {
		c.close()

		return resp, reused, vc19IsTimeout(err), fmt.Errorf("reading body: %w", err)
	}

	resp.Status = hr.StatusCode
	resp.Body = string(body)
	resp.Location = hr.Header.Get("Location")
	if hr.Close || hr.ProtoMajor == 1 && hr.ProtoMinor == 0 || c.br.Buffered() > 0 {
		c.close()
	}

	return resp, reused, false, nil
}

// vc19Resp is what the client saw.
type vc19Resp struct {
	Status   int
	Body     string
	Location string
	Local    netip.Addr
}

func vc19IsTimeout(err error) (ok bool) {
	var ne net.Error

	return errors.As(err, &ne) && ne.Timeout()
}

// ---------------------------------------------------------------------------
// wire property

func TestVerifC19Wire(t *testing.T) {
	st := vstat.New("C19", "websvc.wire",
		"rapid-drawn sequences of 1-3 raw requests over one client connection (keep-alive, reconnecting when the server closes): request lines (method x path from mutated documented shapes or free segments incl. dot/encoded/empty segments x query x absolute-form x HTTP version x Content-Length or chunked body with forged trailer) and header sets (forged forwarding / client-IP headers in several spellings, repeated, with marker, empty, zero-address and other-peer values, one to three Connection lines naming them, the first possibly empty or white space); a follow-up request is usually the previous one with exactly one component changed (method, one segment, arity, keyword, spelling, header set); sent from IPv4/IPv6 loopback peers to the http.Server websvc.New builds for a linked_ip bind, recording backend whose answer is scripted per request (200, other final statuses, redirects 301/302/303/307/308 with Location outside / inside the API, relative / absolute, to the backend itself or to another harness listener); non-trivial = reached the backend, or has a dot/encoded/empty segment, or carries a forged header; distinct by (method, target, version, header names, peer family, base)",
		"fwd:get-linkip", "fwd:get-linkip-status", "fwd:post-linkip", "fwd:post-ddns",
		"local-404", "robots", "rejected-near-miss", "path:dot-segment", "path:encoded-dot-segment",
		"forwarded+forged-header", "forwarded+client-sent-x-connecting-ip", "forwarded+connection-names-client-ip",
		"forwarded+peer-ipv4", "forwarded+peer-ipv6", "forwarded+base-path",
		"forwarded+forged-zero-or-empty-value", "forwarded+chunked-body",
		"forwarded+connection-first-line-empty-later-names-client-ip", "forwarded+repeated-header-line",
		"forwarded+tls-bind",
		"backend-answered-with-a-redirect", "redirect+get-linkip", "redirect+get-linkip-status", "redirect+post-linkip", "redirect+post-ddns",
		"redirect:301", "redirect:302", "redirect:303", "redirect:307", "redirect:308",
		"redirect-to:relative-outside-api", "redirect-to:relative-inside-api", "redirect-to:absolute-same-backend", "redirect-to:absolute-other-listener",
		"seq:forwarded-after-local-same-conn", "seq:local-after-forwarded-same-conn", "seq:forwarded-after-forwarded-same-conn",
		"variant-forwarded", "variant-answered-locally")
	st.Finish(t)

	fx := vc19NewFixture(t)
	caseN := 0

	rapid.Check(t, func(t *rapid.T) {
		fr := rapid.SampledFrom(fx.fronts).Draw(t, "front")

		cl := &vc19Client{addr: fr.addr4, tls: fr.tls}
		fam, self := "ipv4", ""
		if fr.addr6 != "" && rapid.IntRange(0, 2).Draw(t, "peer-v6") == 0 {
			cl.addr, fam, self = fr.addr6, "ipv6", "::1"
		} else {
			cl.local = net.IPv4(127, 0, 0, byte(rapid.IntRange(1, 8).Draw(t, "peer-v4-host")))
			self = cl.local.String()
		}

		defer cl.close()

		n := rapid.SampledFrom([]int{1, 1, 2, 2, 3}).Draw(t, "seq-len")
		var prevReq *vc19Req
		prevOutcome := ""
		for i := 0; i < n; i++ {
			var req *vc19Req
			if prevReq != nil && rapid.IntRange(0, 9).Draw(t, "follow-up-variant") < 7 {
				req = vc19Vary(t, prevReq)
			} else {
				req = vc19GenReqFor(t, self)
			}

			caseN++
			plan := vc19GenPlan(t, fx.backendURL, fx.otherURL)
			outcome, reused := vc19WireOne(t, st, fx, fr, cl, fam, req, plan, strconv.Itoa(caseN))
			if reused && prevOutcome != "" && outcome != "rejected" && prevOutcome != "rejected" {
				st.Class("seq:" + outcome + "-after-" + prevOutcome + "-same-conn")
			}

			prevReq, prevOutcome = req, outcome
		}
	})
}

// vc19GenPlan draws the backend's answer to the next request: mostly 200, some
// other final statuses, and redirects of every kind with Location targets
// outside and inside the API, relative and absolute, on the backend itself and
// on another listener.  A proxy relays such an answer; it does not act on it.
func vc19GenPlan(t *rapid.T, backendURL, otherURL string) (p vc19Plan) {
	switch k := rapid.IntRange(0, 9).Draw(t, "backend-answer"); {
	case k < 6:
		return vc19Plan{Status: http.StatusOK}
	case k < 7:
		return vc19Plan{Status: rapid.SampledFrom([]int{204, 400, 403, 404, 500, 503}).Draw(t, "backend-status")}
	}

	p.Status = rapid.SampledFrom([]int{301, 302, 303, 307, 308}).Draw(t, "redirect-status")
	switch rapid.IntRange(0, 7).Draw(t, "redirect-target") {
	case 0:
		p.Kind, p.Location = "relative-outside-api", "/account"
	case 1:
		p.Kind, p.Location = "relative-outside-api", rapid.SampledFrom([]string{"/", "/account/settings?x=1", "/admin", "../../secret"}).Draw(t, "loc")
	case 2:
		p.Kind, p.Location = "relative-inside-api", rapid.SampledFrom([]string{"/linkip/dev9/enc9", "/linkip/dev9/enc9/status", "/ddns/dev9/enc9/example.org"}).Draw(t, "loc")
	case 3:
		p.Kind, p.Location = "relative-no-slash", rapid.SampledFrom([]string{"status", "other", "."}).Draw(t, "loc")
	case 4:
		p.Kind, p.Location = "absolute-same-backend", backendURL+rapid.SampledFrom([]string{"/account", "/", "/linkip/dev9/enc9"}).Draw(t, "loc")
	case 5:
		p.Kind, p.Location = "absolute-other-listener", otherURL+rapid.SampledFrom([]string{"/account", "/linkip/dev9/enc9", "/ddns/dev9/enc9/example.org"}).Draw(t, "loc")
	case 6:
		p.Kind, p.Location = "scheme-relative-other-listener", strings.TrimPrefix(otherURL, "http:")+"/x"
	default:
		p.Kind, p.Location = "absolute-other-listener", otherURL+"/"
	}

	return p
}

// vc19WireOne sends one request of a case and judges it.  outcome is
// "forwarded", "local" or "rejected" (by net/http, before the handler).
func vc19WireOne(
	t *rapid.T,
	st *vstat.Stats,
	fx *vc19Fixture,
	fr *vc19Front,
	cl *vc19Client,
	fam string,
	req *vc19Req,
	plan vc19Plan,
	caseID string,
) (outcome string, reused bool) {
	// Nothing may be left over from an earlier request.
	if recs := fx.backend.take(); len(recs) != 0 {
		t.Fatalf("harness anomaly: backend got %d requests between cases: %+v", len(recs), recs)
	}

	fr.tap.take()
	fx.errs.take()

	fx.backend.setPlan(&plan)

	wire := req.vc19Bytes(caseID)
	resp, reused, timedOut, err := cl.do(req.Method, wire)
	fx.backend.setPlan(nil)
	recs := fx.backend.take()
	calls := fr.tap.take()
	perrs := fx.errs.take()

	desc := fmt.Sprintf("request %q from %s peer %s to front base=%q (connection reused: %v, differs from the previous request in: %q; backend scripted to answer %d Location=%q)",
		wire, fam, resp.Local, fr.base, reused, req.Variant, plan.Status, plan.Location)

	if timedOut {
		fmt.Printf("VERIF-INCONCLUSIVE: time-out talking to the front server: %v (%s)\n", err, desc)
		t.Fatalf("VERIF-INCONCLUSIVE: time-out: %v", err)
	}

	if len(perrs) != 0 {
		fmt.Printf("VERIF-INCONCLUSIVE: proxy could not reach the recording backend: %v (%s)\n", perrs, desc)
		t.Fatalf("VERIF-INCONCLUSIVE: proxy error: %v", perrs)
	}

	classes := []string{"peer-" + fam, "method:" + vc19MethodClass(req.Method), "tmpl:" + req.Template}
	classes = append(classes, req.PathClasses...)
	if len(req.Forged) > 0 {
		classes = append(classes, "hdr:forged")
	}

	if req.ConnListsCIP {
		classes = append(classes, "hdr:connection-names-client-ip")
	}

	if req.AbsoluteTarget {
		classes = append(classes, "target:absolute-form")
	}

	if req.Proto == "HTTP/1.0" {
		classes = append(classes, "proto:1.0")
	}

	if req.Chunked {
		classes = append(classes, "body:chunked")
	}

	if req.Variant != "" {
		classes = append(classes, "variant:"+req.Variant)
	}

	if reused {
		classes = append(classes, "conn:reused")
	}

	interesting := len(req.PathClasses) > 0 || len(req.Forged) > 0 || req.ConnListsCIP
	done := func(extra ...string) {
		key := ""
		if interesting {
			key = req.vc19Key(fam + " " + fr.base)
		}

		st.Case(key, append(classes, extra...)...)
	}

	// --- the server refused the request before the handler saw it.
	if len(calls) == 0 {
		if len(recs) != 0 {
			t.Fatalf("backend contacted although the handler was never invoked: %+v; %s", recs, desc)
		}

		if err != nil {
			// A request line net/http cannot even answer (it closes the
			// connection); nothing was forwarded, nothing to judge.
			done("server-rejected", "server-rejected:no-response")

			return "rejected", reused
		}

		done("server-rejected", fmt.Sprintf("server-rejected:%d", resp.Status))

		return "rejected", reused
	}

	if err != nil {
		t.Fatalf("handler invoked but no readable response: %v; %s", err, desc)
	}

	if len(calls) > 1 {
		t.Fatalf("harness anomaly: handler invoked %d times for one request; %s", len(calls), desc)
	}

	call := calls[0]
	if len(recs) > 1 {
		t.Fatalf("%d requests reached the harness listeners for one client request; only the client's own request may: %s; %s",
			len(recs), vc19RecList(recs), desc)
	}

	for _, rec := range recs {
		if rec.CaseID != caseID {
			t.Fatalf("harness anomaly: backend request of case %q seen in case %s; %s", rec.CaseID, caseID, desc)
		}
	}

	// --- answered locally.
	if len(recs) == 0 {
		isRobots := resp.Status == http.StatusOK && call.Path == "/robots.txt" &&
			(resp.Body == agdhttp.RobotsDisallowAll || req.Method == http.MethodHead)
		switch {
		case resp.Status == http.StatusNotFound:
			classes = append(classes, "local-404")
			if req.Template != "free" && req.Template != "robots" && req.Template != "root" && req.Mutated > 0 {
				classes = append(classes, "rejected-near-miss")
			}
		case isRobots:
			classes = append(classes, "robots")
		default:
			t.Fatalf("not forwarded, but answered with status %d body %q instead of 404 / robots; handler saw %s %q; %s",
				resp.Status, resp.Body, call.Method, call.Path, desc)
		}

		if req.Variant != "" {
			classes = append(classes, "variant-answered-locally")
		}

		done()

		return "local", reused
	}

	// --- forwarded.
	interesting = true
	rec := recs[0]
	if rec.Srv != "backend" {
		t.Fatalf("the proxy sent %s %q to a listener that is not its target; %s", rec.Method, rec.URI, desc)
	}

	if rec.Method != req.Method || (rec.Method != http.MethodGet && rec.Method != http.MethodPost) {
		t.Fatalf("backend contacted with method %q (client sent %q): only GET and POST are forwarded; backend saw %q; %s",
			rec.Method, req.Method, rec.URI, desc)
	}

	rawBackendPath, _, _ := strings.Cut(rec.URI, "?")
	pv := vc19JudgePath(rec.Method, fr.base, rec.Path, rawBackendPath)
	if pv.Shape == "" {
		t.Fatalf("backend contacted with %s %q (decoded %q), which is none of the four documented shapes under base %q; %s",
			rec.Method, rec.URI, rec.Path, fr.base, desc)
	}

	classes = append(classes, "fwd:"+pv.Shape, "forwarded+peer-"+fam)
	if fr.tls {
		classes = append(classes, "forwarded+tls-bind")
	}

	if fr.base != "" {
		classes = append(classes, "forwarded+base-path")
	}

	for _, c := range req.PathClasses {
		classes = append(classes, "forwarded+"+c)
		if c == "path:dot-segment" || c == "path:encoded-dot-segment" {
			st.Extra("forwarded_with_dot_class:"+req.Method+" "+req.RawPath, rec.URI)
		}
	}

	if pv.EscapesAll {
		if st.Known(vc19KnownDotSeg) {
			classes = append(classes, "known:dot-segment-escape")
		} else {
			t.Fatalf("backend contacted with %s %q (decoded %q): after dot-segment normalisation the path is %q, outside %s/{linkip,ddns}/; %s",
				rec.Method, rec.URI, rec.Path, pv.Norms, fr.base, desc)
		}
	} else if pv.EscapesSome {
		classes = append(classes, "forwarded+escape-depends-on-reading")
	}

	// Client address.
	cip := rec.Hdr.Values("X-Connecting-Ip")
	switch {
	case len(cip) == 0 && req.ConnListsCIP && st.Known(vc19KnownHopByHop):
		classes = append(classes, "known:client-ip-hop-by-hop")
	case len(cip) != 1:
		t.Fatalf("forwarded request carries X-Connecting-IP values %q, want exactly the peer address %s; backend headers %v; %s",
			cip, resp.Local, rec.Hdr, desc)
	default:
		got, perr := netip.ParseAddr(cip[0])
		if perr != nil || got.Unmap().WithZone("") != resp.Local.WithZone("") {
			t.Fatalf("forwarded request carries X-Connecting-IP %q, but the connecting peer is %s; backend headers %v; %s",
				cip[0], resp.Local, rec.Hdr, desc)
		}
	}

	// The handler must have been shown the same peer by net/http (sanity
	// of the observation point).
	if ap, aerr := netip.ParseAddrPort(call.Remote); aerr != nil || ap.Addr().Unmap().WithZone("") != resp.Local.WithZone("") {
		t.Fatalf("harness anomaly: handler RemoteAddr %q is not the client socket %s; %s", call.Remote, resp.Local, desc)
	}

	// Forged forwarding headers.
	if name, v, bad := vc19ForgedAtBackend(req, rec.Hdr); bad {
		t.Fatalf("forwarded request carries client-supplied %s: %q; backend headers %v; %s", name, v, rec.Hdr, desc)
	}

	// Trailer fields are not header fields for any mainstream backend: a
	// forged one that reaches the backend is counted, not judged.
	for _, name := range vc19FwdNames {
		for _, v := range rec.Trailer.Values(name) {
			if vc19HasMarker(v) {
				classes = append(classes, "forwarded+forged-trailer-field-reached-backend")
			}
		}
	}

	if len(req.Forged) > 0 {
		classes = append(classes, "forwarded+forged-header")
	}

	if req.ZeroForged {
		classes = append(classes, "forwarded+forged-zero-or-empty-value")
	}

	if req.SentOwnCIP {
		classes = append(classes, "forwarded+client-sent-x-connecting-ip")
	}

	if req.ConnListsCIP {
		classes = append(classes, "forwarded+connection-names-client-ip")
	}

	if req.ConnFirstEmptyLaterCIP {
		classes = append(classes, "forwarded+connection-first-line-empty-later-names-client-ip")
	}

	if req.RepeatedLine {
		classes = append(classes, "forwarded+repeated-header-line")
	}

	if req.Chunked {
		classes = append(classes, "forwarded+chunked-body")
	}

	if req.Variant != "" {
		classes = append(classes, "variant-forwarded")
	}

	if resp.Status == http.StatusOK {
		classes = append(classes, "forwarded+client-got-200")
	}

	// What the client gets for a redirecting backend is not part of the
	// statement (which limits what reaches the backend; that is judged above:
	// one request, the client's own); whether the redirect came through
	// unchanged is only counted.
	if plan.redirect() {
		if resp.Status == plan.Status && resp.Location == plan.Location {
			classes = append(classes, "redirect-relayed-unchanged")
		} else {
			classes = append(classes, "redirect-not-relayed-unchanged")
		}

		classes = append(classes, "backend-answered-with-a-redirect", "redirect:"+strconv.Itoa(plan.Status),
			"redirect-to:"+plan.Kind, "redirect+"+pv.Shape)
	} else if plan.Status != http.StatusOK {
		classes = append(classes, "backend-answered-with-another-status")
	}

	if st.WantSample() && len(wire) < 400 && (len(req.PathClasses) > 0 || req.ConnListsCIP) {
		st.Sample(map[string]any{
			"request":         string(wire),
			"peer":            resp.Local.String(),
			"base":            fr.base,
			"backend_uri":     rec.URI,
			"backend_path":    rec.Path,
			"x_connecting_ip": cip,
			"normalised":      pv.Norms,
			"status":          resp.Status,
		})
	}

	done()

	return "forwarded", reused
}

// vc19RecList renders what the harness listeners received.
func vc19RecList(recs []vc19Rec) (s string) {
	parts := make([]string, 0, len(recs))
	for _, r := range recs {
		parts = append(parts, fmt.Sprintf("[%s listener: %s %q X-Connecting-Ip=%q]", r.Srv, r.Method, r.URI, r.Hdr.Values("X-Connecting-Ip")))
	}

	return strings.Join(parts, " ")
}

// vc19ForgedAtBackend reports a forwarding header of the backend request whose
// value was supplied by the client: it carries a marker, or it is one of the
// values the client sent under that name (empty, zero address, another
// peer's address; never the client's own address), alone or as a list element.
// X-Connecting-IP is judged by the exact-value check instead.
func vc19ForgedAtBackend(req *vc19Req, hdr http.Header) (name, value string, bad bool) {
	for _, name = range vc19FwdNames {
		for _, v := range hdr.Values(name) {
			if vc19HasMarker(v) {
				return name, v, true
			}

			if name == "X-Connecting-Ip" {
				continue
			}

			for _, sent := range req.Sent[name] {
				if v == sent {
					return name, v, true
				}

				if sent == "" {
					continue
				}

				for _, el := range strings.Split(v, ",") {
					if strings.TrimSpace(el) == sent {
						return name, v, true
					}
				}
			}
		}
	}

	return "", "", false
}

func vc19MethodClass(m string) (c string) {
	switch m {
	case http.MethodGet, http.MethodPost, http.MethodHead:
		return m
	}

	if strings.EqualFold(m, "get") || strings.EqualFold(m, "post") {
		return "odd-case"
	}

	return "other"
}

// ---------------------------------------------------------------------------
// decision property (no sockets)

func TestVerifC19Decide(t *testing.T) {
	st := vstat.New("C19", "websvc.decide",
		"the same generator's (method, raw target) parsed by url.ParseRequestURI (what net/http hands to the handler) and given to shouldProxy; oracle = documented shape + dot-segment normalisation of the path the reverse proxy would send; non-trivial = accepted, or has a dot/encoded/empty segment; distinct by (method, raw path)",
		"accepted:get-linkip", "accepted:get-linkip-status", "accepted:post-linkip", "accepted:post-ddns",
		"refused", "refused-near-miss", "path:dot-segment", "path:encoded-dot-segment", "path:encoded-slash")
	st.Finish(t)

	// Accepted paths that leave the prefix under some but not all readings of
	// "normalisation": reported, not judged.
	readingDep := map[string][]string{}

	rapid.Check(t, func(t *rapid.T) {
		req := vc19GenReq(t)
		classes := append([]string{"method:" + vc19MethodClass(req.Method), "tmpl:" + req.Template}, req.PathClasses...)

		u, err := url.ParseRequestURI(req.Target)
		if err != nil {
			st.Case("", append(classes, "unparsable-target")...)

			return
		}

		ok := shouldProxy(req.Method, u.Path)
		key := ""
		if ok || len(req.PathClasses) > 0 {
			key = req.Method + " " + req.RawPath
		}

		if !ok {
			classes = append(classes, "refused")
			if req.Template != "free" && req.Template != "robots" && req.Template != "root" && req.Mutated > 0 {
				classes = append(classes, "refused-near-miss")
			}

			st.Case(key, classes...)

			return
		}

		if req.Method != http.MethodGet && req.Method != http.MethodPost {
			t.Fatalf("shouldProxy(%q, %q) = true: only GET and POST are forwarded (target %q)", req.Method, u.Path, req.Target)
		}

		// What httputil.ProxyRequest.SetURL sends for an empty base path: the
		// escaped path of the inbound URL.
		pv := vc19JudgePath(req.Method, "", u.Path, u.EscapedPath())
		if pv.Shape == "" {
			t.Fatalf("shouldProxy(%q, %q) = true, but the path is none of the four documented shapes (target %q)",
				req.Method, u.Path, req.Target)
		}

		classes = append(classes, "accepted:"+pv.Shape)
		for _, c := range req.PathClasses {
			classes = append(classes, "accepted+"+c)
		}

		if pv.EscapesAll {
			if st.Known(vc19KnownDotSeg) {
				classes = append(classes, "known:dot-segment-escape")
			} else {
				t.Fatalf("shouldProxy(%q, %q) = true (target %q): after dot-segment normalisation the forwarded path is %q, outside /linkip/ and /ddns/",
					req.Method, u.Path, req.Target, pv.Norms)
			}
		} else if pv.EscapesSome {
			classes = append(classes, "accepted+escape-depends-on-reading")
			if len(readingDep) < 12 && len(req.RawPath) < 80 {
				readingDep[req.Method+" "+req.RawPath] = pv.Norms
				st.Extra("reading_dependent_examples", readingDep)
			}
		}

		if st.WantSample() && len(req.Target) < 80 && len(req.PathClasses) > 0 {
			st.Sample(map[string]any{"method": req.Method, "target": req.Target, "path": u.Path, "normalised": pv.Norms})
		}

		st.Case(key, classes...)
	})
}
